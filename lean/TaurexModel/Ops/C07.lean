import TaurexModel.Proto
import TaurexModel.OptimizerSM
import TaurexModel.FittingSection
import TaurexModel.Ops.C08

namespace Taurex.Ops.C07
open Taurex.Proto Taurex.Priors Taurex.OptimizerSM Taurex.FittingSection

abbrev S := St String Float

def modeP : P FitMode := do
  let n ← nat
  pure (if n == 0 then FitMode.linear else FitMode.log)

def paramP : P (Param String Float) := do
  let name ← tok
  let mode ← modeP
  let fit ← bool
  let b0 ← flt
  let b1 ← flt
  let v ← flt
  pure ⟨name, mode, fit, b0, b1, v⟩

def derivedP : P (Derived String) := do
  let name ← tok
  let c ← bool
  pure ⟨name, c⟩

/-- a prior given by the constructor call the harness made:
    0 `Uniform(bounds)` 1 `LogUniform(bounds)` 2 `LogUniform(lin_bounds)` 3 `Gaussian(mean,std)`
    4 `LogGaussian(mean,std)` 5 `LogGaussian(lin_mean,std)`; fails where the Python constructor raises -/
def priorCtorP : P (Prior Float) := do
  let k ← nat
  let a ← flt
  let b ← flt
  match k with
  | 0 => pure (mkUniform a b)
  | 1 => pure (mkLogUniform a b)
  | 2 => match mkLogUniformLin a b with
    | some p => pure p
    | none => failure
  | 3 => pure (mkGaussian a b)
  | 4 => match mkLogGaussian a b none none with
    | some p => pure p
    | none => failure
  | 5 => match mkLogGaussian 0 b (some a) none with
    | some p => pure p
    | none => failure
  | _ => failure

def opP : P (Op String Float) := do
  let k ← nat
  match k with
  | 0 => do let n ← tok; pure (.enableFit n)
  | 1 => do let n ← tok; pure (.disableFit n)
  | 2 => do let n ← tok; let m ← tok; pure (.setMode n m)
  | 3 => do let n ← tok; let a ← flt; let b ← flt; pure (.setBoundary n a b)
  | 4 => do let n ← tok; let a ← flt; let b ← flt; pure (.setFactorBoundary n a b)
  | 5 => do let n ← tok; let p ← priorCtorP; pure (.setPrior n p)
  | 6 => do let n ← tok; pure (.enableDerived n)
  | 7 => do let n ← tok; pure (.disableDerived n)
  | 8 => pure .compile
  | 9 => do let v ← listOf flt; pure (.updateModel v)
  | _ => failure

def fOut : Out → String
  | .ok => "0"
  | .keyError => "1"
  | .valueError => "2"

def fMode : FitMode → String
  | .linear => "0"
  | .log => "1"

def fParam (p : Param String Float) : String :=
  s!"{fMode p.mode} {fB p.fit} {fF p.b0} {fF p.b1} {fF p.value}"

def fPrior (z10 z90 : Float) (p : Prior Float) : String :=
  let ppf : Float → Float := fun u => if u == 0.1 then z10 else z90
  let (lo, hi) := p.boundaries ppf
  let (k, a, b) : Nat × Float × Float := match p with
    | .uniform a b => (0, a, b)
    | .logUniform a b => (1, a, b)
    | .gaussian a b => (2, a, b)
    | .logGaussian a b => (3, a, b)
  s!"{k} {fF a} {fF b} {fF lo} {fF hi}"

/-- `'log_{}'.format(name)` -/
def fName (x : Bool × String) : String := if x.1 then "log_" ++ x.2 else x.2

/-- everything the harness compares after a step -/
def fObs (z10 z90 : Float) (s : S) (o : Out) : String :=
  " ".intercalate [
    fOut o,
    fList fParam s.model,
    fList fParam s.obs,
    fList (fun d => fB d.compute) s.dmodel,
    fList (fun d => fB d.compute) s.dobs,
    fOpt (fList fName) (fitNames s),
    fOpt (fList fF) (fitValues s),
    fOpt (fList (fun b => fF b.1 ++ " " ++ fF b.2)) (fitBoundaries s),
    fList (fPrior z10 z90) s.compiledPriors,
    fList id s.derivedCompiled ]

def trace (stepF : S → Op String Float → S × Out) (z10 z90 : Float) : S → List (Op String Float) → List String
  | _, [] => []
  | s, op :: ops =>
    let r := stepF s op
    fObs z10 z90 r.1 r.2 :: trace stepF z10 z90 r.1 ops

/-- `c07.run z10 z90 model obs dmodel dobs ops` → number of steps + 1, then one observation per state
    (the initial one first) -/
def runOp (pinned : Bool) (args : List String) : Option String :=
  run (do
    let z10 ← flt
    let z90 ← flt
    let model ← listOf paramP
    let obs ← listOf paramP
    let dmodel ← listOf derivedP
    let dobs ← listOf derivedP
    let ops ← listOf opP
    let s0 : S := initSt model obs dmodel dobs
    let stepF := if pinned then stepPinned else step
    let obsv := fObs z10 z90 s0 .ok :: trace stepF z10 z90 s0 ops
    pure (fList id obsv)) args

/-- `c07.implied z10 z90 model obs dmodel dobs userpriors(list of name ctor)` → out, entries (owner name mode b0 b1),
    priors, derived names, implied names — the specification evaluated on given settings -/
def impliedOp (args : List String) : Option String :=
  run (do
    let z10 ← flt
    let z90 ← flt
    let model ← listOf paramP
    let obs ← listOf paramP
    let dmodel ← listOf derivedP
    let dobs ← listOf derivedP
    let user ← listOf (do let n ← tok; let p ← priorCtorP; pure (n, p))
    let tbl : Table String Float := user.foldl (fun t np => tset t np.1 np.2) []
    let (v, o) := implied (⟨model, obs, dmodel, dobs, tbl⟩ : Settings String Float)
    let fEntry : Entry String Float → String := fun e =>
      s!"{if e.owner = Owner.model then 0 else 1} {e.name} {fMode e.mode} {fF e.b0} {fF e.b1}"
    pure (" ".intercalate [fOut o, fList fEntry v.entries, fList (fPrior z10 z90) v.priors, fList id v.derived,
                           fList fName (impliedNames v)])) args

/-! ### `[Fitting]` / `[Derive]` sections -/

def digitsToNat (cs : List Char) : Nat := cs.foldl (fun n c => 10 * n + (c.toNat - '0'.toNat)) 0

/-- value of a number literal of the documented form (what Python's `float()` gives, up to rounding) -/
def litToFloat (s : String) : Option Float :=
  match lexNumber s.toList with
  | some (_, _ :: _) => none
  | none => none
  | some (_, []) =>
    let sg := takeSign s.toList
    let neg := sg.1 == ['-']
    let ip := spanP isDigitsChar sg.2
    let (fp, rest) : List Char × List Char := match ip.2 with
      | '.' :: r => let f := spanP isDigitsChar r; (f.1, f.2)
      | r => ([], r)
    let ex : Int := match rest with
      | _ :: r =>
        let es := takeSign r
        let d : Int := digitsToNat (spanP isDigitsChar es.2).1
        if es.1 == ['-'] then -d else d
      | [] => 0
    let m := digitsToNat (ip.1 ++ fp)
    let e : Int := ex - fp.length
    let v : Float := if e < 0 then Float.ofScientific m true e.natAbs else Float.ofScientific m false e.natAbs
    some (if neg then -v else v)

/-- `create_prior(value)` on a typed section value: only a string can be parsed -/
def mkPriorF : OptVal Float → Option (Prior Float)
  | .str s =>
    match parsePrior s with
    | none => none
    | some c =>
      let conv : ArgVal String → Option (ArgVal Float) := fun v => match v with
        | .num x => (litToFloat x).map ArgVal.num
        | .tuple xs => (xs.mapM litToFloat).map ArgVal.tuple
        | .list xs => (xs.mapM litToFloat).map ArgVal.list
      match c.args.mapM (fun a => (conv a.2).map (fun v => (a.1, v))) with
      | none => none
      | some as =>
        match createPrior (0.5 : Float) 0.25 ⟨c.fn, as⟩ with
        | .ok p => some p
        | _ => none
  | _ => none

def optValP : P (OptVal Float) := do
  let k ← nat
  match k with
  | 0 => do let b ← bool; pure (.bool b)
  | 1 => do let x ← flt; pure (.num x)
  | 2 => do let s ← Taurex.Ops.C08.str; pure (.str s)
  | 3 => do let xs ← listOf flt; pure (.nums xs)
  | 4 => do let xs ← listOf Taurex.Ops.C08.str; pure (.strs xs)
  | _ => failure

def entryP : P (String × OptVal Float) := do
  let k ← Taurex.Ops.C08.str
  let v ← optValP
  pure (k, v)

def fSetupOut : SetupOut → String
  | .ok => "0"
  | .keyError => "1"
  | .valueError => "2"
  | .priorError => "3"
  | .unsupported => "4"

/-- `code name a b text priorkind pa pb` -/
def fOp (op : OptimizerSM.Op String Float) : String :=
  let z := fF 0
  let noP := s!"9 {z} {z}"
  let fP : Prior Float → String := fun p => match p with
    | .uniform a b => s!"0 {fF a} {fF b}"
    | .logUniform a b => s!"1 {fF a} {fF b}"
    | .gaussian a b => s!"2 {fF a} {fF b}"
    | .logGaussian a b => s!"3 {fF a} {fF b}"
  let e := Taurex.Ops.C08.esc
  match op with
  | .enableFit n => s!"0 {e n} {z} {z} - {noP}"
  | .disableFit n => s!"1 {e n} {z} {z} - {noP}"
  | .setMode n m => s!"2 {e n} {z} {z} {e m} {noP}"
  | .setBoundary n a b => s!"3 {e n} {fF a} {fF b} - {noP}"
  | .setFactorBoundary n a b => s!"4 {e n} {fF a} {fF b} - {noP}"
  | .setPrior n p => s!"5 {e n} {z} {z} - {fP p}"
  | .enableDerived n => s!"6 {e n} {z} {z} - {noP}"
  | .disableDerived n => s!"7 {e n} {z} {z} - {noP}"
  | .compile => s!"8 - {z} {z} - {noP}"
  | .updateModel _ => s!"9 - {z} {z} - {noP}"

/-- `c07.setup z10 z90 model obs dmodel dobs fitting derive` → outcome of `setup_optimizer`, the calls made,
    the observation after it, the outcome of a following `compile_params` and the observation after that,
    and the specification `implied (sectionSettings …)` when the sections group (view as in `c07.implied`) -/
def setupOp (args : List String) : Option String :=
  run (do
    let z10 ← flt
    let z90 ← flt
    let model ← listOf paramP
    let obs ← listOf paramP
    let dmodel ← listOf derivedP
    let dobs ← listOf derivedP
    let fitting ← listOf entryP
    let derive ← listOf entryP
    let s0 : S := initSt model obs dmodel dobs
    let r := setupOptimizer mkPriorF s0 fitting derive
    let c := step r.1 .compile
    let spec : String := match parseFitting mkPriorF fitting [], splitAll derive with
      | .ok grp, some dl =>
        let (v, o) := implied (sectionSettings s0 grp (deriveRecs dl []))
        let fEntry : Entry String Float → String := fun e =>
          s!"{if e.owner = Owner.model then 0 else 1} {e.name} {fMode e.mode} {fF e.b0} {fF e.b1}"
        "1 " ++ " ".intercalate [fOut o, fList fEntry v.entries, fList (fPrior z10 z90) v.priors, fList id v.derived,
                                 fList fName (impliedNames v)]
      | _, _ => "0"
    pure (" ".intercalate [fSetupOut r.2.1, fList fOp r.2.2, fObs z10 z90 r.1 .ok, fObs z10 z90 c.1 c.2, spec])) args

/-- `c07.table decls hist` → `0` when a declaration (name declared twice) or a `modify_bounds` (undeclared name) raises,
    else `1` + the table the optimizer must see: `name mode fit b0 b1` per entry, in declaration order
    (`TaurexModel/FittableTable.lean`; declarations on the wire as in `c08.declared`) -/
def tableOp (args : List String) : Option String :=
  run (do
    let decls ← listOf Taurex.Ops.C08.declP
    let hist ← listOf (do let n ← Taurex.Ops.C08.str; let a ← flt; let b ← flt; pure (n, a, b))
    match Taurex.FittableTable.declaredTable decls hist with
    | none => pure "0"
    | some t =>
      pure ("1 " ++ fList (fun (e : Taurex.FittableTable.Entry Float) =>
        s!"{Taurex.Ops.C08.esc e.name} {fMode e.mode} {fB e.fit} {fF e.b0} {fF e.b1}") t)) args

def ops : List Taurex.Proto.Op :=
  [("c07.run", runOp false), ("c07.run_pinned", runOp true), ("c07.implied", impliedOp), ("c07.setup", setupOp),
   ("c07.table", tableOp)]

end Taurex.Ops.C07
