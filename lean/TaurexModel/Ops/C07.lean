import TaurexModel.Proto

namespace Taurex.Ops.C07
open Taurex.Proto

/-- operations of the C07 model served by `driver_c07` (filled in by the C07 check) -/
def ops : List Op := []

end Taurex.Ops.C07
