import TaurexModel.Proto

namespace Taurex.Ops.C14
open Taurex.Proto

/-- operations of the C14 model served by `driver_c14` (filled in by the C14 check) -/
def ops : List Op := []

end Taurex.Ops.C14
