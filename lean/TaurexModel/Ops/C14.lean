import TaurexModel.Proto
import TaurexModel.Interp
import TaurexModel.Loaders
import TaurexModel.Sanitize
import TaurexModel.CacheSM
import TaurexModel.CacheConf

namespace Taurex.Ops.C14
open Taurex.Proto Taurex.Interp Taurex.Loaders Taurex.Sanitize Taurex.CacheSM

/-! wire helpers -/

def str : P String := do
  let t ← tok
  pure (if t == "%e" then "" else t)

def fS (s : String) : String := if s.isEmpty then "%e" else s

def modeP : P Mode := do
  let n ← nat
  pure (if n == 0 then Mode.linear else Mode.exp)

def l1 : P (List Float) := listOf flt
def l2 : P (List (List Float)) := listOf l1
def l3 : P (List (List (List Float))) := listOf l2
def l4 : P (List (List (List (List Float)))) := listOf l3

def f1 (l : List Float) : String := fList fF l
def f2 (l : List (List Float)) : String := fList f1 l
def f3 (l : List (List (List Float))) : String := fList f2 l
def f4 (l : List (List (List (List Float)))) : String := fList f3 l

def fXTab (tab : XTab Float) : String := s!"{f1 tab.wn} {f1 tab.t} {f1 tab.p} {f3 tab.x}"
def fCTab (tab : CTab Float) : String := s!"{f1 tab.wn} {f1 tab.t} {f2 tab.x}"
def fKTab (tab : KTab Float) : String := s!"{f1 tab.wn} {f1 tab.t} {f1 tab.p} {f4 tab.k} {f1 tab.weights}"

def xtabP : P (XTab Float) := do
  let wn ← l1; let t ← l1; let p ← l1; let x ← l3
  pure { wn := wn, t := t, p := p, x := x }

def ctabP : P (CTab Float) := do
  let wn ← l1; let t ← l1; let x ← l2
  pure { wn := wn, t := t, x := x }

def ktabP : P (KTab Float) := do
  let wn ← l1; let t ← l1; let p ← l1; let k ← l4; let w ← l1
  pure { wn := wn, t := t, p := p, k := k, weights := w }

/-! names -/

/-- `c14.sanitize s` -/
def sanitizeOp (args : List String) : Option String :=
  run (do
    let s ← str
    pure (fS (sanitizeStr s))) args

def nameFmtP : P NameFmt := do
  let n ← nat
  match n with
  | 0 => pure .pickleXsec
  | 1 => pure .exo
  | 2 => pure .hdfK
  | 3 => pure .pickleK
  | 4 => pure .cia
  | _ => failure

/-- `c14.names fmt fname stored` → discovered name, object name -/
def namesOp (args : List String) : Option String :=
  run (do
    let f ← nameFmtP
    let fname ← str
    let stored ← str
    pure s!"{fS (String.ofList (discName f fname.toList))} {fS (String.ofList (objName f fname.toList stored.toList))}") args

/-- `c14.stem fname` -/
def stemOp (args : List String) : Option String :=
  run (do
    let fname ← str
    pure (fS (String.ofList (stem fname.toList)))) args

/-- `c14.partners pair` → `pairOne pairTwo` (the collision partners of a CIA pair name) -/
def partnersOp (args : List String) : Option String :=
  run (do
    let pair ← str
    pure s!"{fS (String.ofList (pairOne pair.toList))} {fS (String.ofList (pairTwo pair.toList))}") args

/-- `c14.unit fallback name` → optional factor -/
def unitOp (args : List String) : Option String :=
  run (do
    let fb ← bool
    let name ← str
    pure (fOpt fF (unitFactor (α := Float) fb name))) args

/-! cross-sections: decoded table followed by `opacity(T, P)` on the native grid -/

def xsecOut (tab : XTab Float) (mode : Mode) (t p : Float) : String :=
  s!"{fXTab tab} {f1 (tab.opacity mode t p)}"

/-- `c14.dec_pickle wno t p(bar) xsecarr mode T P` -/
def decPickleOp (args : List String) : Option String :=
  run (do
    let wno ← l1; let t ← l1; let p ← l1; let x ← l3
    let mode ← modeP; let tt ← flt; let pp ← flt
    pure (xsecOut (decPickle { wno := wno, t := t, p := p, xsecarr := x }) mode tt pp)) args

/-- `c14.dec_hdf units bin_edges t p xsecarr mode T P` → `0` when the reader raises -/
def decHdfOp (args : List String) : Option String :=
  run (do
    let units ← str
    let wno ← l1; let t ← l1; let p ← l1; let x ← l3
    let mode ← modeP; let tt ← flt; let pp ← flt
    match decHdf { binEdges := wno, t := t, p := p, units := units, xsecarr := x, molName := "" } with
    | none => pure "0"
    | some tab => pure ("1 " ++ xsecOut tab mode tt pp)) args

/-- `c14.dec_exo tiny trow prow body mode T P` -/
def decExoOp (args : List String) : Option String :=
  run (do
    let tiny ← flt
    let trow ← l1; let prow ← l1; let body ← l2
    let mode ← modeP; let tt ← flt; let pp ← flt
    pure (xsecOut (decExo tiny { trow := trow, prow := prow, body := body }) mode tt pp)) args

/-- `c14.enc_pickle tab` → wno t p xsecarr -/
def encPickleOp (args : List String) : Option String :=
  run (do
    let tab ← xtabP
    let f := encPickle tab
    pure s!"{f1 f.wno} {f1 f.t} {f1 f.p} {f3 f.xsecarr}") args

/-- `c14.enc_hdf units tab` → bin_edges t p xsecarr (needs a known unit) -/
def encHdfOp (args : List String) : Option String :=
  run (do
    let units ← str
    let tab ← xtabP
    match unitFactor (α := Float) true units with
    | none => failure
    | some c =>
      let f := encHdf units c "" tab
      pure s!"{f1 f.binEdges} {f1 f.t} {f1 f.p} {f3 f.xsecarr}") args

/-- `c14.enc_exo tab` → trow prow body -/
def encExoOp (args : List String) : Option String :=
  run (do
    let tab ← xtabP
    let f := encExo tab
    pure s!"{f1 f.trow} {f1 f.prow} {f2 f.body}") args

/-! k-tables -/

def ktabOut (tab : KTab Float) (mode : Mode) (t p : Float) : String :=
  s!"{fKTab tab} {f2 (tab.opacity mode t p)}"

/-- `c14.dec_kpickle bin_centers t p(bar) kcoeff weights mode T P` -/
def decPickleKOp (args : List String) : Option String :=
  run (do
    let wn ← l1; let t ← l1; let p ← l1; let k ← l4; let w ← l1
    let mode ← modeP; let tt ← flt; let pp ← flt
    pure (ktabOut (decPickleK { binCenters := wn, ngauss := w.length, t := t, p := p, kcoeff := k,
                                weights := w, name := "" }) mode tt pp)) args

/-- `c14.dec_khdf units bin_centers t p kcoeff weights mode T P` -/
def decHdfKOp (args : List String) : Option String :=
  run (do
    let units ← str
    let wn ← l1; let t ← l1; let p ← l1; let k ← l4; let w ← l1
    let mode ← modeP; let tt ← flt; let pp ← flt
    match decHdfK { binCenters := wn, ngauss := w.length, t := t, p := p, units := units, kcoeff := k,
                    weights := w } with
    | none => pure "0"
    | some tab => pure ("1 " ++ ktabOut tab mode tt pp)) args

/-- `c14.enc_kpickle tab` → bin_centers ngauss t p kcoeff weights -/
def encPickleKOp (args : List String) : Option String :=
  run (do
    let tab ← ktabP
    let f := encPickleK "" tab
    pure s!"{f1 f.binCenters} {f.ngauss} {f1 f.t} {f1 f.p} {f4 f.kcoeff} {f1 f.weights}") args

/-- `c14.enc_khdf units tab` -/
def encHdfKOp (args : List String) : Option String :=
  run (do
    let units ← str
    let tab ← ktabP
    match unitFactor (α := Float) true units with
    | none => failure
    | some c =>
      let f := encHdfK units c tab
      pure s!"{f1 f.binCenters} {f.ngauss} {f1 f.t} {f1 f.p} {f4 f.kcoeff} {f1 f.weights}") args

/-! CIA: decoded table followed by `compute_cia(T)` -/

def ciaOut (tab : CTab Float) (t : Float) : String := s!"{fCTab tab} {f1 (ciaCompute tab t)}"

/-- `c14.dec_cia_pickle wno t xsecarr T` -/
def decPickleCOp (args : List String) : Option String :=
  run (do
    let wn ← l1; let t ← l1; let x ← l2
    let tt ← flt
    pure (ciaOut (decPickleC { wno := wn, t := t, xsecarr := x }) tt)) args

def pairP : P (Float × Float) := do
  let a ← flt
  let b ← flt
  pure (a, b)

def blockP : P (HBlock Float) := do
  let wn0 ← flt; let wn1 ← flt; let temp ← flt; let mx ← flt
  let pts ← listOf pairP
  pure { pair := "", wn0 := wn0, wn1 := wn1, temp := temp, maxcia := mx, pts := pts }

/-- `c14.dec_hitran blocks T`; block = wn0 wn1 T max pts -/
def decHitranOp (args : List String) : Option String :=
  run (do
    let blocks ← listOf blockP
    let tt ← flt
    pure (ciaOut (decHitran blocks) tt)) args

/-- `c14.hitran_unified blocks` → the documented unified table of the file (`Loaders.hitranUnified`, the right-hand
    side of `Props/C14.lean:hitran_unified`) -/
def hitranUnifiedOp (args : List String) : Option String :=
  run (do
    let blocks ← listOf blockP
    pure (fCTab (hitranUnified blocks))) args

def fBlock (b : HBlock Float) : String :=
  s!"{fF b.wn0} {fF b.wn1} {fF b.temp} {fF b.maxcia} {fList (fun (q : Float × Float) => s!"{fF q.1} {fF q.2}") b.pts}"

/-- `c14.enc_hitran tab` → blocks -/
def encHitranOp (args : List String) : Option String :=
  run (do
    let tab ← ctabP
    pure (fList fBlock (encHitran "" tab))) args

/-! cache state machine -/

def fmtP : P Fmt := do
  let n ← nat
  match n with
  | 0 => pure .hdf
  | 1 => pure .pickle
  | 2 => pure .exo
  | 3 => pure .kpickle
  | 4 => pure .khdf
  | _ => failure

def entryP : P FileEntry := do
  let f ← fmtP; let id ← nat; let d ← str; let o ← str
  pure { fmt := f, fileId := id, disc := d, obj := o }

def dirP : P Dir := do
  let b ← bool
  let fl ← listOf entryP
  pure { isDir := b, files := fl }

def copP : P COp := do
  let c ← nat
  match c with
  | 0 => do let m ← str; pure (.get m)
  | 1 => do let p ← nat; pure (.setPath p)
  | 2 => do let k ← nat; pure (.setInterp k)
  | 3 => do let b ← bool; pure (.setMem b)
  | 4 => pure .clear
  | 5 => do let m ← str; let k ← nat; pure (.add m k)
  | _ => failure

/-- events of `CacheConf.XOp`: the codes 0-5 are the cache's own operations (`copP`); 6 = `set_interpolation(None)`,
    7 = the path key of GlobalCache set to None, 8 = a parameter file set up (`optOf nat` path, `optOf nat` mode, `optOf bool`) -/
def xopP : P XOp := do
  let c ← nat
  match c with
  | 0 => do let m ← str; pure (.base (.get m))
  | 1 => do let p ← nat; pure (.base (.setPath p))
  | 2 => do let k ← nat; pure (.base (.setInterp k))
  | 3 => do let b ← bool; pure (.base (.setMem b))
  | 4 => pure (.base .clear)
  | 5 => do let m ← str; let k ← nat; pure (.base (.add m k))
  | 6 => pure .unsetInterp
  | 7 => pure .unsetPath
  | 8 => do let p ← optOf nat; let k ← optOf nat; let b ← optOf bool; pure (.parfile p k b)
  | _ => failure

/-- events of `CacheConf.YOp`: codes 0-8 as `xopP`; 9 = a served object's own `set_interpolation_mode` (molecule, mode),
    10 = `GlobalCache()['xsec_interpolation']` written directly (`optOf nat`), 11 = `load_opacity(opacity_path = directory p,
    molecule_filter = [m])` -/
def yopP : P YOp := do
  let c ← nat
  match c with
  | 0 => do let m ← str; pure (.x (.base (.get m)))
  | 1 => do let p ← nat; pure (.x (.base (.setPath p)))
  | 2 => do let k ← nat; pure (.x (.base (.setInterp k)))
  | 3 => do let b ← bool; pure (.x (.base (.setMem b)))
  | 4 => pure (.x (.base .clear))
  | 5 => do let m ← str; let k ← nat; pure (.x (.base (.add m k)))
  | 6 => pure (.x .unsetInterp)
  | 7 => pure (.x .unsetPath)
  | 8 => do let p ← optOf nat; let k ← optOf nat; let b ← optOf bool; pure (.x (.parfile p k b))
  | 9 => do let m ← str; let k ← nat; pure (.objMode m k)
  | 10 => do let k ← optOf nat; pure (.gcInterp k)
  | 11 => do let p ← nat; let m ← str; pure (.loadOther p m)
  | _ => failure

def fResp : Resp → String
  | .served o =>
    let im := match o.inMem with | none => "0" | some false => "1" | some true => "2"
    s!"0 {o.id} {fS o.mol} {o.mode} {im} {fOpt fN o.src}"
  | .missing => "1"
  | .done => "2"
  | .notADir => "3"

/-- responses with, after each step, the number of loads so far and the keys of the dictionary -/
def traceOut (fs : List Dir) : CSt → List YOp → List String
  | _, [] => []
  | s, op :: ops =>
    let r := stepY fs s op
    s!"{fResp r.2} {r.1.log.length} {fList fS (r.1.dict.map (·.1))}" :: traceOut fs r.1 ops

/-- `c14.cache fs ops` → per step: response, #loads, dict keys; then the load log (`CacheConf.stepY`: configuration events are `stepX`, the
    cache's own operations `CacheSM.step`) -/
def cacheOp (args : List String) : Option String :=
  run (do
    let fs ← listOf dirP
    let ops ← listOf yopP
    let fin := CacheSM.runY fs CacheSM.init ops
    let steps := traceOut fs CacheSM.init ops
    pure s!"{fList id steps} {fList (fun (e : String × Nat) => s!"{fS e.1} {e.2}") fin.log}") args

/-- as `traceOut`, on the k-table cache (`stepK`) -/
def traceOutK (fs : List Dir) : CSt → List YOp → List String
  | _, [] => []
  | s, op :: ops =>
    let r := stepYK fs s op
    s!"{fResp r.2} {r.1.log.length} {fList fS (r.1.dict.map (·.1))}" :: traceOutK fs r.1 ops

/-- `c14.kcache fs ops`: a history of the k-table cache (`CacheConf.stepYK` over `stepXK`; the cache's own operations are `CacheSM.stepK`) -/
def kcacheOp (args : List String) : Option String :=
  run (do
    let fs ← listOf dirP
    let ops ← listOf yopP
    let fin := CacheSM.runYK fs CacheSM.init ops
    let steps := traceOutK fs CacheSM.init ops
    pure s!"{fList id steps} {fList (fun (e : String × Nat) => s!"{fS e.1} {e.2}") fin.log}") args

/-! CIA cache state machine -/

open Taurex.CiaSM in
def cfileP : P CFile := do
  let f ← nat; let id ← nat; let d ← str; let o ← str
  pure { fmt := if f == 0 then CFmt.db else CFmt.cia, fileId := id, disc := d, obj := o }

open Taurex.CiaSM in
def cpathP : P CPath := do
  let k ← nat
  if k == 0 then do let p ← nat; pure (CPath.single p)
  else do let ps ← listOf nat; pure (CPath.many ps)

open Taurex.CiaSM in
def ciaOpP : P CiaSM.Op := do
  let c ← nat
  match c with
  | 0 => do let m ← str; pure (.get m)
  | 1 => do let p ← cpathP; pure (.setPath p)
  | 2 => do let m ← str; pure (.add m)
  | _ => failure

open Taurex.CiaSM in
def fCResp : CiaSM.Resp → String
  | .served o => s!"0 {o.id} {fS o.pair} {fOpt fN o.src}"
  | .missing => "1"
  | .done => "2"
  | .dup => "3"

open Taurex.CiaSM in
def ciaTraceOut (fs : List CDir) : CiaSM.St → List CiaSM.Op → List String
  | _, [] => []
  | s, op :: ops =>
    let r := CiaSM.step fs s op
    s!"{fCResp r.2} {r.1.log.length} {fList fS (r.1.dict.map (·.1))}" :: ciaTraceOut fs r.1 ops

/-- `c14.ciacache fs ops` → per step: response, #loads, dict keys; then the load log -/
def ciaCacheOp (args : List String) : Option String :=
  run (do
    let fs ← listOf (listOf cfileP)
    let ops ← listOf ciaOpP
    let fin := CiaSM.run fs CiaSM.init ops
    let steps := ciaTraceOut fs CiaSM.init ops
    pure s!"{fList id steps} {fList (fun (e : String × Nat) => s!"{fS e.1} {e.2}") fin.log}") args

def ops : List Op :=
  [("c14.sanitize", sanitizeOp), ("c14.names", namesOp), ("c14.stem", stemOp), ("c14.partners", partnersOp), ("c14.unit", unitOp),
   ("c14.dec_pickle", decPickleOp), ("c14.dec_hdf", decHdfOp), ("c14.dec_exo", decExoOp),
   ("c14.enc_pickle", encPickleOp), ("c14.enc_hdf", encHdfOp), ("c14.enc_exo", encExoOp),
   ("c14.dec_kpickle", decPickleKOp), ("c14.dec_khdf", decHdfKOp),
   ("c14.enc_kpickle", encPickleKOp), ("c14.enc_khdf", encHdfKOp),
   ("c14.dec_cia_pickle", decPickleCOp), ("c14.dec_hitran", decHitranOp), ("c14.hitran_unified", hitranUnifiedOp), ("c14.enc_hitran", encHitranOp),
   ("c14.cache", cacheOp), ("c14.kcache", kcacheOp), ("c14.ciacache", ciaCacheOp)]

end Taurex.Ops.C14
