import TaurexModel.Proto
import TaurexModel.Haze
import TaurexModel.Ops.C01

namespace Taurex.Ops.C19
open Taurex.Proto Taurex.Haze Taurex.Transmission Taurex.Ops.C01

/-- `c19.cloud method rp rs z dz zb dens nwn P p0 rest` → trans[n][nwn] depth[nwn] -/
def cloudOp (args : List String) : Option String :=
  run (do
    let m ← nat
    let rp ← flt
    let rs ← flt
    let z ← listOf flt
    let dz ← listOf flt
    let zb ← listOf flt
    let dens ← listOf flt
    let nwn ← nat
    let p ← listOf flt
    let p0 ← flt
    let rest ← listOf contribP
    let n := z.length
    if dz.length ≠ n ∨ zb.length ≠ n + 1 ∨ dens.length ≠ n ∨ p.length ≠ n then failure
    let (fz, fdz, fzb, fd, fp) := (fn1 z, fn1 dz, fn1 zb, fn1 dens, fn1 p)
    let tr := tab2 n nwn fun l wn => cloudyTrans (m != 0) rp n nwn fzb fz fdz fd fp p0 rest l wn
    let ftr := fn2 tr
    let d := (List.range nwn).map fun wn => depth rp rs n fz fdz (fun l => ftr l wn)
    pure (fList (fList fF) tr ++ " " ++ fList fF d)) args

/-- `c19.flat plev[n+1] bottomRaw topRaw mix` → sigma[n] start stop -/
def flatOp (args : List String) : Option String :=
  run (do
    let plev ← listOf flt
    let b ← flt
    let t ← flt
    let mix ← flt
    if plev.length < 2 then failure
    let n := plev.length - 1
    let fp := fn1 plev
    let sig := (List.range n).map fun l => flatSigma n fp b t mix l
    pure (fList fF sig)) args

/-- `c19.lee P[n] bottomRaw topRaw pi a q mix wn[nwn]` → sigma[n][nwn] -/
def leeOp (args : List String) : Option String :=
  run (do
    let p ← listOf flt
    let b ← flt
    let t ← flt
    let pi ← flt
    let a ← flt
    let q ← flt
    let mix ← flt
    let wn ← listOf flt
    let n := p.length
    if n = 0 then failure
    pure (fList (fList fF) (tab2 n wn.length (leeSigma n (fn1 p) b t pi a q mix (fn1 wn))))) args

/-- `c19.declare defaultNames defaultValues configNames configValues` → option (values in the order of the defaults):
    the keyword arguments a contribution declared in an input file is constructed with (`Haze.declaredArgs`) -/
def declareOp (args : List String) : Option String :=
  run (do
    let dn ← listOf tok
    let dv ← listOf flt
    let cn ← listOf tok
    let cv ← listOf flt
    if dn.length ≠ dv.length ∨ cn.length ≠ cv.length then failure
    pure (fOpt (fun kv => fList fF (kv.map Prod.snd)) (declaredArgs (dn.zip dv) (cn.zip cv)))) args

def ops : List Op :=
  [("c19.cloud", cloudOp), ("c19.flat", flatOp), ("c19.lee", leeOp), ("c19.declare", declareOp)] ++ Taurex.Ops.C01.ops

end Taurex.Ops.C19
