import TaurexModel.Proto

namespace Taurex.Ops.C19
open Taurex.Proto

/-- operations of the C19 model served by `driver_c19` (filled in by the C19 check) -/
def ops : List Op := []

end Taurex.Ops.C19
