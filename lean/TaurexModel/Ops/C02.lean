import TaurexModel.Proto
import TaurexModel.Emission
import TaurexModel.EmissionBreakdown

namespace Taurex.Ops.C02
open Taurex.Proto Taurex.Emission

/-- `pi h c kb conv scale` -/
def pcP : P (PC Float) := do
  let pi ← flt
  let h ← flt
  let c ← flt
  let kb ← flt
  let conv ← flt
  let scale ← flt
  pure { pi := pi, h := h, c := c, kb := kb, conv := conv, scale := scale }

def kindP : P Kind := do
  let n ← nat
  pure (if n == 0 then Kind.lin else Kind.sq)

/-- wavenumbers, then per contribution `kind` and `sigma_xsec[layer][wn]`; returns the columns -/
def colsP : P (List (Col Float)) := do
  let nus ← listOf flt
  let cs ← listOf (do
    let kd ← kindP
    let m ← listOf (listOf flt)
    pure (kd, m))
  pure ((List.range nus.length).map (fun j =>
    { nu := nus.getD j 0, sig := cs.map (fun c => (c.1, c.2.map (fun row => row.getD j 0))) }))

/-- `c02.planck consts nus T` → `black_body(nus, T)` -/
def planckOp (args : List String) : Option String :=
  run (do
    let k ← pcP
    let nus ← listOf flt
    let t ← flt
    pure (fList fF (nus.map (fun nu => planck k nu t)))) args

/-- `c02.quad xs wts` → `_mu_quads`, `_wi_quads`, `1/_mu_quads` -/
def quadOp (args : List String) : Option String :=
  run (do
    let xs ← listOf flt
    let wts ← listOf flt
    pure (fList fF (xs.map muOf) ++ " " ++ fList fF (wts.map wOf) ++ " " ++ fList fF (xs.map muInvOf))) args

/-- `c02.emission consts npPi cols dz dens temps xs wts tstar rp rs dist pc` →
    per column: intensities per angle, surface tau, flux, eclipse ratio, direct-image flux, uncut flux;
    then per layer the two clamp decisions -/
def emissionOp (args : List String) : Option String :=
  run (do
    let k ← pcP
    let npPi ← flt
    let cols ← colsP
    let dz ← listOf flt
    let dens ← listOf flt
    let temps ← listOf flt
    let xs ← listOf flt
    let wts ← listOf flt
    let tstar ← flt
    let rp ← flt
    let rs ← flt
    let dist ← flt
    let pc ← flt
    let fl := flagsOf cols dz dens temps.length
    let muInvs := xs.map muInvOf
    let perCol := cols.map (fun col =>
      let is := colIntensities k fl dz dens temps muInvs col
      let f := fluxOf npPi is xs wts
      let iu := colIntensities k [] dz dens temps muInvs col
      let fu := fluxOf npPi iu xs wts
      fList fF is ++ " " ++ fF (surfTau dz dens temps col) ++ " " ++ fF f ++ " "
        ++ fF (eclipse f (planck k col.nu tstar) rp rs) ++ " " ++ fF (direct k.pi f rp dist pc) ++ " " ++ fF fu)
    pure (fList id perCol ++ " " ++ fList (fun b => fB b.1 ++ " " ++ fB b.2) fl)) args

/-- `c02.contrib consts cols dz dens temps` → per column (wavenumber) the contribution function `tau[:, wn]` that
    `evaluate_emission` returns as its fourth component (and `model()` as its third) -/
def contribOp (args : List String) : Option String :=
  run (do
    let k ← pcP
    let cols ← colsP
    let dz ← listOf flt
    let dens ← listOf flt
    let temps ← listOf flt
    let fl := flagsOf cols dz dens temps.length
    pure (fList (fun col => fList fF (colContrib k fl dz dens temps col)) cols)) args

/-- `c02.partial ncontrib clip` → the calls of `partial_model`, each as `kind a b` (kind 0 initialize_profiles, 1 star.initialize
    on grid a, 2 contribution a .prepare on grid b, 3 evaluate_emission on grid a) -/
def partialOp (args : List String) : Option String :=
  run (do
    let n ← nat
    let clip ← nat
    pure (fList (fun st => match st with
      | Step.initProfiles => fN 0 ++ " " ++ fN 0 ++ " " ++ fN 0
      | Step.starInit g => fN 1 ++ " " ++ fN g ++ " " ++ fN 0
      | Step.prepare i g => fN 2 ++ " " ++ fN i ++ " " ++ fN g
      | Step.evaluate g => fN 3 ++ " " ++ fN g ++ " " ++ fN 0) (partialModelSteps n (clip != 0)))) args

/-- `c02.breakdown ncontrib clip` → the calls of `model_contrib`, each as `kind a b` (kind 0 initialize_profiles, 1 star.initialize
    on grid a, 2 contribution a .prepare on grid b, 4 path_integral over the list [contribution a] on grid b); then for every
    integral `contribution grid sedgrid` (the grid of the stellar SED its flux is divided by; 9 if none is stored) -/
def breakdownOp (args : List String) : Option String :=
  run (do
    let n ← nat
    let clip ← nat
    let steps := contribModelSteps n (clip != 0)
    pure (fList (fun st => match st with
      | BStep.initProfiles => fN 0 ++ " " ++ fN 0 ++ " " ++ fN 0
      | BStep.starInit g => fN 1 ++ " " ++ fN g ++ " " ++ fN 0
      | BStep.prepare i g => fN 2 ++ " " ++ fN i ++ " " ++ fN g
      | BStep.integrate i g => fN 4 ++ " " ++ fN i ++ " " ++ fN g) steps ++ " " ++
      fList (fun t => fN t.1 ++ " " ++ fN t.2.1 ++ " " ++ fN (t.2.2.getD 9)) (normalisedBy none steps))) args

def ops : List Op :=
  [("c02.planck", planckOp), ("c02.quad", quadOp), ("c02.emission", emissionOp), ("c02.contrib", contribOp),
   ("c02.partial", partialOp), ("c02.breakdown", breakdownOp)]

end Taurex.Ops.C02
