import TaurexModel.Proto

namespace Taurex.Ops.C02
open Taurex.Proto

/-- operations of the C02 model served by `driver_c02` (filled in by the C02 check) -/
def ops : List Op := []

end Taurex.Ops.C02
