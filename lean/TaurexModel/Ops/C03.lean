import TaurexModel.Proto
import TaurexModel.Sigma
import TaurexModel.MixLookup
import TaurexModel.Transmission
import TaurexModel.Ops.C01
import TaurexModel.KTau

namespace Taurex.Ops.C03
open Taurex.Proto Taurex.Sigma Taurex.Ops.C01

def out3 (nl nwn : Nat) (comps : List (Nat → Nat → Float)) : String :=
  fList (fun c => fList (fList fF) (tab2 nl nwn c)) comps ++ " " ++ fList (fList fF) (tab2 nl nwn (sumComps comps))

/-- `c03.sigma_abs nl nwn xsecs[gas][layer][wn] mixes[gas][layer]` → components[gas][layer][wn] total[layer][wn] -/
def sigmaAbsOp (args : List String) : Option String :=
  run (do
    let nl ← nat
    let nwn ← nat
    let xs ← listOf (listOf (listOf flt))
    let ms ← listOf (listOf flt)
    if xs.length ≠ ms.length then failure
    let comps := (xs.zip ms).map fun (x, m) => compAbs (fn2 x) (fn1 m)
    pure (out3 nl nwn comps)) args

/-- `c03.sigma_cia nl nwn xsecs[pair][layer][wn] mix1[pair][layer] mix2[pair][layer]` -/
def sigmaCiaOp (args : List String) : Option String :=
  run (do
    let nl ← nat
    let nwn ← nat
    let xs ← listOf (listOf (listOf flt))
    let m1 ← listOf (listOf flt)
    let m2 ← listOf (listOf flt)
    if xs.length ≠ m1.length ∨ xs.length ≠ m2.length then failure
    let comps := (xs.zip (m1.zip m2)).map fun (x, a, b) => compCIA (fn2 x) (fn1 a) (fn1 b)
    pure (out3 nl nwn comps)) args

/-- `c03.sigma_scaled nl nwn laws[mol][wn] mixes[mol][layer]` -/
def sigmaScaledOp (args : List String) : Option String :=
  run (do
    let nl ← nat
    let nwn ← nat
    let ls ← listOf (listOf flt)
    let ms ← listOf (listOf flt)
    if ls.length ≠ ms.length then failure
    let comps := (ls.zip ms).map fun (x, m) => compScaled (fn1 x) (fn1 m)
    pure (out3 nl nwn comps)) args

/-- a table of the chemistry: (name, row over the layers) pairs -/
def tableP : P (List (String × (Nat → Float))) :=
  listOf (do
    let nm ← tok
    let row ← listOf flt
    pure (nm, fn1 row))

def fTable (nl : Nat) (t : List (String × (Nat → Float))) : String :=
  fList (fun p => p.1 ++ " " ++ fList fF ((List.range nl).map p.2)) t

/-- `c03.gasmix nl active inactive name` → the row `Chemistry.get_gas_mix_profile(name)` hands out (`none`: KeyError) -/
def gasMixOp (args : List String) : Option String :=
  run (do
    let nl ← nat
    let act ← tableP
    let ina ← tableP
    let name ← tok
    pure (fOpt (fun r => fList fF ((List.range nl).map r)) (Taurex.MixLookup.gasMix act ina name))) args

/-- `c03.makefree nl active inactive free` (free = name, profile, 1 if an opacity is available for the molecule) → the active
    and the inactive table of the chemistry wrapped with `MakeFreeMixin` after `initialize_chemistry` -/
def makeFreeOp (args : List String) : Option String :=
  run (do
    let nl ← nat
    let act ← tableP
    let ina ← tableP
    let free ← listOf (do
      let nm ← tok
      let row ← listOf flt
      let ca ← bool
      pure ({ mol := nm, prof := fn1 row, canAbsorb := ca } : Taurex.MixLookup.Free Float))
    pure (fTable nl (Taurex.MixLookup.freedActive act ina free) ++ " " ++
          fTable nl (Taurex.MixLookup.freedInactive act ina free))) args

/-- `c03.mu nl active inactive masses` (masses = (name, mass) pairs; a name without an entry weighs 0) → the mean molecular
    weight per layer of the published mixture -/
def muOp (args : List String) : Option String :=
  run (do
    let nl ← nat
    let act ← tableP
    let ina ← tableP
    let ms ← listOf (do
      let nm ← tok
      let m ← flt
      pure (nm, m))
    let mass : String → Float := fun n => ((ms.find? (fun p => p.1 == n)).map (·.2)).getD 0
    pure (fList fF ((List.range nl).map (Taurex.MixLookup.muOf mass act ina)))) args

/-- `c03.ktau nwn sigma[layer][wn][g] paths[l][k] dens ws acc[l][wn]` → per tangent layer `l`, per wavenumber: `tau[l,wn]` after
    the correlated-k kernel `contribute_ktau` has run on a buffer that already holds `acc[l][wn]` (what the sources added to the
    model earlier have put into the layer) -/
def ktauOp (args : List String) : Option String :=
  run (do
    let nwn ← nat
    let sig ← listOf (listOf (listOf flt))
    let paths ← listOf (listOf flt)
    let dens ← listOf flt
    let ws ← listOf flt
    let acc ← listOf (listOf flt)
    let n := dens.length
    let out := (List.range n).map (fun l =>
      (List.range nwn).map (fun j =>
        Taurex.KTau.ktauRow (sig.map (fun layerRow => layerRow.getD j [])) (paths.getD l []) dens ws n l
          ((acc.getD l []).getD j 0)))
    pure (fList (fList fF) out)) args

def ops : List Op :=
  [("c03.sigma_abs", sigmaAbsOp), ("c03.sigma_cia", sigmaCiaOp), ("c03.sigma_scaled", sigmaScaledOp),
   ("c03.gasmix", gasMixOp), ("c03.makefree", makeFreeOp), ("c03.mu", muOp), ("c03.ktau", ktauOp)]
  ++ Taurex.Ops.C01.ops

end Taurex.Ops.C03
