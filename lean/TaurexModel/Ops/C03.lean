import TaurexModel.Proto
import TaurexModel.Sigma
import TaurexModel.Transmission
import TaurexModel.Ops.C01

namespace Taurex.Ops.C03
open Taurex.Proto Taurex.Sigma Taurex.Ops.C01

def out3 (nl nwn : Nat) (comps : List (Nat → Nat → Float)) : String :=
  fList (fun c => fList (fList fF) (tab2 nl nwn c)) comps ++ " " ++ fList (fList fF) (tab2 nl nwn (sumComps comps))

/-- `c03.sigma_abs nl nwn xsecs[gas][layer][wn] mixes[gas][layer]` → components[gas][layer][wn] total[layer][wn] -/
def sigmaAbsOp (args : List String) : Option String :=
  run (do
    let nl ← nat
    let nwn ← nat
    let xs ← listOf (listOf (listOf flt))
    let ms ← listOf (listOf flt)
    if xs.length ≠ ms.length then failure
    let comps := (xs.zip ms).map fun (x, m) => compAbs (fn2 x) (fn1 m)
    pure (out3 nl nwn comps)) args

/-- `c03.sigma_cia nl nwn xsecs[pair][layer][wn] mix1[pair][layer] mix2[pair][layer]` -/
def sigmaCiaOp (args : List String) : Option String :=
  run (do
    let nl ← nat
    let nwn ← nat
    let xs ← listOf (listOf (listOf flt))
    let m1 ← listOf (listOf flt)
    let m2 ← listOf (listOf flt)
    if xs.length ≠ m1.length ∨ xs.length ≠ m2.length then failure
    let comps := (xs.zip (m1.zip m2)).map fun (x, a, b) => compCIA (fn2 x) (fn1 a) (fn1 b)
    pure (out3 nl nwn comps)) args

/-- `c03.sigma_scaled nl nwn laws[mol][wn] mixes[mol][layer]` -/
def sigmaScaledOp (args : List String) : Option String :=
  run (do
    let nl ← nat
    let nwn ← nat
    let ls ← listOf (listOf flt)
    let ms ← listOf (listOf flt)
    if ls.length ≠ ms.length then failure
    let comps := (ls.zip ms).map fun (x, m) => compScaled (fn1 x) (fn1 m)
    pure (out3 nl nwn comps)) args

def ops : List Op :=
  [("c03.sigma_abs", sigmaAbsOp), ("c03.sigma_cia", sigmaCiaOp), ("c03.sigma_scaled", sigmaScaledOp)]
  ++ Taurex.Ops.C01.ops

end Taurex.Ops.C03
