import TaurexModel.Proto

namespace Taurex.Ops.C03
open Taurex.Proto

/-- operations of the C03 model served by `driver_c03` (filled in by the C03 check) -/
def ops : List Op := []

end Taurex.Ops.C03
