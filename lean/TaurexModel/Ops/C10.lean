import TaurexModel.Proto

namespace Taurex.Ops.C10
open Taurex.Proto

/-- operations of the C10 model served by `driver_c10` (filled in by the C10 check) -/
def ops : List Op := []

end Taurex.Ops.C10
