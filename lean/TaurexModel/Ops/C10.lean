import TaurexModel.Proto
import TaurexModel.Chemistry

namespace Taurex.Ops.C10
open Taurex.Proto Taurex.NpInterp Taurex.Chemistry

/-- outcome payload: `0 <value>` ok, `1` invalid model, `2` other exception -/
def fOutcome {β : Type} (f : β → String) : Outcome β → String
  | .ok v => "0 " ++ f v
  | .invalid => "1"
  | .error => "2"

/-- gas descriptor: `0 mix` | `1 surf top pB window` | `2 surf top` | `3 <list>` | `4 mixS alpha beta gamma barFactor` -/
def gasP : P (Gas Float) := do
  let tag ← nat
  match tag with
  | 0 => do
    let m ← flt
    pure (.constant m)
  | 1 => do
    let s ← flt
    let t ← flt
    let pb ← flt
    let w ← flt
    pure (.twoLayer s t pb w)
  | 2 => do
    let s ← flt
    let t ← flt
    pure (.twoPoint s t)
  | 3 => do
    let a ← listOf flt
    pure (.array a)
  | 4 => do
    let ms ← flt
    let a ← flt
    let b ← flt
    let c ← flt
    let bf ← flt
    pure (.power ms a b c bf)
  | _ => failure

/-- `c10.gas <gas> nlayers pressure temperature` → outcome list -/
def gasOp (args : List String) : Option String :=
  run (do
    let g ← gasP
    let n ← nat
    let pr ← listOf flt
    let te ← listOf flt
    pure (fOutcome (fList fF) (g.profile n pr te))) args

/-- `c10.gasauto optMs optAlpha optBeta optGamma optA optB optG optAA barFactor pressure temperature` → outcome list:
    `PowerGas` with optional constructor arguments and the tuple of `check_known` -/
def gasAutoOp (args : List String) : Option String :=
  run (do
    let ms ← optOf flt
    let a ← optOf flt
    let b ← optOf flt
    let g ← optOf flt
    let ka ← optOf flt
    let kb ← optOf flt
    let kg ← optOf flt
    let kA ← optOf flt
    let bf ← flt
    let pr ← listOf flt
    let te ← listOf flt
    pure (fOutcome (fList fF) (powerGasAuto ms a b g (ka, kb, kg, kA) bf pr te))) args

/-- `c10.mix nFill ratios traces nlayers` → outcome rows -/
def mixOp (args : List String) : Option String :=
  run (do
    let nf ← nat
    let ratios ← listOf flt
    let traces ← listOf (listOf flt)
    let n ← nat
    pure (fOutcome (fList (fList fF)) (mixProfile nf ratios traces n))) args

/-- `c10.chem nFill ratios gases nlayers pressure temperature masses` → outcome (rows, mu) -/
def chemOp (args : List String) : Option String :=
  run (do
    let nf ← nat
    let ratios ← listOf flt
    let gases ← listOf gasP
    let n ← nat
    let pr ← listOf flt
    let te ← listOf flt
    let masses ← listOf flt
    let r := chemistry nf ratios gases n pr te
    pure (fOutcome (fun rows => fList (fList fF) rows ++ " " ++ fList fF (muProfile rows masses n)) r)) args

def strTok : P String := tok

/-- `c10.split gases registered optDeactive` → active names, inactive names, active mask, inactive mask -/
def splitOp (args : List String) : Option String :=
  run (do
    let gases ← listOf strTok
    let reg ← listOf strTok
    let deact ← optOf (listOf strTok)
    let avail := availableActive reg deact
    pure (fList id (activeGases gases avail) ++ " " ++ fList id (inactiveGases gases avail) ++ " " ++
          fList fN (activeMask gases avail) ++ " " ++ fList fN (inactiveMask gases avail))) args

/-- `c10.lookup gases avail mix name` → option row ; `c10.rows gases avail mix` → active rows, inactive rows -/
def lookupOp (args : List String) : Option String :=
  run (do
    let gases ← listOf strTok
    let avail ← listOf strTok
    let mix ← listOf (listOf flt)
    let name ← strTok
    pure (fOpt (fList fF) (getGasMixProfile gases avail mix name))) args

def rowsOp (args : List String) : Option String :=
  run (do
    let gases ← listOf strTok
    let avail ← listOf strTok
    let mix ← listOf (listOf flt)
    pure (fList (fList fF) (selectRows mix (activeMask gases avail)) ++ " " ++
          fList (fList fF) (selectRows mix (inactiveMask gases avail)))) args

/-- `c10.weight names values amu formulas` → list of optional molecular weights (kg) -/
def weightOp (args : List String) : Option String :=
  run (do
    let names ← listOf strTok
    let vals ← listOf flt
    let amu ← flt
    let formulas ← listOf strTok
    let table := names.zip vals
    pure (fList (fOpt fF) (formulas.map (molecularWeight table amu)))) args

/-- one operation of a cache session: `0 i` setPath | `1 i m` addFile | `2 i m` removeFile | `3 m` register | `4 m` load |
    `5` clear | `6` ask | `7 ms` force_active -/
def cacheOpP : P CacheOp := do
  let tag ← nat
  match tag with
  | 0 => do
    let i ← nat
    pure (.setPath i)
  | 1 => do
    let i ← nat
    let m ← strTok
    pure (.addFile i m)
  | 2 => do
    let i ← nat
    let m ← strTok
    pure (.removeFile i m)
  | 3 => do
    let m ← strTok
    pure (.register m)
  | 4 => do
    let m ← strTok
    pure (.load m)
  | 5 => pure .clear
  | 6 => pure .ask
  | 7 => do
    let ms ← listOf strTok
    pure (.force ms)
  | _ => failure

/-- `c10.session nDirs ops` → the molecules `find_list_of_molecules()` returns after the history `ops`, starting from
    `nDirs` empty directories, no path set, nothing in memory -/
def sessionOp (args : List String) : Option String :=
  run (do
    let nd ← nat
    let ops ← listOf cacheOpP
    let s0 : CacheState := { path := none, dirs := List.replicate nd [], loaded := [] }
    pure (fList id (s0.run ops).molecules)) args

def ops : List Op :=
  [("c10.session", sessionOp)] ++
  [("c10.gas", gasOp), ("c10.gasauto", gasAutoOp), ("c10.mix", mixOp), ("c10.chem", chemOp), ("c10.split", splitOp),
   ("c10.lookup", lookupOp), ("c10.rows", rowsOp), ("c10.weight", weightOp)]

end Taurex.Ops.C10
