import TaurexModel.Proto

namespace Taurex.Ops.C20
open Taurex.Proto

/-- operations of the C20 model served by `driver_c20` (filled in by the C20 check) -/
def ops : List Op := []

end Taurex.Ops.C20
