import TaurexModel.Proto
import TaurexModel.KTau
import TaurexModel.Ops.C02

namespace Taurex.Ops.C20
open Taurex.Proto Taurex.Emission Taurex.KTau

/-- `sigma_xsec[layer][wn][g]` → per wavenumber `[layer][g]` -/
def perWn (sig : List (List (List Float))) (nwn : Nat) : List (List (List Float)) :=
  (List.range nwn).map (fun j => sig.map (fun layerRow => layerRow.getD j []))

/-- `c20.trans nwn sigma[layer][wn][g] paths[l][k] dens ws` → per layer `l`, per wavenumber: `tau[l,wn]` after
    `contribute_ktau` on a zeroed buffer -/
def transOp (args : List String) : Option String :=
  run (do
    let nwn ← nat
    let sig ← listOf (listOf (listOf flt))
    let paths ← listOf (listOf flt)
    let dens ← listOf flt
    let ws ← listOf flt
    let n := dens.length
    let cols := perWn sig nwn
    let out := (List.range n).map (fun l =>
      cols.map (fun s3 => ktauRow s3 (paths.getD l []) dens ws n l 0))
    pure (fList (fList fF) out)) args

/-- `c20.transx nwn sigma[layer][wn] paths dens` → the cross-section counterpart (`contribute_tau`) -/
def transxOp (args : List String) : Option String :=
  run (do
    let nwn ← nat
    let sig ← listOf (listOf flt)
    let paths ← listOf (listOf flt)
    let dens ← listOf flt
    let n := dens.length
    let out := (List.range n).map (fun l =>
      (List.range nwn).map (fun j => tauRowX (sig.map (fun r => r.getD j 0)) (paths.getD l []) dens n l 0))
    pure (fList (fList fF) out)) args

/-- `c20.depth rp rs ap dz trans[l][wn]` → `compute_absorption` per wavenumber -/
def depthOp (args : List String) : Option String :=
  run (do
    let nwn ← nat
    let rp ← flt
    let rs ← flt
    let ap ← listOf flt
    let dz ← listOf flt
    let tr ← listOf (listOf flt)
    let out := (List.range nwn).map (fun j =>
      depth rp rs ((List.range ap.length).map (fun l => (ap.getD l 0, dz.getD l 0, (tr.getD l []).getD j 0))))
    pure (fList fF out)) args

/-- `c20.transk taus ws` → `transtemp`, `-log(transtemp)` -/
def transkOp (args : List String) : Option String :=
  run (do
    let taus ← listOf flt
    let ws ← listOf flt
    pure (fF (transK taus ws) ++ " " ++ fF (ktau taus ws))) args

/-- `c20.emission consts npPi nus nonmol sigma[layer][wn][g] ws dz dens temps xs wts tstar rp rs` →
    per wavenumber: intensity per angle, flux, eclipse ratio -/
def emissionOp (args : List String) : Option String :=
  run (do
    let k ← Taurex.Ops.C02.pcP
    let npPi ← flt
    let nus ← listOf flt
    let cs ← listOf (do
      let kd ← Taurex.Ops.C02.kindP
      let m ← listOf (listOf flt)
      pure (kd, m))
    let sig ← listOf (listOf (listOf flt))
    let ws ← listOf flt
    let dz ← listOf flt
    let dens ← listOf flt
    let temps ← listOf flt
    let xs ← listOf flt
    let wts ← listOf flt
    let tstar ← flt
    let rp ← flt
    let rs ← flt
    let cols := perWn sig nus.length
    let out := (List.range nus.length).map (fun j =>
      let nu := nus.getD j 0
      let nonmol := cs.map (fun c => (c.1, c.2.map (fun row => row.getD j 0)))
      let s3 := cols.getD j []
      let is := xs.map (fun x => emissionK k nonmol s3 ws dz dens temps nu (muInvOf x))
      let f := fluxOf npPi is xs wts
      fList fF is ++ " " ++ fF f ++ " " ++ fF (eclipse f (planck k nu tstar) rp rs))
    pure (fList id out)) args

/-- `c20.emission_nomol consts npPi nus contribs dz dens temps xs wts tstar rp rs` → per wavenumber: intensity per angle,
    flux, eclipse ratio of the k-table emission path WITHOUT a molecular absorption contribution (`emissionKNoMol`) -/
def emissionNoMolOp (args : List String) : Option String :=
  run (do
    let k ← Taurex.Ops.C02.pcP
    let npPi ← flt
    let nus ← listOf flt
    let cs ← listOf (do
      let kd ← Taurex.Ops.C02.kindP
      let m ← listOf (listOf flt)
      pure (kd, m))
    let dz ← listOf flt
    let dens ← listOf flt
    let temps ← listOf flt
    let xs ← listOf flt
    let wts ← listOf flt
    let tstar ← flt
    let rp ← flt
    let rs ← flt
    let out := (List.range nus.length).map (fun j =>
      let nu := nus.getD j 0
      let nonmol := cs.map (fun c => (c.1, c.2.map (fun row => row.getD j 0)))
      let is := xs.map (fun x => emissionKNoMol k nonmol dz dens temps nu (muInvOf x))
      let f := fluxOf npPi is xs wts
      fList fF is ++ " " ++ fF f ++ " " ++ fF (eclipse f (planck k nu tstar) rp rs))
    pure (fList id out)) args

def ops : List Op :=
  [("c20.trans", transOp), ("c20.transx", transxOp), ("c20.depth", depthOp), ("c20.transk", transkOp),
   ("c20.emission", emissionOp), ("c20.emission_nomol", emissionNoMolOp)]

end Taurex.Ops.C20
