import TaurexModel.Proto

namespace Taurex.Ops.C16
open Taurex.Proto

/-- operations of the C16 model served by `driver_c16` (filled in by the C16 check) -/
def ops : List Op := []

end Taurex.Ops.C16
