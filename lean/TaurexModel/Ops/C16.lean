import TaurexModel.Proto
import TaurexModel.Output

/-
  Driver operations of the C16 model.  Wire format of a `Value` (prefix code, one token per atom):
    i <int> | f <u64 bits> | b <0|1> | a <kind 0=bool 1=int 2=float> <shape: list nat> <data: list>
    | s <list nat (code points)> | l <n> v… | t <n> v… | d <n> (key v)… | u
  and of a `Node`:  N <kind> <shape> <data> | V <list nat> | S <width> <n> (list nat)… | G <n> (key node)…
-/
namespace Taurex.Ops.C16
open Taurex.Proto Taurex.Output

def arrP : P (Arr Float) := do
  let k ← nat
  let shape ← listOf nat
  match k with
  | 0 => do let d ← listOf bool; pure ⟨shape, .bools d⟩
  | 1 => do let d ← listOf int; pure ⟨shape, .ints d⟩
  | _ => do let d ← listOf flt; pure ⟨shape, .floats d⟩

/-- parser of a value; `fuel` bounds the nesting depth -/
def valueP : Nat → P (Value Float)
  | 0 => failure
  | fuel + 1 => do
    let t ← tok
    match t with
    | "i" => do let i ← int; pure (.int i)
    | "f" => do let x ← flt; pure (.float x)
    | "b" => do let b ← bool; pure (.bool b)
    | "a" => do let a ← arrP; pure (.array a)
    | "s" => do let s ← listOf nat; pure (.str s)
    | "l" => do let l ← listOf (valueP fuel); pure (.list l)
    | "t" => do let l ← listOf (valueP fuel); pure (.tuple l)
    | "d" => do
        let d ← listOf (do let k ← tok; let v ← valueP fuel; pure (k, v))
        pure (.dict d)
    | "u" => pure .unsupported
    | _ => failure

def fArr (a : Arr Float) : String :=
  match a.data with
  | .bools l => s!"0 {fList fN a.shape} {fList fB l}"
  | .ints l => s!"1 {fList fN a.shape} {fList fI l}"
  | .floats l => s!"2 {fList fN a.shape} {fList fF l}"

mutual
def fValue : Value Float → String
  | .int i => s!"i {fI i}"
  | .float x => s!"f {fF x}"
  | .bool b => s!"b {fB b}"
  | .array a => s!"a {fArr a}"
  | .str s => s!"s {fList fN s}"
  | .list l => s!"l {l.length}{fValues l}"
  | .tuple l => s!"t {l.length}{fValues l}"
  | .dict d => s!"d {d.length}{fEntries d}"
  | .unsupported => "u"
def fValues : List (Value Float) → String
  | [] => ""
  | v :: vs => " " ++ fValue v ++ fValues vs
def fEntries : List (String × Value Float) → String
  | [] => ""
  | (k, v) :: rest => " " ++ k ++ " " ++ fValue v ++ fEntries rest
end

mutual
def fNode : Node Float → String
  | .num a => s!"N {fArr a}"
  | .vstr s => s!"V {fList fN s}"
  | .sfix w rows => s!"S {w} {fList (fList fN) rows}"
  | .group ch => s!"G {ch.length}{fChildren ch}"
def fChildren : List (String × Node Float) → String
  | [] => ""
  | (k, n) :: rest => " " ++ k ++ " " ++ fNode n ++ fChildren rest
end

def errCode : Err → String
  | .unsupported => "unsupported"
  | .mixedStringList => "mixedStringList"
  | .notDict => "notDict"

def depth : Nat := 64

/-- `c16.store v` → `1 node` | `0 err` -/
def storeOp (args : List String) : Option String :=
  run (do
    let v ← valueP depth
    match store v with
    | .ok n => pure s!"1 {fNode n}"
    | .error e => pure s!"0 {errCode e}") args

/-- `c16.roundtrip v` → `1 value` (= load (store v)) | `0 err` -/
def roundtripOp (args : List String) : Option String :=
  run (do
    let v ← valueP depth
    match store v with
    | .ok n => pure s!"1 {fValue (load n)}"
    | .error e => pure s!"0 {errCode e}") args

/-- `c16.flags v` → `WF regular supported isDict`, then `canon v` -/
def flagsOp (args : List String) : Option String :=
  run (do
    let v ← valueP depth
    pure s!"{fB (WF v)} {fB (regVal v)} {fB (supported v)} {fB (isDict v)} {fValue (canon v)}") args

/-- `c16.write_array name v` → optional list of created entries (direct `HDF5OutputGroup.write_array`) -/
def writeArrayOp (args : List String) : Option String :=
  run (do
    let name ← tok
    let v ← valueP depth
    match writeArray name v with
    | some ch => pure s!"1 {ch.length}{fChildren ch}"
    | none => pure "0") args

/-- `c16.write_list name v` -/
def writeListOp (args : List String) : Option String :=
  run (do
    let name ← tok
    let v ← valueP depth
    match v with
    | .list l =>
      match writeList name l with
      | some ch => pure s!"1 {ch.length}{fChildren ch}"
      | none => pure "0"
    | _ => pure "0") args

/-- `c16.reload typeKey klass ctorKw entries` → `1 <opt class value> <kwargs as dict value>` | `0 err` -/
def reloadOp (args : List String) : Option String :=
  run (do
    let typeKey ← tok
    let klass ← listOf nat
    let ctorKw ← listOf tok
    let v ← valueP depth
    match v with
    | .dict entries =>
      match reloadComponent typeKey ctorKw (writeComponent typeKey klass entries) with
      | .ok (k, kw) => pure s!"1 {fOpt fValue k} {fValue (.dict kw)}"
      | .error e => pure s!"0 {errCode e}"
    | _ => failure) args

def fEntry : Entry Float → String
  | .vec v => s!"1 {fList fF v}"
  | .mat m => s!"2 {fList (fList fF) m}"

def kindP : P BinnerKind := do
  let n ← nat
  pure (match n with | 0 => .flux | 1 => .simple | _ => .native)

/-- `c16.spectrum kind size wn flux tau grid width bdFlux bdTau` → `n (key entry)…` -/
def spectrumOp (args : List String) : Option String :=
  run (do
    let kind ← kindP
    let size ← nat
    let wn ← listOf flt
    let flux ← listOf flt
    let tau ← listOf (listOf flt)
    let grid ← listOf flt
    let width ← listOf flt
    let bdFlux ← listOf flt
    let bdTau ← listOf (listOf flt)
    let out := spectrumOutput kind grid width (fun _ _ => bdFlux) (fun _ _ => bdTau) size wn flux tau
    pure (toString out.length ++ String.join (out.map (fun (k, e) => " " ++ k ++ " " ++ fEntry e)))) args

/-- `c16.edges g` → edges widths -/
def edgesOp (args : List String) : Option String :=
  run (do
    let g ← listOf flt
    let (e, w) := computeBinEdges g
    pure s!"{fList fF e} {fList fF w}") args

/-- `c16.wlwidth wn w` → list -/
def wlwidthOp (args : List String) : Option String :=
  run (do
    let g ← listOf flt
    let w ← listOf flt
    pure (fList fF (wnwidthToWlwidth g w))) args

def ops : List Op :=
  [("c16.store", storeOp), ("c16.roundtrip", roundtripOp), ("c16.flags", flagsOp),
   ("c16.write_array", writeArrayOp), ("c16.write_list", writeListOp), ("c16.reload", reloadOp),
   ("c16.spectrum", spectrumOp), ("c16.edges", edgesOp), ("c16.wlwidth", wlwidthOp)]

end Taurex.Ops.C16
