import TaurexModel.Proto
import TaurexModel.Likelihood

namespace Taurex.Ops.C06
open Taurex.Proto Taurex.Likelihood

/-- prior on the wire: `kind a b z`; kinds: 0 `Uniform(bounds=[a,b])`, 1 `LogUniform(bounds=[a,b])`,
    2 `LogUniform(lin_bounds=[a,b])`, 3 `Gaussian(mean=a, std=b)`, 4 `LogGaussian(mean=a, std=b)`,
    5 / 6 default prior of `compile_params` for mode linear / log with bounds `[a, b]`.
    `z` is `scipy.special.ndtri(u)` at the cube point the harness is going to ask for (external; Gaussians only). -/
def priorP : P (Prior Float) := do
  let k ← nat
  let a ← flt
  let b ← flt
  let z ← flt
  match k with
  | 0 => pure (uniform a b)
  | 1 => pure (logUniform a b)
  | 2 => pure (logUniformLin a b)
  | 3 => pure (gaussian (fun _ => z) a b)
  | 4 => pure (logGaussian (fun _ => z) a b)
  | 5 => pure (defaultPrior false a b)
  | 6 => pure (defaultPrior true a b)
  | _ => failure

def fVal (v : Val Float) : String :=
  match v with
  | .fin x => "0 " ++ fF x
  | .nan => "1 0"
  | .posInf => "2 0"

def outP : P (ModelOut Float) := do
  let k ← nat
  let m ← listOf (optOf flt)
  pure (if k == 0 then ModelOut.ok m else ModelOut.invalid)

/-- `c06.prior priors cube` → transformed cube -/
def priorOp (args : List String) : Option String :=
  run (do
    let ps ← listOf priorP
    let cube ← listOf flt
    pure (fList fF (priorTransform ps cube))) args

/-- `c06.update priors vals` → option (values written to the fitted parameters) -/
def updateOp (args : List String) : Option String :=
  run (do
    let ps ← listOf priorP
    let vals ← listOf flt
    pure (fOpt (fList fF) (updateModel ps vals))) args

/-- `c06.chisq obs sig out` → Val -/
def chisqOp (args : List String) : Option String :=
  run (do
    let obs ← listOf flt
    let sig ← listOf flt
    let out ← outP
    match out with
    | .ok m => if m.length ≠ obs.length ∨ sig.length ≠ obs.length then failure else pure ()
    | .invalid => pure ()
    pure (fVal (chisq obs sig out))) args

/-- `c06.loglike pi obs sig out` → Val -/
def loglikeOp (args : List String) : Option String :=
  run (do
    let pi ← flt
    let obs ← listOf flt
    let sig ← listOf flt
    let out ← outP
    match out with
    | .ok m => if m.length ≠ obs.length ∨ sig.length ≠ obs.length then failure else pure ()
    | .invalid => pure ()
    pure (fVal (loglike pi obs sig out))) args

/-- fixture forward model of the harness (`PolyModel` in harness/c06.py): `sum_k params[k]*x**k` evaluated as
    `c0 + c1*x + c2*x*x + …`, invalid when `params[0] > limit`, NaN in the bins listed in `nanBins` -/
def polyFm (xs : List Float) (limit : Float) (nanBins : List Nat) (params : List Float) : ModelOut Float :=
  if limit < params.getD 0 0 then .invalid
  else .ok ((List.range xs.length).map (fun i =>
    if nanBins.contains i then none
    else
      let x := xs.getD i 0
      let (acc, _) := params.foldl (fun (st : Float × Float) c => (st.1 + c * st.2, st.2 * x)) (0, 1)
      some acc))

/-- `c06.cube_poly pi priors xs limit nanBins obs sig cubes` → for each cube point: option Val, i.e.
    `runSequence … (cubes.map (priorTransform priors))` with the fixture forward model -/
def cubePolyOp (args : List String) : Option String :=
  run (do
    let pi ← flt
    let ps ← listOf priorP
    let xs ← listOf flt
    let limit ← flt
    let nb ← listOf nat
    let obs ← listOf flt
    let sig ← listOf flt
    let cubes ← listOf (listOf flt)
    if xs.length ≠ obs.length ∨ sig.length ≠ obs.length then failure else pure ()
    let res := runSequence pi ps (polyFm xs limit nb) obs sig (cubes.map (priorTransform ps))
    pure (fList (fOpt fVal) res)) args

/-- `c06.theta_poly …` the same for points of the sampled space (no prior transform) -/
def thetaPolyOp (args : List String) : Option String :=
  run (do
    let pi ← flt
    let ps ← listOf priorP
    let xs ← listOf flt
    let limit ← flt
    let nb ← listOf nat
    let obs ← listOf flt
    let sig ← listOf flt
    let thetas ← listOf (listOf flt)
    if xs.length ≠ obs.length ∨ sig.length ≠ obs.length then failure else pure ()
    let res := runSequence pi ps (polyFm xs limit nb) obs sig thetas
    pure (fList (fOpt fVal) res)) args

def ops : List Op :=
  [("c06.prior", priorOp), ("c06.update", updateOp), ("c06.chisq", chisqOp), ("c06.loglike", loglikeOp),
   ("c06.cube_poly", cubePolyOp), ("c06.theta_poly", thetaPolyOp)]

end Taurex.Ops.C06
