import TaurexModel.Proto

namespace Taurex.Ops.C06
open Taurex.Proto

/-- operations of the C06 model served by `driver_c06` (filled in by the C06 check) -/
def ops : List Op := []

end Taurex.Ops.C06
