import TaurexModel.Proto
import TaurexModel.Factory
import TaurexModel.Gen.Registry
import TaurexModel.Gen.Docs

/-
  Operations of the C15 model served by `driver_c15`.

  wire encodings (all space separated tokens; strings %-escaped as in harness/common.py `S`):
    scalar : `n` | `b 0|1` | `i <int>` | `d 0|1 <mant> <exp>` | `f 0|1` (inf, negative?) | `x` (nan) | `s <str>`
    value  : `S <scalar>` | `L <n> <scalar>*` | `O <repr>` | `R <what>`
    config : <n> (<key> <value>)*
    sec    : <config> <n> (<name> <config>)*
    file   : <n> (<name> <sec>)*
    klass  : <path> <name> <keywords> <args> <required> <kwargs:config> <varkw> <isMixin> <mixinArgs>
             <mixinKwargs:config> <hasAddGas> <sections>
    customs: <n> (<file> <n> <klass>*)*
-/
namespace Taurex.Ops.C15
open Taurex.Proto Taurex.Factory Taurex.Gen

/-! ### token escaping -/

def hexVal (c : Char) : Option Nat :=
  if 48 ≤ c.toNat ∧ c.toNat ≤ 57 then some (c.toNat - 48)
  else if 65 ≤ c.toNat ∧ c.toNat ≤ 70 then some (c.toNat - 55)
  else if 97 ≤ c.toNat ∧ c.toNat ≤ 102 then some (c.toNat - 87)
  else none

def unescL : List Char → List Char
  | '%' :: a :: b :: rest =>
    match hexVal a, hexVal b with
    | some x, some y => Char.ofNat (x * 16 + y) :: unescL rest
    | _, _ => '%' :: unescL (a :: b :: rest)
  | c :: rest => c :: unescL rest
  | [] => []

def unesc (s : String) : String := if s = "%e" then "" else String.ofList (unescL s.toList)

def hexDigit (n : Nat) : Char := if n < 10 then Char.ofNat (48 + n) else Char.ofNat (55 + n)

def escChar (c : Char) : List Char :=
  if c = '%' ∨ c.toNat ≤ 32 ∨ c.toNat = 127 then ['%', hexDigit (c.toNat / 16), hexDigit (c.toNat % 16)] else [c]

def esc (s : String) : String := if s = "" then "%e" else String.ofList (s.toList.flatMap escChar)

def str : P String := do
  let t ← tok
  pure (unesc t)

/-! ### decoding -/

def scalarP : P Scalar := do
  let t ← tok
  match t with
  | "n" => pure .none
  | "b" => do let b ← bool; pure (.bool b)
  | "i" => do let i ← int; pure (.int i)
  | "d" => do
    let n ← bool
    let m ← nat
    let e ← int
    pure (.dec n m e)
  | "f" => do let n ← bool; pure (.inf n)
  | "x" => pure .nan
  | "s" => do let s ← str; pure (.str s)
  | _ => failure

def valueP : P Value := do
  let t ← tok
  match t with
  | "S" => do let s ← scalarP; pure (.scalar s)
  | "L" => do let l ← listOf scalarP; pure (.list l)
  | "O" => do let s ← str; pure (.other s)
  | "R" => do let s ← str; pure (.ref s)
  | _ => failure

def configP : P Config := listOf (do
  let k ← str
  let v ← valueP
  pure (k, v))

def secP : P Sec := do
  let sc ← configP
  let subs ← listOf (do
    let n ← str
    let c ← configP
    pure (n, c))
  pure { scalars := sc, subs := subs }

def fileP : P InputFile := listOf (do
  let n ← str
  let s ← secP
  pure (n, s))

def klassP : P Klass := do
  let path ← str
  let name ← str
  let keywords ← listOf str
  let args ← listOf str
  let required ← listOf str
  let kwargs ← configP
  let varkw ← bool
  let isMixin ← bool
  let mixinArgs ← listOf str
  let mixinKwargs ← configP
  let hasAddGas ← bool
  let sections ← listOf str
  pure { path, name, keywords, args, required, kwargs, varkw, isMixin, mixinArgs, mixinKwargs, hasAddGas, sections }

def customsP : P Customs := listOf (do
  let f ← str
  let ks ← listOf klassP
  pure (f, ks))

/-! ### encoding -/

def fS (s : String) : String := esc s

def fScalar : Scalar → String
  | .none => "n"
  | .bool b => "b " ++ fB b
  | .int i => "i " ++ fI i
  | .dec n m e => s!"d {fB n} {m} {fI e}"
  | .inf n => "f " ++ fB n
  | .nan => "x"
  | .str s => "s " ++ fS s

def fValue : Value → String
  | .scalar s => "S " ++ fScalar s
  | .list l => "L " ++ fList fScalar l
  | .other r => "O " ++ fS r
  | .ref w => "R " ++ fS w

def fConfig (c : Config) : String := fList (fun kv => fS kv.1 ++ " " ++ fValue kv.2) c

def fComponent (c : Component) : String :=
  fS c.cls ++ " " ++ fConfig c.kwargs ++ " " ++ fList (fun m => fS m.1 ++ " " ++ fConfig m.2) c.mixins

def fErr : Err → String
  | .keyError w => "KeyError " ++ fS w
  | .notImplemented w => "NotImplementedError " ++ fS w
  | .typeError w => "TypeError " ++ fS w
  | .attrError w => "AttributeError " ++ fS w
  | .generic w => "Exception " ++ fS w
  | .valueError w => "ValueError " ++ fS w

def fResult {β : Type} (f : β → String) : Option (Except Err β) → String
  | none => "0"
  | some (.error e) => "1 E " ++ fErr e
  | some (.ok x) => "1 K " ++ f x

def fChem (g : ChemistryGraph) : String :=
  fComponent g.chemistry ++ " " ++ fList fComponent g.gases ++ " " ++ fB g.added

def fModel (g : ModelGraph) : String := fComponent g.model ++ " " ++ fList fComponent g.contributions

def fObs : ObsGraph → String
  | .self => "self"
  | .comp c => "comp " ++ fComponent c

def fInst (g : InstrumentGraph) : String := fComponent g.instrument ++ " " ++ fValue g.numObs

def fGraph (g : Graph) : String :=
  " ".intercalate [fResult fChem g.chemistry, fResult fComponent g.temperature, fResult fComponent g.pressure,
    fResult fComponent g.planet, fResult fComponent g.star, fResult fModel g.model, fResult fObs g.observation,
    fResult fInst g.instrument, fResult fComponent g.optimizer]

/-! ### operations -/

/-- `c15.expected customs file` → the nine slots of `Factory.expected` on the generated registry -/
def expectedOp (args : List String) : Option String :=
  run (do
    let customs ← customsP
    let file ← fileP
    pure (fGraph (expected Registry.registry customs file))) args

/-- `c15.transform value` → `ParameterParser.transform` -/
def transformOp (args : List String) : Option String :=
  run (do
    let v ← valueP
    pure (fValue (transform v))) args

/-- `c15.lookup section mixin? keyword` → `found? path` then the paths of all candidates;
    the look-up is done on the class list as generated and on its reverse (must agree: `lookup_unique`) -/
def lookupOp (args : List String) : Option String :=
  run (do
    let sec ← str
    let mix ← bool
    let kw ← str
    let sr := Registry.registry.sec sec
    let cls := if mix then sr.mixins else sr.classes
    let a := (lookup cls kw).map (·.path)
    let b := (lookup cls.reverse kw).map (·.path)
    pure (fOpt fS a ++ " " ++ fOpt fS b ++ " " ++ fList fS ((candidates cls kw).map (·.path)))) args

/-- `c15.prior name` → `create_prior` class -/
def priorOp (args : List String) : Option String :=
  run (do
    let name ← str
    pure (match lookupPrior (Registry.registry.sec "prior").classes name with
      | .ok k => "1 " ++ fS k.path
      | .error _ => "0")) args

/-- `c15.docs` → documented selectors that do not resolve on the tables, documented keys that are not accepted -/
def docsOp (args : List String) : Option String :=
  run (do
    let bad := Docs.selectors.filter (fun d => !resolvesTo Registry.registry d)
    let badk := Docs.keys.filter (fun d => !keyAccepted Registry.registry d)
    pure (fList (fun d => fS d.sec ++ " " ++ fS d.keyword ++ " " ++ fB d.inPackage) bad ++ " " ++
      fList (fun d => fS d.sec ++ " " ++ fS d.keyword ++ " " ++ fS d.key) badk ++ " " ++
      fN Docs.selectors.length ++ " " ++ fN Docs.keys.length)) args

/-- `c15.number str` → `float(str)` : `0` (ValueError) or `1 scalar` -/
def numberOp (args : List String) : Option String :=
  run (do
    let s ← str
    pure (fOpt fScalar (parseNumber s))) args

def ops : List Op :=
  [("c15.expected", expectedOp), ("c15.transform", transformOp), ("c15.lookup", lookupOp),
   ("c15.prior", priorOp), ("c15.docs", docsOp), ("c15.number", numberOp)]

end Taurex.Ops.C15
