import TaurexModel.Proto

namespace Taurex.Ops.C15
open Taurex.Proto

/-- operations of the C15 model served by `driver_c15` (filled in by the C15 check) -/
def ops : List Op := []

end Taurex.Ops.C15
