import TaurexModel.Proto

namespace Taurex.Ops.C09
open Taurex.Proto

/-- operations of the C09 model served by `driver_c09` (filled in by the C09 check) -/
def ops : List Op := []

end Taurex.Ops.C09
