import TaurexModel.Proto
import TaurexModel.Posterior

namespace Taurex.Ops.C09
open Taurex.Proto Taurex.Posterior

def fSummary (s : Summary Float) : String :=
  s!"{fF s.value} {fF s.sigmaM} {fF s.sigmaP} {fF s.mean}"

/-- `c09.quantile x w qs` → list -/
def quantileOp (args : List String) : Option String :=
  run (do
    let x ← listOf flt
    let w ← listOf flt
    let qs ← listOf flt
    if x.length ≠ w.length ∨ x.length = 0 then failure else pure ()
    pure (fList fF (qs.map (quantileCorner x w)))) args

/-- `c09.summary x w` → value sigma_m sigma_p mean -/
def summaryOp (args : List String) : Option String :=
  run (do
    let x ← listOf flt
    let w ← listOf flt
    if x.length ≠ w.length ∨ x.length = 0 then failure else pure ()
    pure (fSummary (summary x w))) args

/-- `c09.argmax w` → index -/
def argmaxOp (args : List String) : Option String :=
  run (do
    let w ← listOf flt
    if w.length = 0 then failure else pure ()
    pure (fN (argmaxFirst w))) args

/-- `c09.wmean x w` -/
def wmeanOp (args : List String) : Option String :=
  run (do
    let x ← listOf flt
    let w ← listOf flt
    if x.length ≠ w.length then failure else pure ()
    pure (fF (wmean x w))) args

/-- `c09.interp xs xp fp` → list (external `np.interp`) -/
def interpOp (args : List String) : Option String :=
  run (do
    let xs ← listOf flt
    let xp ← listOf flt
    let fp ← listOf flt
    if xp.length ≠ fp.length ∨ xp.length = 0 then failure else pure ()
    pure (fList fF (xs.map (fun x => npInterp x xp fp)))) args

/-- `c09.sort x w` → sorted values, permuted weights (external `np.argsort`, stable) -/
def sortOp (args : List String) : Option String :=
  run (do
    let x ← listOf flt
    let w ← listOf flt
    if x.length ≠ w.length then failure else pure ()
    let s := sortPairs (List.zip x w)
    pure (fList fF (s.map Prod.fst) ++ " " ++ fList fF (s.map Prod.snd))) args

/-- `c09.cdf w` → normalised running sums -/
def cdfOp (args : List String) : Option String :=
  run (do
    let w ← listOf flt
    pure (fList fF (cdfOf w))) args

/-- `c09.store ndim samples weights` → map index, MAP vector, median vector, one summary per parameter,
    stored samples, stored weights -/
def storeOp (args : List String) : Option String :=
  run (do
    let ndim ← nat
    let samples ← listOf (listOf flt)
    let weights ← listOf flt
    if samples.length ≠ weights.length ∨ samples.length = 0 then failure else pure ()
    if samples.any (fun r => r.length ≠ ndim) then failure else pure ()
    let s := storeOutput ndim samples weights
    pure (fN s.mapIndex ++ " " ++ fList fF (mapVector s) ++ " " ++ fList fF (medianVector s) ++ " " ++
          fList fSummary s.params ++ " " ++ fList (fList fF) s.tracedata ++ " " ++ fList fF s.weights)) args

/-- `c09.restore index a` → `a[index.argsort()]` -/
def restoreOp (args : List String) : Option String :=
  run (do
    let index ← listOf nat
    let a ← listOf flt
    pure (fList fF (restoreOrder index a))) args

def fChains (r : List (List (List Float)) × List (List Float)) : String :=
  fList (fList (fList fF)) r.1 ++ " " ++ fList (fList fF) r.2

/-- `c09.nestsingle table` → per solution the samples and the weights (`multimodes = False`) -/
def nestSingleOp (args : List String) : Option String :=
  run (do
    let data ← listOf (listOf flt)
    pure (fChains (nestChainsSingle data))) args

/-- `c09.nestmodes lines` (a line = its emptiness flag and its numbers) → per mode the sample array and the weights -/
def nestModesOp (args : List String) : Option String :=
  run (do
    let lines ← listOf (do
      let b ← nat
      let toks ← listOf flt
      pure ({ blank := b != 0, toks := toks } : PLine Float))
    pure (fChains (nestChainsModes lines))) args

/-- `c09.polychains nfit doClustering nClusters table clusterTables` → samples, weights, number of solutions -/
def polyChainsOp (args : List String) : Option String :=
  run (do
    let nfit ← nat
    let dc ← nat
    let nc ← nat
    let data ← listOf (listOf flt)
    let cl ← listOf (listOf (listOf flt))
    let r := polyChains nfit (dc != 0) nc data (fun k => cl.getD k [])
    pure (fChains (r.1, r.2.1) ++ " " ++ fN r.2.2)) args

/-- one prior's back-transform on the wire: `0` identity, `1` `10**x`, `2` `exp x`, `3 a b` `a*x + b` -/
def backP : P (Back Float) := do
  let k ← nat
  match k with
  | 0 => pure .identity
  | 1 => pure .pow10
  | 2 => pure .expNat
  | 3 => do let a ← flt; let b ← flt; pure (.affine a b)
  | _ => failure

/-- `c09.modelpoint backs vectors` → per sampled vector the model values `update_model` writes
    (`Posterior.modelPoint`) -/
def modelPointOp (args : List String) : Option String :=
  run (do
    let bs ← listOf backP
    let vs ← listOf (listOf flt)
    if vs.any (fun v => v.length ≠ bs.length) then failure else pure ()
    pure (fList (fun v => fList fF (modelPoint bs v)) vs)) args

def ops : List Op :=
  [("c09.quantile", quantileOp), ("c09.summary", summaryOp), ("c09.argmax", argmaxOp), ("c09.wmean", wmeanOp),
   ("c09.interp", interpOp), ("c09.sort", sortOp), ("c09.cdf", cdfOp), ("c09.store", storeOp),
   ("c09.restore", restoreOp), ("c09.nestsingle", nestSingleOp), ("c09.nestmodes", nestModesOp),
   ("c09.polychains", polyChainsOp), ("c09.modelpoint", modelPointOp)]

end Taurex.Ops.C09
