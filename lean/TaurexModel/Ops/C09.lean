import TaurexModel.Proto
import TaurexModel.Posterior

namespace Taurex.Ops.C09
open Taurex.Proto Taurex.Posterior

def fSummary (s : Summary Float) : String :=
  s!"{fF s.value} {fF s.sigmaM} {fF s.sigmaP} {fF s.mean}"

/-- `c09.quantile x w qs` → list -/
def quantileOp (args : List String) : Option String :=
  run (do
    let x ← listOf flt
    let w ← listOf flt
    let qs ← listOf flt
    if x.length ≠ w.length ∨ x.length = 0 then failure else pure ()
    pure (fList fF (qs.map (quantileCorner x w)))) args

/-- `c09.summary x w` → value sigma_m sigma_p mean -/
def summaryOp (args : List String) : Option String :=
  run (do
    let x ← listOf flt
    let w ← listOf flt
    if x.length ≠ w.length ∨ x.length = 0 then failure else pure ()
    pure (fSummary (summary x w))) args

/-- `c09.argmax w` → index -/
def argmaxOp (args : List String) : Option String :=
  run (do
    let w ← listOf flt
    if w.length = 0 then failure else pure ()
    pure (fN (argmaxFirst w))) args

/-- `c09.wmean x w` -/
def wmeanOp (args : List String) : Option String :=
  run (do
    let x ← listOf flt
    let w ← listOf flt
    if x.length ≠ w.length then failure else pure ()
    pure (fF (wmean x w))) args

/-- `c09.interp xs xp fp` → list (external `np.interp`) -/
def interpOp (args : List String) : Option String :=
  run (do
    let xs ← listOf flt
    let xp ← listOf flt
    let fp ← listOf flt
    if xp.length ≠ fp.length ∨ xp.length = 0 then failure else pure ()
    pure (fList fF (xs.map (fun x => npInterp x xp fp)))) args

/-- `c09.sort x w` → sorted values, permuted weights (external `np.argsort`, stable) -/
def sortOp (args : List String) : Option String :=
  run (do
    let x ← listOf flt
    let w ← listOf flt
    if x.length ≠ w.length then failure else pure ()
    let s := sortPairs (List.zip x w)
    pure (fList fF (s.map Prod.fst) ++ " " ++ fList fF (s.map Prod.snd))) args

/-- `c09.cdf w` → normalised running sums -/
def cdfOp (args : List String) : Option String :=
  run (do
    let w ← listOf flt
    pure (fList fF (cdfOf w))) args

/-- `c09.store ndim samples weights` → map index, MAP vector, median vector, one summary per parameter,
    stored samples, stored weights -/
def storeOp (args : List String) : Option String :=
  run (do
    let ndim ← nat
    let samples ← listOf (listOf flt)
    let weights ← listOf flt
    if samples.length ≠ weights.length ∨ samples.length = 0 then failure else pure ()
    if samples.any (fun r => r.length ≠ ndim) then failure else pure ()
    let s := storeOutput ndim samples weights
    pure (fN s.mapIndex ++ " " ++ fList fF (mapVector s) ++ " " ++ fList fF (medianVector s) ++ " " ++
          fList fSummary s.params ++ " " ++ fList (fList fF) s.tracedata ++ " " ++ fList fF s.weights)) args

/-- `c09.restore index a` → `a[index.argsort()]` -/
def restoreOp (args : List String) : Option String :=
  run (do
    let index ← listOf nat
    let a ← listOf flt
    pure (fList fF (restoreOrder index a))) args

def ops : List Op :=
  [("c09.quantile", quantileOp), ("c09.summary", summaryOp), ("c09.argmax", argmaxOp), ("c09.wmean", wmeanOp),
   ("c09.interp", interpOp), ("c09.sort", sortOp), ("c09.cdf", cdfOp), ("c09.store", storeOp),
   ("c09.restore", restoreOp)]

end Taurex.Ops.C09
