import TaurexModel.Proto
import TaurexModel.Binning
import TaurexModel.Observation
import TaurexModel.ObsHolder

namespace Taurex.Ops.C17
open Taurex.Proto Taurex.Binning Taurex.Observation

/-- rows of the observation array (3 columns: width 0) -/
def mkORows (rows : List (List Float)) : List (ORow Float) :=
  rows.map (fun r => ({ wl := r.getD 0 0, v := r.getD 1 0, e := r.getD 2 0, bw := r.getD 3 0 } : ORow Float))

def mkRows (c s : List Float) : List (Row Float) :=
  (List.range c.length).map (fun i => ({ c := c.getD i 0, w := 0, s := s.getD i 0, e := 0 } : Row Float))

/-- `c17.load kind rows native_c native_s`
    kind 0: `ArraySpectrum(rows)` with 3 columns, 1: 4 columns,
         2: `TaurexSpectrum` from rows `(wn, spectrum, noise, wnwidth)`
    → `wavenumberGrid spectrum errorBar binWidths binEdges binner._wngrid binner._wngrid_width
       create_binner().bin_model((native_c, native_s))[1]` -/
def loadOp (args : List String) : Option String :=
  run (do
    let kind ← nat
    let rows ← listOf (listOf flt)
    let nc ← listOf flt
    let ns ← listOf flt
    pure (kind, rows, nc, ns)) args >>= fun (kind, rows, nc, ns) =>
  if rows.length < 2 then none else
    let orows := if kind == 2 then (mkORows rows).map fromTaurex else mkORows rows
    let o := load (kind != 0) orows
    let b := o.createBinner
    let binned := if nc.length < 2 then [] else o.binModel (mkRows nc ns)
    some (fList fF o.wavenumberGrid ++ " " ++ fList fF o.spectrum ++ " " ++ fList fF o.errorBar ++ " " ++
      fList fF o.binWidths ++ " " ++ fList fF o.binEdges ++ " " ++ fList fF (b.map TBin.c) ++ " " ++
      fList fF (b.map TBin.w) ++ " " ++ fList fF binned)

/-- one observation of a history: `0` (None) or `1 kind rows` (as for `c17.load`; fewer than 2 rows: rejected) -/
def obsArg : P (Option (Option (Obs Float))) := do
  let o ← optOf (do
    let kind ← nat
    let rows ← listOf (listOf flt)
    pure (kind, rows))
  match o with
  | none => pure (some none)
  | some (kind, rows) =>
    if rows.length < 2 then pure none else
      let orows := if kind == 2 then (mkORows rows).map fromTaurex else mkORows rows
      pure (some (some (load (kind != 0) orows)))

/-- `c17.holder native_c native_s first [later…]`: `Optimizer(observed=first)` followed by `set_observed(o)` for every later
    entry → `observed-present binner-present binner._wngrid binner._wngrid_width bin_model[1] chisq_trans` (the last two
    empty / absent when the object holds no binner or no observation) -/
def holderOp (args : List String) : Option String :=
  run (do
    let nc ← listOf flt
    let ns ← listOf flt
    let first ← obsArg
    let later ← listOf obsArg
    pure (nc, ns, first, later)) args >>= fun (nc, ns, first, later) =>
  first >>= fun first =>
  (later.mapM id) >>= fun later =>
    if nc.length < 2 then none else
    let h := (Holder.new first).after later
    let native := mkRows nc ns
    let b := h.binner.getD []
    some (fB h.observed.isSome ++ " " ++ fB h.binner.isSome ++ " " ++ fList fF (b.map TBin.c) ++ " " ++
      fList fF (b.map TBin.w) ++ " " ++ fList fF ((h.binModel native).getD []) ++ " " ++ fOpt fF (h.chisq native))

/-- `[Observation]` of a program run: `0` absent, `1 kind rows` a file (as for `c17.load`), `2` self -/
def obsDeclArg : P (Option (ObsDecl Float)) := do
  let tag ← nat
  if tag == 0 then pure (some ObsDecl.absent)
  else if tag == 2 then pure (some ObsDecl.self)
  else
    let kind ← nat
    let rows ← listOf (listOf flt)
    if rows.length < 2 then pure none else
      let orows := if kind == 2 then (mkORows rows).map fromTaurex else mkORows rows
      pure (some (ObsDecl.given (load (kind != 0) orows)))

/-- `c17.program bin obs inst native_c native_s`: `taurex -i par -o out` with `[Binning]` `bin` (0 absent, 1 native,
    2 observed, 3 manual), `[Observation]` `obs`, the instrument result `inst` (`0` / `1 rows(wn, spectrum, noise, width)`)
    → `observed-present binner-tag(0 native, 1 manual, 2 created from an observation) binner._wngrid binner._wngrid_width
       binned obs.wavenumberGrid obs.spectrum obs.errorBar obs.binWidths`; `none` where the program stops -/
def programOp (args : List String) : Option String :=
  run (do
    let b ← nat
    let o ← obsDeclArg
    let inst ← optOf (listOf (listOf flt))
    let nc ← listOf flt
    let ns ← listOf flt
    pure (b, o, inst, nc, ns)) args >>= fun (b, o, inst, nc, ns) =>
  o >>= fun o =>
    if nc.length < 2 || (inst.map (fun rows => decide (rows.length < 2))).getD false then none else
    let bd := if b == 0 then BinDecl.absent else if b == 1 then BinDecl.native else if b == 2 then BinDecl.observed
      else BinDecl.manual
    (Program.run bd o (inst.map mkORows)) >>= fun p =>
    let native := mkRows nc ns
    let (tag, bins) : Nat × List (TBin Float) := match p.binner with
      | ProgBinner.native => (0, [])
      | ProgBinner.manual => (1, [])
      | ProgBinner.ofObs bs => (2, bs)
    let ob (f : Obs Float → List Float) : List Float := (p.observed.map f).getD []
    some (fB p.observed.isSome ++ " " ++ fN tag ++ " " ++ fList fF (bins.map TBin.c) ++ " " ++
      fList fF (bins.map TBin.w) ++ " " ++ fList fF ((p.binModel native).getD []) ++ " " ++
      fList fF (ob Obs.wavenumberGrid) ++ " " ++ fList fF (ob Obs.spectrum) ++ " " ++ fList fF (ob Obs.errorBar) ++ " " ++
      fList fF (ob Obs.binWidths))

def ops : List Op := [("c17.load", loadOp), ("c17.holder", holderOp), ("c17.program", programOp)]

end Taurex.Ops.C17
