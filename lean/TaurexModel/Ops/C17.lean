import TaurexModel.Proto

namespace Taurex.Ops.C17
open Taurex.Proto

/-- operations of the C17 model served by `driver_c17` (filled in by the C17 check) -/
def ops : List Op := []

end Taurex.Ops.C17
