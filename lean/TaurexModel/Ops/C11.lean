import TaurexModel.Proto
import TaurexModel.Structure

namespace Taurex.Ops.C11
open Taurex Taurex.Proto Taurex.Structure

/-- `c11.levels n pmin pmax` → levels (n+1), layer pressures (n) -/
def levelsOp (args : List String) : Option String :=
  run (do
    let n ← nat
    let pmin ← flt
    let pmax ← flt
    let lv := logLevels n pmin pmax
    pure (fList fF lv ++ " " ++ fList fF (layerPressures lv))) args

/-- `c11.arraylevels profile` → optional levels -/
def arrayLevelsOp (args : List String) : Option String :=
  run (do
    let p ← listOf flt
    pure (fOpt (fList fF) (arrayLevels p))) args

/-- `c11.scale kb G M R T pl mu` → z H g dz and the stored views altitude, scale height, gravity -/
def scaleOp (args : List String) : Option String :=
  run (do
    let kb ← flt
    let bigG ← flt
    let mass ← flt
    let r ← flt
    let t ← listOf flt
    let pl ← listOf flt
    let mu ← listOf flt
    let s := scaleProps kb bigG mass r t pl mu
    let v := views s
    pure (" ".intercalate [fList fF s.z, fList fF s.H, fList fF s.g, fList fF s.dz,
      fList fF v.altitudeProfile, fList fF v.scaleheightProfile, fList fF v.gravityProfile])) args

/-- `c11.gravity G M R h` → surface gravity, gravity at height -/
def gravityOp (args : List String) : Option String :=
  run (do
    let bigG ← flt
    let mass ← flt
    let r ← flt
    let h ← flt
    pure (fF (surfaceGravity (bigG * mass) r) ++ " " ++ fF (gravityAt (bigG * mass) r h))) args

/-- `c11.density kb p t` -/
def densityOp (args : List String) : Option String :=
  run (do
    let kb ← flt
    let p ← listOf flt
    let t ← listOf flt
    pure (fList fF (density kb p t))) args

/-- one dictionary value: tag 0 = None, 1 = 1-D array, 2 = 2-D array -/
def fProfVal : ProfVal Float → String
  | .none => "0"
  | .arr l => "1 " ++ fList fF l
  | .arr2 rows => "2 " ++ fList (fList fF) rows

/-- `c11.profiledict temp press dens mu H alt g act? inact? cond?` → the entries (key, value) of
    `generate_profiles()` in insertion order -/
def profileDictOp (args : List String) : Option String :=
  run (do
    let temp ← listOf flt
    let press ← listOf flt
    let dens ← listOf flt
    let mu ← listOf flt
    let h ← listOf flt
    let alt ← listOf flt
    let g ← listOf flt
    let act ← optOf (listOf (listOf flt))
    let inact ← optOf (listOf (listOf flt))
    let cond ← optOf (listOf (listOf flt))
    let v : Views Float := { altitudeProfile := alt, scaleheightProfile := h, gravityProfile := g,
                             altitudeBoundaries := [], deltaz := [] }
    let d := profileDict v temp press dens mu act inact cond
    pure (fList (fun e => e.1 ++ " " ++ fProfVal e.2) d)) args

/-- `c11.unit from to` → optional conversion factor between metre multiples -/
def unitOp (args : List String) : Option String :=
  run (do
    let a ← tok
    let b ← tok
    pure (fOpt fF (lengthFactor (α := Float) a b))) args

def ops : List Op :=
  [("c11.unit", unitOp), ("c11.levels", levelsOp), ("c11.arraylevels", arrayLevelsOp), ("c11.scale", scaleOp),
   ("c11.gravity", gravityOp), ("c11.density", densityOp), ("c11.profiledict", profileDictOp)]

end Taurex.Ops.C11
