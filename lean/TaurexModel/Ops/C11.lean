import TaurexModel.Proto

namespace Taurex.Ops.C11
open Taurex.Proto

/-- operations of the C11 model served by `driver_c11` (filled in by the C11 check) -/
def ops : List Op := []

end Taurex.Ops.C11
