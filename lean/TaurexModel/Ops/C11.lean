import TaurexModel.Proto
import TaurexModel.Structure

namespace Taurex.Ops.C11
open Taurex Taurex.Proto Taurex.Structure

/-- `c11.levels n pmin pmax` → levels (n+1), layer pressures (n) -/
def levelsOp (args : List String) : Option String :=
  run (do
    let n ← nat
    let pmin ← flt
    let pmax ← flt
    let lv := logLevels n pmin pmax
    pure (fList fF lv ++ " " ++ fList fF (layerPressures lv))) args

/-- `c11.arraylevels profile` → optional levels -/
def arrayLevelsOp (args : List String) : Option String :=
  run (do
    let p ← listOf flt
    pure (fOpt (fList fF) (arrayLevels p))) args

/-- `c11.scale kb G M R T pl mu` → z H g dz and the stored views altitude, scale height, gravity -/
def scaleOp (args : List String) : Option String :=
  run (do
    let kb ← flt
    let bigG ← flt
    let mass ← flt
    let r ← flt
    let t ← listOf flt
    let pl ← listOf flt
    let mu ← listOf flt
    let s := scaleProps kb bigG mass r t pl mu
    let v := views s
    pure (" ".intercalate [fList fF s.z, fList fF s.H, fList fF s.g, fList fF s.dz,
      fList fF v.altitudeProfile, fList fF v.scaleheightProfile, fList fF v.gravityProfile])) args

/-- `c11.gravity G M R h` → surface gravity, gravity at height -/
def gravityOp (args : List String) : Option String :=
  run (do
    let bigG ← flt
    let mass ← flt
    let r ← flt
    let h ← flt
    pure (fF (surfaceGravity (bigG * mass) r) ++ " " ++ fF (gravityAt (bigG * mass) r h))) args

/-- `c11.density kb p t` -/
def densityOp (args : List String) : Option String :=
  run (do
    let kb ← flt
    let p ← listOf flt
    let t ← listOf flt
    pure (fList fF (density kb p t))) args

def ops : List Op :=
  [("c11.levels", levelsOp), ("c11.arraylevels", arrayLevelsOp), ("c11.scale", scaleOp),
   ("c11.gravity", gravityOp), ("c11.density", densityOp)]

end Taurex.Ops.C11
