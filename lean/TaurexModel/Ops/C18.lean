import TaurexModel.Proto

namespace Taurex.Ops.C18
open Taurex.Proto

/-- operations of the C18 model served by `driver_c18` (filled in by the C18 check) -/
def ops : List Op := []

end Taurex.Ops.C18
