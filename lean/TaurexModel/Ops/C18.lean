import TaurexModel.Proto
import TaurexModel.Variance

namespace Taurex.Ops.C18
open Taurex Taurex.Proto Taurex.Variance

/-- `0` raises, `1` NaN, `2 x` number, `3` +inf -/
def fRes (r : Option (Val Float)) : String :=
  match r with
  | none => "0"
  | some Val.nan => "1"
  | some (Val.fin x) => "2 " ++ fF x
  | some Val.posInf => "3"

def samplesP : P (List (Float × Float)) := do
  let xs ← listOf flt
  let ws ← listOf flt
  pure (xs.zip ws)

/-- `c18.acc xs ws` → `count wcount mean m2 varTag [var]` of one rank after `update` on every sample -/
def accOp (args : List String) : Option String :=
  run (do
    let l ← samplesP
    let a := accOf l
    let v := variance a
    pure s!"{a.count} {fF a.wcount} {fF a.mean} {fF a.m2} {fRes (some v.val)} {fB v.isNpNan}") args

/-- `c18.pool test exch blocks` → pooled variance and pooled mean;
    `test` 0 = NaN by value (current code), 1 = by identity; `exch` 0 = `id` (no mpi4py), 1 = `ser` -/
def poolOp (args : List String) : Option String :=
  run (do
    let test ← nat
    let ex ← nat
    let blocks ← listOf samplesP
    let isNan : Obj Float → Bool := if test == 0 then nanByValue else nanByIdentity
    let exch : Obj Float → Obj Float := if ex == 0 then id else ser
    let ranks := blocks.map accOf
    pure (fRes (parallelVariance isNan exch ranks) ++ " " ++ fRes (parallelMean isNan exch ranks))) args

/-- `c18.split size xs ws` → `splitVariance size samples` -/
def splitOp (args : List String) : Option String :=
  run (do
    let size ← nat
    let l ← samplesP
    pure (fRes (splitVariance size l))) args

/-- `c18.strided r size n` → the indices rank `r` of `size` processes out of `n` samples -/
def stridedOp (args : List String) : Option String :=
  run (do
    let r ← nat
    let size ← nat
    let n ← nat
    pure (fList fN (strided r size (List.range n)))) args

/-- `c18.twopass xs ws` → weighted mean and two-pass weighted variance -/
def twoPassOp (args : List String) : Option String :=
  run (do
    let l ← samplesP
    pure (fF (wmean l) ++ " " ++ fF (twoPassVar l))) args

/-- `c18.derived size trace` → gathered-and-reordered trace (current code), the rank-ordered gather of the trace
    and of the sample indices -/
def derivedOp (args : List String) : Option String :=
  run (do
    let size ← nat
    let t ← listOf flt
    pure (fList fF (derivedTraceGather size t) ++ " " ++ fList fF (gatherLists (partition size t)) ++ " " ++
      fList fN (gatherLists (partition size (List.range t.length))))) args

/-- `c18.derived_pinned size weights trace` → the pinned tree's weight-matching re-ordering (regression model) -/
def derivedPinnedOp (args : List String) : Option String :=
  run (do
    let size ← nat
    let w ← listOf flt
    let t ← listOf flt
    pure (fList fF (derivedTraceGatherPinned size w t))) args

/-- `c18.draw n given` → how many posterior samples the post-processing of an optimizer constructed with
    `sigma_fraction = given` (`0` = not given: the default 0.1) draws out of `n`: `int(n*fraction)` -/
def drawOp (args : List String) : Option String :=
  run (do
    let n ← nat
    let given ← optOf flt
    let f : Float := heldFraction 0.1 given
    if f < 0 || f.isNaN then pure none
    else pure (some (fN (drawCount Float.ofNat (fun x => x.floor.toUInt64.toNat) n f)))) args >>= id

/-- `c18.post size draw floor xs ws` → `postProcess size draw floor samples` -/
def postOp (args : List String) : Option String :=
  run (do
    let size ← nat
    let draw ← listOf nat
    let floor ← flt
    let l ← samplesP
    pure (fRes (postProcess size draw floor l))) args

def ops : List Op :=
  [("c18.acc", accOp), ("c18.pool", poolOp), ("c18.split", splitOp), ("c18.strided", stridedOp),
   ("c18.twopass", twoPassOp), ("c18.derived", derivedOp), ("c18.derived_pinned", derivedPinnedOp),
   ("c18.draw", drawOp), ("c18.post", postOp)]

end Taurex.Ops.C18
