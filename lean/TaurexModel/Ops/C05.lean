import TaurexModel.Proto

namespace Taurex.Ops.C05
open Taurex.Proto

/-- operations of the C05 model served by `driver_c05` (filled in by the C05 check) -/
def ops : List Op := []

end Taurex.Ops.C05
