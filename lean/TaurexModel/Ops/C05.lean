import TaurexModel.Proto
import TaurexModel.Binning
import TaurexModel.ObsTargets

namespace Taurex.Ops.C05
open Taurex.Proto Taurex.Binning Taurex.Observation Taurex.ObsTargets

/-- rows of one spectrum: centres, widths (or zeros), values, errors (or zeros) -/
def mkRows (c w s e : List Float) : List (Row Float) :=
  (List.range c.length).map (fun i =>
    ({ c := c.getD i 0, w := w.getD i 0, s := s.getD i 0, e := e.getD i 0 } : Row Float))

def mkTargets (c w : List Float) : List (TBin Float) :=
  (List.range c.length).map (fun i => ({ c := c.getD i 0, w := w.getD i 0 } : TBin Float))

/-- adjacent test of the "ordered bins" guard (adjacent suffices for a transitive relation) -/
def orderedB : List (Row Float) → Bool
  | r :: r' :: t => decide (r.lo ≤ r'.lo) && decide (r.hi ≤ r'.hi) && orderedB (r' :: t)
  | _ => true

/-- target width mode: `0` none, `1 w` scalar, `2` array -/
def modeP : P (WidthMode Float) := do
  let n ← nat
  match n with
  | 0 => pure WidthMode.none
  | 1 => do
    let w ← flt
    pure (WidthMode.scalar w)
  | _ => pure WidthMode.array

/-- `c05.edges g` → `edges widths` (`compute_bin_edges`) -/
def edgesOp (args : List String) : Option String :=
  run (do
    let g ← listOf flt
    pure g) args >>= fun g =>
  if g.length < 2 then none else
    let (e, w) := computeBinEdges g
    some (fList fF e ++ " " ++ fList fF w)

/-- `c05.flux explicit nc nw specs errs mode tc tw`
    → `grid widths binned(list per spectrum) errs(list per error array) ordered sumOverlap spec quad`
    The real code: `FluxBinner(tc, tw).bindown(nc, spec, grid_width=nw|None, error=err|None)` -/
def fluxOp (args : List String) : Option String :=
  run (do
    let explicit ← bool
    let nc ← listOf flt
    let nw ← listOf flt
    let specs ← listOf (listOf flt)
    let errs ← listOf (listOf flt)
    let mode ← modeP
    let tc ← listOf flt
    let tw ← listOf flt
    pure (explicit, nc, nw, specs, errs, mode, tc, tw)) args >>= fun (explicit, nc, nw, specs, errs, mode, tc, tw) =>
  if nc.length < 1 then none
  else if !explicit && nc.length < 2 then none
  else if (match mode with | .none => decide (tc.length < 2) | _ => false) then none
  else
    let targets := targetBins mode (mkTargets tc tw)
    let z : List Float := []
    let binned := specs.map (fun s => fluxBindown explicit Row.s (mkRows nc nw s z) targets)
    let berr := errs.map (fun e => fluxBindownErr explicit Row.e (mkRows nc nw z e) targets)
    -- the specification evaluated on the same sorted native bins
    let bins := nativeBins explicit (mkRows nc nw z z)
    let sumOv := targets.map (fun t => sumL (bins.map (overlap t.lo t.hi)))
    let spec := specs.map (fun s =>
      let rows := nativeBins explicit (mkRows nc nw s z)
      targets.map (fun t => overlapMeanSpec Row.s rows t.lo t.hi))
    let quad := errs.map (fun e =>
      let rows := nativeBins explicit (mkRows nc nw z e)
      targets.map (fun t => quadErrSpec Row.e rows t.lo t.hi))
    some (fList fF (targets.map TBin.c) ++ " " ++ fList fF (targets.map TBin.w) ++ " " ++
      fList (fList fF) binned ++ " " ++ fList (fList fF) berr ++ " " ++ fB (orderedB bins) ++ " " ++
      fList fF sumOv ++ " " ++ fList (fList fF) spec ++ " " ++ fList (fList fF) quad)

/-- `c05.hist nd nc specs nb` → list per spectrum (`util.bindown`; `nd = 0` 1-D path, else N-D path) -/
def histOp (args : List String) : Option String :=
  run (do
    let nd ← bool
    let nc ← listOf flt
    let specs ← listOf (listOf flt)
    let nb ← listOf flt
    pure (nd, nc, specs, nb)) args >>= fun (nd, nc, specs, nb) =>
  if nb.length < 2 then none else
    let z : List Float := []
    some (fList (fList fF) (specs.map (fun s =>
      if nd then histMeanN Row.s (mkRows nc z s z) nb else histMean1 Row.s (mkRows nc z s z) nb)))

/-- `c05.native xs` → `xs` (`NativeBinner.bindown`) -/
def nativeOp (args : List String) : Option String :=
  run (do
    let xs ← listOf flt
    pure (fList fF (nativeBindown xs))) args

/-- `c05.obs route rows` → `_wngrid _wngrid_width noise`: the target bins of the binner built from file rows
    `(col0, col1, col2, col3)`; route 0 `ArraySpectrum` 3 columns (wl, value, error), 1 `ArraySpectrum` 4 columns (…, width),
    2 `TaurexSpectrum` (wn, value, noise, wn width), 3 `InstrumentFile` (wl, noise, width; sent as (wl, 0, noise, width)).
    Fewer than two rows: rejected (mid-point widths / `np.loadtxt` layout) -/
def obsOp (args : List String) : Option String :=
  run (do
    let rt ← nat
    let rows ← listOf (listOf flt)
    pure (rt, rows)) args >>= fun (rt, rows) =>
  if rows.length < 2 then none else
    let orows := rows.map (fun r => ({ wl := r.getD 0 0, v := r.getD 1 0, e := r.getD 2 0, bw := r.getD 3 0 } : ORow Float))
    let route := match rt with
      | 0 => Route.array3
      | 1 => Route.array4
      | 2 => Route.taurex
      | _ => Route.instrument
    let ts := routeTargets route orows
    some (fList fF (ts.map TBin.c) ++ " " ++ fList fF (ts.map TBin.w) ++ " " ++ fList fF (instrumentNoise orows))

def ops : List Op :=
  [("c05.edges", edgesOp), ("c05.flux", fluxOp), ("c05.hist", histOp), ("c05.native", nativeOp), ("c05.obs", obsOp)]

end Taurex.Ops.C05
