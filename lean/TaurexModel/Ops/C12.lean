import TaurexModel.Proto
import TaurexModel.Temperature
import TaurexModel.Section

namespace Taurex.Ops.C12
open Taurex.Proto Taurex.NpInterp Taurex.Temperature

/-- outcome payload: `0 <list>` ok, `1` invalid model, `2` other exception -/
def fOutcome {β : Type} (f : β → String) : Outcome β → String
  | .ok v => "0 " ++ f v
  | .invalid => "1"
  | .error => "2"

/-- `c12.interp xp fp xs` → list -/
def interpOp (args : List String) : Option String :=
  run (do
    let xp ← listOf flt
    let fp ← listOf flt
    let xs ← listOf flt
    pure (fList fF (xs.map (npInterp xp fp)))) args

/-- `c12.linspace start stop n` → list -/
def linspaceOp (args : List String) : Option String :=
  run (do
    let a ← flt
    let b ← flt
    let n ← nat
    pure (fList fF (linspace a b n))) args

/-- `c12.movavg a n` → list -/
def movavgOp (args : List String) : Option String :=
  run (do
    let a ← listOf flt
    let n ← nat
    pure (fList fF (movingAverage a n))) args

/-- `c12.oddwindow nlayers window` → nat -/
def oddWindowOp (args : List String) : Option String :=
  run (do
    let n ← nat
    let w ← flt
    pure (fN (oddWindow n w))) args

/-- `c12.iso T n` → list -/
def isoOp (args : List String) : Option String :=
  run (do
    let t ← flt
    let n ← nat
    pure (fList fF (isothermal t n))) args

/-- `c12.npoint Tsurf Ttop optPsurf optPtop tpoints ppoints window limit nlayers pressure` → outcome list -/
def npointOp (args : List String) : Option String :=
  run (do
    let ts ← flt
    let tt ← flt
    let ps ← optOf flt
    let pt ← optOf flt
    let tp ← listOf flt
    let pp ← listOf flt
    let w ← flt
    let lim ← flt
    let n ← nat
    let pr ← listOf flt
    let q : NPointParams Float := ⟨ts, tt, ps, pt, tp, pp, w, lim⟩
    pure (fOutcome (fList fF) (nPoint q n pr))) args

/-- `c12.rodgers tlayers h optCov pressure` → list -/
def rodgersOp (args : List String) : Option String :=
  run (do
    let t ← listOf flt
    let h ← flt
    let cov ← optOf (listOf (listOf flt))
    let pr ← listOf flt
    pure (fList fF (rodgers t h cov pr))) args

/-- `c12.tarray tp optPp reverse nlayers pressure` → list -/
def tarrayOp (args : List String) : Option String :=
  run (do
    let tp ← listOf flt
    let pp ← optOf (listOf flt)
    let rev ← bool
    let n ← nat
    let pr ← listOf flt
    pure (fList fF (tempArray tp pp rev n pr))) args

/-- `c12.guillot Tirr kir kv1 kv2 alpha Tint g pressure e21 e22` → outcome list -/
def guillotOp (args : List String) : Option String :=
  run (do
    let tirr ← flt
    let kir ← flt
    let kv1 ← flt
    let kv2 ← flt
    let al ← flt
    let tint ← flt
    let g ← flt
    let pr ← listOf flt
    let e1 ← listOf flt
    let e2 ← listOf flt
    let q : GuillotParams Float := ⟨tirr, kir, kv1, kv2, al, tint⟩
    pure (fOutcome (fList fF) (guillot q g pr e1 e2))) args

/-- `c12.scale factor profile` → list: `TempScaler.profile` over the wrapped class's profile -/
def scaleOp (args : List String) : Option String :=
  run (do
    let s ← flt
    let prof ← listOf flt
    pure (fList fF (tempScaler s prof))) args

/-- `c12.section defaults sections`: `defaults` = the constructor's keywords `(name, token)`, `sections` = the sections of
    one session, each a list of `(name, token)`; values are opaque tokens → per section `0` (KeyError) or
    `1 <tokens in constructor order>` -/
def sectionOp (args : List String) : Option String :=
  let kv : P (String × String) := do
    let k ← tok
    let v ← tok
    pure (k, v)
  run (do
    let d ← listOf kv
    let secs ← listOf (listOf kv)
    pure (fList (fOpt (fun r => fList (fun (p : String × String) => p.2) r)) (Taurex.Section.session d secs))) args

def ops : List Op :=
  [("c12.interp", interpOp), ("c12.linspace", linspaceOp), ("c12.movavg", movavgOp),
   ("c12.oddwindow", oddWindowOp), ("c12.iso", isoOp), ("c12.npoint", npointOp),
   ("c12.rodgers", rodgersOp), ("c12.tarray", tarrayOp), ("c12.guillot", guillotOp), ("c12.section", sectionOp),
   ("c12.scale", scaleOp)]

end Taurex.Ops.C12
