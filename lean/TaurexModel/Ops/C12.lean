import TaurexModel.Proto

namespace Taurex.Ops.C12
open Taurex.Proto

/-- operations of the C12 model served by `driver_c12` (filled in by the C12 check) -/
def ops : List Op := []

end Taurex.Ops.C12
