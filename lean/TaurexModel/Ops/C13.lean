import TaurexModel.Proto

namespace Taurex.Ops.C13
open Taurex.Proto

/-- operations of the C13 model served by `driver_c13` (filled in by the C13 check) -/
def ops : List Op := []

end Taurex.Ops.C13
