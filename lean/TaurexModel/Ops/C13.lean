import TaurexModel.Proto
import TaurexModel.Grid

namespace Taurex.Ops.C13
open Taurex.Proto Taurex.Grid

/-- `c13.clip native wngrid` → clipped native grid -/
def clipOp (args : List String) : Option String :=
  run (do
    let native ← listOf flt
    let wn ← listOf flt
    if wn.length < 2 then failure
    pure (fList fF (clipNative native wn))) args

/-- `c13.opacity nativeWn vals req` → values on the requested grid -/
def opacityOp (args : List String) : Option String :=
  run (do
    let nw ← listOf flt
    let vals ← listOf flt
    let req ← listOf flt
    if req.isEmpty || nw.length != vals.length then failure
    pure (fList fF (opacityOnGrid nw vals req))) args

def ops : List Op := [("c13.clip", clipOp), ("c13.opacity", opacityOp)]

end Taurex.Ops.C13
