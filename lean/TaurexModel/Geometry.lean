/-
  Model of the 3-D line/sphere geometry behind `TransmissionModel(new_path_method=True)`:
    taurex/util/geometry.py: parallel_vector, normalize, compute_line_3d, multi_dot,
        compute_intersection_3d, compute_path_length_3d
    taurex/data/planet.py: BasePlanet.compute_path_length
    taurex/model/transmission.py: TransmissionModel.compute_path_length
  Step by step: ray origin/direction per tangent layer, the quadratic of every boundary sphere, the clamped
  intersection parameters, near/far ordering, the planet-crossing replacement, the distances, the
  `np.isfinite` selection of spheres and the differences that become the per-layer segments.
  NaN is not a value of the carrier: `np.sqrt(delta)` of a negative `delta` is NaN and `np.isfinite` drops that
  sphere, which is modelled by the explicit test `0 ≤ delta`.  The planet-crossing branch compares sums over
  *all* crossing rays in the code; it is modelled per ray (same outcome whenever the origin lies outside the
  planet; the theorems assume no ray crosses the planet, i.e. tangent radius ≥ R).
-/
import TaurexModel.Num

namespace Taurex.Geometry

section
variable {α : Type} [Add α] [Sub α] [Mul α] [Div α] [Neg α] [LT α] [LE α]
  [DecidableLT α] [DecidableLE α] [OfNat α 0] [OfNat α 2] [Transc α]

/-- a column of a `(3, n)` numpy array -/
structure V3 (α : Type) where
  x : α
  y : α
  z : α

def V3.add (a b : V3 α) : V3 α := ⟨a.x + b.x, a.y + b.y, a.z + b.z⟩
def V3.sub (a b : V3 α) : V3 α := ⟨a.x - b.x, a.y - b.y, a.z - b.z⟩
def V3.mul (a b : V3 α) : V3 α := ⟨a.x * b.x, a.y * b.y, a.z * b.z⟩
/-- `d*u` -/
def V3.smul (d : α) (u : V3 α) : V3 α := ⟨d * u.x, d * u.y, d * u.z⟩
/-- `np.sum(·, axis=0)` over the three rows -/
def V3.sum (a : V3 α) : α := a.x + a.y + a.z
/-- `multi_dot(a, b) = np.sum(a*b, axis=0)` -/
def dot (a b : V3 α) : α := (a.mul b).sum
/-- `(a**2).sum(axis=0)` -/
def normSq (a : V3 α) : α := (a.mul a).sum
/-- `np.linalg.norm(a, axis=0)` -/
def norm (a : V3 α) : α := sqrt (normSq a)

/-- `normalize(v)`: `v/norm`, columns of zero norm left as they are -/
def normalize (v : V3 α) : V3 α :=
  let nrm := norm v
  if nrm ≤ 0 ∧ 0 ≤ nrm then v else ⟨v.x / nrm, v.y / nrm, v.z / nrm⟩

/-- `parallel_vector(R, alt, max_alt)`: (viewer, tangent) of one line of sight -/
def parallelVector (R alt maxAlt : α) : V3 α × V3 α :=
  (⟨-(R + maxAlt * 2), R + alt, 0⟩, ⟨0, R + alt, 0⟩)

/-- `compute_line_3d(v, t)`: origin and unit direction -/
def line3d (v t : V3 α) : V3 α × V3 α := (v, normalize (t.sub v))

/-- `d[d < 0] = 0.0` -/
def clamp0 (d : α) : α := if d < 0 then 0 else d

/-- one sphere of `compute_intersection_3d`: the discriminant and the two stored points -/
structure Hit (α : Type) where
  delta : α
  near : V3 α
  far : V3 α

/-- `compute_intersection_3d(R, h, u, o)` for one height `h` and one ray -/
def intersect (R h : α) (u o : V3 α) : Hit α :=
  let sd := dot u o
  let dotRes := sd * sd - normSq o
  let delta := dotRes + (R + h) * (R + h)
  let s := sqrt delta
  let d1 := clamp0 (-sd + s)
  let d2 := clamp0 (-sd - s)
  let sol1 := o.add (V3.smul d1 u)
  let sol2 := o.add (V3.smul d2 u)
  let v1 := normSq (o.sub sol1)
  let v2 := normSq (o.sub sol2)
  -- `max_filter = v2 > v1`: solution[0], solution[1] = sol1, sol2, else swapped
  let near := if v1 < v2 then sol1 else sol2
  let far := if v1 < v2 then sol2 else sol1
  -- "Detect planet crossings": the far point is replaced by a point on the planet's surface
  let deltaP := dotRes + R * R
  let far :=
    if 0 < deltaP then
      let sp := sqrt deltaP
      let p1 := o.add (V3.smul (-sd + sp) u)
      let p2 := o.add (V3.smul (-sd - sp) u)
      if normSq (o.sub p1) < normSq (o.sub p2) then p1 else p2
    else far
  ⟨delta, near, far⟩

/-- `np.linalg.norm(intersections[1] - intersections[0], axis=0)` -/
def hitDistance (h : Hit α) : α := norm (h.far.sub h.near)

/-- spheres whose distance passes `np.isfinite` (the others have `sqrt` of a negative discriminant) -/
def goodSpheres (R : α) (m : Nat) (zb : Nat → α) (u o : V3 α) : List Nat :=
  (List.range m).filter fun j => decide (0 ≤ (intersect R (zb j) u o).delta)

/-- `dists = distances[layer_filt, i]` -/
def rayDists (R : α) (m : Nat) (zb : Nat → α) (u o : V3 α) : List α :=
  (goodSpheres R m zb u o).map fun j => hitDistance (intersect R (zb j) u o)

/-- `final_distances[0] = dists[0]; final_distances[1:] = dists[1:] - dists[:-1]` -/
def segs (ds : List α) (k : Nat) : α :=
  if k = 0 then ds.getD 0 0 else ds.getD k 0 - ds.getD (k - 1) 0

/-- `altitude_boundaries.max()` of `zb[0..n]` -/
def arrMax (n : Nat) (f : Nat → α) : α :=
  (List.range n).foldl (fun m i => if m < f (i + 1) then f (i + 1) else m) (f 0)

/-- the distances along the line of sight of tangent layer `l`
    (`TransmissionModel.compute_path_length` → `Planet.compute_path_length` → `compute_path_length_3d`) -/
def layerDists (rp : α) (n : Nat) (zb z dz : Nat → α) (l : Nat) : List α :=
  let vt := parallelVector rp (z l + dz l / 2) (arrMax n zb)
  let ou := line3d vt.1 vt.2
  rayDists rp (n + 1) zb ou.2 ou.1

/-- `model.path_length[l][k]` for `new_path_method=True` -/
def path3d (rp : α) (n : Nat) (zb z dz : Nat → α) (l k : Nat) : α := segs (layerDists rp n zb z dz l) k

/-- the whole row `model.path_length[l]` (one entry per sphere that is hit) -/
def pathRow3d (rp : α) (n : Nat) (zb z dz : Nat → α) (l : Nat) : List α :=
  let ds := layerDists rp n zb z dz l
  (List.range ds.length).map (segs ds)

end

end Taurex.Geometry
