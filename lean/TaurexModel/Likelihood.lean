/-
  Model of the likelihood / prior callbacks that the sampler wrappers hand to the external samplers:
    taurex/core/priors.py:Prior.prior, Uniform.set_bounds/.sample, LogUniform.__init__, Gaussian.sample
    taurex/optimizer/optimizer.py:compile_params (default prior), update_model, chisq_trans
    taurex/optimizer/nestle.py:compute_fit (nestle_loglike, nestle_uniform_prior)
    taurex/optimizer/multinest.py:compute_fit (multinest_loglike, multinest_uniform_prior)
    taurex/optimizer/polychord.py:compute_fit (polychord_loglike, polychord_uniform_prior)
  The three wrappers build the same two closures (PolyChord's returns `(loglike, [0.0])`).

  The forward model + binner is a *parameter* `fm : List α → ModelOut α` (written parameter values ↦ binned
  spectrum or `InvalidModelException`): it is real code in the correspondence check.
  External: `scipy.stats.uniform.ppf(x, loc, scale) = x*scale + loc` on the unit interval,
  `scipy.stats.norm.ppf(x, loc, scale) = ndtri(x)*scale + loc` with `ndtri` a parameter, `np.nansum`
  (NaN entries count as 0), `np.sum` (a left fold; numpy's pairwise order differs only by rounding).
  Import-free (no Mathlib).
-/
import TaurexModel.Num

namespace Taurex.Likelihood

section
variable {α : Type} [Add α] [Sub α] [Mul α] [Div α] [Neg α] [LT α] [LE α]
  [DecidableLT α] [DecidableLE α] [OfNat α 0] [OfNat α 1] [OfNat α 2] [Transc α]

/-- `np.sum` of a 1-D array -/
def sumL (l : List α) : α := l.foldl (fun acc x => acc + x) 0

/-- A prior object as far as the callbacks use it: its space (`priorMode`) and its inverse CDF `sample`. -/
structure Prior (α : Type) where
  isLog : Bool
  sample : α → α

/-- `Prior.prior(value)`: `value` for a linear prior, `10**value` for a log prior -/
def Prior.prior (p : Prior α) (v : α) : α := if p.isLog then pow10 v else v

/-- Python `min(a, b)` / `max(a, b)` -/
def pyMin (a b : α) : α := if b < a then b else a
def pyMax (a b : α) : α := if a < b then b else a

/-- `Uniform(bounds=[a, b])`: `low = min`, `scale = max - min`, `sample x = x*scale + low` -/
def uniform (a b : α) : Prior α :=
  { isLog := false, sample := fun x => x * (pyMax a b - pyMin a b) + pyMin a b }

/-- `LogUniform(bounds=[a, b])` (bounds already in log10 space) -/
def logUniform (a b : α) : Prior α := { uniform a b with isLog := true }

/-- `LogUniform(lin_bounds=[a, b])` -/
def logUniformLin (a b : α) : Prior α := logUniform (log10 a) (log10 b)

/-- `Gaussian(mean, std)` with the standard normal quantile function as a parameter -/
def gaussian (ndtri : α → α) (mean std : α) : Prior α :=
  { isLog := false, sample := fun x => ndtri x * std + mean }

/-- `LogGaussian(mean, std)` -/
def logGaussian (ndtri : α → α) (mean std : α) : Prior α := { gaussian ndtri mean std with isLog := true }

/-- the default prior `compile_params` builds from the parameter's mode and bounds -/
def defaultPrior (logMode : Bool) (lo hi : α) : Prior α :=
  if logMode then logUniformLin lo hi else uniform lo hi

/-- the prior callback: `cube[idx] = prior.sample(theta[idx])` for `idx, prior in enumerate(fitting_priors)` -/
def priorTransform (priors : List (Prior α)) (cube : List α) : List α :=
  List.zipWith (fun p u => p.sample u) priors cube

/-- `update_model(fit_params)`: the value written to fitted parameter `i` is `priors[i].prior(fit_params[i])`;
    `none` is the `ValueError` for a length mismatch. -/
def updateModel (priors : List (Prior α)) (vals : List α) : Option (List α) :=
  if vals.length = priors.length then some (List.zipWith (fun p v => p.prior v) priors vals) else none

/-- result of `binner.bin_model(model.model(wngrid=obs_bins))`: the binned spectrum (an entry `none` is a NaN
    value) or `InvalidModelException` raised anywhere inside model evaluation -/
inductive ModelOut (α : Type) where
  | ok (binned : List (Option α))
  | invalid

/-- one squared residual `((d - m)/s)**2`; NaN stays NaN -/
def residSq (d s : α) (m : Option α) : Option α :=
  match m with
  | some m => some (((d - m) / s) * ((d - m) / s))
  | none => none

/-- one step of `np.nansum`: a NaN entry is replaced by zero -/
def nanAdd (acc : α) (x : Option α) : α :=
  match x with
  | some v => acc + v
  | none => acc

/-- `np.nansum`: NaN entries are replaced by zero -/
def nansum (l : List (Option α)) : α := l.foldl nanAdd 0

/-- the residual vector `res*res` -/
def residuals : List α → List α → List (Option α) → List (Option α)
  | d :: ds, s :: ss, m :: ms => residSq d s m :: residuals ds ss ms
  | _, _, _ => []

/-- `chisq_trans` after `update_model`: NaN for an invalid model; NaN when the residual is NaN in every bin
    (`np.all(np.isnan(res))`, also true of an empty residual vector); otherwise `np.nansum(res*res)` -/
def chisq (obs sig : List α) (out : ModelOut α) : Val α :=
  match out with
  | .invalid => .nan
  | .ok m =>
    let res := residuals obs sig m
    if res.all Option.isNone then .nan else .fin (nansum res)

/-- `np.sum(np.log(datastd*sqrtpi))`, `sqrtpi = np.sqrt(2*np.pi)`; `pi` is passed in -/
def normTerm (pi : α) (sig : List α) : α :=
  sumL (sig.map (fun s => log (s * sqrt (2 * pi))))

/-- `loglike = -np.sum(np.log(datastd*sqrtpi)) - 0.5 * chi_t` -/
def loglike (pi : α) (obs sig : List α) (out : ModelOut α) : Val α :=
  match chisq obs sig out with
  | .fin c => .fin (-(normTerm pi sig) - (1 / 2) * c)
  | .nan => .nan
  | .posInf => .posInf

/-- the log-likelihood callback at a point `theta` of the sampled space (`none` = the length `ValueError`) -/
def loglikeCallback (pi : α) (priors : List (Prior α)) (fm : List α → ModelOut α) (obs sig : List α)
    (theta : List α) : Option (Val α) :=
  match updateModel priors theta with
  | some params => some (loglike pi obs sig (fm params))
  | none => none

/-- what the sampler computes for a unit-cube point: `loglike(prior_transform(u))` -/
def cubeLoglike (pi : α) (priors : List (Prior α)) (fm : List α → ModelOut α) (obs sig : List α)
    (cube : List α) : Option (Val α) :=
  loglikeCallback pi priors fm obs sig (priorTransform priors cube)

/-- a fault sequence: the callback evaluated on a sequence of points -/
def runSequence (pi : α) (priors : List (Prior α)) (fm : List α → ModelOut α) (obs sig : List α)
    (thetas : List (List α)) : List (Option (Val α)) :=
  thetas.map (loglikeCallback pi priors fm obs sig)

end

end Taurex.Likelihood
