/-
  Model of the posterior summaries:
    taurex/util/util.py:quantile_corner (weighted branch)
    taurex/optimizer/nestle.py:store_nestle_output (value / sigma_m / sigma_p / map / mean / trace),
      multinest.py:store_nest_solutions, polychord.py:store_polychord_solutions (same quantile rule)
    taurex/optimizer/optimizer.py:compute_derived_trace (trace, restoring sample order by the gathered sample indices,
      quantiles, mean)
  Externals (documented behaviour, validated numerically by the check):
    `np.argsort`           — stable insertion sort by key (ties keep input order);
    `np.add.accumulate`    — running left sum;
    `np.interp(x, xp, fp)` — on a non-decreasing `xp`: the last `j` with `xp[j] ≤ x`, linear inside the cell,
                             `fp[j]` when `x = xp[j]` or `j` is the last index, `fp[0]` left of the grid,
                             `fp[-1]` right of it;
    `np.argmax`            — first index of the maximum;
    `np.average(x, weights=w)` — `sum(x*w)/sum(w)`.
  Import-free (no Mathlib).
-/
import TaurexModel.Num

namespace Taurex.Posterior

section
variable {α : Type} [Add α] [Sub α] [Mul α] [Div α] [LT α] [LE α]
  [DecidableLT α] [DecidableLE α] [OfNat α 0]

/-- insert a (value, weight) pair before the first pair whose value is not smaller (stable) -/
def insertBy (p : α × α) : List (α × α) → List (α × α)
  | [] => [p]
  | q :: qs => if q.1 < p.1 then q :: insertBy p qs else p :: q :: qs

/-- `idx = np.argsort(x); x[idx], weights[idx]` as a stable insertion sort of the pairs by value -/
def sortPairs : List (α × α) → List (α × α)
  | [] => []
  | p :: ps => insertBy p (sortPairs ps)

/-- `np.add.accumulate` started from `acc` -/
def cumsum (acc : α) : List α → List α
  | [] => []
  | w :: ws => (acc + w) :: cumsum (acc + w) ws

/-- `np.interp` on the list of nodes `(xp[j], fp[j])`, `xp` non-decreasing: walk to the last cell whose left node
    is `≤ x`; inside the cell interpolate linearly, at (or left of) its left node return `fp[j]`; the last node's
    value right of the grid -/
def interpPairs (x : α) : List (α × α) → α
  | [] => 0
  | [p] => p.2
  | p0 :: p1 :: ps =>
      if p1.1 ≤ x then interpPairs x (p1 :: ps)
      else if p0.1 < x then ((p1.2 - p0.2) / (p1.1 - p0.1)) * (x - p0.1) + p0.2
      else p0.2

/-- `np.interp(x, xp, fp)` -/
def npInterp (x : α) (xp fp : List α) : α := interpPairs x (List.zip xp fp)

/-- `cdf = np.add.accumulate(weights[idx]); cdf /= cdf[-1]` -/
def cdfOf (ws : List α) : List α :=
  let cs := cumsum 0 ws
  cs.map (fun c => c / cs.getLastD 0)

/-- `quantile_corner(x, [q], weights=w)[0]` -/
def quantileCorner (x w : List α) (q : α) : α :=
  let s := sortPairs (List.zip x w)
  npInterp q (cdfOf (s.map Prod.snd)) (s.map Prod.fst)

/-- `weights.argmax()`: the first index holding the maximum (the head wins unless the tail's maximum is
    strictly larger) -/
def argmaxFirst : List α → Nat
  | [] => 0
  | w :: ws =>
    match ws with
    | [] => 0
    | _ :: _ => if w < ws.getD (argmaxFirst ws) 0 then argmaxFirst ws + 1 else 0

def sumL (l : List α) : α := l.foldl (fun acc x => acc + x) 0

/-- `np.average(x, weights=w)` -/
def wmean (x w : List α) : α := sumL (List.zipWith (fun a b => a * b) x w) / sumL w

/-- column `i` of the sample matrix: `samples[:, i]` -/
def column (samples : List (List α)) (i : Nat) : List α := samples.map (fun row => row.getD i 0)

variable [OfNat α 16] [OfNat α 50] [OfNat α 84] [OfNat α 100]

def q16 : α := 16 / 100
def q50 : α := 50 / 100
def q84 : α := 84 / 100

/-- one `fit_params` / `derived_params` entry -/
structure Summary (α : Type) where
  value : α
  sigmaM : α
  sigmaP : α
  mean : α
  deriving Repr

/-- `q_16, q_50, q_84 = quantile_corner(trace, [0.16, 0.5, 0.84], weights)`;
    `value = q_50`, `sigma_m = q_50 - q_16`, `sigma_p = q_84 - q_50`, `mean = np.average(trace, weights)` -/
def summary (trace w : List α) : Summary α :=
  let a := quantileCorner trace w q16
  let b := quantileCorner trace w q50
  let c := quantileCorner trace w q84
  { value := b, sigmaM := b - a, sigmaP := c - b, mean := wmean trace w }

/-- what `store_nestle_output` keeps for the sampler result `(samples, weights)` -/
structure Stored (α : Type) where
  tracedata : List (List α)
  weights : List α
  mapIndex : Nat
  params : List (Summary α)

/-- `store_nestle_output`: samples and weights stored as they are, one summary per fitted parameter,
    `map = trace[weights.argmax()]` -/
def storeOutput (ndim : Nat) (samples : List (List α)) (weights : List α) : Stored α :=
  { tracedata := samples, weights := weights, mapIndex := argmaxFirst weights,
    params := (List.range ndim).map (fun i => summary (column samples i) weights) }

/-- the MAP vector handed to `update_model` by `get_solution` -/
def mapVector (s : Stored α) : List α := s.tracedata.getD s.mapIndex []

/-- the median vector handed to `update_model` by `get_solution` -/
def medianVector (s : Stored α) : List α := s.params.map (fun p => p.value)

end

section
variable {β : Type}

/-- the derived trace of `compute_derived_trace` in one process: one value per sample, in sample order -/
def derivedTrace {γ : Type} (f : γ → β) (samples : List γ) : List β := samples.map f

/-- insert a (key, position) pair before the first pair whose key is not smaller (stable) -/
def insertKey (p : Nat × Nat) : List (Nat × Nat) → List (Nat × Nat)
  | [] => [p]
  | q :: qs => if q.1 < p.1 then q :: insertKey p qs else p :: q :: qs

def sortKeys : List (Nat × Nat) → List (Nat × Nat)
  | [] => []
  | p :: ps => insertKey p (sortKeys ps)

/-- `all_index.argsort()`: the positions of `index`, ordered by the value found there (stable) -/
def argsortNat (index : List Nat) : List Nat := (sortKeys index.zipIdx).map Prod.snd

/-- `a[perm]` (numpy fancy indexing) -/
def gather (perm : List Nat) (a : List β) : List β := perm.filterMap (fun j => a[j]?)

/-- the re-ordering step of `compute_derived_trace`: `all_index` holds the sample index of every gathered entry
    (one process: `range(0, n, 1)`; several: the rank blocks `range(r, n, size)` concatenated),
    `restore = all_index.argsort()`, `all_trace = gathered[restore]` -/
def restoreOrder (index : List Nat) (a : List β) : List β := gather (argsortNat index) a

end

/-! ### from the sampled space to the model: `Optimizer.update_model` hands every fitted parameter the value
     `priors.prior(value)` — the map its OWN prior object defines (`taurex/optimizer/optimizer.py:update_model`, called by
     `generate_solution` at the MAP and the median and by `compute_derived_trace` at every sample) -/

section
variable {α : Type} [Add α] [Mul α] [Transc α]

/-- what `Prior.prior(value)` of a fitted parameter's prior object does: the built-in classes return `value` (linear
    classes) or `10 ** value` (`Log…` classes); a user-defined `Prior` subclass overrides the method — here a parameter
    sampled in natural-log space (`exp(value)`) and one sampled in scaled / shifted units (`a * value + b`) -/
inductive Back (α : Type) where
  | identity
  | pow10
  | expNat
  | affine (a b : α)
  deriving Repr

def Back.apply : Back α → α → α
  | .identity, x => x
  | .pow10, x => Transc.pow10 x
  | .expNat, x => Transc.exp x
  | .affine a b, x => a * x + b

/-- the loop of `update_model`: `fset(priors.prior(value))` over `zip(fit_params, fitting_parameters, fitting_priors)` —
    the vector of model values a sampled vector `v` stands for -/
def modelPoint (bs : List (Back α)) (v : List α) : List α := List.zipWith Back.apply bs v

end

/-! ### the chains files MultiNest / PolyChord leave behind (what `store_nest_solutions` / `store_polychord_solutions`
     read back before they summarise): `<base>.txt` / `1-.txt` / `clusters/1-_k.txt` are tables whose rows are
     `weight, -2 logL, parameter values…`; `<base>post_separate.dat` lists the samples mode by mode -/

section
variable {α : Type} [OfNat α 0]

/-- the samples of a chains table: `data[:, 2:]` -/
def tableSamples (rows : List (List α)) : List (List α) := rows.map (fun r => r.drop 2)

/-- `data[:, 2:num_fit_params+2]` (PolyChord: the derived parameters that follow are cut off) -/
def tableSamplesN (nfit : Nat) (rows : List (List α)) : List (List α) := rows.map (fun r => (r.drop 2).take nfit)

/-- the weights of a chains table: `data[:, 0]` -/
def tableWeights (rows : List (List α)) : List α := rows.map (fun r => r.getD 0 0)

/-- one line of `post_separate.dat` as the reader sees it: is it exactly `"\n"` (an empty line), and the numbers
    `float(x) for x in line.split()` -/
structure PLine (α : Type) where
  blank : Bool
  toks : List α

/-- state of the line loop: the finished modes (samples, weights), the chains of the mode being read, whether the two
    previous lines were empty, the index of the next line -/
structure SplitState (α : Type) where
  modes : List (List (List α))
  weights : List (List α)
  chains : List (List α)
  cw : List α
  prev1 : Bool
  prev2 : Bool
  idx : Nat

/-- one pass of `for idx, line in enumerate(lines)`: from the fourth line on, two EMPTY lines before this one close the
    mode; then a line with more than two tokens is a sample (`tokens[2:]`) with weight `tokens[0]` -/
def splitStep (st : SplitState α) (l : PLine α) : SplitState α :=
  let st1 : SplitState α :=
    if 2 < st.idx ∧ st.prev1 = true ∧ st.prev2 = true then
      { st with modes := st.modes ++ [st.chains], weights := st.weights ++ [st.cw], chains := [], cw := [] }
    else st
  let chain := l.toks.drop 2
  let st2 : SplitState α :=
    if 0 < chain.length then { st1 with chains := st1.chains ++ [chain], cw := st1.cw ++ [l.toks.getD 0 0] } else st1
  { st2 with prev1 := l.blank, prev2 := st.prev1, idx := st.idx + 1 }

/-- the modes of `post_separate.dat`: per mode its samples and its weights (after the last line the open mode is closed) -/
def splitModes (lines : List (PLine α)) : List (List (List α)) × List (List α) :=
  let st := lines.foldl splitStep
    { modes := [], weights := [], chains := [], cw := [], prev1 := false, prev2 := false, idx := 0 }
  (st.modes ++ [st.chains], st.weights ++ [st.cw])

/-- a row written into a zero row of `n` entries: numpy accepts a row of `n` values or ONE value (broadcast) and raises
    otherwise (totalised: the zeros stay) -/
def fitRow (n : Nat) (v : List α) : List α :=
  if v.length = n then v else
    match v with
    | [x] => List.replicate n x
    | _ => List.replicate n 0

/-- `mode_array = np.zeros((len(mode), len(mode[0])))`, `mode_array[idx, :] = line` for every sample -/
def modeArray (mode : List (List α)) : List (List α) := mode.map (fitRow (mode.headD []).length)

/-- `store_nest_solutions`, `multimodes = False`: one solution, read from `<base>.txt` -/
def nestChainsSingle (data : List (List α)) : List (List (List α)) × List (List α) :=
  ([tableSamples data], [tableWeights data])

/-- `store_nest_solutions`, `multimodes = True`: one solution per mode of `post_separate.dat` -/
def nestChainsModes (lines : List (PLine α)) : List (List (List α)) × List (List α) :=
  ((splitModes lines).1.map modeArray, (splitModes lines).2)

/-- `store_polychord_solutions`: without clustering, or with one cluster, the table `1-.txt`; otherwise one solution per
    cluster file `clusters/1-_k.txt`, `k = 1 … nClusters` (`cluster k` = the table of the file numbered `k + 1`) -/
def polyChains (nfit : Nat) (doClustering : Bool) (nClusters : Nat) (data : List (List α))
    (cluster : Nat → List (List α)) : List (List (List α)) × List (List α) × Nat :=
  if doClustering then
    if nClusters = 1 then ([tableSamplesN nfit data], [tableWeights data], 1)
    else ((List.range nClusters).map (fun k => tableSamplesN nfit (cluster k)),
          (List.range nClusters).map (fun k => tableWeights (cluster k)), nClusters)
  else ([tableSamplesN nfit data], [tableWeights data], 1)

end

end Taurex.Posterior
