/-
  Model of the route "input-file section → constructor keyword arguments":
    taurex/parameter/factory.py:get_keywordarg_dict (the constructor's keywords with their defaults),
    create_klass (every key of the section must be a constructor keyword — else KeyError —, its value replaces the
    default; `klass(**kwargs)`), create_profile / create_temperature_profile.
  Values are opaque (`ν`): numbers, lists, None, booleans — the rule never looks at them.
-/
namespace Taurex.Section

variable {κ ν : Type} [BEq κ]

/-- `key in kwargs` -/
def known (defaults : List (κ × ν)) (k : κ) : Bool := (defaults.lookup k).isSome

/-- `create_klass(config, klass)`: the keyword arguments handed to the constructor, in the constructor's order;
    `none` = KeyError (a key of the section that is not a keyword of the constructor) -/
def resolve (defaults sec : List (κ × ν)) : Option (List (κ × ν)) :=
  if sec.all (fun kv => known defaults kv.1) then
    some (defaults.map (fun kd => (kd.1, (sec.lookup kd.1).getD kd.2)))
  else none

/-- one session: the objects built one after the other from their sections -/
def session (defaults : List (κ × ν)) (secs : List (List (κ × ν))) : List (Option (List (κ × ν))) :=
  secs.map (resolve defaults)

end Taurex.Section
