/-
  Model of the glue between an input file and the optimizer, `taurex/parameter/parameterparser.py`:
    ParameterParser.generate_fitting_parameters   ([Fitting] section  -> per-parameter option records)
    ParameterParser.generate_derived_parameters   ([Derive] section   -> per-parameter compute flags)
    ParameterParser.setup_optimizer               (records -> enable_fit/disable_fit, set_factor_boundary, set_boundary,
                                                   set_mode, set_prior, enable_derived/disable_derived calls)
  composed with `OptimizerSM.step`.

  Input: the section as ConfigObj delivers it after `ParameterParser.transform` has typed the values
  (`OptVal`: bool / float / string / list of floats / list of strings), lines in file order, keys unique
  (ConfigObj rejects duplicates).  `create_prior` is the parameter `mkPrior` (`none` = it raises).

  What the code does, and the model mirrors:
    * a key must be `name:option` (exactly one colon), otherwise `ValueError` before any optimizer call;
    * a parameter that is mentioned at all gets `fit = False` unless a `:fit` line says otherwise;
    * options other than fit/bounds/mode/factor/prior are stored and never looked at (silently ignored);
    * per parameter, in order of first mention: enable_fit | disable_fit, then factor, then bounds (so bounds win),
      then mode (lower-cased), then prior; the first optimizer call that raises aborts the set-up, earlier calls stay applied;
    * the [Derive] section is only read after the [Fitting] calls were made.
  Value shapes outside the documented ones (bounds/factor not a pair of numbers, mode not a string) are `unsupported`
  (malformed stream of the harness).
-/
import TaurexModel.OptimizerSM

namespace Taurex.FittingSection
open Taurex.Priors Taurex.OptimizerSM

/-- a value as typed by `ParameterParser.transform` -/
inductive OptVal (α : Type) where
  | bool (b : Bool)
  | num (x : α)
  | str (s : String)
  | nums (xs : List α)
  | strs (xs : List String)
  deriving Repr

/-- one line of a section, already split at the colon: parameter name, option, value -/
structure Line (α : Type) where
  name : String
  opt : String
  val : OptVal α
  deriving Repr

/-- outcome of `setup_optimizer` -/
inductive SetupOut where
  | ok
  | keyError        -- unknown parameter name (from enable_fit / disable_fit / enable_derived / disable_derived)
  | valueError      -- key without exactly one colon; invalid mode string
  | priorError      -- `create_prior` raised
  | unsupported     -- value shape outside the documented ones (not judged)
  deriving DecidableEq, Repr

/-- `str.split(':')` on the characters of a key -/
def splitColon : List Char → List (List Char)
  | [] => [[]]
  | c :: cs =>
    if c = ':' then [] :: splitColon cs
    else match splitColon cs with
      | h :: t => (c :: h) :: t
      | [] => [[c]]

/-- `fit_param, fit_type = key.split(':')`; `none` = the `ValueError` of the tuple unpacking -/
def splitKey (k : String) : Option (String × String) :=
  match splitColon k.toList with
  | [a, b] => some (String.ofList a, String.ofList b)
  | _ => none

/-- all keys of a section split; `none` = the `ValueError` of the tuple unpacking -/
def splitAll {α : Type} : List (String × OptVal α) → Option (List (Line α))
  | [] => some []
  | (k, v) :: rest =>
    match splitKey k, splitAll rest with
    | some (a, b), some ls => some (⟨a, b, v⟩ :: ls)
    | _, _ => none

/-- the record `generate_fitting_parameters` builds per parameter
    (`{'fit': False, 'bounds': None, 'mode': None, 'factor': None, 'prior': None}` + whatever was written) -/
structure Rec (α : Type) where
  fit : OptVal α := .bool false
  bounds : Option (OptVal α) := none
  mode : Option (OptVal α) := none
  factor : Option (OptVal α) := none
  prior : Option (Prior α) := none

section
variable {α : Type}

/-- `dict[name]` with insertion of the default record on first mention -/
def updRec : List (String × Rec α) → String → (Rec α → Rec α) → List (String × Rec α)
  | [], n, f => [(n, f {})]
  | (k, r) :: t, n, f => if k = n then (k, f r) :: t else (k, r) :: updRec t n f

def getRec : List (String × Rec α) → String → Option (Rec α)
  | [], _ => none
  | (k, r) :: t, n => if k = n then some r else getRec t n

/-- the options `setup_optimizer` reads; everything else is stored and never looked at -/
inductive OptKind where
  | fit | bounds | mode | factor | prior | other
  deriving DecidableEq, Repr

def classify (o : String) : OptKind :=
  if o = "fit" then .fit else if o = "bounds" then .bounds else if o = "mode" then .mode
  else if o = "factor" then .factor else if o = "prior" then .prior else .other

/-- `fitting_params[fit_param][fit_type] = value`, with `create_prior(value)` for the option `prior` -/
def setOpt (mkPrior : OptVal α → Option (Prior α)) (l : Line α) (r : Rec α) : Option (Rec α) :=
  match classify l.opt with
  | .fit => some { r with fit := l.val }
  | .bounds => some { r with bounds := some l.val }
  | .mode => some { r with mode := some l.val }
  | .factor => some { r with factor := some l.val }
  | .prior => (mkPrior l.val).map (fun p => { r with prior := some p })
  | .other => some r

/-- `generate_fitting_parameters` on split lines; `none` = `create_prior` raised -/
def group (mkPrior : OptVal α → Option (Prior α)) : List (Line α) → List (String × Rec α) → Option (List (String × Rec α))
  | [], acc => some acc
  | l :: ls, acc =>
    let r0 : Rec α := (getRec acc l.name).getD {}
    match setOpt mkPrior l r0 with
    | none => none
    | some r => group mkPrior ls (updRec acc l.name (fun _ => r))

/-- `generate_fitting_parameters` on the raw section, line by line as the code does: the first line whose key does not
    split raises `ValueError`, the first `prior` line whose text `create_prior` refuses raises that error -/
def parseFitting (mkPrior : OptVal α → Option (Prior α)) :
    List (String × OptVal α) → List (String × Rec α) → Except SetupOut (List (String × Rec α))
  | [], acc => .ok acc
  | (k, v) :: rest, acc =>
    match splitKey k with
    | none => .error .valueError
    | some (a, b) =>
      let r0 : Rec α := (getRec acc a).getD {}
      match setOpt mkPrior ⟨a, b, v⟩ r0 with
      | none => .error .priorError
      | some r => parseFitting mkPrior rest (updRec acc a (fun _ => r))

variable [LT α] [DecidableLT α] [OfNat α 0]

/-- Python truthiness of a typed value -/
def truthy : OptVal α → Bool
  | .bool b => b
  | .num x => decide (x < 0) || decide (0 < x)
  | .str s => s ≠ ""
  | .nums xs => !xs.isEmpty
  | .strs xs => !xs.isEmpty

/-- an optional pair-valued option (`bounds`, `factor`): nothing to do / the pair / a shape we do not model -/
inductive PairOpt (α : Type) where
  | skip
  | pair (a b : α)
  | bad

def pairOpt : Option (OptVal α) → PairOpt α
  | none => .skip
  | some v =>
    if truthy v then
      match v with
      | .nums [a, b] => .pair a b
      | _ => .bad
    else .skip

/-- the optional `mode` option: nothing to do / the lower-cased string handed to `set_mode` / unsupported -/
inductive ModeOpt where
  | skip
  | mode (s : String)
  | bad

def modeOpt : Option (OptVal α) → ModeOpt
  | none => .skip
  | some v =>
    if truthy v then
      match v with
      | .str s => .mode s.toLower
      | _ => .bad
    else .skip

def fitOps (n : String) (r : Rec α) : List (Op String α) :=
  [if truthy r.fit then .enableFit n else .disableFit n]

def factorOps (n : String) : PairOpt α → List (Op String α)
  | .pair a b => [.setFactorBoundary n a b]
  | _ => []

def boundsOps (n : String) : PairOpt α → List (Op String α)
  | .pair a b => [.setBoundary n a b]
  | _ => []

def modeOps (n : String) : ModeOpt → List (Op String α)
  | .mode s => [.setMode n s]
  | _ => []

def priorOps (n : String) : Option (Prior α) → List (Op String α)
  | some p => [.setPrior n p]
  | none => []

def PairOpt.isBad : PairOpt α → Bool
  | .bad => true
  | _ => false

def ModeOpt.isBad : ModeOpt → Bool
  | .bad => true
  | _ => false

/-- the optimizer calls `setup_optimizer` makes for one parameter, in the code's order: enable_fit | disable_fit,
    factor, bounds, mode, prior; `none` = unsupported value shape -/
def recOps (n : String) (r : Rec α) : Option (List (Op String α)) :=
  if (pairOpt r.factor).isBad || (pairOpt r.bounds).isBad || (modeOpt r.mode).isBad then none
  else some (fitOps n r ++ factorOps n (pairOpt r.factor) ++ boundsOps n (pairOpt r.bounds) ++ modeOps n (modeOpt r.mode)
             ++ priorOps n r.prior)

/-- all calls of the fitting loop, parameters in order of first mention -/
def fittingOps : List (String × Rec α) → Option (List (Op String α))
  | [] => some []
  | (n, r) :: t =>
    match recOps n r, fittingOps t with
    | some a, some b => some (a ++ b)
    | _, _ => none

/-- `dict[name][opt] = value` on the derive records: only `compute` is ever read -/
def updD : List (String × Option (OptVal α)) → Line α → List (String × Option (OptVal α))
  | [], l => [(l.name, if l.opt = "compute" then some l.val else none)]
  | (k, c) :: t, l =>
    if k = l.name then (k, if l.opt = "compute" then some l.val else c) :: t else (k, c) :: updD t l

def getD : List (String × Option (OptVal α)) → String → Option (OptVal α)
  | [], _ => none
  | (k, c) :: t, n => if k = n then c else getD t n

/-- `generate_derived_parameters`: per parameter (first mention order) the `compute` value written, if any;
    other options are stored and ignored -/
def deriveRecs : List (Line α) → List (String × Option (OptVal α)) → List (String × Option (OptVal α))
  | [], acc => acc
  | l :: ls, acc => deriveRecs ls (updD acc l)

/-- second loop of `setup_optimizer`: `enable_derived` if the written value is truthy else `disable_derived` -/
def deriveOps : List (String × Option (OptVal α)) → List (Op String α)
  | [] => []
  | (_, none) :: t => deriveOps t
  | (n, some v) :: t => (if truthy v then Op.enableDerived n else Op.disableDerived n) :: deriveOps t

variable [Mul α] [Transc α]

def outOf : Out → SetupOut
  | .ok => .ok
  | .keyError => .keyError
  | .valueError => .valueError

/-- apply calls until one raises; returns the state, the outcome and the calls actually made -/
def runStop (s : St String α) : List (Op String α) → St String α × SetupOut × List (Op String α)
  | [] => (s, .ok, [])
  | op :: ops =>
    let r := step s op
    match r.2 with
    | .ok =>
      let rest := runStop r.1 ops
      (rest.1, rest.2.1, op :: rest.2.2)
    | e => (r.1, outOf e, [op])

/-- `ParameterParser.setup_optimizer(optimizer)` on raw sections (key, typed value) -/
def setupOptimizer (mkPrior : OptVal α → Option (Prior α)) (s : St String α)
    (fitting derive : List (String × OptVal α)) : St String α × SetupOut × List (Op String α) :=
  match parseFitting mkPrior fitting [] with
  | .error e => (s, e, [])
  | .ok grp =>
    match fittingOps grp with
    | none => (s, .unsupported, [])
    | some fops =>
      let r1 := runStop s fops
      match r1.2.1 with
      | .ok =>
        match splitAll derive with
        | none => (r1.1, .valueError, r1.2.2)
        | some dl =>
          let r2 := runStop r1.1 (deriveOps (deriveRecs dl []))
          (r2.1, r2.2.1, r1.2.2 ++ r2.2.2)
      | _ => r1

/-! ### the specification: the settings a section describes -/

/-- the tuple a mentioned parameter must end up with: fit flag as written (False if not written), bounds as written,
    else the factors times the current value, else unchanged; mode as written, else unchanged; value unchanged -/
def describeParam (r : Rec α) (p : Param String α) : Param String α :=
  let b : α × α := match pairOpt r.bounds, pairOpt r.factor with
    | .pair a b, _ => (a, b)
    | _, .pair f0 f1 => (f0 * p.value, f1 * p.value)
    | _, _ => (p.b0, p.b1)
  let m : FitMode := match modeOpt r.mode with
    | .mode s => (parseMode s).getD p.mode
    | _ => p.mode
  { p with fit := truthy r.fit, b0 := b.1, b1 := b.2, mode := m }

def describeTable (grp : List (String × Rec α)) (ps : List (Param String α)) : List (Param String α) :=
  ps.map (fun p => match getRec grp p.name with
    | some r => describeParam r p
    | none => p)

def describeDerived (drecs : List (String × Option (OptVal α))) (ds : List (Derived String)) : List (Derived String) :=
  ds.map (fun d => match getD drecs d.name with
    | some v => { d with compute := truthy v }
    | none => d)

/-- the user priors a section describes, in order of first mention -/
def describePriors : List (String × Rec α) → Table String α
  | [] => []
  | (n, r) :: t =>
    match r.prior with
    | some p => (n, p) :: describePriors t
    | none => describePriors t

/-- the settings described by the two sections over a fresh optimizer `s` -/
def sectionSettings (s : St String α) (grp : List (String × Rec α)) (drecs : List (String × Option (OptVal α))) :
    Settings String α :=
  ⟨describeTable grp s.model, describeTable grp s.obs, describeDerived drecs s.dmodel, describeDerived drecs s.dobs,
   describePriors grp⟩

end

end Taurex.FittingSection
