/-
  Model of the prior OBJECTS a session holds (object identity and in-place change):
    taurex/parameter/factory.py   : create_prior(text)  — every call constructs a NEW object `klass(**args)`
    taurex/parameter/parameterparser.py : generate_fitting_parameters — one `create_prior` call per `X:prior = "…"` line,
                                          on every read of the file
    taurex/core/priors.py         : Uniform.set_bounds(bounds) — replaces the bounds of THAT object in place
                                    (LogUniform inherits it; the Gaussian classes have no such method)
  The heap is the list of the objects in creation order (the index is the object's identity); values are the
  `Priors.Prior` records.  Import-free (no Mathlib).
-/
import TaurexModel.Priors

namespace Taurex.PriorObjects
open Taurex.Priors

/-- the prior objects alive, in creation order -/
abbrev Heap (α : Type) := List (Prior α)

/-- what a session does with priors written as text -/
inductive Op (α : Type) where
  /-- `create_prior(text)` (directly, or for a `X:prior` line of an input file); the call is what the text parses to -/
  | create (c : Call α)
  /-- `obj.set_bounds([b0, b1])` on the object created `i`-th -/
  | setBounds (i : Nat) (b0 b1 : α)

section
variable {α : Type} [LT α] [DecidableLT α]

/-- `Uniform.set_bounds` on one object: its class is kept, `_low_bounds, _up_bounds = min, max` of the new bounds;
    the Gaussian classes have no `set_bounds` (the operation is not offered for them) -/
def rebound (p : Prior α) (b0 b1 : α) : Prior α :=
  match p with
  | .uniform _ _ => mkUniform b0 b1
  | .logUniform _ _ => mkLogUniform b0 b1
  | p => p

/-- change the object at index `i`, nothing else -/
def modifyAt (f : Prior α → Prior α) : Nat → Heap α → Heap α
  | _, [] => []
  | 0, p :: h => f p :: h
  | i + 1, p :: h => p :: modifyAt f i h

variable [OfNat α 0] [OfNat α 1] [Transc α]

/-- one operation; `half quarter` are the class defaults `mean=0.5, std=0.25`.  A text `create_prior` refuses creates
    nothing. -/
def step (half quarter : α) (h : Heap α) : Op α → Heap α
  | .create c =>
    match createPrior half quarter c with
    | .ok p => h ++ [p]
    | _ => h
  | .setBounds i b0 b1 => modifyAt (fun p => rebound p b0 b1) i h

def run (half quarter : α) (h : Heap α) : List (Op α) → Heap α
  | [] => h
  | op :: ops => run half quarter (step half quarter h op) ops

/-- the heaps after every operation of a history (what the harness observes step by step) -/
def trace (half quarter : α) (h : Heap α) : List (Op α) → List (Heap α)
  | [] => []
  | op :: ops => step half quarter h op :: trace half quarter (step half quarter h op) ops

/-- the `set_bounds` calls of a history that name object `j`, in order -/
def ownCalls (j : Nat) : List (Op α) → List (α × α)
  | [] => []
  | .create _ :: ops => ownCalls j ops
  | .setBounds i b0 b1 :: ops => if i = j then (b0, b1) :: ownCalls j ops else ownCalls j ops

/-- an object after its own `set_bounds` calls -/
def reboundAll (p : Prior α) : List (α × α) → Prior α
  | [] => p
  | b :: bs => reboundAll (rebound p b.1 b.2) bs

end

end Taurex.PriorObjects
