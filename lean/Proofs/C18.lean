/-
  Lemmas about the streaming / pooled variance model over ℝ (helper file of Props/C18.lean).
-/
import Proofs.RealInst
import TaurexModel.Variance
import Mathlib.Tactic.Linarith
import Mathlib.Tactic.Ring
import Mathlib.Tactic.FieldSimp
import Mathlib.Tactic.Positivity
import Mathlib.Algebra.BigOperators.Group.List.Basic

namespace Taurex.Variance
open Taurex

/-! ### weighted power sums of a sample list `(value, weight)` -/

/-- `Σ w` -/
noncomputable def S0 (l : List (ℝ × ℝ)) : ℝ := (l.map (fun p => p.2)).sum
/-- `Σ w x` -/
noncomputable def S1 (l : List (ℝ × ℝ)) : ℝ := (l.map (fun p => p.2 * p.1)).sum
/-- `Σ w x²` -/
noncomputable def S2 (l : List (ℝ × ℝ)) : ℝ := (l.map (fun p => p.2 * (p.1 * p.1))).sum

@[simp] theorem S0_nil : S0 [] = 0 := rfl
@[simp] theorem S1_nil : S1 [] = 0 := rfl
@[simp] theorem S2_nil : S2 [] = 0 := rfl
@[simp] theorem S0_cons (a : ℝ × ℝ) (l) : S0 (a :: l) = a.2 + S0 l := by simp [S0]
@[simp] theorem S1_cons (a : ℝ × ℝ) (l) : S1 (a :: l) = a.2 * a.1 + S1 l := by simp [S1]
@[simp] theorem S2_cons (a : ℝ × ℝ) (l) : S2 (a :: l) = a.2 * (a.1 * a.1) + S2 l := by simp [S2]
theorem S0_append (p q : List (ℝ × ℝ)) : S0 (p ++ q) = S0 p + S0 q := by simp [S0]
theorem S1_append (p q : List (ℝ × ℝ)) : S1 (p ++ q) = S1 p + S1 q := by simp [S1]
theorem S2_append (p q : List (ℝ × ℝ)) : S2 (p ++ q) = S2 p + S2 q := by simp [S2]

theorem S0_perm {p q : List (ℝ × ℝ)} (h : p.Perm q) : S0 p = S0 q := (h.map _).sum_eq
theorem S1_perm {p q : List (ℝ × ℝ)} (h : p.Perm q) : S1 p = S1 q := (h.map _).sum_eq
theorem S2_perm {p q : List (ℝ × ℝ)} (h : p.Perm q) : S2 p = S2 q := (h.map _).sum_eq

theorem S0_pos {l : List (ℝ × ℝ)} (hne : l ≠ []) (hpos : ∀ p ∈ l, 0 < p.2) : 0 < S0 l := by
  induction l with
  | nil => exact absurd rfl hne
  | cons a l ih =>
    rw [S0_cons]
    have ha : 0 < a.2 := hpos a (by simp)
    by_cases hl : l = []
    · subst hl; simpa using ha
    · have := ih hl (fun p hp => hpos p (by simp [hp])); linarith

theorem foldl_add_eq (f : ℝ × ℝ → ℝ) (l : List (ℝ × ℝ)) (a : ℝ) :
    l.foldl (fun s p => s + f p) a = a + (l.map f).sum := by
  induction l generalizing a with
  | nil => simp
  | cons x l ih => simp [ih, add_assoc]

theorem sumBy_eq (f : ℝ × ℝ → ℝ) (l : List (ℝ × ℝ)) : sumBy f l = (l.map f).sum := by
  unfold sumBy
  rw [foldl_add_eq]
  simp

theorem sumList_eq (l : List ℝ) : sumList l = l.sum := by
  unfold sumList
  have : ∀ a : ℝ, l.foldl (· + ·) a = a + l.sum := by
    induction l with
    | nil => simp
    | cons x l ih => intro a; simp [ih, add_assoc]
  rw [this]; simp

theorem wsum_eq (l : List (ℝ × ℝ)) : wsum l = S0 l := by
  unfold wsum; rw [sumBy_eq]; rfl

theorem wmean_eq (l : List (ℝ × ℝ)) : wmean l = S1 l / S0 l := by
  unfold wmean; rw [wsum_eq, sumBy_eq]; rfl

/-- `Σ w (x - c)² = S2 - 2 c S1 + c² S0` -/
theorem sum_sq_dev (c : ℝ) (l : List (ℝ × ℝ)) :
    (l.map (fun p => p.2 * ((p.1 - c) * (p.1 - c)))).sum = S2 l - 2 * c * S1 l + c * c * S0 l := by
  induction l with
  | nil => simp
  | cons a l ih => simp only [List.map_cons, List.sum_cons, ih, S0_cons, S1_cons, S2_cons]; ring

theorem twoPassVar_eq (l : List (ℝ × ℝ)) :
    twoPassVar l = (S2 l - 2 * (S1 l / S0 l) * S1 l + (S1 l / S0 l) * (S1 l / S0 l) * S0 l) / S0 l := by
  unfold twoPassVar
  rw [wsum_eq, sumBy_eq, wmean_eq, sum_sq_dev]

theorem twoPassVar_perm {p q : List (ℝ × ℝ)} (h : p.Perm q) : twoPassVar p = twoPassVar q := by
  rw [twoPassVar_eq, twoPassVar_eq, S0_perm h, S1_perm h, S2_perm h]

theorem wmean_perm {p q : List (ℝ × ℝ)} (h : p.Perm q) : wmean p = wmean q := by
  rw [wmean_eq, wmean_eq, S0_perm h, S1_perm h]

/-! ### West's update -/

/-- every non-empty prefix of the weights has a positive sum -/
def PosPrefix (l : List (ℝ × ℝ)) : Prop := ∀ k, 0 < k → k ≤ l.length → 0 < S0 (l.take k)

theorem posPrefix_of_pos {l : List (ℝ × ℝ)} (h : ∀ p ∈ l, 0 < p.2) : PosPrefix l := by
  intro k hk hkl
  apply S0_pos
  · intro hnil
    have : (l.take k).length = 0 := by rw [hnil]; rfl
    rw [List.length_take] at this
    omega
  · intro p hp; exact h p (List.mem_of_mem_take hp)

theorem PosPrefix.init {l : List (ℝ × ℝ)} {a : ℝ × ℝ} (h : PosPrefix (l ++ [a])) : PosPrefix l := by
  intro k hk hkl
  have := h k hk (by simp; omega)
  rwa [List.take_append_of_le_length hkl] at this

theorem PosPrefix.total {l : List (ℝ × ℝ)} (h : PosPrefix l) (hne : l ≠ []) : 0 < S0 l := by
  have := h l.length (List.length_pos_iff.2 hne) (le_refl _)
  rwa [List.take_length] at this

theorem accOf_snoc (l : List (ℝ × ℝ)) (a : ℝ × ℝ) : accOf (l ++ [a]) = update (accOf l) a.1 a.2 := by
  simp [accOf, List.foldl_append]

/-- the invariant of `OnlineVariance.update` (West 1979) -/
theorem accOf_inv (l : List (ℝ × ℝ)) (h : PosPrefix l) :
    (accOf l).count = l.length ∧ (accOf l).wcount = S0 l ∧
      (l ≠ [] → (accOf l).mean = S1 l / S0 l ∧ (accOf l).m2 = S2 l - S1 l * S1 l / S0 l) := by
  induction l using List.reverseRecOn with
  | nil => exact ⟨rfl, rfl, fun h => absurd rfl h⟩
  | append_singleton l a ih =>
    obtain ⟨hc, hw, hm⟩ := ih h.init
    have hW' : 0 < S0 (l ++ [a]) := h.total (by simp)
    rw [S0_append] at hW'
    simp only [S0_cons, S0_nil, add_zero] at hW'
    rw [accOf_snoc]
    refine ⟨by simp [update, hc], by simp [update, hw, S0_append], fun _ => ?_⟩
    simp only [S0_append, S1_append, S2_append, S0_cons, S1_cons, S2_cons, S0_nil, S1_nil, S2_nil, add_zero]
    by_cases hl : l = []
    · subst hl
      have hc0 : (accOf ([] : List (ℝ × ℝ))).count = 0 := rfl
      have hw0 : (accOf ([] : List (ℝ × ℝ))).wcount = 0 := rfl
      simp only [S0_nil, zero_add] at hW'
      simp only [update, hc0, hw0, if_true, S0_nil, S1_nil, S2_nil, zero_add, mul_zero, sub_zero]
      constructor
      · field_simp
      · field_simp
    · obtain ⟨hmean, hm2⟩ := hm hl
      have hW : 0 < S0 l := h.init.total hl
      have hcne : (accOf l).count ≠ 0 := by rw [hc]; exact fun h0 => hl (List.length_eq_zero_iff.1 h0)
      simp only [update, hcne, if_false, hw, hmean, hm2]
      constructor
      · field_simp; ring
      · field_simp; ring

theorem accOf_nil : accOf ([] : List (ℝ × ℝ)) = ⟨0, 0, 0, 0⟩ := rfl

/-! ### arithmetic of `Val ℝ` -/

@[simp] theorem vadd_fin (a b : ℝ) : vadd (Val.fin a) (Val.fin b) = Val.fin (a + b) := rfl
@[simp] theorem vsub_fin (a b : ℝ) : vsub (Val.fin a) (Val.fin b) = Val.fin (a - b) := rfl
@[simp] theorem vmul_fin (a b : ℝ) : vmul (Val.fin a) (Val.fin b) = Val.fin (a * b) := rfl
@[simp] theorem vdiv_fin (a b : ℝ) : vdiv (Val.fin a) (Val.fin b) = Val.fin (a / b) := rfl

theorem beq_zero_iff (x : ℝ) : (x == 0) = true ↔ x = 0 := beq_iff_eq

/-! ### one rank's accumulators versus its samples -/

/-- the accumulators `a` summarise the sample block `p` -/
structure Summ (a : Acc ℝ) (p : List (ℝ × ℝ)) : Prop where
  count : a.count = p.length
  wcount : a.wcount = S0 p
  pos : p ≠ [] → 0 < S0 p
  mean : p ≠ [] → a.mean = S1 p / S0 p
  m2 : p ≠ [] → a.m2 = S2 p - S1 p * S1 p / S0 p

theorem summ_accOf {p : List (ℝ × ℝ)} (hpos : ∀ x ∈ p, 0 < x.2) : Summ (accOf p) p := by
  obtain ⟨h1, h2, h3⟩ := accOf_inv p (posPrefix_of_pos hpos)
  exact ⟨h1, h2, fun hne => S0_pos hne hpos, fun hne => (h3 hne).1, fun hne => (h3 hne).2⟩

theorem summ_forall {parts : List (List (ℝ × ℝ))} (hpos : ∀ part ∈ parts, ∀ x ∈ part, 0 < x.2) :
    List.Forall₂ Summ (parts.map accOf) parts := by
  induction parts with
  | nil => exact List.Forall₂.nil
  | cons p ps ih =>
    exact List.Forall₂.cons (summ_accOf (hpos p (by simp))) (ih (fun q hq => hpos q (by simp [hq])))

/-- a block with one sample has zero within-block sum of squares -/
theorem m2_single {p : List (ℝ × ℝ)} (h1 : p.length = 1) (hpos : 0 < S0 p) :
    S2 p - S1 p * S1 p / S0 p = 0 := by
  match p, h1 with
  | [a], _ =>
    simp only [S0_cons, S0_nil, add_zero] at hpos
    simp only [S0_cons, S1_cons, S2_cons, S0_nil, S1_nil, S2_nil, add_zero]
    field_simp; ring

/-- what an exchange may do to a float object: keep the value, never create the `np.nan` identity -/
structure Exchange (exch : Obj ℝ → Obj ℝ) : Prop where
  val : ∀ o, (exch o).val = o.val
  ident : ∀ o, (exch o).isNpNan = true → o.isNpNan = true

theorem exchange_ser : Exchange (ser : Obj ℝ → Obj ℝ) := ⟨fun _ => rfl, fun _ h => by simp [ser] at h⟩
theorem exchange_id : Exchange (id : Obj ℝ → Obj ℝ) := ⟨fun _ => rfl, fun _ h => h⟩

/-! ### the two loops of `combine_variance` -/

theorem loop1_skip (avg : Obj ℝ) {cnt : ℝ} (h : cnt = 0) (rest acc) :
    loop1 ((avg, cnt) :: rest) acc = loop1 rest acc := by
  rw [loop1]; simp [h]

theorem loop1_take (avg : Obj ℝ) {cnt : ℝ} (h : cnt ≠ 0) (hid : avg.isNpNan = false) (rest acc) :
    loop1 ((avg, cnt) :: rest) acc =
      loop1 rest (some (match acc with
        | none => vmul avg.val (Val.fin cnt)
        | some s => vadd s (vmul avg.val (Val.fin cnt)))) := by
  rw [loop1]; simp [h, hid]; cases acc <;> rfl

theorem loop2_skip (isNan) (average : Val ℝ) (avg var : Obj ℝ) {cnt : ℝ} (h : cnt = 0) (rest acc) :
    loop2 isNan average ((avg, cnt, var) :: rest) acc = loop2 isNan average rest acc := by
  rw [loop2]; simp [h]

theorem loop2_take_nan (isNan) (average : Val ℝ) (avg var : Obj ℝ) {cnt : ℝ} (h : 0 < cnt)
    (hn : isNan var = true) (rest acc) :
    loop2 isNan average ((avg, cnt, var) :: rest) acc =
      loop2 isNan average rest (some (match acc with
        | none => vmul (Val.fin cnt) (vmul (vsub average avg.val) (vsub average avg.val))
        | some s => vadd s (vmul (Val.fin cnt) (vmul (vsub average avg.val) (vsub average avg.val))))) := by
  rw [loop2]; simp [h, h.ne', hn]; cases acc <;> rfl

theorem loop2_take_var (isNan) (average : Val ℝ) (avg var : Obj ℝ) {cnt : ℝ} (h : 0 < cnt)
    (hn : isNan var = false) (rest acc) :
    loop2 isNan average ((avg, cnt, var) :: rest) acc =
      loop2 isNan average rest (some (vadd (match acc with
        | none => vmul (Val.fin cnt) (vmul (vsub average avg.val) (vsub average avg.val))
        | some s => vadd s (vmul (Val.fin cnt) (vmul (vsub average avg.val) (vsub average avg.val))))
        (vmul (Val.fin cnt) var.val))) := by
  rw [loop2]; simp [h, h.ne', hn]; cases acc <;> rfl

/-- the gathered lists, as functions of the ranks' accumulators -/
noncomputable def avgsOf (exch : Obj ℝ → Obj ℝ) (ranks : List (Acc ℝ)) : List (Obj ℝ) := ranks.map (fun a => exch (meanObj a))
noncomputable def varsOf (exch : Obj ℝ → Obj ℝ) (ranks : List (Acc ℝ)) : List (Obj ℝ) := ranks.map (fun a => exch (variance a))
noncomputable def cntsOf (ranks : List (Acc ℝ)) : List ℝ := ranks.map (·.wcount)

theorem meanObj_of_summ {a : Acc ℝ} {p} (h : Summ a p) (hne : p ≠ []) : meanObj a = Obj.ofNum (S1 p / S0 p) := by
  unfold meanObj
  have : a.count ≠ 0 := by rw [h.count]; exact fun h0 => hne (List.length_eq_zero_iff.1 h0)
  simp [this, h.mean hne]

section
variable {exch : Obj ℝ → Obj ℝ} (hx : Exchange exch)
include hx

theorem exch_ofNum_ident (x : ℝ) : (exch (Obj.ofNum x)).isNpNan = false := by
  cases h : (exch (Obj.ofNum x)).isNpNan with
  | false => rfl
  | true => have := hx.ident _ h; simp [Obj.ofNum] at this

theorem exch_ofNum_val (x : ℝ) : (exch (Obj.ofNum x)).val = Val.fin x := by rw [hx.val]; rfl

/-- first loop, started on a number -/
theorem loop1_some {ranks : List (Acc ℝ)} {parts : List (List (ℝ × ℝ))} (h : List.Forall₂ Summ ranks parts) :
    ∀ s : ℝ, loop1 ((avgsOf exch ranks).zip (cntsOf ranks)) (some (Val.fin s)) =
      some (Val.fin (s + S1 parts.flatten)) := by
  induction h with
  | nil => intro s; simp [avgsOf, cntsOf, loop1]
  | @cons a p ranks parts hs _ ih =>
    intro s
    simp only [avgsOf, cntsOf, List.map_cons, List.zip_cons_cons, List.flatten_cons, S1_append]
    by_cases hne : p = []
    · subst hne
      rw [loop1_skip _ (by rw [hs.wcount]; rfl)]
      have := ih s
      simp only [avgsOf, cntsOf] at this
      rw [this]; simp
    · have hW := hs.pos hne
      rw [loop1_take _ (by rw [hs.wcount]; exact hW.ne') (by rw [meanObj_of_summ hs hne]; exact exch_ofNum_ident hx _)]
      rw [meanObj_of_summ hs hne, exch_ofNum_val hx, hs.wcount]
      simp only [vmul_fin, vadd_fin]
      have := ih (s + S1 p / S0 p * S0 p)
      simp only [avgsOf, cntsOf] at this
      rw [this, div_mul_cancel₀ _ hW.ne', add_assoc]

/-- first loop, started on `None` -/
theorem loop1_none {ranks : List (Acc ℝ)} {parts : List (List (ℝ × ℝ))} (h : List.Forall₂ Summ ranks parts) :
    loop1 ((avgsOf exch ranks).zip (cntsOf ranks)) none =
      if parts.flatten = [] then none else some (Val.fin (S1 parts.flatten)) := by
  induction h with
  | nil => simp [avgsOf, cntsOf, loop1]
  | @cons a p ranks parts hs hrest ih =>
    simp only [avgsOf, cntsOf, List.map_cons, List.zip_cons_cons, List.flatten_cons]
    by_cases hne : p = []
    · subst hne
      rw [loop1_skip _ (by rw [hs.wcount]; rfl)]
      simp only [avgsOf, cntsOf] at ih
      rw [ih]; simp
    · have hW := hs.pos hne
      rw [loop1_take _ (by rw [hs.wcount]; exact hW.ne') (by rw [meanObj_of_summ hs hne]; exact exch_ofNum_ident hx _)]
      rw [meanObj_of_summ hs hne, exch_ofNum_val hx, hs.wcount]
      simp only [vmul_fin]
      have := loop1_some hx hrest (S1 p / S0 p * S0 p)
      simp only [avgsOf, cntsOf] at this
      rw [this, div_mul_cancel₀ _ hW.ne', S1_append]
      simp [hne]

/-- sum of squared deviations from `A`, via the power sums -/
noncomputable def R (A : ℝ) (l : List (ℝ × ℝ)) : ℝ := S2 l - 2 * A * S1 l + A * A * S0 l

omit hx in
theorem R_append (A : ℝ) (p q : List (ℝ × ℝ)) : R A (p ++ q) = R A p + R A q := by
  simp only [R, S0_append, S1_append, S2_append]; ring

omit hx in
@[simp] theorem R_nil (A : ℝ) : R A [] = 0 := by simp [R]

omit hx in
theorem variance_of_summ {a : Acc ℝ} {p} (h : Summ a p) :
    variance a = if p.length < 2 then npNan else Obj.ofNum (a.m2 / a.wcount) := by
  unfold variance; rw [h.count]

omit hx in
/-- what one non-empty rank adds to `squares` -/
theorem rank_term {a : Acc ℝ} {p} (h : Summ a p) (hne : p ≠ []) (A : ℝ) :
    S0 p * ((A - S1 p / S0 p) * (A - S1 p / S0 p)) + (if p.length < 2 then 0 else S0 p * (a.m2 / S0 p)) = R A p := by
  have hW := h.pos hne
  have hlen : 0 < p.length := List.length_pos_iff.2 hne
  split
  · next hlt =>
    have h1 : p.length = 1 := by omega
    have hz := m2_single h1 hW
    unfold R
    have : S2 p = S1 p * S1 p / S0 p := by linarith
    rw [this]; field_simp; ring
  · rw [h.m2 hne]; unfold R; field_simp; ring

theorem loop2_some {ranks : List (Acc ℝ)} {parts : List (List (ℝ × ℝ))} (h : List.Forall₂ Summ ranks parts)
    (A : ℝ) : ∀ s : ℝ,
    loop2 nanByValue (Val.fin A) ((avgsOf exch ranks).zip ((cntsOf ranks).zip (varsOf exch ranks)))
      (some (Val.fin s)) = some (some (Val.fin (s + R A parts.flatten))) := by
  induction h with
  | nil => intro s; simp [avgsOf, cntsOf, varsOf, loop2]
  | @cons a p ranks parts hs _ ih =>
    intro s
    simp only [avgsOf, cntsOf, varsOf, List.map_cons, List.zip_cons_cons, List.flatten_cons, R_append]
    by_cases hne : p = []
    · subst hne
      rw [loop2_skip _ _ _ _ (by rw [hs.wcount]; rfl)]
      have := ih s
      simp only [avgsOf, cntsOf, varsOf] at this
      rw [this]; simp
    · have hW := hs.pos hne
      have hterm := rank_term hs hne A
      rw [variance_of_summ hs, meanObj_of_summ hs hne, hs.wcount]
      by_cases hlt : p.length < 2
      · simp only [hlt, if_true] at hterm ⊢
        rw [loop2_take_nan _ _ _ _ hW (by simp [nanByValue, hx.val, npNan])]
        rw [exch_ofNum_val hx]
        simp only [vsub_fin, vmul_fin, vadd_fin]
        have := ih (s + S0 p * ((A - S1 p / S0 p) * (A - S1 p / S0 p)))
        simp only [avgsOf, cntsOf, varsOf] at this
        rw [this]
        congr 3
        linarith
      · simp only [hlt, if_false] at hterm ⊢
        rw [loop2_take_var _ _ _ _ hW (by simp [nanByValue, hx.val, Obj.ofNum])]
        rw [exch_ofNum_val hx, exch_ofNum_val hx]
        simp only [vsub_fin, vmul_fin, vadd_fin]
        have := ih (s + S0 p * ((A - S1 p / S0 p) * (A - S1 p / S0 p)) + S0 p * (a.m2 / S0 p))
        simp only [avgsOf, cntsOf, varsOf] at this
        rw [this]
        congr 3
        linarith

theorem loop2_none {ranks : List (Acc ℝ)} {parts : List (List (ℝ × ℝ))} (h : List.Forall₂ Summ ranks parts)
    (A : ℝ) :
    loop2 nanByValue (Val.fin A) ((avgsOf exch ranks).zip ((cntsOf ranks).zip (varsOf exch ranks))) none =
      if parts.flatten = [] then some none else some (some (Val.fin (R A parts.flatten))) := by
  induction h with
  | nil => simp [avgsOf, cntsOf, varsOf, loop2]
  | @cons a p ranks parts hs hrest ih =>
    simp only [avgsOf, cntsOf, varsOf, List.map_cons, List.zip_cons_cons, List.flatten_cons]
    by_cases hne : p = []
    · subst hne
      rw [loop2_skip _ _ _ _ (by rw [hs.wcount]; rfl)]
      simp only [avgsOf, cntsOf, varsOf] at ih
      rw [ih]; simp
    · have hW := hs.pos hne
      have hterm := rank_term hs hne A
      rw [variance_of_summ hs, meanObj_of_summ hs hne, hs.wcount]
      by_cases hlt : p.length < 2
      · simp only [hlt, if_true] at hterm ⊢
        rw [loop2_take_nan _ _ _ _ hW (by simp [nanByValue, hx.val, npNan])]
        rw [exch_ofNum_val hx]
        simp only [vsub_fin, vmul_fin]
        have := loop2_some hx hrest A (S0 p * ((A - S1 p / S0 p) * (A - S1 p / S0 p)))
        simp only [avgsOf, cntsOf, varsOf] at this
        rw [this, R_append]
        simp only [hne, List.append_eq_nil_iff, false_and, if_false]
        congr 3
        linarith
      · simp only [hlt, if_false] at hterm ⊢
        rw [loop2_take_var _ _ _ _ hW (by simp [nanByValue, hx.val, Obj.ofNum])]
        rw [exch_ofNum_val hx, exch_ofNum_val hx]
        simp only [vsub_fin, vmul_fin, vadd_fin]
        have := loop2_some hx hrest A (S0 p * ((A - S1 p / S0 p) * (A - S1 p / S0 p)) + S0 p * (a.m2 / S0 p))
        simp only [avgsOf, cntsOf, varsOf] at this
        rw [this, R_append]
        simp only [hne, List.append_eq_nil_iff, false_and, if_false]
        congr 3
        linarith

omit hx in
theorem cnts_sum {ranks : List (Acc ℝ)} {parts : List (List (ℝ × ℝ))} (h : List.Forall₂ Summ ranks parts) :
    sumList (cntsOf ranks) = S0 parts.flatten := by
  rw [sumList_eq]
  induction h with
  | nil => simp [cntsOf]
  | @cons a p ranks parts hs _ ih =>
    simp only [cntsOf, List.map_cons, List.sum_cons, List.flatten_cons, S0_append] at ih ⊢
    rw [ih, hs.wcount]

omit hx in
theorem counts_sum {ranks : List (Acc ℝ)} {parts : List (List (ℝ × ℝ))} (h : List.Forall₂ Summ ranks parts) :
    (ranks.map (·.count)).sum = parts.flatten.length := by
  induction h with
  | nil => simp
  | @cons a p ranks parts hs _ ih =>
    simp only [List.map_cons, List.sum_cons, List.flatten_cons, List.length_append] at ih ⊢
    rw [ih, hs.count]

omit hx in
theorem S0_flatten_pos {ranks : List (Acc ℝ)} {parts : List (List (ℝ × ℝ))} (h : List.Forall₂ Summ ranks parts)
    (hne : parts.flatten ≠ []) : 0 < S0 parts.flatten := by
  induction h with
  | nil => simp at hne
  | @cons a p ranks parts hs _ ih =>
    simp only [List.flatten_cons, S0_append] at hne ⊢
    by_cases hp : p = []
    · subst hp
      rw [List.nil_append] at hne
      simpa using ih hne
    · have := hs.pos hp
      by_cases hr : parts.flatten = []
      · rw [hr]; simpa using this
      · have := ih hr; linarith

/-- `combine_variance` on the gathered lists: pooled mean and pooled variance -/
theorem combine_eq {ranks : List (Acc ℝ)} {parts : List (List (ℝ × ℝ))} (h : List.Forall₂ Summ ranks parts)
    (hne : parts.flatten ≠ []) :
    combine nanByValue (avgsOf exch ranks) (varsOf exch ranks) (cntsOf ranks) =
      some (Val.fin (S1 parts.flatten / S0 parts.flatten),
            Val.fin (R (S1 parts.flatten / S0 parts.flatten) parts.flatten / S0 parts.flatten)) := by
  have hW := S0_flatten_pos h hne
  unfold combine
  simp only [cnts_sum h, loop1_none hx h, hne, if_false, vdiv_fin]
  have hc : (cntsOf ranks).map (fun c => c * (S0 parts.flatten / S0 parts.flatten)) = cntsOf ranks := by
    have : ∀ c : ℝ, c * (S0 parts.flatten / S0 parts.flatten) = c := fun c => by
      rw [div_self hW.ne', mul_one]
    simp [this]
  rw [hc, loop2_none hx h]
  simp [hne]

/-- `parallelVariance` on ranks that summarise the blocks `parts` (at least two samples in total) -/
theorem parallelVariance_eq {ranks : List (Acc ℝ)} {parts : List (List (ℝ × ℝ))}
    (h : List.Forall₂ Summ ranks parts) (h2 : 2 ≤ parts.flatten.length) :
    parallelVariance nanByValue exch ranks = some (Val.fin (twoPassVar parts.flatten)) := by
  have hne : parts.flatten ≠ [] := by intro h0; rw [h0] at h2; simp at h2
  unfold parallelVariance
  simp only [counts_sum h]
  rw [if_neg (by omega)]
  have := combine_eq hx h hne
  simp only [avgsOf, varsOf, cntsOf] at this
  rw [this]
  simp only [Option.map_some, twoPassVar_eq, R]

omit hx in
theorem parallelVariance_lt2 {ranks : List (Acc ℝ)} {parts : List (List (ℝ × ℝ))}
    (h : List.Forall₂ Summ ranks parts) (h2 : parts.flatten.length < 2) :
    parallelVariance nanByValue exch ranks = some Val.nan := by
  unfold parallelVariance
  simp only [counts_sum h]
  rw [if_pos h2]

theorem parallelMean_eq {ranks : List (Acc ℝ)} {parts : List (List (ℝ × ℝ))}
    (h : List.Forall₂ Summ ranks parts) (hne : parts.flatten ≠ []) :
    parallelMean nanByValue exch ranks = some (Val.fin (wmean parts.flatten)) := by
  unfold parallelMean
  have := combine_eq hx h hne
  simp only [avgsOf, varsOf, cntsOf] at this
  rw [this]
  simp only [Option.map_some, wmean_eq]

end

end Taurex.Variance
