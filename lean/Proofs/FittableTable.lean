/-
  Lemmas about `TaurexModel/FittableTable.lean` (core tactics only, any carrier): what a history of declarations and
  `modify_bounds` calls leaves in the table.  Used by `Props/C07.lean` and `Props/C08.lean`.
-/
import TaurexModel.FittableTable

namespace Taurex.FittableTable

variable {α : Type}

/-- the re-packing of `modify_bounds` -/
def setBounds (n : String) (b0 b1 : α) (e : Entry α) : Entry α :=
  if e.name == n then { e with b0 := b0, b1 := b1 } else e

@[simp] theorem setBounds_name (n : String) (b0 b1 : α) (e : Entry α) : (setBounds n b0 b1 e).name = e.name := by
  unfold setBounds; split <;> rfl

@[simp] theorem setBounds_mode (n : String) (b0 b1 : α) (e : Entry α) : (setBounds n b0 b1 e).mode = e.mode := by
  unfold setBounds; split <;> rfl

@[simp] theorem setBounds_fit (n : String) (b0 b1 : α) (e : Entry α) : (setBounds n b0 b1 e).fit = e.fit := by
  unfold setBounds; split <;> rfl

theorem modifyBounds_eq (t t' : List (Entry α)) (n : String) (b0 b1 : α) (h : modifyBounds t n b0 b1 = some t') :
    t' = t.map (setBounds n b0 b1) := by
  unfold modifyBounds at h
  split at h
  · exact (Option.some.inj h).symm
  · cases h

theorem lookup_some_name (t : List (Entry α)) (n : String) (e : Entry α) (h : lookup t n = some e) : e.name = n := by
  have := List.find?_some h
  simpa using this

/-- `modify_bounds` keeps every entry in place with its name, mode and fit flag -/
theorem modifyBounds_frame (t t' : List (Entry α)) (n : String) (b0 b1 : α) (h : modifyBounds t n b0 b1 = some t') :
    t'.map (fun e => (e.name, e.mode, e.fit)) = t.map (fun e => (e.name, e.mode, e.fit)) := by
  rw [modifyBounds_eq t t' n b0 b1 h, List.map_map]
  apply List.map_congr_left
  intro e _
  simp

/-- after `modify_bounds(n, b)` the entry of `n` has the bounds `b`, every other entry is what it was -/
theorem lookup_modifyBounds (t t' : List (Entry α)) (n m : String) (b0 b1 : α)
    (h : modifyBounds t n b0 b1 = some t') :
    lookup t' m = (lookup t m).map (fun e => if n == m then { e with b0 := b0, b1 := b1 } else e) := by
  rw [modifyBounds_eq t t' n b0 b1 h]
  unfold lookup
  rw [List.find?_map]
  have hp : ((fun e : Entry α => e.name == m) ∘ setBounds n b0 b1) = (fun e : Entry α => e.name == m) := by
    funext e; simp
  rw [hp]
  cases hf : t.find? (fun e => e.name == m) with
  | none => rfl
  | some e =>
    have hn : e.name = m := lookup_some_name t m e hf
    simp only [Option.map_some, setBounds, hn]
    by_cases hmn : m = n
    · subst hmn; simp
    · have h1 : (m == n) = false := by simpa using hmn
      have h2 : (n == m) = false := by simpa using (fun h : n = m => hmn h.symm)
      simp [h1, h2]

/-- `modify_bounds` succeeds exactly on declared names -/
theorem modifyBounds_isSome (t : List (Entry α)) (n : String) (b0 b1 : α) :
    (modifyBounds t n b0 b1).isSome = (lookup t n).isSome := by
  unfold modifyBounds lookup
  by_cases h : t.any (fun x => x.name == n) = true
  · rw [if_pos h]
    simp only [Option.isSome_some]
    symm
    rw [List.find?_isSome]
    simpa using h
  · rw [if_neg h]
    simp only [Option.isSome_none]
    symm
    rw [Bool.eq_false_iff]
    intro hs
    rw [List.find?_isSome] at hs
    apply h
    simpa using hs

/-- a history of `modify_bounds` calls keeps names, order, modes and fit flags -/
theorem runHist_frame (hist : List (String × α × α)) : ∀ (t t' : List (Entry α)), runHist t hist = some t' →
    t'.map (fun e => (e.name, e.mode, e.fit)) = t.map (fun e => (e.name, e.mode, e.fit)) := by
  induction hist with
  | nil => intro t t' h; simp [runHist] at h; rw [h]
  | cons x xs ih =>
    intro t t' h
    unfold runHist at h
    cases hm : modifyBounds t x.1 x.2.1 x.2.2 with
    | none => rw [hm] at h; cases h
    | some t1 =>
      rw [hm] at h
      rw [ih t1 t' h, modifyBounds_frame t t1 _ _ _ hm]

/-- …and leaves each parameter with the bounds of the last call naming it -/
theorem lookup_runHist (n : String) (hist : List (String × α × α)) : ∀ (t t' : List (Entry α)) (e : Entry α),
    runHist t hist = some t' → lookup t n = some e →
    lookup t' n = some { e with b0 := (lastBounds n hist (e.b0, e.b1)).1, b1 := (lastBounds n hist (e.b0, e.b1)).2 } := by
  induction hist with
  | nil =>
    intro t t' e h hl
    simp [runHist] at h
    subst h
    simpa [lastBounds] using hl
  | cons x xs ih =>
    intro t t' e h hl
    unfold runHist at h
    cases hm : modifyBounds t x.1 x.2.1 x.2.2 with
    | none => rw [hm] at h; cases h
    | some t1 =>
      rw [hm] at h
      have h1 := lookup_modifyBounds t t1 x.1 n x.2.1 x.2.2 hm
      rw [hl] at h1
      simp only [Option.map_some] at h1
      unfold lastBounds
      by_cases hx : (x.1 == n) = true
      · rw [if_pos hx] at h1
        rw [ih t1 t' _ h h1, if_pos hx]
      · rw [if_neg hx] at h1
        rw [ih t1 t' _ h h1, if_neg hx]

/-! ### declarations -/

theorem declareAll_eq [OfNat α 0] [OfNat α 1] (ds : List (Decl α)) : ∀ (t0 t : List (Entry α)),
    declareAll t0 ds = some t → t = t0 ++ ds.map Decl.entry := by
  induction ds with
  | nil => intro t0 t h; simp [declareAll] at h; simp [h]
  | cons d ds ih =>
    intro t0 t h
    unfold declareAll at h
    cases ha : addParam t0 d.entry with
    | none => rw [ha] at h; cases h
    | some t1 =>
      rw [ha] at h
      have := ih t1 t h
      unfold addParam at ha
      split at ha
      · cases ha
      · cases ha
        simp [this]

theorem declareAll_nodup [OfNat α 0] [OfNat α 1] (ds : List (Decl α)) : ∀ (t0 t : List (Entry α)),
    (t0.map (·.name)).Nodup → declareAll t0 ds = some t → (t.map (·.name)).Nodup := by
  induction ds with
  | nil => intro t0 t h0 h; simp [declareAll] at h; rw [← h]; exact h0
  | cons d ds ih =>
    intro t0 t h0 h
    unfold declareAll at h
    cases ha : addParam t0 d.entry with
    | none => rw [ha] at h; cases h
    | some t1 =>
      rw [ha] at h
      apply ih t1 t _ h
      unfold addParam at ha
      split at ha
      · cases ha
      · rename_i hany
        cases ha
        rw [List.map_append, List.nodup_append]
        refine ⟨h0, by simp, ?_⟩
        intro a ha b hb
        simp only [List.map_cons, List.map_nil, List.mem_singleton] at hb
        subst hb
        intro hab
        subst hab
        apply hany
        rw [List.any_eq_true]
        obtain ⟨x, hx, hxn⟩ := List.mem_map.1 ha
        exact ⟨x, hx, by simpa using hxn⟩

/-- in a table without repeated names every entry is found under its name -/
theorem lookup_of_mem (t : List (Entry α)) (hn : (t.map (·.name)).Nodup) (e : Entry α) (he : e ∈ t) :
    lookup t e.name = some e := by
  induction t with
  | nil => cases he
  | cons x xs ih =>
    simp only [List.map_cons, List.nodup_cons] at hn
    unfold lookup
    rw [List.find?_cons]
    by_cases hx : x.name = e.name
    · have : e = x := by
        rcases List.mem_cons.1 he with h | h
        · exact h
        · exfalso
          apply hn.1
          rw [hx]
          exact List.mem_map.2 ⟨e, h, rfl⟩
      subst this
      simp
    · have hx' : (x.name == e.name) = false := by simpa using hx
      rw [hx']
      rcases List.mem_cons.1 he with h | h
      · exact absurd h.symm (fun h' => hx (by rw [h']))
      · exact ih hn.2 h

/-- **Declared table.**  When the declarations and the boundary changes of an object all succeed, the table has the
    declared names in declaration order, and each declared parameter is found with its declared mode and fit flag
    (signature defaults for keywords left out) and the bounds of the last `modify_bounds` naming it. -/
theorem declaredTable_spec [OfNat α 0] [OfNat α 1] (decls : List (Decl α)) (hist : List (String × α × α))
    (t : List (Entry α)) (h : declaredTable decls hist = some t) :
    t.map (·.name) = decls.map (·.name) ∧
    ∀ d ∈ decls, lookup t d.name = some
      { name := d.name, mode := d.entry.mode, fit := d.entry.fit,
        b0 := (lastBounds d.name hist (d.entry.b0, d.entry.b1)).1,
        b1 := (lastBounds d.name hist (d.entry.b0, d.entry.b1)).2 } := by
  unfold declaredTable at h
  cases hd : declareAll [] decls with
  | none => rw [hd] at h; cases h
  | some t0 =>
    rw [hd] at h
    have heq := declareAll_eq decls [] t0 hd
    have hnd := declareAll_nodup decls [] t0 (by simp) hd
    simp only [List.nil_append] at heq
    constructor
    · have hf := runHist_frame hist t0 t h
      have : t.map (·.name) = t0.map (·.name) := by
        have := congrArg (List.map (fun p : String × Priors.FitMode × Bool => p.1)) hf
        simpa [List.map_map, Function.comp_def] using this
      rw [this, heq, List.map_map]
      apply List.map_congr_left
      intro d _
      rfl
    · intro d hdm
      have hmem : d.entry ∈ t0 := by rw [heq]; exact List.mem_map.2 ⟨d, hdm, rfl⟩
      have hl := lookup_of_mem t0 hnd d.entry hmem
      have hname : d.entry.name = d.name := rfl
      rw [hname] at hl
      exact lookup_runHist d.name hist t0 t d.entry h hl

end Taurex.FittableTable
