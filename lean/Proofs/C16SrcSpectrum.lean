/-
  C16 — source tie, spectrum dictionaries: the oracle for `generate_spectrum_output`.

  Objects the code touches: 1-D arrays (`vec`), 2-D optical depths (`mat`), the binner (`self`: its class decides what
  `bindown` does — the functions `bd`, `bdTau` of the world, exactly the parameters of `Output.baseOutput`; its attributes
  `_wngrid`, `_wngrid_width` / `_wn_width` are `grid`, `width`), the members of `OutputSize` (an IntEnum: `>` compares
  the values; heavy = 6, light = 3, lighter = 1), the module-level functions `compute_bin_edges` (tied to the model's
  `computeBinEdges` in `Props/C05Src.lean`) and `wnwidth_to_wlwidth` (`Output.wnwidthToWlwidth`), the fourth entry of the
  model output (`extra`, never looked at).  numpy's `10000/array` is the element-wise quotient (`Output.wlOfWn`).
-/
import TaurexModel.Gen.SrcC16
import TaurexModel.Output
set_option linter.unusedSectionVars false
set_option linter.unusedVariables false

namespace Taurex.C16Src
open Taurex.Gen Taurex.Gen.Dyn
open Taurex.Output (Entry wlOfWn wnwidthToWlwidth computeBinEdges)

inductive GObj (α : Type) where
  | vec (v : List α)
  | mat (m : List (List α))
  /-- the binner: its own grid and widths -/
  | binner (grid width : List α)
  /-- a member of `OutputSize` -/
  | size (n : Nat)
  /-- the class `OutputSize` -/
  | sizeCls
  | fn (name : String)
  | extra
  deriving BEq

section
variable {α : Type} [Add α] [Sub α] [Mul α] [Div α] [Neg α] [LT α] [DecidableLT α]
  [OfNat α 0] [OfNat α 2] [OfNat α 10000] [BEq α] [FloatLike α]

abbrev GV (α : Type) := Dyn.Val α (GObj α)
abbrev GM := Except Exc

/-- what the model does not fix: what `self.bindown` returns besides the binned values -/
structure GWorld (α : Type) where
  bd : List α → List α → List α
  bdTau : List α → List (List α) → List (List α)
  /-- the other three components of the tuple `bindown` returns -/
  bdRest : GV α × GV α × GV α

def GWorld.ext (w : GWorld α) : Ext GM α (GObj α) where
  global name := if name = "OutputSize" then .ok (.obj .sizeCls) else .ok (.obj (.fn name))
  getattr o name :=
    match o with
    | .sizeCls =>
      if name = "heavy" then .ok (.obj (.size 6)) else if name = "light" then .ok (.obj (.size 3))
      else if name = "lighter" then .ok (.obj (.size 1)) else .error .AttributeError
    | .binner grid width =>
      if name = "_wngrid" then .ok (.obj (.vec grid))
      else if name = "_wngrid_width" ∨ name = "_wn_width" then .ok (.obj (.vec width))
      else .error .AttributeError
    | _ => .error .AttributeError
  call o args _ :=
    match o with
    | .fn name =>
      if name = "compute_bin_edges" then
        match args with
        | [.obj (.vec g)] => .ok (.tuple [.obj (.vec (computeBinEdges g).1), .obj (.vec (computeBinEdges g).2)])
        | _ => .error .TypeError
      else if name = "wnwidth_to_wlwidth" then
        match args with
        | [.obj (.vec g), .obj (.vec wd)] => .ok (.obj (.vec (wnwidthToWlwidth g wd)))
        | _ => .error .TypeError
      else .error .TypeError
    | _ => .error .TypeError
  method o name args _ :=
    match o with
    | .binner _ _ =>
      if name = "bindown" then
        match args with
        | [.obj (.vec wn), .obj (.vec f)] => .ok (.tuple [w.bdRest.1, .obj (.vec (w.bd wn f)), w.bdRest.2.1, w.bdRest.2.2])
        | [.obj (.vec wn), .obj (.mat t)] => .ok (.tuple [w.bdRest.1, .obj (.mat (w.bdTau wn t)), w.bdRest.2.1, w.bdRest.2.2])
        | _ => .error .TypeError
      else .error .AttributeError
    | _ => .error .AttributeError
  isinst _ _ := false
  iter _ := .error .TypeError
  truthy _ := .ok true
  op name args :=
    if name = "/" then
      match args with
      | [.int 10000, .obj (.vec v)] => .ok (.obj (.vec (wlOfWn v)))
      | _ => .error .TypeError
    else if name = ">" then
      match args with
      | [.obj (.size a), .obj (.size b)] => .ok (.bool (decide (a > b)))
      | _ => .error .TypeError
    else .error .TypeError
  parseFloat _ := none

/-- an entry of a spectrum dictionary as the Python value -/
def embEntry : Entry α → GV α
  | .vec v => .obj (.vec v)
  | .mat m => .obj (.mat m)

/-- a spectrum dictionary (`Output.baseOutput` / `spectrumOutput`) as a Python `dict` -/
def embOut (d : List (String × Entry α)) : GV α := .dict (d.map (fun kv => (.str kv.1, embEntry kv.2)))

/-- the forward-model result `(wngrid, flux, tau, extra)` -/
def modelOutput (wn flux : List α) (tau : List (List α)) : GV α :=
  .tuple [.obj (.vec wn), .obj (.vec flux), .obj (.mat tau), .obj .extra]

abbrev GM' := GM
@[simp] theorem g_pure_ok {β : Type} (x : β) : (pure x : GM β) = .ok x := rfl
@[simp] theorem g_throw_err {β : Type} (e : Exc) : (throw e : GM β) = .error e := rfl
@[simp] theorem g_bind_ok {β γ : Type} (x : β) (f : β → GM γ) : ((Except.ok x : GM β) >>= f) = f x := rfl
@[simp] theorem g_bind_err {β γ : Type} (e : Exc) (f : β → GM γ) : ((Except.error e : GM β) >>= f) = .error e := rfl

end
end Taurex.C16Src
