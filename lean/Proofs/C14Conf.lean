/-
  Helper lemmas for C14: configuration events reaching the caches by other routes than their own setters
  (TaurexModel/CacheConf.lean) and the collision partners of a CIA pair name (core tactics only).
-/
import Proofs.C14Cache
import TaurexModel.CacheConf
import TaurexModel.Sanitize

namespace Taurex.CacheSM

theorem parCalls_none_not_setInterp (mem : Option Bool) : ∀ op ∈ parCalls none mem, ∀ k, op ≠ .setInterp k := by
  intro op hop k hk
  subst hk
  cases mem <;> simp [parCalls] at hop

theorem modeInv_path (s : CSt) (p : Option Nat) (h : ModeInv s) : ModeInv { s with path := p } := h

/-- an event that leaves the interpolation setting alone keeps the mode invariant and the setting -/
theorem stepX_modeInv (fs : List Dir) (s : CSt) (op : XOp) (h : ModeInv s) (hm : op.modeAfter = none) :
    ModeInv (stepX fs s op).1 ∧ (stepX fs s op).1.interp = s.interp := by
  cases op with
  | base op =>
    refine ⟨step_modeInv fs s op h, step_interp_of_not_setInterp fs s op ?_⟩
    intro k hk
    subst hk
    simp [XOp.modeAfter] at hm
  | unsetInterp => simp [XOp.modeAfter] at hm
  | unsetPath => exact ⟨h, rfl⟩
  | parfile p k mem =>
    cases k with
    | some k => simp [XOp.modeAfter] at hm
    | none =>
      cases p with
      | none => exact ⟨run_modeInv fs _ s h, run_interp fs _ s (parCalls_none_not_setInterp mem)⟩
      | some p =>
        have hs : (step fs s (.setPath p)).1 = { s with path := some p } := step_setPath fs s p
        simp only [stepX]
        split
        · rw [hs]; exact ⟨h, rfl⟩
        · refine ⟨run_modeInv fs _ _ (by rw [hs]; exact h), ?_⟩
          rw [run_interp fs _ _ (parCalls_none_not_setInterp mem), hs]

theorem runX_modeInv (fs : List Dir) (ops : List XOp) (s : CSt) (h : ModeInv s)
    (hops : ∀ op ∈ ops, op.modeAfter = none) : ModeInv (runX fs s ops) ∧ (runX fs s ops).interp = s.interp := by
  induction ops generalizing s with
  | nil => exact ⟨h, rfl⟩
  | cons op ops ih =>
    have h1 := stepX_modeInv fs s op h (hops op (by simp))
    have h2 := ih (stepX fs s op).1 h1.1 (fun o ho => hops o (by simp [ho]))
    refine ⟨by simpa [runX] using h2.1, ?_⟩
    have : (runX fs s (op :: ops)) = runX fs (stepX fs s op).1 ops := by simp [runX]
    rw [this, h2.2, h1.2]

/-- an event that sets the interpolation mode (and did not fail) empties the cache and stores the mode -/
theorem stepX_sets_mode (fs : List Dir) (s : CSt) (c : XOp) (ki : Option Nat) (hc : c.modeAfter = some ki)
    (hok : (stepX fs s c).2 = .done) : (stepX fs s c).1.dict = [] ∧ (stepX fs s c).1.interp = ki := by
  cases c with
  | base op =>
    cases op with
    | setInterp k =>
      simp only [XOp.modeAfter, Option.some.injEq] at hc
      subst hc
      exact ⟨rfl, rfl⟩
    | get m => simp [XOp.modeAfter] at hc
    | setPath p => simp [XOp.modeAfter] at hc
    | setMem b => simp [XOp.modeAfter] at hc
    | clear => simp [XOp.modeAfter] at hc
    | add m k => simp [XOp.modeAfter] at hc
  | unsetInterp =>
    simp only [XOp.modeAfter, Option.some.injEq] at hc
    subst hc
    exact ⟨rfl, rfl⟩
  | unsetPath => simp [XOp.modeAfter] at hc
  | parfile p k mem =>
    cases k with
    | none => simp [XOp.modeAfter] at hc
    | some k =>
      simp only [XOp.modeAfter, Option.some.injEq] at hc
      subst hc
      cases p with
      | none => cases mem <;> exact ⟨rfl, rfl⟩
      | some p =>
        simp only [stepX] at hok ⊢
        split at hok
        · rename_i hnd
          rw [hnd] at hok
          cases hok
        · rename_i hnd
          simp only [hnd, if_false]
          cases mem <;> exact ⟨rfl, rfl⟩

/-- with an empty dictionary and no path configured nothing can be served -/
theorem step_get_nopath (fs : List Dir) (s : CSt) (m : String) (hd : s.dict = []) (hp : s.path = none) :
    step fs s (.get m) = (s, .missing) := by
  have hl : loadFrom fs m s = s := by
    unfold loadFrom curFiles
    rw [hp]
    rfl
  rw [step_get, hl, hd]
  rfl

/-- a clearing operation empties the dictionary and leaves the path alone -/
theorem step_clears (fs : List Dir) (s : CSt) (c : COp) (h : c.clears = true) :
    (step fs s c).1.dict = [] ∧ (step fs s c).1.path = s.path := by
  cases c with
  | get m => cases h
  | setPath p => cases h
  | setInterp k => exact ⟨rfl, rfl⟩
  | setMem b => exact ⟨rfl, rfl⟩
  | clear => exact ⟨rfl, rfl⟩
  | add m k => cases h

end Taurex.CacheSM

namespace Taurex.Sanitize

theorem takeWhile_append_sep {p : Char → Bool} (x : Char) (hx : p x = false) :
    ∀ (l r : List Char), (∀ c ∈ l, p c = true) → (l ++ x :: r).takeWhile p = l
  | [], r, _ => by simp [hx]
  | c :: l, r, h => by
    have hc := h c (by simp)
    simp only [List.cons_append, List.takeWhile_cons, hc, if_true]
    rw [takeWhile_append_sep x hx l r (fun y hy => h y (by simp [hy]))]

theorem ne_sep_of_not_mem {sep : Char} {l : List Char} (h : sep ∉ l) : ∀ c ∈ l, (c != sep) = true := by
  intro c hc
  rcases Decidable.em (c = sep) with rfl | hne
  · exact absurd hc h
  · simpa using hne

end Taurex.Sanitize
