/-
  Helper lemmas for the C06 property theorems (likelihood / prior callbacks), over the real carrier.
-/
import Proofs.RealInst
import TaurexModel.Likelihood
import Mathlib.Tactic.Linarith
import Mathlib.Tactic.Positivity
import Mathlib.Tactic.Ring

namespace Taurex.C06
open Taurex.Likelihood

/-- the squared, error-normalised residuals `((d_i - m_i)/σ_i)²` of the property statement -/
noncomputable def sqList : List ℝ → List ℝ → List ℝ → List ℝ
  | d :: ds, s :: ss, m :: ms => ((d - m) / s) ^ 2 :: sqList ds ss ms
  | _, _, _ => []

/-- `χ² = Σ_i ((d_i - m_i)/σ_i)²` -/
noncomputable def chiSq (obs sig m : List ℝ) : ℝ := (sqList obs sig m).sum

/-- `Σ_i log(σ_i √(2π))` -/
noncomputable def logNorm (sig : List ℝ) : ℝ := (sig.map (fun s => Real.log (s * Real.sqrt (2 * Real.pi)))).sum

theorem foldl_add (l : List ℝ) (a : ℝ) : l.foldl (fun acc x => acc + x) a = a + l.sum := by
  induction l generalizing a with
  | nil => simp
  | cons x xs ih => simp [List.foldl_cons, ih, add_assoc]

theorem sumL_eq (l : List ℝ) : sumL l = l.sum := by
  simp [sumL, foldl_add]

theorem nansum_foldl (l : List (Option ℝ)) (a : ℝ) :
    l.foldl nanAdd a = a + (l.filterMap id).sum := by
  induction l generalizing a with
  | nil => simp
  | cons x xs ih =>
    cases x with
    | none => simp [List.foldl_cons, ih, nanAdd]
    | some v => simp [List.foldl_cons, ih, nanAdd, add_assoc]

/-- `np.nansum` is the sum of the entries that are not NaN -/
theorem nansum_eq (l : List (Option ℝ)) : nansum l = (l.filterMap id).sum := by
  unfold nansum
  rw [nansum_foldl]
  simp

theorem nansum_map_some (l : List ℝ) : nansum (l.map some) = l.sum := by
  rw [nansum_eq]; congr 1
  induction l with
  | nil => rfl
  | cons x xs ih => simp

theorem residuals_some : ∀ (obs sig m : List ℝ),
    residuals obs sig (m.map some) = (sqList obs sig m).map some := by
  intro obs
  induction obs with
  | nil => intro sig m; cases sig <;> cases m <;> simp [residuals, sqList]
  | cons d ds ih =>
    intro sig m
    cases sig with
    | nil => cases m <;> simp [residuals, sqList]
    | cons s ss =>
      cases m with
      | nil => simp [residuals, sqList]
      | cons m0 ms =>
        simp only [List.map_cons, residuals, sqList, residSq, ih]
        congr 2
        ring

theorem sqList_ne_nil {obs sig m : List ℝ} (hs : sig.length = obs.length) (hm : m.length = obs.length)
    (hne : obs ≠ []) : sqList obs sig m ≠ [] := by
  cases obs with
  | nil => exact absurd rfl hne
  | cons d ds =>
    cases sig with
    | nil => simp at hs
    | cons s ss =>
      cases m with
      | nil => simp at hm
      | cons m0 ms => simp [sqList]

theorem all_isNone_map_some {l : List ℝ} (h : l ≠ []) : (l.map some).all Option.isNone = false := by
  cases l with
  | nil => exact absurd rfl h
  | cons x xs => simp

theorem sqList_nonneg : ∀ (obs sig m : List ℝ), ∀ v ∈ sqList obs sig m, 0 ≤ v := by
  intro obs
  induction obs with
  | nil => intro sig m v hv; cases sig <;> cases m <;> simp [sqList] at hv
  | cons d ds ih =>
    intro sig m v hv
    cases sig with
    | nil => cases m <;> simp [sqList] at hv
    | cons s ss =>
      cases m with
      | nil => simp [sqList] at hv
      | cons m0 ms =>
        simp only [sqList, List.mem_cons] at hv
        rcases hv with rfl | hv
        · positivity
        · exact ih ss ms v hv

theorem chiSq_nonneg (obs sig m : List ℝ) : 0 ≤ chiSq obs sig m :=
  List.sum_nonneg (sqList_nonneg obs sig m)

theorem sqList_self : ∀ (obs sig : List ℝ), ∀ v ∈ sqList obs sig obs, v = 0 := by
  intro obs
  induction obs with
  | nil => intro sig v hv; cases sig <;> simp [sqList] at hv
  | cons d ds ih =>
    intro sig v hv
    cases sig with
    | nil => simp [sqList] at hv
    | cons s ss =>
      simp only [sqList, List.mem_cons] at hv
      rcases hv with rfl | hv
      · simp
      · exact ih ss v hv

theorem chiSq_self (obs sig : List ℝ) : chiSq obs sig obs = 0 := by
  unfold chiSq
  have h := sqList_self obs sig
  generalize sqList obs sig obs = l at h
  induction l with
  | nil => rfl
  | cons x xs ih =>
    rw [List.sum_cons, h x (by simp), ih (fun v hv => h v (List.mem_cons_of_mem _ hv))]
    ring

/-- the value of the log-likelihood for a finite binned model -/
theorem loglike_ok_some (obs sig m : List ℝ) (hs : sig.length = obs.length) (hm : m.length = obs.length)
    (hne : obs ≠ []) :
    loglike Real.pi obs sig (.ok (m.map some)) = .fin (-(logNorm sig) - chiSq obs sig m / 2) := by
  unfold loglike chisq
  simp only [residuals_some, all_isNone_map_some (sqList_ne_nil hs hm hne), nansum_map_some]
  simp only [Bool.false_eq_true, if_false, normTerm, sumL_eq, sqrt_real, log_real]
  unfold logNorm chiSq
  congr 1
  ring

end Taurex.C06
