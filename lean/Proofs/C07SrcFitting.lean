/-
  Oracle and lemmas for the source tie of `ParameterParser.generate_fitting_parameters`, `generate_derived_parameters`
  and `setup_optimizer` (taurex/parameter/parameterparser.py, dialect `dyn` of the translator) against
  `TaurexModel/FittingSection.lean`.

  The translated definitions handle dynamically typed values `Dyn.Val α (FObj α)` in the monad `Dyn.Eff (St String α)`
  (state = the optimizer state of `TaurexModel/OptimizerSM.lean`, kept when an exception is raised) and take ONE oracle for
  everything the text delegates to objects.  What the oracle `fext` says (and nothing else is assumed):
    * `self._raw_config.dict()` returns the dict `cfg` (the tie instantiates it with `{'Fitting': …, 'Derive': …}`, the
      sections as ConfigObj delivers them after `ParameterParser.transform`: `embSec`, keys in file order);
    * the imported name `create_prior` is a function object; calling it on a value `v` returns the prior object `mk v`, or
      raises `pexc` when `mk v = none` (`mk`, `pexc` arbitrary);
    * a method call `optimizer.<name>(args)` whose arguments have the documented shapes (`decodeOp`) is ONE step of the
      optimizer state machine `step s op` — the eight set-up methods are tied to the text of
      taurex/optimizer/optimizer.py by `src_enable_fit` … `src_set_prior` in Props/C07Src.lean —, `KeyError` / `ValueError`
      as the model's `Out`; arguments of any other shape are a `TypeError` (the model's `unsupported`, not judged);
    * everything else raises.
  Floats: `Dyn.FloatLike α` with `isZero x := ¬ (x < 0 ∨ 0 < x)` (the model's truthiness of a number).
  Core only; generic in the carrier.
-/
import TaurexModel.Gen.SrcC07
import Proofs.C07Fitting
set_option linter.unusedSectionVars false
set_option linter.unusedVariables false

namespace Taurex.C07Src
open Taurex.Priors Taurex.OptimizerSM Taurex.FittingSection Taurex.Gen Taurex.Gen.Dyn Taurex.C07

/-! ## objects, values, monad -/

/-- the objects of the glue code that are not built-in values -/
inductive FObj (α : Type) where
  | self                     -- the ParameterParser
  | rawConfig                -- `self._raw_config`
  | optimizer                -- the Optimizer handed to `setup_optimizer`
  | createPrior              -- the function `taurex.parameter.factory.create_prior`
  | prior (p : Prior α)      -- a prior object

abbrev FV (α : Type) := Dyn.Val α (FObj α)
abbrev FM (α : Type) := Dyn.Eff (St String α)

section
variable {α : Type} [LT α] [DecidableLT α] [OfNat α 0]

/-- Python floats as far as the glue code looks at them: truthiness (`x != 0`) -/
scoped instance floatLike : Dyn.FloatLike α where
  ofInt _ := 0
  beq a b := !(decide (a < b) || decide (b < a))
  lt a b := decide (a < b)
  isZero x := !(decide (x < 0) || decide (0 < x))

/-- a typed value of a section as a Python value -/
def embV : OptVal α → FV α
  | .bool b => .bool b
  | .num x => .float x
  | .str s => .str s
  | .nums xs => .list (xs.map .float)
  | .strs xs => .list (xs.map .str)

/-- an option that may not have been written (`None`) -/
def embO : Option (OptVal α) → FV α
  | none => .none
  | some v => embV v

/-- the `prior` option: `None` or the object `create_prior` returned -/
def embP : Option (Prior α) → FV α
  | none => .none
  | some p => .obj (.prior p)

/-- a section: keys in file order -/
def embSec (sec : List (String × OptVal α)) : List (FV α × FV α) := sec.map (fun kv => (.str kv.1, embV kv.2))

/-- the dict `self._raw_config.dict()` with the two sections -/
def cfgOf (fitting derive : List (String × OptVal α)) : FV α :=
  .dict [(.str "Fitting", .dict (embSec fitting)), (.str "Derive", .dict (embSec derive))]

/-- Python truthiness of an option that may be `None` -/
def truthyO : Option (OptVal α) → Bool
  | none => false
  | some v => truthy v

end

section
variable {α : Type} [LT α] [DecidableLT α] [OfNat α 0] [Mul α] [Transc α]

/-- the optimizer call a method name and its arguments stand for (documented argument shapes only) -/
def decodeOp (name : String) (args : List (FV α)) : Option (Op String α) :=
  if name = "enable_fit" then (match args with | [.str n] => some (.enableFit n) | _ => none)
  else if name = "disable_fit" then (match args with | [.str n] => some (.disableFit n) | _ => none)
  else if name = "set_factor_boundary" then
    (match args with | [.str n, .list [.float a, .float b]] => some (.setFactorBoundary n a b) | _ => none)
  else if name = "set_boundary" then
    (match args with | [.str n, .list [.float a, .float b]] => some (.setBoundary n a b) | _ => none)
  else if name = "set_mode" then (match args with | [.str n, .str m] => some (.setMode n m) | _ => none)
  else if name = "set_prior" then (match args with | [.str n, .obj (.prior p)] => some (.setPrior n p) | _ => none)
  else if name = "enable_derived" then (match args with | [.str n] => some (.enableDerived n) | _ => none)
  else if name = "disable_derived" then (match args with | [.str n] => some (.disableDerived n) | _ => none)
  else none

/-- how an outcome of the state machine is raised -/
def outRes : Out → Except Exc (FV α)
  | .ok => .ok .none
  | .keyError => .error .KeyError
  | .valueError => .error .ValueError

/-- `optimizer.<name>(*args)`: one step of the state machine -/
def optCall (name : String) (args : List (FV α)) : FM α (FV α) := fun s =>
  match decodeOp name args with
  | none => (.error .TypeError, s)
  | some op => (outRes (step s op).2, (step s op).1)

/-- the oracle (see the file header) -/
def fext (mk : FV α → Option (Prior α)) (pexc : Exc) (cfg : FV α) : Dyn.Ext (FM α) α (FObj α) where
  global name := if name = "create_prior" then pure (.obj .createPrior) else throw .NameError
  getattr o name :=
    match o with
    | .self => if name = "_raw_config" then pure (.obj .rawConfig) else throw .AttributeError
    | _ => throw .AttributeError
  call o args kw :=
    match o, args, kw with
    | .createPrior, [v], [] =>
      (match mk v with
       | some p => pure (.obj (.prior p))
       | none => throw pexc)
    | _, _, _ => throw .TypeError
  method o name args kw :=
    match o, kw with
    | .rawConfig, [] => if name = "dict" ∧ args = [] then pure cfg else throw .AttributeError
    | .optimizer, [] => optCall name args
    | _, _ => throw .AttributeError
  isinst _ _ := false
  iter _ := throw .TypeError
  truthy _ := pure true
  op _ _ := throw .TypeError
  parseFloat _ := none

end

/-! ## the monad `Eff` -/

@[simp] theorem eff_pure {σ β : Type} (x : β) (s : σ) : (pure x : Eff σ β) s = (.ok x, s) := rfl
@[simp] theorem eff_throw {σ β : Type} (e : Exc) (s : σ) : (throw e : Eff σ β) s = (.error e, s) := rfl
theorem eff_bind {σ β γ : Type} (x : Eff σ β) (f : β → Eff σ γ) (s : σ) :
    (x >>= f) s = match x s with
      | (.ok a, s') => f a s'
      | (.error e, s') => (.error e, s') := rfl
theorem eff_bind_ok {σ β γ : Type} (x : Eff σ β) (f : β → Eff σ γ) (s s' : σ) (a : β) (h : x s = (.ok a, s')) :
    (x >>= f) s = f a s' := by rw [eff_bind, h]
theorem eff_bind_err {σ β γ : Type} (x : Eff σ β) (f : β → Eff σ γ) (s s' : σ) (e : Exc) (h : x s = (.error e, s')) :
    (x >>= f) s = (.error e, s') := by rw [eff_bind, h]
/-- a computation that returns `a` and leaves the state alone, followed by `f` -/
theorem eff_bind_pure {σ β γ : Type} (x : Eff σ β) (f : β → Eff σ γ) (a : β) (h : ∀ s, x s = (.ok a, s)) :
    (x >>= f) = f a := by
  funext s; rw [eff_bind, h]

/-! ## string keys -/

section
variable {α : Type} [LT α] [DecidableLT α] [OfNat α 0] [BEq (FObj α)]

theorem beq_str (a b : String) : Val.beq (Val.str a : FV α) (.str b) = (a == b) := by
  simp [Val.beq]

theorem beq_left_str (k : FV α) (b : String) : Val.beq k (.str b) = (match k with | .str a => a == b | _ => false) := by
  cases k <;> simp [Val.beq]

theorem dictGet_set_str (d : List (FV α × FV α)) (b c : String) (v : FV α) :
    dictGet? (dictSet d (.str b) v) (.str c) = if b = c then some v else dictGet? d (.str c) := by
  induction d with
  | nil => by_cases h : b = c <;> simp [dictSet, dictGet?, beq_str, h]
  | cons e t ih =>
    obtain ⟨k, w⟩ := e
    cases k with
    | str x =>
      by_cases hx : x = b
      · subst hx
        by_cases h : x = c <;> simp [dictSet, dictGet?, beq_str, h]
      · by_cases hc : x = c
        · subst hc
          have : ¬ b = x := fun e => hx e.symm
          simp [dictSet, dictGet?, beq_str, hx, this]
        · simp [dictSet, dictGet?, beq_str, hx, hc, ih]
    | _ => simp [dictSet, dictGet?, Val.beq, ih]

end

/-! ## records: the dict per parameter against the model's `Rec` -/

section
variable {α : Type} [LT α] [DecidableLT α] [OfNat α 0] [BEq (FObj α)]

/-- the dict `fitting_params[name]` holds, under the five keys `setup_optimizer` reads, what the model's record holds
    (other keys — unknown options — are in the dict and not in the record: nobody reads them) -/
def RecSim (d : List (FV α × FV α)) (r : Rec α) : Prop :=
  dictGet? d (.str "fit") = some (embV r.fit) ∧ dictGet? d (.str "bounds") = some (embO r.bounds) ∧
  dictGet? d (.str "mode") = some (embO r.mode) ∧ dictGet? d (.str "factor") = some (embO r.factor) ∧
  dictGet? d (.str "prior") = some (embP r.prior)

/-- `{'fit': False, 'bounds': None, 'mode': None, 'factor': None, 'prior': None}` -/
def defaultsD : List (FV α × FV α) :=
  [(.str "fit", .bool false), (.str "bounds", .none), (.str "mode", .none), (.str "factor", .none), (.str "prior", .none)]

theorem recSim_default : RecSim (defaultsD (α := α)) ({} : Rec α) := by
  simp [RecSim, defaultsD, dictGet?, beq_str, embV, embO, embP]

/-- `d[b] = value` for an option other than `prior` is the model's `setOpt` -/
theorem recSim_set_other (mk' : OptVal α → Option (Prior α)) (d : List (FV α × FV α)) (r r' : Rec α) (a b : String)
    (v : OptVal α) (h : RecSim d r) (hb : b ≠ "prior") (hs : setOpt mk' ⟨a, b, v⟩ r = some r') :
    RecSim (dictSet d (.str b) (embV v)) r' := by
  obtain ⟨h1, h2, h3, h4, h5⟩ := h
  unfold setOpt classify at hs
  simp only [hb, if_false] at hs
  by_cases c1 : b = "fit"
  · subst c1; simp at hs; subst hs
    simp [RecSim, dictGet_set_str, h2, h3, h4, h5]
  by_cases c2 : b = "bounds"
  · subst c2; simp at hs; subst hs
    simp [RecSim, dictGet_set_str, h1, h3, h4, h5, embO]
  by_cases c3 : b = "mode"
  · subst c3; simp at hs; subst hs
    simp [RecSim, dictGet_set_str, h1, h2, h4, h5, embO]
  by_cases c4 : b = "factor"
  · subst c4; simp at hs; subst hs
    simp [RecSim, dictGet_set_str, h1, h2, h3, h5, embO]
  simp [c1, c2, c3, c4] at hs; subst hs
  have e1 : ¬ b = "fit" := c1
  simp [RecSim, dictGet_set_str, h1, h2, h3, h4, h5, c1, c2, c3, c4, hb]

theorem setOpt_prior (mk' : OptVal α → Option (Prior α)) (r : Rec α) (a : String) (v : OptVal α) :
    setOpt mk' ⟨a, "prior", v⟩ r = (mk' v).map (fun p => { r with prior := some p }) := by
  simp [setOpt, classify]

theorem setOpt_other_isSome (mk' : OptVal α → Option (Prior α)) (r : Rec α) (a b : String) (v : OptVal α)
    (hb : b ≠ "prior") : ∃ r', setOpt mk' ⟨a, b, v⟩ r = some r' := by
  unfold setOpt classify
  by_cases c1 : b = "fit"
  · simp [c1]
  by_cases c2 : b = "bounds"
  · simp [c2]
  by_cases c3 : b = "mode"
  · simp [c3]
  by_cases c4 : b = "factor"
  · simp [c4]
  simp [c1, c2, c3, c4, hb]

theorem recSim_set_prior (d : List (FV α × FV α)) (r : Rec α) (p : Prior α) (h : RecSim d r) :
    RecSim (dictSet d (.str "prior") (.obj (.prior p))) { r with prior := some p } := by
  obtain ⟨h1, h2, h3, h4, h5⟩ := h
  simp [RecSim, dictGet_set_str, h1, h2, h3, h4, embP]

end

/-! ## the dict of records against the model's association list -/

section
variable {α : Type} [LT α] [DecidableLT α] [OfNat α 0] [BEq (FObj α)]

/-- `fitting_params` (a dict name -> dict) against the model's `List (String × Rec α)`: same names in the same order,
    records related by `RecSim` -/
def GrpSim : List (FV α × FV α) → List (String × Rec α) → Prop
  | [], [] => True
  | e :: D, g :: grp => e.1 = .str g.1 ∧ (∃ d, e.2 = .dict d ∧ RecSim d g.2) ∧ GrpSim D grp
  | _, _ => False

theorem grpSim_has : ∀ (D : List (FV α × FV α)) (grp : List (String × Rec α)), GrpSim D grp →
    ∀ a : String, dictHas D (.str a) = (getRec grp a).isSome
  | [], [], _, a => by simp [dictHas, getRec]
  | [], _ :: _, h, _ => by simp [GrpSim] at h
  | _ :: _, [], h, _ => by simp [GrpSim] at h
  | (k, w) :: D, (n, r) :: grp, h, a => by
    obtain ⟨hk, _, ht⟩ := h
    simp only at hk; subst hk
    have ih := grpSim_has D grp ht a
    unfold dictHas at ih ⊢
    by_cases hn : n = a
    · simp [getRec, beq_str, hn]
    · simp [getRec, beq_str, hn, ih]

theorem grpSim_get : ∀ (D : List (FV α × FV α)) (grp : List (String × Rec α)), GrpSim D grp →
    ∀ (a : String) (r : Rec α), getRec grp a = some r → ∃ d, dictGet? D (.str a) = some (.dict d) ∧ RecSim d r
  | [], [], _, a, r => by simp [getRec]
  | [], _ :: _, h, _, _ => by simp [GrpSim] at h
  | _ :: _, [], h, _, _ => by simp [GrpSim] at h
  | (k, w) :: D, (n, r0) :: grp, h, a, r => by
    obtain ⟨hk, ⟨d, hw, hr⟩, ht⟩ := h
    simp only at hk hw hr; subst hk; subst hw
    intro hg
    by_cases hn : n = a
    · simp only [getRec, hn, if_true, Option.some.injEq] at hg
      subst hg
      exact ⟨d, by simp [dictGet?, beq_str, hn], hr⟩
    · simp only [getRec, hn, if_false] at hg
      obtain ⟨d', h1, h2⟩ := grpSim_get D grp ht a r hg
      exact ⟨d', by simp [dictGet?, beq_str, hn, h1], h2⟩

theorem grpSim_set : ∀ (D : List (FV α × FV α)) (grp : List (String × Rec α)), GrpSim D grp →
    ∀ (a : String) (d' : List (FV α × FV α)) (r' : Rec α), RecSim d' r' →
      GrpSim (dictSet D (.str a) (.dict d')) (updRec grp a (fun _ => r'))
  | [], [], _, a, d', r', hr => by simp [dictSet, updRec, GrpSim]; exact hr
  | [], _ :: _, h, _, _, _, _ => by simp [GrpSim] at h
  | _ :: _, [], h, _, _, _, _ => by simp [GrpSim] at h
  | (k, w) :: D, (n, r0) :: grp, h, a, d', r', hr => by
    obtain ⟨hk, hd, ht⟩ := h
    simp only at hk hd; subst hk
    by_cases hn : n = a
    · simp only [dictSet, beq_str, hn, updRec, if_true, beq_self_eq_true]
      exact ⟨rfl, ⟨d', rfl, hr⟩, ht⟩
    · have hb : (n == a) = false := by simpa using hn
      simp only [dictSet, beq_str, hb, updRec, hn, if_false, Bool.false_eq_true]
      exact ⟨rfl, hd, grpSim_set D grp ht a d' r' hr⟩

theorem getRec_updRec_self (grp : List (String × Rec α)) (a : String) (r : Rec α) :
    getRec (updRec grp a (fun _ => r)) a = some r := by
  induction grp with
  | nil => simp [updRec, getRec]
  | cons g t ih =>
    obtain ⟨n, r0⟩ := g
    by_cases hn : n = a
    · simp [updRec, getRec, hn]
    · simp [updRec, getRec, hn, ih]

theorem updRec_updRec (grp : List (String × Rec α)) (a : String) (r r' : Rec α) :
    updRec (updRec grp a (fun _ => r)) a (fun _ => r') = updRec grp a (fun _ => r') := by
  induction grp with
  | nil => simp [updRec]
  | cons g t ih =>
    obtain ⟨n, r0⟩ := g
    by_cases hn : n = a
    · simp [updRec, hn]
    · simp [updRec, hn, ih]

end

/-! ## the primitives of the prelude and the oracle as state-preserving computations -/

section
variable {α : Type} [LT α] [DecidableLT α] [OfNat α 0] [Mul α] [Transc α] [BEq (FObj α)]
variable (mk : FV α → Option (Prior α)) (pexc : Exc) (cfg : FV α)

theorem getAttr_raw (s : St String α) :
    Dyn.getAttr (fext mk pexc cfg) (.obj .self) "_raw_config" s = (.ok (.obj .rawConfig), s) := rfl

theorem callMethod_dict (s : St String α) :
    Dyn.callMethod (fext mk pexc cfg) (.obj .rawConfig) "dict" [] [] s = (.ok cfg, s) := rfl

theorem contains_str (d : List (FV α × FV α)) (k : String) (s : St String α) :
    Dyn.contains (fext mk pexc cfg) (.str k) (.dict d) s = (.ok (dictHas d (.str k)), s) := rfl

theorem getItem_str (d : List (FV α × FV α)) (k : String) (v : FV α) (h : dictGet? d (.str k) = some v)
    (s : St String α) : Dyn.getItem (fext mk pexc cfg) (.dict d) (.str k) s = (.ok v, s) := by
  simp [Dyn.getItem, Val.hashable, h]

theorem setItem_str (d : List (FV α × FV α)) (k : String) (v : FV α) (s : St String α) :
    Dyn.setItem (fext mk pexc cfg) (.dict d) (.str k) v s = (.ok (.dict (dictSet d (.str k) v)), s) := rfl

theorem m_items_dict (d : List (FV α × FV α)) (s : St String α) :
    Dyn.m_items (fext mk pexc cfg) (.dict d) s = (.ok (d.map (fun e => .tuple [e.1, e.2])), s) := rfl

theorem unpack2_tuple (a b : FV α) (s : St String α) :
    Dyn.unpack2 (fext mk pexc cfg) (.tuple [a, b]) s = (.ok (a, b), s) := rfl

theorem eqB_str (a b : String) (s : St String α) :
    Dyn.eqB (fext mk pexc cfg) (.str a) (.str b) s = (.ok (a == b), s) := by
  simp [Dyn.eqB, beq_str]

theorem global_create_prior (s : St String α) :
    (fext mk pexc cfg).global "create_prior" s = (.ok (.obj .createPrior), s) := rfl

theorem call_create_prior (v : FV α) (s : St String α) :
    Dyn.call (fext mk pexc cfg) (.obj .createPrior) [v] [] s
      = (match mk v with | some p => .ok (.obj (.prior p)) | none => .error pexc, s) := by
  simp only [Dyn.call, fext]
  cases mk v <;> rfl

/-- `key.split(':')` -/
theorem splitOnC_colon (l : List Char) : Dyn.splitOnC ':' l = splitColon l := by
  induction l with
  | nil => rfl
  | cons c cs ih =>
    simp only [Dyn.splitOnC, splitColon, ih]
    split
    · rfl
    · cases splitColon cs <;> rfl

theorem m_split_colon (k : String) (s : St String α) :
    Dyn.m_split (fext mk pexc cfg) (.str k) (.str ":") s
      = (.ok (.list (((splitColon k.toList).map String.ofList).map .str)), s) := by
  have h : Dyn.strSplit k ":" = (splitColon k.toList).map String.ofList := by
    simp [Dyn.strSplit, splitOnC_colon]
  simp [Dyn.m_split, h]

/-- `fit_param, fit_type = parts` -/
theorem unpack2_parts_ok (a b : String) (s : St String α) :
    Dyn.unpack2 (fext mk pexc cfg) (.list ([a, b].map .str)) s = (.ok (.str a, .str b), s) := rfl

theorem unpack2_parts_err (parts : List String) (h : parts.length ≠ 2) (s : St String α) :
    Dyn.unpack2 (fext mk pexc cfg) (.list (parts.map .str)) s
      = ((.error .ValueError : Except Exc (FV α × FV α)), s) := by
  simp [Dyn.unpack2, Dyn.unpack, Dyn.iter, eff_bind, h]

theorem splitKey_some (k a b : String) (h : splitKey k = some (a, b)) :
    (splitColon k.toList).map String.ofList = [a, b] := by
  unfold splitKey at h
  split at h
  · rename_i x y heq
    simp only [Option.some.injEq, Prod.mk.injEq] at h
    simp [heq, h.1, h.2]
  · simp at h

theorem splitKey_none (k : String) (h : splitKey k = none) : ((splitColon k.toList).map String.ofList).length ≠ 2 := by
  unfold splitKey at h
  split at h
  · simp at h
  · rename_i hne
    intro hl
    rw [List.length_map] at hl
    match hp : splitColon k.toList, hl with
    | [x, y], _ => exact hne x y hp

end

/-! ## `generate_fitting_parameters`: the loop -/

section
variable {α : Type} [LT α] [DecidableLT α] [OfNat α 0] [Mul α] [Transc α] [BEq (FObj α)]

/-- the exception class an outcome of the model stands for (`pexc`: whatever `create_prior` raises) -/
def setupExc (pexc : Exc) : SetupOut → Exc
  | .ok => .Exception
  | .keyError => .KeyError
  | .valueError => .ValueError
  | .priorError => pexc
  | .unsupported => .TypeError

/-- result of the translated `generate_fitting_parameters` (or of a part of its loop) against the model's: a dict related
    to the model's records, or the exception the model's error stands for; the optimizer state is untouched -/
def FitOutcome (pexc : Exc) (s : St String α) (m : Except SetupOut (List (String × Rec α)))
    (R : Except Exc (FV α) × St String α) : Prop :=
  match m with
  | .ok grp => ∃ D, R = (.ok (.dict D), s) ∧ GrpSim D grp
  | .error e => R = (.error (setupExc pexc e), s)

theorem fitOutcome_ok {pexc : Exc} {s : St String α} {m : Except SetupOut (List (String × Rec α))}
    {R : Except Exc (FV α) × St String α} {grp : List (String × Rec α)} (hm : m = .ok grp)
    (h : FitOutcome pexc s m R) : ∃ D, R = (.ok (.dict D), s) ∧ GrpSim D grp := by
  subst hm; exact h

theorem fitOutcome_err {pexc : Exc} {s : St String α} {m : Except SetupOut (List (String × Rec α))}
    {R : Except Exc (FV α) × St String α} {e : SetupOut} (hm : m = .error e)
    (h : FitOutcome pexc s m R) : R = (.error (setupExc pexc e), s) := by
  subst hm; exact h

/-- one line of the `[Fitting]` section in the model -/
def lineStep (mk' : OptVal α → Option (Prior α)) (grp : List (String × Rec α)) (k : String) (v : OptVal α) :
    Except SetupOut (List (String × Rec α)) :=
  match splitKey k with
  | none => .error .valueError
  | some (a, b) =>
    match setOpt mk' ⟨a, b, v⟩ ((getRec grp a).getD {}) with
    | none => .error .priorError
    | some r => .ok (updRec grp a (fun _ => r))

theorem parseFitting_cons (mk' : OptVal α → Option (Prior α)) (k : String) (v : OptVal α)
    (rest : List (String × OptVal α)) (acc : List (String × Rec α)) :
    parseFitting mk' ((k, v) :: rest) acc
      = (match lineStep mk' acc k v with
         | .ok g => parseFitting mk' rest g
         | .error e => .error e) := by
  unfold lineStep
  rw [parseFitting]
  cases hk : splitKey k with
  | none => rfl
  | some ab =>
    obtain ⟨a, b⟩ := ab
    simp only
    cases setOpt mk' ⟨a, b, v⟩ ((getRec acc a).getD {}) <;> rfl

/-- the loop of `generate_fitting_parameters`, for ANY body that does on one line what `lineStep` does -/
theorem forM_parse (mk' : OptVal α → Option (Prior α)) (pexc : Exc) (body : FV α → FV α → FM α (FV α))
    (hb : ∀ (D : List (FV α × FV α)) (grp : List (String × Rec α)) (k : String) (v : OptVal α) (s : St String α),
      GrpSim D grp → FitOutcome pexc s (lineStep mk' grp k v) (body (.dict D) (.tuple [.str k, embV v]) s)) :
    ∀ (fitting : List (String × OptVal α)) (D : List (FV α × FV α)) (grp : List (String × Rec α)) (s : St String α),
      GrpSim D grp →
      FitOutcome pexc s (parseFitting mk' fitting grp)
        (Dyn.forM ((embSec fitting).map (fun e => (.tuple [e.1, e.2] : FV α))) (.dict D) body s)
  | [], D, grp, s, h => by
    simp only [embSec, List.map_nil, Dyn.forM, parseFitting, FitOutcome]
    exact ⟨D, rfl, h⟩
  | (k, v) :: rest, D, grp, s, h => by
    have h1 := hb D grp k v s h
    rw [parseFitting_cons]
    simp only [embSec, List.map_cons, Dyn.forM]
    cases hm : lineStep mk' grp k v with
    | error e =>
      have hr := fitOutcome_err hm h1
      rw [eff_bind, hr]
      exact rfl
    | ok g =>
      obtain ⟨D1, hr, hs1⟩ := fitOutcome_ok hm h1
      rw [eff_bind, hr]
      exact forM_parse mk' pexc body hb rest D1 g s hs1

end

/-! ## `generate_fitting_parameters`: one line -/

section
variable {α : Type} [LT α] [DecidableLT α] [OfNat α 0] [Mul α] [Transc α] [BEq (FObj α)]

theorem dictHas_eq_get (d : List (FV α × FV α)) (k : FV α) : dictHas d k = (dictGet? d k).isSome := by
  induction d with
  | nil => rfl
  | cons e t ih =>
    unfold dictHas at ih ⊢
    by_cases h : Val.beq e.1 k = true
    · simp [dictGet?, h]
    · simp [dictGet?, h, ih]

/-- the section `name` of the input file: present with the lines `sec`, or absent (`sec = []`) -/
def SecAt (c : List (FV α × FV α)) (name : String) (sec : List (String × OptVal α)) : Prop :=
  dictGet? c (.str name) = some (.dict (embSec sec)) ∨ (dictGet? c (.str name) = none ∧ sec = [])

/-- `if name not in d: d[name] = {defaults}` followed by `d[name]`: the record the model continues with -/
theorem grpSim_ensure (D : List (FV α × FV α)) (grp : List (String × Rec α)) (h : GrpSim D grp) (a : String) :
    ∃ d, dictGet? (if (!dictHas D (.str a)) = true then dictSet D (.str a) (.dict defaultsD) else D) (.str a) = some (.dict d) ∧
      RecSim d ((getRec grp a).getD {}) ∧
      ∀ d' r', RecSim d' r' →
        GrpSim (dictSet (if (!dictHas D (.str a)) = true then dictSet D (.str a) (.dict defaultsD) else D) (.str a) (.dict d'))
          (updRec grp a (fun _ => r')) := by
  rw [grpSim_has D grp h a]
  cases hg : getRec grp a with
  | some r =>
    obtain ⟨d, h1, h2⟩ := grpSim_get D grp h a r hg
    simp only [Option.isSome_some, Bool.not_true, Bool.false_eq_true, if_false, Option.getD_some]
    exact ⟨d, h1, h2, fun d' r' hr => grpSim_set D grp h a d' r' hr⟩
  | none =>
    simp only [Option.isSome_none, Bool.not_false, if_true, Option.getD_none]
    have h1 := grpSim_set D grp h a defaultsD {} recSim_default
    obtain ⟨d, h2, h3⟩ := grpSim_get _ _ h1 a {} (getRec_updRec_self grp a {})
    refine ⟨d, h2, h3, fun d' r' hr => ?_⟩
    have := grpSim_set _ _ h1 a d' r' hr
    rwa [updRec_updRec] at this

theorem ite_setItem (mk : FV α → Option (Prior α)) (pexc : Exc) (cfg : FV α) (c : Bool) (D : List (FV α × FV α))
    (a : String) (v : FV α) (s : St String α) :
    (if c = true then Dyn.setItem (fext mk pexc cfg) (.dict D) (.str a) v else pure (.dict D)) s
      = (.ok (.dict (if c = true then dictSet D (.str a) v else D)), s) := by
  cases c <;> rfl

end

/-! ## `generate_derived_parameters` -/

section
variable {α : Type} [LT α] [DecidableLT α] [OfNat α 0] [Mul α] [Transc α] [BEq (FObj α)]

/-- the dict `fitting_params[name]` of the derive records holds under `compute` what the model's record holds -/
def CompSim (d : List (FV α × FV α)) (c : Option (OptVal α)) : Prop := dictGet? d (.str "compute") = some (embO c)

def DSim : List (FV α × FV α) → List (String × Option (OptVal α)) → Prop
  | [], [] => True
  | e :: D, g :: drecs => e.1 = .str g.1 ∧ (∃ d, e.2 = .dict d ∧ CompSim d g.2) ∧ DSim D drecs
  | _, _ => False

/-- `{'compute': None}` -/
def defaultsC : List (FV α × FV α) := [(.str "compute", .none)]

theorem compSim_set (d : List (FV α × FV α)) (c : Option (OptVal α)) (b : String) (v : OptVal α) (h : CompSim d c) :
    CompSim (dictSet d (.str b) (embV v)) (if b = "compute" then some v else c) := by
  unfold CompSim at h ⊢
  rw [dictGet_set_str]
  by_cases hb : b = "compute" <;> simp [hb, h, embO]

/-- one line of the `[Derive]` section: `if name not in d: d[name] = {'compute': None}`, then `d[name][opt] = value` -/
theorem dSim_line : ∀ (D : List (FV α × FV α)) (drecs : List (String × Option (OptVal α))), DSim D drecs →
    ∀ (a b : String) (v : OptVal α),
    ∃ d, dictGet? (if (!dictHas D (.str a)) = true then dictSet D (.str a) (.dict defaultsC) else D) (.str a) = some (.dict d) ∧
      DSim (dictSet (if (!dictHas D (.str a)) = true then dictSet D (.str a) (.dict defaultsC) else D) (.str a)
              (.dict (dictSet d (.str b) (embV v))))
        (updD drecs ⟨a, b, v⟩)
  | [], [], _, a, b, v => by
    refine ⟨defaultsC, by simp [dictHas, dictSet, dictGet?, beq_str], ?_⟩
    simp only [dictHas, List.any_nil, Bool.not_false, if_true, dictSet, beq_str, beq_self_eq_true, updD, DSim, true_and,
      and_true]
    exact ⟨_, rfl, compSim_set defaultsC none b v (by simp [CompSim, defaultsC, dictGet?, beq_str, embO])⟩
  | [], _ :: _, h, _, _, _ => by simp [DSim] at h
  | _ :: _, [], h, _, _, _ => by simp [DSim] at h
  | (k, w) :: D, (n, c) :: drecs, h, a, b, v => by
    obtain ⟨hk, ⟨d, hw, hc⟩, ht⟩ := h
    simp only at hk hw hc; subst hk; subst hw
    by_cases hn : n = a
    · subst hn
      refine ⟨d, by simp [dictHas, dictGet?, beq_str], ?_⟩
      simp only [dictHas, List.any_cons, beq_str, beq_self_eq_true, Bool.true_or, Bool.not_true, Bool.false_eq_true,
        if_false, dictSet, if_true, updD]
      exact ⟨rfl, ⟨_, rfl, compSim_set d c b v hc⟩, ht⟩
    · have hb : (n == a) = false := by simpa using hn
      obtain ⟨d', h1, h2⟩ := dSim_line D drecs ht a b v
      have hh : dictHas ((Val.str n, Val.dict d) :: D) (Val.str a) = dictHas D (.str a) := by
        simp [dictHas, beq_str, hb]
      rw [hh]
      by_cases hd : dictHas D (.str a) = true
      · simp only [hd, Bool.not_true, Bool.false_eq_true, if_false] at h1 h2 ⊢
        refine ⟨d', by simp [dictGet?, beq_str, hb, h1], ?_⟩
        simp only [dictSet, beq_str, hb, Bool.false_eq_true, if_false, updD, hn]
        exact ⟨rfl, ⟨d, rfl, hc⟩, h2⟩
      · have hd' : dictHas D (.str a) = false := by simpa using hd
        simp only [hd', Bool.not_false, if_true] at h1 h2 ⊢
        refine ⟨d', by simp [dictSet, dictGet?, beq_str, hb, h1], ?_⟩
        simp only [dictSet, beq_str, hb, Bool.false_eq_true, if_false, updD, hn]
        exact ⟨rfl, ⟨d, rfl, hc⟩, h2⟩

/-- result of the translated `generate_derived_parameters` against the model's (`none`: a key that does not split) -/
def DOutcome (s : St String α) (m : Option (List (String × Option (OptVal α))))
    (R : Except Exc (FV α) × St String α) : Prop :=
  match m with
  | some dr => ∃ D, R = (.ok (.dict D), s) ∧ DSim D dr
  | none => R = (.error .ValueError, s)

theorem dOutcome_some {s : St String α} {m : Option (List (String × Option (OptVal α)))}
    {R : Except Exc (FV α) × St String α} {dr : List (String × Option (OptVal α))} (hm : m = some dr)
    (h : DOutcome s m R) : ∃ D, R = (.ok (.dict D), s) ∧ DSim D dr := by
  subst hm; exact h

theorem dOutcome_none {s : St String α} {m : Option (List (String × Option (OptVal α)))}
    {R : Except Exc (FV α) × St String α} (hm : m = none) (h : DOutcome s m R) : R = (.error .ValueError, s) := by
  subst hm; exact h

/-- one line of the `[Derive]` section in the model -/
def dlineStep (drecs : List (String × Option (OptVal α))) (k : String) (v : OptVal α) :
    Option (List (String × Option (OptVal α))) :=
  (splitKey k).map (fun ab => updD drecs ⟨ab.1, ab.2, v⟩)

/-- the loop of `generate_derived_parameters`, for ANY body that does on one line what `dlineStep` does -/
theorem forM_derive (body : FV α → FV α → FM α (FV α))
    (hb : ∀ (D : List (FV α × FV α)) (drecs : List (String × Option (OptVal α))) (k : String) (v : OptVal α)
      (s : St String α), DSim D drecs → DOutcome s (dlineStep drecs k v) (body (.dict D) (.tuple [.str k, embV v]) s)) :
    ∀ (derive : List (String × OptVal α)) (D : List (FV α × FV α)) (drecs : List (String × Option (OptVal α)))
      (s : St String α), DSim D drecs →
      DOutcome s ((splitAll derive).map (fun dl => deriveRecs dl drecs))
        (Dyn.forM ((embSec derive).map (fun e => (.tuple [e.1, e.2] : FV α))) (.dict D) body s)
  | [], D, drecs, s, h => by
    simp only [embSec, List.map_nil, Dyn.forM, splitAll, Option.map_some, deriveRecs, DOutcome]
    exact ⟨D, rfl, h⟩
  | (k, v) :: rest, D, drecs, s, h => by
    have h1 := hb D drecs k v s h
    simp only [embSec, List.map_cons, Dyn.forM]
    cases hk : splitKey k with
    | none =>
      have hr := dOutcome_none (by simp [dlineStep, hk]) h1
      rw [eff_bind, hr]
      simp [splitAll, hk, DOutcome]
    | some ab =>
      obtain ⟨a, b⟩ := ab
      obtain ⟨D1, hr, hs1⟩ := dOutcome_some (by simp [dlineStep, hk]; rfl) h1
      rw [eff_bind, hr]
      dsimp only
      have ih := forM_derive body hb rest D1 _ s hs1
      cases hsr : splitAll rest with
      | none =>
        have := dOutcome_none (by simp [hsr]) ih
        simp only [embSec] at this
        rw [this]
        simp [splitAll, hk, hsr, DOutcome]
      | some ls =>
        obtain ⟨D2, h2, hs2⟩ := dOutcome_some (by simp [hsr]; rfl) ih
        simp only [embSec] at h2
        rw [h2]
        simp only [splitAll, hk, hsr, Option.map_some, deriveRecs, DOutcome]
        exact ⟨D2, rfl, hs2⟩

end

/-! ## `setup_optimizer`: sequences of optimizer calls against `runStop` -/

section
variable {α : Type} [LT α] [DecidableLT α] [OfNat α 0] [Mul α] [Transc α] [BEq (FObj α)]

/-- how an outcome of `setup_optimizer` is raised -/
def resU (pexc : Exc) : SetupOut → Except Exc Unit
  | .ok => .ok ()
  | .keyError => .error .KeyError
  | .valueError => .error .ValueError
  | .priorError => .error pexc
  | .unsupported => .error .TypeError

/-- a piece of translated code makes exactly the optimizer calls `ops`, stopping at the first that raises -/
def RunSim (pexc : Exc) (x : FM α Unit) (ops : List (Op String α)) : Prop :=
  ∀ s, x s = (resU pexc (runStop s ops).2.1, (runStop s ops).1)

/-- a first block that fails is all that happens -/
theorem runStop_append_err' (l₁ : List (Op String α)) : ∀ (s : St String α) (l₂ : List (Op String α)),
    (runStop s l₁).2.1 ≠ .ok →
    (runStop s (l₁ ++ l₂)).1 = (runStop s l₁).1 ∧ (runStop s (l₁ ++ l₂)).2.1 = (runStop s l₁).2.1 := by
  induction l₁ with
  | nil => intro s l₂ h; simp [runStop] at h
  | cons op ops ih =>
    intro s l₂ h
    cases hr : (step s op).2 with
    | ok =>
      have hs : step s op = ((step s op).1, .ok) := by rw [← hr]
      rw [runStop_cons_ok s _ op ops hs] at h ⊢
      rw [List.cons_append, runStop_cons_ok s _ op (ops ++ l₂) hs]
      exact ih _ l₂ h
    | keyError =>
      have hs : step s op = ((step s op).1, .keyError) := by rw [← hr]
      rw [List.cons_append, runStop_cons_err s _ op _ _ (by decide) hs, runStop_cons_err s _ op _ _ (by decide) hs]
      exact ⟨rfl, rfl⟩
    | valueError =>
      have hs : step s op = ((step s op).1, .valueError) := by rw [← hr]
      rw [List.cons_append, runStop_cons_err s _ op _ _ (by decide) hs, runStop_cons_err s _ op _ _ (by decide) hs]
      exact ⟨rfl, rfl⟩

theorem runSim_nil (pexc : Exc) : RunSim (α := α) pexc (pure ()) [] := fun _ => rfl

theorem runSim_append (pexc : Exc) (x y : FM α Unit) (a b : List (Op String α)) (hx : RunSim pexc x a)
    (hy : RunSim pexc y b) : RunSim pexc (x >>= fun _ => y) (a ++ b) := by
  intro s
  rw [eff_bind, hx s]
  cases ho : (runStop s a).2.1 with
  | ok =>
    obtain ⟨h1, h2⟩ := runStop_append_ok a s b ho
    rw [h1, h2]
    exact hy _
  | keyError =>
    obtain ⟨h1, h2⟩ := runStop_append_err' a s b (by rw [ho]; decide)
    rw [h1, h2, ho]; rfl
  | valueError =>
    obtain ⟨h1, h2⟩ := runStop_append_err' a s b (by rw [ho]; decide)
    rw [h1, h2, ho]; rfl
  | priorError =>
    obtain ⟨h1, h2⟩ := runStop_append_err' a s b (by rw [ho]; decide)
    rw [h1, h2, ho]; rfl
  | unsupported =>
    obtain ⟨h1, h2⟩ := runStop_append_err' a s b (by rw [ho]; decide)
    rw [h1, h2, ho]; rfl

/-- one method call on the optimizer -/
theorem runSim_call (mk : FV α → Option (Prior α)) (pexc : Exc) (cfg : FV α) (name : String) (args : List (FV α))
    (op : Op String α) (h : decodeOp name args = some op) :
    RunSim pexc (Dyn.callMethod (fext mk pexc cfg) (.obj .optimizer) name args [] >>= fun _ => pure ()) [op] := by
  intro s
  have hc : Dyn.callMethod (fext mk pexc cfg) (.obj .optimizer) name args [] s
      = (outRes (step s op).2, (step s op).1) := by
    show optCall name args s = _
    simp only [optCall, h]
  rw [eff_bind, hc]
  cases hr : (step s op).2 with
  | ok => simp [runStop, hr, outRes, resU]
  | keyError => simp [runStop, hr, outRes, resU, outOf]
  | valueError => simp [runStop, hr, outRes, resU, outOf]

theorem deriveOps_cons (n : String) (c : Option (OptVal α)) (t : List (String × Option (OptVal α))) :
    deriveOps ((n, c) :: t) = deriveOps [(n, c)] ++ deriveOps t := by
  cases c <;> rfl

/-- the first loop of `setup_optimizer`, for ANY body that makes for one parameter the calls `recOps` lists -/
theorem forM_fitOps (pexc : Exc) (body : Unit → FV α → FM α Unit)
    (hb : ∀ (n : String) (r : Rec α) (d : List (FV α × FV α)) (ops : List (Op String α)), RecSim d r →
      recOps n r = some ops → RunSim pexc (body () (.tuple [.str n, .dict d])) ops) :
    ∀ (D : List (FV α × FV α)) (grp : List (String × Rec α)) (fops : List (Op String α)), GrpSim D grp →
      fittingOps grp = some fops →
      RunSim pexc (Dyn.forM (D.map (fun e => (.tuple [e.1, e.2] : FV α))) () body) fops
  | [], [], fops, _, hf => by
    simp only [fittingOps, Option.some.injEq] at hf
    subst hf
    exact runSim_nil pexc
  | [], _ :: _, _, h, _ => by simp [GrpSim] at h
  | _ :: _, [], _, h, _ => by simp [GrpSim] at h
  | (k, w) :: D, (n, r) :: grp, fops, h, hf => by
    obtain ⟨hk, ⟨d, hw, hr⟩, ht⟩ := h
    simp only at hk hw hr; subst hk; subst hw
    simp only [fittingOps] at hf
    cases h1 : recOps n r with
    | none => simp [h1] at hf
    | some a =>
      cases h2 : fittingOps grp with
      | none => simp [h1, h2] at hf
      | some b =>
        simp only [h1, h2, Option.some.injEq] at hf
        subst hf
        simp only [List.map_cons, Dyn.forM]
        exact runSim_append pexc _ _ a b (hb n r d a hr h1) (forM_fitOps pexc body hb D grp b ht h2)

/-- the second loop of `setup_optimizer` -/
theorem forM_deriveOps (pexc : Exc) (body : Unit → FV α → FM α Unit)
    (hb : ∀ (n : String) (c : Option (OptVal α)) (d : List (FV α × FV α)), CompSim d c →
      RunSim pexc (body () (.tuple [.str n, .dict d])) (deriveOps [(n, c)])) :
    ∀ (D : List (FV α × FV α)) (drecs : List (String × Option (OptVal α))), DSim D drecs →
      RunSim pexc (Dyn.forM (D.map (fun e => (.tuple [e.1, e.2] : FV α))) () body) (deriveOps drecs)
  | [], [], _ => runSim_nil pexc
  | [], _ :: _, h => by simp [DSim] at h
  | _ :: _, [], h => by simp [DSim] at h
  | (k, w) :: D, (n, c) :: drecs, h => by
    obtain ⟨hk, ⟨d, hw, hc⟩, ht⟩ := h
    simp only at hk hw hc; subst hk; subst hw
    rw [deriveOps_cons]
    simp only [List.map_cons, Dyn.forM]
    exact runSim_append pexc _ _ _ _ (hb n c d hc) (forM_deriveOps pexc body hb D drecs ht)

/-! ### truthiness, `lower` -/

theorem truthy_embV (mk : FV α → Option (Prior α)) (pexc : Exc) (cfg : FV α) (v : OptVal α) (s : St String α) :
    Dyn.truthy (fext mk pexc cfg) (embV v) s = (.ok (truthy v), s) := by
  cases v with
  | bool b => rfl
  | num x => simp [embV, Dyn.truthy, FittingSection.truthy, FloatLike.isZero]
  | str t =>
    simp only [embV, Dyn.truthy, FittingSection.truthy, eff_pure]
    by_cases h : t = "" <;> simp [h]
  | nums xs => cases xs <;> simp [embV, Dyn.truthy, FittingSection.truthy]
  | strs xs => cases xs <;> simp [embV, Dyn.truthy, FittingSection.truthy]

theorem truthy_embO (mk : FV α → Option (Prior α)) (pexc : Exc) (cfg : FV α) (o : Option (OptVal α))
    (s : St String α) : Dyn.truthy (fext mk pexc cfg) (embO o) s = (.ok (truthyO o), s) := by
  cases o with
  | none => rfl
  | some v => exact truthy_embV mk pexc cfg v s

end

/-! ### `str.lower()` of the prelude is the model's `String.toLower` -/

theorem lowerChar_eq (c : Char) : Dyn.lowerChar c = c.toLower := by
  unfold Dyn.lowerChar Char.toLower
  have h1 : (65 ≤ c.toNat ∧ c.toNat ≤ 90) ↔ (c.val ≥ 'A'.val ∧ c.val ≤ 'Z'.val) := by
    simp only [Char.toNat, ge_iff_le, UInt32.le_iff_toNat_le]
    exact Iff.rfl
  by_cases h : 65 ≤ c.toNat ∧ c.toNat ≤ 90
  · have h' := h1.1 h
    simp only [h, h', and_self, if_true, dite_true]
    apply Char.ext
    have hv : (c.toNat + 32).isValidChar := by
      left; omega
    have h32 : ('a'.val - 'A'.val) = 32 := by decide
    show (Char.ofNat (c.toNat + 32)).val = c.val + ('a'.val - 'A'.val)
    rw [h32]
    have hof : Char.ofNat (c.toNat + 32) = Char.ofNatAux (c.toNat + 32) hv := by simp only [Char.ofNat, hv, dite_true]
    rw [hof]
    apply UInt32.toNat_inj.1
    rw [UInt32.toNat_add]
    have e1 : (Char.ofNatAux (c.toNat + 32) hv).val.toNat = c.toNat + 32 := by
      simp [Char.ofNatAux, UInt32.toNat]
      omega
    have e2 : c.val.toNat = c.toNat := rfl
    have e3 : (32 : UInt32).toNat = 32 := rfl
    rw [e1, e2, e3]
    omega
  · have h' : ¬ (c.val ≥ 'A'.val ∧ c.val ≤ 'Z'.val) := fun x => h (h1.2 x)
    simp only [h, h', if_false, dite_false]

theorem strLower_eq (s : String) : Dyn.strLower s = s.toLower := by
  unfold Dyn.strLower String.toLower
  rw [← String.ofList_toList (s := String.map Char.toLower s), String.toList_map]
  congr 1
  exact List.map_congr_left (fun c _ => lowerChar_eq c)

section
variable {α : Type} [LT α] [DecidableLT α] [OfNat α 0] [Mul α] [Transc α] [BEq (FObj α)]

theorem m_lower_str (mk : FV α → Option (Prior α)) (pexc : Exc) (cfg : FV α) (t : String) (s : St String α) :
    Dyn.m_lower (fext mk pexc cfg) (.str t) s = (.ok (.str t.toLower), s) := by
  simp [Dyn.m_lower, strLower_eq]

/-- how an outcome of `setup_optimizer` is returned / raised -/
def resV (pexc : Exc) : SetupOut → Except Exc (FV α)
  | .ok => .ok .none
  | .keyError => .error .KeyError
  | .valueError => .error .ValueError
  | .priorError => .error pexc
  | .unsupported => .error .TypeError

theorem parseFitting_error (mk' : OptVal α → Option (Prior α)) : ∀ (ents : List (String × OptVal α))
    (acc : List (String × Rec α)) (e : SetupOut), parseFitting mk' ents acc = .error e →
    e = .valueError ∨ e = .priorError
  | [], acc, e, h => by simp [parseFitting] at h
  | (k, v) :: rest, acc, e, h => by
    rw [parseFitting_cons] at h
    unfold lineStep at h
    cases hk : splitKey k with
    | none => simp [hk] at h; exact .inl h.symm
    | some ab =>
      obtain ⟨a, b⟩ := ab
      simp only [hk] at h
      cases hs : setOpt mk' ⟨a, b, v⟩ ((getRec acc a).getD {}) with
      | none => simp [hs] at h; exact .inr h.symm
      | some r =>
        simp only [hs] at h
        exact parseFitting_error mk' rest _ e h

end

/-! ## `setup_optimizer`: the calls for one parameter, stage by stage -/

section
variable {α : Type} [LT α] [DecidableLT α] [OfNat α 0] [Mul α] [Transc α] [BEq (FObj α)]
variable (mk : FV α → Option (Prior α)) (pexc : Exc) (cfg : FV α)

theorem eff_pure_bind {σ β γ : Type} (a : β) (f : β → Eff σ γ) : ((pure a : Eff σ β) >>= f) = f a := rfl

theorem unpack2_fn (a b : FV α) : Dyn.unpack2 (fext mk pexc cfg) (.tuple [a, b]) = pure (a, b) := rfl

theorem getItem_fn (d : List (FV α × FV α)) (k : String) (v : FV α) (h : dictGet? d (.str k) = some v) :
    Dyn.getItem (fext mk pexc cfg) (.dict d) (.str k) = pure v := by
  funext s; exact getItem_str mk pexc cfg d k v h s

theorem truthy_embV_fn (v : OptVal α) : Dyn.truthy (fext mk pexc cfg) (embV v) = pure (FittingSection.truthy v) := by
  funext s; exact truthy_embV mk pexc cfg v s

theorem truthy_embO_fn (o : Option (OptVal α)) : Dyn.truthy (fext mk pexc cfg) (embO o) = pure (truthyO o) := by
  funext s; exact truthy_embO mk pexc cfg o s

theorem m_lower_fn (t : String) : Dyn.m_lower (fext mk pexc cfg) (.str t) = pure (.str t.toLower) := by
  funext s; exact m_lower_str mk pexc cfg t s

/-- `if fit: optimizer.enable_fit(key) else: optimizer.disable_fit(key)` -/
theorem stage_fit (n : String) (r : Rec α) :
    RunSim pexc
      (if FittingSection.truthy r.fit = true then
         (Dyn.callMethod (fext mk pexc cfg) (.obj .optimizer) "enable_fit" [.str n] [] >>= fun _ => pure ())
       else (Dyn.callMethod (fext mk pexc cfg) (.obj .optimizer) "disable_fit" [.str n] [] >>= fun _ => pure ()))
      (fitOps n r) := by
  unfold fitOps
  cases FittingSection.truthy r.fit
  · exact runSim_call mk pexc cfg _ _ _ (by simp [decodeOp])
  · exact runSim_call mk pexc cfg _ _ _ (by simp [decodeOp])

theorem pairOpt_cases (o : Option (OptVal α)) (h : (pairOpt o).isBad = false) :
    (truthyO o = false ∧ pairOpt o = .skip) ∨ (∃ a b, o = some (.nums [a, b]) ∧ truthyO o = true ∧ pairOpt o = .pair a b) := by
  cases o with
  | none => exact .inl ⟨rfl, rfl⟩
  | some v =>
    by_cases ht : FittingSection.truthy v = true
    · right
      unfold pairOpt at h ⊢
      simp only [ht, if_true] at h ⊢
      cases v with
      | nums xs =>
        match xs, h with
        | [a, b], _ => exact ⟨a, b, rfl, ht, rfl⟩
        | [], h => simp [PairOpt.isBad] at h
        | [_], h => simp [PairOpt.isBad] at h
        | _ :: _ :: _ :: _, h => simp [PairOpt.isBad] at h
      | bool _ => simp [PairOpt.isBad] at h
      | num _ => simp [PairOpt.isBad] at h
      | str _ => simp [PairOpt.isBad] at h
      | strs _ => simp [PairOpt.isBad] at h
    · left
      have ht' : FittingSection.truthy v = false := by simpa using ht
      exact ⟨ht', by simp [pairOpt, ht']⟩

/-- `if factor: optimizer.set_factor_boundary(key, factor)` -/
theorem stage_factor (n : String) (o : Option (OptVal α)) (h : (pairOpt o).isBad = false) :
    RunSim pexc
      (if truthyO o = true then
         (Dyn.callMethod (fext mk pexc cfg) (.obj .optimizer) "set_factor_boundary" [.str n, embO o] [] >>= fun _ => pure ())
       else pure ())
      (factorOps n (pairOpt o)) := by
  rcases pairOpt_cases o h with ⟨h1, h2⟩ | ⟨a, b, h0, h1, h2⟩
  · rw [h1, h2]; exact runSim_nil pexc
  · rw [h1, h2]; subst h0
    exact runSim_call mk pexc cfg _ _ _ (by simp [decodeOp, embO, embV])

/-- `if bounds: optimizer.set_boundary(key, bounds)` -/
theorem stage_bounds (n : String) (o : Option (OptVal α)) (h : (pairOpt o).isBad = false) :
    RunSim pexc
      (if truthyO o = true then
         (Dyn.callMethod (fext mk pexc cfg) (.obj .optimizer) "set_boundary" [.str n, embO o] [] >>= fun _ => pure ())
       else pure ())
      (boundsOps n (pairOpt o)) := by
  rcases pairOpt_cases o h with ⟨h1, h2⟩ | ⟨a, b, h0, h1, h2⟩
  · rw [h1, h2]; exact runSim_nil pexc
  · rw [h1, h2]; subst h0
    exact runSim_call mk pexc cfg _ _ _ (by simp [decodeOp, embO, embV])

theorem modeOpt_cases (o : Option (OptVal α)) (h : (modeOpt o).isBad = false) :
    (truthyO o = false ∧ modeOpt o = .skip) ∨ (∃ t, o = some (.str t) ∧ truthyO o = true ∧ modeOpt o = .mode t.toLower) := by
  cases o with
  | none => exact .inl ⟨rfl, rfl⟩
  | some v =>
    by_cases ht : FittingSection.truthy v = true
    · right
      unfold modeOpt at h ⊢
      simp only [ht, if_true] at h ⊢
      cases v with
      | str t => exact ⟨t, rfl, ht, rfl⟩
      | bool _ => simp [ModeOpt.isBad] at h
      | num _ => simp [ModeOpt.isBad] at h
      | nums _ => simp [ModeOpt.isBad] at h
      | strs _ => simp [ModeOpt.isBad] at h
    · left
      have ht' : FittingSection.truthy v = false := by simpa using ht
      exact ⟨ht', by simp [modeOpt, ht']⟩

/-- `if mode: optimizer.set_mode(key, mode.lower())` -/
theorem stage_mode (n : String) (o : Option (OptVal α)) (h : (modeOpt o).isBad = false) :
    RunSim pexc
      (if truthyO o = true then
         (Dyn.m_lower (fext mk pexc cfg) (embO o) >>= fun t =>
           Dyn.callMethod (fext mk pexc cfg) (.obj .optimizer) "set_mode" [.str n, t] [] >>= fun _ => pure ())
       else pure ())
      (modeOps n (modeOpt o)) := by
  rcases modeOpt_cases o h with ⟨h1, h2⟩ | ⟨t, h0, h1, h2⟩
  · rw [h1, h2]; exact runSim_nil pexc
  · rw [h1, h2]; subst h0
    simp only [embO, embV, m_lower_fn, eff_pure_bind, if_true]
    exact runSim_call mk pexc cfg _ _ _ (by simp [decodeOp])

/-- `if prior is not None: optimizer.set_prior(key, prior)` -/
theorem stage_prior (n : String) (p : Option (Prior α)) :
    RunSim pexc
      (if (!(embP p : FV α).isNone) = true then
         (Dyn.callMethod (fext mk pexc cfg) (.obj .optimizer) "set_prior" [.str n, embP p] [] >>= fun _ => pure ())
       else pure ())
      (priorOps n p) := by
  cases p with
  | none => exact runSim_nil pexc
  | some q => exact runSim_call mk pexc cfg _ _ _ (by simp [decodeOp, embP])

theorem recOps_not_bad (n : String) (r : Rec α) (ops : List (Op String α)) (h : recOps n r = some ops) :
    (pairOpt r.factor).isBad = false ∧ (pairOpt r.bounds).isBad = false ∧ (modeOpt r.mode).isBad = false := by
  unfold recOps at h
  split at h
  · cases h
  · rename_i hb
    simp only [Bool.or_eq_true, not_or, Bool.not_eq_true] at hb
    exact ⟨hb.1.1, hb.1.2, hb.2⟩

/-- the `[Derive]` loop body: `if compute is not None: (enable_derived if compute else disable_derived)(key)` -/
theorem stage_derive (n : String) (c : Option (OptVal α)) :
    RunSim pexc
      (if (!(embO c : FV α).isNone) = true then
         (Dyn.truthy (fext mk pexc cfg) (embO c) >>= fun t =>
           if t = true then
             (Dyn.callMethod (fext mk pexc cfg) (.obj .optimizer) "enable_derived" [.str n] [] >>= fun _ => pure ())
           else (Dyn.callMethod (fext mk pexc cfg) (.obj .optimizer) "disable_derived" [.str n] [] >>= fun _ => pure ()))
       else pure ())
      (deriveOps [(n, c)]) := by
  cases c with
  | none => exact runSim_nil pexc
  | some v =>
    have hn : (embO (some v) : FV α).isNone = false := by cases v <;> rfl
    simp only [hn, Bool.not_false, if_true, truthy_embO_fn, eff_pure_bind, truthyO, deriveOps]
    cases FittingSection.truthy v
    · exact runSim_call mk pexc cfg _ _ _ (by simp [decodeOp])
    · exact runSim_call mk pexc cfg _ _ _ (by simp [decodeOp])

end

/-! ## the state `setup_optimizer` leaves is reached by a history of optimizer calls -/

section
variable {α : Type} [LT α] [DecidableLT α] [OfNat α 0] [Mul α] [Transc α]

theorem runStop_run : ∀ (ops : List (Op String α)) (s : St String α), (runStop s ops).1 = run s (runStop s ops).2.2
  | [], s => rfl
  | op :: ops, s => by
    cases hr : (step s op).2 with
    | ok =>
      have hs : step s op = ((step s op).1, .ok) := by rw [← hr]
      rw [runStop_cons_ok s _ op ops hs]
      simp only [run]
      exact runStop_run ops _
    | keyError =>
      have hs : step s op = ((step s op).1, .keyError) := by rw [← hr]
      rw [runStop_cons_err s _ op ops _ (by decide) hs]
      rfl
    | valueError =>
      have hs : step s op = ((step s op).1, .valueError) := by rw [← hr]
      rw [runStop_cons_err s _ op ops _ (by decide) hs]
      rfl

/-- the state after `setup_optimizer` is the state after the calls it made -/
theorem setup_run (mk' : OptVal α → Option (Prior α)) (s : St String α) (fitting derive : List (String × OptVal α)) :
    (setupOptimizer mk' s fitting derive).1 = run s (setupOptimizer mk' s fitting derive).2.2 := by
  unfold setupOptimizer
  cases parseFitting mk' fitting [] with
  | error e => rfl
  | ok grp =>
    simp only
    cases fittingOps grp with
    | none => rfl
    | some fops =>
      simp only
      cases ho : (runStop s fops).2.1 with
      | ok =>
        simp only
        cases splitAll derive with
        | none => exact runStop_run fops s
        | some dl =>
          simp only
          rw [run_append, ← runStop_run fops s]
          exact runStop_run _ _
      | keyError => exact runStop_run fops s
      | valueError => exact runStop_run fops s
      | priorError => exact runStop_run fops s
      | unsupported => exact runStop_run fops s

theorem resV_ok_iff (pexc : Exc) (o : SetupOut) :
    (resV (α := α) pexc o = .ok .none) ↔ o = .ok := by
  cases o <;> simp [resV]

theorem resV_error (pexc : Exc) (o : SetupOut) (h : o ≠ .ok) : ∃ e, resV (α := α) pexc o = .error e := by
  cases o with
  | ok => exact absurd rfl h
  | keyError => exact ⟨_, rfl⟩
  | valueError => exact ⟨_, rfl⟩
  | priorError => exact ⟨_, rfl⟩
  | unsupported => exact ⟨_, rfl⟩

end

end Taurex.C07Src
