/-
  C13 source tie over ℝ: on a strictly increasing native grid the second `np.array_equal` test of `Opacity.opacity` (on the
  bracketing index range) agrees with the first one (on the native points inside the requested range), which is what the
  model `Grid.opacityOnGrid` assumes by re-using the outcome of the first test.
-/
import Mathlib.Tactic.Linarith
import Proofs.RealInst
import Proofs.C13Lemmas
import Proofs.C05Window
import Proofs.C13SrcNp

namespace Taurex.C13Src
open Taurex.Grid Taurex.C13L

theorem filter_eq_self_of {β : Type} (p : β → Bool) (l : List β) (h : ∀ x ∈ l, p x = true) : l.filter p = l :=
  List.filter_eq_self.2 h

theorem filter_eq_nil_of {β : Type} (p : β → Bool) (l : List β) (h : ∀ x ∈ l, p x = false) : l.filter p = [] := by
  rw [List.filter_eq_nil_iff]; intro x hx; simp [h x hx]

/-- strictly increasing native grid, non-empty request: if the bracketing range equals the request then so do the native
    points inside the requested range -/
theorem second_test_agrees (W req : List ℝ) (hs : W.Pairwise (· < ·)) (hreq : req ≠ []) :
    eqL (W.filter (inRange req)) req = false → bracketEq W req = false := by
  intro h1
  by_contra h2
  have h2' : bracketEq W req = true := by simpa using h2
  simp only [bracketEq] at h2'
  rw [eqL_iff] at h2'
  have hne : eqL (W.filter (inRange req)) req = true := by
    rw [eqL_iff]
    -- abbreviations
    generalize hcR : Interp.searchRight W (minL req) = cR at h2'
    generalize hcL : Interp.searchLeft W (maxL req) = cL at h2'
    have hk : 0 < (min cL (W.length - 1) + 1 - (cR - 1)) := by
      rcases Nat.eq_zero_or_pos (min cL (W.length - 1) + 1 - (cR - 1)) with h0 | h0
      · rw [h0] at h2'; simp at h2'; exact absurd h2' hreq
      · exact h0
    have hlo : cR - 1 < W.length := by
      by_contra hge
      have : W.drop (cR - 1) = [] := List.drop_eq_nil_of_le (by omega)
      rw [this] at h2'; simp at h2'; exact hreq h2'
    -- prefix properties of the two counts
    have hP1 := Binning.countP_prefix (· < ·) (fun a => decide (a ≤ minL req))
      (fun x y hxy hy => by simp only [decide_eq_true_eq] at hy ⊢; linarith) W hs
    have hP2 := Binning.countP_prefix (· < ·) (fun a => decide (a < maxL req))
      (fun x y hxy hy => by simp only [decide_eq_true_eq] at hy ⊢; linarith) W hs
    have hcR' : W.countP (fun a => decide (a ≤ minL req)) = cR := hcR
    have hcL' : W.countP (fun a => decide (a < maxL req)) = cL := hcL
    rw [hcR'] at hP1
    rw [hcL'] at hP2
    -- decomposition of the grid around the bracketing range
    have hsplit : W = W.take (cR - 1) ++ (req ++ W.drop (cR - 1 + (min cL (W.length - 1) + 1 - (cR - 1)))) := by
      conv => lhs; rw [← List.take_append_drop (cR - 1) W]
      congr 1
      conv => lhs; rw [← List.take_append_drop (min cL (W.length - 1) + 1 - (cR - 1)) (W.drop (cR - 1))]
      rw [h2', List.drop_drop]
    have hend : cR - 1 + (min cL (W.length - 1) + 1 - (cR - 1)) = min cL (W.length - 1) + 1 := by omega
    rw [hend] at hsplit
    have hin : ∀ x ∈ req, inRange req x = true := by
      intro x hx
      simp only [inRange, Bool.and_eq_true, decide_eq_true_eq]
      exact ⟨minL_le req x hx, maxL_ge req x hx⟩
    -- pairwise across a split point
    have hacross : ∀ j, ∀ a ∈ W.take j, ∀ b ∈ W.drop j, a < b := by
      intro j
      have := hs
      rw [← List.take_append_drop j W, List.pairwise_append] at this
      exact this.2.2
    have hA : ∀ x ∈ W.take (cR - 1), inRange req x = false := by
      intro x hx
      have hy : W[cR - 1] ∈ W.drop (cR - 1) :=
        List.mem_drop_iff_getElem.2 ⟨0, by simpa using hlo, by simp⟩
      have hxy := hacross (cR - 1) x hx _ hy
      have hcpos : 0 < cR := by
        rcases Nat.eq_zero_or_pos cR with h0 | h0
        · subst h0; simp at hx
        · exact h0
      have hy2 : W[cR - 1] ∈ W.take cR := by
        rw [List.mem_take_iff_getElem]
        exact ⟨cR - 1, by omega, rfl⟩
      have := hP1.1 _ hy2
      simp only [decide_eq_true_eq] at this
      simp only [inRange, Bool.and_eq_false_iff, decide_eq_false_iff_not, not_le]
      left; linarith
    have hC : ∀ x ∈ W.drop (min cL (W.length - 1) + 1), inRange req x = false := by
      intro x hx
      by_cases hc : cL ≤ W.length - 1
      · have hmin : min cL (W.length - 1) = cL := Nat.min_eq_left hc
        rw [hmin] at hx
        have hlt : cL < W.length := by omega
        have hy : W[cL] ∈ W.take (cL + 1) := by
          rw [List.mem_take_iff_getElem]
          exact ⟨cL, by omega, rfl⟩
        have hxy := hacross (cL + 1) _ hy x hx
        have hy2 : W[cL] ∈ W.drop cL :=
          List.mem_drop_iff_getElem.2 ⟨0, by simpa using hlt, by simp⟩
        have := hP2.2 _ hy2
        simp only [decide_eq_false_iff_not, not_lt] at this
        simp only [inRange, Bool.and_eq_false_iff, decide_eq_false_iff_not, not_le]
        right; linarith
      · have : W.drop (min cL (W.length - 1) + 1) = [] := List.drop_eq_nil_of_le (by omega)
        rw [this] at hx; simp at hx
    conv => lhs; rw [hsplit]
    rw [List.filter_append, List.filter_append, filter_eq_nil_of _ _ hA, filter_eq_self_of _ _ hin,
      filter_eq_nil_of _ _ hC]
    simp
  rw [hne] at h1
  exact Bool.noConfusion h1

end Taurex.C13Src
