/-
  Helper lemmas for Props/C14Src.lean (source tie of the CIA readers): the `Py` list primitives against the list helpers
  of TaurexModel/Loaders.lean (`lmin`, `lmax`, `memv`, `sortTs`).  Core only; generic in the carrier.
-/
import TaurexModel.Gen.SrcC14
import TaurexModel.Loaders
import TaurexModel.CacheSM
import TaurexModel.Sanitize
set_option linter.unusedSectionVars false

namespace Taurex.C14Src
open Taurex.Loaders Taurex.Interp Taurex.Gen

section
variable {α : Type} [Add α] [Sub α] [Mul α] [Div α] [Neg α] [LT α] [LE α] [DecidableLT α] [DecidableLE α] [OfNat α 0]

/-- `max(l)` of a non-empty list is the model's `lmax` -/
theorem maxE_eq (l : List α) (h : l ≠ []) : Py.maxE l = .ok (lmax l) := by
  cases l with
  | nil => exact absurd rfl h
  | cons a t => simp [Py.maxE, lmax, List.foldl_cons]

/-- `min(l)` of a non-empty list is the model's `lmin` -/
theorem minE_eq (l : List α) (h : l ≠ []) : Py.minE l = .ok (lmin l) := by
  cases l with
  | nil => exact absurd rfl h
  | cons a t => simp [Py.minE, lmin, List.foldl_cons]

theorem any_eq_memv (l : List α) (t : α) :
    List.any l (fun y => (decide (t ≤ y) && decide (y ≤ t))) = memv t l := rfl

/-- Python's stable sort by the first component with `<` is the model's `sortTs` (merge sort with `≤`) when
    `¬ b < a ↔ a ≤ b` on the carrier (any linear order; `Float` without NaN) -/
theorem sortOn_eq_sortTs (hlt : ∀ a b : α, ¬ b < a ↔ a ≤ b) (ts : List (α × List α)) :
    Py.sortOn (fun a b => decide (a < b)) (fun (e : α × List α) => e.1) ts = sortTs ts := by
  unfold Py.sortOn sortTs
  congr 1
  funext a b
  by_cases h : b.1 < a.1
  · have : ¬ a.1 ≤ b.1 := fun h' => ((hlt a.1 b.1).2 h') h
    simp [h, this]
  · have : a.1 ≤ b.1 := (hlt a.1 b.1).1 h
    simp [h, this]

theorem getD_map_fst (ts : List (α × List α)) (i : Nat) : (ts.map (·.1)).getD i 0 = (ts.getD i (0, [])).1 := by
  simp only [List.getD_eq_getElem?_getD, List.getElem?_map]
  cases ts[i]? <;> rfl

theorem getD_map_snd (ts : List (α × List α)) (i : Nat) : (ts.map (·.2)).getD i [] = (ts.getD i (0, [])).2 := by
  simp only [List.getD_eq_getElem?_getD, List.getElem?_map]
  cases ts[i]? <;> rfl

theorem getD_zero_eq_headD {β : Type} (l : List β) (d : β) : l.getD 0 d = l.headD d := by
  cases l <;> rfl

end

end Taurex.C14Src

/-! ### the opacity cache: how a state of `TaurexModel/CacheSM.lean` is laid out as the Python objects -/

namespace Taurex.C14Src
open Taurex.CacheSM Taurex.Gen

/-- the part of the program state only constructors change: the constructor-call log and the next object identity -/
abbrev World := List (String × Nat) × Nat

/-- the argument pack `discover()` yields for a file: the file, the interpolation mode and the in-memory flag read from the
    GlobalCache at discovery time -/
abbrev Args := FileEntry × Nat × Bool

def worldOf (s : CSt) : World := (s.log, s.nextId)

/-- `c.discover()` of the class `c` under the configured path: its files in glob order, each with the molecule name it
    advertises and the constructor arguments -/
def discoverM (fs : List Dir) (_w : World) (path : Option Nat) (interp : Option Nat) (mem : Option Bool) (c : Fmt) :
    List (String × Args) :=
  ((curFiles fs { CacheSM.init with path := path }).filter (fun e => decide (e.fmt = c))).map
    (fun e => (e.disc, (e, interp.getD 0, memOrTrue mem)))

/-- `c(*args)`: the constructor call is logged, the object gets the next identity -/
def constructM (w : World) (_c : Fmt) (a : Args) : World × Obj :=
  ((w.1 ++ [(a.1.disc, a.1.fileId)], w.2 + 1),
   { id := w.2, mol := a.1.obj, mode := a.2.1, inMem := if a.1.fmt = Fmt.hdf then some a.2.2 else none,
     src := some a.1.fileId })

/-- `os.path.isdir(path)` -/
def isdirM (fs : List Dir) (_w : World) (p : Nat) : Bool :=
  match fs[p]? with
  | some d => d.isDir
  | none => false

theorem hasKey_eq_dhas (d : List (String × Obj)) (m : String) : hasKey d m = Py.dhas d m := by
  unfold hasKey Py.dhas
  congr 1

theorem lookup_eq_dget (d : List (String × Obj)) (m : String) : lookup d m = Py.dget d m := by
  induction d with
  | nil => rfl
  | cons kv d ih =>
    obtain ⟨k, v⟩ := kv
    by_cases h : k = m
    · simp [lookup, Py.dget, List.find?, h]
    · simp only [lookup, List.find?, Py.dget, h, if_false] at ih ⊢
      have : (k == m) = false := by simpa using h
      simp only [this]
      exact ih

theorem dhas_eq_isSome (d : List (String × Obj)) (m : String) : Py.dhas d m = (Py.dget d m).isSome := by
  induction d with
  | nil => rfl
  | cons kv d ih =>
    obtain ⟨k, v⟩ := kv
    by_cases h : k = m
    · simp [Py.dhas, Py.dget, h]
    · have : Py.dhas ((k, v) :: d) m = Py.dhas d m := by simp [Py.dhas, h]
      rw [this, ih]; simp [Py.dget, h]

theorem dset_new_obj (d : List (String × Obj)) (n : String) (v : Obj) (h : Py.dhas d n = false) :
    Py.dset d n v = d ++ [(n, v)] := by
  induction d with
  | nil => rfl
  | cons kv d ih =>
    obtain ⟨k, w⟩ := kv
    by_cases hk : k = n
    · simp [Py.dhas, hk] at h
    · have h' : Py.dhas d n = false := by simpa [Py.dhas, hk] using h
      simp [Py.dset, hk, ih h']

end Taurex.C14Src

/-! ### the loading loops -/

namespace Taurex.C14Src
open Taurex.CacheSM Taurex.Gen

/-- the Python-side state a loading loop carries: `opacity_dict` and the world -/
def encS (s : CSt) : List (String × Obj) × World := (s.dict, worldOf s)

/-- the GlobalCache settings are those of `s` -/
def Same (s' s : CSt) : Prop := s'.path = s.path ∧ s'.interp = s.interp ∧ s'.memMode = s.memMode

/-- what `discover()` yields for the file `e` under the settings of `s` -/
def argsOf (s : CSt) (e : FileEntry) : String × Args := (e.disc, (e, s.interp.getD 0, memOrTrue s.memMode))

theorem curFiles_path (fs : List Dir) (s : CSt) : curFiles fs { CacheSM.init with path := s.path } = curFiles fs s := rfl

theorem discoverM_eq (fs : List Dir) (w : World) (s : CSt) (c : Fmt) :
    discoverM fs w s.path s.interp s.memMode c
      = ((curFiles fs s).filter (fun e => decide (e.fmt = c))).map (argsOf s) := rfl

theorem addOpacity_same (s s0 : CSt) (o : Obj) (f : Option String) (h : Same s s0) : Same (addOpacity s o f) s0 := by
  unfold addOpacity
  split
  · exact h
  · cases f with
    | none => exact h
    | some f => by_cases hf : (o.mol == f) = true <;> simp only [hf] <;> exact h

theorem loadStep_same (m : String) (s s0 : CSt) (e : FileEntry) (h : Same s s0) : Same (loadStep m s e) s0 := by
  unfold loadStep
  split
  · simp only []
    split
    · exact addOpacity_same _ _ _ _ h
    · exact h
  · exact h

theorem foldl_loadStep_same (m : String) (fl : List FileEntry) : ∀ (s s0 : CSt), Same s s0 → Same (fl.foldl (loadStep m) s) s0 := by
  induction fl with
  | nil => intro s s0 h; exact h
  | cons e fl ih => intro s s0 h; exact ih _ _ (loadStep_same m s s0 e h)

/-- the inner loop (`for mol, args in c.discover()`) over the files of one class -/
theorem inner_loop (m : String) (s : CSt) (G : List (String × Obj) × World → String × Args → List (String × Obj) × World)
    (hG : ∀ (s' : CSt) (e : FileEntry), Same s' s → G (encS s') (argsOf s e) = encS (loadStep m s' e)) :
    ∀ (fl : List FileEntry) (s' : CSt), Same s' s →
      List.foldl G (encS s') (fl.map (argsOf s)) = encS (fl.foldl (loadStep m) s') := by
  intro fl
  induction fl with
  | nil => intro s' _; rfl
  | cons e fl ih =>
    intro s' h
    simp only [List.map_cons, List.foldl_cons, hG s' e h]
    exact ih _ (loadStep_same m s' s e h)

/-- the outer loop (`for c in opacity_klass_list`) -/
theorem outer_loop (fs : List Dir) (m : String) (s : CSt)
    (F : List (String × Obj) × World → Fmt → List (String × Obj) × World)
    (hF : ∀ (s' : CSt) (c : Fmt), Same s' s →
      F (encS s') c = encS (((curFiles fs s).filter (fun e => decide (e.fmt = c))).foldl (loadStep m) s')) :
    ∀ (cs : List Fmt) (s' : CSt), Same s' s →
      List.foldl F (encS s') cs
        = encS ((cs.flatMap (fun c => (curFiles fs s).filter (fun e => decide (e.fmt = c)))).foldl (loadStep m) s') := by
  intro cs
  induction cs with
  | nil => intro s' _; rfl
  | cons c cs ih =>
    intro s' h
    simp only [List.foldl_cons, List.flatMap_cons, List.foldl_append, hF s' c h]
    exact ih _ (foldl_loadStep_same m _ s' s h)

end Taurex.C14Src

/-! ### loops over the grid objects of a HITRAN reader -/

namespace Taurex.C14Src
open Taurex.Gen

section
variable {κ β γ : Type}

/-- a loop that appends `f x` for every element builds `map f` -/
theorem foldl_append_map (f : β → γ) (F : List γ → β → List γ) (hF : ∀ acc x, F acc x = acc ++ [f x]) :
    ∀ (l : List β) (acc : List γ), List.foldl F acc l = acc ++ l.map f := by
  intro l
  induction l with
  | nil => intro acc; simp
  | cons x l ih => intro acc; simp [List.foldl_cons, hF, ih]

theorem setVal_append (pre : List (κ × β)) (kv : κ × β) (post : List (κ × β)) (v : β) :
    Py.setVal (pre ++ kv :: post) pre.length v = pre ++ (kv.1, v) :: post := by
  induction pre with
  | nil => simp [Py.setVal, List.modify_cons]
  | cons a pre ih =>
    simp only [Py.setVal, List.cons_append, List.length_cons, List.modify_cons, Nat.add_one_ne_zero, if_false,
      Nat.add_sub_cancel] at ih ⊢
    rw [ih]

theorem getD_append_length (pre : List (κ × β)) (kv : κ × β) (post : List (κ × β)) (d : κ × β) :
    (pre ++ kv :: post).getD pre.length d = kv := by
  induction pre with
  | nil => rfl
  | cons a pre ih => simp

/-- `for x in D.values(): <mutate x>` where the body turns the object `x` into `f x` (as long as `x` satisfies `P`, e.g. is
    non-empty, so that the body does not raise): every object of the dict is replaced by its image, keys and order stay -/
theorem forE_inplace (dflt : κ × β) (P : β → Prop) (f : β → β)
    (F : List (κ × β) → Nat → List (κ × β) × Option Py.Err)
    (hF : ∀ (st : List (κ × β)) (i : Nat), P (st.getD i dflt).2 → F st i = (Py.setVal st i (f (st.getD i dflt).2), none))
    (d : List (κ × β)) (hP : ∀ kv ∈ d, P kv.2) :
    Py.forE (List.range d.length) d F = (d.map (fun kv => (kv.1, f kv.2)), none) := by
  have key : ∀ (post pre : List (κ × β)), (∀ kv ∈ post, P kv.2) →
      Py.forE (List.range' pre.length post.length) (pre ++ post) F = (pre ++ post.map (fun kv => (kv.1, f kv.2)), none) := by
    intro post
    induction post with
    | nil => intro pre _; simp
    | cons kv post ih =>
      intro pre h
      simp only [List.length_cons, List.range'_succ, Py.forE_cons]
      have hg := getD_append_length pre kv post dflt
      rw [hF (pre ++ kv :: post) pre.length (by rw [hg]; exact h kv (by simp)), hg, setVal_append]
      simp only []
      have := ih (pre ++ [(kv.1, f kv.2)]) (fun kv' hm => h kv' (by simp [hm]))
      simpa [List.append_assoc] using this
  have := key d [] hP
  simpa [List.range_eq_range'] using this

end

end Taurex.C14Src

/-! ### molecule names -/

namespace Taurex.C14Src
open Taurex.Sanitize Taurex.Gen

/-- `pathlib.Path(name).stem` on strings -/
def stemS (s : String) : String := String.ofList (stem s.toList)

theorem splitChars_ne_nil (c : Char) (l : List Char) : Py.splitChars c l ≠ [] := by
  cases l with
  | nil => simp [Py.splitChars]
  | cons a l =>
    unfold Py.splitChars
    by_cases h : a = c
    · simp [h]
    · simp only [h, if_false]
      cases Py.splitChars c l <;> simp

theorem splitChars_head (c : Char) (l : List Char) : (Py.splitChars c l).getD 0 [] = firstPart c l := by
  induction l with
  | nil => rfl
  | cons a l ih =>
    unfold Py.splitChars firstPart
    by_cases h : a = c
    · simp [h]
    · have hne : (a != c) = true := by simpa using h
      simp only [h, if_false, List.takeWhile_cons, hne, if_true]
      cases hs : Py.splitChars c l with
      | nil => exact absurd hs (splitChars_ne_nil c l)
      | cons hd tl =>
        rw [hs] at ih
        simp only [List.getD_cons_zero] at ih ⊢
        rw [ih]; rfl

/-- `s.split(c)[0]` is the model's `firstPart c` -/
theorem split1_head (c : Char) (s : String) : (Py.split1 c s).getD 0 "" = String.ofList (firstPart c s.toList) := by
  unfold Py.split1
  rw [← splitChars_head]
  cases hs : Py.splitChars c s.toList with
  | nil => exact absurd hs (splitChars_ne_nil c _)
  | cons hd tl => simp

end Taurex.C14Src
