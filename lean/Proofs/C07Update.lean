/-
  Helper lemmas for Props/C07.lean, part 2: frame and value lemmas for `update_model`, the invariant that ties the
  compiled rows to the parameter tables, unknown names.
-/
import Proofs.C07

namespace Taurex.C07
open Taurex.Priors Taurex.OptimizerSM

section
variable {ν α : Type} [DecidableEq ν]

/-- everything an update must leave alone: the tuples without their values, the derived tables, both prior
    tables and the compiled view -/
def frame (s : St ν α) :=
  (s.model.map shape, s.obs.map shape, s.dmodel, s.dobs, s.userPriors, s.fitPriors, s.compiled, s.compiledPriors,
   s.derivedCompiled)

theorem frame_setValue (s : St ν α) (o : Owner) (n : ν) (x : α) : frame (setValue s o n x) = frame s := by
  cases o <;> simp [frame, setValue, setTable, table, shape_modify_value]

theorem table_setValue_same (s : St ν α) (o : Owner) (n : ν) (x : α) :
    table (setValue s o n x) o = modifyParam (table s o) n (fun p => { p with value := x }) := by
  cases o <;> rfl

theorem table_setValue_other (s : St ν α) (o o' : Owner) (n : ν) (x : α) (h : o ≠ o') :
    table (setValue s o n x) o' = table s o' := by
  cases o <;> cases o' <;> first | rfl | exact absurd rfl h

theorem names_table_setValue (s : St ν α) (o o' : Owner) (n : ν) (x : α) :
    names (table (setValue s o n x) o') = names (table s o') := by
  by_cases h : o = o'
  · subst h
    rw [table_setValue_same]
    exact names_modifyParam _ _ _ (fun _ => rfl)
  · rw [table_setValue_other s o o' n x h]

theorem getValue_setValue_other (s : St ν α) (o o' : Owner) (n m : ν) (x : α) (h : ¬ (o = o' ∧ n = m)) :
    getValue (setValue s o n x) o' m = getValue s o' m := by
  rw [getValue_eq, getValue_eq]
  by_cases ho : o = o'
  · subst ho
    have hn : n ≠ m := fun e => h ⟨rfl, e⟩
    rw [table_setValue_same]
    exact valueIn_modify_ne _ n m x hn
  · rw [table_setValue_other s o o' n x ho]

theorem getValue_setValue_self (s : St ν α) (o : Owner) (n : ν) (x : α) (h : n ∈ names (table s o)) :
    getValue (setValue s o n x) o n = some x := by
  rw [getValue_eq, table_setValue_same]
  exact valueIn_modify_self _ n x h

/-- writing the stored value back is the identity (names unique in the table) -/
theorem setValue_same (s : St ν α) (o : Owner) (n : ν) (v : α) (hnd : (names (table s o)).Nodup)
    (hv : getValue s o n = some v) : setValue s o n v = s := by
  rw [getValue_eq] at hv
  unfold setValue
  rw [modify_same_value _ n v hnd hv]
  cases o <;> rfl

variable [Transc α]

theorem frame_applyUpdate (es : List (Entry ν α)) :
    ∀ (s : St ν α) (ps : List (Prior α)) (xs : List α), frame (applyUpdate s es ps xs) = frame s := by
  induction es with
  | nil => intro s ps xs; simp [applyUpdate]
  | cons e es ih =>
    intro s ps xs
    cases ps with
    | nil => simp [applyUpdate]
    | cons p ps =>
      cases xs with
      | nil => simp [applyUpdate]
      | cons x xs =>
        simp only [applyUpdate]
        rw [ih, frame_setValue]

theorem names_table_applyUpdate (es : List (Entry ν α)) (o : Owner) :
    ∀ (s : St ν α) (ps : List (Prior α)) (xs : List α),
      names (table (applyUpdate s es ps xs) o) = names (table s o) := by
  induction es with
  | nil => intro s ps xs; simp [applyUpdate]
  | cons e es ih =>
    intro s ps xs
    cases ps with
    | nil => simp [applyUpdate]
    | cons p ps =>
      cases xs with
      | nil => simp [applyUpdate]
      | cons x xs =>
        simp only [applyUpdate]
        rw [ih, names_table_setValue]

/-- a parameter that is not one of the compiled rows keeps its value -/
theorem getValue_applyUpdate_untouched (o : Owner) (n : ν) (es : List (Entry ν α)) :
    ∀ (s : St ν α) (ps : List (Prior α)) (xs : List α), (∀ e ∈ es, ¬ (e.owner = o ∧ e.name = n)) →
      getValue (applyUpdate s es ps xs) o n = getValue s o n := by
  induction es with
  | nil => intro s ps xs _; simp [applyUpdate]
  | cons e es ih =>
    intro s ps xs h
    cases ps with
    | nil => simp [applyUpdate]
    | cons p ps =>
      cases xs with
      | nil => simp [applyUpdate]
      | cons x xs =>
        simp only [applyUpdate]
        rw [ih _ _ _ (fun e' he' => h e' (List.mem_cons_of_mem _ he'))]
        exact getValue_setValue_other s _ _ _ _ _ (h e (by simp))

/-- owner and name of the compiled rows -/
def keys (es : List (Entry ν α)) : List (Owner × ν) := es.map (fun e => (e.owner, e.name))

/-- every compiled row ends up holding the prior-transformed coordinate -/
theorem getValue_applyUpdate_set (es : List (Entry ν α)) :
    ∀ (s : St ν α) (ps : List (Prior α)) (xs : List α), (keys es).Nodup →
      (∀ e ∈ es, e.name ∈ names (table s e.owner)) →
      ∀ epx ∈ es.zip (ps.zip xs),
        getValue (applyUpdate s es ps xs) epx.1.owner epx.1.name = some (epx.2.1.back epx.2.2) := by
  induction es with
  | nil => intro s ps xs _ _ epx h; simp at h
  | cons e es ih =>
    intro s ps xs hnd hex epx hmem
    cases ps with
    | nil => simp at hmem
    | cons p ps =>
      cases xs with
      | nil => simp at hmem
      | cons x xs =>
        simp only [keys, List.map_cons, List.nodup_cons] at hnd
        simp only [List.zip_cons_cons, List.mem_cons] at hmem
        simp only [applyUpdate]
        rcases hmem with hmem | hmem
        · subst hmem
          simp only
          rw [getValue_applyUpdate_untouched e.owner e.name es _ _ _ ?_]
          · exact getValue_setValue_self s _ _ _ (hex e (by simp))
          · intro e' he' hk
            apply hnd.1
            simp only [List.mem_map]
            exact ⟨e', he', by rw [hk.1, hk.2]⟩
        · apply ih _ ps xs hnd.2 ?_ epx hmem
          intro e' he'
          rw [names_table_setValue]
          exact hex e' (List.mem_cons_of_mem _ he')

end

section
variable {ν α : Type} [DecidableEq ν] [LT α] [DecidableLT α] [OfNat α 0] [Mul α] [Transc α]

/-! ### the compiled rows always point into the tables -/

/-- rows of one table: distinct names, all present, right owner -/
theorem compileTable_keys (o : Owner) (ps : List (Param ν α)) :
    ∀ (tbl : Table ν α) (r : List (Entry ν α) × List (Prior α) × Table ν α),
      compileTable o ps tbl = some r → (r.1.map (·.name)).Sublist (names ps) := by
  induction ps with
  | nil =>
    intro tbl r h
    simp [compileTable] at h
    subst h; simp [names]
  | cons p ps ih =>
    intro tbl r h
    unfold compileTable at h
    by_cases hf : p.fit = true
    · simp only [hf, if_true] at h
      cases hg : tget tbl p.name with
      | some pr =>
        simp only [hg] at h
        cases hc : compileTable o ps tbl with
        | none => simp [hc] at h
        | some r' =>
          simp [hc] at h
          subst h
          simpa [names, entryOf] using ih tbl r' hc
      | none =>
        simp only [hg] at h
        cases hd : defaultPrior p.mode p.b0 p.b1 with
        | none => simp [hd] at h
        | some pr =>
          simp only [hd] at h
          cases hc : compileTable o ps (tset tbl p.name pr) with
          | none => simp [hc] at h
          | some r' =>
            simp [hc] at h
            subst h
            simpa [names, entryOf] using ih _ r' hc
    · simp only [hf] at h
      have := ih tbl r h
      rw [names_cons]
      exact List.Sublist.cons _ this

/-- invariant: compiled rows and priors have the same length, the rows are distinct and name existing parameters -/
def Inv (s : St ν α) : Prop :=
  s.compiled.length = s.compiledPriors.length ∧ (keys s.compiled).Nodup ∧
  ∀ e ∈ s.compiled, e.name ∈ names (table s e.owner)

theorem keys_nodup_of_table (o : Owner) (es : List (Entry ν α)) (hn : (es.map (·.name)).Nodup) :
    (keys es).Nodup := by
  unfold keys
  have : es.map (·.name) = (es.map (fun e => (e.owner, e.name))).map (·.2) := by
    rw [List.map_map]; rfl
  rw [this] at hn
  exact List.Pairwise.of_map (·.2) (fun a b hab e => hab (by rw [e])) hn

theorem Inv_compile (s : St ν α) (hw : WF s) : Inv (compile s).1 := by
  unfold compile
  simp only
  cases hc : compileTable Owner.model s.model s.userPriors with
  | none => simp [Inv, keys]
  | some r =>
    obtain ⟨es, ps, t⟩ := r
    obtain ⟨hl1, hm1, _⟩ := compileTable_lookup .model s.model s.userPriors (es, ps, t) hw.model hc
    have hs1 := compileTable_keys .model s.model s.userPriors (es, ps, t) hc
    have hk1 : (keys es).Nodup := keys_nodup_of_table .model es (hs1.nodup hw.model)
    simp only at hl1 hm1 hs1 ⊢
    cases hc2 : compileTable Owner.obs s.obs t with
    | none =>
      simp only
      refine ⟨hl1, hk1, ?_⟩
      intro e he
      have := hm1 e he
      simp only [this.2, table]
      exact this.1
    | some r2 =>
      obtain ⟨es2, ps2, t2⟩ := r2
      obtain ⟨hl2, hm2, _⟩ := compileTable_lookup .obs s.obs t (es2, ps2, t2) hw.obs hc2
      have hs2 := compileTable_keys .obs s.obs t (es2, ps2, t2) hc2
      have hk2 : (keys es2).Nodup := keys_nodup_of_table .obs es2 (hs2.nodup hw.obs)
      simp only at hl2 hm2 hs2
      simp only
      refine ⟨by simp [hl1, hl2], ?_, ?_⟩
      · unfold keys at *
        rw [List.map_append]
        apply List.nodup_append.2
        refine ⟨hk1, hk2, ?_⟩
        intro a ha b hb hab
        simp only [List.mem_map] at ha hb
        obtain ⟨e1, he1, rfl⟩ := ha
        obtain ⟨e2, he2, rfl⟩ := hb
        have h1 := (hm1 e1 he1).2
        have h2 := (hm2 e2 he2).2
        simp only [Prod.mk.injEq] at hab
        rw [h1, h2] at hab
        exact absurd hab.1 (by decide)
      · intro e he
        rcases List.mem_append.1 he with he | he
        · have := hm1 e he
          simp only [this.2, table]
          exact this.1
        · have := hm2 e he
          simp only [this.2, table]
          exact this.1

/-- anything that keeps the compiled view and the table names keeps the invariant -/
theorem Inv_of_same {s s' : St ν α} (h : Inv s) (hc : s'.compiled = s.compiled) (hp : s'.compiledPriors = s.compiledPriors)
    (hn : tableNames s' = tableNames s) : Inv s' := by
  obtain ⟨h1, h2, h3⟩ := h
  simp only [tableNames, Prod.mk.injEq] at hn
  refine ⟨by rw [hc, hp]; exact h1, by rw [hc]; exact h2, ?_⟩
  intro e he
  rw [hc] at he
  have := h3 e he
  cases ho : e.owner <;> simp only [ho, table] at this ⊢
  · rw [hn.1]; exact this
  · rw [hn.2]; exact this

theorem compiled_withParam (s : St ν α) (n : ν) (f : Param ν α → Param ν α) :
    (withParam s n f).1.compiled = s.compiled ∧ (withParam s n f).1.compiledPriors = s.compiledPriors := by
  unfold withParam
  simp only
  split
  · cases ownerOf s n <;> simp [setTable]
  · simp

theorem compiled_withDerived (s : St ν α) (n : ν) (c : Bool) :
    (withDerived s n c).1.compiled = s.compiled ∧ (withDerived s n c).1.compiledPriors = s.compiledPriors := by
  unfold withDerived
  simp only
  split
  · simp
  · split <;> simp

theorem compiled_applyUpdate (s : St ν α) (es : List (Entry ν α)) (ps : List (Prior α)) (xs : List α) :
    (applyUpdate s es ps xs).compiled = s.compiled ∧ (applyUpdate s es ps xs).compiledPriors = s.compiledPriors := by
  have := frame_applyUpdate es s ps xs
  simp only [frame, Prod.mk.injEq] at this
  exact ⟨this.2.2.2.2.2.2.1, this.2.2.2.2.2.2.2.1⟩

theorem Inv_step (s : St ν α) (op : Op ν α) (hw : WF s) (h : Inv s) : Inv (step s op).1 := by
  cases op with
  | compile => exact Inv_compile s hw
  | enableFit n => exact Inv_of_same h (compiled_withParam s n _).1 (compiled_withParam s n _).2 (tableNames_step s (.enableFit n))
  | disableFit n => exact Inv_of_same h (compiled_withParam s n _).1 (compiled_withParam s n _).2 (tableNames_step s (.disableFit n))
  | setBoundary n a b => exact Inv_of_same h (compiled_withParam s n _).1 (compiled_withParam s n _).2 (tableNames_step s (.setBoundary n a b))
  | setFactorBoundary n a b => exact Inv_of_same h (compiled_withParam s n _).1 (compiled_withParam s n _).2 (tableNames_step s (.setFactorBoundary n a b))
  | enableDerived n => exact Inv_of_same h (compiled_withDerived s n _).1 (compiled_withDerived s n _).2 (tableNames_step s (.enableDerived n))
  | disableDerived n => exact Inv_of_same h (compiled_withDerived s n _).1 (compiled_withDerived s n _).2 (tableNames_step s (.disableDerived n))
  | setMode n m =>
    refine Inv_of_same h ?_ ?_ (tableNames_step s (.setMode n m))
    · simp only [step]
      split
      · split
        · rfl
        · cases ownerOf s n <;> simp [setTable]
      · rfl
    · simp only [step]
      split
      · split
        · rfl
        · cases ownerOf s n <;> simp [setTable]
      · rfl
  | setPrior n p =>
    refine Inv_of_same h ?_ ?_ (tableNames_step s (.setPrior n p))
    · simp only [step]; split <;> rfl
    · simp only [step]; split <;> rfl
  | updateModel v =>
    refine Inv_of_same h ?_ ?_ (tableNames_step s (.updateModel v))
    · simp only [step, updateModel]
      split
      · rfl
      · exact (compiled_applyUpdate _ _ _ _).1
    · simp only [step, updateModel]
      split
      · rfl
      · exact (compiled_applyUpdate _ _ _ _).2

theorem Inv_run (ops : List (Op ν α)) : ∀ (s : St ν α), WF s → Inv s → Inv (run s ops) := by
  induction ops with
  | nil => intro s _ h; exact h
  | cons op ops ih =>
    intro s hw h
    simp only [run]
    exact ih _ (WF_of_tableNames (tableNames_step s op) hw) (Inv_step s op hw h)

end

/-! ### `fit_names` never raises -/

section
variable {ν α : Type} [DecidableEq ν] [LT α] [DecidableLT α] [OfNat α 0] [Mul α] [Transc α]

/-- every compiled row finds a prior under its name in `_fit_priors` (so `fit_names` cannot raise) -/
def Covered (s : St ν α) : Prop := ∀ e ∈ s.compiled, (tget s.fitPriors e.name).isSome = true

theorem mem_zip_of_mem {β γ : Type} : ∀ (l₁ : List β) (l₂ : List γ), l₁.length = l₂.length → ∀ a ∈ l₁, ∃ b, (a, b) ∈ l₁.zip l₂ := by
  intro l₁
  induction l₁ with
  | nil => intro l₂ _ a ha; simp at ha
  | cons x xs ih =>
    intro l₂ hl a ha
    cases l₂ with
    | nil => simp at hl
    | cons y ys =>
      simp only [List.mem_cons] at ha
      rcases ha with rfl | ha
      · exact ⟨y, by simp⟩
      · obtain ⟨b, hb⟩ := ih ys (by simpa using hl) a ha
        exact ⟨b, by simp [hb]⟩

theorem tget_tset_isSome (t : Table ν α) (n m : ν) (p : Prior α) (h : (tget t m).isSome = true) :
    (tget (tset t n p) m).isSome = true := by
  by_cases e : n = m
  · subst e; rw [tget_tset_self]; rfl
  · rw [tget_tset_ne t n m p e]; exact h

theorem Covered_compile (s : St ν α) (hw : WF s) : Covered (compile s).1 := by
  unfold compile
  simp only
  cases hc : compileTable Owner.model s.model s.userPriors with
  | none => intro e he; simp at he
  | some r =>
    obtain ⟨es, ps, t⟩ := r
    obtain ⟨hl1, hm1, hz1⟩ := compileTable_lookup .model s.model s.userPriors (es, ps, t) hw.model hc
    simp only at hl1 hm1 hz1 ⊢
    cases hc2 : compileTable Owner.obs s.obs t with
    | none =>
      intro e he
      simp only at he ⊢
      obtain ⟨p, hp⟩ := mem_zip_of_mem es ps hl1 e he
      rw [hz1 (e, p) hp]; rfl
    | some r2 =>
      obtain ⟨es2, ps2, t2⟩ := r2
      obtain ⟨hl2, hm2, hz2⟩ := compileTable_lookup .obs s.obs t (es2, ps2, t2) hw.obs hc2
      simp only at hl2 hm2 hz2 ⊢
      intro e he
      simp only at he ⊢
      rcases List.mem_append.1 he with he | he
      · obtain ⟨p, hp⟩ := mem_zip_of_mem es ps hl1 e he
        have hn : e.name ∉ names s.obs := fun ho => hw.disj ho (hm1 e he).1
        rw [compileTable_frame .obs s.obs t (es2, ps2, t2) hc2 e.name hn, hz1 (e, p) hp]; rfl
      · obtain ⟨p, hp⟩ := mem_zip_of_mem es2 ps2 hl2 e he
        rw [hz2 (e, p) hp]; rfl

theorem Covered_of_same {s s' : St ν α} (h : Covered s) (hc : s'.compiled = s.compiled) (hf : s'.fitPriors = s.fitPriors) :
    Covered s' := by
  intro e he
  rw [hc] at he; rw [hf]; exact h e he

theorem fitPriors_withParam (s : St ν α) (n : ν) (f : Param ν α → Param ν α) :
    (withParam s n f).1.fitPriors = s.fitPriors := by
  unfold withParam
  simp only
  split
  · cases ownerOf s n <;> simp [setTable]
  · simp

theorem fitPriors_withDerived (s : St ν α) (n : ν) (c : Bool) : (withDerived s n c).1.fitPriors = s.fitPriors := by
  unfold withDerived
  simp only
  split
  · simp
  · split <;> simp

theorem Covered_step (s : St ν α) (op : Op ν α) (hw : WF s) (h : Covered s) : Covered (step s op).1 := by
  cases op with
  | compile => exact Covered_compile s hw
  | enableFit n => exact Covered_of_same h (compiled_withParam s n _).1 (fitPriors_withParam s n _)
  | disableFit n => exact Covered_of_same h (compiled_withParam s n _).1 (fitPriors_withParam s n _)
  | setBoundary n a b => exact Covered_of_same h (compiled_withParam s n _).1 (fitPriors_withParam s n _)
  | setFactorBoundary n a b => exact Covered_of_same h (compiled_withParam s n _).1 (fitPriors_withParam s n _)
  | enableDerived n => exact Covered_of_same h (compiled_withDerived s n _).1 (fitPriors_withDerived s n _)
  | disableDerived n => exact Covered_of_same h (compiled_withDerived s n _).1 (fitPriors_withDerived s n _)
  | setMode n m =>
    refine Covered_of_same h ?_ ?_
    · simp only [step]
      split
      · split
        · rfl
        · cases ownerOf s n <;> simp [setTable]
      · rfl
    · simp only [step]
      split
      · split
        · rfl
        · cases ownerOf s n <;> simp [setTable]
      · rfl
  | setPrior n p =>
    simp only [step]
    split
    · intro e he
      exact tget_tset_isSome s.fitPriors n e.name p (h e he)
    · exact h
  | updateModel v =>
    refine Covered_of_same h ?_ ?_
    · simp only [step, updateModel]
      split
      · rfl
      · exact (compiled_applyUpdate _ _ _ _).1
    · simp only [step, updateModel]
      split
      · rfl
      · have := frame_applyUpdate s.compiled s s.compiledPriors v
        simp only [frame, Prod.mk.injEq] at this
        exact this.2.2.2.2.2.1

theorem Covered_run (ops : List (Op ν α)) : ∀ (s : St ν α), WF s → Covered s → Covered (run s ops) := by
  induction ops with
  | nil => intro s _ h; exact h
  | cons op ops ih =>
    intro s hw h
    simp only [run]
    exact ih _ (WF_of_tableNames (tableNames_step s op) hw) (Covered_step s op hw h)

theorem fitNamesAux_isSome (t : Table ν α) : ∀ (es : List (Entry ν α)),
    (∀ e ∈ es, (tget t e.name).isSome = true) → (fitNamesAux t es).isSome = true := by
  intro es
  induction es with
  | nil => intro _; rfl
  | cons e es ih =>
    intro h
    have h1 := h e (by simp)
    have h2 := ih (fun e' he' => h e' (by simp [he']))
    cases hg : tget t e.name with
    | none => rw [hg] at h1; cases h1
    | some p =>
      cases hr : fitNamesAux t es with
      | none => rw [hr] at h2; cases h2
      | some r => simp [fitNamesAux, hg, hr]

end

end Taurex.C07
