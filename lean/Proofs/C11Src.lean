/-
  Helper lemmas of Props/C11Src.lean (source tie of C11), generic in the carrier (no Mathlib, no algebra).

  `fold_scale`: ANY index-state loop `foldl step st (range' (k+1) c)` whose body satisfies the four point-wise equations
  of the body of `BasePlanet.calculate_scale_properties` (hypotheses `hdz hz hg hH`; they are discharged by unfolding the
  regenerated loop body in Props/C11Src.lean) computes, entry by entry, what the structural recursion
  `Structure.scaleLoop` of the hand-written model computes on the remaining layers.
-/
import TaurexModel.Structure
set_option linter.unusedSectionVars false

namespace Taurex.C11Src
open Taurex Taurex.Structure

section
variable {α : Type} [Add α] [Sub α] [Mul α] [Div α] [Neg α] [OfNat α 0] [OfNat α 1] [OfNat α 2] [Transc α]

/-- loop state of `calculate_scale_properties`: the arrays `(deltaz, z, g, H)` -/
abbrev St (α : Type) := (Nat → α) × (Nat → α) × (Nat → α) × (Nat → α)

theorem drop_eq_getD_cons (l : List α) (k : Nat) (d : α) (h : k < l.length) :
    l.drop k = l.getD k d :: l.drop (k + 1) := by
  rw [List.drop_eq_getElem_cons h]
  simp [List.getD_eq_getElem?_getD, List.getElem?_eq_getElem h]

theorem scaleLoop_nil (kb gm r z g : α) (ms ps : List α) : scaleLoop kb gm r z g [] ms ps = ([], z) := by
  unfold scaleLoop
  rfl

theorem scaleLoop_cons (kb gm r z g t m p0 p1 : α) (ts ms ps : List α) :
    scaleLoop kb gm r z g (t :: ts) (m :: ms) (p0 :: p1 :: ps)
      = (⟨z, (kb * t) / (m * g), g, (-1) * ((kb * t) / (m * g)) * log (p1 / p0)⟩ ::
          (scaleLoop kb gm r (z + (-1) * ((kb * t) / (m * g)) * log (p1 / p0))
            (gravityAt gm r (z + (-1) * ((kb * t) / (m * g)) * log (p1 / p0))) ts ms (p1 :: ps)).1,
         (scaleLoop kb gm r (z + (-1) * ((kb * t) / (m * g)) * log (p1 / p0))
            (gravityAt gm r (z + (-1) * ((kb * t) / (m * g)) * log (p1 / p0))) ts ms (p1 :: ps)).2) := by
  rw [scaleLoop]

/-- with no layer left the result does not depend on the gravity handed in -/
theorem scaleLoop_nil_g (kb gm r z g g' : α) (ms ps : List α) :
    scaleLoop kb gm r z g [] ms ps = scaleLoop kb gm r z g' [] ms ps := by
  rw [scaleLoop_nil, scaleLoop_nil]

theorem scaleLoop_length (kb gm r : α) : ∀ (ts ms ps : List α) (z g : α) (n : Nat),
    ts.length = n → ms.length = n → ps.length = n + 1 → (scaleLoop kb gm r z g ts ms ps).1.length = n := by
  intro ts
  induction ts with
  | nil => intro ms ps z g n h _ _; rw [scaleLoop_nil]; simpa using h
  | cons t ts ih =>
    intro ms ps z g n h hm hp
    match ms, ps, hm, hp with
    | m :: ms, p0 :: p1 :: ps, hm, hp =>
      rw [scaleLoop_cons]
      simp only [List.length_cons] at h hm hp ⊢
      rw [ih ms (p1 :: ps) _ _ (n - 1) (by omega) (by omega) (by simp only [List.length_cons]; omega)]
      omega
    | [], _, hm, _ => simp at h hm; omega
    | _ :: _, [], _, hp => simp at hp
    | _ :: _, [_], hm, hp => simp at h hp; omega

theorem fold_scale (kb gm r : α) (Tl ml pl : List α) (n : Nat)
    (hT : Tl.length = n) (hm : ml.length = n) (hp : pl.length = n + 1)
    (step : St α → Nat → St α)
    (hdz : ∀ st i, (step st i).1 = fun j => if j = i then
        ((-1 : α) * st.2.2.2 (i - 1)) * log (pl.getD i 0 / pl.getD (i - 1) 0) else st.1 j)
    (hz : ∀ st i, (step st i).2.1 = fun j => if j = i then st.2.1 (i - 1) + (step st i).1 i else st.2.1 j)
    (hg : ∀ st i, (step st i).2.2.1 = if i < n then
        (fun j => if j = i then gravityAt gm r ((step st i).2.1 i) else st.2.2.1 j) else st.2.2.1)
    (hH : ∀ st i, (step st i).2.2.2 = if i < n then
        (fun j => if j = i then (kb * Tl.getD i 0) / (ml.getD i 0 * (step st i).2.2.1 i) else st.2.2.2 j)
        else st.2.2.2) :
    ∀ (c k : Nat) (st : St α), k + c = n →
      (1 ≤ c → st.2.2.2 k = (kb * Tl.getD k 0) / (ml.getD k 0 * st.2.2.1 k)) →
      (∀ j, j ≤ k → ((List.range' (k + 1) c).foldl step st).1 j = st.1 j ∧
                    ((List.range' (k + 1) c).foldl step st).2.1 j = st.2.1 j ∧
                    ((List.range' (k + 1) c).foldl step st).2.2.1 j = st.2.2.1 j ∧
                    ((List.range' (k + 1) c).foldl step st).2.2.2 j = st.2.2.2 j) ∧
      (∀ j, j < c →
          ((List.range' (k + 1) c).foldl step st).2.1 (k + j)
            = ((scaleLoop kb gm r (st.2.1 k) (st.2.2.1 k) (Tl.drop k) (ml.drop k) (pl.drop k)).1.map (·.z)).getD j 0 ∧
          ((List.range' (k + 1) c).foldl step st).2.2.2 (k + j)
            = ((scaleLoop kb gm r (st.2.1 k) (st.2.2.1 k) (Tl.drop k) (ml.drop k) (pl.drop k)).1.map (·.H)).getD j 0 ∧
          ((List.range' (k + 1) c).foldl step st).2.2.1 (k + j)
            = ((scaleLoop kb gm r (st.2.1 k) (st.2.2.1 k) (Tl.drop k) (ml.drop k) (pl.drop k)).1.map (·.g)).getD j 0 ∧
          ((List.range' (k + 1) c).foldl step st).1 (k + j + 1)
            = ((scaleLoop kb gm r (st.2.1 k) (st.2.2.1 k) (Tl.drop k) (ml.drop k) (pl.drop k)).1.map (·.dz)).getD j 0) ∧
      ((List.range' (k + 1) c).foldl step st).2.1 (k + c)
        = (scaleLoop kb gm r (st.2.1 k) (st.2.2.1 k) (Tl.drop k) (ml.drop k) (pl.drop k)).2 := by
  intro c
  induction c with
  | zero =>
    intro k st hk _
    have hk' : k = n := by omega
    subst hk'
    have hTd : Tl.drop k = [] := List.drop_eq_nil_of_le (by omega)
    refine ⟨fun j _ => by simp, fun j hj => by omega, ?_⟩
    rw [hTd, scaleLoop_nil]
    simp
  | succ c ih =>
    intro k st hk hH0
    have hkn : k < n := by omega
    -- one step of the loop
    have hfold : (List.range' (k + 1) (c + 1)).foldl step st
        = (List.range' (k + 1 + 1) c).foldl step (step st (k + 1)) := by
      rw [List.range'_succ, List.foldl_cons]
    -- the entries of the new state
    have e_dz : ∀ j, (step st (k + 1)).1 j = if j = k + 1 then
        ((-1 : α) * st.2.2.2 k) * log (pl.getD (k + 1) 0 / pl.getD k 0) else st.1 j := by
      intro j; rw [hdz]; simp
    have e_z : ∀ j, (step st (k + 1)).2.1 j = if j = k + 1 then
        st.2.1 k + ((-1 : α) * st.2.2.2 k) * log (pl.getD (k + 1) 0 / pl.getD k 0) else st.2.1 j := by
      intro j; rw [hz]; simp [e_dz]
    have hHk := hH0 (by omega)
    -- one step of the model
    have hTd := drop_eq_getD_cons Tl k 0 (by omega)
    have hmd := drop_eq_getD_cons ml k 0 (by omega)
    have hpd := drop_eq_getD_cons pl k 0 (by omega)
    have hpd1 := drop_eq_getD_cons pl (k + 1) 0 (by omega)
    have hmodel := scaleLoop_cons kb gm r (st.2.1 k) (st.2.2.1 k) (Tl.getD k 0) (ml.getD k 0) (pl.getD k 0)
      (pl.getD (k + 1) 0) (Tl.drop (k + 1)) (ml.drop (k + 1)) (pl.drop (k + 1 + 1))
    rw [← hpd1, ← hHk] at hmodel
    -- the state after the step starts the remaining recursion of the model
    have hz1 : (step st (k + 1)).2.1 (k + 1)
        = st.2.1 k + ((-1 : α) * st.2.2.2 k) * log (pl.getD (k + 1) 0 / pl.getD k 0) := by
      rw [e_z]; simp
    have hrest : scaleLoop kb gm r ((step st (k + 1)).2.1 (k + 1)) ((step st (k + 1)).2.2.1 (k + 1))
          (Tl.drop (k + 1)) (ml.drop (k + 1)) (pl.drop (k + 1))
        = scaleLoop kb gm r (st.2.1 k + ((-1 : α) * st.2.2.2 k) * log (pl.getD (k + 1) 0 / pl.getD k 0))
          (gravityAt gm r (st.2.1 k + ((-1 : α) * st.2.2.2 k) * log (pl.getD (k + 1) 0 / pl.getD k 0)))
          (Tl.drop (k + 1)) (ml.drop (k + 1)) (pl.drop (k + 1)) := by
      rw [hz1]
      by_cases hc : c = 0
      · have hTd' : Tl.drop (k + 1) = [] := List.drop_eq_nil_of_le (by omega)
        rw [hTd']
        exact scaleLoop_nil_g _ _ _ _ _ _ _ _
      · have hlt : k + 1 < n := by omega
        have : (step st (k + 1)).2.2.1 (k + 1)
            = gravityAt gm r (st.2.1 k + ((-1 : α) * st.2.2.2 k) * log (pl.getD (k + 1) 0 / pl.getD k 0)) := by
          rw [hg, if_pos hlt]; simp [hz1]
        rw [this]
    have hIH := ih (k + 1) (step st (k + 1)) (by omega) (by
      intro hc1
      have hlt : k + 1 < n := by omega
      rw [hH, if_pos hlt]; simp)
    rw [hrest] at hIH
    obtain ⟨ihF, ihV, ihTop⟩ := hIH
    -- entries at indices ≤ k are not touched by the step
    have s_dz : ∀ j, j ≤ k → (step st (k + 1)).1 j = st.1 j := by
      intro j hj; rw [e_dz, if_neg (by omega)]
    have s_z : ∀ j, j ≤ k → (step st (k + 1)).2.1 j = st.2.1 j := by
      intro j hj; rw [e_z, if_neg (by omega)]
    have s_g : ∀ j, j ≤ k → (step st (k + 1)).2.2.1 j = st.2.2.1 j := by
      intro j hj; rw [hg]; split
      · simp only []; rw [if_neg (by omega)]
      · rfl
    have s_H : ∀ j, j ≤ k → (step st (k + 1)).2.2.2 j = st.2.2.2 j := by
      intro j hj; rw [hH]; split
      · simp only []; rw [if_neg (by omega)]
      · rfl
    rw [hfold, hTd, hmd, hpd, hmodel]
    refine ⟨?_, ?_, ?_⟩
    · intro j hj
      obtain ⟨a, b, c', d⟩ := ihF j (by omega)
      exact ⟨a.trans (s_dz j hj), b.trans (s_z j hj), c'.trans (s_g j hj), d.trans (s_H j hj)⟩
    · intro j hj
      cases j with
      | zero =>
        obtain ⟨a, b, c', d⟩ := ihF k (by omega)
        obtain ⟨a1, _, _, _⟩ := ihF (k + 1) (by omega)
        refine ⟨?_, ?_, ?_, ?_⟩
        · simpa using b.trans (s_z k (by omega))
        · simpa using d.trans (s_H k (by omega))
        · simpa using c'.trans (s_g k (by omega))
        · have : (step st (k + 1)).1 (k + 1)
              = ((-1 : α) * st.2.2.2 k) * log (pl.getD (k + 1) 0 / pl.getD k 0) := by rw [e_dz]; simp
          simpa using a1.trans this
      | succ j =>
        obtain ⟨a, b, c', d⟩ := ihV j (by omega)
        have e1 : k + (j + 1) = k + 1 + j := by omega
        rw [e1]
        refine ⟨?_, ?_, ?_, ?_⟩
        · simpa using a
        · simpa using b
        · simpa using c'
        · simpa using d
    · have e1 : k + (c + 1) = k + 1 + c := by omega
      rw [e1]
      exact ihTop

end

end Taurex.C11Src
