/-
  C13 — the last geometric step for uniformly spaced native grids: the clip (a filter on an interval) of a grid in
  increasing wavenumber is a contiguous sub-range, the bins it drops have their centre outside the interval, and
  a bin of width ≤ W whose centre is more than W away from the target's range cannot overlap a target that sticks
  out of that range by at most W/2.
-/
import Proofs.C13Clip

namespace Taurex.C13L
open Taurex.Binning

/-- the clip predicate on rows: `(native >= L) & (native <= U)` -/
noncomputable def inside (L U : ℝ) (r : Row ℝ) : Bool := decide (L ≤ r.c) && decide (r.c ≤ U)

/-- on a list in strictly increasing wavenumber, the filter on an interval is a contiguous sub-range; the rows
    before it are below the interval, the rows after it above -/
theorem filter_interval_sorted (L U : ℝ) (l : List (Row ℝ)) (hs : (l.map Row.c).Pairwise (· < ·)) :
    ∃ i m, i + m ≤ l.length ∧ l.filter (inside L U) = (l.drop i).take m ∧
      (∀ r ∈ l.take i, r.c < L) ∧ (∀ r ∈ l.drop (i + m), U < r.c) := by
  induction l with
  | nil => exact ⟨0, 0, by simp, by simp, by simp, by simp⟩
  | cons x t ih =>
    rw [List.map_cons, List.pairwise_cons] at hs
    obtain ⟨hx, ht⟩ := hs
    have hxt : ∀ r ∈ t, x.c < r.c := fun r hr => hx r.c (List.mem_map_of_mem hr)
    obtain ⟨i', m', hle, hfil, hlo, hhi⟩ := ih ht
    by_cases h1 : x.c < L
    · -- x is below the interval: dropped, the range of `t` shifts by one
      refine ⟨i' + 1, m', by simp; omega, ?_, ?_, ?_⟩
      · have : inside L U x = false := by
          unfold inside; simp [not_le.2 h1]
        rw [List.filter_cons, this]; simpa using hfil
      · intro r hr
        rw [List.take_succ_cons, List.mem_cons] at hr
        rcases hr with rfl | hr
        · exact h1
        · exact hlo r hr
      · intro r hr
        have : (x :: t).drop (i' + 1 + m') = t.drop (i' + m') := by
          rw [show i' + 1 + m' = (i' + m') + 1 by omega, List.drop_succ_cons]
        rw [this] at hr; exact hhi r hr
    · have h1' : L ≤ x.c := not_lt.1 h1
      by_cases h2 : x.c ≤ U
      · -- x is inside: nothing of `t` can be below the interval
        have htake : t.take i' = [] := by
          apply List.eq_nil_iff_forall_not_mem.2
          intro r hr
          have := hlo r hr
          have := hxt r (List.mem_of_mem_take hr)
          linarith
        have hin : inside L U x = true := by unfold inside; simp [h1', h2]
        rcases List.take_eq_nil_iff.1 htake with hi0 | ht0
        · subst hi0
          refine ⟨0, m' + 1, by simp at hle ⊢; omega, ?_, by simp, ?_⟩
          · rw [List.filter_cons, hin]; simp only [if_true, List.drop_zero]
            rw [List.take_succ_cons]
            have : t.filter (inside L U) = t.take m' := by simpa using hfil
            rw [this]
          · intro r hr
            have : (x :: t).drop (0 + (m' + 1)) = t.drop (0 + m') := by
              rw [show 0 + (m' + 1) = (0 + m') + 1 by omega, List.drop_succ_cons]
            rw [this] at hr; exact hhi r hr
        · subst ht0
          refine ⟨0, 1, by simp, ?_, by simp, by simp⟩
          rw [List.filter_cons, hin]; simp
      · -- x is above the interval: so is all of `t`
        have h2' : U < x.c := not_le.1 h2
        refine ⟨0, 0, by simp, ?_, by simp, ?_⟩
        · have hx0 : inside L U x = false := by unfold inside; simp [h2]
          have ht0 : t.filter (inside L U) = [] := by
            rw [List.filter_eq_nil_iff]
            intro r hr
            have := hxt r hr
            unfold inside; simp only [Bool.and_eq_true, decide_eq_true_eq, not_and, not_le]
            intro _; linarith
          rw [List.filter_cons, hx0]; simp [ht0]
        · intro r hr
          simp only [Nat.add_zero, List.drop_zero, List.mem_cons] at hr
          rcases hr with rfl | hr
          · exact h2'
          · have := hxt r hr; linarith

/-- zero overlap when the bin ends before the target starts, or starts after it ends -/
theorem overlap_zero_of_disjoint (a b : ℝ) (r : Row ℝ) (h : r.hi ≤ a ∨ b ≤ r.lo) : overlap a b r = 0 := by
  apply le_antisymm _ (overlap_nonneg a b r)
  by_contra hc
  have hpos : 0 < overlap a b r := not_le.1 hc
  obtain ⟨h1, h2, _, _⟩ := (overlap_pos_iff a b r).1 hpos
  rcases h with h | h <;> linarith

/-- a row of the uniform full grid, by index: same centre as the input row, width `d` -/
theorem uniform_row_at (full : List (Row ℝ)) (d : ℝ) (hd0 : 0 < d)
    (hd : ∀ j, j + 1 < (full.map Row.c).length → spacing (full.map Row.c) j = d)
    (hn : 2 ≤ full.length) (k : Nat) (hk : k < full.length) :
    (nativeBins false full)[k]? = some { full[k] with w := d } := by
  have hg := linear_increasing _ d hd0 hd
  rw [getElem?_nativeBins full hg k hk,
    linear_widths (full.map Row.c) (by rw [List.length_map]; exact hn) d hd0 hd k (by rw [List.length_map]; exact hk)]

/-- rows of the uniform full grid before index `i` / from index `j` on keep the centres of the input rows there -/
theorem uniform_rows_take (full : List (Row ℝ)) (d : ℝ) (hd0 : 0 < d)
    (hd : ∀ j, j + 1 < (full.map Row.c).length → spacing (full.map Row.c) j = d)
    (hn : 2 ≤ full.length) (i : Nat) (r : Row ℝ) (hr : r ∈ (nativeBins false full).take i) :
    r.w = d ∧ ∃ r0 ∈ full.take i, r.c = r0.c := by
  obtain ⟨k, hk, rfl⟩ := List.mem_iff_getElem.1 hr
  rw [List.length_take, length_nativeBins_false full (by omega)] at hk
  have hk' : k < full.length := by omega
  have e := uniform_row_at full d hd0 hd hn k hk'
  rw [List.getElem_take]
  have e2 : (nativeBins false full)[k]'(by rw [length_nativeBins_false full (by omega)]; exact hk') = { full[k] with w := d } := by
    have := List.getElem?_eq_getElem (l := nativeBins false full) (i := k) (by rw [length_nativeBins_false full (by omega)]; exact hk')
    rw [this] at e; exact Option.some.inj e
  rw [e2]
  refine ⟨rfl, full[k], ?_, rfl⟩
  rw [List.mem_iff_getElem]
  exact ⟨k, by rw [List.length_take]; omega, by rw [List.getElem_take]⟩

theorem uniform_rows_drop (full : List (Row ℝ)) (d : ℝ) (hd0 : 0 < d)
    (hd : ∀ j, j + 1 < (full.map Row.c).length → spacing (full.map Row.c) j = d)
    (hn : 2 ≤ full.length) (j : Nat) (r : Row ℝ) (hr : r ∈ (nativeBins false full).drop j) :
    r.w = d ∧ ∃ r0 ∈ full.drop j, r.c = r0.c := by
  obtain ⟨k, hk, rfl⟩ := List.mem_iff_getElem.1 hr
  rw [List.length_drop, length_nativeBins_false full (by omega)] at hk
  have hk' : j + k < full.length := by omega
  have e := uniform_row_at full d hd0 hd hn (j + k) hk'
  rw [List.getElem_drop]
  have e2 : (nativeBins false full)[j + k]'(by rw [length_nativeBins_false full (by omega)]; exact hk') = { full[j + k] with w := d } := by
    have := List.getElem?_eq_getElem (l := nativeBins false full) (i := j + k) (by rw [length_nativeBins_false full (by omega)]; exact hk')
    rw [this] at e; exact Option.some.inj e
  rw [e2]
  refine ⟨rfl, full[j + k], ?_, rfl⟩
  rw [List.mem_iff_getElem]
  exact ⟨k, by rw [List.length_drop]; omega, by rw [List.getElem_drop]⟩

end Taurex.C13L
