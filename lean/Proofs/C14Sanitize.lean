/-
  Helper lemmas for the molecule-name sanitiser of C14 (core tactics only).
-/
import TaurexModel.Sanitize

namespace Taurex.Sanitize

theorem isUp_not_isLo {c : Char} (h : isUp c = true) : isLo c = false := by
  unfold isUp at h; unfold isLo
  simp only [Bool.and_eq_true, decide_eq_true_eq] at h
  simp only [Bool.and_eq_false_iff, decide_eq_false_iff_not]
  omega

theorem isUp_not_isDg {c : Char} (h : isUp c = true) : isDg c = false := by
  unfold isUp at h; unfold isDg
  simp only [Bool.and_eq_true, decide_eq_true_eq] at h
  simp only [Bool.and_eq_false_iff, decide_eq_false_iff_not]
  omega

theorem go_nil (s : St) : go s [] = [] := by cases s <;> rfl

theorem go_cons (s : St) (c : Char) (cs : List Char) :
    go s (c :: cs) =
      if (s = St.up && isLo c) = true then c :: go St.dg cs
      else if ((s = St.up || s = St.dg) && isDg c) = true then c :: go St.dg cs
      else if isUp c = true then c :: go St.up cs
      else go St.out cs := by
  cases s <;> rfl

/-- an upper-case letter starts a match in every scanner state -/
theorem go_up_head (s : St) {c : Char} (r : List Char) (h : isUp c = true) :
    go s (c :: r) = c :: go St.up r := by
  rw [go_cons]
  simp [isUp_not_isLo h, isUp_not_isDg h, h]

/-- between matches the output is empty or begins with an upper-case letter -/
theorem go_out_head (cs : List Char) :
    go St.out cs = [] ∨ ∃ c r, go St.out cs = c :: r ∧ isUp c = true := by
  induction cs with
  | nil => left; rfl
  | cons c cs ih =>
    rw [go_cons]
    by_cases hu : isUp c = true
    · right; exact ⟨c, go St.up cs, by simp [hu], hu⟩
    · simpa [hu] using ih

theorem go_idem (s : St) (cs : List Char) : go s (go s cs) = go s cs := by
  induction cs generalizing s with
  | nil => simp [go_nil]
  | cons c cs ih =>
    rw [go_cons s c cs]
    by_cases h1 : (s = St.up && isLo c) = true
    · rw [if_pos h1, go_cons, if_pos h1, ih]
    · rw [if_neg h1]
      by_cases h2 : ((s = St.up || s = St.dg) && isDg c) = true
      · rw [if_pos h2, go_cons, if_neg h1, if_pos h2, ih]
      · rw [if_neg h2]
        by_cases h3 : isUp c = true
        · rw [if_pos h3, go_up_head s _ h3, ih]
        · rw [if_neg h3]
          rcases go_out_head cs with h0 | ⟨c', r, h0, hu⟩
          · simp [h0, go_nil]
          · have e1 : go s (go St.out cs) = c' :: go St.up r := by rw [h0, go_up_head s r hu]
            have e2 : go St.out (go St.out cs) = c' :: go St.up r := by rw [h0, go_up_head St.out r hu]
            rw [e1, ← e2, ih]

def isAlnum (c : Char) : Bool := isUp c || isLo c || isDg c

theorem go_alnum (s : St) (cs : List Char) : ∀ c ∈ go s cs, isAlnum c = true := by
  induction cs generalizing s with
  | nil => simp [go_nil]
  | cons c cs ih =>
    rw [go_cons]
    by_cases h1 : (s = St.up && isLo c) = true
    · rw [if_pos h1]
      intro x hx
      simp only [List.mem_cons] at hx
      rcases hx with rfl | hx
      · simp only [Bool.and_eq_true] at h1; simp [isAlnum, h1.2]
      · exact ih _ x hx
    · rw [if_neg h1]
      by_cases h2 : ((s = St.up || s = St.dg) && isDg c) = true
      · rw [if_pos h2]
        intro x hx
        simp only [List.mem_cons] at hx
        rcases hx with rfl | hx
        · simp only [Bool.and_eq_true] at h2; simp [isAlnum, h2.2]
        · exact ih _ x hx
      · rw [if_neg h2]
        by_cases h3 : isUp c = true
        · rw [if_pos h3]
          intro x hx
          simp only [List.mem_cons] at hx
          rcases hx with rfl | hx
          · simp [isAlnum, h3]
          · exact ih _ x hx
        · rw [if_neg h3]
          exact ih _

theorem takeWhile_all {p : Char → Bool} : ∀ (l : List Char), (∀ c ∈ l, p c = true) → l.takeWhile p = l
  | [], _ => rfl
  | c :: l, h => by
    have hc := h c (by simp)
    simp only [List.takeWhile_cons, hc, if_true]
    rw [takeWhile_all l (fun x hx => h x (by simp [hx]))]

theorem alnum_ne {c : Char} (h : isAlnum c = true) (sep : Char) (hs : isAlnum sep = false) : (c != sep) = true := by
  rcases Decidable.em (c = sep) with rfl | hne
  · rw [h] at hs; cases hs
  · simpa using hne

end Taurex.Sanitize
