/-
  C05: the concrete instance used by the non-vacuity examples of `Props/C05.lean`.
-/
import Proofs.C05Flux

namespace Taurex.C05
open Taurex.Binning List

/-- five contiguous native bins `[0.5,1.5] … [4.5,5.5]` carrying the values 10, 20, 30, 40, 50 -/
noncomputable def nvRows : List (Row ℝ) :=
  [⟨1, 1, 10, 1⟩, ⟨2, 1, 20, 1⟩, ⟨3, 1, 30, 2⟩, ⟨4, 1, 40, 1⟩, ⟨5, 1, 50, 3⟩]

theorem nvRows_ordered : OrderedBins nvRows := by
  unfold OrderedBins nvRows
  constructor <;> simp [Row.lo, Row.hi] <;> norm_num

theorem nvRows_widths : ∀ r ∈ nvRows, r.lo ≤ r.hi := by
  intro r hr
  simp only [nvRows, List.mem_cons, List.not_mem_nil, or_false] at hr
  rcases hr with rfl | rfl | rfl | rfl | rfl <;> norm_num [Row.lo, Row.hi]

/-- a target `[2, 4]` inside, a target `[4.5, 7.5]` straddling the upper end -/
theorem nv_inside_pos : 0 < sumL (nvRows.map (overlap 2 4)) := by
  norm_num [nvRows, sumL, overlap, mn, mx, Row.lo, Row.hi]

theorem nv_straddle_pos : 0 < sumL (nvRows.map (overlap 4.5 7.5)) := by
  norm_num [nvRows, sumL, overlap, mn, mx, Row.lo, Row.hi]

end Taurex.C05
