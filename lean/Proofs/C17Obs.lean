/-
  C17: lemmas about loading an observation (`TaurexModel/Observation.lean`) over the reals.
-/
import Proofs.C05Basic
import TaurexModel.Observation

namespace Taurex.Observation
open List Taurex.Binning

theorem zipWith_map_same {β γ δ ε : Type} (f : γ → δ → ε) (g : β → γ) (h : β → δ) (l : List β) :
    List.zipWith f (l.map g) (l.map h) = l.map (fun x => f (g x) (h x)) := by
  induction l with
  | nil => rfl
  | cons x t ih => simp only [List.map_cons, List.zipWith_cons_cons, ih]

theorem reverse_flatMap_reverse {β γ : Type} (f : β → List γ) (l : List β) :
    (l.reverse.flatMap f).reverse = l.flatMap (fun x => (f x).reverse) := by
  induction l with
  | nil => rfl
  | cons x t ih =>
    simp only [List.reverse_cons, List.flatMap_append, List.flatMap_cons, List.flatMap_nil, List.append_nil,
      List.reverse_append, ih]

theorem sortRowsDesc_perm (rows : List (ORow ℝ)) : sortRowsDesc rows ~ rows :=
  (List.reverse_perm _).trans (sortBy_perm ORow.wl rows)

theorem sortRowsDesc_eq_of_perm {r₁ r₂ : List (ORow ℝ)} (hp : r₁ ~ r₂) (hd : (r₁.map ORow.wl).Nodup) :
    sortRowsDesc r₁ = sortRowsDesc r₂ := by
  unfold sortRowsDesc
  rw [sortBy_eq_of_perm ORow.wl hp hd]

/-- distinct wavelengths: the sorted rows are strictly descending in wavelength -/
theorem sortRowsDesc_strict (rows : List (ORow ℝ)) (hd : (rows.map ORow.wl).Nodup) :
    (sortRowsDesc rows).Pairwise (fun r r' => r'.wl < r.wl) := by
  unfold sortRowsDesc
  rw [List.pairwise_reverse]
  exact sortBy_strict ORow.wl rows hd

theorem mem_sortRowsDesc {rows : List (ORow ℝ)} {r : ORow ℝ} : r ∈ sortRowsDesc rows ↔ r ∈ rows :=
  (sortRowsDesc_perm rows).mem_iff

/-- distinct positive wavelengths: `10000/wl` of the sorted rows is strictly ascending -/
theorem wn_strict (rows : List (ORow ℝ)) (hd : (rows.map ORow.wl).Nodup) (hpos : ∀ r ∈ rows, 0 < r.wl) :
    ((sortRowsDesc rows).map (fun r => (10000 : ℝ) / r.wl)).Pairwise (· < ·) := by
  rw [List.pairwise_map]
  have h := sortRowsDesc_strict rows hd
  have hmem : ∀ r ∈ sortRowsDesc rows, 0 < r.wl := fun r hr => hpos r (mem_sortRowsDesc.1 hr)
  refine (List.Pairwise.and_mem.1 h).imp ?_
  rintro r r' ⟨hr, hr', hlt⟩
  exact div_lt_div_of_pos_left (by norm_num) (hmem r' hr') hlt

/-! ### lengths of the computed edges and widths -/

theorem length_midEdges (g : List ℝ) : (midEdges g).length = g.length - 1 := by
  induction g with
  | nil => rfl
  | cons a t ih =>
    cases t with
    | nil => rfl
    | cons b t' =>
      simp only [midEdges, List.length_cons] at ih ⊢
      omega

theorem length_diffs (g : List ℝ) : (diffs g).length = g.length - 1 := by
  induction g with
  | nil => rfl
  | cons a t ih =>
    cases t with
    | nil => rfl
    | cons b t' =>
      simp only [diffs, List.length_cons] at ih ⊢
      omega

theorem length_computeBinEdges (g : List ℝ) (h : 1 ≤ g.length) :
    (computeBinEdges g).1.length = g.length + 1 ∧ (computeBinEdges g).2.length = g.length := by
  unfold computeBinEdges
  simp only [List.length_cons, List.length_append, List.length_map, length_diffs, length_midEdges,
    List.length_nil]
  omega

theorem length_bw (fourCol : Bool) (rows : List (ORow ℝ)) (h : 1 ≤ rows.length) :
    (load fourCol rows).bw.length = rows.length := by
  have hl : (sortRowsDesc rows).length = rows.length := (sortRowsDesc_perm rows).length_eq
  unfold load
  cases fourCol
  · simp only [Bool.false_eq_true, if_false]
    rw [(length_computeBinEdges _ (by rw [List.length_map, hl]; exact h)).2, List.length_map, hl]
  · simp only [if_true, List.length_map, hl]

theorem zipWith_mk_map (cs ws : List ℝ) (h : cs.length = ws.length) :
    (List.zipWith (fun c w => ({ c := c, w := w } : TBin ℝ)) cs ws).map TBin.c = cs ∧
    (List.zipWith (fun c w => ({ c := c, w := w } : TBin ℝ)) cs ws).map TBin.w = ws := by
  induction cs generalizing ws with
  | nil => cases ws with
    | nil => exact ⟨rfl, rfl⟩
    | cons _ _ => simp at h
  | cons c t ih =>
    cases ws with
    | nil => simp at h
    | cons w t' =>
      have := ih t' (by simpa using h)
      simp only [List.zipWith_cons_cons, List.map_cons, this.1, this.2, and_self]

end Taurex.Observation
