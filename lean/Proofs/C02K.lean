/-
  C02 in correlated-k mode: lemmas about `KTau.emissionK` (the model of `evaluate_emission_ktables`) over the reals —
  the layer terms telescope, so an isothermal atmosphere returns the blackbody whatever the k-coefficients are.
-/
import Proofs.C20

namespace Taurex.KTau
open Taurex.Emission

theorem kRangeScaled_eq (sigma3 : List (List ℝ)) (dz dens : List ℝ) (m : ℝ) (lo hi g : Nat) :
    kRangeScaled sigma3 dz dens m lo hi g = kRange sigma3 dz dens lo hi g * m := by
  unfold kRangeScaled kRange
  rw [foldl_add_sum, foldl_add_sum, zero_add, zero_add, ← List.sum_map_mul_right]
  congr 1
  apply List.map_congr_left
  intro j _
  ring

theorem kRange_split (sigma3 : List (List ℝ)) (dz dens : List ℝ) (l n g : Nat) (h : l < n) :
    kRange sigma3 dz dens l (l + 1) g + kRange sigma3 dz dens (l + 1) n g = kRange sigma3 dz dens l n g := by
  unfold kRange
  rw [foldl_add_sum, foldl_add_sum, foldl_add_sum]
  have h1 : n - l = (n - (l + 1)) + 1 := by omega
  have h2 : l + 1 - l = 1 := by omega
  rw [h1, List.range'_succ, h2]
  simp

theorem kRange_empty (sigma3 : List (List ℝ)) (dz dens : List ℝ) (n g : Nat) :
    kRange sigma3 dz dens n n g = 0 := by
  unfold kRange
  simp

/-- the k-coefficients integrated along the slanted path are the vertical ones times `1/μ` -/
theorem transK_scaled (taus ws : List ℝ) (m : ℝ) :
    transK (taus.map (fun t => t * m)) ws = transKmu taus ws m := by
  rw [transK_eq, transKmu_eq, List.zip_map_left, List.map_map]
  congr 1
  apply List.map_congr_left
  intro p _
  simp only [Function.comp_apply, Prod.map_fst, Prod.map_snd, id_eq, neg_mul]

theorem sum_exp_pos (l : List (ℝ × ℝ)) (a : ℝ × ℝ → ℝ) (hw : ∀ p ∈ l, 0 ≤ p.2)
    (hs : 0 < (l.map (fun p => p.2)).sum) : 0 < (l.map (fun p => Real.exp (a p) * p.2)).sum := by
  induction l with
  | nil => simp at hs
  | cons p ps ih =>
    simp only [List.map_cons, List.sum_cons] at hs ⊢
    have h0 := hw p (by simp)
    have hrest : 0 ≤ (ps.map (fun p => Real.exp (a p) * p.2)).sum := by
      apply List.sum_nonneg
      intro x hx
      simp only [List.mem_map] at hx
      obtain ⟨q, hq, rfl⟩ := hx
      exact mul_nonneg (Real.exp_pos _).le (hw q (by simp [hq]))
    rcases h0.lt_or_eq with h | h
    · have := mul_pos (Real.exp_pos (a p)) h
      linarith
    · rw [← h] at hs ⊢
      simp only [zero_add, mul_zero] at hs ⊢
      exact ih (fun q hq => hw q (by simp [hq])) hs

/-- non-negative weights summing to one: the g-weighted transmittance is strictly positive (over the reals it never
    vanishes, however opaque the column) -/
theorem transKmu_pos (taus ws : List ℝ) (m : ℝ) (hlen : taus.length = ws.length) (hw0 : ∀ w ∈ ws, 0 ≤ w)
    (hw : ws.sum = 1) : 0 < transKmu taus ws m := by
  rw [transKmu_eq]
  apply sum_exp_pos (taus.zip ws) (fun p => (-p.1) * m)
  · intro p hp
    exact hw0 p.2 (List.of_mem_zip hp).2
  · rw [sum_snd_zip taus ws hlen, hw]
    norm_num

theorem telescope (F : ℕ → ℝ) (n : ℕ) : ((List.range n).map (fun l => F (l + 1) - F l)).sum = F n - F 0 := by
  induction n with
  | zero => simp
  | succ n ih => rw [List.range_succ, List.map_append, List.sum_append, ih]; simp

/-- transmittance from level `l` to space at the angle `m = 1/μ`: the other contributions times the g-weighted mean of the
    molecular absorption -/
noncomputable def levelTrans (nonmol : List (Kind × List ℝ)) (sigma3 : List (List ℝ)) (ws dz dens : List ℝ) (n : ℕ)
    (m : ℝ) (l : ℕ) : ℝ :=
  Real.exp ((-(tauRange nonmol dz dens l n)) * m)
    * transKmu ((List.range ws.length).map (kRange sigma3 dz dens l n)) ws m

/-- the intensity of `evaluate_emission_ktables` as the documented sum: surface term plus, per layer, `B(T_l)/π` times the
    difference of the level transmittances above and below it -/
theorem emissionK_levels (k : PC ℝ) (nonmol : List (Kind × List ℝ)) (sigma3 : List (List ℝ))
    (ws dz dens temps : List ℝ) (nu m : ℝ) (hw0 : ∀ w ∈ ws, 0 ≤ w) (hw : ws.sum = 1) :
    emissionK k nonmol sigma3 ws dz dens temps nu m
      = planck k nu (temps.getD 0 0) / k.pi * levelTrans nonmol sigma3 ws dz dens temps.length m 0
        + ((List.range temps.length).map (fun l => planck k nu (temps.getD l 0) / k.pi
            * (levelTrans nonmol sigma3 ws dz dens temps.length m (l + 1)
               - levelTrans nonmol sigma3 ws dz dens temps.length m l))).sum := by
  unfold emissionK
  simp only [exp_real]
  rw [foldl_add_sum]
  congr 1
  · -- the surface term: exp(-(A m - log X)) = exp(-A m) X with X > 0
    congr 1
    unfold levelTrans ktau
    simp only [log_real]
    have hX : transK ((List.range ws.length).map (kRangeScaled sigma3 dz dens m 0 temps.length)) ws
        = transKmu ((List.range ws.length).map (kRange sigma3 dz dens 0 temps.length)) ws m := by
      rw [← transK_scaled, List.map_map]
      congr 1
      apply List.map_congr_left
      intro g _
      simp only [Function.comp_apply, kRangeScaled_eq]
    rw [hX]
    have hpos := transKmu_pos ((List.range ws.length).map (kRange sigma3 dz dens 0 temps.length)) ws m (by simp) hw0 hw
    rw [neg_add, neg_neg, Real.exp_add, Real.exp_log hpos]
    congr 2
    ring
  · congr 1
    apply List.map_congr_left
    intro l hl
    have hl' : l < temps.length := List.mem_range.1 hl
    congr 1
    unfold levelTrans
    rw [tauRange_split nonmol dz dens l temps.length hl']
    congr 3
    apply List.map_congr_left
    intro g _
    exact kRange_split sigma3 dz dens l temps.length g hl'

theorem levelTrans_top (nonmol : List (Kind × List ℝ)) (sigma3 : List (List ℝ)) (ws dz dens : List ℝ) (n : ℕ) (m : ℝ)
    (hw : ws.sum = 1) : levelTrans nonmol sigma3 ws dz dens n m n = 1 := by
  unfold levelTrans
  rw [tauRange_empty, transKmu_const _ ws 0 m (by simp), hw]
  · simp
  · intro t ht
    simp only [List.mem_map, List.mem_range] at ht
    obtain ⟨g, _, rfl⟩ := ht
    exact kRange_empty sigma3 dz dens n g

/-! ### monotone level transmittances: hot / cold bounds -/

theorem kRange_one_nonneg (sigma3 : List (List ℝ)) (dz dens : List ℝ) (l g : Nat)
    (hs : ∀ j g, 0 ≤ at3 sigma3 j g) (hdz : ∀ x ∈ dz, 0 ≤ x) (hd : ∀ x ∈ dens, 0 ≤ x) :
    0 ≤ kRange sigma3 dz dens l (l + 1) g := by
  unfold kRange
  rw [foldl_add_sum, zero_add]
  apply List.sum_nonneg
  intro x hx
  simp only [List.mem_map] at hx
  obtain ⟨j, _, rfl⟩ := hx
  exact mul_nonneg (mul_nonneg (hs j g) (getD_nonneg dz hdz j)) (getD_nonneg dens hd j)

theorem transKmu_map_mono (f f' : ℕ → ℝ) (ws : List ℝ) (m : ℝ) (hm : 0 ≤ m) (h : ∀ g, f' g ≤ f g)
    (hw0 : ∀ w ∈ ws, 0 ≤ w) :
    transKmu ((List.range ws.length).map f) ws m ≤ transKmu ((List.range ws.length).map f') ws m := by
  rw [transKmu_eq, transKmu_eq, List.zip_map_left, List.zip_map_left, List.map_map, List.map_map]
  apply List.sum_le_sum
  intro p hp
  simp only [Function.comp_apply, Prod.map_fst, Prod.map_snd, id_eq]
  apply mul_le_mul_of_nonneg_right _ (hw0 p.2 (List.of_mem_zip hp).2)
  apply Real.exp_le_exp.2
  have := h p.1
  nlinarith

/-- going up one level the transmittance to space does not decrease -/
theorem levelTrans_mono (nonmol : List (Kind × List ℝ)) (sigma3 : List (List ℝ)) (ws dz dens : List ℝ) (n : ℕ) (m : ℝ)
    (hm : 0 ≤ m) (hnn : InputsNonneg nonmol dz dens) (hs : ∀ j g, 0 ≤ at3 sigma3 j g) (hw0 : ∀ w ∈ ws, 0 ≤ w)
    (l : ℕ) (hl : l < n) :
    levelTrans nonmol sigma3 ws dz dens n m l ≤ levelTrans nonmol sigma3 ws dz dens n m (l + 1) := by
  unfold levelTrans
  have hA : tauRange nonmol dz dens (l + 1) n ≤ tauRange nonmol dz dens l n := by
    rw [← tauRange_split nonmol dz dens l n hl]
    have := tauRange_nonneg nonmol dz dens hnn l (l + 1)
    linarith
  have hK := transKmu_map_mono (kRange sigma3 dz dens l n) (kRange sigma3 dz dens (l + 1) n) ws m hm (by
    intro g
    rw [← kRange_split sigma3 dz dens l n g hl]
    have := kRange_one_nonneg sigma3 dz dens l g hs hnn.2.1 hnn.2.2
    linarith) hw0
  have hE : Real.exp ((-(tauRange nonmol dz dens l n)) * m) ≤ Real.exp ((-(tauRange nonmol dz dens (l + 1) n)) * m) := by
    apply Real.exp_le_exp.2
    nlinarith
  have h0 : 0 ≤ transKmu ((List.range ws.length).map (kRange sigma3 dz dens l n)) ws m := by
    rw [transKmu_eq]
    apply List.sum_nonneg
    intro x hx
    simp only [List.mem_map] at hx
    obtain ⟨p, hp, rfl⟩ := hx
    exact mul_nonneg (Real.exp_pos _).le (hw0 p.2 (List.of_mem_zip hp).2)
  exact mul_le_mul hE hK h0 (Real.exp_pos _).le

theorem levelTrans_nonneg (nonmol : List (Kind × List ℝ)) (sigma3 : List (List ℝ)) (ws dz dens : List ℝ) (n : ℕ) (m : ℝ)
    (hw0 : ∀ w ∈ ws, 0 ≤ w) (l : ℕ) : 0 ≤ levelTrans nonmol sigma3 ws dz dens n m l := by
  unfold levelTrans
  apply mul_nonneg (Real.exp_pos _).le
  rw [transKmu_eq]
  apply List.sum_nonneg
  intro x hx
  simp only [List.mem_map] at hx
  obtain ⟨p, hp, rfl⟩ := hx
  exact mul_nonneg (Real.exp_pos _).le (hw0 p.2 (List.of_mem_zip hp).2)

/-- weighted telescoping sum with weights between `lo` and `hi` and non-negative increments -/
theorem weighted_telescope (F P : ℕ → ℝ) (n : ℕ) (lo hi : ℝ) (hP : ∀ l < n, lo ≤ P l ∧ P l ≤ hi)
    (hF : ∀ l < n, F l ≤ F (l + 1)) :
    lo * (F n - F 0) ≤ ((List.range n).map (fun l => P l * (F (l + 1) - F l))).sum ∧
    ((List.range n).map (fun l => P l * (F (l + 1) - F l))).sum ≤ hi * (F n - F 0) := by
  induction n with
  | zero => simp
  | succ n ih =>
    obtain ⟨a, b⟩ := ih (fun l hl => hP l (by omega)) (fun l hl => hF l (by omega))
    rw [List.range_succ, List.map_append, List.sum_append]
    simp only [List.map_cons, List.map_nil, List.sum_cons, List.sum_nil, add_zero]
    obtain ⟨p1, p2⟩ := hP n (by omega)
    have hd : 0 ≤ F (n + 1) - F n := by linarith [hF n (by omega)]
    constructor <;> nlinarith

end Taurex.KTau
