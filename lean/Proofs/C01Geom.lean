/-
  The 3-D line/sphere geometry of `new_path_method=True` equals the closed-form chord differences
  (helper file of Props/C01).
-/
import Proofs.C01c
import TaurexModel.Geometry

open Finset

namespace Taurex.Geometry
open Taurex.Transmission

theorem clamp0_of_nonneg {d : ℝ} (h : 0 ≤ d) : clamp0 d = d := by
  unfold clamp0; rw [if_neg (not_lt.2 h)]

/-- the discriminant of sphere `h` for the ray `o = (-X, b, 0)`, `u = (1, 0, 0)` -/
theorem intersect_delta (R h X b : ℝ) :
    (intersect R h ⟨1, 0, 0⟩ ⟨-X, b, 0⟩).delta = (R + h) * (R + h) - b * b := by
  simp only [intersect, dot, normSq, V3.mul, V3.sum]
  ring

theorem hitDistance_eq (R h X b : ℝ) (hX : 0 ≤ X) (_hd : 0 ≤ (R + h) * (R + h) - b * b)
    (ho : (R + h) * (R + h) - b * b ≤ X * X) (hc : R * R - b * b ≤ 0) :
    hitDistance (intersect R h ⟨1, 0, 0⟩ ⟨-X, b, 0⟩) = 2 * Real.sqrt ((R + h) * (R + h) - b * b) := by
  have eD : (1 * -X + 0 * b + 0 * 0) * (1 * -X + 0 * b + 0 * 0) - (-X * -X + b * b + 0 * 0) + (R + h) * (R + h)
      = (R + h) * (R + h) - b * b := by ring
  have eP : (1 * -X + 0 * b + 0 * 0) * (1 * -X + 0 * b + 0 * 0) - (-X * -X + b * b + 0 * 0) + R * R
      = R * R - b * b := by ring
  have esd : -(1 * -X + 0 * b + 0 * 0) = X := by ring
  set D := (R + h) * (R + h) - b * b with hD
  have hs0 : 0 ≤ Real.sqrt D := Real.sqrt_nonneg _
  have hsX : Real.sqrt D ≤ X := by
    have := Real.sqrt_le_sqrt ho
    rwa [Real.sqrt_mul_self hX] at this
  simp only [intersect, hitDistance, dot, normSq, norm, V3.mul, V3.sum, V3.add, V3.sub, V3.smul, sqrt_real, eD, eP, esd]
  rw [if_neg (not_lt.2 hc)]
  rw [clamp0_of_nonneg (by linarith : 0 ≤ X + Real.sqrt D), clamp0_of_nonneg (by linarith : 0 ≤ X - Real.sqrt D)]
  have hv : ¬ ((-X - (-X + (X + Real.sqrt D) * 1)) * (-X - (-X + (X + Real.sqrt D) * 1))
      + (b - (b + (X + Real.sqrt D) * 0)) * (b - (b + (X + Real.sqrt D) * 0))
      + (0 - (0 + (X + Real.sqrt D) * 0)) * (0 - (0 + (X + Real.sqrt D) * 0))
      < (-X - (-X + (X - Real.sqrt D) * 1)) * (-X - (-X + (X - Real.sqrt D) * 1))
      + (b - (b + (X - Real.sqrt D) * 0)) * (b - (b + (X - Real.sqrt D) * 0))
      + (0 - (0 + (X - Real.sqrt D) * 0)) * (0 - (0 + (X - Real.sqrt D) * 0))) := by
    intro hlt; nlinarith
  rw [if_neg hv, if_neg hv]
  have : (-X + (X + Real.sqrt D) * 1 - (-X + (X - Real.sqrt D) * 1)) * (-X + (X + Real.sqrt D) * 1 - (-X + (X - Real.sqrt D) * 1))
      + (b + (X + Real.sqrt D) * 0 - (b + (X - Real.sqrt D) * 0)) * (b + (X + Real.sqrt D) * 0 - (b + (X - Real.sqrt D) * 0))
      + (0 + (X + Real.sqrt D) * 0 - (0 + (X - Real.sqrt D) * 0)) * (0 + (X + Real.sqrt D) * 0 - (0 + (X - Real.sqrt D) * 0))
      = (2 * Real.sqrt D) * (2 * Real.sqrt D) := by ring
  rw [this, Real.sqrt_mul_self (by linarith)]

/-- `compute_line_3d` of `parallel_vector`: origin `(-X, b, 0)` and direction `(1, 0, 0)`, `X = R + 2·max_alt > 0` -/
theorem line_of_parallel (R alt M : ℝ) (hX : 0 < R + M * 2) :
    line3d (parallelVector R alt M).1 (parallelVector R alt M).2
      = (⟨-(R + M * 2), R + alt, 0⟩, ⟨1, 0, 0⟩) := by
  have hn : Real.sqrt ((0 - -(R + M * 2)) * (0 - -(R + M * 2)) + (R + alt - (R + alt)) * (R + alt - (R + alt))
      + (0 - 0) * (0 - 0)) = R + M * 2 := by
    have : (0 - -(R + M * 2)) * (0 - -(R + M * 2)) + (R + alt - (R + alt)) * (R + alt - (R + alt)) + (0 - 0) * (0 - 0)
        = (R + M * 2) * (R + M * 2) := by ring
    rw [this, Real.sqrt_mul_self hX.le]
  simp only [line3d, parallelVector, normalize, norm, normSq, V3.sub, V3.mul, V3.sum, sqrt_real, hn]
  rw [if_neg (by intro h; linarith [h.1])]
  congr 2 <;> [skip; skip; skip]
  · rw [sub_neg_eq_add, zero_add, div_self (ne_of_gt hX)]
  · rw [sub_self, zero_div]
  · rw [sub_self, zero_div]

/-- `altitude_boundaries.max()` bounds every boundary -/
theorem arrMax_ge (n : ℕ) (f : ℕ → ℝ) : ∀ j ≤ n, f j ≤ arrMax n f := by
  unfold arrMax
  induction n with
  | zero => intro j hj; have : j = 0 := by omega
            subst this; simp
  | succ n ih =>
    intro j hj
    rw [List.range_succ, List.foldl_append]
    simp only [List.foldl_cons, List.foldl_nil]
    set F := (List.range n).foldl (fun m i => if m < f (i + 1) then f (i + 1) else m) (f 0) with hF
    rcases Nat.eq_or_lt_of_le hj with e | hlt
    · subst e; split <;> linarith
    · have := ih j (by omega)
      split <;> linarith

/-- selecting an upper segment of `range m` -/
theorem filter_range_ge (m a : ℕ) (ha : a ≤ m) (p : ℕ → Bool) (h : ∀ j < m, p j = true ↔ a ≤ j) :
    (List.range m).filter p = List.range' a (m - a) := by
  have e : List.range m = List.range' 0 a ++ List.range' a (m - a) := by
    rw [List.range_eq_range']
    have h1 := List.range'_append_1 (s := 0) (m := a) (n := m - a)
    rw [Nat.zero_add] at h1
    rw [h1]; congr 1; omega
  rw [e, List.filter_append]
  have h1 : (List.range' 0 a).filter p = [] := by
    rw [List.filter_eq_nil_iff]
    intro j hj
    have hj' := (List.mem_range'_1.1 hj)
    have := h j (by omega)
    intro hp; have := this.1 hp; omega
  have h2 : (List.range' a (m - a)).filter p = List.range' a (m - a) := by
    rw [List.filter_eq_self]
    intro j hj
    have hj' := (List.mem_range'_1.1 hj)
    exact (h j (by omega)).2 hj'.1
  rw [h1, h2, List.nil_append]

theorem getD_map_range' {β : Type} (f : ℕ → β) (a len k : ℕ) (d : β) (hk : k < len) :
    ((List.range' a len).map f).getD k d = f (a + k) := by
  simp [List.getD, hk]

/-- what the geometry needs beyond `Shells`: a positive planet radius, the surface not below the reference
    radius, and layers of strictly positive thickness (a layer of zero thickness makes two boundary spheres
    tangent to the ray, both are then "hit" with length 0 and every later segment shifts by one index) -/
structure GeomOK (rp : ℝ) (n : ℕ) (zb z dz : ℕ → ℝ) : Prop where
  shells : Shells rp n zb z dz
  rp_pos : 0 < rp
  surface : 0 ≤ zb 0
  strict : ∀ l < n, 0 < dz l

namespace GeomOK
variable {rp : ℝ} {n : ℕ} {zb z dz : ℕ → ℝ}

theorem max_nonneg (G : GeomOK rp n zb z dz) : 0 ≤ arrMax n zb :=
  le_trans G.surface (arrMax_ge n zb 0 (Nat.zero_le _))

theorem X_pos (G : GeomOK rp n zb z dz) : 0 < rp + arrMax n zb * 2 := by
  have := G.max_nonneg; have := G.rp_pos; linarith

theorem zb_nonneg (G : GeomOK rp n zb z dz) (j : ℕ) (hj : j ≤ n) : 0 ≤ zb j :=
  le_trans G.surface (G.shells.zb_mono 0 j (Nat.zero_le _) hj)

/-- tangent radius of layer `l`: strictly between its two boundary spheres -/
theorem b_bounds (G : GeomOK rp n zb z dz) (l : ℕ) (hl : l < n) :
    rp + zb l < rp + (z l + dz l / 2) ∧ rp + (z l + dz l / 2) < rp + zb (l + 1) := by
  have h1 := G.shells.hz l hl; have h2 := G.shells.step l hl; have h3 := G.strict l hl
  rw [h1, h2]; constructor <;> linarith

end GeomOK

/-- the ray origin lies outside (or on) every boundary sphere: `(R+zb_j)² - b² ≤ X²`, `X = R + 2·max(zb)`.
    This is the hypothesis the clamp `d[d < 0] = 0` would otherwise break. -/
theorem origin_outside_aux {rp : ℝ} {n : ℕ} {zb z dz : ℕ → ℝ} (G : GeomOK rp n zb z dz) (b : ℝ) (j : ℕ) (hj : j ≤ n) :
    (rp + zb j) * (rp + zb j) - b * b ≤ (rp + arrMax n zb * 2) * (rp + arrMax n zb * 2) := by
  have h1 := arrMax_ge n zb j hj
  have h2 := G.max_nonneg
  have h3 := G.zb_nonneg j hj
  have h4 := G.rp_pos
  nlinarith [mul_self_nonneg b, mul_nonneg h2 h2]

/-- the spheres that are hit by the ray of layer `l` are exactly `l+1 … n` -/
theorem good_iff {rp : ℝ} {n : ℕ} {zb z dz : ℕ → ℝ} (G : GeomOK rp n zb z dz) (l : ℕ) (hl : l < n) (j : ℕ)
    (hj : j < n + 1) :
    0 ≤ (rp + zb j) * (rp + zb j) - (rp + (z l + dz l / 2)) * (rp + (z l + dz l / 2)) ↔ l + 1 ≤ j := by
  obtain ⟨hb1, hb2⟩ := G.b_bounds l hl
  have hrp := G.rp_pos
  constructor
  · intro h
    by_contra hcon
    have hjl : j ≤ l := by omega
    have h1 := G.shells.zb_mono j l hjl (by omega)
    have h2 := G.zb_nonneg j (by omega)
    nlinarith
  · intro h
    have h1 := G.shells.zb_mono (l + 1) j h (by omega)
    have h2 := G.zb_nonneg l (by omega)
    nlinarith

/-- the distances along the line of sight of layer `l`: the full chords of spheres `l+1 … n` -/
theorem layerDists_eq {rp : ℝ} {n : ℕ} {zb z dz : ℕ → ℝ} (G : GeomOK rp n zb z dz) (l : ℕ) (hl : l < n) :
    layerDists rp n zb z dz l = (List.range' (l + 1) (n - l)).map (fun j => newD rp zb z dz l j) := by
  simp only [layerDists]
  rw [line_of_parallel rp (z l + dz l / 2) (arrMax n zb) G.X_pos]
  simp only [rayDists, goodSpheres]
  rw [filter_range_ge (n + 1) (l + 1) (by omega)]
  · have e : n + 1 - (l + 1) = n - l := by omega
    rw [e]
    apply List.map_congr_left
    intro j hj
    have hj' := List.mem_range'_1.1 hj
    have hjn : j ≤ n := by omega
    have hgood := (good_iff G l hl j (by omega)).2 hj'.1
    obtain ⟨hb1, hb2⟩ := G.b_bounds l hl
    have hz := G.zb_nonneg l (by omega)
    have hrp := G.rp_pos
    rw [hitDistance_eq rp (zb j) _ _ G.X_pos.le hgood (origin_outside_aux G _ j hjn) (by nlinarith)]
    rfl
  · intro j hj
    rw [decide_eq_true_iff, intersect_delta]
    exact good_iff G l hl j hj

/-- what happens when the origin lies strictly inside a sphere (the seeded defect `-(R+2·alt)`): the near
    intersection parameter is clamped to 0, the "chord" becomes origin-to-far-side, `X + sqrt D` instead of `2 sqrt D` -/
theorem hitDistance_clipped (R h X b : ℝ) (hX : 0 ≤ X) (ho : X * X < (R + h) * (R + h) - b * b)
    (hc : R * R - b * b ≤ 0) :
    hitDistance (intersect R h ⟨1, 0, 0⟩ ⟨-X, b, 0⟩) = X + Real.sqrt ((R + h) * (R + h) - b * b) := by
  have eD : (1 * -X + 0 * b + 0 * 0) * (1 * -X + 0 * b + 0 * 0) - (-X * -X + b * b + 0 * 0) + (R + h) * (R + h)
      = (R + h) * (R + h) - b * b := by ring
  have eP : (1 * -X + 0 * b + 0 * 0) * (1 * -X + 0 * b + 0 * 0) - (-X * -X + b * b + 0 * 0) + R * R
      = R * R - b * b := by ring
  have esd : -(1 * -X + 0 * b + 0 * 0) = X := by ring
  set D := (R + h) * (R + h) - b * b with hD
  have hsX : X < Real.sqrt D := by
    have := Real.sqrt_lt_sqrt (mul_self_nonneg X) ho
    rwa [Real.sqrt_mul_self hX] at this
  simp only [intersect, hitDistance, dot, normSq, norm, V3.mul, V3.sum, V3.add, V3.sub, V3.smul, sqrt_real, eD, eP, esd]
  rw [if_neg (not_lt.2 hc)]
  rw [clamp0_of_nonneg (by linarith : 0 ≤ X + Real.sqrt D)]
  have hcl : clamp0 (X - Real.sqrt D) = 0 := by unfold clamp0; rw [if_pos (by linarith)]
  rw [hcl]
  have hv : ¬ ((-X - (-X + (X + Real.sqrt D) * 1)) * (-X - (-X + (X + Real.sqrt D) * 1))
      + (b - (b + (X + Real.sqrt D) * 0)) * (b - (b + (X + Real.sqrt D) * 0))
      + (0 - (0 + (X + Real.sqrt D) * 0)) * (0 - (0 + (X + Real.sqrt D) * 0))
      < (-X - (-X + 0 * 1)) * (-X - (-X + 0 * 1)) + (b - (b + 0 * 0)) * (b - (b + 0 * 0))
      + (0 - (0 + 0 * 0)) * (0 - (0 + 0 * 0))) := by
    intro hlt; nlinarith [mul_self_nonneg (X + Real.sqrt D)]
  rw [if_neg hv, if_neg hv]
  have : (-X + (X + Real.sqrt D) * 1 - (-X + 0 * 1)) * (-X + (X + Real.sqrt D) * 1 - (-X + 0 * 1))
      + (b + (X + Real.sqrt D) * 0 - (b + 0 * 0)) * (b + (X + Real.sqrt D) * 0 - (b + 0 * 0))
      + (0 + (X + Real.sqrt D) * 0 - (0 + 0 * 0)) * (0 + (X + Real.sqrt D) * 0 - (0 + 0 * 0))
      = (X + Real.sqrt D) * (X + Real.sqrt D) := by ring
  rw [this, Real.sqrt_mul_self (by linarith)]

end Taurex.Geometry
