/-
  C13 — the transmission forward model (`Taurex.Transmission`, the C01 model) is column-wise:
  selecting wavenumbers before or after the computation gives the same values.
-/
import Proofs.RealInst
import TaurexModel.Transmission

namespace Taurex.C13L
open Taurex.Transmission

/-- evaluate a contribution on a selection `σ` of the wavenumber columns (`sigma_xsec[:, σ]`) -/
def reindex (σ : ℕ → ℕ) (c : Contrib ℝ) : Contrib ℝ := ⟨c.kind, fun l w => c.sigma l (σ w)⟩

theorem term_reindex (σ : ℕ → ℕ) (c : Contrib ℝ) (path dens : ℕ → ℝ) (l w k : ℕ) :
    term (reindex σ c) path dens l w k = term c path dens l (σ w) k := by
  unfold term reindex
  cases c.kind <;> rfl

theorem nTerms_reindex (σ : ℕ → ℕ) (c : Contrib ℝ) (n l : ℕ) : nTerms (reindex σ c) n l = nTerms c n l := by
  unfold nTerms reindex
  cases c.kind <;> rfl

theorem accFrom_congr (a b : ℝ) (n : ℕ) (f g : ℕ → ℝ) (hab : a = b) (hfg : ∀ k, f k = g k) :
    accFrom a n f = accFrom b n g := by
  unfold accFrom
  subst hab
  have : f = g := funext hfg
  rw [this]

theorem addContrib_reindex (σ : ℕ → ℕ) (c : Contrib ℝ) (n : ℕ) (path dens : ℕ → ℝ) (l : ℕ) (acc acc' : ℕ → ℝ)
    (h : ∀ w, acc' w = acc (σ w)) (w : ℕ) :
    addContrib (reindex σ c) n path dens l acc' w = addContrib c n path dens l acc (σ w) := by
  unfold addContrib
  rw [nTerms_reindex]
  exact accFrom_congr _ _ _ _ _ (h w) (fun k => term_reindex σ c path dens l w k)

theorem tauFullFrom_reindex (σ : ℕ → ℕ) (n : ℕ) (path dens : ℕ → ℝ) (l : ℕ) (cs : List (Contrib ℝ))
    (acc acc' : ℕ → ℝ) (h : ∀ w, acc' w = acc (σ w)) (w : ℕ) :
    tauFullFrom n path dens l (cs.map (reindex σ)) acc' w = tauFullFrom n path dens l cs acc (σ w) := by
  induction cs generalizing acc acc' with
  | nil => simpa [tauFullFrom] using h w
  | cons c cs ih =>
    simp only [tauFullFrom, List.map_cons, List.foldl_cons] at *
    exact ih _ _ (fun w' => addContrib_reindex σ c n path dens l acc acc' h w')

end Taurex.C13L
