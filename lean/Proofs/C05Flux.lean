/-
  C05: `FluxBinner.bindown` (model `fluxBinVal`, `fluxBinErr`) against the specification, and the
  order-independence / histogram lemmas.
-/
import Proofs.C05Window

namespace Taurex.Binning
open List Taurex.Interp

/-- some bin has positive overlap when the total is positive -/
theorem exists_pos_of_sum_pos (rows : List (Row ℝ)) (a b : ℝ) (h : 0 < (rows.map (overlap a b)).sum) :
    ∃ r ∈ rows, 0 < overlap a b r := by
  by_contra hcon
  simp only [not_exists, not_and, not_lt] at hcon
  have : (rows.map (overlap a b)).sum = 0 := by
    apply List.sum_eq_zero
    intro x hx
    obtain ⟨r, hr, rfl⟩ := List.mem_map.1 hx
    exact le_antisymm (hcon r hr) (overlap_nonneg a b r)
  linarith

theorem slice_subset {β : Type} (l : List β) (s t : Nat) : ∀ r ∈ slice l s t, r ∈ l := by
  intro r hr
  exact List.mem_of_mem_drop (List.mem_of_mem_take hr)

/-- inside the window the code's weight is the true overlap divided by the target width -/
theorem window_weights (rows : List (Row ℝ)) (a b : ℝ) (hne : rows ≠ [])
    (hord : OrderedBins rows) (hw : ∀ r ∈ rows, r.lo ≤ r.hi) (hab : a < b) (s t : Nat)
    (hwin : window rows a b = some (s, t)) :
    ∀ r ∈ slice rows s t, weight a b r = overlap a b r / (b - a) := by
  obtain ⟨_, _, W3⟩ := window_some rows a b hne hord s t hwin
  intro r hr
  exact weight_eq_overlap a b r hab (hw r (slice_subset rows s t r hr)) (W3 r hr).1 (W3 r hr).2

/-- with positive total overlap the bin is not skipped -/
theorem window_isSome_of_pos (rows : List (Row ℝ)) (a b : ℝ) (hne : rows ≠ [])
    (hord : OrderedBins rows) (hpos : 0 < (rows.map (overlap a b)).sum) :
    ∃ s t, window rows a b = some (s, t) := by
  obtain ⟨r0, hr0, hr0pos⟩ := exists_pos_of_sum_pos rows a b hpos
  cases hwin : window rows a b with
  | none =>
    have := window_none rows a b hne hord hwin r0 hr0
    linarith
  | some st => exact ⟨st.1, st.2, rfl⟩

theorem flux_eq_spec (val : Row ℝ → ℝ) (rows : List (Row ℝ)) (a b : ℝ) (hne : rows ≠ [])
    (hord : OrderedBins rows) (hw : ∀ r ∈ rows, r.lo ≤ r.hi) (hab : a < b)
    (hpos : 0 < sumL (rows.map (overlap a b))) :
    fluxBinVal val rows a b = overlapMeanSpec val rows a b := by
  rw [sumL_eq_sum] at hpos
  obtain ⟨s, t, hwin⟩ := window_isSome_of_pos rows a b hne hord hpos
  obtain ⟨W1, W2, _⟩ := window_some rows a b hne hord s t hwin
  have W3 := window_weights rows a b hne hord hw hab s t hwin
  unfold fluxBinVal
  rw [hwin]
  have hba : 0 < b - a := by linarith
  simp only [sumL_eq_sum]
  rw [overlapMeanSpec_eq]
  have e1 : (slice rows s t).map (weight a b) = (slice rows s t).map (fun r => overlap a b r * (b - a)⁻¹) := by
    apply List.map_congr_left
    intro r hr
    rw [W3 r hr, div_eq_mul_inv]
  have S1 : ((slice rows s t).map (overlap a b)).sum = (rows.map (overlap a b)).sum :=
    (sum_slice (overlap a b) rows s t W1 W2).symm
  have S2 : ((slice rows s t).map (fun r => overlap a b r * val r)).sum =
      (rows.map (fun r => overlap a b r * val r)).sum :=
    (sum_slice (fun r => overlap a b r * val r) rows s t
      (fun r hr => by rw [W1 r hr, zero_mul]) (fun r hr => by rw [W2 r hr, zero_mul])).symm
  rw [e1, List.sum_map_mul_right, S1]
  set S := (rows.map (overlap a b)).sum with hS
  have e2 : (slice rows s t).map (fun r => weight a b r / (S * (b - a)⁻¹) * val r) =
      (slice rows s t).map (fun r => overlap a b r * val r * S⁻¹) := by
    apply List.map_congr_left
    intro r hr
    rw [W3 r hr]
    field_simp
  rw [e2, List.sum_map_mul_right, S2, div_eq_mul_inv]

/-- the code is linear in the spectrum whatever the native grid (the weights do not depend on it) -/
theorem flux_linear (x y : Row ℝ → ℝ) (rows : List (Row ℝ)) (a b k₁ k₂ : ℝ) :
    fluxBinVal (fun r => k₁ * x r + k₂ * y r) rows a b =
      k₁ * fluxBinVal x rows a b + k₂ * fluxBinVal y rows a b := by
  unfold fluxBinVal
  cases window rows a b with
  | none => simp
  | some st =>
    obtain ⟨s, t⟩ := st
    simp only [sumL_eq_sum]
    rw [← List.sum_map_mul_left, ← List.sum_map_mul_left, ← List.sum_map_add]
    congr 1
    apply List.map_congr_left
    intro r _
    ring

/-- a target bin strictly outside every native bin comes out as 0, and no division is involved:
    either the bin is skipped or its window is empty -/
theorem flux_outside_zero (val : Row ℝ → ℝ) (rows : List (Row ℝ)) (a b : ℝ) (hne : rows ≠ [])
    (hord : OrderedBins rows) (hout : ∀ r ∈ rows, r.hi < a ∨ b < r.lo) :
    fluxBinVal val rows a b = 0 ∧ (∀ s t, window rows a b = some (s, t) → slice rows s t = []) := by
  have hempty : ∀ s t, window rows a b = some (s, t) → slice rows s t = [] := by
    intro s t hwin
    obtain ⟨_, _, W3⟩ := window_some rows a b hne hord s t hwin
    apply List.eq_nil_iff_forall_not_mem.2
    intro r hr
    have h := W3 r hr
    rcases hout r (slice_subset rows s t r hr) with h1 | h2
    · linarith [h.1]
    · linarith [h.2]
  refine ⟨?_, hempty⟩
  unfold fluxBinVal
  cases hwin : window rows a b with
  | none => rfl
  | some st =>
    obtain ⟨s, t⟩ := st
    simp only [hempty s t hwin, List.map_nil, sumL, List.foldr_nil]

/-- a target bin wholly above or wholly below the native range is skipped (`continue`) -/
theorem window_none_of_outside (rows : List (Row ℝ)) (a b : ℝ) (hne : rows ≠ [])
    (hout : (∀ r ∈ rows, r.hi < a) ∨ (∀ r ∈ rows, b < r.lo)) : window rows a b = none := by
  have hn : 0 < rows.length := List.length_pos_iff.2 hne
  rw [window_unfold]
  have hsn : min (start0 rows a) (rows.length - 1) < rows.length := by omega
  have htn : min (stop0 rows b) (rows.length - 1) < rows.length := by omega
  rw [getD_map_of_lt _ _ _ hsn, getD_map_of_lt _ _ _ htn]
  rw [if_neg]
  rintro ⟨h1, h2⟩
  rcases hout with h | h
  · linarith [h _ (List.getElem_mem hsn)]
  · linarith [h _ (List.getElem_mem htn)]

/-! ### errors -/

theorem sum_sq_nonneg (err : Row ℝ → ℝ) (rows : List (Row ℝ)) (a b : ℝ) :
    0 ≤ (rows.map (fun r => overlap a b r * overlap a b r * (err r * err r))).sum := by
  apply List.sum_nonneg
  intro x hx
  obtain ⟨r, _, rfl⟩ := List.mem_map.1 hx
  exact mul_nonneg (mul_self_nonneg _) (mul_self_nonneg _)

theorem fluxErr_eq_quad (err : Row ℝ → ℝ) (rows : List (Row ℝ)) (a b : ℝ) (hne : rows ≠ [])
    (hord : OrderedBins rows) (hw : ∀ r ∈ rows, r.lo ≤ r.hi) (hab : a < b)
    (hpos : 0 < sumL (rows.map (overlap a b))) :
    fluxBinErr err rows a b = quadErrSpec err rows a b := by
  rw [sumL_eq_sum] at hpos
  obtain ⟨s, t, hwin⟩ := window_isSome_of_pos rows a b hne hord hpos
  obtain ⟨W1, W2, _⟩ := window_some rows a b hne hord s t hwin
  have W3 := window_weights rows a b hne hord hw hab s t hwin
  have hba : 0 < b - a := by linarith
  unfold fluxBinErr fluxBinNoise quadErrSpec
  rw [hwin]
  simp only [sumL_eq_sum, sqrt_real]
  have e1 : (slice rows s t).map (weight a b) = (slice rows s t).map (fun r => overlap a b r * (b - a)⁻¹) := by
    apply List.map_congr_left
    intro r hr
    rw [W3 r hr, div_eq_mul_inv]
  have S1 : ((slice rows s t).map (overlap a b)).sum = (rows.map (overlap a b)).sum :=
    (sum_slice (overlap a b) rows s t W1 W2).symm
  have e2 : (slice rows s t).map (fun r => weight a b r * weight a b r * (err r * err r)) =
      (slice rows s t).map (fun r => overlap a b r * overlap a b r * (err r * err r) * ((b - a)⁻¹ * (b - a)⁻¹)) := by
    apply List.map_congr_left
    intro r hr
    rw [W3 r hr]
    ring
  have S2 : ((slice rows s t).map (fun r => overlap a b r * overlap a b r * (err r * err r))).sum =
      (rows.map (fun r => overlap a b r * overlap a b r * (err r * err r))).sum :=
    (sum_slice (fun r => overlap a b r * overlap a b r * (err r * err r)) rows s t
      (fun r hr => by rw [W1 r hr]; ring) (fun r hr => by rw [W2 r hr]; ring)).symm
  rw [e1, e2, List.sum_map_mul_right, List.sum_map_mul_right, S1, S2]
  set S := (rows.map (overlap a b)).sum with hS
  set Q := (rows.map (fun r => overlap a b r * overlap a b r * (err r * err r))).sum with hQ
  have hQ0 : 0 ≤ Q := sum_sq_nonneg err rows a b
  have : Q * ((b - a)⁻¹ * (b - a)⁻¹) / (S * (b - a)⁻¹) / (S * (b - a)⁻¹) = Q / S ^ 2 := by
    field_simp
  rw [this, Real.sqrt_div hQ0, Real.sqrt_sq hpos.le]

/-! ### order independence -/

theorem nativeBins_perm (explicit : Bool) {rows₁ rows₂ : List (Row ℝ)} (hp : rows₁ ~ rows₂)
    (hd : (rows₁.map Row.c).Nodup) : nativeBins explicit rows₁ = nativeBins explicit rows₂ := by
  unfold nativeBins
  rw [sortBy_eq_of_perm Row.c hp hd]

theorem targetBins_perm (mode : WidthMode ℝ) {ts₁ ts₂ : List (TBin ℝ)} (hp : ts₁ ~ ts₂)
    (hd : (ts₁.map TBin.c).Nodup) : targetBins mode ts₁ = targetBins mode ts₂ := by
  unfold targetBins
  rw [sortBy_eq_of_perm TBin.c hp hd]

/-! ### histogram binner -/

/-- number of selected points as the code counts them: a sum of ones -/
theorem sum_ones (sel : List (Row ℝ)) : sumL (sel.map (fun _ => (1 : ℝ))) = (sel.length : ℝ) := by
  rw [sumL_eq_sum]
  induction sel with
  | nil => simp
  | cons x t ih => simp only [List.map_cons, List.sum_cons, List.length_cons, ih]; push_cast; ring

theorem meanOf_eq (val : Row ℝ → ℝ) (sel : List (Row ℝ)) :
    meanOf val sel = (sel.map val).sum / (sel.length : ℝ) := by
  unfold meanOf
  rw [sum_ones, sumL_eq_sum]

theorem mem_edgePairs (l : List ℝ) : ∀ p ∈ edgePairs l, p.1 ∈ l ∧ p.2.1 ∈ l := by
  induction l with
  | nil => intro p hp; simp [edgePairs] at hp
  | cons a t ih =>
    cases t with
    | nil => intro p hp; simp [edgePairs] at hp
    | cons b t' =>
      cases t' with
      | nil =>
        intro p hp
        simp only [edgePairs, List.mem_singleton] at hp
        subst hp
        simp
      | cons c t'' =>
        intro p hp
        rw [edgePairs] at hp
        · rcases List.mem_cons.1 hp with rfl | hp
          · simp
          · have := ih p hp
            exact ⟨List.mem_cons_of_mem _ this.1, List.mem_cons_of_mem _ this.2⟩
        · intro h; cases h

/-- when no native point sits on a bin edge both conventions select the points strictly inside -/
theorem hist_filters_agree (rows : List (Row ℝ)) (lo hi : ℝ) (last : Bool)
    (hno : ∀ r ∈ rows, r.c ≠ lo ∧ r.c ≠ hi) :
    rows.filter (fun r => inHist lo hi last r.c) = rows.filter (fun r => decide (lo < r.c ∧ r.c < hi)) ∧
    rows.filter (fun r => inDigit lo hi r.c) = rows.filter (fun r => decide (lo < r.c ∧ r.c < hi)) := by
  constructor
  · apply List.filter_congr
    intro r hr
    obtain ⟨h1, h2⟩ := hno r hr
    unfold inHist
    cases last <;> simp only [Bool.false_eq_true, if_false, if_true, Bool.decide_and]
    · rw [Bool.eq_iff_iff]
      simp only [Bool.and_eq_true, decide_eq_true_eq]
      constructor
      · rintro ⟨h3, h4⟩; exact ⟨lt_of_le_of_ne h3 (Ne.symm h1), h4⟩
      · rintro ⟨h3, h4⟩; exact ⟨h3.le, h4⟩
    · rw [Bool.eq_iff_iff]
      simp only [Bool.and_eq_true, decide_eq_true_eq]
      constructor
      · rintro ⟨h3, h4⟩; exact ⟨lt_of_le_of_ne h3 (Ne.symm h1), lt_of_le_of_ne h4 h2⟩
      · rintro ⟨h3, h4⟩; exact ⟨h3.le, h4.le⟩
  · apply List.filter_congr
    intro r hr
    obtain ⟨h1, h2⟩ := hno r hr
    unfold inDigit
    rw [Bool.eq_iff_iff]
    simp only [Bool.and_eq_true, decide_eq_true_eq]
    constructor
    · rintro ⟨h3, h4⟩; exact ⟨h3, lt_of_le_of_ne h4 h2⟩
    · rintro ⟨h3, h4⟩; exact ⟨h3, h4.le⟩

/-- sorted, non-overlapping bins of non-negative width are "ordered bins" -/
theorem disjoint_bins_ordered (rows : List (Row ℝ)) (hw : ∀ r ∈ rows, r.lo ≤ r.hi)
    (hdis : rows.Pairwise (fun r r' => r.hi ≤ r'.lo)) : OrderedBins rows := by
  constructor
  · refine (List.Pairwise.and_mem.1 hdis).imp ?_
    rintro r r' ⟨hr, _, h⟩
    exact le_trans (hw r hr) h
  · refine (List.Pairwise.and_mem.1 hdis).imp ?_
    rintro r r' ⟨_, hr', h⟩
    exact le_trans h (hw r' hr')

/-- the specification does not depend on the order of the native bins -/
theorem spec_perm (val : Row ℝ → ℝ) {rows₁ rows₂ : List (Row ℝ)} (hp : rows₁ ~ rows₂) (a b : ℝ) :
    overlapMeanSpec val rows₁ a b = overlapMeanSpec val rows₂ a b := by
  rw [overlapMeanSpec_eq, overlapMeanSpec_eq, (hp.map _).sum_eq, (hp.map _).sum_eq]

/-- the histogram mean does not depend on the order of the native points -/
theorem hist_perm (val : Row ℝ → ℝ) {rows₁ rows₂ : List (Row ℝ)} (hp : rows₁ ~ rows₂) (nb : List ℝ) :
    histMean1 val rows₁ nb = histMean1 val rows₂ nb ∧ histMeanN val rows₁ nb = histMeanN val rows₂ nb := by
  constructor
  · unfold histMean1
    apply List.map_congr_left
    intro p _
    rw [meanOf_eq, meanOf_eq, ((hp.filter _).map _).sum_eq, (hp.filter _).length_eq]
  · unfold histMeanN
    apply List.map_congr_left
    intro p _
    rw [meanOf_eq, meanOf_eq, ((hp.filter _).map _).sum_eq, (hp.filter _).length_eq]

end Taurex.Binning
