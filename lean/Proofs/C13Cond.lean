/-
  C13 — the last geometric step of "binning the restricted run" for NON-UNIFORM native grids.
  `full` is the native run in strictly increasing wavenumber, the restricted run keeps the points of the clip
  interval `[L, U]`, a contiguous sub-range `(full.drop i).take m`.  The mid-point bins of the sub-range are the
  bins of the full grid except (possibly) the first and the last, whose widths are re-derived from one neighbour;
  an end where the clip cuts nothing keeps its bin.  If every native spacing is at most `d` and the target
  `[a, b]` lies in `[L + 3/2·d, U - 3/2·d]`, the changed edge bins — in either run — end before `a` / start after
  `b`: their centre is less than one spacing inside the interval and their width is at most one spacing, so they
  reach at most `3/2` spacings into it.  Hence both runs have the same overlapping bins.
-/
import Proofs.C13Final
import TaurexModel.Grid

namespace Taurex.C13L
open Taurex.Binning List

/-! ### filters of two lists that agree wherever the predicate can hold -/

theorem filter_congr_pointwise {β : Type} (p : β → Bool) : ∀ (l₁ l₂ : List β), l₁.length = l₂.length →
    (∀ k, k < l₁.length → l₁[k]? = l₂[k]? ∨
      ((∀ r, l₁[k]? = some r → p r = false) ∧ (∀ r, l₂[k]? = some r → p r = false))) →
    l₁.filter p = l₂.filter p
  | [], [], _, _ => rfl
  | [], _ :: _, h, _ => by simp at h
  | _ :: _, [], h, _ => by simp at h
  | x :: t₁, y :: t₂, hl, h => by
    have ht := filter_congr_pointwise p t₁ t₂ (by simpa using hl) (fun k hk => by
      have := h (k + 1) (by simp only [List.length_cons]; omega)
      simpa using this)
    rcases h 0 (by simp) with h0 | ⟨h1, h2⟩
    · have hxy : x = y := by simpa using h0
      subst hxy
      rw [List.filter_cons, List.filter_cons, ht]
    · have hx := h1 x (by simp)
      have hy := h2 y (by simp)
      rw [List.filter_cons, List.filter_cons, hx, hy]
      simpa using ht

/-! ### the mid-point widths at the two ends and in between -/

theorem width_first (g : List ℝ) (hn : 2 ≤ g.length) (hg : g.Pairwise (· < ·)) :
    (computeBinEdges g).2.getD 0 0 = spacing g 0 := by
  rw [getD_widths g hn hg 0 (by omega)]
  unfold spacingL
  rw [if_pos rfl, if_neg (by omega)]; ring

theorem width_last (g : List ℝ) (hn : 2 ≤ g.length) (hg : g.Pairwise (· < ·)) :
    (computeBinEdges g).2.getD (g.length - 1) 0 = spacing g (g.length - 2) := by
  rw [getD_widths g hn hg (g.length - 1) (by omega)]
  unfold spacingL
  rw [if_neg (by omega), if_pos (by omega)]
  have : g.length - 1 - 1 = g.length - 2 := by omega
  rw [this]; ring

theorem width_mid (g : List ℝ) (hn : 2 ≤ g.length) (hg : g.Pairwise (· < ·)) (k : Nat) (hk0 : 0 < k)
    (hk : k + 1 < g.length) :
    (computeBinEdges g).2.getD k 0 = (spacing g (k - 1) + spacing g k) / 2 := by
  rw [getD_widths g hn hg k (by omega)]
  unfold spacingL
  rw [if_neg (by omega), if_neg (by omega)]

/-- every mid-point width is at most the largest spacing -/
theorem width_le (g : List ℝ) (hn : 2 ≤ g.length) (hg : g.Pairwise (· < ·)) (δ : ℝ)
    (hd : ∀ j, j + 1 < g.length → spacing g j ≤ δ) (k : Nat) (hk : k < g.length) :
    (computeBinEdges g).2.getD k 0 ≤ δ := by
  by_cases h0 : k = 0
  · subst h0; rw [width_first g hn hg]; exact hd 0 (by omega)
  · by_cases h1 : k + 1 = g.length
    · have : k = g.length - 1 := by omega
      subst this; rw [width_last g hn hg]; exact hd _ (by omega)
    · rw [width_mid g hn hg k (by omega) (by omega)]
      have := hd (k - 1) (by omega)
      have := hd k (by omega)
      linarith

/-! ### rows of `nativeBins false`, with bounds -/

theorem native_row_mem_take (full : List (Row ℝ)) (hg : (full.map Row.c).Pairwise (· < ·)) (hn : 2 ≤ full.length)
    (i : Nat) (r : Row ℝ) (hr : r ∈ (nativeBins false full).take i) :
    ∃ k, ∃ hk : k < full.length, k < i ∧
      r = { full[k] with w := (computeBinEdges (full.map Row.c)).2.getD k 0 } := by
  obtain ⟨k, hk, rfl⟩ := List.mem_iff_getElem.1 hr
  rw [List.length_take, length_nativeBins_false full (by omega)] at hk
  have hk' : k < full.length := by omega
  refine ⟨k, hk', by omega, ?_⟩
  rw [List.getElem_take]
  have e := getElem?_nativeBins full hg k hk'
  rw [List.getElem?_eq_getElem (by rw [length_nativeBins_false full (by omega)]; exact hk')] at e
  exact Option.some.inj e

theorem native_row_mem_drop (full : List (Row ℝ)) (hg : (full.map Row.c).Pairwise (· < ·)) (hn : 2 ≤ full.length)
    (j : Nat) (r : Row ℝ) (hr : r ∈ (nativeBins false full).drop j) :
    ∃ k, ∃ hk : k < full.length, j ≤ k ∧
      r = { full[k] with w := (computeBinEdges (full.map Row.c)).2.getD k 0 } := by
  obtain ⟨k, hk, rfl⟩ := List.mem_iff_getElem.1 hr
  rw [List.length_drop, length_nativeBins_false full (by omega)] at hk
  have hk' : j + k < full.length := by omega
  refine ⟨j + k, hk', by omega, ?_⟩
  rw [List.getElem_drop]
  have e := getElem?_nativeBins full hg (j + k) hk'
  rw [List.getElem?_eq_getElem (by rw [length_nativeBins_false full (by omega)]; exact hk')] at e
  exact Option.some.inj e

theorem getD_map_c (full : List (Row ℝ)) (k : Nat) (hk : k < full.length) :
    (full.map Row.c).getD k 0 = full[k].c := by
  rw [List.getD_eq_getElem _ _ (by rw [List.length_map]; exact hk), List.getElem_map]

/-- a bin no wider than `d` whose centre is below `L + d` ends before `L + 3/2·d` -/
theorem overlap_zero_low (a b d L : ℝ) (r : Row ℝ) (ha : L + 3 / 2 * d ≤ a) (hc : r.c < L + d) (hw : r.w ≤ d) :
    overlap a b r = 0 := by
  apply overlap_zero_of_disjoint; left
  unfold Row.hi; linarith

/-- a bin no wider than `d` whose centre is above `U - d` starts after `U - 3/2·d` -/
theorem overlap_zero_high (a b d U : ℝ) (r : Row ℝ) (hb : b ≤ U - 3 / 2 * d) (hc : U - d < r.c) (hw : r.w ≤ d) :
    overlap a b r = 0 := by
  apply overlap_zero_of_disjoint; right
  unfold Row.lo; linarith

/-- total overlap only counts the overlapping bins -/
theorem sum_overlap_overlapping (a b : ℝ) (rows : List (Row ℝ)) :
    sumL (rows.map (overlap a b)) = sumL ((overlapping a b rows).map (overlap a b)) := by
  unfold overlapping
  rw [sumL_eq_sum, sumL_eq_sum]
  apply sum_map_filter_zero
  intro r _ h
  have h' : ¬ 0 < overlap a b r := by simpa using h
  exact le_antisymm (not_lt.1 h') (overlap_nonneg a b r)

/-! ### the clipped run keeps the overlapping bins -/

/-- **clip keeps the overlapping bins under the width condition** (any strictly increasing native grid).
    `hlo`/`hhi`: the rows cut by the clip lie below `L` / above `U` (`filter_interval_sorted`). -/
theorem clip_condition_overlapping_eq (full : List (Row ℝ)) (i m : Nat) (d L U a b : ℝ)
    (hg : (full.map Row.c).Pairwise (· < ·)) (hm : 2 ≤ m) (him : i + m ≤ full.length)
    (hdW : ∀ j, j + 1 < (full.map Row.c).length → spacing (full.map Row.c) j ≤ d)
    (ha : L + 3 / 2 * d ≤ a) (hb : b ≤ U - 3 / 2 * d)
    (hlo : ∀ r ∈ full.take i, r.c < L) (hhi : ∀ r ∈ full.drop (i + m), U < r.c) :
    overlapping a b (nativeBins false full) = overlapping a b (nativeBins false ((full.drop i).take m)) := by
  set g := full.map Row.c with hgdef
  have hn : 2 ≤ full.length := by omega
  have hng : 2 ≤ g.length := by rw [hgdef, List.length_map]; exact hn
  have hlg : g.length = full.length := by rw [hgdef, List.length_map]
  set sub := (full.drop i).take m with hsub
  have hlen : sub.length = m := length_drop_take full i m him
  have hgs : (sub.map Row.c).Pairwise (· < ·) := by
    rw [hsub, map_drop_take]; exact sub_increasing _ i m hg
  have hlgs : (sub.map Row.c).length = m := by rw [List.length_map, hlen]
  have hspS : ∀ j, j + 1 < m → spacing (sub.map Row.c) j = spacing g (i + j) := by
    intro j hj; rw [hsub, map_drop_take, spacing_drop_take _ i m j hj]
  have hdS : ∀ j, j + 1 < (sub.map Row.c).length → spacing (sub.map Row.c) j ≤ d := by
    intro j hj; rw [hlgs] at hj; rw [hspS j hj]; exact hdW _ (by omega)
  have hdpos : 0 < d := lt_of_lt_of_le (spacing_pos g hg 0 (by omega)) (hdW 0 (by omega))
  have hwF : ∀ k, k < full.length → (computeBinEdges g).2.getD k 0 ≤ d :=
    fun k hk => width_le g hng hg _ hdW k (by omega)
  have hwS : ∀ k, k < m → (computeBinEdges (sub.map Row.c)).2.getD k 0 ≤ d :=
    fun k hk => width_le _ (by omega) hgs _ hdS k (by omega)
  -- centres of the cut rows
  have hcLo : ∀ k (hk : k < full.length), k < i → full[k].c < L := by
    intro k hk hki
    apply hlo
    rw [List.mem_iff_getElem]
    exact ⟨k, by rw [List.length_take]; omega, by rw [List.getElem_take]⟩
  have hcHi : ∀ k (hk : k < full.length), i + m ≤ k → U < full[k].c := by
    intro k hk hki
    apply hhi
    rw [List.mem_iff_getElem]
    refine ⟨k - (i + m), by rw [List.length_drop]; omega, ?_⟩
    rw [List.getElem_drop]; congr 1; omega
  -- step between neighbouring centres
  have hstep : ∀ k (hk : k + 1 < full.length), full[k + 1].c = full[k].c + spacing g k := by
    intro k hk
    unfold spacing
    rw [getD_map_c full (k + 1) hk, getD_map_c full k (by omega)]; ring
  -- (A) the full run only sees bins of the kept index range
  have hA : overlapping a b (nativeBins false full) =
      overlapping a b (((nativeBins false full).drop i).take m) := by
    apply overlapping_middle
    · intro r hr
      obtain ⟨k, hk, hki, rfl⟩ := native_row_mem_take full hg hn i r hr
      exact overlap_zero_low a b d L _ ha (by have := hcLo k hk hki; show full[k].c < _; linarith) (hwF k hk)
    · intro r hr
      obtain ⟨k, hk, hki, rfl⟩ := native_row_mem_drop full hg hn (i + m) r hr
      exact overlap_zero_high a b d U _ hb (by have := hcHi k hk hki; show _ < full[k].c; linarith) (hwF k hk)
  rw [hA]
  -- (B) bin by bin: equal, or out of reach in both runs
  unfold overlapping
  symm
  apply filter_congr_pointwise
  · rw [length_nativeBins_false sub (by omega), hlen, List.length_take, List.length_drop,
      length_nativeBins_false full (by omega)]
    omega
  · intro k hk
    rw [length_nativeBins_false sub (by omega), hlen] at hk
    have hik : i + k < full.length := by omega
    have hrow : sub[k]'(by omega) = full[i + k]'hik := by
      simp only [hsub, List.getElem_take, List.getElem_drop]
    have eC := getElem?_nativeBins sub hgs k (by omega)
    have eF : (((nativeBins false full).drop i).take m)[k]? =
        some { full[i + k] with w := (computeBinEdges g).2.getD (i + k) 0 } := by
      rw [List.getElem?_take, if_pos hk, List.getElem?_drop]
      exact getElem?_nativeBins full hg (i + k) hik
    rw [eC, eF, hrow]
    by_cases hcase1 : k = 0 ∧ 0 < i
    · -- the clip cut something below: both bins end before `a`
      right
      obtain ⟨hk0, hi0⟩ := hcase1
      have hc : (full[i + k]'hik).c < L + d := by
        have h1 := hcLo (i - 1) (by omega) (by omega)
        have h2 := hstep (i - 1) (by omega)
        have h3 := hdW (i - 1) (by omega)
        have e : full[i + k]'hik = full[i - 1 + 1]'(by omega) := by congr 1; omega
        rw [e, h2]; linarith
      have hz : ∀ w : ℝ, w ≤ d →
          decide (0 < overlap a b { full[i + k]'hik with w := w }) = false := by
        intro w hw
        rw [overlap_zero_low a b d L { full[i + k]'hik with w := w } ha hc hw]; simp
      constructor
      · intro r hr; rw [← Option.some.inj hr]; exact hz _ (hwS k hk)
      · intro r hr; rw [← Option.some.inj hr]; exact hz _ (hwF (i + k) hik)
    · by_cases hcase2 : k + 1 = m ∧ i + m < full.length
      · -- the clip cut something above: both bins start after `b`
        right
        obtain ⟨hk1, hi1⟩ := hcase2
        have hc : U - d < (full[i + k]'hik).c := by
          have h1 := hcHi (i + k + 1) (by omega) (by omega)
          have h2 := hstep (i + k) (by omega)
          have h3 := hdW (i + k) (by omega)
          rw [h2] at h1; linarith
        have hz : ∀ w : ℝ, w ≤ d →
            decide (0 < overlap a b { full[i + k]'hik with w := w }) = false := by
          intro w hw
          rw [overlap_zero_high a b d U { full[i + k]'hik with w := w } hb hc hw]; simp
        constructor
        · intro r hr; rw [← Option.some.inj hr]; exact hz _ (hwS k hk)
        · intro r hr; rw [← Option.some.inj hr]; exact hz _ (hwF (i + k) hik)
      · -- same bin in both runs
        left
        have hw : (computeBinEdges (sub.map Row.c)).2.getD k 0 = (computeBinEdges g).2.getD (i + k) 0 := by
          by_cases hk0 : k = 0
          · have hi0 : i = 0 := by omega
            subst hk0; subst hi0
            rw [width_first _ (by omega) hgs, hspS 0 (by omega), Nat.add_zero, width_first g hng hg]
          · by_cases hk1 : k + 1 = m
            · have hi1 : i + m = full.length := by omega
              have e1 : k = (sub.map Row.c).length - 1 := by omega
              have e2 : i + k = g.length - 1 := by omega
              rw [e2, width_last g hng hg]
              conv_lhs => rw [e1]
              rw [width_last _ (by omega) hgs, hlgs, hspS (m - 2) (by omega)]
              congr 1; omega
            · rw [width_mid _ (by omega) hgs k (by omega) (by omega), width_mid g hng hg (i + k) (by omega) (by omega),
                hspS (k - 1) (by omega), hspS k (by omega)]
              have : i + (k - 1) = i + k - 1 := by omega
              rw [this]
        rw [hw]

/-! ### a hereditary form of the mid-point spacing condition -/

/-- neighbouring spacings within a factor 4 of each other (linear grids: factor 1; logarithmic / constant-R grids
    `g[i+1] = r·g[i]`: factor `r`).  Unlike `MidpointSpacingOK` (whose end conditions look at one neighbour only)
    this is inherited by every contiguous sub-range. -/
def RatioOK (g : List ℝ) : Prop :=
  ∀ j, j + 2 < g.length → spacing g (j + 1) ≤ 4 * spacing g j ∧ spacing g j ≤ 4 * spacing g (j + 1)

theorem ratio_spacing_ok (g : List ℝ) (hg : g.Pairwise (· < ·)) (h : RatioOK g) : MidpointSpacingOK g := by
  intro i hi
  have hp := spacing_pos g hg i hi
  have hR : spacingR g i ≤ 4 * spacing g i ∧ 0 < spacingR g i := by
    unfold spacingR
    split
    · exact ⟨(h i (by omega)).1, spacing_pos g hg (i + 1) (by omega)⟩
    · exact ⟨by linarith, hp⟩
  have hL : spacingL g i ≤ 4 * spacing g i ∧ 0 < spacingL g i := by
    unfold spacingL
    split
    · exact ⟨by linarith, hp⟩
    · have := (h (i - 1) (by omega)).2
      have e : i - 1 + 1 = i := by omega
      rw [e] at this
      exact ⟨this, spacing_pos g hg (i - 1) (by omega)⟩
  constructor <;> linarith [hR.1, hR.2, hL.1, hL.2]

theorem ratio_sub (g : List ℝ) (i m : Nat) (him : i + m ≤ g.length) (h : RatioOK g) :
    RatioOK ((g.drop i).take m) := by
  intro j hj
  rw [length_drop_take g i m him] at hj
  rw [spacing_drop_take g i m (j + 1) (by omega), spacing_drop_take g i m j (by omega)]
  exact h (i + j) (by omega)

/-- logarithmic / constant-R grids with step ratio `1 < r ≤ 4` -/
theorem geometric_ratio_ok (g : List ℝ) (r : ℝ) (h0 : 0 < g.getD 0 0) (hr1 : 1 < r) (hr4 : r ≤ 4)
    (hgeo : ∀ i, i + 1 < g.length → g.getD (i + 1) 0 = r * g.getD i 0) : RatioOK g := by
  intro j hj
  have hpos := geometric_pos g r h0 (by linarith) hgeo j (by omega)
  have e1 : spacing g j = (r - 1) * g.getD j 0 := by unfold spacing; rw [hgeo j (by omega)]; ring
  have e2 : spacing g (j + 1) = r * ((r - 1) * g.getD j 0) := by
    unfold spacing; rw [hgeo (j + 1) (by omega), hgeo j (by omega)]; ring
  rw [e1, e2]
  have ht : 0 < (r - 1) * g.getD j 0 := mul_pos (by linarith) hpos
  constructor <;> nlinarith

/-! ### the clip on rows is the model's `clipNative` on their centres -/

theorem filter_inside_clipNative (full : List (Row ℝ)) (wn : List ℝ) :
    (full.filter (inside (Taurex.Grid.minL wn - Taurex.Grid.clipMargin wn) (Taurex.Grid.maxL wn + Taurex.Grid.clipMargin wn))).map Row.c =
      Taurex.Grid.clipNative (full.map Row.c) wn := by
  unfold Taurex.Grid.clipNative
  rw [List.filter_map]
  rfl

/-- the same for the pre-fix clip (margin = the widest bin) -/
theorem filter_inside_clipNativePinned (full : List (Row ℝ)) (wn : List ℝ) :
    (full.filter (inside (Taurex.Grid.minL wn - Taurex.Grid.clipMarginPinned wn)
      (Taurex.Grid.maxL wn + Taurex.Grid.clipMarginPinned wn))).map Row.c =
      Taurex.Grid.clipNativePinned (full.map Row.c) wn := by
  unfold Taurex.Grid.clipNativePinned
  rw [List.filter_map]
  rfl

end Taurex.C13L
