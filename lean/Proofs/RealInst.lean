/-
  The real-number carrier of the model: `Transc ℝ`, and the rewriting lemmas that turn the model's
  transcendental operations into Mathlib's.  Arithmetic and order need no bridge: the model uses the
  standard operator classes, so at `ℝ` they *are* Mathlib's instances.
-/
import Mathlib.Analysis.SpecialFunctions.Log.Basic
import Mathlib.Analysis.SpecialFunctions.Pow.Real
import Mathlib.Analysis.SpecialFunctions.Sqrt
import TaurexModel.Num

namespace Taurex

noncomputable instance : Transc ℝ where
  exp := Real.exp
  log := Real.log
  log10 := fun x => Real.log x / Real.log 10
  sqrt := Real.sqrt
  pow10 := fun x => (10 : ℝ) ^ x

@[simp] theorem exp_real (x : ℝ) : (Transc.exp x : ℝ) = Real.exp x := rfl
@[simp] theorem log_real (x : ℝ) : (Transc.log x : ℝ) = Real.log x := rfl
@[simp] theorem log10_real (x : ℝ) : (Transc.log10 x : ℝ) = Real.log x / Real.log 10 := rfl
@[simp] theorem sqrt_real (x : ℝ) : (Transc.sqrt x : ℝ) = Real.sqrt x := rfl
@[simp] theorem pow10_real (x : ℝ) : (Transc.pow10 x : ℝ) = (10 : ℝ) ^ x := rfl

end Taurex
