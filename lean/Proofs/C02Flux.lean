/-
  C02 — helper lemmas for the flux-level hot/cold bound (Props/C02.lean: flux_between, eclipse_between).
-/
import Proofs.C02Full

namespace Taurex.Emission

theorem zip_map_map (I : ℝ → ℝ) (xs wts : List ℝ) :
    ((xs.map I).zip (xs.zip wts)).map (fun q => (q.1, wOf q.2.2, muInvOf q.2.1))
      = (xs.zip wts).map (fun p => (I p.1, wOf p.2, muInvOf p.1)) := by
  induction xs generalizing wts with
  | nil => simp
  | cons x xs ih =>
    cases wts with
    | nil => simp
    | cons w ws => simp only [List.map_cons, List.zip_cons_cons, ih ws]

theorem fluxOf_map (npPi : ℝ) (I : ℝ → ℝ) (xs wts : List ℝ) :
    fluxOf npPi (xs.map I) xs wts
      = 2 * npPi * ((xs.zip wts).map (fun p => I p.1 * (wOf p.2 / muInvOf p.1))).sum := by
  unfold fluxOf fluxTotal
  rw [zip_map_map, angleSum_eq, List.map_map]
  rfl

theorem sum_weighted_bounds (I : ℝ → ℝ) (lo hi : ℝ) (l : List (ℝ × ℝ)) (g : ℝ × ℝ → ℝ)
    (hI : ∀ p ∈ l, lo ≤ I p.1 ∧ I p.1 ≤ hi) (hg : ∀ p ∈ l, 0 ≤ g p) :
    lo * (l.map g).sum ≤ (l.map (fun p => I p.1 * g p)).sum ∧
    (l.map (fun p => I p.1 * g p)).sum ≤ hi * (l.map g).sum := by
  induction l with
  | nil => simp
  | cons p ps ih =>
    have h := ih (fun q hq => hI q (List.mem_cons_of_mem _ hq)) (fun q hq => hg q (List.mem_cons_of_mem _ hq))
    have hp := hI p List.mem_cons_self
    have hgp := hg p List.mem_cons_self
    simp only [List.map_cons, List.sum_cons]
    constructor <;> nlinarith [mul_le_mul_of_nonneg_right hp.1 hgp, mul_le_mul_of_nonneg_right hp.2 hgp]

end Taurex.Emission
