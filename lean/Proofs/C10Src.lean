/-
  Helper lemmas of Props/C10Src.lean (source tie of C10), generic in the carrier (core only, no algebra).
  The translated code holds a Python list of arrays as `List (Nat → α)`; the model holds `List (List α)`.
  `rowsOf n` cuts every array to its `n` entries.
-/
import TaurexModel.Chemistry
set_option linter.unusedSectionVars false

namespace Taurex.C10Src
open Taurex Taurex.NpInterp Taurex.Chemistry

section
variable {α : Type} [Add α] [Sub α] [Mul α] [Div α] [Neg α] [LT α] [LE α]
  [DecidableLT α] [DecidableLE α] [OfNat α 0] [OfNat α 1]

/-- the `n` entries of an array held as a function -/
def listOf (n : Nat) (f : Nat → α) : List α := (List.range n).map f

/-- a Python list of arrays of `n` entries, as the model's list of lists -/
def rowsOf (n : Nat) (rs : List (Nat → α)) : List (List α) := rs.map (listOf n)

theorem listOf_length (n : Nat) (f : Nat → α) : (listOf n f).length = n := by simp [listOf]

theorem listOf_getD (n : Nat) (f : Nat → α) (i : Nat) (hi : i < n) : (listOf n f).getD i 0 = f i := by
  simp [listOf, List.getD_eq_getElem?_getD, hi]

theorem listOf_congr (n : Nat) (f g : Nat → α) (h : ∀ i, i < n → f i = g i) : listOf n f = listOf n g := by
  unfold listOf
  apply List.map_congr_left
  intro i hi
  exact h i (List.mem_range.mp hi)

theorem listOf_map (n : Nat) (f : Nat → α) (g : α → α) : (listOf n f).map g = listOf n (fun i => g (f i)) := by
  simp [listOf, List.map_map, Function.comp_def]

theorem listOf_const (n : Nat) (c : α) : listOf n (fun _ => c) = List.replicate n c := by
  unfold listOf
  induction n with
  | zero => rfl
  | succ k ih => rw [List.range_succ, List.map_append, ih]; simp [List.replicate_succ']

theorem zipWith_listOf (n : Nat) (f g : Nat → α) (op : α → α → α) :
    List.zipWith op (listOf n f) (listOf n g) = listOf n (fun i => op (f i) (g i)) := by
  unfold listOf
  rw [List.zipWith_map]
  simp [List.zipWith_self]

/-- an array read off a list is that list -/
theorem listOf_getD_self (l : List α) (n : Nat) (h : l.length = n) : listOf n (fun i => l.getD i 0) = l := by
  subst h
  apply List.ext_getElem
  · simp [listOf]
  · intro i h1 h2
    simp [listOf, List.getD_eq_getElem?_getD]
    rw [List.getElem?_eq_getElem (by simpa [listOf] using h1)]
    rfl

theorem rowsOf_append (n : Nat) (a b : List (Nat → α)) : rowsOf n (a ++ b) = rowsOf n a ++ rowsOf n b := by
  simp [rowsOf]

theorem foldl_congr_mem {β γ : Type} (f g : γ → β → γ) (l : List β) (a : γ)
    (h : ∀ a, ∀ b ∈ l, f a b = g a b) : l.foldl f a = l.foldl g a := by
  induction l generalizing a with
  | nil => rfl
  | cons x xs ih =>
    rw [List.foldl_cons, List.foldl_cons, h a x (List.mem_cons_self), ih]
    intro a b hb
    exact h a b (List.mem_cons_of_mem _ hb)

/-- `for x in xs: acc.append(g(x))` -/
theorem foldl_append_singleton {β γ : Type} (g : β → γ) (xs : List β) (init : List γ) :
    xs.foldl (fun acc x => acc ++ [g x]) init = init ++ xs.map g := by
  induction xs generalizing init with
  | nil => simp
  | cons x xs ih => rw [List.foldl_cons, ih]; simp

/-- a fold that updates an array entry by entry, read at one entry -/
theorem foldl_fun_apply {β : Type} (g : β → Nat → α) (xs : List β) (f0 : Nat → α) (i : Nat) :
    (xs.foldl (fun (f : Nat → α) x => fun j => f j + g x j) f0) i = xs.foldl (fun a x => a + g x i) (f0 i) := by
  induction xs generalizing f0 with
  | nil => rfl
  | cons x xs ih => rw [List.foldl_cons, ih, List.foldl_cons]

/-- list-of-lists accumulation (`zipWith (+)`) against the entry-wise fold -/
theorem foldl_zipWith_listOf {β : Type} (n : Nat) (g : β → Nat → α) (xs : List β) (f0 : Nat → α) :
    xs.foldl (fun acc x => List.zipWith (· + ·) acc (listOf n (g x))) (listOf n f0)
      = listOf n (fun i => xs.foldl (fun a x => a + g x i) (f0 i)) := by
  induction xs generalizing f0 with
  | nil => rfl
  | cons x xs ih =>
    rw [List.foldl_cons, zipWith_listOf, ih]
    rfl

/-- `sum(mix_profile)` of the model on rows cut from arrays -/
theorem totalMix_rowsOf (n : Nat) (rows : List (Nat → α)) :
    totalMix (rowsOf n rows) n = listOf n (fun i => rows.foldl (fun a r => a + r i) 0) := by
  unfold totalMix rowsOf
  rw [List.foldl_map, ← listOf_const]
  exact foldl_zipWith_listOf n (fun r => r) rows (fun _ => 0)

theorem any_listOf (n : Nat) (f : Nat → α) (p : α → Bool) :
    (listOf n f).any p = (List.range n).any (fun i => p (f i)) := by
  simp [listOf, List.any_map, Function.comp_def]

end

end Taurex.C10Src
