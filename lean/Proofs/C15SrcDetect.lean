/-
  C15 — source tie of `detect_and_return_klass` (taurex/parameter/factory.py) and `build_new_mixed_class`
  (taurex/mixin/core.py): the two functions `determine_klass` reaches through the oracle of `Proofs/C15SrcOracle.lean`
  (`World.ext.call (.fn "detect_and_return_klass") …`, `… "build_new_mixed_class" …`) are translated themselves, and run
  here against a LOWER-LEVEL oracle `detectExt` that only knows the machinery they delegate to:

  * `importlib.util.spec_from_file_location("foo", file)`, `module_from_spec(spec)`, `spec.loader.exec_module(foo)`: loading
    the file — `exec_module` raises for a file the world does not have (`customs`), otherwise the module object exists;
  * `inspect.getmembers(foo, inspect.isclass)`: the classes of the module as `(name, class)` pairs SORTED BY NAME
    (`Factory.sortByName`, the documented behaviour) — and, anywhere in between, the section base classes the file has
    imported (`Imports`: which base classes appear before which class, and which after the last), because a custom file
    usually does `from taurex… import TemperatureProfile`;
  * `issubclass(c, base)`: a class of the world derives from the base of section `sec` iff `sec ∈ c.sections`; a base class
    is a subclass of itself only;
  * `type(name, bases, namespace)`: class creation — the class `mixed ms b` for `bases = ms ++ [b]`, `TypeError` for a
    repeated base;
  * `hasattr(x, '__len__')`: true for lists and tuples.
  Encoding of the objects (constructors of `Obj` re-used, this oracle is used for these two functions only): the spec of
  `file` is `.other file`, its loader `.ref file`, the loaded module `.module file`, `inspect.isclass` is `.fn "inspect.isclass"`.

  The theorems (`Props/C15Src.lean`) state that the regenerated functions, run against `detectExt`, return exactly what the
  main oracle answers for them — so what `determine_klass` is tied against IS the translated selection logic: which members
  are candidates (classes deriving from the base, the base itself excluded by identity), the pick (`classes[0]` of the
  name-sorted members), `Exception` when there is none, and the MRO order `tuple(mixins) + (base,)`.
-/
import Proofs.C15SrcLemmas
import Proofs.C15Sort
set_option linter.unusedSectionVars false
set_option linter.unusedVariables false

namespace Taurex.C15Src
open Taurex.Gen Taurex.Gen.Dyn
open Taurex.Factory (Scalar Value Config Klass Registry SectionReg Resolved Err Customs Component)
open Taurex.C15L (filter_sortByName)

/-- the section base classes a custom file has imported, by where `inspect.getmembers` lists them among the file's
    classes: `before k` right before class `k`, `last` after the last class; a base class is `(its __name__, its section)` -/
structure Imports where
  before : Klass → List (String × String)
  last : List (String × String)

def baseEntry (b : String × String) : V := .tuple [.str b.1, .obj (.base b.1 b.2)]
def klassEntry (k : Klass) : V := .tuple [.str k.name, kobj k]

/-- `inspect.getmembers(module, inspect.isclass)`: the classes sorted by name, imported base classes in between -/
def membersOf (imp : Imports) (members : List Klass) : List V :=
  (Factory.sortByName members).flatMap (fun k => (imp.before k).map baseEntry ++ [klassEntry k]) ++ imp.last.map baseEntry

/-- `type(name, bases, ns)` on classes of the world: `bases = ms ++ [b]` -/
def typeOf (bases : List V) : M V :=
  match bases.mapM unKlass with
  | some ks =>
    match ks.getLast? with
    | some b =>
      if Factory.hasDup (ks.map (·.path)) then .error .TypeError else .ok (.obj (.mixed ks.dropLast b))
    | none => .error .TypeError
  | none => .error .TypeError

def detectExt (w : World) (imp : String → Imports) : Ext M Scalar Obj :=
  { w.ext with
    global := fun name =>
      if name = "importlib" then .ok (.obj (.module "importlib")) else w.ext.global name
    getattr := fun o name =>
      match o with
      | .module m =>
        if m = "importlib" ∧ name = "util" then .ok (.obj (.module "importlib.util"))
        else if m = "inspect" ∧ name = "isclass" then .ok (.obj (.fn "inspect.isclass"))
        else w.ext.getattr o name
      | .other file => if name = "loader" then .ok (.obj (.ref file)) else w.ext.getattr o name
      | _ => w.ext.getattr o name
    method := fun o name args kw =>
      match o with
      | .module m =>
        if m = "importlib.util" ∧ name = "spec_from_file_location" then
          match args with
          | [_, .str file] => .ok (.obj (.other file))
          | _ => .error .Exception
        else if m = "importlib.util" ∧ name = "module_from_spec" then
          match args with
          | [.obj (.other file)] => .ok (.obj (.module file))
          | _ => .error .Exception
        else if m = "inspect" ∧ name = "getmembers" then
          match args with
          | [.obj (.module file), .obj (.fn "inspect.isclass")] =>
            match w.customs.lookup file with
            | some members => .ok (.list (membersOf (imp file) members))
            | none => .error .Exception
          | _ => .error .TypeError
        else w.ext.method o name args kw
      | .ref file =>
        if name = "exec_module" then
          match w.customs.lookup file with
          | some _ => .ok .none
          | none => .error .Exception
        else w.ext.method o name args kw
      | _ => w.ext.method o name args kw
    op := fun name args =>
      if name = "issubclass" then
        match args with
        | [.obj (.klass k), .obj (.base _ sec)] => .ok (.bool (k.sections.contains sec))
        | [.obj (.base n' s'), .obj (.base n s)] => .ok (.bool (n' == n && s' == s))
        | _ => w.ext.op name args
      else if name = "type3" then
        match args with
        | [.str _, .tuple bases, .dict _] => typeOf bases
        | _ => .error .TypeError
      else if name = "hasattr" then
        match args with
        | [.list _, .str "__len__"] => .ok (.bool true)
        | [.tuple _, .str "__len__"] => .ok (.bool true)
        | [_, .str "__len__"] => .ok (.bool false)
        | _ => w.ext.op name args
      else w.ext.op name args }

section
variable (w : World) (imp : String → Imports)

@[simp] theorem dx_global_importlib : (detectExt w imp).global "importlib" = .ok (.obj (.module "importlib")) := rfl
@[simp] theorem dx_global_inspect : (detectExt w imp).global "inspect" = .ok (.obj (.module "inspect")) := rfl
@[simp] theorem dx_global_mixed_init : (detectExt w imp).global "mixed_init" = .ok (.obj (.fn "mixed_init")) := by
  have h : (detectExt w imp).global "mixed_init" = w.ext.global "mixed_init" := by
    show (if "mixed_init" = "importlib" then (Except.ok (Val.obj (Obj.module "importlib")) : M V)
      else w.ext.global "mixed_init") = _
    rw [if_neg (by decide)]
  rw [h]
  exact ext_global_fn w _ (by decide) (by decide) (by decide)
@[simp] theorem dx_getattr_util :
    (detectExt w imp).getattr (.module "importlib") "util" = .ok (.obj (.module "importlib.util")) := rfl
@[simp] theorem dx_getattr_isclass :
    (detectExt w imp).getattr (.module "inspect") "isclass" = .ok (.obj (.fn "inspect.isclass")) := rfl
@[simp] theorem dx_getattr_loader (file : String) :
    (detectExt w imp).getattr (.other file) "loader" = .ok (.obj (.ref file)) := rfl
@[simp] theorem dx_getattr_name (k : Klass) : (detectExt w imp).getattr (.klass k) "__name__" = .ok (.str k.name) := rfl
@[simp] theorem dx_spec (a : V) (file : String) (kw : List (String × V)) :
    (detectExt w imp).method (.module "importlib.util") "spec_from_file_location" [a, .str file] kw
      = .ok (.obj (.other file)) := rfl
@[simp] theorem dx_module_from_spec (file : String) (kw : List (String × V)) :
    (detectExt w imp).method (.module "importlib.util") "module_from_spec" [.obj (.other file)] kw
      = .ok (.obj (.module file)) := rfl
@[simp] theorem dx_exec_module (file : String) (a : List V) (kw : List (String × V)) :
    (detectExt w imp).method (.ref file) "exec_module" a kw
      = match w.customs.lookup file with
        | some _ => .ok .none
        | none => .error .Exception := rfl
@[simp] theorem dx_getmembers (file : String) (kw : List (String × V)) :
    (detectExt w imp).method (.module "inspect") "getmembers" [.obj (.module file), .obj (.fn "inspect.isclass")] kw
      = match w.customs.lookup file with
        | some members => .ok (.list (membersOf (imp file) members))
        | none => .error .Exception := rfl
@[simp] theorem dx_issubclass_klass (k : Klass) (n sec : String) :
    (detectExt w imp).op "issubclass" [.obj (.klass k), .obj (.base n sec)] = .ok (.bool (k.sections.contains sec)) := rfl
@[simp] theorem dx_type3 (name : String) (bases : List V) (d : List (V × V)) :
    (detectExt w imp).op "type3" [.str name, .tuple bases, .dict d] = typeOf bases := rfl
@[simp] theorem dx_hasattr_list (l : List V) :
    (detectExt w imp).op "hasattr" [.list l, .str "__len__"] = .ok (.bool true) := rfl

end

/-! ### the comprehension `[m[1] for m in members if m[1] is not baseclass and issubclass(m[1], baseclass)]` -/

/-- one pass of the comprehension on a `(name, class)` pair: the class is kept iff it derives from the base -/
theorem pass_klass (w : World) (imp : String → Imports) (n sec : String) (k : Klass) (acc : List V) :
    (do
      let t__14 ← Dyn.getItem (detectExt w imp) (klassEntry k) (Dyn.Val.int 1)
      let t__15 ← Dyn.is_ (detectExt w imp) t__14 (.obj (.base n sec))
      let t__19 ← (if (!t__15) then (do
          let t__16 ← Dyn.getItem (detectExt w imp) (klassEntry k) (Dyn.Val.int 1)
          let t__17 ← (detectExt w imp).op "issubclass" [t__16, .obj (.base n sec)]
          let t__18 ← Dyn.truthy (detectExt w imp) t__17
          pure t__18) else pure false)
      if t__19 then (do
          let t__20 ← Dyn.getItem (detectExt w imp) (klassEntry k) (Dyn.Val.int 1)
          pure (acc ++ [t__20])) else pure acc : M (List V))
      = .ok (if k.sections.contains sec then acc ++ [kobj k] else acc) := by
  have hget : Dyn.getItem (detectExt w imp) (klassEntry k) (Dyn.Val.int 1) = (.ok (kobj k) : M V) := rfl
  have his : Dyn.is_ (detectExt w imp) (kobj k) (.obj (.base n sec)) = (.ok false : M Bool) := rfl
  simp only [hget, bind_ok, his, Bool.not_false, if_true, kobj, dx_issubclass_klass]
  cases k.sections.contains sec <;> rfl

/-- … on the pair of an imported base class: dropped — the base itself by identity, another section's base because it does
    not derive from this one -/
theorem pass_base (w : World) (imp : String → Imports) (n sec : String) (b : String × String) (acc : List V) :
    (do
      let t__14 ← Dyn.getItem (detectExt w imp) (baseEntry b) (Dyn.Val.int 1)
      let t__15 ← Dyn.is_ (detectExt w imp) t__14 (.obj (.base n sec))
      let t__19 ← (if (!t__15) then (do
          let t__16 ← Dyn.getItem (detectExt w imp) (baseEntry b) (Dyn.Val.int 1)
          let t__17 ← (detectExt w imp).op "issubclass" [t__16, .obj (.base n sec)]
          let t__18 ← Dyn.truthy (detectExt w imp) t__17
          pure t__18) else pure false)
      if t__19 then (do
          let t__20 ← Dyn.getItem (detectExt w imp) (baseEntry b) (Dyn.Val.int 1)
          pure (acc ++ [t__20])) else pure acc : M (List V))
      = .ok acc := by
  have hget : Dyn.getItem (detectExt w imp) (baseEntry b) (Dyn.Val.int 1) = (.ok (.obj (.base b.1 b.2)) : M V) := rfl
  have his : Dyn.is_ (detectExt w imp) (.obj (.base b.1 b.2)) (.obj (.base n sec))
      = (.ok (decide (Obj.base b.1 b.2 = Obj.base n sec)) : M Bool) := by
    show (pure (Obj.base b.1 b.2 == Obj.base n sec) : M Bool) = _
    rfl
  simp only [hget, bind_ok, his]
  by_cases h : Obj.base b.1 b.2 = Obj.base n sec
  · simp [h]
  · have hne : ¬ (b.1 = n ∧ b.2 = sec) := fun hh => h (by rw [hh.1, hh.2])
    have hsub : (detectExt w imp).op "issubclass" [.obj (.base b.1 b.2), .obj (.base n sec)]
        = .ok (.bool (b.1 == n && b.2 == sec)) := rfl
    have hb : (b.1 == n && b.2 == sec) = false := by
      cases h1 : (b.1 == n) <;> cases h2 : (b.2 == sec) <;> simp_all
    simp only [h, decide_false, Bool.not_false, if_true, hsub, bind_ok, hb]
    rfl

/-- the whole comprehension over the members `getmembers` lists: the classes that derive from the base, in name order -/
theorem comprehension (w : World) (imp : Imports) (imp' : String → Imports) (n sec : String) (body : List V → V → M (List V))
    (hk : ∀ k acc, body acc (klassEntry k) = .ok (if k.sections.contains sec then acc ++ [kobj k] else acc))
    (hb : ∀ b acc, body acc (baseEntry b) = .ok acc) (sorted : List Klass) (acc : List V) :
    Dyn.forM (sorted.flatMap (fun k => (imp.before k).map baseEntry ++ [klassEntry k]) ++ imp.last.map baseEntry) acc body
      = .ok (acc ++ (sorted.filter (fun k => k.sections.contains sec)).map kobj) := by
  have hbases : ∀ (bs : List (String × String)) (rest : List V) (acc : List V),
      Dyn.forM (bs.map baseEntry ++ rest) acc body = Dyn.forM rest acc body := by
    intro bs
    induction bs with
    | nil => intro rest acc; rfl
    | cons b bs ih =>
      intro rest acc
      show (body acc (baseEntry b) >>= fun s' => Dyn.forM (bs.map baseEntry ++ rest) s' body) = _
      rw [hb, bind_ok, ih]
  induction sorted generalizing acc with
  | nil =>
    simp only [List.flatMap_nil, List.nil_append, List.filter_nil, List.map_nil, List.append_nil]
    have := hbases imp.last [] acc
    rw [List.append_nil] at this
    rw [this]; rfl
  | cons k ks ih =>
    simp only [List.flatMap_cons, List.append_assoc]
    rw [hbases]
    show (body acc (klassEntry k) >>= fun s' => Dyn.forM _ s' body) = _
    rw [hk, bind_ok]
    show Dyn.forM (List.flatMap (fun k => List.map baseEntry (imp.before k) ++ [klassEntry k]) ks
      ++ List.map baseEntry imp.last) _ body = _
    rw [ih]
    by_cases hs : k.sections.contains sec = true
    · simp only [hs, if_true, List.filter_cons, List.map_cons, List.append_assoc, List.singleton_append]
    · simp only [hs, if_false, List.filter_cons, Bool.false_eq_true]

/-- `classes[0]` / the empty case, on the filtered sorted list: the model's `detectKlass` -/
theorem pick_first (members : List Klass) (sec : String) (w : World) (imp : String → Imports) :
    (do
      let t__22 ← Dyn.len (detectExt w imp)
        (Dyn.Val.list (((Factory.sortByName members).filter (fun k => k.sections.contains sec)).map kobj))
      let t__23 ← Dyn.eqB (detectExt w imp) t__22 (Dyn.Val.int 0)
      if t__23 then (throw Dyn.Exc.Exception : M V)
      else do
        let t__24 ← Dyn.getItem (detectExt w imp)
          (Dyn.Val.list (((Factory.sortByName members).filter (fun k => k.sections.contains sec)).map kobj)) (Dyn.Val.int 0)
        pure t__24)
      = embE kobj (match (Factory.sortByName members).filter (fun k => k.sections.contains sec) with
          | [] => .error (.generic "no class in custom file")
          | k :: _ => .ok k) := by
  cases (Factory.sortByName members).filter (fun k => k.sections.contains sec) with
  | nil =>
    have he : Dyn.eqB (detectExt w imp) (Dyn.Val.int 0) (Dyn.Val.int 0) = (.ok true : M Bool) := by
      show (pure (Dyn.Val.beq (φ := Scalar) (ω := Obj) (.int 0) (.int 0)) : M Bool) = _
      simp [Dyn.Val.beq]
    show (do
      let t__23 ← Dyn.eqB (detectExt w imp) (Dyn.Val.int 0) (Dyn.Val.int 0)
      if t__23 then (throw Dyn.Exc.Exception : M V)
      else do
        let t__24 ← Dyn.getItem (detectExt w imp) (Dyn.Val.list []) (Dyn.Val.int 0)
        pure t__24) = _
    rw [he]
    rfl
  | cons k ks =>
    show (do
      let t__23 ← Dyn.eqB (detectExt w imp) (Dyn.Val.int ((k :: ks).map kobj).length) (Dyn.Val.int 0)
      if t__23 then (throw Dyn.Exc.Exception : M V)
      else do
        let t__24 ← Dyn.getItem (detectExt w imp) (Dyn.Val.list ((k :: ks).map kobj)) (Dyn.Val.int 0)
        pure t__24) = _
    have hne : Dyn.eqB (detectExt w imp) (Dyn.Val.int ((k :: ks).map kobj).length) (Dyn.Val.int 0) = (.ok false : M Bool) := by
      show (pure (Dyn.Val.beq (φ := Scalar) (ω := Obj) (.int _) (.int 0)) : M Bool) = _
      simp [Dyn.Val.beq]
      omega
    rw [hne]
    rfl

/-! ### `build_new_mixed_class`: names, `"+".join`, duplicate bases -/

theorem mapM_unKlass_snoc (ms : List Klass) (b : Klass) :
    (ms.map kobj ++ [kobj b]).mapM unKlass = some (ms ++ [b]) := by
  have := mapM_unKlass (ms ++ [b])
  simpa using this

theorem names_join (w : World) (imp : String → Imports) (ks : List Klass) :
    Dyn.mapM (fun x => (do
        let t__7 ← Dyn.getAttr (detectExt w imp) x "__name__"
        let t__8 ← Dyn.getSlice (detectExt w imp) t__7 Dyn.Val.none (Dyn.Val.int 10)
        pure t__8 : M V)) (ks.map kobj)
      = .ok (ks.map (fun k => .str (String.ofList (Dyn.sliceList k.name.toList none (some 10))))) := by
  induction ks with
  | nil => rfl
  | cons k ks ih =>
    simp only [List.map_cons, Dyn.mapM, ih]
    rfl

theorem join_strs (w : World) (imp : String → Imports) {β : Type} (f : β → String) (l : List β) (sep : String) :
    Dyn.m_join (detectExt w imp) (.str sep) (.list (l.map (fun k => (.str (f k) : V))))
      = .ok (.str (sep.intercalate (l.map f))) := by
  have h : ∀ (g : V → M String) (hg : ∀ s, g (.str s) = .ok s) (l : List β),
      Dyn.mapM g (l.map (fun k => (.str (f k) : V))) = .ok (l.map f) := by
    intro g hg l
    induction l with
    | nil => rfl
    | cons a t ih => simp only [List.map_cons, Dyn.mapM, hg, bind_ok, ih]; rfl
  unfold Dyn.m_join
  simp only [Dyn.iter, pure_ok, bind_ok]
  rw [h _ (fun s => rfl)]
  rfl

theorem hasDup_snoc (l : List String) (x : String) : Factory.hasDup (l ++ [x]) = (Factory.hasDup l || l.contains x) := by
  induction l with
  | nil => simp [Factory.hasDup]
  | cons a t ih =>
    simp only [List.cons_append, Factory.hasDup, ih, List.contains_cons, List.contains_append]
    by_cases hax : a = x
    · subst hax
      cases t.contains a <;> cases Factory.hasDup t <;> simp
    · have h1 : (x == a) = false := by simpa using fun h => hax h.symm
      have h2 : (a == x) = false := by simpa using hax
      cases t.contains a <;> cases Factory.hasDup t <;> cases t.contains x <;> simp [h1, h2]

end Taurex.C15Src
