/-
  Helper lemmas for the Exo-Transmit tie of Props/C14Src.lean (`ExoTransmitOpacity._load_exo_transmit` against `decExo`):
  3-D arrays as `tab3` (list of planes of rows given by an entry function), `Py.setCol3` on them, the two loops over
  `lines[2:]` (wavelength lines / rows, the counters `lambda_count`, `pressure_count`) against the model's block grouping.
  Core only; generic in the carrier.
-/
import Proofs.C14SrcLemmas
set_option linter.unusedSectionVars false
namespace Taurex.C14Src
open Taurex.Gen Taurex.Loaders

section
variable {α : Type}

/-- the 3-D array with entries `g i j k` -/
def tab3 (a b c : Nat) (g : Nat → Nat → Nat → α) : List (List (List α)) :=
  (List.range a).map fun i => (List.range b).map fun j => (List.range c).map fun k => g i j k

theorem tab3_congr (a b c : Nat) (g h : Nat → Nat → Nat → α) (hgh : ∀ i < a, ∀ j < b, ∀ k < c, g i j k = h i j k) :
    tab3 a b c g = tab3 a b c h := by
  unfold tab3
  apply List.map_congr_left
  intro i hi
  apply List.map_congr_left
  intro j hj
  apply List.map_congr_left
  intro k hk
  exact hgh i (List.mem_range.1 hi) j (List.mem_range.1 hj) k (List.mem_range.1 hk)

theorem normIdx_ofNat (n k : Nat) (h : k < n) : Py.normIdx n (k : Int) = some k := by
  unfold Py.normIdx
  simp [h]

theorem map_range_set (c : Nat) (f : Nat → α) (k : Nat) (x : α) :
    ((List.range c).map f).set k x = (List.range c).map (fun k' => if k' = k then x else f k') := by
  apply List.ext_getElem
  · simp
  · intro n h1 h2
    simp only [List.length_set, List.length_map, List.length_range] at h1
    simp only [List.getElem_set, List.getElem_map, List.getElem_range]
    by_cases hk : k = n
    · simp [hk]
    · have : ¬ n = k := fun h => hk h.symm
      simp [hk, this]

theorem zipIdx_map_range (b : Nat) (f : Nat → List α) :
    ((List.range b).map f).zipIdx = (List.range b).map (fun j => (f j, j)) := by
  apply List.ext_getElem
  · simp
  · intro n h1 h2
    simp

/-- writing a column of the right length into a `tab3` -/
theorem setCol3_tab3 (a b c : Nat) (g : Nat → Nat → Nat → α) (i k : Nat) (hi : i < a) (hk : k < c) (v : List α)
    (hv : v.length = b) (d : α) :
    Py.setCol3 (tab3 a b c g) (i : Int) (k : Int) v
      = tab3 a b c (fun i' j k' => if i' = i ∧ k' = k then v.getD j d else g i' j k') := by
  unfold Py.setCol3
  have hlen : (tab3 a b c g).length = a := by simp [tab3]
  rw [hlen, normIdx_ofNat a i hi]
  simp only []
  unfold tab3
  apply List.ext_getElem
  · simp
  · intro n h1 h2
    simp only [List.length_map, List.length_range] at h2
    simp only [List.getElem_modify, List.getElem_map, List.getElem_range]
    by_cases hn : i = n
    · subst hn
      simp only [if_true, zipIdx_map_range, List.map_map]
      apply List.map_congr_left
      intro j hj
      have hj' : j < b := List.mem_range.1 hj
      simp only [Function.comp, List.length_map, List.length_range, normIdx_ofNat c k hk]
      have hvj : (if v.length = 1 then v[0]? else v[j]?) = some (v.getD j d) := by
        by_cases h1 : v.length = 1
        · have : j = 0 := by omega
          subst this
          simp [h1, List.getD_eq_getElem?_getD]
        · simp only [h1, if_false]
          have : j < v.length := by omega
          simp [List.getD_eq_getElem?_getD, List.getElem?_eq_getElem this]
      rw [hvj]
      simp only [map_range_set]
      apply List.map_congr_left
      intro k' _
      by_cases hk' : k' = k <;> simp [hk']
    · have : ¬ n = i := fun h => hn h.symm
      simp only [hn, if_false]
      apply List.map_congr_left
      intro j _
      apply List.map_congr_left
      intro k' _
      simp [this]

variable [Add α] [Mul α] [Div α] [OfNat α 0] [OfNat α 10000]

/-- one pass of the first loop over `lines[2:]` (on the parsed line) -/
def wnStep (c : α) (acc : List α) (arr : List α) : List α :=
  if arr.length = 1 then acc ++ [((10000 : α) * c) / arr.getD 0 0] else acc

/-- one pass of the second loop over `lines[2:]` (on the parsed line): state `(lambda_count, pressure_count, _xsec_grid)` -/
def xsStep (tiny : α) (st : Int × Int × List (List (List α))) (arr : List α) : Int × Int × List (List (List α)) :=
  if arr.length = 1 then (st.1 + 1, 0, st.2.2)
  else (st.1, st.2.1 + 1, Py.setCol3 st.2.2 st.2.1 st.1 ((arr.drop 1).map (fun x => x + tiny)))

theorem wn_rows (c : α) (rows : List (List α)) (h : ∀ r ∈ rows, r.length ≠ 1) (acc : List α) :
    rows.foldl (wnStep c) acc = acc := by
  induction rows generalizing acc with
  | nil => rfl
  | cons r rows ih =>
    simp only [List.foldl_cons, wnStep, h r (by simp), if_false]
    exact ih (fun r' hr' => h r' (by simp [hr'])) acc

theorem wn_blocks (c : α) (B : List (α × List (List α))) (h : ∀ b ∈ B, ∀ r ∈ b.2, r.length ≠ 1) (acc : List α) :
    (B.flatMap (fun b => [b.1] :: b.2)).foldl (wnStep c) acc = acc ++ B.map (fun b => ((10000 : α) * c) / b.1) := by
  induction B generalizing acc with
  | nil => simp
  | cons b B ih =>
    simp only [List.flatMap_cons, List.cons_append, List.foldl_cons, List.foldl_append, List.map_cons]
    have h1 : wnStep c acc [b.1] = acc ++ [((10000 : α) * c) / b.1] := by simp [wnStep]
    rw [h1, wn_rows c b.2 (h b (by simp)), ih (fun b' hb' => h b' (by simp [hb']))]
    simp

theorem rows_loop (tiny : α) (a b c m : Nat) (hb : 1 ≤ b) (hm : m < c) (rows : List (List α))
    (hr : ∀ r ∈ rows, r.length = b + 1) :
    ∀ (i0 : Nat) (h : Nat → Nat → Nat → α), i0 + rows.length ≤ a →
      rows.foldl (xsStep tiny) ((m : Int), (i0 : Int), tab3 a b c h)
        = ((m : Int), ((i0 + rows.length : Nat) : Int),
            tab3 a b c (fun i j k => if k = m ∧ i0 ≤ i ∧ i < i0 + rows.length
              then ((rows.getD (i - i0) []).getD (j + 1) 0) + tiny else h i j k)) := by
  induction rows with
  | nil =>
    intro i0 h _
    simp only [List.foldl_nil, List.length_nil, Nat.add_zero]
    congr 2
    apply tab3_congr
    intro i _ j _ k _
    have : ¬ (k = m ∧ i0 ≤ i ∧ i < i0) := by omega
    simp [this]
  | cons r rows ih =>
    intro i0 h hle
    simp only [List.length_cons] at hle
    have hrl : r.length = b + 1 := hr r (by simp)
    have hne : ¬ r.length = 1 := by omega
    have hv : ((r.drop 1).map (fun x => x + tiny)).length = b := by simp [hrl]
    simp only [List.foldl_cons, xsStep, hne, if_false]
    rw [setCol3_tab3 a b c h i0 m (by omega) hm _ hv 0]
    have hcast : ((i0 : Int) + 1) = ((i0 + 1 : Nat) : Int) := by simp
    rw [hcast, ih (fun r' hr' => hr r' (by simp [hr'])) (i0 + 1) _ (by omega)]
    have hlen : i0 + 1 + rows.length = i0 + (r :: rows).length := by simp; omega
    rw [hlen]
    congr 2
    apply tab3_congr
    intro i _ j hj k _
    have hvj : ((r.drop 1).map (fun x => x + tiny)).getD j 0 = r.getD (j + 1) 0 + tiny := by
      have h1 : 1 + j < r.length := by omega
      simp only [List.getD_eq_getElem?_getD, List.getElem?_map, List.getElem?_drop, List.getElem?_eq_getElem h1,
        Option.map_some, Option.getD_some]
      have h2 : j + 1 < r.length := by omega
      simp only [List.getElem?_eq_getElem h2, Option.getD_some]
      congr 2
      omega
    by_cases hkm : k = m
    · by_cases hi0 : i = i0
      · have c1 : ¬ (k = m ∧ i0 + 1 ≤ i ∧ i < i0 + (r :: rows).length) := by omega
        have c2 : (i = i0 ∧ k = m) := ⟨hi0, hkm⟩
        have c3 : (k = m ∧ i0 ≤ i ∧ i < i0 + (r :: rows).length) := by simp [hkm, hi0]
        rw [if_neg c1, if_pos c2, if_pos c3, hvj]
        have : i - i0 = 0 := by omega
        rw [this, List.getD_cons_zero]
      · by_cases hin : i0 + 1 ≤ i ∧ i < i0 + (r :: rows).length
        · have c1 : (k = m ∧ i0 + 1 ≤ i ∧ i < i0 + (r :: rows).length) := ⟨hkm, hin⟩
          have c3 : (k = m ∧ i0 ≤ i ∧ i < i0 + (r :: rows).length) := ⟨hkm, by omega, hin.2⟩
          rw [if_pos c1, if_pos c3]
          have h3 : i - i0 = (i - (i0 + 1)) + 1 := by omega
          rw [h3, List.getD_cons_succ]
        · have c1 : ¬ (k = m ∧ i0 + 1 ≤ i ∧ i < i0 + (r :: rows).length) := fun hh => hin hh.2
          have c2 : ¬ (i = i0 ∧ k = m) := fun hh => hi0 hh.1
          have c3 : ¬ (k = m ∧ i0 ≤ i ∧ i < i0 + (r :: rows).length) := by omega
          rw [if_neg c1, if_neg c2, if_neg c3]
    · have c1 : ¬ (k = m ∧ i0 + 1 ≤ i ∧ i < i0 + (r :: rows).length) := fun hh => hkm hh.1
      have c2 : ¬ (i = i0 ∧ k = m) := fun hh => hkm hh.2
      have c3 : ¬ (k = m ∧ i0 ≤ i ∧ i < i0 + (r :: rows).length) := fun hh => hkm hh.1
      rw [if_neg c1, if_neg c2, if_neg c3]

theorem blocks_loop (tiny : α) (a b c : Nat) (hb : 1 ≤ b) :
    ∀ (rest : List (α × List (List α))) (m : Nat) (h : Nat → Nat → Nat → α) (pc : Int),
      m + rest.length ≤ c → (∀ b' ∈ rest, b'.2.length = a ∧ ∀ r ∈ b'.2, r.length = b + 1) →
      ∃ pc' : Int, (rest.flatMap (fun b => [b.1] :: b.2)).foldl (xsStep tiny) ((m : Int) - 1, pc, tab3 a b c h)
        = (((m + rest.length : Nat) : Int) - 1, pc',
            tab3 a b c (fun i j k => if m ≤ k ∧ k < m + rest.length
              then (((rest.getD (k - m) (0, [])).2.getD i []).getD (j + 1) 0) + tiny else h i j k)) := by
  intro rest
  induction rest with
  | nil =>
    intro m h pc _ _
    refine ⟨pc, ?_⟩
    simp only [List.flatMap_nil, List.foldl_nil, List.length_nil, Nat.add_zero]
    congr 2
    apply tab3_congr
    intro i _ j _ k _
    have : ¬ (m ≤ k ∧ k < m) := by omega
    rw [if_neg this]
  | cons b' rest ih =>
    intro m h pc hle hrows
    simp only [List.length_cons] at hle
    obtain ⟨hlen, hr⟩ := hrows b' (by simp)
    simp only [List.flatMap_cons, List.cons_append, List.foldl_cons, List.foldl_append]
    have h1 : xsStep tiny ((m : Int) - 1, pc, tab3 a b c h) [b'.1] = ((m : Int), ((0 : Nat) : Int), tab3 a b c h) := by
      simp [xsStep]
    rw [h1, rows_loop tiny a b c m hb (by omega) b'.2 hr 0 h (by omega)]
    have hcast : (m : Int) = (((m + 1 : Nat) : Int) - 1) := by simp
    rw [hcast]
    obtain ⟨pc', hpc'⟩ := ih (m + 1) _ ((0 + b'.2.length : Nat) : Int) (by omega) (fun b'' hb'' => hrows b'' (by simp [hb'']))
    refine ⟨pc', ?_⟩
    rw [hpc']
    have hl2 : m + 1 + rest.length = m + (b' :: rest).length := by simp; omega
    rw [hl2]
    congr 2
    apply tab3_congr
    intro i hi j _ k _
    by_cases hk : k = m
    · have c1 : ¬ (m + 1 ≤ k ∧ k < m + (b' :: rest).length) := by omega
      have c2 : (k = m ∧ 0 ≤ i ∧ i < 0 + b'.2.length) := ⟨hk, by omega, by omega⟩
      have c3 : (m ≤ k ∧ k < m + (b' :: rest).length) := by simp [hk]
      rw [if_neg c1, if_pos c2, if_pos c3]
      have : k - m = 0 := by omega
      rw [this, List.getD_cons_zero, Nat.sub_zero]
    · by_cases hin : m + 1 ≤ k ∧ k < m + (b' :: rest).length
      · have c3 : (m ≤ k ∧ k < m + (b' :: rest).length) := ⟨by omega, hin.2⟩
        rw [if_pos hin, if_pos c3]
        have h3 : k - m = (k - (m + 1)) + 1 := by omega
        rw [h3, List.getD_cons_succ]
      · have c2 : ¬ (k = m ∧ 0 ≤ i ∧ i < 0 + b'.2.length) := fun hh => hk hh.1
        have c3 : ¬ (m ≤ k ∧ k < m + (b' :: rest).length) := by omega
        rw [if_neg hin, if_neg c2, if_neg c3]


variable [Sub α] [Neg α] [LT α] [LE α] [DecidableLT α] [DecidableLE α]
  [OfNat α 1] [OfNat α 10] [OfNat α 100] [OfNat α 760] [OfNat α 1000]
  [OfNat α 100000] [OfNat α 101325] [OfNat α 1000000] [OfNat α 1000000000] [OfNat α 10000000000]
  [OfNat α 133322387415]

theorem exoGroup_rows' (rows : List (List α)) (acc : List (List α) × List (α × List (List α)))
    (h : ∀ r ∈ rows, r.length ≠ 1) : rows.foldr exoGroupStep acc = (rows ++ acc.1, acc.2) := by
  induction rows with
  | nil => rfl
  | cons r rows ih =>
    rw [List.foldr_cons, ih (fun x hx => h x (by simp [hx]))]
    have hr := h r (by simp)
    unfold exoGroupStep
    split
    · simp at hr
    · rfl

theorem exoGroup_blocks' (bs : List (α × List (List α))) (h : ∀ b ∈ bs, ∀ r ∈ b.2, r.length ≠ 1) :
    exoGroup (bs.flatMap (fun b => [b.1] :: b.2)) = bs := by
  unfold exoGroup
  have key : (bs.flatMap (fun b => [b.1] :: b.2)).foldr exoGroupStep ([], []) = ([], bs) := by
    induction bs with
    | nil => rfl
    | cons b bs ih =>
      simp only [List.flatMap_cons, List.cons_append, List.foldr_cons, List.foldr_append,
        ih (fun x hx => h x (by simp [hx])), exoGroup_rows' _ _ (h b (by simp))]
      simp [exoGroupStep]
  rw [key]

theorem argsort_lt (l : List α) : ∀ i ∈ argsort l, i < l.length := by
  intro i hi
  unfold argsort at hi
  obtain ⟨p, hp, rfl⟩ := List.mem_map.1 hi
  have := List.snd_lt_of_mem_zipIdx (List.mem_mergeSort.1 hp)
  simpa using this


theorem argsort_length (l : List α) : (argsort l).length = l.length := by
  simp [argsort]

omit [Add α] [Mul α] [Div α] [OfNat α 0] [OfNat α 10000] [Sub α] [Neg α] [LT α] [LE α] [DecidableLT α] [DecidableLE α]
  [OfNat α 1] [OfNat α 10] [OfNat α 100] [OfNat α 760] [OfNat α 1000]
  [OfNat α 100000] [OfNat α 101325] [OfNat α 1000000] [OfNat α 1000000000] [OfNat α 10000000000]
  [OfNat α 133322387415] in
theorem foldl_via {σ : Type} (step : σ → List α → σ) (parse : String → List α) (F : σ → String → σ)
    (hF : ∀ st it, F st it = step st (parse it)) (init : σ) (body : List String) :
    List.foldl F init body = List.foldl step init (body.map parse) := by
  rw [List.foldl_map]
  congr 1
  funext st it
  exact hF st it

omit [Add α] [Mul α] [Div α] [OfNat α 10000] [Sub α] [Neg α] [LT α] [LE α] [DecidableLT α] [DecidableLE α]
  [OfNat α 1] [OfNat α 10] [OfNat α 100] [OfNat α 760] [OfNat α 1000]
  [OfNat α 100000] [OfNat α 101325] [OfNat α 1000000] [OfNat α 1000000000] [OfNat α 10000000000]
  [OfNat α 133322387415] in
theorem getD_map_range (c : Nat) (f : Nat → α) (k : Nat) (hk : k < c) (d : α) : ((List.range c).map f).getD k d = f k := by
  simp [List.getD_eq_getElem?_getD, hk]

end
end Taurex.C14Src
