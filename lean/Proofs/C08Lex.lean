/-
  Helper lemmas for Props/C08.lean, part 2: the character-level lexer recovers the printed token sequence
  (`lexAux (render ts) = ts` for well-formed, separated tokens), hence `parsePrior (printPrior c) = some c`.
-/
import Proofs.C08

namespace Taurex.C08
open Taurex.Priors

/-- first character of the text after a token: not something a token could continue with -/
def stops (rest : List Char) : Prop :=
  match rest with
  | [] => True
  | d :: _ => isIdentChar d = false ∧ d ≠ '.' ∧ isSign d = false

theorem spanP_append (p : Char → Bool) (l₁ l₂ : List Char) (h₁ : ∀ c ∈ l₁, p c = true)
    (h₂ : match l₂ with | [] => True | d :: _ => p d = false) : spanP p (l₁ ++ l₂) = (l₁, l₂) := by
  induction l₁ with
  | nil =>
    cases l₂ with
    | nil => rfl
    | cons d r => simp only [List.nil_append, spanP]; simp only at h₂; simp [h₂]
  | cons c cs ih =>
    have hc : p c = true := h₁ c (by simp)
    have := ih (fun x hx => h₁ x (by simp [hx]))
    simp only [List.cons_append, spanP, hc, if_true, this]

/-- a number literal of the documented form -/
structure Lit where
  sign : List Char
  ip : List Char
  frac : Option (List Char)
  exp : Option (Char × List Char × List Char)

def Lit.mant (l : Lit) : List Char :=
  l.ip ++ (match l.frac with | none => [] | some fp => '.' :: fp)

def Lit.expChars (l : Lit) : List Char :=
  match l.exp with | none => [] | some (e, s, d) => e :: s ++ d

def Lit.chars (l : Lit) : List Char := l.sign ++ l.mant ++ l.expChars

def okSign (s : List Char) : Prop := s = [] ∨ s = ['+'] ∨ s = ['-']
def allDigits (d : List Char) : Prop := ∀ c ∈ d, isDigitsChar c = true

instance (d : List Char) : Decidable (allDigits d) := by unfold allDigits; infer_instance

def Lit.valid (l : Lit) : Prop :=
  okSign l.sign ∧ allDigits l.ip ∧
  (match l.frac with
    | none => l.ip ≠ []
    | some fp => allDigits fp ∧ (l.ip ≠ [] ∨ fp ≠ [])) ∧
  (match l.exp with
    | none => True
    | some (e, s, d) => isExpMark e = true ∧ okSign s ∧ d ≠ [] ∧ allDigits d)

theorem digit_props (c : Char) (h : isDigitsChar c = true) :
    isSign c = false ∧ c ≠ '.' ∧ isExpMark c = false ∧ isIdentStart c = false ∧ c ≠ ' ' ∧ isNumStart c = true := by
  simp only [isDigitsChar, List.contains_eq_mem, List.mem_cons, List.not_mem_nil, or_false, decide_eq_true_eq] at h
  rcases h with rfl | rfl | rfl | rfl | rfl | rfl | rfl | rfl | rfl | rfl <;> decide

theorem expmark_props (c : Char) (h : isExpMark c = true) :
    isDigitsChar c = false ∧ c ≠ '.' ∧ isIdentChar c = true := by
  simp only [isExpMark, Bool.or_eq_true, beq_iff_eq] at h
  rcases h with rfl | rfl <;> decide

theorem digit_identChar (c : Char) (h : isDigitsChar c = true) : isIdentChar c = true := by
  simp only [isDigitsChar, List.contains_eq_mem, List.mem_cons, List.not_mem_nil, or_false, decide_eq_true_eq] at h
  rcases h with rfl | rfl | rfl | rfl | rfl | rfl | rfl | rfl | rfl | rfl <;> decide

/-- the next character is neither a digit nor a dot -/
def noDigitDot (rest : List Char) : Prop :=
  match rest with
  | [] => True
  | d :: _ => isDigitsChar d = false ∧ d ≠ '.'

theorem stops_noDigitDot (rest : List Char) (h : stops rest) : noDigitDot rest := by
  cases rest with
  | nil => trivial
  | cons d r =>
    obtain ⟨h1, h2, _⟩ := h
    refine ⟨?_, h2⟩
    cases hd : isDigitsChar d
    · rfl
    · rw [digit_identChar d hd] at h1; exact absurd h1 (by simp)

theorem takeSign_append (s rest : List Char) (hs : okSign s)
    (hr : s = [] → match rest with | [] => True | d :: _ => isSign d = false) :
    takeSign (s ++ rest) = (s, rest) := by
  rcases hs with rfl | rfl | rfl
  · cases rest with
    | nil => rfl
    | cons d r =>
      have := hr rfl
      simp only at this
      simp [takeSign, this]
  · simp [takeSign, isSign]
  · simp [takeSign, isSign]

theorem spanDigits_append (d rest : List Char) (hd : allDigits d) (hr : noDigitDot rest) :
    spanP isDigitsChar (d ++ rest) = (d, rest) := by
  apply spanP_append _ _ _ hd
  cases rest with
  | nil => trivial
  | cons c r => exact hr.1

theorem lexMantissa_append (l : Lit) (hv : l.valid) (rest : List Char) (hr : noDigitDot rest) :
    lexMantissa (l.mant ++ rest) = some (l.mant, rest) := by
  obtain ⟨_, hip, hfrac, _⟩ := hv
  unfold Lit.mant lexMantissa
  cases hf : l.frac with
  | none =>
    simp only [hf] at hfrac
    simp only [List.append_nil]
    rw [spanDigits_append l.ip rest hip hr]
    cases rest with
    | nil => simp [hfrac]
    | cons c r =>
      have hc : (c == '.') = false := by simpa using hr.2
      simp [hc, hfrac]
  | some fp =>
    simp only [hf] at hfrac
    obtain ⟨hfp, hne⟩ := hfrac
    have h1 : spanP isDigitsChar (l.ip ++ ('.' :: fp ++ rest)) = (l.ip, '.' :: fp ++ rest) := by
      apply spanP_append _ _ _ hip
      simp only [List.cons_append]
      decide
    simp only [List.append_assoc]
    rw [h1]
    simp only [List.cons_append, beq_self_eq_true, if_true]
    rw [spanDigits_append fp rest hfp hr]
    have : (l.ip.isEmpty && fp.isEmpty) = false := by
      rcases hne with h | h
      · cases hl : l.ip with
        | nil => exact absurd hl h
        | cons _ _ => rfl
      · cases hl : fp with
        | nil => exact absurd hl h
        | cons _ _ => simp
    simp [this]

theorem mant_head (l : Lit) (hv : l.valid) : ∃ c r, l.mant = c :: r ∧ isSign c = false ∧ isIdentStart c = false ∧
    c ≠ ' ' ∧ isNumStart c = true := by
  obtain ⟨_, hip, hfrac, _⟩ := hv
  unfold Lit.mant
  cases hi : l.ip with
  | cons c r =>
    have := digit_props c (hip c (by simp [hi]))
    exact ⟨c, _, rfl, this.1, this.2.2.2.1, this.2.2.2.2.1, this.2.2.2.2.2⟩
  | nil =>
    cases hf : l.frac with
    | none => simp only [hf] at hfrac; exact absurd hi hfrac
    | some fp => exact ⟨'.', fp, by simp, by decide, by decide, by decide, by decide⟩

theorem lexNumber_append (l : Lit) (hv : l.valid) (rest : List Char) (hr : stops rest) :
    lexNumber (l.chars ++ rest) = some (l.chars, rest) := by
  have hv' := hv
  obtain ⟨hsign, _, _, hexp⟩ := hv
  obtain ⟨c, r, hm, hc, _⟩ := mant_head l hv'
  unfold lexNumber Lit.chars
  have h1 : takeSign (l.sign ++ l.mant ++ l.expChars ++ rest) = (l.sign, l.mant ++ (l.expChars ++ rest)) := by
    rw [List.append_assoc, List.append_assoc]
    apply takeSign_append _ _ hsign
    intro _
    rw [hm]
    exact hc
  rw [h1]
  simp only
  have h2 : noDigitDot (l.expChars ++ rest) := by
    unfold Lit.expChars
    cases he : l.exp with
    | none => simpa using stops_noDigitDot rest hr
    | some esd =>
      obtain ⟨e, s, d⟩ := esd
      simp only [he] at hexp
      have := expmark_props e hexp.1
      exact ⟨this.1, this.2.1⟩
  rw [lexMantissa_append l hv' _ h2]
  simp only
  unfold Lit.expChars
  cases he : l.exp with
  | none =>
    simp only [List.nil_append, List.append_nil]
    cases rest with
    | nil => rfl
    | cons d r' =>
      have hd : isExpMark d = false := by
        cases hx : isExpMark d
        · rfl
        · have := (expmark_props d hx).2.2
          rw [hr.1] at this; exact absurd this (by simp)
      simp [hd]
  | some esd =>
    obtain ⟨e, s, d⟩ := esd
    simp only [he] at hexp
    obtain ⟨he1, hs, hdne, hd⟩ := hexp
    simp only [List.cons_append, he1, if_true]
    unfold lexExpTail
    have h3 : takeSign (s ++ d ++ rest) = (s, d ++ rest) := by
      rw [List.append_assoc]
      apply takeSign_append _ _ hs
      intro _
      cases hdl : d with
      | nil => exact absurd hdl hdne
      | cons x xs => exact (digit_props x (hd x (by simp [hdl]))).1
    rw [h3]
    simp only
    rw [spanDigits_append d rest hd (stops_noDigitDot rest hr)]
    have : d.isEmpty = false := by
      cases hdl : d with
      | nil => exact absurd hdl hdne
      | cons _ _ => rfl
    simp [this]

def isPunct : Tok → Bool
  | .ident _ => false
  | .num _ => false
  | _ => true

def nextPunct : List Tok → Prop
  | [] => True
  | t :: _ => isPunct t = true

def WFident (s : String) : Prop :=
  ∃ c cs, s.toList = c :: cs ∧ isIdentStart c = true ∧ ∀ x ∈ c :: cs, isIdentChar x = true

def WFnum (s : String) : Prop := ∃ l : Lit, l.valid ∧ s.toList = l.chars

def SepOK : List Tok → Prop
  | [] => True
  | .ident s :: rest => WFident s ∧ nextPunct rest ∧ SepOK rest
  | .num s :: rest => WFnum s ∧ nextPunct rest ∧ SepOK rest
  | _ :: rest => SepOK rest

theorem stops_render (ts : List Tok) (h : nextPunct ts) : stops (render ts) := by
  cases ts with
  | nil => trivial
  | cons t ts =>
    cases t <;> simp [nextPunct, isPunct] at h <;> simp only [render, tokChars, List.cons_append, stops] <;> decide

theorem identStart_props (c : Char) (h : isIdentStart c = true) : (c == ' ') = false ∧ punctOf c = none := by
  have key : ∀ x, isIdentStart x = false → (c == x) = false := by
    intro x hx
    cases hc : c == x
    · rfl
    · rw [beq_iff_eq] at hc; rw [hc, hx] at h; cases h
  refine ⟨key ' ' (by decide), ?_⟩
  simp [punctOf, key '(' (by decide), key ')' (by decide), key '[' (by decide), key ']' (by decide),
    key ',' (by decide), key '=' (by decide)]

theorem chars_head (l : Lit) (hv : l.valid) : ∃ c r, l.chars = c :: r ∧ (c == ' ') = false ∧ punctOf c = none ∧
    isIdentStart c = false ∧ isNumStart c = true := by
  obtain ⟨c, r, hm, _, h2, h3, h4⟩ := mant_head l hv
  have hpm : punctOf c = none := by
    obtain ⟨_, hip, hfrac, _⟩ := hv
    unfold Lit.mant at hm
    cases hi : l.ip with
    | cons x xs =>
      rw [hi] at hm
      simp only [List.cons_append, List.cons.injEq] at hm
      have hx := hip x (by simp [hi])
      rw [hm.1] at hx
      simp only [isDigitsChar, List.contains_eq_mem, List.mem_cons, List.not_mem_nil, or_false, decide_eq_true_eq] at hx
      rcases hx with rfl | rfl | rfl | rfl | rfl | rfl | rfl | rfl | rfl | rfl <;> decide
    | nil =>
      rw [hi] at hm
      cases hf : l.frac with
      | none => simp only [hf] at hfrac; exact absurd hi hfrac
      | some fp =>
        rw [hf] at hm
        simp only [List.nil_append, List.cons.injEq] at hm
        rw [← hm.1]; decide
  unfold Lit.chars
  rcases hv.1 with hs | hs | hs
  · refine ⟨c, r ++ l.expChars, by rw [hs, hm]; rfl, ?_, hpm, h2, h4⟩
    simpa using h3
  · exact ⟨'+', l.mant ++ l.expChars, by rw [hs]; simp, by decide, by decide, by decide, by decide⟩
  · exact ⟨'-', l.mant ++ l.expChars, by rw [hs]; simp, by decide, by decide, by decide, by decide⟩

theorem lexAux_render : ∀ (ts : List Tok) (fuel : Nat), SepOK ts → (render ts).length < fuel →
    lexAux fuel (render ts) = some ts := by
  intro ts
  induction ts with
  | nil => intro fuel _ _; cases fuel <;> rfl
  | cons t ts ih =>
    intro fuel hsep hlen
    cases fuel with
    | zero => simp at hlen
    | succ f =>
      cases t with
      | ident s =>
        obtain ⟨⟨c, cs, hs, hc, hall⟩, hnp, hrest⟩ := hsep
        have hst := stops_render ts hnp
        obtain ⟨h1, h2⟩ := identStart_props c hc
        have hspan : spanP isIdentChar (c :: cs ++ render ts) = (c :: cs, render ts) := by
          apply spanP_append _ _ _ hall
          cases hr : render ts with
          | nil => trivial
          | cons d r => rw [hr] at hst; exact hst.1
        have hl : (render ts).length < f := by
          simp only [render, tokChars, hs, List.length_append, List.length_cons] at hlen
          omega
        simp only [render, tokChars, hs, List.cons_append]
        unfold lexAux
        simp only [h1, h2, hc, if_true, Bool.false_eq_true, if_false]
        rw [← List.cons_append, hspan]
        simp only [ih f hrest hl, Option.map_some, ← hs, String.ofList_toList]
      | num s =>
        obtain ⟨⟨l, hv, hs⟩, hnp, hrest⟩ := hsep
        have hst := stops_render ts hnp
        obtain ⟨c, r, hch, h1, h2, h3, h4⟩ := chars_head l hv
        have hnum := lexNumber_append l hv (render ts) hst
        have hl : (render ts).length < f := by
          simp only [render, tokChars, hs, hch, List.length_append, List.length_cons] at hlen
          omega
        simp only [render, tokChars, hs]
        rw [hch] at hnum ⊢
        simp only [List.cons_append] at hnum ⊢
        unfold lexAux
        simp only [h1, h2, h3, h4, if_true, Bool.false_eq_true, if_false, hnum]
        have hs' : String.ofList (c :: r) = s := by rw [← hch, ← hs, String.ofList_toList]
        cases hr : render ts with
        | nil =>
          simp only
          rw [← hr, ih f hrest hl, hs']
          rfl
        | cons d r' =>
          rw [hr] at hst
          have : (isIdentChar d || d == '.') = false := by
            simp only [Bool.or_eq_false_iff, beq_eq_false_iff_ne]
            exact ⟨hst.1, hst.2.1⟩
          simp only [this, Bool.false_eq_true, if_false]
          rw [← hr, ih f hrest hl, hs']
          rfl
      | lpar =>
        have hl : (render ts).length < f := by
          simp only [render, tokChars, List.length_append, List.length_cons, List.length_nil] at hlen; omega
        simp only [render, tokChars, List.cons_append, List.nil_append]
        unfold lexAux
        simp [punctOf, ih f hsep hl]
      | rpar =>
        have hl : (render ts).length < f := by
          simp only [render, tokChars, List.length_append, List.length_cons, List.length_nil] at hlen; omega
        simp only [render, tokChars, List.cons_append, List.nil_append]
        unfold lexAux
        simp [punctOf, ih f hsep hl]
      | lbr =>
        have hl : (render ts).length < f := by
          simp only [render, tokChars, List.length_append, List.length_cons, List.length_nil] at hlen; omega
        simp only [render, tokChars, List.cons_append, List.nil_append]
        unfold lexAux
        simp [punctOf, ih f hsep hl]
      | rbr =>
        have hl : (render ts).length < f := by
          simp only [render, tokChars, List.length_append, List.length_cons, List.length_nil] at hlen; omega
        simp only [render, tokChars, List.cons_append, List.nil_append]
        unfold lexAux
        simp [punctOf, ih f hsep hl]
      | eq =>
        have hl : (render ts).length < f := by
          simp only [render, tokChars, List.length_append, List.length_cons, List.length_nil] at hlen; omega
        simp only [render, tokChars, List.cons_append, List.nil_append]
        unfold lexAux
        simp [punctOf, ih f hsep hl]
      | comma =>
        cases f with
        | zero => simp [render, tokChars] at hlen
        | succ f' =>
          have hl : (render ts).length < f' := by
            simp only [render, tokChars, List.length_append, List.length_cons, List.length_nil] at hlen; omega
          simp only [render, tokChars, List.cons_append, List.nil_append]
          unfold lexAux
          simp only [punctOf]
          unfold lexAux
          simp [ih f' hsep hl]


/-! ### printed calls are well formed and separated -/

theorem SepOK_printSeq (xs : List String) (rest : List Tok) (hx : ∀ x ∈ xs, WFnum x) (hr : SepOK rest)
    (hn : nextPunct rest) : SepOK (printSeq xs ++ rest) := by
  match xs with
  | [] => simpa [printSeq] using hr
  | [x] => exact ⟨hx x (by simp), hn, hr⟩
  | x :: y :: r =>
    have ih := SepOK_printSeq (y :: r) rest (fun z hz => hx z (by simp [hz])) hr hn
    simp only [printSeq, List.cons_append]
    exact ⟨hx x (by simp), rfl, ih⟩

/-- every number of a value is a literal of the documented form -/
def WFval : ArgVal String → Prop
  | .num x => WFnum x
  | .tuple xs => ∀ x ∈ xs, WFnum x
  | .list xs => ∀ x ∈ xs, WFnum x

theorem SepOK_printVal (v : ArgVal String) (rest : List Tok) (hv : WFval v) (hr : SepOK rest) (hn : nextPunct rest) :
    SepOK (printVal v ++ rest) := by
  cases v with
  | num x => exact ⟨hv, hn, hr⟩
  | tuple xs =>
    match xs with
    | [] => exact hr
    | [x] => exact ⟨hv x (by simp), rfl, hr⟩
    | x :: y :: r =>
      have := SepOK_printSeq (x :: y :: r) (Tok.rpar :: rest) hv hr rfl
      simpa [printVal, SepOK] using this
  | list xs =>
    have := SepOK_printSeq xs (Tok.rbr :: rest) hv hr rfl
    simpa [printVal, SepOK] using this

/-- a call whose name and keywords are identifiers and whose numbers are literals of the documented form -/
def WFCall (c : Call String) : Prop := WFident c.fn ∧ ∀ a ∈ c.args, WFident a.1 ∧ WFval a.2

theorem SepOK_printArgs (as : List (String × ArgVal String)) (h : ∀ a ∈ as, WFident a.1 ∧ WFval a.2) :
    SepOK (printArgs as) := by
  match as with
  | [] => exact trivial
  | [(k, v)] =>
    have hk := h (k, v) (by simp)
    exact ⟨hk.1, rfl, SepOK_printVal v [Tok.rpar] hk.2 trivial rfl⟩
  | (k, v) :: a :: r =>
    have hk := h (k, v) (by simp)
    have ih := SepOK_printArgs (a :: r) (fun z hz => h z (by simp [hz]))
    exact ⟨hk.1, rfl, SepOK_printVal v (Tok.comma :: printArgs (a :: r)) hk.2 ih rfl⟩

theorem SepOK_printToks (c : Call String) (h : WFCall c) : SepOK (printToks c) :=
  ⟨h.1, rfl, SepOK_printArgs c.args h.2⟩

theorem lex_render_printToks (c : Call String) (h : WFCall c) : lex (printChars c) = some (printToks c) := by
  unfold lex printChars
  obtain ⟨x, xs, hs, hx, _⟩ := h.1
  have hhead : (render (printToks c)).head? = some x := by
    simp [printToks, render, tokChars, hs]
  have hx' := (identStart_props x hx).1
  rw [hhead]
  have : (some x == some ' ') = false := by simpa using hx'
  simp only [this, Bool.false_eq_true, if_false]
  exact lexAux_render _ _ (SepOK_printToks c h) (Nat.lt_succ_self _)

end Taurex.C08
