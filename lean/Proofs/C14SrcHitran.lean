/-
  Helper lemmas for the tie of the WHOLE of `HitranCIA.load_hitran_file` (Props/C14Src.lean: src_load_hitran_file): how the
  text of a file encodes its blocks (`HText`), the loop over the data lines of a block, `_wn_dict` as a dict keyed by the hash of
  a grid's key (`gdict`) against the model's `upsert`, and the `while True` reading loop (`Py.whileE`) against the fold `hLoad`.
  Core only; generic in the carrier.
-/
import Proofs.C14SrcLemmas
set_option linter.unusedSectionVars false

namespace Taurex.C14Src
open Taurex.Loaders Taurex.Interp Taurex.Gen

section
variable {α : Type} [Add α] [Sub α] [Mul α] [Div α] [Neg α] [LT α] [LE α] [DecidableLT α] [DecidableLE α]
  [Taurex.Transc α] [OfNat α 0] [OfNat α 1] [OfNat α 10] [OfNat α 100] [OfNat α 760] [OfNat α 1000] [OfNat α 10000]
  [OfNat α 100000] [OfNat α 101325] [OfNat α 1000000] [OfNat α 1000000000] [OfNat α 10000000000]
  [OfNat α 133322387415]

/-- `HitranCIA._wn_dict` for the model's grids -/
def gdict (hk : α × α → String) (grids : List (HGrid α)) : List (String × (List α × List (α × List α))) :=
  grids.map (fun g => (hk g.key, (g.wn, g.ts)))

/-- how the text of a HITRAN file encodes its numbers: the tokeniser, the number parsers, and the line written for a block
    header / for a data point -/
structure HText (α : Type) where
  splitWs : String → List String
  toFloat : String → α
  toInt : String → Nat
  hdr : HBlock α → String
  dat : α × α → String

/-- the encoding reads back: a header line is non-empty and its tokens 1–4 parse to start, end, number of points and
    temperature; the two tokens of a data line parse to the point -/
def HText.Ok (tx : HText α) (blocks : List (HBlock α)) : Prop :=
  ∀ b ∈ blocks,
    (tx.hdr b ≠ "" ∧ tx.toFloat ((tx.splitWs (tx.hdr b)).getD 1 "") = b.wn0 ∧
      tx.toFloat ((tx.splitWs (tx.hdr b)).getD 2 "") = b.wn1 ∧ tx.toInt ((tx.splitWs (tx.hdr b)).getD 3 "") = b.pts.length ∧
      tx.toFloat ((tx.splitWs (tx.hdr b)).getD 4 "") = b.temp) ∧
    ∀ q ∈ b.pts, tx.toFloat ((tx.splitWs (tx.dat q)).getD 0 "") = q.1 ∧ tx.toFloat ((tx.splitWs (tx.dat q)).getD 1 "") = q.2

/-- the lines of the file holding `blocks` -/
def HText.lines (tx : HText α) (blocks : List (HBlock α)) : List String :=
  blocks.flatMap (fun b => tx.hdr b :: b.pts.map tx.dat)

/-- the body of the reading loop on the parsed block (the lambda of `hLoad`) -/
def hStepG (acc : List α × List (HGrid α)) (b : HBlock α) : List α × List (HGrid α) :=
  (if memv b.temp acc.1 then acc.1 else acc.1 ++ [b.temp],
   upsert acc.2 (b.wn0, b.wn1) (b.pts.map (·.1)) (b.temp, b.pts.map (fun q => clipSigma q.2)))

theorem hLoad_eq_foldl (blocks : List (HBlock α)) : hLoad blocks = blocks.foldl hStepG ([], []) := rfl

/-- one pass of the loop over the data lines of a block: `(f, wn_temp, sigma_temp)` -/
def dataStep (tx : HText α) (c : α) (st : List String × List α × List α) : List String × List α × List α :=
  (st.1.tail, st.2.1 ++ [tx.toFloat ((tx.splitWs (st.1.headD "")).getD 0 "")],
   st.2.2 ++ [if tx.toFloat ((tx.splitWs (st.1.headD "")).getD 1 "") * c < 0 then 0
              else tx.toFloat ((tx.splitWs (st.1.headD "")).getD 1 "") * c])

theorem data_loop (tx : HText α) (F : List String × List α × List α → Nat → List String × List α × List α)
    (hF : ∀ st i, F st i = dataStep tx (1 / 10000000000) st) :
    ∀ (pts : List (α × α)) (idx : List Nat) (rest : List String) (w sg : List α), idx.length = pts.length →
      (∀ q ∈ pts, tx.toFloat ((tx.splitWs (tx.dat q)).getD 0 "") = q.1 ∧ tx.toFloat ((tx.splitWs (tx.dat q)).getD 1 "") = q.2) →
      List.foldl F (pts.map tx.dat ++ rest, w, sg) idx
        = (rest, w ++ pts.map (·.1), sg ++ pts.map (fun q => clipSigma q.2)) := by
  intro pts
  induction pts with
  | nil =>
    intro idx rest w sg hl _
    have : idx = [] := List.eq_nil_of_length_eq_zero (by simpa using hl)
    subst this
    simp
  | cons q pts ih =>
    intro idx rest w sg hl hq
    cases idx with
    | nil => simp at hl
    | cons i idx =>
      have h1 := hq q (by simp)
      simp only [List.foldl_cons, hF, dataStep, List.map_cons, List.cons_append, List.headD_cons, List.tail_cons, h1.1, h1.2]
      rw [ih idx rest _ _ (by simpa using hl) (fun q' hq' => hq q' (by simp [hq']))]
      simp [clipSigma, List.append_assoc]


/-! dicts keyed by the hash of a grid's key -/

theorem dhas_gdict (hk : α × α → String) (grids : List (HGrid α)) (k : String) :
    Py.dhas (gdict hk grids) k = grids.any (fun g => decide (hk g.key = k)) := by
  simp [Py.dhas, gdict, List.any_map, Function.comp_def]

theorem dset_dset_same {β : Type} (d : List (String × β)) (k : String) (v v' : β) :
    Py.dset (Py.dset d k v) k v' = Py.dset d k v' := by
  induction d with
  | nil => simp [Py.dset]
  | cons kv d ih =>
    obtain ⟨k', w⟩ := kv
    by_cases h : k' = k
    · simp [Py.dset, h]
    · simp [Py.dset, h, ih]

theorem dget_append_new {β : Type} (d : List (String × β)) (k : String) (v : β) (h : Py.dhas d k = false) :
    Py.dget (d ++ [(k, v)]) k = some v := by
  induction d with
  | nil => simp [Py.dget]
  | cons kv d ih =>
    obtain ⟨k', w⟩ := kv
    have hk : ¬ k' = k := by
      intro hh
      simp [Py.dhas, hh] at h
    have h' : Py.dhas d k = false := by simpa [Py.dhas, hk] using h
    simp [Py.dget, hk, ih h']

theorem dset_append_new {β : Type} (d : List (String × β)) (k : String) (v v' : β) (h : Py.dhas d k = false) :
    Py.dset (d ++ [(k, v)]) k v' = d ++ [(k, v')] := by
  induction d with
  | nil => simp [Py.dset]
  | cons kv d ih =>
    obtain ⟨k', w⟩ := kv
    have hk : ¬ k' = k := by
      intro hh
      simp [Py.dhas, hh] at h
    have h' : Py.dhas d k = false := by simpa [Py.dhas, hk] using h
    simp [Py.dset, hk, ih h']

theorem dset_new' {β : Type} (d : List (String × β)) (n : String) (v : β) (h : Py.dhas d n = false) :
    Py.dset d n v = d ++ [(n, v)] := by
  induction d with
  | nil => rfl
  | cons kv d ih =>
    obtain ⟨k, w⟩ := kv
    by_cases hk : k = n
    · simp [Py.dhas, hk] at h
    · have h' : Py.dhas d n = false := by simpa [Py.dhas, hk] using h
      simp [Py.dset, hk, ih h']

/-- the dict entry of the (unique) grid whose key hashes to `k`, and what storing a new object under `k` does -/
theorem gdict_hit (hk : α × α → String) (k : String) :
    ∀ (grids : List (HGrid α)), (grids.map (fun g => hk g.key)).Nodup → ∀ g0 ∈ grids, hk g0.key = k →
      Py.dget (gdict hk grids) k = some (g0.wn, g0.ts) ∧
      ∀ v : List α × List (α × List α), Py.dset (gdict hk grids) k v
        = gdict hk (grids.map (fun g => if hk g.key = k then { g with wn := v.1, ts := v.2 } else g)) := by
  intro grids
  induction grids with
  | nil => intro _ g0 h; simp at h
  | cons g grids ih =>
    intro hnd g0 hg0 hk0
    simp only [List.map_cons, List.nodup_cons] at hnd
    by_cases hg : hk g.key = k
    · have hg0' : g0 = g := by
        rcases List.mem_cons.1 hg0 with h | h
        · exact h
        · exfalso
          apply hnd.1
          rw [hg, ← hk0]
          exact List.mem_map_of_mem (f := fun g => hk g.key) h
      subst hg0'
      refine ⟨by simp [gdict, Py.dget, hg], ?_⟩
      intro v
      have hrest : grids.map (fun g => if hk g.key = k then { g with wn := v.1, ts := v.2 } else g) = grids := by
        have h1 : grids.map (fun g => if hk g.key = k then { g with wn := v.1, ts := v.2 } else g) = grids.map id := by
          apply List.map_congr_left
          intro g' hg'
          have : ¬ hk g'.key = k := by
            intro hh
            apply hnd.1
            rw [hg, ← hh]
            exact List.mem_map_of_mem (f := fun g => hk g.key) hg'
          simp [this]
        rw [h1, List.map_id]
      simp only [gdict, List.map_cons, Py.dset, hg, if_true, hrest]
    · have hmem : g0 ∈ grids := by
        rcases List.mem_cons.1 hg0 with h | h
        · exact absurd (h ▸ hk0) hg
        · exact h
      obtain ⟨h1, h2⟩ := ih hnd.2 g0 hmem hk0
      refine ⟨by simpa [gdict, Py.dget, hg] using h1, ?_⟩
      intro v
      have := h2 v
      simp only [gdict] at this ⊢
      simp [Py.dset, hg, this]


/-! the reading loop -/

/-- the Python-side state of the reading loop: `(f, _pair_name, temp_list, _wn_dict)` -/
abbrev HSt (α : Type) := List String × String × List α × List (String × (List α × List (α × List α)))

/-- the grids collected so far: pairwise different hashes, every key the key of a block of the file -/
def GInv (hk : α × α → String) (blocks : List (HBlock α)) (grids : List (HGrid α)) : Prop :=
  (grids.map (fun g => hk g.key)).Nodup ∧ ∀ g ∈ grids, ∃ b ∈ blocks, g.key = (b.wn0, b.wn1)

/-- `hashwn` separates the `(start, end)` headers of the file exactly as the model's comparison of the numbers does -/
def HashOk (hk : α × α → String) (blocks : List (HBlock α)) : Prop :=
  ∀ b ∈ blocks, ∀ b' ∈ blocks, hk (b.wn0, b.wn1) = hk (b'.wn0, b'.wn1) ↔ keyEq (b.wn0, b.wn1) (b'.wn0, b'.wn1) = true

omit [Add α] [Sub α] [Mul α] [Div α] [Neg α] [LT α] [LE α] [DecidableLT α] [DecidableLE α]
  [Taurex.Transc α] [OfNat α 0] [OfNat α 1] [OfNat α 10] [OfNat α 100] [OfNat α 760] [OfNat α 1000] [OfNat α 10000]
  [OfNat α 100000] [OfNat α 101325] [OfNat α 1000000] [OfNat α 1000000000] [OfNat α 10000000000]
  [OfNat α 133322387415] in
theorem any_congr_mem {β : Type} (l : List β) (p q : β → Bool) (h : ∀ a ∈ l, p a = q a) : l.any p = l.any q := by
  induction l with
  | nil => rfl
  | cons a l ih =>
    simp only [List.any_cons, h a (by simp), ih (fun a' ha' => h a' (by simp [ha']))]

theorem any_keyEq_iff (hk : α × α → String) (blocks : List (HBlock α)) (hh : HashOk hk blocks) (grids : List (HGrid α))
    (hg : GInv hk blocks grids) (b : HBlock α) (hb : b ∈ blocks) :
    grids.any (fun g => keyEq g.key (b.wn0, b.wn1)) = grids.any (fun g => decide (hk g.key = hk (b.wn0, b.wn1))) := by
  apply any_congr_mem
  intro g hgm
  obtain ⟨b', hb', hkey⟩ := hg.2 g hgm
  rw [hkey]
  have := hh b' hb' b hb
  by_cases h : hk (b'.wn0, b'.wn1) = hk (b.wn0, b.wn1)
  · simp [h, this.1 h]
  · have h2 : ¬ keyEq (b'.wn0, b'.wn1) (b.wn0, b.wn1) = true := fun hc => h (this.2 hc)
    simp [h, h2]

/-- `upsert` in terms of the hashes -/
theorem upsert_hash (hk : α × α → String) (blocks : List (HBlock α)) (hh : HashOk hk blocks) (grids : List (HGrid α))
    (hg : GInv hk blocks grids) (b : HBlock α) (hb : b ∈ blocks) (wn : List α) (e : α × List α) :
    upsert grids (b.wn0, b.wn1) wn e =
      if grids.any (fun g => decide (hk g.key = hk (b.wn0, b.wn1))) then
        grids.map (fun g => if hk g.key = hk (b.wn0, b.wn1) then { g with wn := wn, ts := g.ts ++ [e] } else g)
      else grids ++ [{ key := (b.wn0, b.wn1), wn := wn, ts := [e] }] := by
  unfold upsert
  rw [any_keyEq_iff hk blocks hh grids hg b hb]
  by_cases ha : grids.any (fun g => decide (hk g.key = hk (b.wn0, b.wn1))) = true
  · simp only [ha, if_true]
    apply List.map_congr_left
    intro g hgm
    obtain ⟨b', hb', hkey⟩ := hg.2 g hgm
    have := hh b' hb' b hb
    rw [hkey]
    by_cases h : hk (b'.wn0, b'.wn1) = hk (b.wn0, b.wn1)
    · simp [h, this.1 h]
    · have h2 : ¬ keyEq (b'.wn0, b'.wn1) (b.wn0, b.wn1) = true := fun hc => h (this.2 hc)
      simp [h, h2]
  · simp [ha]

theorem upsert_inv (hk : α × α → String) (blocks : List (HBlock α)) (hh : HashOk hk blocks) (grids : List (HGrid α))
    (hg : GInv hk blocks grids) (b : HBlock α) (hb : b ∈ blocks) (wn : List α) (e : α × List α) :
    GInv hk blocks (upsert grids (b.wn0, b.wn1) wn e) := by
  rw [upsert_hash hk blocks hh grids hg b hb]
  by_cases ha : grids.any (fun g => decide (hk g.key = hk (b.wn0, b.wn1))) = true
  · simp only [ha, if_true]
    have hkeys : ∀ g : HGrid α, (if hk g.key = hk (b.wn0, b.wn1) then { g with wn := wn, ts := g.ts ++ [e] } else g).key = g.key := by
      intro g; split <;> rfl
    refine ⟨?_, ?_⟩
    · rw [List.map_map]
      have : ((fun g => hk g.key) ∘ fun g : HGrid α => if hk g.key = hk (b.wn0, b.wn1) then { g with wn := wn, ts := g.ts ++ [e] } else g)
          = fun g => hk g.key := by
        funext g; simp [Function.comp, hkeys g]
      rw [this]; exact hg.1
    · intro g hgm
      obtain ⟨g', hg', rfl⟩ := List.mem_map.1 hgm
      rw [hkeys g']
      exact hg.2 g' hg'
  · simp only [ha, Bool.false_eq_true, if_false]
    refine ⟨?_, ?_⟩
    · rw [List.map_append, List.nodup_append]
      refine ⟨hg.1, by simp, ?_⟩
      intro x hx y hy
      simp only [List.map_cons, List.map_nil, List.mem_singleton] at hy
      subst hy
      obtain ⟨g, hgm, rfl⟩ := List.mem_map.1 hx
      intro hc
      apply ha
      rw [List.any_eq_true]
      exact ⟨g, hgm, by simp [hc]⟩
    · intro g hgm
      rcases List.mem_append.1 hgm with h | h
      · exact hg.2 g h
      · simp only [List.mem_singleton] at h
        subst h
        exact ⟨b, hb, rfl⟩


theorem hStepG_inv (hk : α × α → String) (blocks : List (HBlock α)) (hh : HashOk hk blocks) (tl : List α)
    (grids : List (HGrid α)) (hg : GInv hk blocks grids) (b : HBlock α) (hb : b ∈ blocks) :
    GInv hk blocks (hStepG (tl, grids) b).2 := upsert_inv hk blocks hh grids hg b hb _ _

/-- the `while True` loop over the blocks of the file: one pass per block, then the pass that finds the end of the file -/
theorem while_blocks (tx : HText α) (hk : α × α → String) (blocks : List (HBlock α)) (hh : HashOk hk blocks)
    (F : HSt α → HSt α × Option (Option Py.Err))
    (hEnd : ∀ pn tl d, F ([], pn, tl, d) = (([], pn, tl, d), some none))
    (hPass : ∀ b ∈ blocks, ∀ (rest : List String) (pn : String) (tl : List α) (grids : List (HGrid α)),
      GInv hk blocks grids → ∃ pn', F (tx.hdr b :: (b.pts.map tx.dat ++ rest), pn, tl, gdict hk grids)
        = ((rest, pn', (hStepG (tl, grids) b).1, gdict hk (hStepG (tl, grids) b).2), none)) :
    ∀ (bs : List (HBlock α)), (∀ b ∈ bs, b ∈ blocks) → ∀ (pn : String) (tl : List α) (grids : List (HGrid α)),
      GInv hk blocks grids →
      ∃ pn', Py.whileE (bs.length + 1) (tx.lines bs, pn, tl, gdict hk grids) F
        = (([], pn', (bs.foldl hStepG (tl, grids)).1, gdict hk (bs.foldl hStepG (tl, grids)).2), none) := by
  intro bs
  induction bs with
  | nil =>
    intro _ pn tl grids _
    refine ⟨pn, ?_⟩
    simp [Py.whileE, HText.lines, hEnd]
  | cons b bs ih =>
    intro hmem pn tl grids hg
    obtain ⟨pn1, h1⟩ := hPass b (hmem b (by simp)) (tx.lines bs) pn tl grids hg
    obtain ⟨pn2, h2⟩ := ih (fun b' hb' => hmem b' (by simp [hb'])) pn1 (hStepG (tl, grids) b).1 (hStepG (tl, grids) b).2
      (hStepG_inv hk blocks hh tl grids hg b (hmem b (by simp)))
    refine ⟨pn2, ?_⟩
    have hl : tx.lines (b :: bs) = tx.hdr b :: (b.pts.map tx.dat ++ tx.lines bs) := by
      simp [HText.lines]
    rw [hl]
    show Py.whileE (bs.length + 1 + 1) _ F = _
    rw [Py.whileE, h1]
    simp only []
    rw [h2]
    rfl

omit [Add α] [Sub α] [Mul α] [Div α] [Neg α] [LT α] [LE α] [DecidableLT α] [DecidableLE α]
  [Taurex.Transc α] [OfNat α 0] [OfNat α 1] [OfNat α 10] [OfNat α 100] [OfNat α 760] [OfNat α 1000] [OfNat α 10000]
  [OfNat α 100000] [OfNat α 101325] [OfNat α 1000000] [OfNat α 1000000000] [OfNat α 10000000000]
  [OfNat α 133322387415] in
theorem nodup_map_inj {β γ : Type} (f : β → γ) :
    ∀ (l : List β), (l.map f).Nodup → ∀ a ∈ l, ∀ b ∈ l, f a = f b → a = b := by
  intro l
  induction l with
  | nil => intro _ a ha; simp at ha
  | cons x l ih =>
    intro hnd a ha b hb hab
    simp only [List.map_cons, List.nodup_cons] at hnd
    rcases List.mem_cons.1 ha with rfl | ha' <;> rcases List.mem_cons.1 hb with rfl | hb'
    · rfl
    · exact absurd (hab ▸ List.mem_map_of_mem (f := f) hb') hnd.1
    · exact absurd (hab ▸ List.mem_map_of_mem (f := f) ha') hnd.1
    · exact ih hnd.2 a ha' b hb' hab

theorem upsert_ts_ne (grids : List (HGrid α)) (key : α × α) (wn : List α) (e : α × List α)
    (h : ∀ g ∈ grids, g.ts ≠ []) : ∀ g ∈ upsert grids key wn e, g.ts ≠ [] := by
  unfold upsert
  split
  · intro g hg
    obtain ⟨g', hg', rfl⟩ := List.mem_map.1 hg
    split
    · simp
    · exact h g' hg'
  · intro g hg
    rcases List.mem_append.1 hg with h' | h'
    · exact h g h'
    · simp only [List.mem_singleton] at h'
      subst h'
      simp

theorem hLoad_ts_ne' (blocks : List (HBlock α)) : ∀ g ∈ (hLoad blocks).2, g.ts ≠ [] := by
  rw [hLoad_eq_foldl]
  have key : ∀ (bs : List (HBlock α)) (acc : List α × List (HGrid α)), (∀ g ∈ acc.2, g.ts ≠ []) →
      ∀ g ∈ (bs.foldl hStepG acc).2, g.ts ≠ [] := by
    intro bs
    induction bs with
    | nil => intro acc h; exact h
    | cons b bs ih =>
      intro acc h
      exact ih _ (upsert_ts_ne acc.2 _ _ _ h)
  exact key blocks ([], []) (by simp)

end
end Taurex.C14Src
