/-
  C15 — source tie, part 1: how the model's data is seen by the regenerated (dynamically typed) code, and the ORACLE that
  answers what the translated functions ask of objects that are not built-in values.

  * `emb : Value → Val Scalar Obj`: a typed config value as the Python value it stands for (a float is carried by the
    model's decimal literal `Scalar.dec/inf/nan`, so the float payload `φ` is `Scalar`); `embCfg`: a `Config` as a `dict`
    with string keys.
  * `Obj`: the objects the code touches — classes (a `Klass` record of the registry), a class built by
    `build_new_mixed_class`, `klass.__init__`, the `ClassFactory` singleton, the `inspect` module, the section base
    classes, module-level functions that are not translated.
  * `World`: the registry and custom files of the model plus everything the model does NOT fix (which exception
    `input_keywords()` raises for a class without keywords, the parameters without default in an argspec, what calling
    a class returns): the tie theorems hold FOR EVERY world, i.e. the translated code does not depend on those.
    `argspec` is the named tuple `inspect.getfullargspec` returns (attributes `args` / `defaults`, slice `[:4]`).
  * `World.ext`: the oracle.  `ClassFactory().<x>Klasses` lists the classes of the registry section in the registry's
    order (the code iterates a `set`; `C15.lookup_unique` shows the order is irrelevant), `klass.input_keywords()` is
    the `keywords` column or raises, `inspect.getfullargspec(klass.__init__)` ends in the `kwargs` column (names and
    defaults), `build_new_mixed_class` / `detect_and_return_klass` are the model's `Resolved.mixed` / `detectKlass`,
    `float(str)` is `parseNumber`.
-/
import TaurexModel.Gen.SrcC15
import TaurexModel.Factory
set_option linter.unusedSectionVars false
set_option linter.unusedVariables false

namespace Taurex.C15Src
open Taurex.Gen Taurex.Gen.Dyn
open Taurex.Factory (Scalar Value Config Klass Registry SectionReg Resolved Err Customs Component Sec InputFile)

abbrev M := Except Exc

deriving instance DecidableEq for Taurex.Factory.Sec

/-- Python floats as the model carries them: decimal literals.  `float(i)` of an int is the model's `toFloat (.int i)`;
    ordering / zero tests of floats are not used by the translated C15 code -/
instance : FloatLike Scalar where
  ofInt i := .dec (i < 0) i.natAbs 0
  beq a b := a == b
  lt _ _ := false
  isZero _ := false

inductive Obj where
  /-- a class of the registry / of a custom file -/
  | klass (k : Klass)
  /-- `build_new_mixed_class(base, mixins)` -/
  | mixed (ms : List Klass) (b : Klass)
  /-- `klass.__init__` (`mixin = false`) / `klass.__init_mixin__` (`mixin = true`) -/
  | init (k : Klass) (mixin : Bool)
  /-- `inspect.getfullargspec(·)` of one of these: a named tuple -/
  | argspec (k : Klass) (mixin : Bool)
  /-- the class `ClassFactory` and its instance -/
  | classFactory
  | cf
  /-- an imported module -/
  | module (name : String)
  /-- a module-level function / class that is not translated -/
  | fn (name : String)
  /-- the base class of a section: its `__name__` and the section -/
  | base (name sec : String)
  /-- a constructor default that is neither a scalar nor a flat list -/
  | other (repr : String)
  /-- another component of the graph -/
  | ref (what : String)
  /-- a `ParameterParser` that has read the (typed) input file `f`, and its attribute `_raw_config` (the `ConfigObj`) -/
  | parser (f : InputFile)
  | rawConfig (f : InputFile)
  deriving DecidableEq

abbrev V := Dyn.Val Scalar Obj

def embS : Scalar → V
  | .none => .none
  | .bool b => .bool b
  | .int i => .int i
  | .str s => .str s
  | .dec n m e => .float (.dec n m e)
  | .inf n => .float (.inf n)
  | .nan => .float .nan

def emb : Value → V
  | .scalar s => embS s
  | .list l => .list (l.map embS)
  | .other r => .obj (.other r)
  | .ref w => .obj (.ref w)

/-- a `Config` as the entries of a `dict` -/
def embCfg (c : Config) : List (V × V) := c.map (fun kv => (.str kv.1, emb kv.2))

/-- the sub-sections of a section as dictionary entries -/
def subsEmb (subs : List (String × Config)) : List (V × V) :=
  subs.map (fun sc => (.str sc.1, .dict (embCfg sc.2)))

/-- a section as the Python dictionary: its scalar entries, then its sub-sections (dictionaries) -/
def embSec (scalars : Config) (subs : List (String × Config)) : List (V × V) :=
  embCfg scalars ++ subs.map (fun sc => (.str sc.1, .dict (embCfg sc.2)))

/-- `ConfigObj.dict()`: the whole file as a dictionary of sections -/
def embFile (f : InputFile) : List (V × V) := f.map (fun s => (.str s.1, .dict (embSec s.2.scalars s.2.subs)))

/-- a `Config` as keyword arguments -/
def embKw (c : Config) : List (String × V) := c.map (fun kv => (kv.1, emb kv.2))

def kobj (k : Klass) : V := .obj (.klass k)

/-- the exception class of a model error -/
def errExc : Err → Exc
  | .keyError _ => .KeyError
  | .notImplemented _ => .NotImplementedError
  | .typeError _ => .TypeError
  | .attrError _ => .AttributeError
  | .generic _ => .Exception
  | .valueError _ => .ValueError

/-- a model result as the outcome of the Python call -/
def embE {β γ : Type} (f : β → γ) : Except Err β → M γ
  | .ok b => .ok (f b)
  | .error e => .error (errExc e)

/-- `ClassFactory` attribute → (registry section, mixin list?) -/
def cfAttrs : List (String × String × Bool) :=
  [("temperatureKlasses", "temperature", false), ("chemistryKlasses", "chemistry", false), ("gasKlasses", "gas", false),
   ("pressureKlasses", "pressure", false), ("planetKlasses", "planet", false), ("starKlasses", "star", false),
   ("instrumentKlasses", "instrument", false), ("modelKlasses", "model", false),
   ("contributionKlasses", "contribution", false), ("optimizerKlasses", "optimizer", false),
   ("observationKlasses", "observation", false), ("priorKlasses", "prior", false),
   ("temperatureMixinKlasses", "temperature", true), ("chemistryMixinKlasses", "chemistry", true),
   ("gasMixinKlasses", "gas", true), ("pressureMixinKlasses", "pressure", true), ("planetMixinKlasses", "planet", true),
   ("starMixinKlasses", "star", true), ("instrumentMixinKlasses", "instrument", true),
   ("modelMixinKlasses", "model", true), ("contributionMixinKlasses", "contribution", true),
   ("optimizerMixinKlasses", "optimizer", true), ("observationMixinKlasses", "observation", true)]

/-- `mixin_factory`'s table and the base classes the `create_*` functions import: `__name__` → registry section -/
def mixinBases : List (String × String) :=
  [("TemperatureProfile", "temperature"), ("Chemistry", "chemistry"), ("Gas", "gas"), ("PressureProfile", "pressure"),
   ("Planet", "planet"), ("Star", "star"), ("Instrument", "instrument"), ("ForwardModel", "model"),
   ("Contribution", "contribution"), ("Optimizer", "optimizer"), ("BaseSpectrum", "observation")]

structure World where
  reg : Registry
  customs : Customs
  /-- `klass.input_keywords()` raises this (a class without keywords) -/
  kwErr : Klass → Option Exc
  /-- the leading entries of `getfullargspec(klass.__init__).args`: `self` and the parameters without a default -/
  argsPre : Klass → List V
  varargs : Klass → V
  varkw : Klass → V
  /-- calling an object (constructing a component), for every callable the oracle does not define below -/
  call : Obj → List V → List (String × V) → M V
  /-- `hasattr(value, name)` -/
  hasattr : V → String → Bool

def unKlass : V → Option Klass
  | .obj (.klass k) => some k
  | _ => none

/-- the trailing parameters with their defaults that an argspec describes: the constructor's, or `__init_mixin__`'s -/
def specKwargs (k : Klass) (mixin : Bool) : Config := if mixin then k.mixinKwargs else k.kwargs

/-- `argspec.args`: some leading names (`self`, parameters without default), then the parameters with a default -/
def argspecArgs (w : World) (k : Klass) (mixin : Bool) : V :=
  .list (w.argsPre k ++ (specKwargs k mixin).map (fun kv => .str kv.1))

/-- `argspec.defaults`: `None` when there is none, else the tuple of the default values -/
def argspecDefaults (k : Klass) (mixin : Bool) : V :=
  if (specKwargs k mixin).isEmpty then .none else .tuple ((specKwargs k mixin).map (fun kv => emb kv.2))

def World.ext (w : World) : Ext M Scalar Obj where
  global name :=
    if name = "ClassFactory" then .ok (.obj .classFactory)
    else if name = "inspect" then .ok (.obj (.module "inspect"))
    else match mixinBases.lookup name with
      | some sec => .ok (.obj (.base name sec))
      | none => .ok (.obj (.fn name))
  getattr o name :=
    match o with
    | .cf =>
      match cfAttrs.lookup name with
      | some (sec, mix) =>
        .ok (.list ((if mix then (w.reg.sec sec).mixins else (w.reg.sec sec).classes).map kobj))
      | none => .error .AttributeError
    | .klass k =>
      if name = "__name__" then .ok (.str k.name)
      else if name = "__init__" then .ok (.obj (.init k false))
      else if name = "__init_mixin__" then .ok (.obj (.init k true))
      else .error .AttributeError
    | .argspec k mx =>
      if name = "args" then .ok (argspecArgs w k mx)
      else if name = "defaults" then .ok (argspecDefaults k mx)
      else .error .AttributeError
    | .mixed ms b =>
      if name = "__bases__" then .ok (.tuple ((ms ++ [b]).map kobj))
      else if name = "__name__" then .ok (.str "mixed")
      else .error .AttributeError
    | .base n _ => if name = "__name__" then .ok (.str n) else .error .AttributeError
    | .ref _ => if name = "activeGases" then .ok .none else .error .AttributeError
    | .parser f => if name = "_raw_config" then .ok (.obj (.rawConfig f)) else .error .AttributeError
    | _ => .error .AttributeError
  call o args kw :=
    match o with
    | .classFactory => .ok (.obj .cf)
    | .fn name =>
      if name = "build_new_mixed_class" then
        match args with
        | [.obj (.klass b), .list ms] =>
          match ms.mapM unKlass with
          | some ks =>
            if Factory.hasDup (ks.map (·.path)) then .error .TypeError else .ok (.obj (.mixed ks b))
          | none => .error .TypeError
        | _ => .error .TypeError
      else if name = "detect_and_return_klass" then
        match args with
        | [.str file, .obj (.base _ sec)] =>
          match w.customs.lookup file with
          | none => .error .Exception
          | some members => embE kobj (Factory.detectKlass members sec)
        | _ => .error .Exception
      else w.call o args kw
    | _ => w.call o args kw
  method o name args _ :=
    match o with
    | .klass k =>
      if name = "input_keywords" then
        match w.kwErr k with
        | some e => .error e
        | none => .ok (.list (k.keywords.map .str))
      else .error .AttributeError
    | .module m =>
      if m = "inspect" ∧ name = "getfullargspec" then
        match args with
        | [.obj (.init k mx)] => .ok (.obj (.argspec k mx))
        | _ => .error .TypeError
      else .error .AttributeError
    | .rawConfig f => if name = "dict" then .ok (.dict (embFile f)) else .error .AttributeError
    | _ => .error .AttributeError
  isinst _ _ := false
  iter _ := .error .TypeError
  truthy _ := .ok true
  op name args :=
    if name = "getslice" then
      match args with
      | [.obj (.argspec k mx), .none, .int 4] =>
        .ok (.tuple [argspecArgs w k mx, w.varargs k, w.varkw k, argspecDefaults k mx])
      | _ => .error .TypeError
    else if name = "issubclass" then
      match args with
      | [.obj (.klass k), .obj (.fn "Mixin")] => .ok (.bool k.isMixin)
      | _ => .error .TypeError
    else if name = "hasattr" then
      match args with
      | [o, .str n] => .ok (.bool (w.hasattr o n))
      | _ => .error .TypeError
    else .error .TypeError
  parseFloat s := Factory.parseNumber s

/-! ## the monad `Except Exc` -/

@[simp] theorem pure_ok {β : Type} (x : β) : (pure x : M β) = .ok x := rfl
@[simp] theorem throw_err {β : Type} (e : Exc) : (throw e : M β) = .error e := rfl
@[simp] theorem bind_ok {β γ : Type} (x : β) (f : β → M γ) : ((Except.ok x : M β) >>= f) = f x := rfl
@[simp] theorem bind_err {β γ : Type} (e : Exc) (f : β → M γ) : ((Except.error e : M β) >>= f) = .error e := rfl
@[simp] theorem bind_ok_right {β : Type} (x : M β) : (x >>= fun a => Except.ok a) = x := by cases x <;> rfl
@[simp] theorem try_ok {β : Type} (x : β) (h : Exc → M β) : tryCatch (Except.ok x : M β) h = .ok x := rfl
@[simp] theorem try_err {β : Type} (e : Exc) (h : Exc → M β) : tryCatch (Except.error e : M β) h = h e := rfl

/-! ## the oracle, field by field -/

section
variable (w : World)

@[simp] theorem ext_global_cf : w.ext.global "ClassFactory" = .ok (.obj .classFactory) := rfl
@[simp] theorem ext_global_inspect : w.ext.global "inspect" = .ok (.obj (.module "inspect")) := rfl
theorem ext_global_fn (name : String) (h1 : name ≠ "ClassFactory") (h2 : name ≠ "inspect")
    (h3 : mixinBases.lookup name = none) :
    w.ext.global name = .ok (.obj (.fn name)) := by
  simp [World.ext, h1, h2, h3]
theorem ext_global_base (name sec : String) (h1 : name ≠ "ClassFactory") (h2 : name ≠ "inspect")
    (h3 : mixinBases.lookup name = some sec) :
    w.ext.global name = .ok (.obj (.base name sec)) := by
  simp [World.ext, h1, h2, h3]
@[simp] theorem ext_call_cf (a : List V) (k : List (String × V)) : w.ext.call .classFactory a k = .ok (.obj .cf) := rfl
theorem ext_getattr_cf (name sec : String) (mix : Bool) (h : cfAttrs.lookup name = some (sec, mix)) :
    w.ext.getattr .cf name
      = .ok (.list ((if mix then (w.reg.sec sec).mixins else (w.reg.sec sec).classes).map kobj)) := by
  simp only [World.ext, h]
@[simp] theorem ext_getattr_name (k : Klass) : w.ext.getattr (.klass k) "__name__" = .ok (.str k.name) := rfl
@[simp] theorem ext_getattr_init (k : Klass) : w.ext.getattr (.klass k) "__init__" = .ok (.obj (.init k false)) := rfl
@[simp] theorem ext_getattr_init_mixin (k : Klass) :
    w.ext.getattr (.klass k) "__init_mixin__" = .ok (.obj (.init k true)) := rfl
@[simp] theorem ext_getattr_args (k : Klass) (mx : Bool) :
    w.ext.getattr (.argspec k mx) "args" = .ok (argspecArgs w k mx) := rfl
@[simp] theorem ext_getattr_defaults (k : Klass) (mx : Bool) :
    w.ext.getattr (.argspec k mx) "defaults" = .ok (argspecDefaults k mx) := rfl
@[simp] theorem ext_getslice4 (k : Klass) (mx : Bool) :
    w.ext.op "getslice" [.obj (.argspec k mx), .none, .int 4]
      = .ok (.tuple [argspecArgs w k mx, w.varargs k, w.varkw k, argspecDefaults k mx]) := rfl
@[simp] theorem ext_issubclass (k : Klass) :
    w.ext.op "issubclass" [.obj (.klass k), .obj (.fn "Mixin")] = .ok (.bool k.isMixin) := rfl
@[simp] theorem ext_global_mixin : w.ext.global "Mixin" = .ok (.obj (.fn "Mixin")) :=
  ext_global_fn w _ (by decide) (by decide) (by decide)
@[simp] theorem ext_getattr_bases (ms : List Klass) (b : Klass) :
    w.ext.getattr (.mixed ms b) "__bases__" = .ok (.tuple ((ms ++ [b]).map kobj)) := rfl
@[simp] theorem ext_getattr_base (n sec : String) : w.ext.getattr (.base n sec) "__name__" = .ok (.str n) := rfl
@[simp] theorem ext_getattr_activeGases (r : String) : w.ext.getattr (.ref r) "activeGases" = .ok .none := rfl
@[simp] theorem ext_input_keywords (k : Klass) (a : List V) (kw : List (String × V)) :
    w.ext.method (.klass k) "input_keywords" a kw
      = match w.kwErr k with
        | some e => .error e
        | none => .ok (.list (k.keywords.map .str)) := rfl
@[simp] theorem ext_getfullargspec (k : Klass) (mx : Bool) (kw : List (String × V)) :
    w.ext.method (.module "inspect") "getfullargspec" [.obj (.init k mx)] kw = .ok (.obj (.argspec k mx)) := rfl
@[simp] theorem ext_parseFloat (s : String) : w.ext.parseFloat s = Factory.parseNumber s := rfl
@[simp] theorem ext_call_klass (k : Klass) (a : List V) (kw : List (String × V)) :
    w.ext.call (.klass k) a kw = w.call (.klass k) a kw := rfl
@[simp] theorem ext_call_mixed (ms : List Klass) (b : Klass) (a : List V) (kw : List (String × V)) :
    w.ext.call (.mixed ms b) a kw = w.call (.mixed ms b) a kw := rfl
@[simp] theorem ext_hasattr (o : V) (n : String) :
    w.ext.op "hasattr" [o, .str n] = .ok (.bool (w.hasattr o n)) := rfl
@[simp] theorem ext_getattr_raw_config (f : InputFile) :
    w.ext.getattr (.parser f) "_raw_config" = .ok (.obj (.rawConfig f)) := rfl
@[simp] theorem ext_method_dict (f : InputFile) (a : List V) (kw : List (String × V)) :
    w.ext.method (.rawConfig f) "dict" a kw = .ok (.dict (embFile f)) := rfl

end

/-! ## lemmas: equality and dictionaries on embedded data -/

@[simp] theorem beq_str (a b : String) : Dyn.Val.beq (φ := Scalar) (ω := Obj) (.str a) (.str b) = (a == b) := by
  simp [Dyn.Val.beq]

@[simp] theorem hashable_str (a : String) : Dyn.Val.hashable (φ := Scalar) (ω := Obj) (.str a) = true := by
  simp [Dyn.Val.hashable]

theorem dictGet_emb (c : Config) (k : String) :
    dictGet? (embCfg c) (.str k) = (c.lookup k).map emb := by
  induction c with
  | nil => rfl
  | cons kv t ih =>
    obtain ⟨k', v⟩ := kv
    simp only [embCfg, List.map_cons, dictGet?, beq_str, List.lookup_cons] at ih ⊢
    by_cases h : k' = k
    · subst h; simp
    · have h' : (k == k') = false := by simp [Ne.symm h]
      have h'' : (k' == k) = false := by simp [h]
      simp [h', h'', ← ih]

theorem dictHas_emb (c : Config) (k : String) : dictHas (embCfg c) (.str k) = Factory.hasKey c k := by
  simp [dictHas, embCfg, Factory.hasKey, List.any_map, Function.comp_def]

theorem dictDel_emb (c : Config) (k : String) :
    dictDel (embCfg c) (.str k) = embCfg (c.filter (·.1 != k)) := by
  induction c with
  | nil => rfl
  | cons kv t ih =>
    simp only [embCfg, dictDel, List.map_cons, List.filter_cons, beq_str] at ih ⊢
    by_cases h : kv.1 = k
    · simp [h, ih]
    · have h' : (kv.1 == k) = false := by simp [h]
      simp [h', h, ih]

/-- `d[k] = v` on a dictionary (distinct keys) is the model's `dictSet` -/
theorem dictSet_emb (c : Config) (hn : (c.map (·.1)).Nodup) (k : String) (v : Value) :
    dictSet (embCfg c) (.str k) (emb v) = embCfg (Factory.dictSet c k v) := by
  induction c with
  | nil => rfl
  | cons kv t ih =>
    obtain ⟨k', v'⟩ := kv
    have hn' : (t.map (·.1)).Nodup := (List.nodup_cons.mp hn).2
    have hk' : k' ∉ t.map (·.1) := (List.nodup_cons.mp hn).1
    by_cases h : k' = k
    · subst h
      have hmap : t.map (fun kv => if (kv.1 == k') = true then (k', v) else kv) = t := by
        conv => rhs; rw [← List.map_id t]
        apply List.map_congr_left
        intro kv hm
        have : kv.1 ≠ k' := fun he => hk' (he ▸ List.mem_map_of_mem hm)
        simp [this]
      have hr : Factory.dictSet ((k', v') :: t) k' v = (k', v) :: t := by
        simp only [Factory.dictSet, Factory.hasKey, List.any_cons, beq_self_eq_true, Bool.true_or, if_true,
          List.map_cons, hmap]
      rw [hr]
      simp only [embCfg, List.map_cons, dictSet, beq_str, beq_self_eq_true, if_true]
    · have h' : (k' == k) = false := by simp [h]
      have hl : dictSet (embCfg ((k', v') :: t)) (.str k) (emb v)
          = (.str k', emb v') :: dictSet (embCfg t) (.str k) (emb v) := by
        simp only [embCfg, List.map_cons, dictSet, beq_str, h', Bool.false_eq_true, if_false]
      rw [hl, ih hn']
      have hr : Factory.dictSet ((k', v') :: t) k v = (k', v') :: Factory.dictSet t k v := by
        simp only [Factory.dictSet, Factory.hasKey, List.any_cons, h', Bool.false_or]
        by_cases hh : (t.any fun x => x.1 == k) = true
        · simp only [hh, if_true, List.map_cons, h', Bool.false_eq_true, if_false]
        · simp only [hh, Bool.false_eq_true, if_false, List.cons_append]
      rw [hr]
      simp only [embCfg, List.map_cons]

theorem nodup_dictSet (c : Config) (hn : (c.map (·.1)).Nodup) (k : String) (v : Value) :
    ((Factory.dictSet c k v).map (·.1)).Nodup := by
  unfold Factory.dictSet
  by_cases hh : Factory.hasKey c k = true
  · simp only [hh, if_true, List.map_map]
    have : (c.map ((fun x => x.1) ∘ fun kv => if (kv.1 == k) = true then (k, v) else kv)) = c.map (·.1) := by
      apply List.map_congr_left
      intro kv _
      by_cases h : kv.1 = k
      · simp [h]
      · simp [h]
    rw [this]; exact hn
  · simp only [hh, Bool.false_eq_true, if_false, List.map_append, List.map_cons, List.map_nil]
    rw [List.nodup_append]
    refine ⟨hn, by simp, ?_⟩
    intro a ha b hb
    simp only [List.mem_singleton] at hb
    subst hb
    intro he
    subst he
    apply hh
    simp only [Factory.hasKey, List.any_eq_true]
    obtain ⟨kv, hm, he⟩ := List.mem_map.mp ha
    exact ⟨kv, hm, by simp [he]⟩

end Taurex.C15Src
