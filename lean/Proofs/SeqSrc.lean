/-
  Helper lemmas of the source ties written in the dialect `seq` (Props/C12Src.lean: NPoint / TemperatureArray,
  Props/C10Src.lean: TwoLayerGas / ArrayGas): the primitives of TaurexModel/Gen/SeqPrelude.lean (Python slices with int
  bounds, checked slice stores) against `List.take` / `List.drop`, the outcome of a translated function that may raise
  against the model's `Outcome`, and the "odd window / keep the borders" assembly shared by `NPoint.profile` and
  `TwoLayerGas.initialize_profile` against `assembleSmoothed`.  Generic in the carrier (core only, no algebra).
-/
import TaurexModel.NpInterp
import TaurexModel.Gen.SeqPrelude
set_option linter.unusedSectionVars false

namespace Taurex.SeqSrc
open Taurex Taurex.NpInterp Taurex.Gen

/-- what a translated function that may raise ends in, read as the model's `Outcome`: the exception named `invalid`
    (an `InvalidModelException` subclass) is `invalid`, every other exception (numpy's ValueError …) is `error` -/
def outcomeOf {β : Type} (invalid : String) : Except String β → Outcome β
  | .ok v => .ok v
  | .error e => if e = invalid then .invalid else .error

@[simp] theorem outcomeOf_ok {β : Type} (s : String) (v : β) : outcomeOf s (Except.ok v) = Outcome.ok v := rfl

theorem outcomeOf_ok_iff {β : Type} (s : String) (x : Except String β) (v : β) :
    outcomeOf s x = Outcome.ok v ↔ x = Except.ok v := by
  cases x with
  | ok w => simp [outcomeOf]
  | error e => simp only [outcomeOf]; split <;> simp

/-! ### slice bounds -/

theorem sliceBound_nat (n k : Nat) : Np.sliceBound n (Int.ofNat k) = min k n := by
  unfold Np.sliceBound
  simp only [Int.ofNat_eq_natCast]
  have : ¬ ((k : Int) < 0) := by omega
  rw [if_neg this]
  simp

theorem sliceBound_neg (n k : Nat) (hk : 0 < k) : Np.sliceBound n (-(Int.ofNat k)) = n - k := by
  unfold Np.sliceBound
  simp only [Int.ofNat_eq_natCast]
  have : (-(k : Int) < 0) := by omega
  rw [if_pos this]
  omega

theorem sliceBound_neg_zero (n : Nat) : Np.sliceBound n (-(Int.ofNat 0)) = 0 := by
  unfold Np.sliceBound
  simp

section
variable {β : Type}

/-- `a[k:]` for a non-negative int `k` -/
theorem pySlice_from (l : List β) (k : Nat) : Np.pySlice l (some (Int.ofNat k)) none = l.drop k := by
  simp only [Np.pySlice, Np.sliceLen, Np.sliceStart, Np.sliceStop]
  rw [sliceBound_nat]
  by_cases h : k ≤ l.length
  · rw [Nat.min_eq_left h, List.take_of_length_le (by simp)]
  · have h' : l.length ≤ k := by omega
    rw [Nat.min_eq_right h', List.drop_eq_nil_of_le (Nat.le_refl _), List.drop_eq_nil_of_le h']
    simp

/-- `a[:-k]` for a positive int `k` -/
theorem pySlice_to_neg (l : List β) (k : Nat) (hk : 0 < k) :
    Np.pySlice l none (some (-(Int.ofNat k))) = l.take (l.length - k) := by
  simp only [Np.pySlice, Np.sliceLen, Np.sliceStart, Np.sliceStop]
  rw [sliceBound_neg _ _ hk]
  simp

theorem storeOk_from (n k m : Nat) :
    Np.storeOk n (some (Int.ofNat k)) none m = (m == n - min k n || m == 1) := by
  simp only [Np.storeOk, Np.sliceLen, Np.sliceStart, Np.sliceStop]
  rw [sliceBound_nat]

/-- `a[k:] = v` with as many values as selected entries -/
theorem storeSlice_from (l v : List β) (k : Nat) (hk : k ≤ l.length) (hv : v.length = l.length - k) :
    Np.storeSlice l (some (Int.ofNat k)) none v = l.take k ++ v := by
  simp only [Np.storeSlice, Np.sliceLen, Np.sliceStart, Np.sliceStop, sliceBound_nat, Nat.min_eq_left hk, hv, if_true]
  rw [List.drop_eq_nil_of_le (by omega)]
  simp

/-- `a[k:] = v` beyond the end of `a` with an empty value: nothing changes -/
theorem storeSlice_from_beyond (l : List β) (k : Nat) (hk : l.length ≤ k) :
    Np.storeSlice l (some (Int.ofNat k)) none [] = l := by
  simp only [Np.storeSlice, Np.sliceLen, Np.sliceStart, Np.sliceStop, sliceBound_nat, Nat.min_eq_right hk]
  simp

end

/-- `a[k]` for a non-negative int `k` -/
theorem getInt_nat {β : Type} (d : β) (l : List β) (k : Nat) : Np.getInt d l (Int.ofNat k) = l.getD k d := by
  unfold Np.getInt
  simp only [Int.ofNat_eq_natCast]
  have : ¬ ((k : Int) < 0) := by omega
  rw [if_neg this]
  simp

/-! ### argmin -/

section
variable {α : Type} [Add α] [Sub α] [Mul α] [Div α] [Neg α] [LT α] [LE α]
  [DecidableLT α] [DecidableLE α] [OfNat α 0]

theorem argminFrom_abs (target : α) : ∀ (l : List α) (i best : Nat) (bv : α),
    Np.argminFrom (l.map (fun v => absv (v - target))) i best bv = argminAbs.go target l i best bv
  | [], _, _, _ => rfl
  | v :: t, i, best, bv => by
    simp only [List.map_cons, Np.argminFrom, argminAbs.go]
    split
    · exact argminFrom_abs target t (i + 1) i _
    · exact argminFrom_abs target t (i + 1) best bv

/-- `np.abs(p - target).argmin()` is the model's `argminAbs` (the first minimum) -/
theorem argmin_abs (p : List α) (target : α) :
    Np.argmin (List.map (fun x => if x < (0 : α) then (-x) else x) (List.map (fun x => x - target) p))
      = argminAbs p target := by
  rw [List.map_map]
  cases p with
  | nil => rfl
  | cons v t =>
    simp only [List.map_cons, Np.argmin, argminAbs, Function.comp_def]
    exact argminFrom_abs target t 1 0 _

end

/-! ### the assembly after smoothing -/

section
variable {α : Type} [Add α] [Sub α] [Mul α] [Div α] [Neg α] [LT α] [LE α]
  [DecidableLT α] [DecidableLE α] [OfNat α 0]

/-- **`foo = raw[::-1]; if len(sm) == len(foo): foo = sm[::-1] else: foo[border:-border] = sm[::-1]`** with
    `border = (len(raw) - len(sm)) // 2 ≥ 0` is `assembleSmoothed raw sm`.  The Python slice `foo[b:-b]` is empty for
    `b = 0`; numpy raises ValueError unless the value has as many entries as the slice, or exactly one.  (The model does
    not broadcast a single smoothed value into a longer slice; `hone` excludes that case: it does not arise for an odd
    window.)  Generic. -/
theorem assemble_tie (inv : String) (hinv : "ValueError" ≠ inv) (raw sm : List α)
    (hone : sm.length = 1 → sm.length < raw.length → 2 * ((raw.length - sm.length) / 2) + 1 = raw.length) :
    outcomeOf inv
      (if decide (sm.length = (List.reverse raw).length) then (Except.ok (List.reverse sm) : Except String (List α))
       else
        if !(Np.storeOk (List.reverse raw).length (some (Int.ofNat ((raw.length - sm.length) / 2)))
              (some (-(Int.ofNat ((raw.length - sm.length) / 2)))) (List.reverse sm).length)
        then (Except.error "ValueError")
        else Except.ok (Np.storeSlice (List.reverse raw) (some (Int.ofNat ((raw.length - sm.length) / 2)))
              (some (-(Int.ofNat ((raw.length - sm.length) / 2)))) (List.reverse sm)))
      = assembleSmoothed raw sm := by
  unfold assembleSmoothed
  simp only [List.length_reverse, decide_eq_true_eq]
  by_cases h1 : sm.length = raw.length
  · simp [h1]
  rw [if_neg h1, if_neg h1]
  by_cases hb : (raw.length - sm.length) / 2 = 0
  · -- border 0: the slice foo[0:-0] is empty
    rw [hb]
    simp only [if_true]
    simp only [Np.storeOk, Np.storeSlice, Np.sliceLen, Np.sliceStart, Np.sliceStop, sliceBound_nat, sliceBound_neg_zero,
      Nat.zero_min, Nat.sub_self, List.take_zero, List.nil_append, Nat.add_zero, List.drop_zero,
      List.length_reverse]
    by_cases hs : sm.length ≤ 1
    · rw [if_pos hs]
      have : (sm.length == 0 || sm.length == 1) = true := by
        rcases Nat.le_one_iff_eq_zero_or_eq_one.1 hs with h | h <;> simp [h]
      simp only [this, Bool.not_true, Bool.false_eq_true, if_false]
      by_cases h0 : sm.length = 0
      · have : sm = [] := List.eq_nil_of_length_eq_zero h0
        subst this
        simp
      · have h1' : sm.length = 1 := by omega
        rw [if_neg h0]
        match sm, h1' with
        | [x], _ => simp
    · rw [if_neg hs]
      have : (sm.length == 0 || sm.length == 1) = false := by
        have h0 : sm.length ≠ 0 := by omega
        have h1' : sm.length ≠ 1 := by omega
        simp [h0, h1']
      simp [this, outcomeOf, hinv]
  · rw [if_neg hb]
    have hlt : sm.length < raw.length := by
      by_cases h : sm.length < raw.length
      · exact h
      · exfalso; apply hb; have : raw.length - sm.length = 0 := by omega
        rw [this]
    have hbpos : 0 < (raw.length - sm.length) / 2 := Nat.pos_of_ne_zero hb
    generalize hbdef : (raw.length - sm.length) / 2 = b at *
    have hb2 : 2 * b ≤ raw.length - sm.length := by rw [← hbdef]; omega
    have hmin : min b raw.length = b := by omega
    simp only [Np.storeOk, Np.storeSlice, Np.sliceLen, Np.sliceStart, Np.sliceStop, sliceBound_nat,
      sliceBound_neg _ _ hbpos, List.length_reverse, hmin]
    by_cases hok : b + sm.length + b = raw.length
    · rw [if_pos hok]
      have hk : raw.length - b - b = sm.length := by omega
      simp only [hk, beq_self_eq_true, Bool.true_or, Bool.not_true, Bool.false_eq_true, if_false, if_true,
        outcomeOf_ok]
    · rw [if_neg hok]
      have hk : ¬ (sm.length = raw.length - b - b) := by omega
      have h1' : ¬ (sm.length = 1) := by
        intro h
        have := hone h hlt
        omega
      simp [hk, h1', outcomeOf, hinv]

/-- the number of window means (generic form of `movingAverage_length`) -/
theorem movingAverage_length' [NatConv α] (a : List α) (w : Nat) :
    (movingAverage a w).length = if w = 0 ∨ a.length < w then 0 else a.length - w + 1 := by
  unfold movingAverage
  split <;> simp

/-- the smoothed profile of an odd window satisfies the side condition of `assemble_tie` -/
theorem assemble_side [NatConv α] (a : List α) (w : Nat) (hodd : w % 2 = 1) :
    (movingAverage a w).length ≤ a.length ∧
    ((movingAverage a w).length = 1 → (movingAverage a w).length < a.length →
      2 * ((a.length - (movingAverage a w).length) / 2) + 1 = a.length) := by
  rw [movingAverage_length']
  split <;> omega

end

end Taurex.SeqSrc
