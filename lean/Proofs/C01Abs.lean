/-
  Lemmas about `AbsorptionGrid.absSigma` (the absorption cross-section of a run whose molecules are tabulated on their own
  wavenumber grids) over ℝ, used by `Props/C01.lean`.
-/
import Mathlib.Tactic.Linarith
import Mathlib.Tactic.Positivity
import Proofs.RealInst
import Proofs.NpInterp
import Proofs.C13Lemmas
import TaurexModel.AbsorptionGrid

namespace Taurex.C01Abs
open Taurex.Grid Taurex.Sigma Taurex.AbsorptionGrid Taurex.NpInterp Taurex.C13L

/-- every point of a list lies inside the list's own range -/
theorem inRange_self (req : List ℝ) (x : ℝ) (hx : x ∈ req) : inRange req x = true := by
  unfold inRange
  simp only [Bool.and_eq_true, decide_eq_true_eq]
  exact ⟨minL_le req x hx, maxL_ge req x hx⟩

/-- a request that IS the molecule's grid gets the molecule's values back, untouched -/
theorem opacityOnGrid_self (nw vals : List ℝ) (hlen : nw.length = vals.length) :
    opacityOnGrid nw vals nw = vals := by
  have hf : (nw.zip vals).filter (fun p => inRange nw p.1) = nw.zip vals := by
    apply List.filter_eq_self.2
    intro p hp
    exact inRange_self nw p.1 (List.of_mem_zip hp).1
  unfold opacityOnGrid
  simp only [hf]
  have h1 : (nw.zip vals).map (·.1) = nw := List.map_fst_zip (by omega)
  have h2 : (nw.zip vals).map (·.2) = vals := List.map_snd_zip (by omega)
  rw [if_pos ((eqL_iff _ _).2 h1), h2]

/-- the sum over components, component by component -/
theorem sumComps_cons (c : ℕ → ℕ → ℝ) (cs : List (ℕ → ℕ → ℝ)) (l w : ℕ) :
    sumComps (c :: cs) l w = c l w + sumComps cs l w := by
  unfold sumComps
  simp only [List.foldl_cons, zero_add]
  have : ∀ (t : List (ℕ → ℕ → ℝ)) (a : ℝ), t.foldl (fun a c => a + c l w) a = a + t.foldl (fun a c => a + c l w) 0 := by
    intro t
    induction t with
    | nil => intro a; simp
    | cons x t ih => intro a; simp only [List.foldl_cons, zero_add]; rw [ih (a + x l w), ih (x l w)]; ring
  exact this cs (c l w)

theorem absSigma_nil (req : List ℝ) (l w : ℕ) : absSigma ([] : List (Gas ℝ)) req l w = 0 := by
  simp [absSigma, sumComps]

theorem absSigma_cons (g : Gas ℝ) (gs : List (Gas ℝ)) (req : List ℝ) (l w : ℕ) :
    absSigma (g :: gs) req l w = gasOnGrid g req l w * g.mix l + absSigma gs req l w := by
  unfold absSigma
  rw [List.map_cons, sumComps_cons]
  simp [compAbs]

/-- every value a molecule contributes on the grid of the run lies within the range of its own tabulated values -/
theorem gasOnGrid_mem_between (g : Gas ℝ) (req : List ℝ) (l : ℕ) (lo hi : ℝ)
    (hlen : g.wn.length = (g.vals l).length) (hs : g.wn.Pairwise (· ≤ ·))
    (hv : ∀ v ∈ g.vals l, lo ≤ v ∧ v ≤ hi)
    (hne : 0 < ((g.wn.drop (Interp.searchRight g.wn (minL req) - 1)).take
      (min (Interp.searchLeft g.wn (maxL req)) (g.wn.length - 1) + 1 -
        (Interp.searchRight g.wn (minL req) - 1))).length) :
    ∀ y ∈ opacityOnGrid g.wn (g.vals l) req, lo ≤ y ∧ y ≤ hi := by
  intro y hy
  unfold opacityOnGrid at hy
  simp only at hy
  split at hy
  · rw [List.mem_map] at hy
    obtain ⟨p, hp, rfl⟩ := hy
    have hp' := (List.mem_filter.1 hp).1
    exact hv _ (List.of_mem_zip hp').2
  · rw [List.mem_map] at hy
    obtain ⟨x, _, rfl⟩ := hy
    apply NpInterp.npInterp_between (lo := lo) (hi := hi)
    · simp only [List.length_take, List.length_drop]; omega
    · exact hne
    · exact (hs.sublist (List.drop_sublist _ _)).sublist (List.take_sublist _ _)
    · intro v hvm
      exact hv v (List.mem_of_mem_drop (List.mem_of_mem_take hvm))

theorem gasOnGrid_nonneg (g : Gas ℝ) (req : List ℝ) (l w : ℕ) (hi : ℝ)
    (hlen : g.wn.length = (g.vals l).length) (hs : g.wn.Pairwise (· ≤ ·))
    (hv : ∀ v ∈ g.vals l, 0 ≤ v ∧ v ≤ hi)
    (hne : 0 < ((g.wn.drop (Interp.searchRight g.wn (minL req) - 1)).take
      (min (Interp.searchLeft g.wn (maxL req)) (g.wn.length - 1) + 1 -
        (Interp.searchRight g.wn (minL req) - 1))).length) :
    0 ≤ gasOnGrid g req l w := by
  unfold gasOnGrid
  by_cases h : w < (opacityOnGrid g.wn (g.vals l) req).length
  · rw [getD_eq _ _ h]
    exact (gasOnGrid_mem_between g req l 0 hi hlen hs hv hne _ (List.getElem_mem _)).1
  · rw [getD_default _ _ (not_lt.1 h)]

/-! ### Rayleigh / CIA: species-weighted sums -/

theorem scaledSigma_nil (l w : ℕ) : scaledSigma ([] : List ((ℕ → ℝ) × (ℕ → ℝ))) l w = 0 := by
  simp [scaledSigma, sumComps]

theorem scaledSigma_cons (g : (ℕ → ℝ) × (ℕ → ℝ)) (gs : List ((ℕ → ℝ) × (ℕ → ℝ))) (l w : ℕ) :
    scaledSigma (g :: gs) l w = g.1 w * g.2 l + scaledSigma gs l w := by
  unfold scaledSigma
  rw [List.map_cons, sumComps_cons]
  simp [compScaled]

theorem ciaSigma_nil (l w : ℕ) : ciaSigma ([] : List ((ℕ → ℕ → ℝ) × (ℕ → ℝ) × (ℕ → ℝ))) l w = 0 := by
  simp [ciaSigma, sumComps]

theorem ciaSigma_cons (p : (ℕ → ℕ → ℝ) × (ℕ → ℝ) × (ℕ → ℝ)) (ps : List ((ℕ → ℕ → ℝ) × (ℕ → ℝ) × (ℕ → ℝ))) (l w : ℕ) :
    ciaSigma (p :: ps) l w = p.1 l w * (p.2.1 l * p.2.2 l) + ciaSigma ps l w := by
  unfold ciaSigma
  rw [List.map_cons, sumComps_cons]
  simp [compCIA]

end Taurex.C01Abs
