/-
  C15 — source tie, part 2: lemmas about the dynamic primitives (`TaurexModel/Gen/DynPrelude.lean`) on embedded model data
  (`Proofs/C15SrcOracle.lean`).  The loop lemmas take the loop BODY as a variable together with a description of one pass
  (`hb`), so that the tie theorems do not depend on the literal text of the regenerated body.
-/
import Proofs.C15SrcOracle
set_option linter.unusedSectionVars false
set_option linter.unusedVariables false
set_option linter.unusedSimpArgs false

namespace Taurex.C15Src
open Taurex.Gen Taurex.Gen.Dyn
open Taurex.Factory (Scalar Value Config Klass Registry SectionReg Resolved Err Customs Component)

/-- keys of `c` pairwise distinct (what a Python `dict` guarantees) -/
def KeysNodup (c : Config) : Prop := (c.map (·.1)).Nodup

/-- `input_keywords()` of a class without keywords raises NotImplementedError / AttributeError (the two classes the
    factories catch), and such a class has an empty `keywords` column -/
def WorldOK (w : World) : Prop :=
  ∀ k e, w.kwErr k = some e → (e = .NotImplementedError ∨ e = .AttributeError) ∧ k.keywords = []

theorem isa_exception (e : Exc) : e.isaAny [Exc.Exception] = true := by
  cases e <;> simp [Exc.isaAny, Exc.isa, Exc.base]

/-! ## loops -/

/-- the factory loop: a body that returns the class when it claims the keyword and falls through otherwise is `lookup` -/
theorem forIn_lookup (cls : List Klass) (kw : String) (body : Unit → V → M (LFlow Unit V))
    (hb : ∀ k, body () (kobj k) = if Factory.claims k kw then .ok (.ret (kobj k)) else .ok (.next ())) :
    Dyn.forIn (cls.map kobj) () body =
      match Factory.lookup cls kw with
      | some k => .ok (.ret (kobj k))
      | none => .ok (.next ()) := by
  induction cls with
  | nil => rfl
  | cons k t ih =>
    simp only [List.map_cons, Dyn.forIn, hb k, Factory.lookup, List.find?_cons]
    by_cases h : Factory.claims k kw = true
    · simp [h]
    · simp only [h, Bool.false_eq_true, if_false, bind_ok]
      simpa [Factory.lookup] using ih

/-- a loop without escape whose pass simulates a step of the model (which may fail) on encoded states is the model's
    `foldlM` -/
theorem forM_sim {ι τ σ S : Type} (g : ι → τ) (enc : σ → S) (inv : σ → Prop) (body : S → τ → M S)
    (step : σ → ι → Except Err σ) (xs all : List ι) (hsub : ∀ x ∈ xs, x ∈ all)
    (hb : ∀ s x, x ∈ all → inv s → body (enc s) (g x) = embE enc (step s x) ∧ ∀ s', step s x = .ok s' → inv s')
    (s : σ) (hs : inv s) :
    Dyn.forM (xs.map g) (enc s) body = embE enc (xs.foldlM step s) := by
  induction xs generalizing s with
  | nil => rfl
  | cons x t ih =>
    obtain ⟨h1, h2⟩ := hb s x (hsub x List.mem_cons_self) hs
    simp only [List.map_cons, Dyn.forM, h1, List.foldlM_cons]
    cases hst : step s x with
    | error e => rfl
    | ok s' =>
      simp only [embE, bind_ok]
      exact ih (fun y hy => hsub y (List.mem_cons_of_mem _ hy)) s' (h2 s' hst)

/-- a loop with `continue` (no `break`, no `return`) whose pass simulates a total step on encoded states is the fold -/
theorem forIn_sim {ι τ σ S ρ : Type} (g : ι → τ) (enc : σ → S) (body : S → τ → M (LFlow S ρ)) (step : σ → ι → σ)
    (xs : List ι)
    (hb : ∀ s x, body (enc s) (g x) = .ok (.next (enc (step s x))) ∨ body (enc s) (g x) = .ok (.cont (enc (step s x))))
    (s : σ) :
    Dyn.forIn (xs.map g) (enc s) body = .ok (.next (enc (xs.foldl step s))) := by
  induction xs generalizing s with
  | nil => rfl
  | cons x t ih =>
    rcases hb s x with h | h <;> simp only [List.map_cons, Dyn.forIn, h, bind_ok, List.foldl_cons] <;> exact ih _

/-! ## numbers -/

theorem parseNumber_float (t : String) (x : Scalar) (h : Factory.parseNumber t = some x) : embS x = .float x := by
  unfold Factory.parseNumber Factory.parseNumberL at h
  simp only at h
  split at h
  · cases h; rfl
  · split at h
    · cases h; rfl
    · split at h
      · cases h; rfl
      · cases h

theorem float_embS_some (w : World) (s x : Scalar) (h : Factory.toFloat s = some x) :
    Dyn.float_ w.ext (embS s) = .ok (embS x) := by
  cases s with
  | none => cases h
  | bool b => cases b <;> cases h <;> rfl
  | int i => cases h; rfl
  | dec n m e => cases h; rfl
  | inf n => cases h; rfl
  | nan => cases h; rfl
  | str t =>
    simp only [Factory.toFloat] at h
    rw [parseNumber_float t x h]
    simp only [embS, Dyn.float_, ext_parseFloat, h, pure_ok]

theorem float_embS_none (w : World) (s : Scalar) (h : Factory.toFloat s = none) :
    ∃ e, Dyn.float_ w.ext (embS s) = .error e := by
  cases s with
  | none => exact ⟨_, rfl⟩
  | str t =>
    simp only [Factory.toFloat] at h
    exact ⟨.ValueError, by simp only [embS, Dyn.float_, ext_parseFloat, h, throw_err]⟩
  | _ => cases h

/-- `list(map(float, val))` succeeds exactly when the model's `mapM toFloat` does, with the same numbers -/
theorem mapM_float_some (w : World) (f : V → M V) (hf : ∀ a, f a = Dyn.float_ w.ext a) (l ns : List Scalar)
    (h : l.mapM Factory.toFloat = some ns) :
    Dyn.mapM f (l.map embS) = .ok (ns.map embS) := by
  induction l generalizing ns with
  | nil => cases h; rfl
  | cons s t ih =>
    simp only [List.mapM_cons, bind, Option.bind] at h
    cases hs : Factory.toFloat s with
    | none => simp [hs] at h
    | some x =>
      cases ht : t.mapM Factory.toFloat with
      | none => simp [hs, ht] at h
      | some ms =>
        simp only [hs, ht, pure, Option.some.injEq] at h
        subst h
        simp only [List.map_cons, Dyn.mapM, hf, float_embS_some w s x hs, bind_ok, pure_ok, ih ms ht]

theorem mapM_float_none (w : World) (f : V → M V) (hf : ∀ a, f a = Dyn.float_ w.ext a) (l : List Scalar)
    (h : l.mapM Factory.toFloat = none) :
    ∃ e, Dyn.mapM f (l.map embS) = .error e := by
  induction l with
  | nil => cases h
  | cons s t ih =>
    simp only [List.mapM_cons, bind, Option.bind] at h
    cases hs : Factory.toFloat s with
    | none =>
      obtain ⟨e, he⟩ := float_embS_none w s hs
      exact ⟨e, by simp only [List.map_cons, Dyn.mapM, hf, he, bind_err]⟩
    | some x =>
      cases ht : t.mapM Factory.toFloat with
      | some ms => simp [hs, ht] at h
      | none =>
        obtain ⟨e, he⟩ := ih ht
        exact ⟨e, by simp only [List.map_cons, Dyn.mapM, hf, float_embS_some w s x hs, bind_ok, pure_ok, he, bind_err]⟩

/-! ## strings and membership -/

/-- `s in [w1, w2, …]` for strings is the model's `List.contains` -/
theorem contains_words (w : World) (s : String) (l : List String) :
    Dyn.contains w.ext (.str s) (.list (l.map .str)) = .ok (l.contains s) := by
  simp only [Dyn.contains, pure_ok, List.any_map, Function.comp_def, beq_str, List.contains_eq_any_beq]
  congr 1
  apply List.any_congr rfl
  intro x
  exact BEq.comm

/-! ## dictionaries -/

theorem keysNodup_nil : KeysNodup [] := by simp [KeysNodup]

theorem keysNodup_dictOfPairs (l : Config) : KeysNodup (Factory.dictOfPairs l) := by
  unfold Factory.dictOfPairs
  suffices h : ∀ acc, KeysNodup acc → KeysNodup (l.foldl (fun d kv => Factory.dictSet d kv.1 kv.2) acc) from
    h [] keysNodup_nil
  induction l with
  | nil => intro acc h; exact h
  | cons x t ih => intro acc h; exact ih _ (nodup_dictSet acc h _ _)

/-- the loop `for k, v in zip(names, values): d[k] = v` -/
theorem forM_zip_set (w : World) (body : V → V → M V)
    (hb : ∀ acc k v, body acc (.tuple [k, v]) = Dyn.setItem w.ext acc k v) (l : Config) (c : Config) (hc : KeysNodup c) :
    Dyn.forM (List.zipWith (fun x y => (Dyn.Val.tuple [x, y] : V)) (l.map (fun kv => .str kv.1)) (l.map (fun kv => emb kv.2)))
      (Dyn.Val.dict (embCfg c)) body
    = .ok (.dict (embCfg (l.foldl (fun d kv => Factory.dictSet d kv.1 kv.2) c))) := by
  induction l generalizing c with
  | nil => rfl
  | cons kv t ih =>
    simp only [List.map_cons, List.zipWith_cons_cons, Dyn.forM, hb, Dyn.setItem, hashable_str, if_true, pure_ok, bind_ok,
      dictSet_emb c hc, List.foldl_cons]
    exact ih _ (nodup_dictSet c hc _ _)

theorem clip_neg (p n : Nat) (hn : n ≠ 0) : clipIndex (p + n) (-(n : Int)) = p := by
  unfold clipIndex
  have : ¬ (0 : Int) ≤ -(n : Int) := by omega
  simp only [this, if_false, Int.neg_neg, Int.toNat_natCast]
  omega

/-- `args[-len(defaults):]` (at least one default) are the last `len(defaults)` names -/
theorem slice_tail (pre names : List V) (hn : names ≠ []) :
    sliceList (pre ++ names) (some (-(names.length : Int))) none = names := by
  have : names.length ≠ 0 := by simpa using hn
  simp only [sliceList, List.length_append, clip_neg _ _ this]
  simp

theorem starStar_emb (c : Config) : (Dyn.starStar (Dyn.Val.dict (embCfg c)) : M _) = .ok (embKw c) := by
  simp only [Dyn.starStar, embCfg, embKw]
  induction c with
  | nil => rfl
  | cons kv t ih =>
    simp only [List.map_cons, Dyn.mapM, pure_ok, bind_ok] at ih ⊢
    rw [ih]; rfl

theorem lookup_of_mem (c : Config) (hc : KeysNodup c) (kv : String × Value) (hm : kv ∈ c) :
    c.lookup kv.1 = some kv.2 := by
  induction c with
  | nil => cases hm
  | cons x t ih =>
    obtain ⟨xk, xv⟩ := x
    obtain ⟨k, v⟩ := kv
    have hx : xk ∉ t.map (·.1) := (List.nodup_cons.mp hc).1
    rcases List.mem_cons.mp hm with he | hm'
    · cases he; simp [List.lookup_cons]
    · have hne : k ≠ xk := fun he => hx (he ▸ List.mem_map_of_mem (f := (·.1)) hm')
      have : (k == xk) = false := by simp [hne]
      simp only [List.lookup_cons, this]
      exact ih (List.nodup_cons.mp hc).2 hm'

theorem keys_embCfg (c : Config) : (embCfg c).map (·.1) = c.map (fun kv => (Dyn.Val.str kv.1 : V)) := by
  simp [embCfg]

/-! ## the factory loop -/

/-- one pass of a factory loop: `try: if kw in klass.input_keywords(): return klass` with the two handlers -/
theorem factory_pass (w : World) (hw : WorldOK w) (kw : String) (body : Unit → V → M (LFlow Unit V))
    (hbody : ∀ k, body () (kobj k) =
      tryCatch (do
          let t ← Dyn.callMethod w.ext (kobj k) "input_keywords" [] []
          let c ← Dyn.contains w.ext (.str kw) t
          if c then pure (LFlow.ret (kobj k)) else pure (LFlow.next ()))
        (fun e => if e.isaAny [Exc.NotImplementedError] then pure (LFlow.next ())
                  else if e.isaAny [Exc.AttributeError] then pure (LFlow.next ()) else throw e)) :
    ∀ k, body () (kobj k) = if Factory.claims k kw then .ok (.ret (kobj k)) else .ok (.next ()) := by
  intro k
  rw [hbody k]
  simp only [kobj, Dyn.callMethod, ext_input_keywords]
  cases hk : w.kwErr k with
  | some e =>
    obtain ⟨he, hkw⟩ := hw k e hk
    have : Factory.claims k kw = false := by simp [Factory.claims, hkw]
    rcases he with rfl | rfl <;> simp [this, Exc.isaAny, Exc.isa, Exc.base]
  | none =>
    simp only [bind_ok, contains_words, Factory.claims, pure_ok]
    split <;> simp_all

/-- the classes a `ClassFactory` attribute lists -/
def cfList (w : World) (attr : String) : List Klass :=
  match cfAttrs.lookup attr with
  | some (sec, mix) => if mix then (w.reg.sec sec).mixins else (w.reg.sec sec).classes
  | none => []

/-- every factory from `cf.<attr>` on: the first class of the list that claims the keyword, else NotImplementedError -/
theorem factory_core (w : World) (hw : WorldOK w) (kw attr : String)
    (hattr : (cfAttrs.lookup attr).isSome = true) (body : Unit → V → M (LFlow Unit V))
    (hbody : ∀ k, body () (kobj k) =
      tryCatch (do
          let t ← Dyn.callMethod w.ext (kobj k) "input_keywords" [] []
          let c ← Dyn.contains w.ext (.str kw) t
          if c then pure (LFlow.ret (kobj k)) else pure (LFlow.next ()))
        (fun e => if e.isaAny [Exc.NotImplementedError] then pure (LFlow.next ())
                  else if e.isaAny [Exc.AttributeError] then pure (LFlow.next ()) else throw e))
    (k : Flow Unit V → M V) (hk1 : ∀ v, k (.ret v) = .ok v) (hk2 : k (.next ()) = .error .NotImplementedError) :
    (do
      let t5 ← w.ext.getattr Obj.cf attr
      let t6 ← Dyn.iter w.ext t5
      let t9 ← Dyn.forIn t6 () body
      k t9 : M V)
      = match Factory.lookup (cfList w attr) kw with
        | some k => .ok (kobj k)
        | none => .error .NotImplementedError := by
  cases hl : cfAttrs.lookup attr with
  | none => simp [hl] at hattr
  | some sm =>
    obtain ⟨sec, mix⟩ := sm
    simp only [ext_getattr_cf w attr sec mix hl, bind_ok, Dyn.iter, pure_ok]
    have : (if mix = true then (w.reg.sec sec).mixins else (w.reg.sec sec).classes) = cfList w attr := by
      simp only [cfList, hl]
    rw [this, forIn_lookup _ kw _ (factory_pass w hw kw _ hbody)]
    cases Factory.lookup (cfList w attr) kw <;> simp [hk1, hk2]

theorem factory_eq (sr : SectionReg) (kw : String) :
    (match Factory.lookup sr.classes kw with
      | some k => (Except.ok (kobj k) : M V)
      | none => .error .NotImplementedError) = embE kobj (Factory.factory sr kw) := by
  simp only [Factory.factory]; cases Factory.lookup sr.classes kw <;> rfl

theorem mixinFactory_eq (sr : SectionReg) (kw : String) :
    (match Factory.lookup sr.mixins kw with
      | some k => (Except.ok (kobj k) : M V)
      | none => .error .NotImplementedError) = embE kobj (Factory.mixinFactory sr kw) := by
  simp only [Factory.mixinFactory]; cases Factory.lookup sr.mixins kw <;> rfl

/-! ## `determine_mixin_args` -/

theorem foldl_append_flatMap {α β : Type} (f : α → List β) (l : List α) (a : List β) :
    l.foldl (fun acc k => acc ++ f k) a = a ++ l.flatMap f := by
  induction l generalizing a with
  | nil => simp
  | cons x t ih => simp [ih, List.flatMap_cons, List.append_assoc]

/-- the two lists `determine_mixin_args` accumulates: (defaults, names) -/
def mixState (acc : Config) : V × V := (.list (acc.map (fun kv => emb kv.2)), .list (acc.map (fun kv => .str kv.1)))

/-! ## `determine_klass` -/

/-- `d.pop(k)` on a config -/
theorem m_pop_emb (w : World) (c : Config) (k : String) :
    Dyn.m_pop w.ext (.dict (embCfg c)) (.str k) =
      match Factory.popKey c k with
      | some (v, c') => .ok (emb v, .dict (embCfg c'))
      | none => .error .KeyError := by
  simp only [Dyn.m_pop, hashable_str, if_true, dictGet_emb, Factory.popKey, dictDel_emb]
  cases c.lookup k <;> rfl

/-- extra entries of a dictionary (sub-sections) whose keys are strings different from `k` -/
def KeyFree (extra : List (V × V)) (k : String) : Prop := ∀ e ∈ extra, ∃ k', e.1 = .str k' ∧ k' ≠ k

theorem dictGet_append (c : Config) (extra : List (V × V)) (k : String) (h : KeyFree extra k) :
    dictGet? (embCfg c ++ extra) (.str k) = (c.lookup k).map emb := by
  have hx : dictGet? extra (.str k) = none := by
    induction extra with
    | nil => rfl
    | cons e t ih =>
      obtain ⟨k', he, hne⟩ := h e List.mem_cons_self
      have hb : (k' == k) = false := by simp [hne]
      obtain ⟨e1, e2⟩ := e
      simp only at he
      subst he
      simp only [dictGet?, beq_str, hb, Bool.false_eq_true, if_false]
      exact ih (fun x hx => h x (List.mem_cons_of_mem _ hx))
  induction c with
  | nil => simpa [embCfg] using hx
  | cons kv t ih =>
    obtain ⟨k', v⟩ := kv
    simp only [embCfg, List.map_cons, List.cons_append, dictGet?, beq_str, List.lookup_cons] at ih ⊢
    by_cases hk : k' = k
    · subst hk; simp
    · have h' : (k == k') = false := by simp [Ne.symm hk]
      have h'' : (k' == k) = false := by simp [hk]
      simp [h', h'', ← ih]

theorem dictDel_append (c : Config) (extra : List (V × V)) (k : String) (h : KeyFree extra k) :
    dictDel (embCfg c ++ extra) (.str k) = embCfg (c.filter (·.1 != k)) ++ extra := by
  have hx : dictDel extra (.str k) = extra := by
    unfold dictDel
    apply List.filter_eq_self.mpr
    intro e he
    obtain ⟨k', hk, hne⟩ := h e he
    have hb : (k' == k) = false := by simp [hne]
    simp [hk, hb]
  have := dictDel_emb c k
  unfold dictDel at this hx ⊢
  rw [List.filter_append, this, hx]

/-- `d.pop(k)` on a section with sub-sections -/
theorem m_pop_append (w : World) (c : Config) (extra : List (V × V)) (k : String) (h : KeyFree extra k) :
    Dyn.m_pop w.ext (.dict (embCfg c ++ extra)) (.str k) =
      match Factory.popKey c k with
      | some (v, c') => .ok (emb v, .dict (embCfg c' ++ extra))
      | none => .error .KeyError := by
  simp only [Dyn.m_pop, hashable_str, if_true, dictGet_append c extra k h, Factory.popKey, dictDel_append c extra k h]
  cases c.lookup k <;> rfl

/-- `v.lower()` of a config value: only a string has it -/
theorem m_lower_emb (w : World) (v : Value) :
    Dyn.m_lower w.ext (emb v) = match v with
      | .scalar (.str s) => .ok (.str (Factory.lower s))
      | _ => .error .AttributeError := by
  cases v with
  | scalar s => cases s <;> rfl
  | list l => rfl
  | other r => rfl
  | ref r => rfl

theorem splitOnC_eq (c : Char) (l : List Char) : Dyn.splitOnC c l = Factory.splitOnC c l := by
  induction l with
  | nil => rfl
  | cons x t ih =>
    simp only [Dyn.splitOnC, Factory.splitOnC, ih]
    by_cases hx : x = c
    · simp only [hx, if_true]
    · simp only [hx, if_false]
      cases Factory.splitOnC c t <;> rfl

theorem m_split_plus (w : World) (s : String) :
    Dyn.m_split w.ext (.str s) (.str "+") = .ok (.list ((Factory.splitPlus s).map .str)) := by
  have h1 : ("+" == "") = false := by decide
  have h2 : "+".toList = ['+'] := by decide
  simp only [Dyn.m_split, h1, Bool.false_eq_true, if_false, pure_ok, Dyn.strSplit, h2, splitOnC_eq, Factory.splitPlus]

theorem splitOnC_ne_nil (c : Char) (l : List Char) : Factory.splitOnC c l ≠ [] := by
  cases l with
  | nil => simp [Factory.splitOnC]
  | cons a t =>
    simp only [Factory.splitOnC]
    split
    · simp
    · cases Factory.splitOnC c t <;> simp

/-- a string without the separator is its own single part -/
theorem splitOnC_single (c : Char) (l x : List Char) (h : Factory.splitOnC c l = [x]) : x = l := by
  induction l generalizing x with
  | nil => simp only [Factory.splitOnC, List.cons.injEq, and_true] at h; exact h.symm
  | cons a t ih =>
    simp only [Factory.splitOnC] at h
    split at h
    · simp only [List.cons.injEq] at h
      exact absurd h.2 (splitOnC_ne_nil c t)
    · cases hs : Factory.splitOnC c t with
      | nil => exact absurd hs (splitOnC_ne_nil c t)
      | cons y ys =>
        simp only [hs, List.cons.injEq] at h
        obtain ⟨h1, h2⟩ := h
        subst h2
        rw [← h1, ih y hs]

theorem splitPlus_single (s one : String) (h : Factory.splitPlus s = [one]) : one = s := by
  simp only [Factory.splitPlus] at h
  cases hs : Factory.splitOnC '+' s.toList with
  | nil => exact absurd hs (splitOnC_ne_nil _ _)
  | cons y ys =>
    simp only [hs, List.map_cons, List.cons.injEq, List.map_eq_nil_iff] at h
    obtain ⟨h1, h2⟩ := h
    subst h2
    rw [← h1, splitOnC_single _ _ _ hs]
    exact String.ofList_toList


/-- `split[-1]` -/
theorem getItem_last (w : World) (parts : List String) (hp : parts ≠ []) :
    Dyn.getItem w.ext (.list (parts.map .str)) (.int (-1)) = .ok (.str (Factory.lastOf parts)) := by
  have hlen : (parts.map (Dyn.Val.str (φ := Scalar) (ω := Obj))).length = parts.length := List.length_map _
  have hpos : 0 < parts.length := by cases parts with | nil => exact absurd rfl hp | cons a t => simp
  have hn : normIndex (parts.map (Dyn.Val.str (φ := Scalar) (ω := Obj))).length (-1) = some (parts.length - 1) := by
    simp only [normIndex, hlen]
    have : ¬ (0 : Int) ≤ -1 := by omega
    simp only [this, if_false]
    have h1 : (-(-1 : Int)).toNat = 1 := by decide
    simp only [h1]
    have : 1 ≤ parts.length := hpos
    simp [this]
  have hl : ∀ (l : List String), l ≠ [] → l[l.length - 1]? = some (Factory.lastOf l) := by
    intro l
    induction l with
    | nil => intro h; exact absurd rfl h
    | cons a t ih =>
      intro _
      cases t with
      | nil => rfl
      | cons b t' =>
        have := ih (by simp)
        simp only [List.length_cons, Factory.lastOf] at this ⊢
        rw [← this]
        simp
  simp only [Dyn.getItem, indexOf, hn, Option.bind_some, List.getElem?_map, hl parts hp, Option.map_some, pure_ok]

theorem initOf_eq_take (l : List String) : Factory.initOf l = l.take (l.length - 1) := by
  induction l with
  | nil => rfl
  | cons a t ih =>
    cases t with
    | nil => rfl
    | cons b t' =>
      simp only [Factory.initOf, List.length_cons] at ih ⊢
      rw [ih]
      simp

/-- `split[:-1]` -/
theorem getSlice_init (w : World) (parts : List String) :
    Dyn.getSlice w.ext (.list (parts.map .str)) .none (.int (-1)) = .ok (.list ((Factory.initOf parts).map .str)) := by
  simp only [Dyn.getSlice, Dyn.sliceBound, pure_ok, bind_ok, sliceList, List.length_map, List.drop_zero, Nat.sub_zero,
    initOf_eq_take, List.map_take]
  congr 3
  unfold clipIndex
  have : ¬ (0 : Int) ≤ -1 := by omega
  simp only [this, if_false]
  have h1 : (-(-1 : Int)).toNat = 1 := by decide
  simp only [h1]
  omega

theorem mapM_unKlass (ms : List Klass) : (ms.map kobj).mapM unKlass = some ms := by
  induction ms with
  | nil => rfl
  | cons k t ih => simp [List.mapM_cons, kobj, unKlass, ih] <;> rfl

/-- a list comprehension over strings whose element function simulates a model function that may fail -/
theorem mapM_sim (f : V → M V) (g : String → Except Err Klass) (hf : ∀ s, f (.str s) = embE kobj (g s)) (l : List String) :
    Dyn.mapM f (l.map .str) = embE (fun ks => ks.map kobj) (l.mapM g) := by
  induction l with
  | nil => rfl
  | cons s t ih =>
    simp only [List.map_cons, Dyn.mapM, hf, ih, List.mapM_cons]
    cases g s with
    | error e => rfl
    | ok k =>
      simp only [embE, bind_ok]
      cases t.mapM g with
      | error e => rfl
      | ok ks => rfl


/-- the oracle's `detect_and_return_klass(python_file, baseclass)` on a config value -/
theorem ext_call_detect (w : World) (v : Value) (name sec : String) :
    w.ext.call (.fn "detect_and_return_klass") [emb v, .obj (.base name sec)] [] =
      match v with
      | .scalar (.str file) =>
        match w.customs.lookup file with
        | none => .error .Exception
        | some members => embE kobj (Factory.detectKlass members sec)
      | _ => .error .Exception := by
  cases v with
  | scalar s => cases s <;> rfl
  | list l => rfl
  | other r => rfl
  | ref r => rfl

/-- the oracle's `build_new_mixed_class(base, mixins)` -/
theorem ext_call_build (w : World) (b : Klass) (ms : List Klass) :
    w.ext.call (.fn "build_new_mixed_class") [kobj b, .list (ms.map kobj)] [] =
      if Factory.hasDup (ms.map (·.path)) then .error .TypeError else .ok (.obj (.mixed ms b)) := by
  have h := mapM_unKlass ms
  show (match (ms.map kobj).mapM unKlass with
    | some ks => if Factory.hasDup (ks.map Klass.path) then (Except.error Exc.TypeError : M V) else .ok (.obj (.mixed ks b))
    | none => .error .TypeError) = _
  rw [h]

end Taurex.C15Src
