/-
  `compute_derived_trace`: the rank-ordered gather followed by the weight-matching re-ordering restores
  sample order when the weights are pairwise distinct (helper file of Props/C18.lean).
-/
import Proofs.RealInst
import Proofs.C18Partition
import TaurexModel.Variance
import Mathlib.Data.List.Perm.Basic
import Mathlib.Tactic.Linarith

namespace Taurex.Variance

/-! ### insertion argsort -/

section
variable {κ : Type} [LinearOrder κ] (key : ℕ → κ)

theorem insertIdx_perm (i : ℕ) (l : List ℕ) : (insertIdx key i l).Perm (i :: l) := by
  induction l with
  | nil => simp [insertIdx]
  | cons j js ih =>
    unfold insertIdx
    split
    · exact List.Perm.refl _
    · exact (ih.cons j).trans (List.Perm.swap i j js)

theorem insertIdx_sorted (i : ℕ) (l : List ℕ) (h : l.Pairwise (fun a b => key a ≤ key b)) :
    (insertIdx key i l).Pairwise (fun a b => key a ≤ key b) := by
  induction l with
  | nil => simp [insertIdx]
  | cons j js ih =>
    unfold insertIdx
    obtain ⟨hj, hjs⟩ := List.pairwise_cons.1 h
    split
    · next hlt =>
      refine List.pairwise_cons.2 ⟨?_, h⟩
      intro x hx
      rcases List.mem_cons.1 hx with rfl | hx
      · exact hlt.le
      · exact hlt.le.trans (hj x hx)
    · next hnlt =>
      refine List.pairwise_cons.2 ⟨?_, ih hjs⟩
      intro x hx
      have := (insertIdx_perm key i js).subset hx
      rcases List.mem_cons.1 this with rfl | hx
      · exact not_lt.1 hnlt
      · exact hj x hx

theorem foldl_insert_perm (l acc : List ℕ) :
    (l.foldl (fun acc i => insertIdx key i acc) acc).Perm (l ++ acc) := by
  induction l generalizing acc with
  | nil => simp
  | cons i l ih =>
    simp only [List.foldl_cons]
    exact (ih _).trans (((insertIdx_perm key i acc).append_left l).trans List.perm_middle)

theorem foldl_insert_sorted (l acc : List ℕ) (h : acc.Pairwise (fun a b => key a ≤ key b)) :
    (l.foldl (fun acc i => insertIdx key i acc) acc).Pairwise (fun a b => key a ≤ key b) := by
  induction l generalizing acc with
  | nil => simpa
  | cons i l ih => simp only [List.foldl_cons]; exact ih _ (insertIdx_sorted key i acc h)

end

section
variable {κ : Type} [LinearOrder κ] [OfNat κ 0]

theorem argsort_perm (keys : List κ) : (argsort keys).Perm (List.range keys.length) := by
  unfold argsort
  simpa using foldl_insert_perm (fun k => keys.getD k 0) (List.range keys.length) []

theorem argsort_sorted (keys : List κ) :
    (argsort keys).Pairwise (fun a b => keys.getD a 0 ≤ keys.getD b 0) := by
  unfold argsort
  exact foldl_insert_sorted (fun k => keys.getD k 0) _ [] List.Pairwise.nil

omit [LinearOrder κ] in
theorem getD_inj_of_nodup {keys : List κ} (hn : keys.Nodup) {a b : ℕ} (ha : a < keys.length)
    (hb : b < keys.length) (h : keys.getD a 0 = keys.getD b 0) : a = b := by
  rw [List.getD_eq_getElem?_getD, List.getD_eq_getElem?_getD, List.getElem?_eq_getElem ha,
    List.getElem?_eq_getElem hb] at h
  exact (hn.getElem_inj_iff).1 (by simpa using h)

/-- with distinct keys the argsort is strictly increasing in the key -/
theorem argsort_strict {keys : List κ} (hn : keys.Nodup) :
    (argsort keys).Pairwise (fun a b => keys.getD a 0 < keys.getD b 0) := by
  have hp := argsort_perm keys
  have hnd : (argsort keys).Nodup := hp.nodup_iff.2 List.nodup_range
  have h := (argsort_sorted keys).and hnd
  refine h.imp_of_mem ?_
  intro a b ha hb ⟨hle, hne⟩
  have ha' : a < keys.length := List.mem_range.1 (hp.subset ha)
  have hb' : b < keys.length := List.mem_range.1 (hp.subset hb)
  exact lt_of_le_of_ne hle (fun he => hne (getD_inj_of_nodup hn ha' hb' he))

omit [OfNat κ 0] in
/-- two index lists that are permutations of each other and strictly increasing in a key coincide -/
theorem eq_of_strict_sorted (key : ℕ → κ) {l₁ l₂ : List ℕ} (hp : l₁.Perm l₂)
    (h₁ : l₁.Pairwise (fun a b => key a < key b)) (h₂ : l₂.Pairwise (fun a b => key a < key b)) : l₁ = l₂ :=
  List.Perm.eq_of_pairwise (fun _ _ _ _ hab hba => absurd hab (lt_asymm hba)) h₁ h₂ hp

end

/-! ### `a[idx] = vals` -/

theorem foldl_set_getElem? (f : ℕ → ℝ) (idx : List ℕ) :
    ∀ (base : List ℝ) (i : ℕ), (idx.foldl (fun b j => b.set j (f j)) base)[i]? =
      if i ∈ idx ∧ i < base.length then some (f i) else base[i]? := by
  induction idx with
  | nil => intro base i; simp
  | cons j rest ih =>
    intro base i
    simp only [List.foldl_cons]
    rw [ih]
    simp only [List.length_set, List.getElem?_set, List.mem_cons]
    by_cases hr : i ∈ rest ∧ i < base.length
    · simp [hr]
    · rw [if_neg hr]
      by_cases hji : j = i
      · subst hji
        by_cases hl : j < base.length
        · simp [hl]
        · have : base[j]? = none := List.getElem?_eq_none (not_lt.1 hl)
          simp [hl]
      · have : ¬ ((i = j ∨ i ∈ rest) ∧ i < base.length) := by
          rintro ⟨h | h, hl⟩
          · exact hji h.symm
          · exact hr ⟨h, hl⟩
        simp [hji, this]

theorem scatter_map (f : ℕ → ℝ) (base : List ℝ) (idx : List ℕ) :
    scatter base idx (idx.map f) = idx.foldl (fun b j => b.set j (f j)) base := by
  unfold scatter
  have : idx.zip (idx.map f) = idx.map (fun j => (j, f j)) := by
    induction idx with
    | nil => rfl
    | cons a l ih => simp [ih]
  rw [this, List.foldl_map]

theorem foldl_set_length (f : ℕ → ℝ) (idx : List ℕ) :
    ∀ base : List ℝ, (idx.foldl (fun b j => b.set j (f j)) base).length = base.length := by
  induction idx with
  | nil => intro base; rfl
  | cons j rest ih => intro base; simp only [List.foldl_cons]; rw [ih]; simp

/-- scattering `f` over a permutation of all positions overwrites everything -/
theorem scatter_all (f : ℕ → ℝ) (base : List ℝ) (idx : List ℕ) (hp : idx.Perm (List.range base.length)) :
    scatter base idx (idx.map f) = (List.range base.length).map f := by
  rw [scatter_map]
  apply List.ext_getElem?
  intro i
  rw [foldl_set_getElem?]
  by_cases hi : i < base.length
  · have : i ∈ idx := hp.symm.subset (List.mem_range.2 hi)
    simp [this, hi]
  · simp [hi]

/-! ### the gathered lists are the originals read through one index list -/

theorem strided_map {β γ : Type} (f : β → γ) (r size : ℕ) (l : List β) :
    strided r size (l.map f) = (strided r size l).map f := by
  unfold strided
  rw [List.zipIdx_map, List.filter_map, List.map_map, List.map_map]
  rfl

theorem partition_map {β γ : Type} (f : β → γ) (size : ℕ) (l : List β) :
    partition size (l.map f) = (partition size l).map (List.map f) := by
  unfold partition
  rw [List.map_map]
  apply List.map_congr_left
  intro r _
  exact strided_map f r size l

theorem list_eq_map_range' {β : Type} (d : β) (xs : List β) :
    xs = (List.range xs.length).map (fun i => xs.getD i d) := by
  apply List.ext_getElem?
  intro i
  by_cases hi : i < xs.length
  · simp [hi, List.getD_eq_getElem?_getD]
  · simp [hi]

theorem list_eq_map_range (xs : List ℝ) : xs = (List.range xs.length).map (fun i => xs.getD i 0) :=
  list_eq_map_range' 0 xs

theorem filterMap_eq_map {β : Type} {l : List ℕ} {g : ℕ → Option β} {f : ℕ → β} (h : ∀ j ∈ l, g j = some (f j)) :
    l.filterMap g = l.map f := by
  induction l with
  | nil => rfl
  | cons a l ih =>
    rw [List.filterMap_cons, h a (by simp)]
    simp only [List.map_cons]
    rw [ih (fun j hj => h j (by simp [hj]))]

/-- the gathered index list -/
def gidx (size n : ℕ) : List ℕ := gatherLists (partition size (List.range n))

theorem gather_eq' {β : Type} (d : β) (size : ℕ) (xs : List β) :
    gatherLists (partition size xs) = (gidx size xs.length).map (fun i => xs.getD i d) := by
  conv_lhs => rw [list_eq_map_range' d xs]
  rw [partition_map]
  unfold gidx gatherLists
  rw [List.map_flatten]

theorem gather_eq (size : ℕ) (xs : List ℝ) :
    gatherLists (partition size xs) = (gidx size xs.length).map (fun i => xs.getD i 0) := gather_eq' 0 size xs

theorem gidx_perm {size : ℕ} (hs : 0 < size) (n : ℕ) : (gidx size n).Perm (List.range n) :=
  partition_flatten_perm hs _

/-- pinned tree: distinct weights ⇒ the weight-matched gathered trace is the trace in sample order -/
theorem derivedTraceGatherPinned_eq {size : ℕ} (hs : 0 < size) {weights trace : List ℝ} (hn : weights.Nodup)
    (hlen : trace.length = weights.length) : derivedTraceGatherPinned size weights trace = trace := by
  set n := weights.length with hnl
  set G := gidx size n with hG
  have hGp : G.Perm (List.range n) := gidx_perm hs n
  have hGlen : G.length = n := by simpa using hGp.length_eq
  set w : ℕ → ℝ := fun i => weights.getD i 0 with hw
  set t : ℕ → ℝ := fun i => trace.getD i 0 with ht
  have hgw : gatherLists (partition size weights) = G.map w := gather_eq size weights
  have hgt : gatherLists (partition size trace) = G.map t := by
    have := gather_eq size trace
    rwa [hlen] at this
  unfold derivedTraceGatherPinned restoreOrderPinned takeIdx
  rw [hgw, hgt]
  -- the two argsorts
  set sw := argsort weights with hsw
  set gs := argsort (G.map w) with hgs
  have hswp : sw.Perm (List.range n) := argsort_perm weights
  have hsws : sw.Pairwise (fun a b => w a < w b) := argsort_strict hn
  have hgwn : (G.map w).Nodup := by
    have : (G.map w).Perm weights := by
      have h1 := hGp.map w
      have h2 : (List.range n).map w = weights := (list_eq_map_range weights).symm
      rwa [h2] at h1
    exact this.nodup_iff.2 hn
  have hgsp : gs.Perm (List.range n) := by
    have := argsort_perm (G.map w)
    rwa [List.length_map, hGlen] at this
  have hgss : gs.Pairwise (fun a b => (G.map w).getD a 0 < (G.map w).getD b 0) := argsort_strict hgwn
  -- read the gathered keys through `σ j = G[j]`
  set σ : ℕ → ℕ := fun j => G.getD j 0 with hσ
  have hkey : ∀ j, j < n → (G.map w).getD j 0 = w (σ j) := by
    intro j hj
    have hj' : j < G.length := by omega
    simp [List.getD_eq_getElem?_getD, hj', hσ]
  have hval : ∀ j, j < n → (G.map t)[j]? = some (t (σ j)) := by
    intro j hj
    have hj' : j < G.length := by omega
    simp [hj', hσ, List.getD_eq_getElem?_getD]
  have hmapσ : (List.range n).map σ = G := by
    have := list_eq_map_range' 0 G
    rw [hGlen] at this
    exact this.symm
  have hσs : (gs.map σ).Pairwise (fun a b => w a < w b) := by
    rw [List.pairwise_map]
    refine hgss.imp_of_mem ?_
    intro a b ha hb hab
    have ha' : a < n := List.mem_range.1 (hgsp.subset ha)
    have hb' : b < n := List.mem_range.1 (hgsp.subset hb)
    rwa [hkey a ha', hkey b hb'] at hab
  have hσp : (gs.map σ).Perm sw := by
    have h1 : (gs.map σ).Perm ((List.range n).map σ) := hgsp.map σ
    rw [hmapσ] at h1
    exact (h1.trans hGp).trans hswp.symm
  have hσeq : gs.map σ = sw := eq_of_strict_sorted w hσp hσs hsws
  have hvals : gs.filterMap (fun i => (G.map t)[i]?) = sw.map t := by
    rw [← hσeq, List.map_map]
    exact filterMap_eq_map (fun j hj => hval j (List.mem_range.1 (hgsp.subset hj)))
  show scatter (G.map t) sw (gs.filterMap (fun i => (G.map t)[i]?)) = trace
  rw [hvals]
  have hbase : (G.map t).length = n := by simp [hGlen]
  rw [scatter_all t (G.map t) sw (by rw [hbase]; exact hswp), hbase]
  have := list_eq_map_range trace
  rw [hlen] at this
  exact this.symm

/-- **current code: the gathered trace re-ordered by the argsort of the gathered sample indices is the trace in
    sample order — for every trace (weights play no role) and every number of ranks** -/
theorem derivedTraceGather_eq {β : Type} [Inhabited β] {size : ℕ} (hs : 0 < size) (trace : List β) :
    derivedTraceGather size trace = trace := by
  set n := trace.length with hnl
  set G := gidx size n with hG
  have hGp : G.Perm (List.range n) := gidx_perm hs n
  have hGlen : G.length = n := by simpa using hGp.length_eq
  have hGn : G.Nodup := hGp.nodup_iff.2 List.nodup_range
  set t : ℕ → β := fun i => trace.getD i default with ht
  have hgt : gatherLists (partition size trace) = G.map t := gather_eq' default size trace
  show takeIdx (gatherLists (partition size trace)) (argsort G) = trace
  rw [hgt]
  set rs := argsort G with hrs
  have hrsp : rs.Perm (List.range n) := by
    have := argsort_perm G
    rwa [hGlen] at this
  have hrss : rs.Pairwise (fun a b => G.getD a 0 < G.getD b 0) := argsort_strict hGn
  set σ : ℕ → ℕ := fun j => G.getD j 0 with hσ
  have hmapσ : (List.range n).map σ = G := by
    have := list_eq_map_range' 0 G
    rw [hGlen] at this
    exact this.symm
  have hσs : (rs.map σ).Pairwise (fun a b => id a < id b) := by
    rw [List.pairwise_map]; exact hrss
  have hσp : (rs.map σ).Perm (List.range n) := by
    have h1 : (rs.map σ).Perm ((List.range n).map σ) := hrsp.map σ
    rw [hmapσ] at h1
    exact h1.trans hGp
  have hσeq : rs.map σ = List.range n :=
    eq_of_strict_sorted (id : ℕ → ℕ) hσp hσs (List.pairwise_lt_range (n := n))
  have hval : ∀ j, j < n → (G.map t)[j]? = some (t (σ j)) := by
    intro j hj
    have hj' : j < G.length := by omega
    simp [hj', hσ, List.getD_eq_getElem?_getD]
  have hvals : takeIdx (G.map t) rs = (rs.map σ).map t := by
    unfold takeIdx
    rw [List.map_map]
    exact filterMap_eq_map (fun j hj => hval j (List.mem_range.1 (hrsp.subset hj)))
  rw [hvals, hσeq]
  exact (list_eq_map_range' default trace).symm

end Taurex.Variance
