/-
  Lemmas for C12 (temperature profiles) over the real carrier.
-/
import Proofs.NpInterp
import TaurexModel.Temperature

namespace Taurex.Temperature
open Taurex.NpInterp

theorem absv_real (x : ℝ) : absv x = |x| := by
  unfold absv
  split_ifs with h
  · rw [abs_of_neg h]
  · rw [abs_of_nonneg (not_lt.1 h)]

/-! ### NPoint: node checks -/

theorem pressureInverted_iff : ∀ (l : List ℝ),
    pressureInverted l = true ↔ ∃ i, ∃ h : i + 1 < l.length, l[i] ≤ l[i + 1]
  | [] => by simp [pressureInverted]
  | [a] => by simp [pressureInverted]
  | a :: b :: t => by
    unfold pressureInverted
    rw [Bool.or_eq_true, decide_eq_true_eq, pressureInverted_iff (b :: t)]
    constructor
    · rintro (h | ⟨i, hi, h⟩)
      · exact ⟨0, by simp, by simpa using h⟩
      · exact ⟨i + 1, by simpa using hi, by simpa using h⟩
    · rintro ⟨i, hi, h⟩
      cases i with
      | zero => exact Or.inl (by simpa using h)
      | succ i => exact Or.inr ⟨i, by simpa using hi, by simpa using h⟩

/-- not inverted ⇒ the nodes are strictly decreasing (pairwise) -/
theorem not_inverted_pairwise : ∀ (l : List ℝ), pressureInverted l = false → l.Pairwise (fun a b => b < a)
  | [] => by simp
  | [a] => by simp
  | a :: b :: t => by
    intro h
    unfold pressureInverted at h
    rw [Bool.or_eq_false_iff, decide_eq_false_iff_not] at h
    have ih := not_inverted_pairwise (b :: t) h.2
    have hab : b < a := not_le.1 h.1
    rw [List.pairwise_cons]
    refine ⟨?_, ih⟩
    intro c hc
    rcases List.mem_cons.1 hc with rfl | hc
    · exact hab
    · exact lt_trans ((List.pairwise_cons.1 ih).1 c hc) hab

theorem slopeTooHigh_iff (limit : ℝ) : ∀ (p t : List ℝ),
    slopeTooHigh limit p t = true ↔
      ∃ i, ∃ hp : i + 1 < p.length, ∃ ht : i + 1 < t.length,
        limit ≤ |(t[i + 1] - t[i]) / (log10 p[i + 1] - log10 p[i])|
  | [], _ => by simp [slopeTooHigh]
  | [a], _ => by simp [slopeTooHigh]
  | _ :: _ :: _, [] => by simp [slopeTooHigh]
  | _ :: _ :: _, [a] => by simp [slopeTooHigh]
  | p0 :: p1 :: ps, t0 :: t1 :: ts => by
    unfold slopeTooHigh
    rw [Bool.or_eq_true, decide_eq_true_eq, slopeTooHigh_iff limit (p1 :: ps) (t1 :: ts), absv_real]
    constructor
    · rintro (h | ⟨i, hp, ht, h⟩)
      · exact ⟨0, by simp, by simp, by simpa using h⟩
      · exact ⟨i + 1, by simpa using hp, by simpa using ht, by simpa using h⟩
    · rintro ⟨i, hp, ht, h⟩
      cases i with
      | zero => exact Or.inl (by simpa using h)
      | succ i => exact Or.inr ⟨i, by simpa using hp, by simpa using ht, by simpa using h⟩

theorem nPoint_invalid_iff (q : NPointParams ℝ) (n : Nat) (pressure : List ℝ) :
    nPoint q n pressure = .invalid ↔ q.rejected pressure = true := by
  unfold nPoint
  split_ifs with h
  · simp [h]
  · simp only [h]
    constructor
    · intro h'; exact absurd h' (assembleSmoothed_ne_invalid _ _)
    · intro h'; exact absurd h' (by simp)

/-! ### NPoint: the interpolated profile -/

theorem log10_lt_log10 {a b : ℝ} (ha : 0 < a) (hab : a < b) : (log10 a : ℝ) < log10 b := by
  simp only [log10_real]
  have h10 : 0 < Real.log 10 := Real.log_pos (by norm_num)
  exact div_lt_div_of_pos_right (Real.log_lt_log ha hab) h10

theorem pNodes_length (q : NPointParams ℝ) (pr : List ℝ) : (q.pNodes pr).length = q.pPoints.length + 2 := by
  simp [NPointParams.pNodes]

theorem tNodes_length (q : NPointParams ℝ) : q.tNodes.length = q.tPoints.length + 2 := by
  simp [NPointParams.tNodes]

/-- the abscissae handed to np.interp are non-decreasing whenever the node check passes -/
theorem xp_sorted (q : NPointParams ℝ) (pr : List ℝ) (hpos : ∀ p ∈ q.pNodes pr, 0 < p)
    (hv : pressureInverted (q.pNodes pr) = false) :
    ((q.pNodes pr).reverse.map log10).Pairwise (· ≤ ·) := by
  rw [List.pairwise_map, List.pairwise_reverse]
  refine List.Pairwise.imp_of_mem ?_ (not_inverted_pairwise _ hv)
  intro a b ha hb hba
  exact (log10_lt_log10 (hpos b hb) hba).le

/-- a profile that passes the node check has strictly decreasing nodes, so a positive top node makes all of
    them positive -/
theorem pNodes_pos (q : NPointParams ℝ) (pr : List ℝ) (hv : pressureInverted (q.pNodes pr) = false)
    (hlast : 0 < resolveP q.pTop (pr.getD (pr.length - 1) 0)) : ∀ p ∈ q.pNodes pr, 0 < p := by
  have hpw := not_inverted_pairwise _ hv
  have e : q.pNodes pr = (resolveP q.pSurface (pr.getD 0 0) :: q.pPoints) ++
      [resolveP q.pTop (pr.getD (pr.length - 1) 0)] := by simp [NPointParams.pNodes]
  rw [e] at hpw ⊢
  intro p hp
  rcases List.mem_append.1 hp with h | h
  · exact lt_trans hlast ((List.pairwise_append.1 hpw).2.2 p h _ (by simp))
  · simp at h; rw [h]; exact hlast

theorem interpolated_within {lo hi : ℝ} (q : NPointParams ℝ) (pr : List ℝ)
    (hlen : q.tPoints.length = q.pPoints.length) (hpos : ∀ p ∈ q.pNodes pr, 0 < p)
    (hv : pressureInverted (q.pNodes pr) = false) (hT : Within lo hi q.tNodes) :
    Within lo hi (q.interpolated pr) := by
  intro v hv'
  unfold NPointParams.interpolated at hv'
  simp only [List.mem_map] at hv'
  obtain ⟨p, _, rfl⟩ := hv'
  apply npInterp_between
  · simp [pNodes_length, tNodes_length, hlen]
  · simp [pNodes_length]
  · exact xp_sorted q pr hpos hv
  · intro t ht; exact hT t (by simpa using ht)

theorem interpolated_length (q : NPointParams ℝ) (pr : List ℝ) : (q.interpolated pr).length = pr.length := by
  simp [NPointParams.interpolated]

/-! ### Rodgers 2000 -/

/-- a sum with non-negative weights `c / s`: between `lo` and `hi` times the total weight -/
theorem weighted_bounds {lo hi s : ℝ} (hs : 0 < s) : ∀ (row t : List ℝ), (∀ c ∈ row, 0 ≤ c) → Within lo hi t →
    row.length ≤ t.length →
    lo * (sumL row / s) ≤ sumL (List.zipWith (fun c tj => c / s * tj) row t) ∧
      sumL (List.zipWith (fun c tj => c / s * tj) row t) ≤ hi * (sumL row / s)
  | [], _, _, _, _ => by simp
  | c :: cs, [], _, _, hl => by simp at hl
  | c :: cs, u :: us, hc, ht, hl => by
    have ih := weighted_bounds hs cs us (fun x hx => hc x (List.mem_cons_of_mem _ hx))
      (fun x hx => ht x (List.mem_cons_of_mem _ hx)) (by simpa using hl)
    have hu := ht u (by simp)
    have hc0 : 0 ≤ c / s := div_nonneg (hc c (by simp)) hs.le
    simp only [List.zipWith_cons_cons, sumL_cons, add_div]
    constructor <;> nlinarith [ih.1, ih.2, mul_nonneg hc0 (sub_nonneg.2 hu.1), mul_nonneg hc0 (sub_nonneg.2 hu.2)]

theorem colSums_length (cov : List (List ℝ)) : (colSums cov).length = (cov.getD 0 []).length := by
  simp [colSums]

theorem colSums_getElem (cov : List (List ℝ)) (i : Nat) (h : i < (colSums cov).length) :
    (colSums cov)[i] = sumL (cov.map (fun row => row.getD i 0)) := by
  simp [colSums]

/-- `correlate_temp` with non-negative entries whose row sums equal the (positive) column sums used for the
    normalisation: every output is a convex combination of the layer temperatures -/
theorem correlateTemp_within {lo hi : ℝ} (cov : List (List ℝ)) (t : List ℝ)
    (hnn : ∀ row ∈ cov, ∀ c ∈ row, 0 ≤ c) (hlen : ∀ row ∈ cov, row.length ≤ t.length)
    (hbal : ∀ i (h : i < cov.length) (h' : i < (colSums cov).length),
      (colSums cov)[i] = sumL cov[i] ∧ 0 < sumL cov[i])
    (hT : Within lo hi t) : Within lo hi (correlateTemp cov t) := by
  intro v hv
  unfold correlateTemp at hv
  obtain ⟨i, hidx, rfl⟩ := List.mem_iff_getElem.1 hv
  rw [List.length_zipWith] at hidx
  have h1 : i < cov.length := by omega
  have h2 : i < (colSums cov).length := by omega
  rw [List.getElem_zipWith]
  obtain ⟨hb, hp⟩ := hbal i h1 h2
  have hrow : cov[i] ∈ cov := List.getElem_mem _
  have := weighted_bounds (lo := lo) (hi := hi) (s := (colSums cov)[i]) (by rw [hb]; exact hp) cov[i] t
    (hnn _ hrow) hT (hlen _ hrow)
  have hone : sumL cov[i] / (colSums cov)[i] = 1 := by rw [hb]; exact div_self hp.ne'
  rw [hone, mul_one, mul_one] at this
  exact this

/-- one entry of the default covariance -/
noncomputable def covEntry (h a b : ℝ) : ℝ := exp (-1 * absv (log (a / b)) / h)

theorem covEntry_pos (h a b : ℝ) : 0 < covEntry h a b := by
  unfold covEntry; simp only [exp_real]; exact Real.exp_pos _

theorem covEntry_symm (h : ℝ) {a b : ℝ} (ha : 0 < a) (hb : 0 < b) : covEntry h a b = covEntry h b a := by
  unfold covEntry
  simp only [log_real, absv_real]
  rw [Real.log_div ha.ne' hb.ne', Real.log_div hb.ne' ha.ne', ← abs_neg (Real.log a - Real.log b)]
  congr 4
  ring

theorem genCovariance_eq (h : ℝ) (p : List ℝ) :
    genCovariance h p = p.map (fun a => p.map (fun b => covEntry h a b)) := rfl

/-- Rodgers with the default covariance never leaves the range of the layer temperatures -/
theorem rodgers_default_within {lo hi : ℝ} (tl : List ℝ) (h : ℝ) (p : List ℝ) (hp : ∀ x ∈ p, 0 < x)
    (hlen : tl.length = p.length) (hT : Within lo hi tl) : Within lo hi (rodgers tl h none p) := by
  unfold rodgers
  simp only []
  rw [genCovariance_eq]
  apply correlateTemp_within _ _ _ _ _ hT
  · intro row hrow c hc
    simp only [List.mem_map] at hrow
    obtain ⟨a, _, rfl⟩ := hrow
    simp only [List.mem_map] at hc
    obtain ⟨b, _, rfl⟩ := hc
    exact (covEntry_pos h a b).le
  · intro row hrow
    simp only [List.mem_map] at hrow
    obtain ⟨a, _, rfl⟩ := hrow
    simp [hlen]
  · intro i h1 h2
    simp only [List.length_map] at h1
    rw [colSums_getElem]
    simp only [List.getElem_map, List.map_map]
    have hrw : (p.map ((fun row => row.getD i 0) ∘ fun a => p.map (fun b => covEntry h a b))) =
        p.map (fun b => covEntry h p[i] b) := by
      apply List.map_congr_left
      intro a ha
      simp only [Function.comp]
      rw [getD_eq _ _ (by simpa using h1)]
      simp only [List.getElem_map]
      exact covEntry_symm h (hp a ha) (hp _ (List.getElem_mem _))
    rw [hrw]
    refine ⟨rfl, sumL_pos _ ?_ ?_⟩
    · intro hnil
      have : (p.map (fun b => covEntry h p[i] b)).length = 0 := by rw [hnil]; rfl
      simp only [List.length_map] at this
      omega
    · intro c hc
      simp only [List.mem_map] at hc
      obtain ⟨b, _, rfl⟩ := hc
      exact covEntry_pos h _ b

theorem correlateTemp_length (cov : List (List ℝ)) (t : List ℝ) :
    (correlateTemp cov t).length = min cov.length (cov.getD 0 []).length := by
  simp [correlateTemp, colSums_length]

theorem rodgers_default_length (tl : List ℝ) (h : ℝ) (p : List ℝ) : (rodgers tl h none p).length = p.length := by
  unfold rodgers
  simp only []
  rw [correlateTemp_length, genCovariance_eq]
  cases p with
  | nil => simp
  | cons a t => simp

/-! ### TemperatureArray -/

theorem within_reverse {lo hi : ℝ} {l : List ℝ} (h : Within lo hi l) : Within lo hi l.reverse :=
  fun v hv => h v (by simpa using hv)

theorem tempArrayPlain_within {lo hi : ℝ} (tp : List ℝ) (n : Nat) (hne : 0 < tp.length) (hT : Within lo hi tp) :
    Within lo hi (tempArrayPlain tp n) := by
  unfold tempArrayPlain
  split_ifs with h
  · exact hT
  · intro v hv
    simp only [List.mem_map] at hv
    obtain ⟨x, _, rfl⟩ := hv
    apply npInterp_between
    · simp [linspace_length]
    · simpa [linspace_length] using hne
    · exact linspace_reverse_sorted 1 0 tp.length (by norm_num)
    · exact within_reverse hT

theorem tempArrayPlain_length (tp : List ℝ) (n : Nat) : (tempArrayPlain tp n).length = n := by
  unfold tempArrayPlain
  split_ifs with h
  · exact h
  · simp [linspace_length]

theorem insertByKey_mem (kv x : ℝ × ℝ) : ∀ (l : List (ℝ × ℝ)), x ∈ insertByKey kv l ↔ x = kv ∨ x ∈ l
  | [] => by simp [insertByKey]
  | h :: t => by
    unfold insertByKey
    split_ifs with hc
    · simp
    · rw [List.mem_cons, insertByKey_mem kv x t, List.mem_cons]
      tauto

theorem insertByKey_length (kv : ℝ × ℝ) : ∀ (l : List (ℝ × ℝ)), (insertByKey kv l).length = l.length + 1
  | [] => by simp [insertByKey]
  | h :: t => by
    unfold insertByKey
    split_ifs with hc
    · simp
    · simp [insertByKey_length kv t]

theorem insertByKey_sorted (kv : ℝ × ℝ) : ∀ (l : List (ℝ × ℝ)), (l.map (·.1)).Pairwise (· ≤ ·) →
    ((insertByKey kv l).map (·.1)).Pairwise (· ≤ ·)
  | [], _ => by simp [insertByKey]
  | h :: t, hs => by
    unfold insertByKey
    simp only [List.map_cons, List.pairwise_cons] at hs
    split_ifs with hc
    · simp only [List.map_cons, List.pairwise_cons]
      refine ⟨?_, hs⟩
      intro b hb
      rcases List.mem_cons.1 hb with rfl | hb
      · exact hc
      · exact le_trans hc (hs.1 b hb)
    · simp only [List.map_cons, List.pairwise_cons]
      refine ⟨?_, insertByKey_sorted kv t hs.2⟩
      intro b hb
      rw [List.mem_map] at hb
      obtain ⟨y, hy, rfl⟩ := hb
      rcases (insertByKey_mem kv y t).1 hy with rfl | hy
      · exact (not_le.1 hc).le
      · exact hs.1 _ (List.mem_map.2 ⟨y, hy, rfl⟩)

theorem sortByKey_mem (x : ℝ × ℝ) : ∀ (l : List (ℝ × ℝ)), x ∈ sortByKey l ↔ x ∈ l
  | [] => by simp [sortByKey]
  | h :: t => by
    have ih := sortByKey_mem x t
    unfold sortByKey at ih ⊢
    rw [List.foldr_cons, insertByKey_mem, ih, List.mem_cons]

theorem sortByKey_length : ∀ (l : List (ℝ × ℝ)), (sortByKey l).length = l.length
  | [] => by simp [sortByKey]
  | h :: t => by
    have ih := sortByKey_length t
    unfold sortByKey at ih ⊢
    rw [List.foldr_cons, insertByKey_length, ih, List.length_cons]

theorem sortByKey_sorted : ∀ (l : List (ℝ × ℝ)), ((sortByKey l).map (·.1)).Pairwise (· ≤ ·)
  | [] => by simp [sortByKey]
  | h :: t => by
    have ih := sortByKey_sorted t
    unfold sortByKey at ih ⊢
    rw [List.foldr_cons]
    exact insertByKey_sorted h _ ih

theorem tempArrayPressure_within {lo hi : ℝ} (tp pp pressure : List ℝ) (hne : 0 < tp.length)
    (hpp : 0 < pp.length) (hT : Within lo hi tp) : Within lo hi (tempArrayPressure tp pp pressure) := by
  intro v hv
  unfold tempArrayPressure at hv
  simp only [List.mem_map] at hv
  obtain ⟨p, _, rfl⟩ := hv
  split_ifs with h1 h2
  · exact getD_within hT (by omega)
  · exact getD_within hT hne
  · apply npInterp_between
    · simp
    · simp [sortByKey_length]; omega
    · exact sortByKey_sorted _
    · intro y hy
      rw [List.mem_map] at hy
      obtain ⟨kv, hkv, rfl⟩ := hy
      rw [sortByKey_mem] at hkv
      exact hT _ (List.of_mem_zip hkv).2

theorem tempArrayPressure_length (tp pp pressure : List ℝ) :
    (tempArrayPressure tp pp pressure).length = pressure.length := by
  simp [tempArrayPressure]

/-! ### Guillot 2010 -/

theorem isZero_iff (x : ℝ) : isZero x = true ↔ x = 0 := by
  unfold isZero
  simp only [Bool.and_eq_true, Bool.not_eq_true', decide_eq_false_iff_not, not_lt]
  constructor
  · rintro ⟨h1, h2⟩; exact le_antisymm h2 h1
  · rintro rfl; exact ⟨le_refl _, le_refl _⟩

theorem isZero_zero : isZero (0 : ℝ) = true := (isZero_iff 0).2 rfl

theorem guillot_rejected_iff (q : GuillotParams ℝ) :
    q.rejected = true ↔
      q.kappaIr = 0 ∨ q.kappaV1 / q.kappaIr = 0 ∨ q.kappaV2 / q.kappaIr = 0 ∨ q.tIrr < 0 ∨ q.tInt < 0 := by
  unfold GuillotParams.rejected
  by_cases h1 : q.kappaIr = 0
  · simp [h1, isZero_zero]
  · have h1' : isZero q.kappaIr = false := by
      rw [← Bool.not_eq_true, isZero_iff]; exact h1
    simp only [h1', Bool.false_eq_true, if_false]
    by_cases h2 : q.kappaV1 / q.kappaIr = 0
    · simp [h2, isZero_zero]
    · have h2' : isZero (q.kappaV1 / q.kappaIr) = false := by
        rw [← Bool.not_eq_true, isZero_iff]; exact h2
      by_cases h3 : q.kappaV2 / q.kappaIr = 0
      · simp [h3, isZero_zero]
      · have h3' : isZero (q.kappaV2 / q.kappaIr) = false := by
          rw [← Bool.not_eq_true, isZero_iff]; exact h3
        simp only [h2', h3', Bool.or_self, Bool.false_eq_true, if_false]
        by_cases h4 : q.tIrr < 0
        · simp [h4]
        · by_cases h5 : q.tInt < 0
          · simp [h5]
          · simp [h1, h2, h3, h4, h5]

end Taurex.Temperature
