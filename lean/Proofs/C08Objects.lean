/-
  Lemmas about the heap of prior objects (`TaurexModel/PriorObjects.lean`): an object is only ever changed by
  `set_bounds` calls on ITSELF.  Core tactics only.
-/
import TaurexModel.PriorObjects

namespace Taurex.PriorObjects
open Taurex.Priors

section
variable {α : Type}

theorem length_modifyAt (f : Prior α → Prior α) : ∀ (i : Nat) (h : Heap α), (modifyAt f i h).length = h.length
  | 0, [] => rfl
  | _ + 1, [] => rfl
  | 0, _ :: _ => rfl
  | i + 1, _ :: h => by simp [modifyAt, length_modifyAt f i h]

theorem getElem?_modifyAt (f : Prior α → Prior α) :
    ∀ (i : Nat) (h : Heap α) (j : Nat), (modifyAt f i h)[j]? = if i = j then (h[j]?).map f else h[j]?
  | _, [], j => by simp [modifyAt]
  | 0, p :: h, j => by
    cases j with
    | zero => simp [modifyAt]
    | succ j => simp [modifyAt]
  | i + 1, p :: h, j => by
    cases j with
    | zero => simp [modifyAt]
    | succ j => simp [modifyAt, getElem?_modifyAt f i h j]

variable [LT α] [DecidableLT α] [OfNat α 0] [OfNat α 1] [Transc α]

theorem length_step_ge (half quarter : α) (h : Heap α) (op : Op α) : h.length ≤ (step half quarter h op).length := by
  cases op with
  | create c =>
    simp only [step]
    split <;> simp
  | setBounds i b0 b1 => simp [step, length_modifyAt]

/-- one operation, seen from an object that already exists -/
theorem getElem?_step (half quarter : α) (h : Heap α) (op : Op α) (j : Nat) (hj : j < h.length) :
    (step half quarter h op)[j]? = (h[j]?).map (fun p => reboundAll p (ownCalls j [op])) := by
  cases op with
  | create c =>
    simp only [step]
    split <;> simp [ownCalls, reboundAll, List.getElem?_append_left hj]
  | setBounds i b0 b1 =>
    simp only [step, getElem?_modifyAt, ownCalls]
    by_cases hij : i = j
    · simp [hij, reboundAll]
    · simp [hij, reboundAll]

omit [OfNat α 0] [OfNat α 1] [Transc α] in
theorem reboundAll_append (p : Prior α) (a b : List (α × α)) : reboundAll p (a ++ b) = reboundAll (reboundAll p a) b := by
  induction a generalizing p with
  | nil => rfl
  | cons x a ih => simp [reboundAll, ih]

omit [LT α] [DecidableLT α] [OfNat α 0] [OfNat α 1] [Transc α] in
theorem ownCalls_cons (j : Nat) (op : Op α) (ops : List (Op α)) : ownCalls j (op :: ops) = ownCalls j [op] ++ ownCalls j ops := by
  cases op with
  | create c => simp [ownCalls]
  | setBounds i b0 b1 =>
    by_cases hij : i = j <;> simp [ownCalls, hij]

/-- the value of an object after a history is its value before, changed by its OWN `set_bounds` calls only -/
theorem getElem?_run (half quarter : α) : ∀ (ops : List (Op α)) (h : Heap α) (j : Nat), j < h.length →
    (run half quarter h ops)[j]? = (h[j]?).map (fun p => reboundAll p (ownCalls j ops))
  | [], h, j, _ => by simp [run, ownCalls, reboundAll]
  | op :: ops, h, j, hj => by
    have hj' : j < (step half quarter h op).length := Nat.lt_of_lt_of_le hj (length_step_ge half quarter h op)
    rw [run, getElem?_run half quarter ops _ j hj', getElem?_step half quarter h op j hj]
    have e := ownCalls_cons j op ops
    cases h[j]? with
    | none => rfl
    | some p => simp [e, reboundAll_append]

end

end Taurex.PriorObjects
