/-
  C12, input-file route: look-up lemma about `Section.resolve` used by `Props/C12.lean`.
-/
import TaurexModel.Section

namespace Taurex.C12
open Taurex.Section

/-- looking a keyword up in the resolved keyword arguments: the section's value if the section has the key, else the default -/
theorem resolve_lookup {κ ν : Type} [BEq κ] [LawfulBEq κ] (defaults sec : List (κ × ν)) (k : κ) :
    (defaults.map (fun kd => (kd.1, (sec.lookup kd.1).getD kd.2))).lookup k =
      (defaults.lookup k).map (fun d => (sec.lookup k).getD d) := by
  induction defaults with
  | nil => rfl
  | cons kd t ih =>
    obtain ⟨k', d'⟩ := kd
    simp only [List.map_cons, List.lookup_cons]
    by_cases h : k == k'
    · have : k = k' := eq_of_beq h
      subst this
      simp
    · simp only [h]
      exact ih

end Taurex.C12
