/-
  Lemmas about `Taurex.Transmission` over ℝ (helper file of Props/C01, Props/C03, Props/C19).
-/
import Mathlib.Algebra.BigOperators.Group.Finset.Basic
import Mathlib.Algebra.Order.BigOperators.Group.Finset
import Mathlib.Tactic.Ring
import Mathlib.Tactic.Linarith
import Mathlib.Tactic.Positivity
import Proofs.RealInst
import TaurexModel.Transmission

open Finset

namespace Taurex.Transmission

/-- the accumulation loop is a finite sum -/
theorem accFrom_eq (a : ℝ) (n : ℕ) (f : ℕ → ℝ) : accFrom a n f = a + ∑ k ∈ range n, f k := by
  unfold accFrom
  induction n generalizing a with
  | zero => simp
  | succ n ih =>
    rw [List.range_succ, List.foldl_append, ih]
    simp [Finset.sum_range_succ]
    ring

theorem accFrom_mono_start {a b : ℝ} (h : a ≤ b) (n : ℕ) (f : ℕ → ℝ) : accFrom a n f ≤ accFrom b n f := by
  rw [accFrom_eq, accFrom_eq]; linarith

theorem accFrom_ge_start (a : ℝ) (n : ℕ) (f : ℕ → ℝ) (hf : ∀ k < n, 0 ≤ f k) : a ≤ accFrom a n f := by
  rw [accFrom_eq]
  have := Finset.sum_nonneg (s := range n) (f := f) (fun k hk => hf k (mem_range.1 hk))
  linarith

theorem accFrom_mono {a b : ℝ} (h : a ≤ b) (n : ℕ) (f g : ℕ → ℝ) (hfg : ∀ k < n, f k ≤ g k) :
    accFrom a n f ≤ accFrom b n g := by
  rw [accFrom_eq, accFrom_eq]
  have := Finset.sum_le_sum (s := range n) (f := f) (g := g) (fun k hk => hfg k (mem_range.1 hk))
  linarith

/-! ### contributions -/

/-- physical sign conditions on one contribution's prepared opacity -/
def Contrib.Nonneg (c : Contrib ℝ) : Prop := ∀ l wn, 0 ≤ c.sigma l wn

theorem term_nonneg (c : Contrib ℝ) (hc : c.Nonneg) (n l : ℕ) (path dens : ℕ → ℝ) (hp : ∀ k < n - l, 0 ≤ path k)
    (hd : ∀ j < n, 0 ≤ dens j) (wn k : ℕ) (hk : k < nTerms c n l) : 0 ≤ term c path dens l wn k := by
  unfold term
  unfold nTerms at hk
  cases hkind : c.kind <;> simp only [hkind] at hk ⊢
  · have h1 := hp k hk; have h2 := hd (k + l) (by omega)
    exact mul_nonneg (mul_nonneg (hc _ _) h1) h2
  · have h1 := hp k hk; have h2 := hd (k + l) (by omega)
    exact mul_nonneg (mul_nonneg (mul_nonneg (hc _ _) h1) h2) h2
  · exact hc _ _

theorem addContrib_ge (c : Contrib ℝ) (hc : c.Nonneg) (n : ℕ) (path dens : ℕ → ℝ) (l : ℕ)
    (hp : ∀ k < n - l, 0 ≤ path k) (hd : ∀ j < n, 0 ≤ dens j) (acc : ℕ → ℝ) (wn : ℕ) :
    acc wn ≤ addContrib c n path dens l acc wn := by
  unfold addContrib
  exact accFrom_ge_start _ _ _ (fun k hk => term_nonneg c hc n l path dens hp hd wn k hk)

theorem addContrib_mono_acc (c : Contrib ℝ) (n : ℕ) (path dens : ℕ → ℝ) (l : ℕ) {a b : ℕ → ℝ}
    (h : ∀ wn, a wn ≤ b wn) (wn : ℕ) : addContrib c n path dens l a wn ≤ addContrib c n path dens l b wn := by
  unfold addContrib
  exact accFrom_mono_start (h wn) _ _

/-- the increment of a contribution does not depend on what is already in the row -/
theorem addContrib_eq (c : Contrib ℝ) (n : ℕ) (path dens : ℕ → ℝ) (l : ℕ) (acc : ℕ → ℝ) (wn : ℕ) :
    addContrib c n path dens l acc wn = acc wn + addContrib c n path dens l (fun _ => 0) wn := by
  unfold addContrib
  rw [accFrom_eq, accFrom_eq]; ring

theorem tauFullFrom_ge (n : ℕ) (path dens : ℕ → ℝ) (l : ℕ) (hp : ∀ k < n - l, 0 ≤ path k) (hd : ∀ j < n, 0 ≤ dens j)
    (cs : List (Contrib ℝ)) (hcs : ∀ c ∈ cs, c.Nonneg) (acc : ℕ → ℝ) (wn : ℕ) :
    acc wn ≤ tauFullFrom n path dens l cs acc wn := by
  induction cs generalizing acc with
  | nil => simp [tauFullFrom]
  | cons c cs ih =>
    have h1 := addContrib_ge c (hcs c (by simp)) n path dens l hp hd acc wn
    have h2 := ih (fun c' hc' => hcs c' (by simp [hc'])) (addContrib c n path dens l acc)
    simp only [tauFullFrom, List.foldl_cons] at h2 ⊢
    linarith

theorem tauFullFrom_eq (n : ℕ) (path dens : ℕ → ℝ) (l : ℕ) (cs : List (Contrib ℝ)) (acc : ℕ → ℝ) (wn : ℕ) :
    tauFullFrom n path dens l cs acc wn = acc wn + tauFull n path dens l cs wn := by
  unfold tauFull
  induction cs generalizing acc with
  | nil => simp [tauFullFrom]
  | cons c cs ih =>
    simp only [tauFullFrom, List.foldl_cons] at ih ⊢
    rw [ih (addContrib c n path dens l acc), ih (addContrib c n path dens l fun _ => 0), addContrib_eq]
    ring

theorem saturated_iff (nwn : ℕ) (row : ℕ → ℝ) : saturated nwn row = true ↔ ∀ wn < nwn, 10 < row wn := by
  simp [saturated, List.all_eq_true]

/-- **key lemma**: the early exit only ever stops at a row that is already above 10 everywhere, and never
    overshoots the full sum -/
theorem cutoff_from (n nwn : ℕ) (path dens : ℕ → ℝ) (l : ℕ) (hp : ∀ k < n - l, 0 ≤ path k) (hd : ∀ j < n, 0 ≤ dens j)
    (cs : List (Contrib ℝ)) (hcs : ∀ c ∈ cs, c.Nonneg) (acc : ℕ → ℝ) :
    (∀ wn, tauCutFrom n nwn path dens l cs acc wn ≤ tauFullFrom n path dens l cs acc wn) ∧
    ((∀ wn, tauCutFrom n nwn path dens l cs acc wn = tauFullFrom n path dens l cs acc wn) ∨
      (∀ wn < nwn, 10 < tauCutFrom n nwn path dens l cs acc wn)) := by
  induction cs generalizing acc with
  | nil => simp [tauCutFrom, tauFullFrom]
  | cons c cs ih =>
    have hcs' : ∀ c' ∈ cs, c'.Nonneg := fun c' hc' => hcs c' (by simp [hc'])
    by_cases hs : saturated nwn acc = true
    · have e : tauCutFrom n nwn path dens l (c :: cs) acc = acc := by simp [tauCutFrom, hs]
      rw [e]
      refine ⟨fun wn => tauFullFrom_ge n path dens l hp hd (c :: cs) hcs acc wn, Or.inr ?_⟩
      exact (saturated_iff nwn acc).1 hs
    · have e : tauCutFrom n nwn path dens l (c :: cs) acc
          = tauCutFrom n nwn path dens l cs (addContrib c n path dens l acc) := by simp [tauCutFrom, hs]
      rw [e]
      simpa [tauFullFrom] using ih hcs' (addContrib c n path dens l acc)

theorem tauCutFrom_ge (n nwn : ℕ) (path dens : ℕ → ℝ) (l : ℕ) (hp : ∀ k < n - l, 0 ≤ path k) (hd : ∀ j < n, 0 ≤ dens j)
    (cs : List (Contrib ℝ)) (hcs : ∀ c ∈ cs, c.Nonneg) (acc : ℕ → ℝ) (wn : ℕ) :
    acc wn ≤ tauCutFrom n nwn path dens l cs acc wn := by
  induction cs generalizing acc with
  | nil => simp [tauCutFrom]
  | cons c cs ih =>
    by_cases hs : saturated nwn acc = true
    · simp [tauCutFrom, hs]
    · have h1 := addContrib_ge c (hcs c (by simp)) n path dens l hp hd acc wn
      have h2 := ih (fun c' hc' => hcs c' (by simp [hc'])) (addContrib c n path dens l acc)
      simp only [tauCutFrom, hs, Bool.false_eq_true, if_false] at h2 ⊢
      linarith

/-! ### depth -/

theorem depth_eq (rp rs : ℝ) (n : ℕ) (z dz tr : ℕ → ℝ) :
    depth rp rs n z dz tr = (rp ^ 2 + ∑ l ∈ range n, 2 * (rp + z l) * (1 - tr l) * dz l) / rs ^ 2 := by
  unfold depth
  rw [accFrom_eq]
  simp only [sq, depthTerm, zero_add]
  congr 1
  · congr 1
    · ring
    · exact Finset.sum_congr rfl (fun l _ => by ring)
  · ring

theorem depth_mono_tr (rp rs : ℝ) (hrs : 0 < rs) (n : ℕ) (z dz tr tr' : ℕ → ℝ)
    (hz : ∀ l < n, 0 ≤ rp + z l) (hdz : ∀ l < n, 0 ≤ dz l) (h : ∀ l < n, tr' l ≤ tr l) :
    depth rp rs n z dz tr ≤ depth rp rs n z dz tr' := by
  rw [depth_eq, depth_eq]
  have hrs2 : 0 < rs ^ 2 := by positivity
  apply div_le_div_of_nonneg_right _ hrs2.le
  have := Finset.sum_le_sum (s := range n) (f := fun l => 2 * (rp + z l) * (1 - tr l) * dz l)
    (g := fun l => 2 * (rp + z l) * (1 - tr' l) * dz l) (fun l hl => by
      have hl := mem_range.1 hl
      have h1 := hz l hl; have h2 := hdz l hl; have h3 := h l hl
      have : 0 ≤ 2 * (rp + z l) * dz l := by positivity
      nlinarith)
  simpa using add_le_add_left this (rp ^ 2)

end Taurex.Transmission
