/-
  Helper lemmas for the source ties of the chains-file readers of C09 (`Props/C09Src.lean`: `multinest_chains_*`,
  `polychord_chains`, dialect `seq`): the line loop of `store_nest_solutions` with its look-back at the two previous lines
  against the state machine `Posterior.splitStep`, and the row-by-row filling of a zero array against `Posterior.modeArray`.
  Core Lean only, every carrier.
-/
import TaurexModel.Posterior
import TaurexModel.Gen.SeqPrelude
import Proofs.SeqSrc

namespace Taurex.C09Src
open Taurex.Posterior Taurex.Gen

section
variable {α : Type} [OfNat α 0]

/-- a line of `post_separate.dat` as the reader sees it: `line == '\n'`, `[float(x) for x in line.split()]` -/
def toPLine (splitWs : String → List String) (parseFloat : String → α) (s : String) : PLine α :=
  ⟨s == "\n", (splitWs s).map parseFloat⟩

/-- the body of `for idx, line in enumerate(lines)` as the translator emits it (state: modes, modes_weights, chains,
    chains_weights; the look-back reads `lines[idx-1]`, `lines[idx-2]`) -/
def lineStep (lines : List String) (splitWs : String → List String) (parseFloat : String → α)
    (st__ : List (List (List α)) × List (List α) × List (List α) × List α) (it__ : String × Nat) :
    List (List (List α)) × List (List α) × List (List α) × List α :=
      let modes := st__.1
      let modes_weights := st__.2.1
      let chains := st__.2.2.1
      let chains_weights := st__.2.2.2
      let idx := it__.2
      let line := it__.1
      let st__ := (if decide (2 < idx) then
          let st__ := (if (((Np.getInt "" lines ((Int.ofNat idx) - (1 : Int))) == "\n") && ((Np.getInt "" lines ((Int.ofNat idx) - (2 : Int))) == "\n")) then
              let modes := (modes ++ [chains])
              let modes_weights := (modes_weights ++ [chains_weights])
              let chains : List (List α) := []
              let chains_weights : List α := []
              (modes, modes_weights, chains, chains_weights)
            else
              (modes, modes_weights, chains, chains_weights)
            )
          let modes := st__.1
          let modes_weights := st__.2.1
          let chains := st__.2.2.1
          let chains_weights := st__.2.2.2
          (modes, modes_weights, chains, chains_weights)
        else
          (modes, modes_weights, chains, chains_weights)
        )
      let modes := st__.1
      let modes_weights := st__.2.1
      let chains := st__.2.2.1
      let chains_weights := st__.2.2.2
      let chain := (List.map (fun it__ => let x := it__; (parseFloat x)) (List.drop 2 (splitWs line)))
      let st__ := (if decide (0 < chain.length) then
          let chains := (chains ++ [chain])
          let chains_weights := (chains_weights ++ [(parseFloat (((splitWs line)).getD 0 ""))])
          (chains, chains_weights)
        else
          (chains, chains_weights)
        )
      let chains := st__.1
      let chains_weights := st__.2
      (modes, modes_weights, chains, chains_weights)

/-- the four list components of the model's loop state -/
def listsOf (st : SplitState α) : List (List (List α)) × List (List α) × List (List α) × List α :=
  (st.modes, st.weights, st.chains, st.cw)

/-- what the model's look-back flags must hold at line `st.idx` of `lines` -/
def LookBack (lines : List String) (st : SplitState α) : Prop :=
  (1 ≤ st.idx → st.prev1 = (lines.getD (st.idx - 1) "" == "\n")) ∧
  (2 ≤ st.idx → st.prev2 = (lines.getD (st.idx - 2) "" == "\n"))

theorem lineStep_eq (lines : List String) (splitWs : String → List String) (parseFloat : String → α)
    (st : SplitState α) (hlb : LookBack lines st) (line : String) (hline : lines.getD st.idx "" = line)
    (_hidx : st.idx < lines.length) :
    lineStep lines splitWs parseFloat (listsOf st) (line, st.idx)
        = listsOf (splitStep st (toPLine splitWs parseFloat line)) ∧
      LookBack lines (splitStep st (toPLine splitWs parseFloat line)) ∧
      (splitStep st (toPLine splitWs parseFloat line)).idx = st.idx + 1 := by
  obtain ⟨h1, h2⟩ := hlb
  refine ⟨?_, ?_, rfl⟩
  · have hw : 0 < (splitWs line).length - 2 →
        parseFloat ((splitWs line)[0]?.getD "") = (Option.map parseFloat (splitWs line)[0]?).getD 0 := by
      intro hc
      cases h : splitWs line with
      | nil => simp [h] at hc
      | cons a t => simp
    unfold lineStep splitStep toPLine listsOf
    by_cases hi : 2 < st.idx
    · have e1 : (Int.ofNat st.idx) - (1 : Int) = Int.ofNat (st.idx - 1) := by
        simp only [Int.ofNat_eq_natCast]; omega
      have e2 : (Int.ofNat st.idx) - (2 : Int) = Int.ofNat (st.idx - 2) := by
        simp only [Int.ofNat_eq_natCast]; omega
      simp only [e1, e2, SeqSrc.getInt_nat, ← h1 (by omega), ← h2 (by omega)]
      by_cases hc : 0 < (splitWs line).length - 2
      · cases hb1 : st.prev1 <;> cases hb2 : st.prev2 <;> simp [hi, hc, hw hc]
      · cases hb1 : st.prev1 <;> cases hb2 : st.prev2 <;> simp [hi, hc]
    · by_cases hc : 0 < (splitWs line).length - 2
      · simp [hi, hc, hw hc]
      · simp [hi, hc]
  · unfold LookBack
    have hidx' : (splitStep st (toPLine splitWs parseFloat line)).idx = st.idx + 1 := rfl
    have hp1 : (splitStep st (toPLine splitWs parseFloat line)).prev1 = (line == "\n") := rfl
    have hp2 : (splitStep st (toPLine splitWs parseFloat line)).prev2 = st.prev1 := rfl
    rw [hidx', hp1, hp2]
    refine ⟨fun _ => ?_, fun h => ?_⟩
    · simp only [Nat.add_sub_cancel]; rw [hline]
    · have : st.idx + 1 - 2 = st.idx - 1 := by omega
      rw [this]; exact h1 (by omega)

/-- the whole line loop: the translator's fold over `enumerate(lines)` computes the lists of the model's fold -/
theorem lineLoop_eq (lines : List String) (splitWs : String → List String) (parseFloat : String → α) :
    ∀ (suf pre : List String) (st : SplitState α), lines = pre ++ suf → st.idx = pre.length → LookBack lines st →
      List.foldl (lineStep lines splitWs parseFloat) (listsOf st) (List.zipIdx suf pre.length)
        = listsOf (List.foldl splitStep st (suf.map (toPLine splitWs parseFloat)))
  | [], _, _, _, _, _ => rfl
  | line :: suf, pre, st, hl, hi, hlb => by
    have hget : lines.getD st.idx "" = line := by
      rw [hl, hi]; simp [List.getD_eq_getElem?_getD]
    have hlen : st.idx < lines.length := by rw [hl, hi]; simp
    obtain ⟨e, hlb', hidx'⟩ := lineStep_eq lines splitWs parseFloat st hlb line hget hlen
    rw [List.zipIdx_cons, List.foldl_cons, List.map_cons, List.foldl_cons, ← hi, e]
    have := lineLoop_eq lines splitWs parseFloat suf (pre ++ [line]) (splitStep st (toPLine splitWs parseFloat line))
      (by rw [hl]; simp) (by rw [hidx', hi]; simp) hlb'
    rw [List.length_append, List.length_singleton, ← hi] at this
    exact this

/-- `mode_array[idx, :] = line` for every row of `mode`, on the zero array of `mode`'s shape: every row fitted to the width -/
theorem fillRows_eq (n : Nat) : ∀ (done todo : List (List α)) (k : Nat), k = done.length →
    List.foldl (fun (M : List (List α)) (it : List α × Nat) => Np.setRow M it.2 it.1)
        (done ++ List.replicate todo.length (List.replicate n (0 : α))) (List.zipIdx todo k)
      = done ++ todo.map (fitRow n)
  | done, [], _, _ => by simp
  | done, row :: todo, k, hk => by
    rw [List.zipIdx_cons, List.foldl_cons]
    have hset : Np.setRow (done ++ List.replicate (row :: todo).length (List.replicate n (0 : α))) k row
        = (done ++ [fitRow n row]) ++ List.replicate todo.length (List.replicate n (0 : α)) := by
      unfold Np.setRow fitRow
      have hk' : (done ++ List.replicate (row :: todo).length (List.replicate n (0 : α)))[k]?
          = some (List.replicate n (0 : α)) := by
        rw [hk]; simp [List.replicate_succ]
      rw [hk']
      simp only [List.length_replicate]
      have hsetk : ∀ v : List α, (done ++ List.replicate (row :: todo).length (List.replicate n (0 : α))).set k v
          = (done ++ [v]) ++ List.replicate todo.length (List.replicate n (0 : α)) := by
        intro v
        rw [hk, List.length_cons, List.replicate_succ, List.set_append_right _ _ (Nat.le_refl _)]
        simp
      by_cases hl : row.length = n
      · simp only [hl, if_true, hsetk]
      · simp only [hl, if_false]
        match row, hl with
        | [], _ => simp [List.replicate_succ]
        | [x], _ => simp only [hsetk]
        | _ :: _ :: _, _ => simp [List.replicate_succ]
    rw [hset]
    have := fillRows_eq n (done ++ [fitRow n row]) todo (k + 1) (by simp [hk])
    rw [this]
    simp

theorem modeArray_src (mode : List (List α)) :
    List.foldl (fun (M : List (List α)) (it : List α × Nat) => Np.setRow M it.2 it.1)
        (List.replicate mode.length (List.replicate (List.length (mode.getD 0 [])) (0 : α))) (List.zipIdx mode)
      = modeArray mode := by
  have h := fillRows_eq (List.length (mode.getD 0 [])) [] mode 0 rfl
  simp only [List.nil_append] at h
  rw [h]
  unfold modeArray
  congr 2
  cases mode <;> rfl

/-- `xs = []; for m in modes: xs.append(f(m))` is `modes.map f` -/
theorem foldl_append_map {β γ : Type} (f : β → γ) (l : List β) (init : List γ) :
    List.foldl (fun (acc : List γ) (m : β) => acc ++ [f m]) init l = init ++ l.map f := by
  induction l generalizing init with
  | nil => simp
  | cons x l ih => simp [ih]

end

end Taurex.C09Src
