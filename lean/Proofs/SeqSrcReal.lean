/-
  The cumsum trick of `taurex.util.movingaverage` over the real carrier: the translated text (`np.cumsum`, the slice
  store `ret[n:] = ret[n:] - ret[:-n]`, `ret[n-1:] / n`, with the shape tests numpy makes) yields exactly the window means
  of the model's `movingAverage`.  This is an algebraic identity (telescoping sums): it holds over ℝ, not bit for bit
  on floats (ASSUMPTIONS of harness/c12.py: "movingaverage (cumsum trick) = exact window mean up to rounding").
-/
import Mathlib.Algebra.Order.Floor.Semifield
import Proofs.NpInterp
import Proofs.SeqSrc

namespace Taurex.SeqSrc
open Taurex Taurex.NpInterp Taurex.Gen

/-- partial sums -/
noncomputable def psum (a : List ℝ) (k : Nat) : ℝ := sumL (a.take k)

theorem psum_zero (a : List ℝ) : psum a 0 = 0 := by simp [psum]

theorem psum_add (a : List ℝ) (i w : Nat) : psum a (i + w) = psum a i + sumL ((a.drop i).take w) := by
  unfold psum
  rw [List.take_add, sumL_append]

theorem cumsumFrom_getElem? (acc : ℝ) : ∀ (l : List ℝ) (i : Nat),
    (Np.cumsumFrom acc l)[i]? = if i < l.length then some (acc + sumL (l.take (i + 1))) else none
  | [], i => by simp [Np.cumsumFrom]
  | x :: t, 0 => by simp [Np.cumsumFrom, sumL_cons]
  | x :: t, i + 1 => by
    simp only [Np.cumsumFrom, List.getElem?_cons_succ, List.length_cons, Nat.add_lt_add_iff_right]
    rw [cumsumFrom_getElem? (acc + x) t i]
    split
    · rw [List.take_succ_cons, sumL_cons]; congr 1; ring
    · rfl

theorem cumsum_getElem? (a : List ℝ) (i : Nat) :
    (Np.cumsum a)[i]? = if i < a.length then some (psum a (i + 1)) else none := by
  unfold psum
  cases a with
  | nil => simp [Np.cumsum]
  | cons x t =>
    cases i with
    | zero => simp [Np.cumsum, sumL_cons]
    | succ i =>
      simp only [Np.cumsum, List.getElem?_cons_succ, List.length_cons, Nat.add_lt_add_iff_right]
      rw [cumsumFrom_getElem? x t i]
      split
      · rw [List.take_succ_cons, sumL_cons]
      · rfl

theorem cumsum_length (a : List ℝ) : (Np.cumsum a).length = a.length := by
  have h1 : ∀ i, i < (Np.cumsum a).length ↔ i < a.length := by
    intro i
    have := cumsum_getElem? a i
    constructor
    · intro h
      by_contra hc
      rw [if_neg hc] at this
      rw [List.getElem?_eq_none_iff] at this
      omega
    · intro h
      rw [if_pos h] at this
      by_contra hc
      rw [List.getElem?_eq_none_iff.2 (by omega)] at this
      exact absurd this (by simp)
  have a1 := h1 a.length
  have a2 := h1 (Np.cumsum a).length
  omega

/-- **the cumsum trick**: for a window `w ≥ 1` the three steps of `movingaverage` pass numpy's shape tests and yield the
    `len(a) - w + 1` window means (none when the window is longer than the array).  Over ℝ. -/
theorem ma_cumsum (a : List ℝ) (w : Nat) (hw : 1 ≤ w) (c : ℝ) (hc : c = (w : ℝ)) :
    Np.bcastOk (List.length (Np.pySlice (Np.cumsum a) (some (Int.ofNat w)) none))
      (List.length (Np.pySlice (Np.cumsum a) none (some (-(Int.ofNat w))))) = true ∧
    Np.storeOk (Np.cumsum a).length (some (Int.ofNat w)) none
      (Np.zip2 (fun x y => x - y) (Np.pySlice (Np.cumsum a) (some (Int.ofNat w)) none)
        (Np.pySlice (Np.cumsum a) none (some (-(Int.ofNat w))))).length = true ∧
    List.map (fun x => x / c)
      (Np.pySlice (Np.storeSlice (Np.cumsum a) (some (Int.ofNat w)) none
        (Np.zip2 (fun x y => x - y) (Np.pySlice (Np.cumsum a) (some (Int.ofNat w)) none)
          (Np.pySlice (Np.cumsum a) none (some (-(Int.ofNat w)))))) (some (Int.ofNat w - (1 : Int))) none)
      = movingAverage a w := by
  have hl := cumsum_length a
  rw [pySlice_from, pySlice_to_neg _ _ (by omega), storeOk_from]
  have hlen : (List.drop w (Np.cumsum a)).length = (List.take ((Np.cumsum a).length - w) (Np.cumsum a)).length := by
    simp [List.length_take, List.length_drop]
  have hz : Np.zip2 (fun x y => x - y) (List.drop w (Np.cumsum a)) (List.take ((Np.cumsum a).length - w) (Np.cumsum a))
      = List.zipWith (fun x y => x - y) (List.drop w (Np.cumsum a)) (List.take ((Np.cumsum a).length - w) (Np.cumsum a)) := by
    unfold Np.zip2
    rw [if_pos hlen]
  rw [hz]
  have hw1 : Int.ofNat w - (1 : Int) = Int.ofNat (w - 1) := by
    simp only [Int.ofNat_eq_natCast]; omega
  rw [hw1, pySlice_from]
  refine ⟨by simp [Np.bcastOk, hlen], ?_, ?_⟩
  · simp only [List.length_zipWith, List.length_drop, List.length_take, hl]
    have : min (a.length - w) (min (a.length - w) a.length) = a.length - min w a.length := by omega
    simp only [this, beq_self_eq_true, Bool.true_or]
  · unfold movingAverage
    by_cases hlong : a.length < w
    · -- the window is longer than the array: nothing is stored, nothing is returned
      have h0 : ¬ (w = 0) := by omega
      simp only [h0, hlong, or_true, if_true]
      have hd : List.drop w (Np.cumsum a) = [] := List.drop_eq_nil_of_le (by omega)
      rw [hd]
      simp only [List.zipWith_nil_left]
      rw [storeSlice_from_beyond _ _ (by omega), List.drop_eq_nil_of_le (by omega)]
      rfl
    · have h0 : ¬ (w = 0 ∨ a.length < w) := by omega
      rw [if_neg h0]
      rw [storeSlice_from _ _ _ (by omega) (by simp [List.length_take, List.length_drop])]
      apply List.ext_getElem?
      intro i
      simp only [List.getElem?_map, List.getElem?_drop, List.getElem?_append, List.length_take, hl,
        List.getElem?_take, List.getElem?_zipWith, cumsum_getElem?]
      have hmin : min w a.length = w := by omega
      rw [hmin]
      by_cases hi : i < a.length - w + 1
      · rw [List.getElem?_range hi]
        simp only [Option.map_some]
        unfold windowMean
        simp only [ofNat'_real]
        by_cases hi0 : i = 0
        · subst hi0
          have h1 : w - 1 + 0 < w := by omega
          have h2 : w - 1 + 0 < a.length := by omega
          have h3 : w - 1 + 0 + 1 = 0 + w := by omega
          simp only [h1, h2, if_true, Option.map_some, h3, hc, zero_add]
          simp [psum]
        · have h1 : ¬ (w - 1 + i < w) := by omega
          have h2 : w - 1 + i - w = i - 1 := by omega
          have h3 : w + (i - 1) < a.length := by omega
          have h4 : i - 1 < a.length - w := by omega
          have h5 : i - 1 < a.length := by omega
          have h6 : w + (i - 1) + 1 = i + w := by omega
          have h7 : i - 1 + 1 = i := by omega
          simp only [h1, if_false, h2, h3, h4, h5, if_true, Option.map_some, h6, h7, psum_add, hc]
          congr 1
          ring
      · have hr : (List.range (a.length - w + 1))[i]? = none := by
          rw [List.getElem?_eq_none_iff]; simp; omega
        rw [hr]
        have h1 : ¬ (w - 1 + i < w) := by omega
        have h3 : ¬ (w + (w - 1 + i - w) < a.length) := by omega
        simp [h1, h3]

/-! ### Python's `int()` and int → float conversion on the real carrier -/

/-- Python's `int()` on a real number: truncation toward zero -/
noncomputable def pyIntR (x : ℝ) : Int := if 0 ≤ x then ⌊x⌋ else ⌈x⌉

/-- Python's int → float conversion -/
noncomputable def toFloatR (k : Int) : ℝ := (k : ℝ)

theorem pyIntR_nonneg {x : ℝ} (hx : 0 ≤ x) : pyIntR x = Int.ofNat ⌊x⌋₊ := by
  unfold pyIntR
  rw [if_pos hx]
  exact (Int.natCast_floor_eq_floor hx).symm

theorem pyIntR_nonneg' {x : ℝ} (hx : 0 ≤ x) : 0 ≤ pyIntR x := by
  rw [pyIntR_nonneg hx]; simp

/-- the model's `truncNat` (`⌊x⌋₊`) is the non-negative part of `int(x)` -/
theorem pyIntR_max (x : ℝ) : max (pyIntR x) 0 = Int.ofNat (truncNat x) := by
  simp only [truncNat_real]
  by_cases hx : 0 ≤ x
  · rw [pyIntR_nonneg hx]; simp
  · unfold pyIntR
    rw [if_neg hx]
    have h1 : ⌈x⌉ ≤ 0 := Int.ceil_le.2 (by push_cast; linarith)
    have h2 : ⌊x⌋₊ = 0 := Nat.floor_of_nonpos (by linarith)
    rw [h2]
    simp only [Int.ofNat_eq_natCast, Nat.cast_zero]
    omega

theorem toFloatR_nat (n : Nat) : toFloatR (Int.ofNat n) = (n : ℝ) := by
  simp [toFloatR]

theorem pyIntR_half (k : Nat) : pyIntR (toFloatR (Int.ofNat k) / 2) = Int.ofNat (k / 2) := by
  rw [toFloatR_nat, pyIntR_nonneg (by positivity)]
  congr 1
  have := Nat.floor_div_eq_div (K := ℝ) k 2
  simpa using this

theorem oddWindow_pos (n : Nat) (w : ℝ) : 1 ≤ oddWindow n w := by
  have := oddWindow_odd n w
  omega

end Taurex.SeqSrc
