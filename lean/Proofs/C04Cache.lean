/-
  Helper lemma for the C04 statements about the configuration route of a served table (`TaurexModel/CacheConf.lean`,
  `CacheSM.lean`): looking up a name that was just appended to a dictionary not holding it.
-/
import TaurexModel.CacheConf

namespace Taurex.C04L
open Taurex.CacheSM

theorem lookup_append_new (d : List (String × Obj)) (o : Obj) (m : String) (h1 : hasKey d m = false) :
    lookup (d ++ [(m, o)]) m = some o := by
  unfold lookup
  unfold hasKey at h1
  rw [List.find?_append]
  have : d.find? (fun x => x.1 == m) = none := by
    rw [List.find?_eq_none]
    intro x hx
    have := List.any_eq_false.1 h1 x hx
    simpa using this
  rw [this]
  simp

end Taurex.C04L
