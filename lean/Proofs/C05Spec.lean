/-
  C05: facts about the specification `overlapMeanSpec` (overlap-weighted mean over all native bins).
-/
import Proofs.C05Basic

namespace Taurex.Binning
open List

theorem overlap_eq (a b : ℝ) (r : Row ℝ) : overlap a b r = max 0 (min b r.hi - max r.lo a) := by
  unfold overlap; rw [mx_eq_max, mn_eq_min, mx_eq_max]

theorem overlap_nonneg (a b : ℝ) (r : Row ℝ) : 0 ≤ overlap a b r := by
  rw [overlap_eq]; exact le_max_left _ _

/-- positive overlap means the two intervals really intersect in more than a point -/
theorem overlap_pos_iff (a b : ℝ) (r : Row ℝ) :
    0 < overlap a b r ↔ (a < r.hi ∧ r.lo < b ∧ a < b ∧ r.lo < r.hi) := by
  rw [overlap_eq]
  constructor
  · intro h
    have h' : 0 < min b r.hi - max r.lo a := by
      rcases lt_max_iff.1 h with h | h
      · exact absurd h (lt_irrefl 0)
      · exact h
    have h1 : max r.lo a < min b r.hi := by linarith
    have := le_max_left r.lo a; have := le_max_right r.lo a
    have := min_le_left b r.hi; have := min_le_right b r.hi
    refine ⟨by linarith, by linarith, by linarith, by linarith⟩
  · rintro ⟨h1, h2, h3, h4⟩
    have : max r.lo a < min b r.hi := by
      rw [max_lt_iff, lt_min_iff, lt_min_iff]; exact ⟨⟨h2, h4⟩, ⟨h3, h1⟩⟩
    exact lt_max_of_lt_right (by linarith)

theorem overlap_zero_of_hi_le (a b : ℝ) (r : Row ℝ) (h : r.hi ≤ a) : overlap a b r = 0 := by
  have h0 := overlap_nonneg a b r
  by_contra hne
  have : 0 < overlap a b r := lt_of_le_of_ne h0 (Ne.symm hne)
  have := (overlap_pos_iff a b r).1 this
  linarith [this.1]

theorem overlap_zero_of_le_lo (a b : ℝ) (r : Row ℝ) (h : b ≤ r.lo) : overlap a b r = 0 := by
  have h0 := overlap_nonneg a b r
  by_contra hne
  have : 0 < overlap a b r := lt_of_le_of_ne h0 (Ne.symm hne)
  have := (overlap_pos_iff a b r).1 this
  linarith [this.2.1]

/-- the specification in Mathlib's vocabulary -/
theorem overlapMeanSpec_eq (val : Row ℝ → ℝ) (rows : List (Row ℝ)) (a b : ℝ) :
    overlapMeanSpec val rows a b =
      (rows.map (fun r => overlap a b r * val r)).sum / (rows.map (overlap a b)).sum := by
  unfold overlapMeanSpec; rw [sumL_eq_sum, sumL_eq_sum]

theorem sum_overlap_nonneg (rows : List (Row ℝ)) (a b : ℝ) : 0 ≤ (rows.map (overlap a b)).sum :=
  List.sum_nonneg (by
    intro x hx
    obtain ⟨r, _, rfl⟩ := List.mem_map.1 hx
    exact overlap_nonneg a b r)

theorem spec_const (val : Row ℝ → ℝ) (rows : List (Row ℝ)) (a b k : ℝ)
    (hk : ∀ r ∈ rows, val r = k) (hpos : 0 < sumL (rows.map (overlap a b))) :
    overlapMeanSpec val rows a b = k := by
  rw [sumL_eq_sum] at hpos
  rw [overlapMeanSpec_eq]
  have : (rows.map (fun r => overlap a b r * val r)).sum = (rows.map (overlap a b)).sum * k := by
    rw [← List.sum_map_mul_right]
    congr 1
    apply List.map_congr_left
    intro r hr
    rw [hk r hr]
  rw [this, mul_comm, mul_div_assoc, div_self (ne_of_gt hpos), mul_one]

theorem spec_between (val : Row ℝ → ℝ) (rows : List (Row ℝ)) (a b m M : ℝ)
    (hb : ∀ r ∈ rows, 0 < overlap a b r → m ≤ val r ∧ val r ≤ M)
    (hpos : 0 < sumL (rows.map (overlap a b))) :
    m ≤ overlapMeanSpec val rows a b ∧ overlapMeanSpec val rows a b ≤ M := by
  rw [sumL_eq_sum] at hpos
  rw [overlapMeanSpec_eq]
  have hterm : ∀ r ∈ rows, overlap a b r * m ≤ overlap a b r * val r ∧
      overlap a b r * val r ≤ overlap a b r * M := by
    intro r hr
    rcases (overlap_nonneg a b r).eq_or_lt with h0 | hp
    · rw [← h0]; simp
    · have := hb r hr hp
      exact ⟨mul_le_mul_of_nonneg_left this.1 hp.le, mul_le_mul_of_nonneg_left this.2 hp.le⟩
  have hlo : (rows.map (overlap a b)).sum * m ≤ (rows.map (fun r => overlap a b r * val r)).sum := by
    rw [← List.sum_map_mul_right]
    exact List.sum_le_sum (fun r hr => (hterm r hr).1)
  have hhi : (rows.map (fun r => overlap a b r * val r)).sum ≤ (rows.map (overlap a b)).sum * M := by
    rw [← List.sum_map_mul_right]
    exact List.sum_le_sum (fun r hr => (hterm r hr).2)
  constructor
  · rw [le_div_iff₀ hpos]; linarith
  · rw [div_le_iff₀ hpos]; linarith

theorem spec_linear (x y : Row ℝ → ℝ) (rows : List (Row ℝ)) (a b k₁ k₂ : ℝ) :
    overlapMeanSpec (fun r => k₁ * x r + k₂ * y r) rows a b =
      k₁ * overlapMeanSpec x rows a b + k₂ * overlapMeanSpec y rows a b := by
  simp only [overlapMeanSpec_eq]
  have : (rows.map (fun r => overlap a b r * (k₁ * x r + k₂ * y r))).sum =
      k₁ * (rows.map (fun r => overlap a b r * x r)).sum + k₂ * (rows.map (fun r => overlap a b r * y r)).sum := by
    rw [← List.sum_map_mul_left, ← List.sum_map_mul_left, ← List.sum_map_add]
    congr 1
    apply List.map_congr_left
    intro r _
    ring
  rw [this]
  ring

end Taurex.Binning
