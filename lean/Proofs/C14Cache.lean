/-
  Helper lemmas for the cache state machine of C14 (core tactics only).
-/
import TaurexModel.CacheSM

namespace Taurex.CacheSM

/-! ### dictionary look-up -/

theorem hasKey_eq_isSome (d : List (String × Obj)) (m : String) : hasKey d m = (lookup d m).isSome := by
  unfold hasKey lookup
  induction d with
  | nil => rfl
  | cons e d ih =>
    simp only [List.any_cons, List.find?_cons]
    cases h : (e.1 == m) <;> simp_all

theorem lookup_append_some {d : List (String × Obj)} {m : String} {o : Obj} (e : List (String × Obj))
    (h : lookup d m = some o) : lookup (d ++ e) m = some o := by
  unfold lookup at *
  rw [List.find?_append]
  cases hf : d.find? (fun e => e.1 == m) with
  | none => simp [hf] at h
  | some x => simpa [hf] using h

theorem lookup_append_none {d : List (String × Obj)} {m : String} (e : List (String × Obj))
    (h : lookup d m = none) : lookup (d ++ e) m = lookup e m := by
  unfold lookup at *
  rw [List.find?_append]
  cases hf : d.find? (fun e => e.1 == m) with
  | none => simp
  | some x => simp [hf] at h

theorem lookup_single (k m : String) (o : Obj) : lookup [(k, o)] m = if k == m then some o else none := by
  unfold lookup
  simp only [List.find?_cons, List.find?_nil]
  cases (k == m) <;> rfl

/-- `d'` extends `d`: every entry that can be looked up in `d` is looked up unchanged in `d'` -/
def Ext (d d' : List (String × Obj)) : Prop := ∀ m o, lookup d m = some o → lookup d' m = some o

theorem Ext.refl (d : List (String × Obj)) : Ext d d := fun _ _ h => h
theorem Ext.trans {a b c : List (String × Obj)} (h1 : Ext a b) (h2 : Ext b c) : Ext a c :=
  fun m o h => h2 m o (h1 m o h)
theorem Ext.append (d e : List (String × Obj)) : Ext d (d ++ e) := fun _ _ h => lookup_append_some e h

/-! ### what one operation does to the components -/

theorem addOpacity_cases (s : CSt) (o : Obj) (f : Option String) :
    ((hasKey s.dict o.mol = true ∨ ∃ g, f = some g ∧ o.mol ≠ g) ∧ addOpacity s o f = s) ∨
      (hasKey s.dict o.mol = false ∧ (∀ g, f = some g → o.mol = g) ∧
        addOpacity s o f = { s with dict := s.dict ++ [(o.mol, o)] }) := by
  unfold addOpacity
  cases hk : hasKey s.dict o.mol
  · cases f with
    | none => right; simp
    | some g =>
      by_cases hg : (o.mol == g) = true
      · right
        refine ⟨rfl, ?_, by simp [hg]⟩
        intro g' hg'
        cases hg'
        simpa using hg
      · left
        refine ⟨Or.inr ⟨g, rfl, by simpa using hg⟩, by simp [hg]⟩
  · left; simp

theorem addOpacity_ext (s : CSt) (o : Obj) (f : Option String) : Ext s.dict (addOpacity s o f).dict := by
  rcases addOpacity_cases s o f with ⟨_, h⟩ | ⟨_, _, h⟩
  · rw [h]; exact Ext.refl _
  · rw [h]; exact Ext.append _ _

theorem addOpacity_fields (s : CSt) (o : Obj) (f : Option String) :
    (addOpacity s o f).path = s.path ∧ (addOpacity s o f).interp = s.interp ∧
    (addOpacity s o f).memMode = s.memMode ∧ (addOpacity s o f).log = s.log ∧
    (addOpacity s o f).nextId = s.nextId := by
  rcases addOpacity_cases s o f with ⟨_, h⟩ | ⟨_, _, h⟩ <;> rw [h] <;> simp

/-- the object the constructor call builds -/
def loadObj (s : CSt) (e : FileEntry) : Obj :=
  { id := s.nextId, mol := e.obj, mode := interpOr s,
    inMem := if e.fmt = Fmt.hdf then some (memOrTrue s.memMode) else none, src := some e.fileId }

/-- the state after the constructor call -/
def loadS1 (s : CSt) (m : String) (e : FileEntry) : CSt :=
  { s with nextId := s.nextId + 1, log := s.log ++ [(m, e.fileId)] }

theorem loadStep_eq (m : String) (s : CSt) (e : FileEntry) :
    loadStep m s e =
      if (e.disc == m && !hasKey s.dict e.disc) = true then
        (if (!hasKey s.dict e.obj) = true then addOpacity (loadS1 s m e) (loadObj s e) (some m) else loadS1 s m e)
      else s := rfl

theorem loadObj_inMem (s : CSt) (e : FileEntry) : (loadObj s e).inMem = none ∨ (loadObj s e).inMem = some true := by
  unfold loadObj
  by_cases hf : e.fmt = Fmt.hdf
  · right
    simp only [hf, if_true]
    cases s.memMode with
    | none => rfl
    | some b => cases b <;> rfl
  · left; simp [hf]

/-- the three possible outcomes of the loop body for one file -/
theorem loadStep_cases (m : String) (s : CSt) (e : FileEntry) :
    loadStep m s e = s ∨
    (e.disc = m ∧ hasKey s.dict m = false ∧
      (((hasKey s.dict e.obj = true ∨ e.obj ≠ m) ∧ loadStep m s e = loadS1 s m e) ∨
       (hasKey s.dict e.obj = false ∧ e.obj = m ∧
          loadStep m s e = { loadS1 s m e with dict := s.dict ++ [(e.obj, loadObj s e)] }))) := by
  rw [loadStep_eq]
  by_cases hc : (e.disc == m && !hasKey s.dict e.disc) = true
  · right
    simp only [hc, if_true]
    have hd : e.disc = m := by
      have := hc; simp only [Bool.and_eq_true, beq_iff_eq] at this; exact this.1
    have hk : hasKey s.dict m = false := by
      have := hc; simp only [Bool.and_eq_true, Bool.not_eq_true', beq_iff_eq] at this
      rw [← hd]; exact this.2
    refine ⟨hd, hk, ?_⟩
    by_cases hk2 : hasKey s.dict e.obj = true
    · left; exact ⟨Or.inl hk2, by simp [hk2]⟩
    · have hk2' : hasKey s.dict e.obj = false := by simpa using hk2
      simp only [hk2', Bool.not_false, if_true]
      rcases addOpacity_cases (loadS1 s m e) (loadObj s e) (some m) with ⟨hr, h⟩ | ⟨_, hg, h⟩
      · left
        refine ⟨?_, h⟩
        rcases hr with hr | ⟨g, hg1, hg2⟩
        · exact absurd (show hasKey s.dict e.obj = true from hr) hk2
        · cases hg1; exact Or.inr hg2
      · right
        exact ⟨trivial, hg m rfl, h⟩
  · left; simp [hc]

theorem loadStep_ext (m : String) (s : CSt) (e : FileEntry) : Ext s.dict (loadStep m s e).dict := by
  rcases loadStep_cases m s e with h | ⟨_, _, ⟨_, h⟩ | ⟨_, _, h⟩⟩
  · rw [h]; exact Ext.refl _
  · rw [h]; exact Ext.refl _
  · rw [h]; exact Ext.append _ _

theorem loadStep_fields (m : String) (s : CSt) (e : FileEntry) :
    (loadStep m s e).path = s.path ∧ (loadStep m s e).interp = s.interp ∧
    (loadStep m s e).memMode = s.memMode := by
  rcases loadStep_cases m s e with h | ⟨_, _, ⟨_, h⟩ | ⟨_, _, h⟩⟩ <;> rw [h] <;> exact ⟨rfl, rfl, rfl⟩

theorem foldl_loadStep_ext (m : String) (fl : List FileEntry) (s : CSt) :
    Ext s.dict (fl.foldl (loadStep m) s).dict := by
  induction fl generalizing s with
  | nil => exact Ext.refl _
  | cons e fl ih => exact Ext.trans (loadStep_ext m s e) (ih _)

theorem foldl_loadStep_fields (m : String) (fl : List FileEntry) (s : CSt) :
    (fl.foldl (loadStep m) s).path = s.path ∧ (fl.foldl (loadStep m) s).interp = s.interp ∧
    (fl.foldl (loadStep m) s).memMode = s.memMode := by
  induction fl generalizing s with
  | nil => exact ⟨rfl, rfl, rfl⟩
  | cons e fl ih =>
    obtain ⟨a, b, c⟩ := ih (loadStep m s e)
    obtain ⟨a', b', c'⟩ := loadStep_fields m s e
    exact ⟨a.trans a', b.trans b', c.trans c'⟩

/-! ### `get` -/

theorem step_get (fs : List Dir) (s : CSt) (m : String) :
    step fs s (.get m) =
      match lookup s.dict m with
      | some o => (s, .served o)
      | none =>
        match lookup (loadFrom fs m s).dict m with
        | some o => (loadFrom fs m s, .served o)
        | none => (loadFrom fs m s, .missing) := rfl

theorem step_setPath (fs : List Dir) (s : CSt) (p : Nat) :
    (step fs s (.setPath p)).1 = { s with path := some p } := by
  simp only [step]
  cases fs[p]? with
  | none => rfl
  | some d => cases hd : d.isDir <;> simp [hd]

theorem step_get_hit {fs : List Dir} {s : CSt} {m : String} {o : Obj} (h : lookup s.dict m = some o) :
    step fs s (.get m) = (s, .served o) := by
  rw [step_get]; simp only [h]

/-- the state after a `get` is the state before it, or that state after the directory scan -/
theorem step_get_state (fs : List Dir) (s : CSt) (m : String) :
    (step fs s (.get m)).1 = s ∨ (step fs s (.get m)).1 = loadFrom fs m s := by
  rw [step_get]
  cases lookup s.dict m with
  | some o1 => left; rfl
  | none => right; cases lookup (loadFrom fs m s).dict m <;> rfl

theorem step_get_served {fs : List Dir} {s : CSt} {m : String} {o : Obj}
    (h : (step fs s (.get m)).2 = .served o) : lookup (step fs s (.get m)).1.dict m = some o := by
  rw [step_get] at *
  cases h1 : lookup s.dict m with
  | some o1 =>
    simp only [h1] at h ⊢
    cases h; rfl
  | none =>
    simp only [h1] at h ⊢
    cases h2 : lookup (loadFrom fs m s).dict m with
    | some o2 => simp only [h2] at h ⊢; cases h; rfl
    | none => simp only [h2] at h; cases h

theorem step_get_interp (fs : List Dir) (s : CSt) (m : String) :
    (step fs s (.get m)).1.interp = s.interp := by
  rcases step_get_state fs s m with h | h <;> rw [h]
  exact (foldl_loadStep_fields m (curFiles fs s) s).2.1

theorem step_ext (fs : List Dir) (s : CSt) (op : COp) (h : op.clears = false) :
    Ext s.dict (step fs s op).1.dict := by
  cases op with
  | get m =>
    rcases step_get_state fs s m with h | h <;> rw [h]
    · exact Ext.refl _
    · exact foldl_loadStep_ext m (curFiles fs s) s
  | setPath p => rw [step_setPath]; exact Ext.refl _
  | setInterp k => cases h
  | setMem b => cases h
  | clear => cases h
  | add m k => exact addOpacity_ext { s with nextId := s.nextId + 1 } _ _

theorem run_ext (fs : List Dir) (ops : List COp) (s : CSt) (h : ∀ op ∈ ops, op.clears = false) :
    Ext s.dict (run fs s ops).dict := by
  induction ops generalizing s with
  | nil => exact Ext.refl _
  | cons op ops ih =>
    have h1 := step_ext fs s op (h op (by simp))
    have h2 := ih (step fs s op).1 (fun o ho => h o (by simp [ho]))
    exact Ext.trans h1 (by simpa [run] using h2)

/-! ### the interpolation-mode invariant -/

/-- every cached object that came from a file has the configured interpolation mode -/
def ModeInv (s : CSt) : Prop := ∀ e ∈ s.dict, e.2.src ≠ none → e.2.mode = interpOr s

theorem loadStep_modeInv (m : String) (s : CSt) (e : FileEntry) (h : ModeInv s) : ModeInv (loadStep m s e) := by
  rcases loadStep_cases m s e with h1 | ⟨_, _, ⟨_, h1⟩ | ⟨_, _, h1⟩⟩
  · rw [h1]; exact h
  · rw [h1]; exact h
  · rw [h1]
    intro x hx hsrc
    have hx' : x ∈ s.dict ++ [(e.obj, loadObj s e)] := hx
    simp only [List.mem_append, List.mem_singleton] at hx'
    rcases hx' with hx' | hx'
    · exact h x hx' hsrc
    · subst hx'; rfl

theorem foldl_loadStep_modeInv (m : String) (fl : List FileEntry) (s : CSt) (h : ModeInv s) :
    ModeInv (fl.foldl (loadStep m) s) := by
  induction fl generalizing s with
  | nil => exact h
  | cons e fl ih => exact ih _ (loadStep_modeInv m s e h)

theorem step_modeInv (fs : List Dir) (s : CSt) (op : COp) (h : ModeInv s) : ModeInv (step fs s op).1 := by
  cases op with
  | get m =>
    rcases step_get_state fs s m with h' | h' <;> rw [h']
    · exact h
    · exact foldl_loadStep_modeInv m (curFiles fs s) s h
  | setPath p => rw [step_setPath]; exact h
  | setInterp k => intro e he; simp [step] at he
  | setMem b => intro e he; simp [step] at he
  | clear => intro e he; simp [step] at he
  | add m k =>
    show ModeInv (addOpacity { s with nextId := s.nextId + 1 }
      { id := s.nextId, mol := m, mode := k, inMem := none, src := none } none)
    rcases addOpacity_cases { s with nextId := s.nextId + 1 }
      { id := s.nextId, mol := m, mode := k, inMem := none, src := none } none with ⟨_, h1⟩ | ⟨_, _, h1⟩
    · rw [h1]; exact h
    · rw [h1]
      intro x hx hsrc
      have hx' : x ∈ s.dict ++ [(m, { id := s.nextId, mol := m, mode := k, inMem := none, src := none })] := hx
      simp only [List.mem_append, List.mem_singleton] at hx'
      rcases hx' with hx' | hx'
      · exact h x hx' hsrc
      · subst hx'; exact absurd rfl hsrc

theorem step_interp_of_not_setInterp (fs : List Dir) (s : CSt) (op : COp) (h : ∀ k, op ≠ .setInterp k) :
    (step fs s op).1.interp = s.interp := by
  cases op with
  | get m => exact step_get_interp fs s m
  | setPath p => rw [step_setPath]
  | setInterp k => exact absurd rfl (h k)
  | setMem b => rfl
  | clear => rfl
  | add m k => exact (addOpacity_fields _ _ _).2.1

theorem run_modeInv (fs : List Dir) (ops : List COp) (s : CSt) (h : ModeInv s) : ModeInv (run fs s ops) := by
  induction ops generalizing s with
  | nil => exact h
  | cons op ops ih => simpa [run] using ih (step fs s op).1 (step_modeInv fs s op h)

theorem run_interp (fs : List Dir) (ops : List COp) (s : CSt) (h : ∀ op ∈ ops, ∀ k, op ≠ .setInterp k) :
    (run fs s ops).interp = s.interp := by
  induction ops generalizing s with
  | nil => rfl
  | cons op ops ih =>
    have h1 := step_interp_of_not_setInterp fs s op (h op (by simp))
    have h2 := ih (step fs s op).1 (fun o ho => h o (by simp [ho]))
    simpa [run, h1] using h2

theorem lookup_mem {d : List (String × Obj)} {m : String} {o : Obj} (h : lookup d m = some o) :
    ∃ e ∈ d, e.2 = o := by
  unfold lookup at h
  cases hf : d.find? (fun e => e.1 == m) with
  | none => simp [hf] at h
  | some x =>
    simp only [hf, Option.map_some, Option.some.injEq] at h
    exact ⟨x, List.mem_of_find?_eq_some hf, h⟩

/-! ### load counting -/

/-- loads of `m` so far, plus one while `m` is not cached: never increases between clears -/
def pot (s : CSt) (m : String) : Nat := loadsOf s m + (if hasKey s.dict m then 0 else 1)

theorem hasKey_mono {d d' : List (String × Obj)} (h : Ext d d') {m : String} (hk : hasKey d m = true) :
    hasKey d' m = true := by
  rw [hasKey_eq_isSome] at *
  cases hl : lookup d m with
  | none => simp [hl] at hk
  | some o => simp [h m o hl]

theorem loadsOf_append (s : CSt) (m m' : String) (f : Nat) (l : List (String × Nat)) (hl : l = s.log ++ [(m', f)]) :
    ((l.filter (fun e => e.1 == m)).length) = loadsOf s m + (if m' == m then 1 else 0) := by
  subst hl
  unfold loadsOf
  rw [List.filter_append, List.length_append]
  cases h : (m' == m) <;> simp [h]

theorem pot_le_of_ext {s s' : CSt} {m : String} (hl : s'.log = s.log) (he : Ext s.dict s'.dict) :
    pot s' m ≤ pot s m := by
  unfold pot loadsOf
  rw [hl]
  cases hk : hasKey s.dict m
  · cases hasKey s'.dict m <;> simp
  · rw [hasKey_mono he hk]; simp

theorem loadStep_pot (m' m : String) (s : CSt) (e : FileEntry) (hc : e.obj = e.disc) :
    pot (loadStep m' s e) m ≤ pot s m := by
  rcases loadStep_cases m' s e with h1 | ⟨hd, hk, ⟨hr, h1⟩ | ⟨hk2, hobj, h1⟩⟩
  · rw [h1]; exact Nat.le_refl _
  · -- constructed but not inserted: impossible for a file whose object carries the advertised name
    exfalso
    have hobj : e.obj = m' := hc.trans hd
    rcases hr with hr | hr
    · rw [hobj, hk] at hr; cases hr
    · exact hr hobj
  · rw [h1]
    unfold pot
    show loadsOf { loadS1 s m' e with dict := s.dict ++ [(e.obj, loadObj s e)] } m +
        (if hasKey (s.dict ++ [(e.obj, loadObj s e)]) m = true then 0 else 1) ≤ _
    have hlog : loadsOf { loadS1 s m' e with dict := s.dict ++ [(e.obj, loadObj s e)] } m
        = loadsOf s m + (if m' == m then 1 else 0) := loadsOf_append s m m' e.fileId _ rfl
    rw [hlog]
    by_cases hm : m' = m
    · subst hm
      have hk' : hasKey (s.dict ++ [(e.obj, loadObj s e)]) m' = true := by
        rw [hasKey_eq_isSome]
        have hn : lookup s.dict m' = none := by
          rw [hasKey_eq_isSome] at hk
          cases hl : lookup s.dict m' with
          | none => rfl
          | some x => simp [hl] at hk
        rw [lookup_append_none _ hn, lookup_single]
        simp [hobj]
      simp [hk', hk]
    · have hne : (m' == m) = false := by simpa using hm
      simp only [hne]
      cases hkm : hasKey s.dict m
      · cases hasKey (s.dict ++ [(e.obj, loadObj s e)]) m <;> simp
      · rw [hasKey_mono (Ext.append _ _) hkm]; simp

theorem foldl_loadStep_pot (m' m : String) (fl : List FileEntry) (s : CSt) (hc : ∀ e ∈ fl, e.obj = e.disc) :
    pot (fl.foldl (loadStep m') s) m ≤ pot s m := by
  induction fl generalizing s with
  | nil => exact Nat.le_refl _
  | cons e fl ih =>
    exact Nat.le_trans (ih _ (fun x hx => hc x (by simp [hx]))) (loadStep_pot m' m s e (hc e (by simp)))

theorem curFiles_consistent {fs : List Dir} (hc : consistent fs) (s : CSt) : ∀ e ∈ curFiles fs s, e.obj = e.disc := by
  intro e he
  unfold curFiles at he
  cases hp : s.path with
  | none => simp [hp] at he
  | some p =>
    simp only [hp] at he
    cases hd : fs[p]? with
    | none => simp [hd] at he
    | some d =>
      simp only [hd] at he
      have hmem : d ∈ fs := List.mem_of_getElem? hd
      by_cases hdir : d.isDir = true
      · simp only [hdir, if_true] at he
        exact hc d hmem e he
      · simp [hdir] at he

theorem step_pot (fs : List Dir) (hc : consistent fs) (s : CSt) (op : COp) (h : op.clears = false) (m : String) :
    pot (step fs s op).1 m ≤ pot s m := by
  cases op with
  | get m' =>
    rcases step_get_state fs s m' with h' | h' <;> rw [h']
    · exact Nat.le_refl _
    · exact foldl_loadStep_pot m' m (curFiles fs s) s (curFiles_consistent hc s)
  | setPath p => rw [step_setPath]; exact Nat.le_refl _
  | setInterp k => cases h
  | setMem b => cases h
  | clear => cases h
  | add m' k =>
    apply pot_le_of_ext
    · exact (addOpacity_fields _ _ _).2.2.2.1
    · exact addOpacity_ext { s with nextId := s.nextId + 1 } _ _

theorem run_pot (fs : List Dir) (hc : consistent fs) (ops : List COp) (s : CSt)
    (h : ∀ op ∈ ops, op.clears = false) (m : String) : pot (run fs s ops) m ≤ pot s m := by
  induction ops generalizing s with
  | nil => exact Nat.le_refl _
  | cons op ops ih =>
    have h1 := step_pot fs hc s op (h op (by simp)) m
    have h2 := ih (step fs s op).1 (fun o ho => h o (by simp [ho]))
    exact Nat.le_trans (by simpa [run] using h2) h1

/-! ### a missing molecule -/

theorem foldl_loadStep_none (m : String) (fl : List FileEntry) (s : CSt) (h : ∀ e ∈ fl, e.disc ≠ m) :
    fl.foldl (loadStep m) s = s := by
  induction fl generalizing s with
  | nil => rfl
  | cons e fl ih =>
    have he : loadStep m s e = s := by
      rw [loadStep_eq]
      have : (e.disc == m) = false := by simpa using h e (by simp)
      simp [this]
    simp only [List.foldl_cons, he]
    exact ih s (fun x hx => h x (by simp [hx]))

/-! ### what is served is a fresh load of the configured directory (history freedom) -/

/-- the file a load of `m` picks in a directory listing: the first one advertising `m` -/
def firstMatch (fl : List FileEntry) (m : String) : Option FileEntry := fl.find? (fun e => e.disc == m)

/-- `o` is, as a table, what loading file `e` under the configuration of `s` gives for molecule `k`:
    the file, the interpolation mode, the name and the memory flag (everything but the identity) -/
def FromFile (s : CSt) (e : FileEntry) (k : String) (o : Obj) : Prop :=
  o.src = some e.fileId ∧ o.mode = interpOr s ∧ o.mol = k ∧
    o.inMem = (if e.fmt = Fmt.hdf then some (memOrTrue s.memMode) else none)

/-- every cached object that came from a file is the fresh load of its molecule from the configured path -/
def PathInv (fs : List Dir) (s : CSt) : Prop :=
  ∀ x ∈ s.dict, x.2.src ≠ none → ∃ e, firstMatch (curFiles fs s) x.1 = some e ∧ FromFile s e x.1 x.2

theorem lookup_mem_key {d : List (String × Obj)} {m : String} {o : Obj} (h : lookup d m = some o) :
    (m, o) ∈ d := by
  unfold lookup at h
  cases hf : d.find? (fun e => e.1 == m) with
  | none => simp [hf] at h
  | some x =>
    simp only [hf, Option.map_some, Option.some.injEq] at h
    have hp := List.find?_some hf
    have hm := List.mem_of_find?_eq_some hf
    obtain ⟨k, o'⟩ := x
    simp only [beq_iff_eq] at hp
    simp only at h
    subst hp; subst h; exact hm

theorem lookup_none_of_hasKey {d : List (String × Obj)} {m : String} (h : hasKey d m = false) : lookup d m = none := by
  rw [hasKey_eq_isSome] at h
  cases hl : lookup d m with
  | none => rfl
  | some x => simp [hl] at h

theorem hasKey_false_of_lookup {d : List (String × Obj)} {m : String} (h : lookup d m = none) : hasKey d m = false := by
  rw [hasKey_eq_isSome, h]; rfl

theorem foldl_loadStep_hasKey (m : String) (fl : List FileEntry) (s : CSt) (h : hasKey s.dict m = true) :
    fl.foldl (loadStep m) s = s := by
  induction fl with
  | nil => rfl
  | cons e fl ih =>
    have he : loadStep m s e = s := by
      rw [loadStep_eq]
      by_cases hd : e.disc = m
      · subst hd; simp [h]
      · have : (e.disc == m) = false := by simpa using hd
        simp [this]
    simp only [List.foldl_cons, he]
    exact ih

/-- a matching file whose object carries the advertised name is constructed and inserted -/
theorem loadStep_insert (m : String) (s : CSt) (e : FileEntry) (hd : e.disc = m) (hobj : e.obj = e.disc)
    (hk : hasKey s.dict m = false) :
    loadStep m s e = { loadS1 s m e with dict := s.dict ++ [(m, loadObj s e)] } := by
  have hobj' : e.obj = m := hobj.trans hd
  rw [loadStep_eq]
  have hk1 : hasKey s.dict e.disc = false := by rw [hd]; exact hk
  have hk2 : hasKey s.dict e.obj = false := by rw [hobj']; exact hk
  have hk3 : hasKey (loadS1 s m e).dict (loadObj s e).mol = false := hk2
  have hmol : ((loadObj s e).mol == m) = true := by simp [loadObj, hobj']
  simp only [hd, hk, beq_self_eq_true, Bool.not_false, Bool.and_self, if_true, hk2, addOpacity, hk3, hmol]
  simp [loadObj, loadS1, hobj']

/-- the whole directory scan for a molecule that is not cached -/
theorem loadFrom_spec (m : String) (fl : List FileEntry) (s : CSt) (hc : ∀ e ∈ fl, e.obj = e.disc)
    (hk : hasKey s.dict m = false) :
    (firstMatch fl m = none ∧ fl.foldl (loadStep m) s = s) ∨
    (∃ e, firstMatch fl m = some e ∧
      fl.foldl (loadStep m) s = { loadS1 s m e with dict := s.dict ++ [(m, loadObj s e)] }) := by
  cases hf : firstMatch fl m with
  | none =>
    left
    refine ⟨rfl, foldl_loadStep_none m fl s ?_⟩
    intro e he hd
    have := (List.find?_eq_none.mp hf) e he
    simp [hd] at this
  | some e =>
    right
    refine ⟨e, rfl, ?_⟩
    obtain ⟨hp, pre, post, hfl, hpre⟩ := List.find?_eq_some_iff_append.mp hf
    have hd : e.disc = m := by simpa using hp
    have hmem : e ∈ fl := by rw [hfl]; simp
    rw [hfl, List.foldl_append, List.foldl_cons]
    rw [foldl_loadStep_none m pre s (by
      intro x hx hdx
      have := hpre x hx
      simp [hdx] at this)]
    rw [loadStep_insert m s e hd (hc e hmem) hk]
    apply foldl_loadStep_hasKey
    rw [hasKey_eq_isSome]
    show (lookup (s.dict ++ [(m, loadObj s e)]) m).isSome = true
    rw [lookup_append_none _ (lookup_none_of_hasKey hk), lookup_single]
    simp

theorem loadObj_fromFile (s : CSt) (e : FileEntry) : FromFile s e e.obj (loadObj s e) := ⟨rfl, rfl, rfl, rfl⟩

theorem curFiles_congr (fs : List Dir) {s s' : CSt} (h : s'.path = s.path) : curFiles fs s' = curFiles fs s := by
  unfold curFiles; rw [h]

theorem fromFile_congr {s s' : CSt} (hi : s'.interp = s.interp) (hm : s'.memMode = s.memMode) {e : FileEntry}
    {k : String} {o : Obj} (h : FromFile s e k o) : FromFile s' e k o := by
  unfold FromFile interpOr at *
  rw [hi, hm]; exact h

/-- result of a `get` in a state satisfying the invariant: served objects that came from a file are the fresh load
    of the first matching file of the configured directory -/
theorem step_get_fromFile (fs : List Dir) (hc : consistent fs) (s : CSt) (hinv : PathInv fs s) (m : String) (o : Obj)
    (h : (step fs s (.get m)).2 = .served o) (hsrc : o.src ≠ none) :
    ∃ e, firstMatch (curFiles fs s) m = some e ∧ FromFile s e m o := by
  rw [step_get] at h
  cases h1 : lookup s.dict m with
  | some o1 =>
    simp only [h1] at h
    cases h
    exact hinv (m, o) (lookup_mem_key h1) hsrc
  | none =>
    simp only [h1] at h
    rcases loadFrom_spec m (curFiles fs s) s (curFiles_consistent hc s) (hasKey_false_of_lookup h1) with
      ⟨_, hs⟩ | ⟨e, hfm, hs⟩
    · have : loadFrom fs m s = s := hs
      rw [this, h1] at h; cases h
    · have hs' : loadFrom fs m s = { loadS1 s m e with dict := s.dict ++ [(m, loadObj s e)] } := hs
      have hl : lookup (loadFrom fs m s).dict m = some (loadObj s e) := by
        rw [hs']
        show lookup (s.dict ++ [(m, loadObj s e)]) m = _
        rw [lookup_append_none _ h1, lookup_single]; simp
      rw [hl] at h
      cases h
      have hd : e.disc = m := by
        have := List.find?_some hfm; simpa using this
      have hobj : e.obj = m := (curFiles_consistent hc s e (List.mem_of_find?_eq_some hfm)).trans hd
      exact ⟨e, hfm, hobj ▸ loadObj_fromFile s e⟩

theorem step_pathInv (fs : List Dir) (hc : consistent fs) (s : CSt) (op : COp) (hop : ∀ p, op ≠ .setPath p)
    (hinv : PathInv fs s) : PathInv fs (step fs s op).1 := by
  cases op with
  | get m =>
    rw [step_get]
    cases h1 : lookup s.dict m with
    | some o1 => exact hinv
    | none =>
      simp only
      have hstate : ∀ s', (match lookup (loadFrom fs m s).dict m with
          | some o => (loadFrom fs m s, Resp.served o)
          | none => (loadFrom fs m s, Resp.missing)).1 = s' → s' = loadFrom fs m s := by
        intro s' hs'; cases hl : lookup (loadFrom fs m s).dict m <;> simp [hl] at hs' <;> exact hs'.symm
      rw [hstate _ rfl]
      rcases loadFrom_spec m (curFiles fs s) s (curFiles_consistent hc s) (hasKey_false_of_lookup h1) with
        ⟨_, hs⟩ | ⟨e, hfm, hs⟩
      · have : loadFrom fs m s = s := hs
        rw [this]; exact hinv
      · have hs' : loadFrom fs m s = { loadS1 s m e with dict := s.dict ++ [(m, loadObj s e)] } := hs
        rw [hs']
        intro x hx hsrc
        have hx' : x ∈ s.dict ++ [(m, loadObj s e)] := hx
        rw [List.mem_append, List.mem_singleton] at hx'
        have hcf : curFiles fs { loadS1 s m e with dict := s.dict ++ [(m, loadObj s e)] } = curFiles fs s :=
          curFiles_congr fs rfl
        rw [hcf]
        rcases hx' with hx' | hx'
        · obtain ⟨e', h1', h2'⟩ := hinv x hx' hsrc
          exact ⟨e', h1', fromFile_congr rfl rfl h2'⟩
        · subst hx'
          have hd : e.disc = m := by
            have := List.find?_some hfm; simpa using this
          have hobj : e.obj = m := (curFiles_consistent hc s e (List.mem_of_find?_eq_some hfm)).trans hd
          exact ⟨e, hfm, fromFile_congr rfl rfl (hobj ▸ loadObj_fromFile s e)⟩
  | setPath p => exact absurd rfl (hop p)
  | setInterp k => intro x hx; simp [step] at hx
  | setMem b => intro x hx; simp [step] at hx
  | clear => intro x hx; simp [step] at hx
  | add m k =>
    show PathInv fs (addOpacity { s with nextId := s.nextId + 1 }
      { id := s.nextId, mol := m, mode := k, inMem := none, src := none } none)
    rcases addOpacity_cases { s with nextId := s.nextId + 1 }
      { id := s.nextId, mol := m, mode := k, inMem := none, src := none } none with ⟨_, h1⟩ | ⟨_, _, h1⟩
    · rw [h1]
      intro x hx hsrc
      obtain ⟨e', h1', h2'⟩ := hinv x hx hsrc
      exact ⟨e', h1', fromFile_congr rfl rfl h2'⟩
    · rw [h1]
      intro x hx hsrc
      have hx' : x ∈ s.dict ++ [(m, { id := s.nextId, mol := m, mode := k, inMem := none, src := none })] := hx
      rw [List.mem_append, List.mem_singleton] at hx'
      rcases hx' with hx' | hx'
      · obtain ⟨e', h1', h2'⟩ := hinv x hx' hsrc
        exact ⟨e', h1', fromFile_congr rfl rfl h2'⟩
      · subst hx'; exact absurd rfl hsrc

theorem run_pathInv (fs : List Dir) (hc : consistent fs) (ops : List COp) (s : CSt)
    (hops : ∀ op ∈ ops, ∀ p, op ≠ .setPath p) (hinv : PathInv fs s) : PathInv fs (run fs s ops) := by
  induction ops generalizing s with
  | nil => exact hinv
  | cons op ops ih =>
    have h1 := step_pathInv fs hc s op (hops op (by simp)) hinv
    simpa [run] using ih (step fs s op).1 (fun o ho => hops o (by simp [ho])) h1

theorem pathInv_of_clears (fs : List Dir) (s : CSt) (c : COp) (h : c.clears = true) : PathInv fs (step fs s c).1 := by
  cases c with
  | get m => cases h
  | setPath p => cases h
  | setInterp k => intro x hx; simp [step] at hx
  | setMem b => intro x hx; simp [step] at hx
  | clear => intro x hx; simp [step] at hx
  | add m k => cases h

/-- a `get` on an empty cache serves the fresh load of the first matching file -/
theorem step_get_fresh (fs : List Dir) (hc : consistent fs) (s : CSt) (hd : s.dict = []) (m : String) (e : FileEntry)
    (hfm : firstMatch (curFiles fs s) m = some e) : (step fs s (.get m)).2 = .served (loadObj s e) := by
  have h1 : lookup s.dict m = none := by rw [hd]; rfl
  rw [step_get]
  simp only [h1]
  rcases loadFrom_spec m (curFiles fs s) s (curFiles_consistent hc s) (hasKey_false_of_lookup h1) with
    ⟨hnone, _⟩ | ⟨e', hfm', hs⟩
  · rw [hfm] at hnone; cases hnone
  · rw [hfm] at hfm'
    cases hfm'
    have hs' : loadFrom fs m s = { loadS1 s m e with dict := s.dict ++ [(m, loadObj s e)] } := hs
    have hl : lookup (loadFrom fs m s).dict m = some (loadObj s e) := by
      rw [hs']
      show lookup (s.dict ++ [(m, loadObj s e)]) m = _
      rw [lookup_append_none _ h1, lookup_single]; simp
    rw [hl]

end Taurex.CacheSM
