/-
  Helper lemmas for the cache state machine of C14 (core tactics only).
-/
import TaurexModel.CacheSM

namespace Taurex.CacheSM

/-! ### dictionary look-up -/

theorem hasKey_eq_isSome (d : List (String × Obj)) (m : String) : hasKey d m = (lookup d m).isSome := by
  unfold hasKey lookup
  induction d with
  | nil => rfl
  | cons e d ih =>
    simp only [List.any_cons, List.find?_cons]
    cases h : (e.1 == m) <;> simp_all

theorem lookup_append_some {d : List (String × Obj)} {m : String} {o : Obj} (e : List (String × Obj))
    (h : lookup d m = some o) : lookup (d ++ e) m = some o := by
  unfold lookup at *
  rw [List.find?_append]
  cases hf : d.find? (fun e => e.1 == m) with
  | none => simp [hf] at h
  | some x => simpa [hf] using h

theorem lookup_append_none {d : List (String × Obj)} {m : String} (e : List (String × Obj))
    (h : lookup d m = none) : lookup (d ++ e) m = lookup e m := by
  unfold lookup at *
  rw [List.find?_append]
  cases hf : d.find? (fun e => e.1 == m) with
  | none => simp
  | some x => simp [hf] at h

theorem lookup_single (k m : String) (o : Obj) : lookup [(k, o)] m = if k == m then some o else none := by
  unfold lookup
  simp only [List.find?_cons, List.find?_nil]
  cases (k == m) <;> rfl

/-- `d'` extends `d`: every entry that can be looked up in `d` is looked up unchanged in `d'` -/
def Ext (d d' : List (String × Obj)) : Prop := ∀ m o, lookup d m = some o → lookup d' m = some o

theorem Ext.refl (d : List (String × Obj)) : Ext d d := fun _ _ h => h
theorem Ext.trans {a b c : List (String × Obj)} (h1 : Ext a b) (h2 : Ext b c) : Ext a c :=
  fun m o h => h2 m o (h1 m o h)
theorem Ext.append (d e : List (String × Obj)) : Ext d (d ++ e) := fun _ _ h => lookup_append_some e h

/-! ### what one operation does to the components -/

theorem addOpacity_cases (s : CSt) (o : Obj) (f : Option String) :
    ((hasKey s.dict o.mol = true ∨ ∃ g, f = some g ∧ o.mol ≠ g) ∧ addOpacity s o f = s) ∨
      (hasKey s.dict o.mol = false ∧ (∀ g, f = some g → o.mol = g) ∧
        addOpacity s o f = { s with dict := s.dict ++ [(o.mol, o)] }) := by
  unfold addOpacity
  cases hk : hasKey s.dict o.mol
  · cases f with
    | none => right; simp
    | some g =>
      by_cases hg : (o.mol == g) = true
      · right
        refine ⟨rfl, ?_, by simp [hg]⟩
        intro g' hg'
        cases hg'
        simpa using hg
      · left
        refine ⟨Or.inr ⟨g, rfl, by simpa using hg⟩, by simp [hg]⟩
  · left; simp

theorem addOpacity_ext (s : CSt) (o : Obj) (f : Option String) : Ext s.dict (addOpacity s o f).dict := by
  rcases addOpacity_cases s o f with ⟨_, h⟩ | ⟨_, _, h⟩
  · rw [h]; exact Ext.refl _
  · rw [h]; exact Ext.append _ _

theorem addOpacity_fields (s : CSt) (o : Obj) (f : Option String) :
    (addOpacity s o f).path = s.path ∧ (addOpacity s o f).interp = s.interp ∧
    (addOpacity s o f).memMode = s.memMode ∧ (addOpacity s o f).log = s.log ∧
    (addOpacity s o f).nextId = s.nextId := by
  rcases addOpacity_cases s o f with ⟨_, h⟩ | ⟨_, _, h⟩ <;> rw [h] <;> simp

/-- the object the constructor call builds -/
def loadObj (s : CSt) (e : FileEntry) : Obj :=
  { id := s.nextId, mol := e.obj, mode := interpOr s,
    inMem := if e.fmt = Fmt.hdf then some (memOrTrue s.memMode) else none, src := some e.fileId }

/-- the state after the constructor call -/
def loadS1 (s : CSt) (m : String) (e : FileEntry) : CSt :=
  { s with nextId := s.nextId + 1, log := s.log ++ [(m, e.fileId)] }

theorem loadStep_eq (m : String) (s : CSt) (e : FileEntry) :
    loadStep m s e =
      if (e.disc == m && !hasKey s.dict e.disc) = true then
        (if (!hasKey s.dict e.obj) = true then addOpacity (loadS1 s m e) (loadObj s e) (some m) else loadS1 s m e)
      else s := rfl

theorem loadObj_inMem (s : CSt) (e : FileEntry) : (loadObj s e).inMem = none ∨ (loadObj s e).inMem = some true := by
  unfold loadObj
  by_cases hf : e.fmt = Fmt.hdf
  · right
    simp only [hf, if_true]
    cases s.memMode with
    | none => rfl
    | some b => cases b <;> rfl
  · left; simp [hf]

/-- the three possible outcomes of the loop body for one file -/
theorem loadStep_cases (m : String) (s : CSt) (e : FileEntry) :
    loadStep m s e = s ∨
    (e.disc = m ∧ hasKey s.dict m = false ∧
      (((hasKey s.dict e.obj = true ∨ e.obj ≠ m) ∧ loadStep m s e = loadS1 s m e) ∨
       (hasKey s.dict e.obj = false ∧ e.obj = m ∧
          loadStep m s e = { loadS1 s m e with dict := s.dict ++ [(e.obj, loadObj s e)] }))) := by
  rw [loadStep_eq]
  by_cases hc : (e.disc == m && !hasKey s.dict e.disc) = true
  · right
    simp only [hc, if_true]
    have hd : e.disc = m := by
      have := hc; simp only [Bool.and_eq_true, beq_iff_eq] at this; exact this.1
    have hk : hasKey s.dict m = false := by
      have := hc; simp only [Bool.and_eq_true, Bool.not_eq_true', beq_iff_eq] at this
      rw [← hd]; exact this.2
    refine ⟨hd, hk, ?_⟩
    by_cases hk2 : hasKey s.dict e.obj = true
    · left; exact ⟨Or.inl hk2, by simp [hk2]⟩
    · have hk2' : hasKey s.dict e.obj = false := by simpa using hk2
      simp only [hk2', Bool.not_false, if_true]
      rcases addOpacity_cases (loadS1 s m e) (loadObj s e) (some m) with ⟨hr, h⟩ | ⟨_, hg, h⟩
      · left
        refine ⟨?_, h⟩
        rcases hr with hr | ⟨g, hg1, hg2⟩
        · exact absurd (show hasKey s.dict e.obj = true from hr) hk2
        · cases hg1; exact Or.inr hg2
      · right
        exact ⟨trivial, hg m rfl, h⟩
  · left; simp [hc]

theorem loadStep_ext (m : String) (s : CSt) (e : FileEntry) : Ext s.dict (loadStep m s e).dict := by
  rcases loadStep_cases m s e with h | ⟨_, _, ⟨_, h⟩ | ⟨_, _, h⟩⟩
  · rw [h]; exact Ext.refl _
  · rw [h]; exact Ext.refl _
  · rw [h]; exact Ext.append _ _

theorem loadStep_fields (m : String) (s : CSt) (e : FileEntry) :
    (loadStep m s e).path = s.path ∧ (loadStep m s e).interp = s.interp ∧
    (loadStep m s e).memMode = s.memMode := by
  rcases loadStep_cases m s e with h | ⟨_, _, ⟨_, h⟩ | ⟨_, _, h⟩⟩ <;> rw [h] <;> exact ⟨rfl, rfl, rfl⟩

theorem foldl_loadStep_ext (m : String) (fl : List FileEntry) (s : CSt) :
    Ext s.dict (fl.foldl (loadStep m) s).dict := by
  induction fl generalizing s with
  | nil => exact Ext.refl _
  | cons e fl ih => exact Ext.trans (loadStep_ext m s e) (ih _)

theorem foldl_loadStep_fields (m : String) (fl : List FileEntry) (s : CSt) :
    (fl.foldl (loadStep m) s).path = s.path ∧ (fl.foldl (loadStep m) s).interp = s.interp ∧
    (fl.foldl (loadStep m) s).memMode = s.memMode := by
  induction fl generalizing s with
  | nil => exact ⟨rfl, rfl, rfl⟩
  | cons e fl ih =>
    obtain ⟨a, b, c⟩ := ih (loadStep m s e)
    obtain ⟨a', b', c'⟩ := loadStep_fields m s e
    exact ⟨a.trans a', b.trans b', c.trans c'⟩

/-! ### `get` -/

theorem step_get (fs : List Dir) (s : CSt) (m : String) :
    step fs s (.get m) =
      match lookup s.dict m with
      | some o => (s, .served o)
      | none =>
        match lookup (loadFrom fs m s).dict m with
        | some o => (loadFrom fs m s, .served o)
        | none => (loadFrom fs m s, .missing) := rfl

theorem step_setPath (fs : List Dir) (s : CSt) (p : Nat) :
    (step fs s (.setPath p)).1 = { s with path := some p } := by
  simp only [step]
  cases fs[p]? with
  | none => rfl
  | some d => cases hd : d.isDir <;> simp [hd]

theorem step_get_hit {fs : List Dir} {s : CSt} {m : String} {o : Obj} (h : lookup s.dict m = some o) :
    step fs s (.get m) = (s, .served o) := by
  rw [step_get]; simp only [h]

/-- the state after a `get` is the state before it, or that state after the directory scan -/
theorem step_get_state (fs : List Dir) (s : CSt) (m : String) :
    (step fs s (.get m)).1 = s ∨ (step fs s (.get m)).1 = loadFrom fs m s := by
  rw [step_get]
  cases lookup s.dict m with
  | some o1 => left; rfl
  | none => right; cases lookup (loadFrom fs m s).dict m <;> rfl

theorem step_get_served {fs : List Dir} {s : CSt} {m : String} {o : Obj}
    (h : (step fs s (.get m)).2 = .served o) : lookup (step fs s (.get m)).1.dict m = some o := by
  rw [step_get] at *
  cases h1 : lookup s.dict m with
  | some o1 =>
    simp only [h1] at h ⊢
    cases h; rfl
  | none =>
    simp only [h1] at h ⊢
    cases h2 : lookup (loadFrom fs m s).dict m with
    | some o2 => simp only [h2] at h ⊢; cases h; rfl
    | none => simp only [h2] at h; cases h

theorem step_get_interp (fs : List Dir) (s : CSt) (m : String) :
    (step fs s (.get m)).1.interp = s.interp := by
  rcases step_get_state fs s m with h | h <;> rw [h]
  exact (foldl_loadStep_fields m (curFiles fs s) s).2.1

theorem step_ext (fs : List Dir) (s : CSt) (op : COp) (h : op.clears = false) :
    Ext s.dict (step fs s op).1.dict := by
  cases op with
  | get m =>
    rcases step_get_state fs s m with h | h <;> rw [h]
    · exact Ext.refl _
    · exact foldl_loadStep_ext m (curFiles fs s) s
  | setPath p => rw [step_setPath]; exact Ext.refl _
  | setInterp k => cases h
  | setMem b => cases h
  | clear => cases h
  | add m k => exact addOpacity_ext { s with nextId := s.nextId + 1 } _ _

theorem run_ext (fs : List Dir) (ops : List COp) (s : CSt) (h : ∀ op ∈ ops, op.clears = false) :
    Ext s.dict (run fs s ops).dict := by
  induction ops generalizing s with
  | nil => exact Ext.refl _
  | cons op ops ih =>
    have h1 := step_ext fs s op (h op (by simp))
    have h2 := ih (step fs s op).1 (fun o ho => h o (by simp [ho]))
    exact Ext.trans h1 (by simpa [run] using h2)

/-! ### the interpolation-mode invariant -/

/-- every cached object that came from a file has the configured interpolation mode -/
def ModeInv (s : CSt) : Prop := ∀ e ∈ s.dict, e.2.src ≠ none → e.2.mode = interpOr s

theorem loadStep_modeInv (m : String) (s : CSt) (e : FileEntry) (h : ModeInv s) : ModeInv (loadStep m s e) := by
  rcases loadStep_cases m s e with h1 | ⟨_, _, ⟨_, h1⟩ | ⟨_, _, h1⟩⟩
  · rw [h1]; exact h
  · rw [h1]; exact h
  · rw [h1]
    intro x hx hsrc
    have hx' : x ∈ s.dict ++ [(e.obj, loadObj s e)] := hx
    simp only [List.mem_append, List.mem_singleton] at hx'
    rcases hx' with hx' | hx'
    · exact h x hx' hsrc
    · subst hx'; rfl

theorem foldl_loadStep_modeInv (m : String) (fl : List FileEntry) (s : CSt) (h : ModeInv s) :
    ModeInv (fl.foldl (loadStep m) s) := by
  induction fl generalizing s with
  | nil => exact h
  | cons e fl ih => exact ih _ (loadStep_modeInv m s e h)

theorem step_modeInv (fs : List Dir) (s : CSt) (op : COp) (h : ModeInv s) : ModeInv (step fs s op).1 := by
  cases op with
  | get m =>
    rcases step_get_state fs s m with h' | h' <;> rw [h']
    · exact h
    · exact foldl_loadStep_modeInv m (curFiles fs s) s h
  | setPath p => rw [step_setPath]; exact h
  | setInterp k => intro e he; simp [step] at he
  | setMem b => intro e he; simp [step] at he
  | clear => intro e he; simp [step] at he
  | add m k =>
    show ModeInv (addOpacity { s with nextId := s.nextId + 1 }
      { id := s.nextId, mol := m, mode := k, inMem := none, src := none } none)
    rcases addOpacity_cases { s with nextId := s.nextId + 1 }
      { id := s.nextId, mol := m, mode := k, inMem := none, src := none } none with ⟨_, h1⟩ | ⟨_, _, h1⟩
    · rw [h1]; exact h
    · rw [h1]
      intro x hx hsrc
      have hx' : x ∈ s.dict ++ [(m, { id := s.nextId, mol := m, mode := k, inMem := none, src := none })] := hx
      simp only [List.mem_append, List.mem_singleton] at hx'
      rcases hx' with hx' | hx'
      · exact h x hx' hsrc
      · subst hx'; exact absurd rfl hsrc

theorem step_interp_of_not_setInterp (fs : List Dir) (s : CSt) (op : COp) (h : ∀ k, op ≠ .setInterp k) :
    (step fs s op).1.interp = s.interp := by
  cases op with
  | get m => exact step_get_interp fs s m
  | setPath p => rw [step_setPath]
  | setInterp k => exact absurd rfl (h k)
  | setMem b => rfl
  | clear => rfl
  | add m k => exact (addOpacity_fields _ _ _).2.1

theorem run_modeInv (fs : List Dir) (ops : List COp) (s : CSt) (h : ModeInv s) : ModeInv (run fs s ops) := by
  induction ops generalizing s with
  | nil => exact h
  | cons op ops ih => simpa [run] using ih (step fs s op).1 (step_modeInv fs s op h)

theorem run_interp (fs : List Dir) (ops : List COp) (s : CSt) (h : ∀ op ∈ ops, ∀ k, op ≠ .setInterp k) :
    (run fs s ops).interp = s.interp := by
  induction ops generalizing s with
  | nil => rfl
  | cons op ops ih =>
    have h1 := step_interp_of_not_setInterp fs s op (h op (by simp))
    have h2 := ih (step fs s op).1 (fun o ho => h o (by simp [ho]))
    simpa [run, h1] using h2

theorem lookup_mem {d : List (String × Obj)} {m : String} {o : Obj} (h : lookup d m = some o) :
    ∃ e ∈ d, e.2 = o := by
  unfold lookup at h
  cases hf : d.find? (fun e => e.1 == m) with
  | none => simp [hf] at h
  | some x =>
    simp only [hf, Option.map_some, Option.some.injEq] at h
    exact ⟨x, List.mem_of_find?_eq_some hf, h⟩

/-! ### load counting -/

/-- loads of `m` so far, plus one while `m` is not cached: never increases between clears -/
def pot (s : CSt) (m : String) : Nat := loadsOf s m + (if hasKey s.dict m then 0 else 1)

theorem hasKey_mono {d d' : List (String × Obj)} (h : Ext d d') {m : String} (hk : hasKey d m = true) :
    hasKey d' m = true := by
  rw [hasKey_eq_isSome] at *
  cases hl : lookup d m with
  | none => simp [hl] at hk
  | some o => simp [h m o hl]

theorem loadsOf_append (s : CSt) (m m' : String) (f : Nat) (l : List (String × Nat)) (hl : l = s.log ++ [(m', f)]) :
    ((l.filter (fun e => e.1 == m)).length) = loadsOf s m + (if m' == m then 1 else 0) := by
  subst hl
  unfold loadsOf
  rw [List.filter_append, List.length_append]
  cases h : (m' == m) <;> simp [h]

theorem pot_le_of_ext {s s' : CSt} {m : String} (hl : s'.log = s.log) (he : Ext s.dict s'.dict) :
    pot s' m ≤ pot s m := by
  unfold pot loadsOf
  rw [hl]
  cases hk : hasKey s.dict m
  · cases hasKey s'.dict m <;> simp
  · rw [hasKey_mono he hk]; simp

theorem loadStep_pot (m' m : String) (s : CSt) (e : FileEntry) (hc : e.obj = e.disc) :
    pot (loadStep m' s e) m ≤ pot s m := by
  rcases loadStep_cases m' s e with h1 | ⟨hd, hk, ⟨hr, h1⟩ | ⟨hk2, hobj, h1⟩⟩
  · rw [h1]; exact Nat.le_refl _
  · -- constructed but not inserted: impossible for a file whose object carries the advertised name
    exfalso
    have hobj : e.obj = m' := hc.trans hd
    rcases hr with hr | hr
    · rw [hobj, hk] at hr; cases hr
    · exact hr hobj
  · rw [h1]
    unfold pot
    show loadsOf { loadS1 s m' e with dict := s.dict ++ [(e.obj, loadObj s e)] } m +
        (if hasKey (s.dict ++ [(e.obj, loadObj s e)]) m = true then 0 else 1) ≤ _
    have hlog : loadsOf { loadS1 s m' e with dict := s.dict ++ [(e.obj, loadObj s e)] } m
        = loadsOf s m + (if m' == m then 1 else 0) := loadsOf_append s m m' e.fileId _ rfl
    rw [hlog]
    by_cases hm : m' = m
    · subst hm
      have hk' : hasKey (s.dict ++ [(e.obj, loadObj s e)]) m' = true := by
        rw [hasKey_eq_isSome]
        have hn : lookup s.dict m' = none := by
          rw [hasKey_eq_isSome] at hk
          cases hl : lookup s.dict m' with
          | none => rfl
          | some x => simp [hl] at hk
        rw [lookup_append_none _ hn, lookup_single]
        simp [hobj]
      simp [hk', hk]
    · have hne : (m' == m) = false := by simpa using hm
      simp only [hne]
      cases hkm : hasKey s.dict m
      · cases hasKey (s.dict ++ [(e.obj, loadObj s e)]) m <;> simp
      · rw [hasKey_mono (Ext.append _ _) hkm]; simp

theorem foldl_loadStep_pot (m' m : String) (fl : List FileEntry) (s : CSt) (hc : ∀ e ∈ fl, e.obj = e.disc) :
    pot (fl.foldl (loadStep m') s) m ≤ pot s m := by
  induction fl generalizing s with
  | nil => exact Nat.le_refl _
  | cons e fl ih =>
    exact Nat.le_trans (ih _ (fun x hx => hc x (by simp [hx]))) (loadStep_pot m' m s e (hc e (by simp)))

theorem curFiles_consistent {fs : List Dir} (hc : consistent fs) (s : CSt) : ∀ e ∈ curFiles fs s, e.obj = e.disc := by
  intro e he
  unfold curFiles at he
  cases hp : s.path with
  | none => simp [hp] at he
  | some p =>
    simp only [hp] at he
    cases hd : fs[p]? with
    | none => simp [hd] at he
    | some d =>
      simp only [hd] at he
      have hmem : d ∈ fs := List.mem_of_getElem? hd
      by_cases hdir : d.isDir = true
      · simp only [hdir, if_true] at he
        exact hc d hmem e he
      · simp [hdir] at he

theorem step_pot (fs : List Dir) (hc : consistent fs) (s : CSt) (op : COp) (h : op.clears = false) (m : String) :
    pot (step fs s op).1 m ≤ pot s m := by
  cases op with
  | get m' =>
    rcases step_get_state fs s m' with h' | h' <;> rw [h']
    · exact Nat.le_refl _
    · exact foldl_loadStep_pot m' m (curFiles fs s) s (curFiles_consistent hc s)
  | setPath p => rw [step_setPath]; exact Nat.le_refl _
  | setInterp k => cases h
  | setMem b => cases h
  | clear => cases h
  | add m' k =>
    apply pot_le_of_ext
    · exact (addOpacity_fields _ _ _).2.2.2.1
    · exact addOpacity_ext { s with nextId := s.nextId + 1 } _ _

theorem run_pot (fs : List Dir) (hc : consistent fs) (ops : List COp) (s : CSt)
    (h : ∀ op ∈ ops, op.clears = false) (m : String) : pot (run fs s ops) m ≤ pot s m := by
  induction ops generalizing s with
  | nil => exact Nat.le_refl _
  | cons op ops ih =>
    have h1 := step_pot fs hc s op (h op (by simp)) m
    have h2 := ih (step fs s op).1 (fun o ho => h o (by simp [ho]))
    exact Nat.le_trans (by simpa [run] using h2) h1

/-! ### a missing molecule -/

theorem foldl_loadStep_none (m : String) (fl : List FileEntry) (s : CSt) (h : ∀ e ∈ fl, e.disc ≠ m) :
    fl.foldl (loadStep m) s = s := by
  induction fl generalizing s with
  | nil => rfl
  | cons e fl ih =>
    have he : loadStep m s e = s := by
      rw [loadStep_eq]
      have : (e.disc == m) = false := by simpa using h e (by simp)
      simp [this]
    simp only [List.foldl_cons, he]
    exact ih s (fun x hx => h x (by simp [hx]))

end Taurex.CacheSM
