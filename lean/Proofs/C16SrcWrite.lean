/-
  C16 — source tie, the component `write` methods (`TemperatureProfile.write`, `Isothermal.write`, `Guillot2010.write`,
  `NPoint.write`, `ForwardModel.write`, `SimpleForwardModel.write`, `TransmissionModel.write`, `Chemistry.write`,
  `TaurexChemistry.write`): the ORACLE for the objects they act on.

  * a component instance is `comp cls attr part`: its class name (`self.__class__.__name__`), its data attributes as model
    values (`attr`, embedded by `embW`: numbers, strings, lists, a numeric ndarray is the object `nd a`, `None` is the
    model's `unsupported`) and the components it holds (`part`: one object or a list of objects).  A held component is
    `sub k v`: all that is known of it is what its own `write(group)` stores — the entries `Output.storeThing k v` lists,
    i.e. what the ties below prove of the component classes that are translated (`v = Output.writeComponent …`).
  * an output group is `group p` as in `Proofs/C16SrcStore.lean`; the state is the same log of created entries, `flat`
    relates it to the model's nodes.  `write_scalar / write_array / write_string / write_string_array / create_group`
    behave as in `SWorld.ext`; `np.array(list)` is `Output.toNdList … |>.bind stack`; `self.model()` leaves the file alone.
-/
import Proofs.C16SrcStore
import Proofs.C16Lemmas
set_option linter.unusedSectionVars false
set_option linter.unusedVariables false
set_option linter.unusedSimpArgs false

namespace Taurex.C16Src
open Taurex.Gen Taurex.Gen.Dyn
open Taurex.Output (Value Node Arr ArrData Err OfInt toNdList stack stringList stringNode storeThing storeSeq
  storeEntries subKey isStr writeComponent toNdList_floats stack_floats)

/-- a sub-component held by a component: one object or a list of objects, each given by the group name and the value
    (`Output.writeComponent …`) its own `write` stores -/
inductive SubComp (α : Type) where
  | one (k : String) (v : Value α)
  | many (l : List (String × Value α))

inductive WObj (α : Type) where
  | group (path : List String)
  | nd (a : Arr α)
  | np
  | cls (name : List Nat)
  | comp (cls : List Nat) (attr : String → Option (Value α)) (part : String → Option (SubComp α))
  | sub (k : String) (v : Value α)

instance {α : Type} : BEq (WObj α) := ⟨fun _ _ => false⟩

abbrev WV (α : Type) := Dyn.Val α (WObj α)

section
variable {α : Type}

mutual
def embW (enc : List Nat → String) : Value α → WV α
  | .int i => .int i
  | .float x => .float x
  | .bool b => .bool b
  | .array a => .obj (.nd a)
  | .str s => .str (enc s)
  | .list l => .list (embWL enc l)
  | .tuple l => .tuple (embWL enc l)
  | .dict d => .dict (embWD enc d)
  | .unsupported => .none
def embWL (enc : List Nat → String) : List (Value α) → List (WV α)
  | [] => []
  | v :: vs => embW enc v :: embWL enc vs
def embWD (enc : List Nat → String) : List (String × Value α) → List (WV α × WV α)
  | [] => []
  | (k, v) :: r => (.str k, embW enc v) :: embWD enc r
end

mutual
def unW (dec : String → List Nat) : WV α → Value α
  | .none => .unsupported
  | .bool b => .bool b
  | .int i => .int i
  | .float x => .float x
  | .str s => .str (dec s)
  | .list l => .list (unWL dec l)
  | .tuple l => .tuple (unWL dec l)
  | .dict d => .dict (unWD dec d)
  | .obj o => match o with
    | .nd a => .array a
    | _ => .unsupported
def unWL (dec : String → List Nat) : List (WV α) → List (Value α)
  | [] => []
  | v :: vs => unW dec v :: unWL dec vs
def unWD (dec : String → List Nat) : List (WV α × WV α) → List (String × Value α)
  | [] => []
  | (k, v) :: r => ((match k with | .str s => s | _ => ""), unW dec v) :: unWD dec r
end

mutual
theorem unW_embW (enc : List Nat → String) (dec : String → List Nat) (h : ∀ s, dec (enc s) = s) :
    ∀ v : Value α, unW dec (embW enc v) = v
  | .int i => rfl
  | .float x => rfl
  | .bool b => rfl
  | .array a => rfl
  | .str s => by simp [embW, unW, h]
  | .list l => by simp [embW, unW, unWL_embWL enc dec h l]
  | .tuple l => by simp [embW, unW, unWL_embWL enc dec h l]
  | .dict d => by simp [embW, unW, unWD_embWD enc dec h d]
  | .unsupported => rfl
theorem unWL_embWL (enc : List Nat → String) (dec : String → List Nat) (h : ∀ s, dec (enc s) = s) :
    ∀ l : List (Value α), unWL dec (embWL enc l) = l
  | [] => rfl
  | v :: vs => by simp [embWL, unWL, unW_embW enc dec h v, unWL_embWL enc dec h vs]
theorem unWD_embWD (enc : List Nat → String) (dec : String → List Nat) (h : ∀ s, dec (enc s) = s) :
    ∀ d : List (String × Value α), unWD dec (embWD enc d) = d
  | [] => rfl
  | (k, v) :: r => by simp [embWD, unWD, unW_embW enc dec h v, unWD_embWD enc dec h r]
end

structure WWorld (α : Type) where
  enc : List Nat → String
  dec : String → List Nat

def WWorldOK (w : WWorld α) : Prop := ∀ s, w.dec (w.enc s) = s

def wlog (p : List String) (k : String) (n : Node α) : SM α (WV α) := fun s => (.ok .none, s ++ [(p, k, n)])

def WWorld.ext [OfInt α] (w : WWorld α) : Ext (SM α) α (WObj α) where
  global name := if name = "np" then pure (.obj .np) else throw .NameError
  getattr o name :=
    match o with
    | .comp c attr part =>
      if name = "__class__" then pure (.obj (.cls c))
      else match attr name with
        | some v => pure (embW w.enc v)
        | none =>
          match part name with
          | some (.one k v) => pure (.obj (.sub k v))
          | some (.many l) => pure (.list (l.map (fun kv => .obj (.sub kv.1 kv.2))))
          | none => throw .AttributeError
    | .cls c => if name = "__name__" then pure (.str (w.enc c)) else throw .AttributeError
    | _ => throw .AttributeError
  call _ _ _ := throw .TypeError
  method o name args _ :=
    match o with
    | .group p =>
      if name = "write_scalar" then
        match args with
        | [.str key, .int i] => wlog p key (.num ⟨[], .ints [i]⟩)
        | [.str key, .bool b] => wlog p key (.num ⟨[], .bools [b]⟩)
        | [.str key, .float x] => wlog p key (.num ⟨[], .floats [x]⟩)
        | _ => throw .TypeError
      else if name = "write_array" then
        match args with
        | [.str key, .obj (.nd a)] => wlog p key (.num a)
        | _ => throw .TypeError
      else if name = "write_string" then
        match args with
        | [.str key, .str s] => wlog p key (.vstr (w.dec s))
        | _ => throw .TypeError
      else if name = "write_string_array" then
        match args with
        | [.str key, .list items] =>
          match stringList (unWL w.dec items) with
          | some strs => wlog p key (stringNode strs)
          | none => throw .AttributeError
        | _ => throw .TypeError
      else if name = "create_group" then
        match args with
        | [.str key] => fun s => (.ok (.obj (.group (p ++ [key]))), s ++ [(p, key, .group [])])
        | _ => throw .TypeError
      else throw .AttributeError
    | .np =>
      if name = "array" then
        match args with
        | [.list items] =>
          match (toNdList (unWL w.dec items)).bind stack with
          | some a => pure (.obj (.nd a))
          | none => throw .ValueError
        | [.obj (.nd a)] => pure (.obj (.nd a))
        | _ => throw .TypeError
      else throw .AttributeError
    | .sub k v =>
      if name = "write" then
        match args with
        | [.obj (.group p)] =>
          match storeThing k v with
          | .ok es => fun s => (.ok (.obj (.group (p ++ [k]))), s ++ flat p es)
          | .error _ => throw .TypeError
        | _ => throw .TypeError
      else throw .AttributeError
    | .comp _ _ _ => if name = "model" then pure .none else throw .AttributeError
    | _ => throw .AttributeError
  isinst _ _ := false
  iter _ := throw .TypeError
  truthy _ := pure true
  op name args :=
    if name = "hasattr" then
      match args with
      | [.list _, .str "__len__"] => pure (.bool true)
      | [.tuple _, .str "__len__"] => pure (.bool true)
      | [.str _, .str "__len__"] => pure (.bool true)
      | [.dict _, .str "__len__"] => pure (.bool true)
      | [.obj (.nd _), .str "__len__"] => pure (.bool true)
      | [_, .str _] => pure (.bool false)
      | _ => throw .TypeError
    else throw .TypeError
  parseFloat _ := none

section
variable [OfInt α] [FloatLike α]

theorem w_create_group (w : WWorld α) (p : List String) (key : String) (s : Log α) :
    w.ext.method (.group p) "create_group" [.str key] [] s
      = (.ok (.obj (.group (p ++ [key]))), s ++ [(p, key, .group [])]) := rfl
theorem w_write_string (w : WWorld α) (p : List String) (key : String) (t : String) (s : Log α) :
    w.ext.method (.group p) "write_string" [.str key, .str t] [] s
      = (.ok .none, s ++ [(p, key, .vstr (w.dec t))]) := rfl
theorem w_write_float (w : WWorld α) (p : List String) (key : String) (x : α) (s : Log α) :
    w.ext.method (.group p) "write_scalar" [.str key, .float x] [] s
      = (.ok .none, s ++ [(p, key, .num ⟨[], .floats [x]⟩)]) := rfl
theorem w_write_int (w : WWorld α) (p : List String) (key : String) (i : Int) (s : Log α) :
    w.ext.method (.group p) "write_scalar" [.str key, .int i] [] s
      = (.ok .none, s ++ [(p, key, .num ⟨[], .ints [i]⟩)]) := rfl
theorem w_write_bool (w : WWorld α) (p : List String) (key : String) (b : Bool) (s : Log α) :
    w.ext.method (.group p) "write_scalar" [.str key, .bool b] [] s
      = (.ok .none, s ++ [(p, key, .num ⟨[], .bools [b]⟩)]) := rfl
theorem w_write_array (w : WWorld α) (p : List String) (key : String) (a : Arr α) (s : Log α) :
    w.ext.method (.group p) "write_array" [.str key, .obj (.nd a)] [] s = (.ok .none, s ++ [(p, key, .num a)]) := rfl
theorem w_class (w : WWorld α) (c : List Nat) (attr : String → Option (Value α)) (part : String → Option (SubComp α))
    (s : Log α) : w.ext.getattr (.comp c attr part) "__class__" s = (.ok (.obj (.cls c)), s) := rfl
theorem w_name (w : WWorld α) (c : List Nat) (s : Log α) :
    w.ext.getattr (.cls c) "__name__" s = (.ok (.str (w.enc c)), s) := rfl
theorem w_attr (w : WWorld α) (c : List Nat) (attr : String → Option (Value α)) (part : String → Option (SubComp α))
    (name : String) (v : Value α) (hn : name ≠ "__class__") (h : attr name = some v) (s : Log α) :
    w.ext.getattr (.comp c attr part) name s = (.ok (embW w.enc v), s) := by
  simp [WWorld.ext, hn, h]

/-- `np.array(l)` of a list of floats: the 1-D array of the same numbers -/
def arrOf (l : List α) : Arr α := ⟨[l.length], .floats l⟩

theorem np_array_floats (w : WWorld α) (hw : WWorldOK w) (l : List α) (s : Log α) :
    w.ext.method .np "array" [.list (embWL w.enc (l.map .float))] [] s = (.ok (.obj (.nd (arrOf l))), s) := by
  have h : (toNdList (unWL w.dec (embWL w.enc (l.map Value.float)))).bind stack = some (arrOf l) := by
    rw [unWL_embWL w.enc w.dec hw, toNdList_floats]
    cases l with
    | nil => rfl
    | cons x t => exact stack_floats (x :: t) (by simp)
  show (match (toNdList (unWL w.dec (embWL w.enc (l.map Value.float)))).bind stack with
      | some a => (pure (Dyn.Val.obj (WObj.nd a)) : SM α (WV α))
      | none => throw Exc.ValueError) s = _
  rw [h]; rfl

/-- `P = self._P_surface; if not P: P = -1` for an attribute that is `None` or a float -/
def orMinus1 : Value α → Value α
  | .float x => if FloatLike.isZero x then .int (-1) else .float x
  | _ => .int (-1)

/-! ### components that hold other components -/

theorem storeEntries_cons_ok {k : String} {v : Value α} {rest : List (String × Value α)} {es : List (String × Node α)}
    (h : storeEntries ((k, v) :: rest) = .ok es) :
    ∃ a b, storeThing k v = .ok a ∧ storeEntries rest = .ok b ∧ es = a ++ b := by
  rw [storeEntries] at h
  cases ha : storeThing k v with
  | error e => rw [ha] at h; cases h
  | ok a =>
    rw [ha] at h
    cases hb : storeEntries rest with
    | error e => rw [hb] at h; cases h
    | ok b =>
      rw [hb] at h
      simp only [Except.ok.injEq] at h
      exact ⟨a, b, rfl, rfl, h.symm⟩

theorem storeThing_dict_ok {k : String} {d : List (String × Value α)} {es : List (String × Node α)}
    (h : storeThing k (.dict d) = .ok es) : ∃ ch, storeEntries d = .ok ch ∧ es = [(k, .group ch)] := by
  rw [storeThing_dict] at h
  cases hd : storeEntries d with
  | error e => rw [hd] at h; cases h
  | ok ch =>
    rw [hd] at h
    simp only [Except.ok.injEq] at h
    exact ⟨ch, rfl, h.symm⟩

/-- `component.write(group)` of a held component -/
theorem w_sub_write (w : WWorld α) (k : String) (v : Value α) (p : List String) (a : List (String × Node α))
    (h : storeThing k v = .ok a) (s : Log α) :
    w.ext.method (.sub k v) "write" [.obj (.group p)] [] s = (.ok (.obj (.group (p ++ [k]))), s ++ flat p a) := by
  show (match storeThing k v with
      | .ok es => (fun s => (Except.ok (Dyn.Val.obj (WObj.group (p ++ [k]))), s ++ flat p es) : SM α (WV α))
      | .error _ => (throw Exc.TypeError : SM α (WV α))) s = _
  rw [h]

/-- `for c in components: c.write(group)` -/
theorem forM_subs (w : WWorld α) (p : List String) (body : Unit → WV α → SM α Unit)
    (hb : ∀ (k : String) (v : Value α) (s : Log α), body () (.obj (.sub k v)) s
        = (w.ext.method (.sub k v) "write" [.obj (.group p)] [] >>= fun _ => pure ()) s) :
    ∀ (cs : List (String × Value α)) (s : Log α) (es : List (String × Node α)), storeEntries cs = .ok es →
      Dyn.forM (cs.map (fun kv => (Dyn.Val.obj (WObj.sub kv.1 kv.2) : WV α))) () body s = (.ok (), s ++ flat p es)
  | [], s, es, h => by
    simp only [storeEntries, Except.ok.injEq] at h
    subst h
    simp [Dyn.forM, flat]
  | (k, v) :: cs, s, es, h => by
    obtain ⟨a, b, ha, hb', rfl⟩ := storeEntries_cons_ok h
    have ih := forM_subs w p body hb cs (s ++ flat p a) b hb'
    simp only [List.map_cons, Dyn.forM]
    rw [eff_bind, hb, eff_bind, w_sub_write w k v p a ha]
    simp only [eff_pure, ih, flat_append, List.append_assoc]

theorem w_part_one (w : WWorld α) (c : List Nat) (attr : String → Option (Value α)) (part : String → Option (SubComp α))
    (name k : String) (v : Value α) (hn : name ≠ "__class__") (ha : attr name = none) (h : part name = some (.one k v))
    (s : Log α) : w.ext.getattr (.comp c attr part) name s = (.ok (.obj (.sub k v)), s) := by
  simp [WWorld.ext, hn, ha, h]

theorem w_part_many (w : WWorld α) (c : List Nat) (attr : String → Option (Value α)) (part : String → Option (SubComp α))
    (name : String) (l : List (String × Value α)) (hn : name ≠ "__class__") (ha : attr name = none)
    (h : part name = some (.many l)) (s : Log α) :
    w.ext.getattr (.comp c attr part) name s = (.ok (.list (l.map (fun kv => .obj (.sub kv.1 kv.2)))), s) := by
  simp [WWorld.ext, hn, ha, h]

/-- the five components a `SimpleForwardModel` holds, in the order its `write` stores them -/
structure Held (attr : String → Option (Value α)) (part : String → Option (SubComp α))
    (chem temp press planet star : String × Value α) : Prop where
  a1 : attr "_chemistry" = none
  a2 : attr "_temperature_profile" = none
  a3 : attr "pressure" = none
  a4 : attr "_planet" = none
  a5 : attr "_star" = none
  p1 : part "_chemistry" = some (.one chem.1 chem.2)
  p2 : part "_temperature_profile" = some (.one temp.1 temp.2)
  p3 : part "pressure" = some (.one press.1 press.2)
  p4 : part "_planet" = some (.one planet.1 planet.2)
  p5 : part "_star" = some (.one star.1 star.2)

theorem storeEntries_append_ok : ∀ {d1 d2 : List (String × Value α)} {es : List (String × Node α)},
    storeEntries (d1 ++ d2) = .ok es → ∃ a b, storeEntries d1 = .ok a ∧ storeEntries d2 = .ok b ∧ es = a ++ b
  | [], d2, es, h => ⟨[], es, rfl, h, rfl⟩
  | (k, v) :: d1, d2, es, h => by
    obtain ⟨a, b, ha, hb, rfl⟩ := storeEntries_cons_ok (by simpa using h)
    obtain ⟨a', b', ha', hb', rfl⟩ := storeEntries_append_ok hb
    refine ⟨a ++ a', b', ?_, hb', by simp⟩
    rw [storeEntries, ha, ha']

/-- the model value a `SimpleForwardModel.write` stores: class name, contributions, the five held components, then the
    entries the subclass adds -/
def modelValue (c : List Nat) (cs : List (String × Value α)) (chem temp press planet star : String × Value α)
    (extra : List (String × Value α)) : Value α :=
  writeComponent "model_type" c (("Contributions", .dict cs) :: [chem, temp, press, planet, star] ++ extra)

theorem modelValue_ok {c : List Nat} {cs : List (String × Value α)} {chem temp press planet star : String × Value α}
    {extra : List (String × Value α)} {es : List (String × Node α)}
    (hm : storeThing "ModelParameters" (modelValue c cs chem temp press planet star extra) = .ok es) :
    ∃ ces subs ex, storeEntries cs = .ok ces ∧ storeEntries [chem, temp, press, planet, star] = .ok subs ∧
      storeEntries extra = .ok ex ∧
      es = [("ModelParameters", .group ([("model_type", .vstr c), ("Contributions", .group ces)] ++ subs ++ ex))] := by
  obtain ⟨ch, hch, rfl⟩ := storeThing_dict_ok hm
  obtain ⟨a, b, ha1, hb1, rfl⟩ := storeEntries_cons_ok hch
  obtain ⟨a2, b2, ha2, hb2, rfl⟩ := storeEntries_cons_ok hb1
  obtain ⟨ces, hces, rfl⟩ := storeThing_dict_ok ha2
  obtain ⟨subs, ex, hsubs, hex, rfl⟩ := storeEntries_append_ok hb2
  simp only [storeThing, Except.ok.injEq] at ha1
  subst ha1
  exact ⟨ces, subs, ex, hces, hsubs, hex, by simp⟩

/-! ### chemistry -/

theorem stringList_strs : ∀ l : List (List Nat), stringList (l.map (Value.str (α := α))) = some l
  | [] => rfl
  | x :: t => by simp [stringList, stringList_strs t]

/-- `group.write_string_array(key, names)` for a list of strings -/
theorem w_write_string_array (w : WWorld α) (hw : WWorldOK w) (p : List String) (key : String) (l : List (List Nat))
    (s : Log α) :
    w.ext.method (.group p) "write_string_array" [.str key, .list (embWL w.enc (l.map .str))] [] s
      = (.ok .none, s ++ [(p, key, stringNode l)]) := by
  show (match stringList (unWL w.dec (embWL w.enc (l.map Value.str))) with
      | some strs => wlog p key (stringNode strs)
      | none => (throw Exc.AttributeError : SM α (WV α))) s = _
  rw [unWL_embWL w.enc w.dec hw, stringList_strs]
  rfl

/-- the entries `Chemistry.write` creates in its group -/
def chemEntries (c : List Nat) (act inact : List (List Nat)) (cond : Option (List (List Nat))) : List (String × Node α) :=
  [("chemistry_type", .vstr c), ("active_gases", stringNode act), ("inactive_gases", stringNode inact)]
    ++ (match cond with | some cd => [("condensates", stringNode cd)] | none => [])

/-- the attributes `Chemistry.write` reads -/
structure ChemAttrs (attr : String → Option (Value α)) (act inact : List (List Nat))
    (cond : Option (List (List Nat))) : Prop where
  act : attr "activeGases" = some (.list (act.map .str))
  inact : attr "inactiveGases" = some (.list (inact.map .str))
  has : attr "hasCondensates" = some (.bool cond.isSome)
  cond : ∀ cd, cond = some cd → attr "condensates" = some (.list (cd.map .str))

end
end
end Taurex.C16Src
