/-
  C16 — source tie, the component `write` methods (`TemperatureProfile.write`, `Isothermal.write`, `Guillot2010.write`,
  `NPoint.write`, `ForwardModel.write`, `SimpleForwardModel.write`, `TransmissionModel.write`, `Chemistry.write`,
  `TaurexChemistry.write`; `Star.write`, `BasePlanet.write`, `PressureProfile.write`, `SimplePressureProfile.write`,
  `Gas.write` and its subclasses, `Contribution.write` and its subclasses): the ORACLE for the objects they act on.

  * a component instance is `comp cls attr part`: its class name (`self.__class__.__name__`), its data attributes as model
    values (`attr`, embedded by `embW`: numbers, strings, lists, a numeric ndarray is the object `nd a`, `None` is the
    model's `unsupported`) and the components it holds (`part`: one object or a list of objects).  A held component is
    `sub k v`: all that is known of it is what its own `write(group)` stores — the entries `Output.storeThing k v` lists,
    i.e. what the ties below prove of the component classes that are translated (`v = Output.writeComponent …`).
  * an output group is `group p` as in `Proofs/C16SrcStore.lean`; the state is the same log of created entries, `flat`
    relates it to the model's nodes.  `write_scalar / write_array / write_string / write_string_array / create_group`
    behave as in `SWorld.ext`; `np.array(list)` is `Output.toNdList … |>.bind stack`; `self.model()` leaves the file alone.
  * `a / b` of two floats is `w.div a b` (`ZeroDivisionError` for `b = 0`); the module-level float constants the methods
    read (`MJUP`, `RJUP`, `AU`, `RSOL`, `MSOL`) are `w.consts`.
-/
import Proofs.C16SrcStore
import Proofs.C16Lemmas
set_option linter.unusedSectionVars false
set_option linter.unusedVariables false
set_option linter.unusedSimpArgs false

namespace Taurex.C16Src
open Taurex.Gen Taurex.Gen.Dyn
open Taurex.Output (Value Node Arr ArrData Err OfInt toNdList stack stringList stringNode storeThing storeSeq
  storeEntries subKey isStr writeComponent toNdList_floats stack_floats)

/-- a sub-component held by a component: one object or a list of objects, each given by the group name and the value
    (`Output.writeComponent …`) its own `write` stores -/
inductive SubComp (α : Type) where
  | one (k : String) (v : Value α)
  | many (l : List (String × Value α))

inductive WObj (α : Type) where
  | group (path : List String)
  | nd (a : Arr α)
  | np
  | cls (name : List Nat)
  | comp (cls : List Nat) (attr : String → Option (Value α)) (part : String → Option (SubComp α))
  | sub (k : String) (v : Value α)

instance {α : Type} : BEq (WObj α) := ⟨fun _ _ => false⟩

abbrev WV (α : Type) := Dyn.Val α (WObj α)

section
variable {α : Type}

mutual
def embW (enc : List Nat → String) : Value α → WV α
  | .int i => .int i
  | .float x => .float x
  | .bool b => .bool b
  | .array a => .obj (.nd a)
  | .str s => .str (enc s)
  | .list l => .list (embWL enc l)
  | .tuple l => .tuple (embWL enc l)
  | .dict d => .dict (embWD enc d)
  | .unsupported => .none
def embWL (enc : List Nat → String) : List (Value α) → List (WV α)
  | [] => []
  | v :: vs => embW enc v :: embWL enc vs
def embWD (enc : List Nat → String) : List (String × Value α) → List (WV α × WV α)
  | [] => []
  | (k, v) :: r => (.str k, embW enc v) :: embWD enc r
end

mutual
def unW (dec : String → List Nat) : WV α → Value α
  | .none => .unsupported
  | .bool b => .bool b
  | .int i => .int i
  | .float x => .float x
  | .str s => .str (dec s)
  | .list l => .list (unWL dec l)
  | .tuple l => .tuple (unWL dec l)
  | .dict d => .dict (unWD dec d)
  | .obj o => match o with
    | .nd a => .array a
    | _ => .unsupported
def unWL (dec : String → List Nat) : List (WV α) → List (Value α)
  | [] => []
  | v :: vs => unW dec v :: unWL dec vs
def unWD (dec : String → List Nat) : List (WV α × WV α) → List (String × Value α)
  | [] => []
  | (k, v) :: r => ((match k with | .str s => s | _ => ""), unW dec v) :: unWD dec r
end

mutual
theorem unW_embW (enc : List Nat → String) (dec : String → List Nat) (h : ∀ s, dec (enc s) = s) :
    ∀ v : Value α, unW dec (embW enc v) = v
  | .int i => rfl
  | .float x => rfl
  | .bool b => rfl
  | .array a => rfl
  | .str s => by simp [embW, unW, h]
  | .list l => by simp [embW, unW, unWL_embWL enc dec h l]
  | .tuple l => by simp [embW, unW, unWL_embWL enc dec h l]
  | .dict d => by simp [embW, unW, unWD_embWD enc dec h d]
  | .unsupported => rfl
theorem unWL_embWL (enc : List Nat → String) (dec : String → List Nat) (h : ∀ s, dec (enc s) = s) :
    ∀ l : List (Value α), unWL dec (embWL enc l) = l
  | [] => rfl
  | v :: vs => by simp [embWL, unWL, unW_embW enc dec h v, unWL_embWL enc dec h vs]
theorem unWD_embWD (enc : List Nat → String) (dec : String → List Nat) (h : ∀ s, dec (enc s) = s) :
    ∀ d : List (String × Value α), unWD dec (embWD enc d) = d
  | [] => rfl
  | (k, v) :: r => by simp [embWD, unWD, unW_embW enc dec h v, unWD_embWD enc dec h r]
end

structure WWorld (α : Type) where
  enc : List Nat → String
  dec : String → List Nat
  /-- `a / b` on floats (`b ≠ 0`) -/
  div : α → α → α
  /-- the module-level float constants the `write` methods read (`MJUP`, `RSOL`, …) -/
  consts : String → Option α

def WWorldOK (w : WWorld α) : Prop := ∀ s, w.dec (w.enc s) = s

def wlog (p : List String) (k : String) (n : Node α) : SM α (WV α) := fun s => (.ok .none, s ++ [(p, k, n)])

def WWorld.ext [OfInt α] [FloatLike α] (w : WWorld α) : Ext (SM α) α (WObj α) where
  global name :=
    if name = "np" then pure (.obj .np)
    else match w.consts name with
      | some x => pure (.float x)
      | none => throw .NameError
  getattr o name :=
    match o with
    | .comp c attr part =>
      if name = "__class__" then pure (.obj (.cls c))
      else match attr name with
        | some v => pure (embW w.enc v)
        | none =>
          match part name with
          | some (.one k v) => pure (.obj (.sub k v))
          | some (.many l) => pure (.list (l.map (fun kv => .obj (.sub kv.1 kv.2))))
          | none => throw .AttributeError
    | .cls c => if name = "__name__" then pure (.str (w.enc c)) else throw .AttributeError
    | _ => throw .AttributeError
  call _ _ _ := throw .TypeError
  method o name args _ :=
    match o with
    | .group p =>
      if name = "write_scalar" then
        match args with
        | [.str key, .int i] => wlog p key (.num ⟨[], .ints [i]⟩)
        | [.str key, .bool b] => wlog p key (.num ⟨[], .bools [b]⟩)
        | [.str key, .float x] => wlog p key (.num ⟨[], .floats [x]⟩)
        | _ => throw .TypeError
      else if name = "write_array" then
        match args with
        | [.str key, .obj (.nd a)] => wlog p key (.num a)
        | _ => throw .TypeError
      else if name = "write_string" then
        match args with
        | [.str key, .str s] => wlog p key (.vstr (w.dec s))
        | _ => throw .TypeError
      else if name = "write_string_array" then
        match args with
        | [.str key, .list items] =>
          match stringList (unWL w.dec items) with
          | some strs => wlog p key (stringNode strs)
          | none => throw .AttributeError
        | _ => throw .TypeError
      else if name = "create_group" then
        match args with
        | [.str key] => fun s => (.ok (.obj (.group (p ++ [key]))), s ++ [(p, key, .group [])])
        | _ => throw .TypeError
      else throw .AttributeError
    | .np =>
      if name = "array" then
        match args with
        | [.list items] =>
          match (toNdList (unWL w.dec items)).bind stack with
          | some a => pure (.obj (.nd a))
          | none => throw .ValueError
        | [.obj (.nd a)] => pure (.obj (.nd a))
        | _ => throw .TypeError
      else throw .AttributeError
    | .sub k v =>
      if name = "write" then
        match args with
        | [.obj (.group p)] =>
          match storeThing k v with
          | .ok es => fun s => (.ok (.obj (.group (p ++ [k]))), s ++ flat p es)
          | .error _ => throw .TypeError
        | _ => throw .TypeError
      else throw .AttributeError
    | .comp _ _ _ => if name = "model" then pure .none else throw .AttributeError
    | _ => throw .AttributeError
  isinst _ _ := false
  iter _ := throw .TypeError
  truthy _ := pure true
  op name args :=
    if name = "hasattr" then
      match args with
      | [.list _, .str "__len__"] => pure (.bool true)
      | [.tuple _, .str "__len__"] => pure (.bool true)
      | [.str _, .str "__len__"] => pure (.bool true)
      | [.dict _, .str "__len__"] => pure (.bool true)
      | [.obj (.nd _), .str "__len__"] => pure (.bool true)
      | [_, .str _] => pure (.bool false)
      | _ => throw .TypeError
    else if name = "/" then
      match args with
      | [.float a, .float b] => if FloatLike.isZero b then throw .ZeroDivisionError else pure (.float (w.div a b))
      | _ => throw .TypeError
    else throw .TypeError
  parseFloat _ := none

section
variable [OfInt α] [FloatLike α]

theorem w_create_group (w : WWorld α) (p : List String) (key : String) (s : Log α) :
    w.ext.method (.group p) "create_group" [.str key] [] s
      = (.ok (.obj (.group (p ++ [key]))), s ++ [(p, key, .group [])]) := rfl
theorem w_write_string (w : WWorld α) (p : List String) (key : String) (t : String) (s : Log α) :
    w.ext.method (.group p) "write_string" [.str key, .str t] [] s
      = (.ok .none, s ++ [(p, key, .vstr (w.dec t))]) := rfl
theorem w_write_float (w : WWorld α) (p : List String) (key : String) (x : α) (s : Log α) :
    w.ext.method (.group p) "write_scalar" [.str key, .float x] [] s
      = (.ok .none, s ++ [(p, key, .num ⟨[], .floats [x]⟩)]) := rfl
theorem w_write_int (w : WWorld α) (p : List String) (key : String) (i : Int) (s : Log α) :
    w.ext.method (.group p) "write_scalar" [.str key, .int i] [] s
      = (.ok .none, s ++ [(p, key, .num ⟨[], .ints [i]⟩)]) := rfl
theorem w_write_bool (w : WWorld α) (p : List String) (key : String) (b : Bool) (s : Log α) :
    w.ext.method (.group p) "write_scalar" [.str key, .bool b] [] s
      = (.ok .none, s ++ [(p, key, .num ⟨[], .bools [b]⟩)]) := rfl
theorem w_write_array (w : WWorld α) (p : List String) (key : String) (a : Arr α) (s : Log α) :
    w.ext.method (.group p) "write_array" [.str key, .obj (.nd a)] [] s = (.ok .none, s ++ [(p, key, .num a)]) := rfl
theorem w_class (w : WWorld α) (c : List Nat) (attr : String → Option (Value α)) (part : String → Option (SubComp α))
    (s : Log α) : w.ext.getattr (.comp c attr part) "__class__" s = (.ok (.obj (.cls c)), s) := rfl
theorem w_name (w : WWorld α) (c : List Nat) (s : Log α) :
    w.ext.getattr (.cls c) "__name__" s = (.ok (.str (w.enc c)), s) := rfl
theorem w_attr (w : WWorld α) (c : List Nat) (attr : String → Option (Value α)) (part : String → Option (SubComp α))
    (name : String) (v : Value α) (hn : name ≠ "__class__") (h : attr name = some v) (s : Log α) :
    w.ext.getattr (.comp c attr part) name s = (.ok (embW w.enc v), s) := by
  simp [WWorld.ext, hn, h]

/-- `np.array(l)` of a list of floats: the 1-D array of the same numbers -/
def arrOf (l : List α) : Arr α := ⟨[l.length], .floats l⟩

theorem np_array_floats (w : WWorld α) (hw : WWorldOK w) (l : List α) (s : Log α) :
    w.ext.method .np "array" [.list (embWL w.enc (l.map .float))] [] s = (.ok (.obj (.nd (arrOf l))), s) := by
  have h : (toNdList (unWL w.dec (embWL w.enc (l.map Value.float)))).bind stack = some (arrOf l) := by
    rw [unWL_embWL w.enc w.dec hw, toNdList_floats]
    cases l with
    | nil => rfl
    | cons x t => exact stack_floats (x :: t) (by simp)
  show (match (toNdList (unWL w.dec (embWL w.enc (l.map Value.float)))).bind stack with
      | some a => (pure (Dyn.Val.obj (WObj.nd a)) : SM α (WV α))
      | none => throw Exc.ValueError) s = _
  rw [h]; rfl

/-- `P = self._P_surface; if not P: P = -1` for an attribute that is `None` or a float -/
def orMinus1 : Value α → Value α
  | .float x => if FloatLike.isZero x then .int (-1) else .float x
  | _ => .int (-1)

/-! ### components that hold other components -/

theorem storeEntries_cons_ok {k : String} {v : Value α} {rest : List (String × Value α)} {es : List (String × Node α)}
    (h : storeEntries ((k, v) :: rest) = .ok es) :
    ∃ a b, storeThing k v = .ok a ∧ storeEntries rest = .ok b ∧ es = a ++ b := by
  rw [storeEntries] at h
  cases ha : storeThing k v with
  | error e => rw [ha] at h; cases h
  | ok a =>
    rw [ha] at h
    cases hb : storeEntries rest with
    | error e => rw [hb] at h; cases h
    | ok b =>
      rw [hb] at h
      simp only [Except.ok.injEq] at h
      exact ⟨a, b, rfl, rfl, h.symm⟩

theorem storeThing_dict_ok {k : String} {d : List (String × Value α)} {es : List (String × Node α)}
    (h : storeThing k (.dict d) = .ok es) : ∃ ch, storeEntries d = .ok ch ∧ es = [(k, .group ch)] := by
  rw [storeThing_dict] at h
  cases hd : storeEntries d with
  | error e => rw [hd] at h; cases h
  | ok ch =>
    rw [hd] at h
    simp only [Except.ok.injEq] at h
    exact ⟨ch, rfl, h.symm⟩

/-- `component.write(group)` of a held component -/
theorem w_sub_write (w : WWorld α) (k : String) (v : Value α) (p : List String) (a : List (String × Node α))
    (h : storeThing k v = .ok a) (s : Log α) :
    w.ext.method (.sub k v) "write" [.obj (.group p)] [] s = (.ok (.obj (.group (p ++ [k]))), s ++ flat p a) := by
  show (match storeThing k v with
      | .ok es => (fun s => (Except.ok (Dyn.Val.obj (WObj.group (p ++ [k]))), s ++ flat p es) : SM α (WV α))
      | .error _ => (throw Exc.TypeError : SM α (WV α))) s = _
  rw [h]

/-- `for c in components: c.write(group)` -/
theorem forM_subs (w : WWorld α) (p : List String) (body : Unit → WV α → SM α Unit)
    (hb : ∀ (k : String) (v : Value α) (s : Log α), body () (.obj (.sub k v)) s
        = (w.ext.method (.sub k v) "write" [.obj (.group p)] [] >>= fun _ => pure ()) s) :
    ∀ (cs : List (String × Value α)) (s : Log α) (es : List (String × Node α)), storeEntries cs = .ok es →
      Dyn.forM (cs.map (fun kv => (Dyn.Val.obj (WObj.sub kv.1 kv.2) : WV α))) () body s = (.ok (), s ++ flat p es)
  | [], s, es, h => by
    simp only [storeEntries, Except.ok.injEq] at h
    subst h
    simp [Dyn.forM, flat]
  | (k, v) :: cs, s, es, h => by
    obtain ⟨a, b, ha, hb', rfl⟩ := storeEntries_cons_ok h
    have ih := forM_subs w p body hb cs (s ++ flat p a) b hb'
    simp only [List.map_cons, Dyn.forM]
    rw [eff_bind, hb, eff_bind, w_sub_write w k v p a ha]
    simp only [eff_pure, ih, flat_append, List.append_assoc]

theorem w_part_one (w : WWorld α) (c : List Nat) (attr : String → Option (Value α)) (part : String → Option (SubComp α))
    (name k : String) (v : Value α) (hn : name ≠ "__class__") (ha : attr name = none) (h : part name = some (.one k v))
    (s : Log α) : w.ext.getattr (.comp c attr part) name s = (.ok (.obj (.sub k v)), s) := by
  simp [WWorld.ext, hn, ha, h]

theorem w_part_many (w : WWorld α) (c : List Nat) (attr : String → Option (Value α)) (part : String → Option (SubComp α))
    (name : String) (l : List (String × Value α)) (hn : name ≠ "__class__") (ha : attr name = none)
    (h : part name = some (.many l)) (s : Log α) :
    w.ext.getattr (.comp c attr part) name s = (.ok (.list (l.map (fun kv => .obj (.sub kv.1 kv.2)))), s) := by
  simp [WWorld.ext, hn, ha, h]

/-- the five components a `SimpleForwardModel` holds, in the order its `write` stores them -/
structure Held (attr : String → Option (Value α)) (part : String → Option (SubComp α))
    (chem temp press planet star : String × Value α) : Prop where
  a1 : attr "_chemistry" = none
  a2 : attr "_temperature_profile" = none
  a3 : attr "pressure" = none
  a4 : attr "_planet" = none
  a5 : attr "_star" = none
  p1 : part "_chemistry" = some (.one chem.1 chem.2)
  p2 : part "_temperature_profile" = some (.one temp.1 temp.2)
  p3 : part "pressure" = some (.one press.1 press.2)
  p4 : part "_planet" = some (.one planet.1 planet.2)
  p5 : part "_star" = some (.one star.1 star.2)

theorem storeEntries_append_ok : ∀ {d1 d2 : List (String × Value α)} {es : List (String × Node α)},
    storeEntries (d1 ++ d2) = .ok es → ∃ a b, storeEntries d1 = .ok a ∧ storeEntries d2 = .ok b ∧ es = a ++ b
  | [], d2, es, h => ⟨[], es, rfl, h, rfl⟩
  | (k, v) :: d1, d2, es, h => by
    obtain ⟨a, b, ha, hb, rfl⟩ := storeEntries_cons_ok (by simpa using h)
    obtain ⟨a', b', ha', hb', rfl⟩ := storeEntries_append_ok hb
    refine ⟨a ++ a', b', ?_, hb', by simp⟩
    rw [storeEntries, ha, ha']

/-- the model value a `SimpleForwardModel.write` stores: class name, contributions, the five held components, then the
    entries the subclass adds -/
def modelValue (c : List Nat) (cs : List (String × Value α)) (chem temp press planet star : String × Value α)
    (extra : List (String × Value α)) : Value α :=
  writeComponent "model_type" c (("Contributions", .dict cs) :: [chem, temp, press, planet, star] ++ extra)

theorem modelValue_ok {c : List Nat} {cs : List (String × Value α)} {chem temp press planet star : String × Value α}
    {extra : List (String × Value α)} {es : List (String × Node α)}
    (hm : storeThing "ModelParameters" (modelValue c cs chem temp press planet star extra) = .ok es) :
    ∃ ces subs ex, storeEntries cs = .ok ces ∧ storeEntries [chem, temp, press, planet, star] = .ok subs ∧
      storeEntries extra = .ok ex ∧
      es = [("ModelParameters", .group ([("model_type", .vstr c), ("Contributions", .group ces)] ++ subs ++ ex))] := by
  obtain ⟨ch, hch, rfl⟩ := storeThing_dict_ok hm
  obtain ⟨a, b, ha1, hb1, rfl⟩ := storeEntries_cons_ok hch
  obtain ⟨a2, b2, ha2, hb2, rfl⟩ := storeEntries_cons_ok hb1
  obtain ⟨ces, hces, rfl⟩ := storeThing_dict_ok ha2
  obtain ⟨subs, ex, hsubs, hex, rfl⟩ := storeEntries_append_ok hb2
  simp only [storeThing, Except.ok.injEq] at ha1
  subst ha1
  exact ⟨ces, subs, ex, hces, hsubs, hex, by simp⟩

/-! ### chemistry -/

theorem stringList_strs : ∀ l : List (List Nat), stringList (l.map (Value.str (α := α))) = some l
  | [] => rfl
  | x :: t => by simp [stringList, stringList_strs t]

/-- `group.write_string_array(key, names)` for a list of strings -/
theorem w_write_string_array (w : WWorld α) (hw : WWorldOK w) (p : List String) (key : String) (l : List (List Nat))
    (s : Log α) :
    w.ext.method (.group p) "write_string_array" [.str key, .list (embWL w.enc (l.map .str))] [] s
      = (.ok .none, s ++ [(p, key, stringNode l)]) := by
  show (match stringList (unWL w.dec (embWL w.enc (l.map Value.str))) with
      | some strs => wlog p key (stringNode strs)
      | none => (throw Exc.AttributeError : SM α (WV α))) s = _
  rw [unWL_embWL w.enc w.dec hw, stringList_strs]
  rfl

/-- the entries `Chemistry.write` creates in its group -/
def chemEntries (c : List Nat) (act inact : List (List Nat)) (cond : Option (List (List Nat))) : List (String × Node α) :=
  [("chemistry_type", .vstr c), ("active_gases", stringNode act), ("inactive_gases", stringNode inact)]
    ++ (match cond with | some cd => [("condensates", stringNode cd)] | none => [])

/-- the attributes `Chemistry.write` reads -/
structure ChemAttrs (attr : String → Option (Value α)) (act inact : List (List Nat))
    (cond : Option (List (List Nat))) : Prop where
  act : attr "activeGases" = some (.list (act.map .str))
  inact : attr "inactiveGases" = some (.list (inact.map .str))
  has : attr "hasCondensates" = some (.bool cond.isSome)
  cond : ∀ cd, cond = some cd → attr "condensates" = some (.list (cd.map .str))

/-! ### star, planet, pressure profile, gas profiles, contributions -/

/-- a Python scalar (`int`, `float`, `bool`) -/
def Scalar (v : Value α) : Prop := (∃ i, v = .int i) ∨ (∃ x, v = .float x) ∨ (∃ b, v = .bool b)

/-- a scalar, a numeric array or a string: what `write_scalar`, `write_array`, `write_string` take -/
def Leaf (v : Value α) : Prop := Scalar v ∨ (∃ a, v = .array a) ∨ (∃ t, v = .str t)

/-- the node `write_scalar` / `write_array` / `write_string` create for a scalar / array / string -/
def leafNode : Value α → Node α
  | .int i => .num ⟨[], .ints [i]⟩
  | .float x => .num ⟨[], .floats [x]⟩
  | .bool b => .num ⟨[], .bools [b]⟩
  | .array a => .num a
  | .str t => .vstr t
  | _ => .group []

theorem scalar_float (x : α) : Scalar (Value.float x) := Or.inr (Or.inl ⟨x, rfl⟩)
theorem scalar_int (i : Int) : Scalar (Value.int i : Value α) := Or.inl ⟨i, rfl⟩
theorem scalar_bool (b : Bool) : Scalar (Value.bool b : Value α) := Or.inr (Or.inr ⟨b, rfl⟩)
theorem leaf_scalar {v : Value α} (h : Scalar v) : Leaf v := Or.inl h
theorem leaf_array (a : Arr α) : Leaf (Value.array a) := Or.inr (Or.inl ⟨a, rfl⟩)
theorem leaf_str (t : List Nat) : Leaf (Value.str t : Value α) := Or.inr (Or.inr ⟨t, rfl⟩)

theorem storeThing_leaf (k : String) (v : Value α) (h : Leaf v) : storeThing k v = .ok [(k, leafNode v)] := by
  rcases h with (⟨i, rfl⟩ | ⟨x, rfl⟩ | ⟨b, rfl⟩) | ⟨a, rfl⟩ | ⟨t, rfl⟩ <;> simp [storeThing, leafNode]

theorem storeEntries_leaves : ∀ l : List (String × Value α), (∀ e ∈ l, Leaf e.2) →
    storeEntries l = .ok (l.map (fun e => (e.1, leafNode e.2)))
  | [], _ => by simp [storeEntries]
  | (k, v) :: r, h => by
    rw [storeEntries, storeThing_leaf k v (h (k, v) List.mem_cons_self),
      storeEntries_leaves r (fun e he => h e (List.mem_cons_of_mem _ he))]
    simp

/-- the stored form of a component record whose entries are scalars, arrays and strings -/
theorem store_component_leaves (name typeKey : String) (c : List Nat) (entries : List (String × Value α))
    (h : ∀ e ∈ entries, Leaf e.2) :
    storeThing name (writeComponent typeKey c entries)
      = .ok [(name, .group ((typeKey, .vstr c) :: entries.map (fun e => (e.1, leafNode e.2))))] := by
  have h' : ∀ e ∈ (typeKey, Value.str c) :: entries, Leaf e.2 := by
    intro e he
    rcases List.mem_cons.1 he with rfl | he
    · exact leaf_str c
    · exact h e he
  rw [writeComponent, storeThing_dict, storeEntries_leaves _ h']
  simp [leafNode]

theorem wf_leaf {v : Value α} (h : Leaf v) (ha : ∀ a, v = .array a → (a.shape != []) = true) :
    Output.wfVal v = true ∧ Output.isDict v = false := by
  rcases h with (⟨i, rfl⟩ | ⟨x, rfl⟩ | ⟨b, rfl⟩) | ⟨a, rfl⟩ | ⟨t, rfl⟩
  · exact ⟨rfl, rfl⟩
  · exact ⟨rfl, rfl⟩
  · exact ⟨rfl, rfl⟩
  · exact ⟨ha a rfl, rfl⟩
  · exact ⟨rfl, rfl⟩

theorem wfEntries_leaves : ∀ l : List (String × Value α), (∀ e ∈ l, Leaf e.2) →
    (∀ e ∈ l, ∀ a, e.2 = .array a → (a.shape != []) = true) → Output.wfEntries l = true
  | [], _, _ => rfl
  | (k, v) :: r, h, ha => by
    simp [Output.wfEntries, (wf_leaf (h (k, v) List.mem_cons_self) (ha (k, v) List.mem_cons_self)).1,
      wfEntries_leaves r (fun e he => h e (List.mem_cons_of_mem _ he)) (fun e he => ha e (List.mem_cons_of_mem _ he))]

theorem notDict_leaves (l : List (String × Value α)) (h : ∀ e ∈ l, Leaf e.2) : ∀ e ∈ l, Output.isDict e.2 = false := by
  intro e he
  rcases h e he with (⟨i, hi⟩ | ⟨x, hx⟩ | ⟨b, hb⟩) | ⟨a, ha⟩ | ⟨t, ht⟩ <;> simp [*, Output.isDict]

/-- `group.write_scalar(key, v)` for a Python scalar -/
theorem w_write_scalar (w : WWorld α) (p : List String) (key : String) (v : Value α) (h : Scalar v) (s : Log α) :
    w.ext.method (.group p) "write_scalar" [.str key, embW w.enc v] [] s = (.ok .none, s ++ [(p, key, leafNode v)]) := by
  rcases h with ⟨i, rfl⟩ | ⟨x, rfl⟩ | ⟨b, rfl⟩ <;> rfl

/-- `a / b` of two floats, `b ≠ 0` -/
theorem w_div (w : WWorld α) (a b : α) (hb : FloatLike.isZero b = false) (s : Log α) :
    Dyn.truediv w.ext (.float a) (.float b) s = (.ok (.float (w.div a b)), s) := by
  show (if FloatLike.isZero b = true then (throw Exc.ZeroDivisionError : SM α (WV α)) else pure (.float (w.div a b))) s = _
  simp [hb]

/-- a module-level float constant -/
theorem w_const (w : WWorld α) (name : String) (x : α) (hn : name ≠ "np") (h : w.consts name = some x) (s : Log α) :
    w.ext.global name s = (.ok (.float x), s) := by
  simp [WWorld.ext, hn, h]

theorem embWL_length (enc : List Nat → String) : ∀ l : List (Value α), (embWL enc l).length = l.length
  | [] => rfl
  | v :: vs => by simp [embWL, embWL_length enc vs]

/-- the entries of a list of optional scalars that are not `None` (the model's `unsupported`) -/
def present : List (String × Value α) → List (String × Value α)
  | [] => []
  | (k, v) :: r => match v with
    | .unsupported => present r
    | _ => (k, v) :: present r

/-- `for name, value in ((k1, v1), …): if value is not None: group.write_scalar(name, value)` -/
theorem forM_present (w : WWorld α) (p : List String) (body : Unit → WV α → SM α Unit)
    (hb : ∀ (k : String) (v : Value α) (s : Log α), body () (.tuple [.str k, embW w.enc v]) s
        = (if (!Dyn.Val.isNone (embW w.enc v)) = true then
            (w.ext.method (.group p) "write_scalar" [.str k, embW w.enc v] [] >>= fun _ => pure ()) s
           else (.ok (), s))) :
    ∀ (l : List (String × Value α)) (s : Log α), (∀ e ∈ l, e.2 = .unsupported ∨ Scalar e.2) →
      Dyn.forM (l.map (fun e => (Dyn.Val.tuple [.str e.1, embW w.enc e.2] : WV α))) () body s
        = (.ok (), s ++ (present l).map (fun e => (p, e.1, leafNode e.2)))
  | [], s, _ => by simp [Dyn.forM, present]
  | (k, v) :: r, s, h => by
    have ih := forM_present w p body hb r
    have hr : ∀ e ∈ r, e.2 = .unsupported ∨ Scalar e.2 := fun e he => h e (List.mem_cons_of_mem _ he)
    simp only [List.map_cons, Dyn.forM]
    rw [eff_bind, hb]
    rcases h (k, v) List.mem_cons_self with hv | hv
    · simp only at hv
      subst hv
      simp only [embW, Dyn.Val.isNone, Bool.not_true, Bool.false_eq_true, if_false, present]
      exact ih s hr
    · have hne : Dyn.Val.isNone (embW w.enc v) = false := by
        rcases hv with ⟨i, rfl⟩ | ⟨x, rfl⟩ | ⟨b, rfl⟩ <;> rfl
      have hp : present ((k, v) :: r) = (k, v) :: present r := by
        rcases hv with ⟨i, rfl⟩ | ⟨x, rfl⟩ | ⟨b, rfl⟩ <;> rfl
      simp only [hne, Bool.not_false, if_true, eff_bind, w_write_scalar w p k v hv, eff_pure, hp, List.map_cons]
      rw [ih _ hr]
      simp

theorem present_leaves : ∀ l : List (String × Value α), (∀ e ∈ l, e.2 = .unsupported ∨ Scalar e.2) →
    ∀ e ∈ present l, Scalar e.2
  | [], _, e, he => by simp [present] at he
  | (k, v) :: r, h, e, he => by
    have hr : ∀ e ∈ r, e.2 = .unsupported ∨ Scalar e.2 := fun e he => h e (List.mem_cons_of_mem _ he)
    rcases h (k, v) List.mem_cons_self with hv | hv
    · simp only at hv
      subst hv
      exact present_leaves r hr e (by simpa [present] using he)
    · have hp : present ((k, v) :: r) = (k, v) :: present r := by
        rcases hv with ⟨i, rfl⟩ | ⟨x, rfl⟩ | ⟨b, rfl⟩ <;> rfl
      rw [hp] at he
      rcases List.mem_cons.1 he with rfl | he
      · exact hv
      · exact present_leaves r hr e he

theorem leaves_nil : ∀ e ∈ ([] : List (String × Value α)), Leaf e.2 := fun e he => by cases he

theorem leaves_cons {k : String} {v : Value α} {r : List (String × Value α)} (hv : Leaf v) (hr : ∀ e ∈ r, Leaf e.2) :
    ∀ e ∈ (k, v) :: r, Leaf e.2 := by
  intro e he
  rcases List.mem_cons.1 he with rfl | he
  · exact hv
  · exact hr e he

/-- the stored form of a dictionary whose entries are scalars, arrays and strings -/
theorem store_dict_leaves (name : String) (entries : List (String × Value α)) (h : ∀ e ∈ entries, Leaf e.2) :
    storeThing name (.dict entries) = .ok [(name, .group (entries.map (fun e => (e.1, leafNode e.2))))] := by
  rw [storeThing_dict, storeEntries_leaves _ h]

/-- `flat` of entries that are not groups -/
theorem flat_leaves (p : List String) : ∀ l : List (String × Value α), (∀ e ∈ l, Scalar e.2) →
    flat p (l.map (fun e => (e.1, leafNode e.2))) = l.map (fun e => (p, e.1, leafNode e.2))
  | [], _ => rfl
  | (k, v) :: r, h => by
    have ih := flat_leaves p r (fun e he => h e (List.mem_cons_of_mem _ he))
    have hv : Scalar v := h (k, v) List.mem_cons_self
    rcases hv with ⟨i, rfl⟩ | ⟨x, rfl⟩ | ⟨b, rfl⟩ <;>
    · simp only [List.map_cons, flat]
      rw [ih]
      rfl

theorem leafNode_int (i : Int) : leafNode (.int i : Value α) = .num ⟨[], .ints [i]⟩ := rfl
theorem leafNode_float (x : α) : leafNode (.float x : Value α) = .num ⟨[], .floats [x]⟩ := rfl
theorem leafNode_bool (b : Bool) : leafNode (.bool b : Value α) = .num ⟨[], .bools [b]⟩ := rfl
theorem leafNode_array (a : Arr α) : leafNode (.array a : Value α) = .num a := rfl
theorem leafNode_str (t : List Nat) : leafNode (.str t : Value α) = .vstr t := rfl

/-- a leaf is stored as one entry -/
theorem flatNode_leaf (p : List String) (k : String) {v : Value α} (h : Leaf v) :
    flatNode p k (leafNode v) = [(p, k, leafNode v)] := by
  rcases h with (⟨i, rfl⟩ | ⟨x, rfl⟩ | ⟨b, rfl⟩) | ⟨a, rfl⟩ | ⟨t, rfl⟩ <;> rfl

/-! ### entries that are read back unchanged -/

/-- a scalar, an array of dimension ≥ 1 or a string -/
def WfLeaf (v : Value α) : Prop := Scalar v ∨ (∃ a, v = .array a ∧ (a.shape != []) = true) ∨ (∃ t, v = .str t)

theorem wfLeaf_scalar {v : Value α} (h : Scalar v) : WfLeaf v := Or.inl h
theorem wfLeaf_array (a : Arr α) (h : (a.shape != []) = true) : WfLeaf (Value.array a) := Or.inr (Or.inl ⟨a, rfl, h⟩)
theorem wfLeaf_str (t : List Nat) : WfLeaf (Value.str t : Value α) := Or.inr (Or.inr ⟨t, rfl⟩)

theorem wfLeaf_wf {v : Value α} (h : WfLeaf v) : Output.wfVal v = true ∧ Output.isDict v = false := by
  rcases h with (⟨i, rfl⟩ | ⟨x, rfl⟩ | ⟨b, rfl⟩) | ⟨a, rfl, ha⟩ | ⟨t, rfl⟩
  · exact ⟨rfl, rfl⟩
  · exact ⟨rfl, rfl⟩
  · exact ⟨rfl, rfl⟩
  · exact ⟨ha, rfl⟩
  · exact ⟨rfl, rfl⟩

theorem wfl_nil : ∀ e ∈ ([] : List (String × Value α)), WfLeaf e.2 := fun e he => by cases he

theorem wfl_cons {k : String} {v : Value α} {r : List (String × Value α)} (hv : WfLeaf v) (hr : ∀ e ∈ r, WfLeaf e.2) :
    ∀ e ∈ (k, v) :: r, WfLeaf e.2 := by
  intro e he
  rcases List.mem_cons.1 he with rfl | he
  · exact hv
  · exact hr e he

theorem wfl_append {l r : List (String × Value α)} (hl : ∀ e ∈ l, WfLeaf e.2) (hr : ∀ e ∈ r, WfLeaf e.2) :
    ∀ e ∈ l ++ r, WfLeaf e.2 := by
  intro e he
  rcases List.mem_append.1 he with he | he
  · exact hl e he
  · exact hr e he

theorem wfEntries_wfl : ∀ l : List (String × Value α), (∀ e ∈ l, WfLeaf e.2) → Output.wfEntries l = true
  | [], _ => rfl
  | (k, v) :: r, h => by
    simp [Output.wfEntries, (wfLeaf_wf (h (k, v) List.mem_cons_self)).1,
      wfEntries_wfl r (fun e he => h e (List.mem_cons_of_mem _ he))]

theorem notDict_wfl (l : List (String × Value α)) (h : ∀ e ∈ l, WfLeaf e.2) : ∀ e ∈ l, Output.isDict e.2 = false :=
  fun e he => (wfLeaf_wf (h e he)).2

end
end
end Taurex.C16Src
