/-
  Helper definitions and lemmas for the C18 source tie of `OnlineVariance.combine_variance` (`Props/C18Src.lean`):
  * the carrier at which the translated code is compared with the model: Python float OBJECTS (`Variance.Obj`: value +
    "is the np.nan singleton"), with arithmetic that computes the value with NaN propagation and yields a fresh object, and
    IEEE comparisons (false as soon as a NaN is involved);
  * the model's two loops written as one step per element (`step1M`, `step2M`, proved equal to `loop1` / `loop2`);
  * `loop1_gen` / `loop2_gen`: a fold whose step does what the model's step does computes the model's loop.
  Core only (no Mathlib).
-/
import TaurexModel.Variance
set_option linter.unusedSectionVars false
set_option linter.unusedVariables false

namespace Taurex.C18Src
open Taurex.Variance

section
variable {α : Type} [Add α] [Sub α] [Mul α] [Div α] [LT α] [LE α] [DecidableLT α] [DecidableLE α] [BEq α] [OfNat α 0]

/-- arithmetic on Python float objects: the value is computed with NaN propagation, the result is a fresh object (never
    the `np.nan` singleton) -/
def Obj.op (f : Val α → Val α → Val α) (a b : Obj α) : Obj α := ⟨f a.val b.val, false⟩

instance objAdd : Add (Obj α) := ⟨Obj.op vadd⟩
instance objSub : Sub (Obj α) := ⟨Obj.op vsub⟩
instance objMul : Mul (Obj α) := ⟨Obj.op vmul⟩
instance objDiv : Div (Obj α) := ⟨Obj.op vdiv⟩
instance objZero : OfNat (Obj α) 0 := ⟨Obj.ofNum 0⟩

/-- IEEE comparison: false as soon as a NaN is involved -/
def Obj.leB (a b : Obj α) : Bool :=
  match a.val, b.val with
  | Val.fin x, Val.fin y => decide (x ≤ y)
  | Val.posInf, Val.posInf => true
  | _, _ => false

def Obj.ltB (a b : Obj α) : Bool :=
  match a.val, b.val with
  | Val.fin x, Val.fin y => decide (x < y)
  | _, _ => false

instance objLE : LE (Obj α) := ⟨fun a b => Obj.leB a b = true⟩
instance objLT : LT (Obj α) := ⟨fun a b => Obj.ltB a b = true⟩
instance objDLE : DecidableLE (Obj α) := fun a b => inferInstanceAs (Decidable (Obj.leB a b = true))
instance objDLT : DecidableLT (Obj α) := fun a b => inferInstanceAs (Decidable (Obj.ltB a b = true))

theorem decide_le (a b : Obj α) : decide (a ≤ b) = Obj.leB a b := by
  show decide (Obj.leB a b = true) = _
  simp

theorem decide_lt (a b : Obj α) : decide (a < b) = Obj.ltB a b := by
  show decide (Obj.ltB a b = true) = _
  simp

theorem sum_ofNum (l : List α) (a : α) :
    List.foldl (fun (acc x : Obj α) => acc + x) (Obj.ofNum a) (l.map Obj.ofNum) = Obj.ofNum (l.foldl (· + ·) a) := by
  induction l generalizing a with
  | nil => rfl
  | cons x l ih => exact ih (a + x)

/-- one step of the model's first loop -/
def step1M (acc : Option (Val α)) (x : Obj α × α) : Option (Val α) :=
  if x.2 == 0 then acc
  else if x.1.isNpNan then acc
  else some (match acc with
    | none => vmul x.1.val (Val.fin x.2)
    | some s => vadd s (vmul x.1.val (Val.fin x.2)))

theorem loop1_fold (l : List (Obj α × α)) (acc : Option (Val α)) : loop1 l acc = l.foldl step1M acc := by
  induction l generalizing acc with
  | nil => rfl
  | cons x l ih =>
    obtain ⟨avg, cnt⟩ := x
    simp only [loop1, List.foldl_cons, step1M]
    split
    · exact ih _
    · split
      · exact ih _
      · exact ih _

/-- one step of the model's second loop; outer `none` = the Python raises -/
def step2M (isNan : Obj α → Bool) (average : Val α) (acc : Option (Val α)) (x : Obj α × α × Obj α) :
    Option (Option (Val α)) :=
  if x.2.1 == 0 then some acc
  else
    let d := vsub average x.1.val
    let t := vmul (Val.fin x.2.1) (vmul d d)
    let acc1 := if 0 < x.2.1 then some (match acc with
                                      | none => t
                                      | some s => vadd s t)
                else acc
    if isNan x.2.2 then some acc1
    else match acc1 with
      | none => none
      | some s => some (some (vadd s (vmul (Val.fin x.2.1) x.2.2.val)))

theorem loop2_cons (isNan : Obj α → Bool) (average : Val α) (x : Obj α × α × Obj α) (l : List (Obj α × α × Obj α))
    (acc : Option (Val α)) :
    loop2 isNan average (x :: l) acc = match step2M isNan average acc x with
      | none => none
      | some a => loop2 isNan average l a := by
  obtain ⟨avg, cnt, var⟩ := x
  by_cases h0 : (cnt == 0) = true
  · simp [loop2, step2M, h0]
  · by_cases hp : 0 < cnt <;> by_cases hn : isNan var = true <;> cases acc <;> simp [loop2, step2M, h0, hp, hn]

/-- the first loop of the translated `combine_variance`, for any step function that does what the model's step does -/
theorem loop1_gen (f : Option (Obj α) → Obj α × Obj α → Option (Obj α))
    (hf : ∀ g avg cnt, (f g (avg, Obj.ofNum cnt)).map Obj.val = step1M (g.map Obj.val) (avg, cnt))
    (avgs : List (Obj α)) (counts : List α) (g : Option (Obj α)) :
    (List.foldl f g (List.zip avgs (counts.map Obj.ofNum))).map Obj.val = loop1 (avgs.zip counts) (g.map Obj.val) := by
  rw [loop1_fold]
  induction avgs generalizing counts g with
  | nil => simp
  | cons a avgs ih =>
    cases counts with
    | nil => simp
    | cons c counts =>
      simp only [List.map_cons, List.zip_cons_cons, List.foldl_cons]
      rw [ih, hf]

/-- the second loop, likewise; the state is `none` once an iteration has raised -/
theorem loop2_gen (isNan : Obj α → Bool) (average : Val α)
    (f : Option (Option (Obj α)) → Obj α × Obj α × Obj α → Option (Option (Obj α)))
    (hnone : ∀ it, f none it = none)
    (hf : ∀ g avg cnt var, (f (some g) (avg, Obj.ofNum cnt, var)).map (Option.map Obj.val)
        = step2M isNan average (g.map Obj.val) (avg, cnt, var))
    (avgs vars : List (Obj α)) (counts : List α) (g : Option (Obj α)) :
    (List.foldl f (some g) (List.zip avgs (List.zip (counts.map Obj.ofNum) vars))).map (Option.map Obj.val)
      = loop2 isNan average (avgs.zip (counts.zip vars)) (g.map Obj.val) := by
  have hn : ∀ l, List.foldl f none l = none := by
    intro l
    induction l with
    | nil => rfl
    | cons x l ih => simp [hnone, ih]
  induction avgs generalizing counts vars g with
  | nil => simp [loop2]
  | cons a avgs ih =>
    cases counts with
    | nil => simp [loop2]
    | cons c counts =>
      cases vars with
      | nil => simp [loop2]
      | cons v vars =>
        simp only [List.map_cons, List.zip_cons_cons, List.foldl_cons]
        rw [loop2_cons, ← hf]
        cases hfg : f (some g) (a, Obj.ofNum c, v) with
        | none => simp [hn]
        | some g' => simpa using ih vars counts g'


theorem combine_tail (B : Option (Option (Obj α))) (av sz : Obj α) :
    Option.map (fun p : Obj α × Obj α => (p.1.val, p.2.val))
        (match B with
          | none => none
          | some squares =>
            match squares with
            | none => none
            | some squares => some (av, squares / sz))
      = match B.map (Option.map Obj.val) with
        | some (some sq) => some (av.val, vdiv sq sz.val)
        | _ => none := by
  cases B with
  | none => rfl
  | some sq => cases sq <;> rfl

end

end Taurex.C18Src
