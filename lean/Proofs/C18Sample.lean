/-
  C18 — lemmas about which posterior samples the post-processing uses (`Variance.sampleParameters`, `drawCount`).
-/
import Proofs.C18
import Mathlib.Algebra.Order.Floor.Semiring
import Mathlib.Algebra.Order.Floor.Ring
import Mathlib.Algebra.Order.Floor.Defs
import Mathlib.Algebra.Order.Archimedean.Real.Basic

namespace Taurex.Variance
open List

/-- indexing through `range` is the identity: `[l[0], l[1], …] = l` -/
theorem filterMap_range_getElem? {β γ : Type} (f : β → γ) (l : List β) :
    (List.range l.length).filterMap (fun i => l[i]?.map f) = l.map f := by
  induction l with
  | nil => simp
  | cons a t ih =>
    rw [List.length_cons, List.range_succ_eq_map, List.filterMap_cons]
    simp only [List.getElem?_cons_zero, Option.map_some, List.filterMap_map, List.map_cons]
    congr 1

/-- the whole posterior drawn in its own order is every sample once, with the floored weight -/
theorem sampleParameters_range (floor : ℝ) (samples : List (ℝ × ℝ)) :
    sampleParameters (List.range samples.length) floor samples = samples.map (fun p => (p.1, p.2 + floor)) :=
  filterMap_range_getElem? _ samples

/-- a draw that is a permutation of all indices yields a permutation of all samples -/
theorem sampleParameters_perm {draw : List ℕ} (floor : ℝ) (samples : List (ℝ × ℝ))
    (h : draw.Perm (List.range samples.length)) :
    (sampleParameters draw floor samples).Perm (samples.map (fun p => (p.1, p.2 + floor))) := by
  rw [← sampleParameters_range]
  exact h.filterMap _

/-- a draw of distinct indices below `n` yields each drawn sample once: as many samples as indices -/
theorem sampleParameters_length {draw : List ℕ} (floor : ℝ) (samples : List (ℝ × ℝ))
    (h : ∀ i ∈ draw, i < samples.length) : (sampleParameters draw floor samples).length = draw.length := by
  unfold sampleParameters
  induction draw with
  | nil => simp
  | cons a t ih =>
    have ha : a < samples.length := h a (by simp)
    rw [List.filterMap_cons]
    simp only [List.getElem?_eq_getElem ha, Option.map_some, List.length_cons]
    rw [ih (fun i hi => h i (List.mem_cons_of_mem _ hi))]

/-- `int(n * 1.0) = n` -/
theorem drawCount_one (n : ℕ) : drawCount (fun k : ℕ => (k : ℝ)) (fun x : ℝ => ⌊x⌋₊) n 1 = n := by
  unfold drawCount
  simp

/-- every yielded weight is positive (non-negative posterior weight plus the positive floor) -/
theorem sampleParameters_pos {draw : List ℕ} {floor : ℝ} (hf : 0 < floor) {samples : List (ℝ × ℝ)}
    (hw : ∀ p ∈ samples, 0 ≤ p.2) : ∀ q ∈ sampleParameters draw floor samples, 0 < q.2 := by
  intro q hq
  unfold sampleParameters at hq
  obtain ⟨i, _, hi⟩ := List.mem_filterMap.1 hq
  cases hget : samples[i]? with
  | none => simp [hget] at hi
  | some p =>
    simp only [hget, Option.map_some, Option.some.injEq] at hi
    subst hi
    have := hw p (List.mem_of_getElem? hget)
    simp only
    linarith

end Taurex.Variance
