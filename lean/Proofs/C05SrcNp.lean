/-
  Helper lemmas for the source ties of the list dialect (C05, C13, C17): the numpy primitives of
  `TaurexModel/Gen/Prelude.lean` against the list functions of the hand-written models.  Core only, every carrier.
-/
import TaurexModel.Gen.Prelude
import TaurexModel.Binning
set_option linter.unusedSectionVars false

namespace Taurex.Gen.Np
open Taurex.Binning (sortBy)

section
variable {α β γ δ ε σ : Type}
/-- the code's `if not p or not q: continue` against the model's `if p ∧ q` -/
theorem not_and_bool {p q : Prop} [Decidable p] [Decidable q] (h : ¬(p ∧ q)) :
    ((!decide p) || (!decide q)) = true := by
  by_cases hp : p <;> by_cases hq : q <;> simp_all

theorem zip2_eq (f : β → γ → δ) (a : List β) (b : List γ) (h : a.length = b.length) :
    zip2 f a b = List.zipWith f a b := by simp [zip2, h]

theorem zip2_map_map (f : β → γ → δ) (g : ε → β) (h : ε → γ) (l : List ε) :
    zip2 f (l.map g) (l.map h) = l.map (fun x => f (g x) (h x)) := by
  rw [zip2_eq _ _ _ (by simp)]
  induction l with
  | nil => rfl
  | cons a t ih => simp [ih]

theorem zip2_map_left (f : β → γ → δ) (g : γ → β) (l : List γ) :
    zip2 f (l.map g) l = l.map (fun x => f (g x) x) := by
  have := zip2_map_map f g id l
  simpa using this

theorem zip2_map_right (f : β → γ → δ) (h : β → γ) (l : List β) :
    zip2 f l (l.map h) = l.map (fun x => f x (h x)) := by
  have := zip2_map_map f id h l
  simpa using this

theorem slice_map (f : β → γ) (l : List β) (a b : Nat) : slice (l.map f) a b = (slice l a b).map f := by
  simp [slice, List.map_take, List.map_drop]

/-- a loop `for idx, x in enumerate(xs): …; out[idx] = g x` (or `continue` where `g x` is the initial value `z`) over an
    output array initialised to `z` computes `xs.map g` -/
theorem foldl_enum_set_aux (step : σ → (ε × Nat) → σ) (proj : σ → List β) (g : ε → β) (z : β)
    (hstep : ∀ st x i, proj (step st (x, i)) = (proj st).set i (g x) ∨ (proj (step st (x, i)) = proj st ∧ g x = z))
    (l : List ε) : ∀ (pre : List β) (s : σ), proj s = pre ++ List.replicate l.length z →
      proj (List.foldl step s (l.zipIdx pre.length)) = pre ++ l.map g := by
  induction l with
  | nil => intro pre s h; simpa using h
  | cons x t ih =>
    intro pre s h
    simp only [List.zipIdx_cons, List.foldl_cons]
    have h2 : proj (step s (x, pre.length)) = (pre ++ [g x]) ++ List.replicate t.length z := by
      rcases hstep s x pre.length with h1 | ⟨h1, h3⟩
      · rw [h1, h]; simp [List.replicate_succ]
      · rw [h1, h, h3]; simp [List.replicate_succ]
    have := ih (pre ++ [g x]) (step s (x, pre.length)) h2
    simpa using this

theorem foldl_enum_set (step : σ → (ε × Nat) → σ) (proj : σ → List β) (g : ε → β) (z : β)
    (hstep : ∀ st x i, proj (step st (x, i)) = (proj st).set i (g x) ∨ (proj (step st (x, i)) = proj st ∧ g x = z))
    (l : List ε) (s : σ) (h : proj s = List.replicate l.length z) :
    proj (List.foldl step s l.zipIdx) = l.map g := by
  have := foldl_enum_set_aux step proj g z hstep l [] s (by simpa using h)
  simpa using this

end

section
variable {α β γ δ ε σ : Type} [LE α] [DecidableLE α]

theorem insertBy_eq (key : β → α) (x : β) (l : List β) : insertBy key x l = Binning.insertBy key x l := by
  induction l with
  | nil => rfl
  | cons y t ih => simp [insertBy, Binning.insertBy, ih]

theorem insertBy_map (key : γ → α) (g : β → γ) (x : β) (l : List β) :
    Binning.insertBy key (g x) (l.map g) = (Binning.insertBy (fun b => key (g b)) x l).map g := by
  induction l with
  | nil => rfl
  | cons y t ih =>
    simp only [List.map_cons, Binning.insertBy]
    split <;> simp [ih]

theorem sortBy_map (key : γ → α) (g : β → γ) (l : List β) :
    sortBy key (l.map g) = (sortBy (fun b => key (g b)) l).map g := by
  induction l with
  | nil => rfl
  | cons y t ih =>
    simp only [sortBy, List.map_cons, List.foldr_cons] at ih ⊢
    rw [ih, insertBy_map]

theorem mem_insertBy (key : β → α) (x y : β) (l : List β) : y ∈ Binning.insertBy key x l ↔ y = x ∨ y ∈ l := by
  induction l with
  | nil => simp [Binning.insertBy]
  | cons z t ih =>
    simp only [Binning.insertBy]
    split
    · simp
    · simp [ih, or_left_comm]

theorem mem_sortBy (key : β → α) (y : β) (l : List β) : y ∈ sortBy key l ↔ y ∈ l := by
  induction l with
  | nil => simp [sortBy]
  | cons z t ih =>
    simp only [sortBy, List.foldr_cons] at ih ⊢
    rw [mem_insertBy, ih]; simp

theorem insertBy_congr (k1 k2 : β → α) (x : β) (l : List β) (h : ∀ y, y = x ∨ y ∈ l → k1 y = k2 y) :
    Binning.insertBy k1 x l = Binning.insertBy k2 x l := by
  induction l with
  | nil => rfl
  | cons z t ih =>
    simp only [Binning.insertBy]
    rw [h x (Or.inl rfl), h z (Or.inr (by simp))]
    split
    · rfl
    · rw [ih (fun y hy => h y (by rcases hy with hy | hy; exact Or.inl hy; exact Or.inr (by simp [hy])))]

theorem sortBy_congr (k1 k2 : β → α) (l : List β) (h : ∀ y ∈ l, k1 y = k2 y) : sortBy k1 l = sortBy k2 l := by
  induction l with
  | nil => rfl
  | cons z t ih =>
    simp only [sortBy, List.foldr_cons] at ih ⊢
    rw [ih (fun y hy => h y (by simp [hy]))]
    apply insertBy_congr
    intro y hy
    rcases hy with hy | hy
    · exact h y (by simp [hy])
    · exact h y (by simp [(mem_sortBy k2 y t).1 hy])

theorem argsort_eq (d : α) (keys : List α) :
    argsort d keys = sortBy (fun i => keys.getD i d) (List.range keys.length) := by
  unfold argsort sortBy
  congr 1
  funext i l
  exact insertBy_eq _ _ _

/-- `a[key.argsort()]`: fancy indexing of a column of a table by the argsort of its key column is that column of the
    table sorted by the model's `sortBy` -/
theorem take_argsort (key : β → α) (f : β → γ) (d0 : α) (d : γ) (l : List β) :
    take d (l.map f) (argsort d0 (l.map key)) = (sortBy key l).map f := by
  rw [argsort_eq]
  have hfst : l = l.zipIdx.map Prod.fst := by simp
  have hsnd : List.range (l.map key).length = l.zipIdx.map Prod.snd := by simp [List.range_eq_range']
  rw [hsnd, sortBy_map]
  conv => rhs; rw [hfst, sortBy_map]
  have hmem : ∀ p ∈ l.zipIdx, l[p.2]? = some p.1 := by
    intro p hp
    have := List.mem_zipIdx_iff_getElem?.1 (show (p.1, p.2) ∈ l.zipIdx from hp)
    simpa using this
  have hc : sortBy (fun b : β × Nat => (l.map key).getD b.2 d0) l.zipIdx
      = sortBy (fun b : β × Nat => key b.1) l.zipIdx := by
    apply sortBy_congr
    intro p hp
    simp [List.getD, hmem p hp]
  rw [hc]
  simp only [take, List.map_map]
  apply List.map_congr_left
  intro p hp
  have := hmem p ((mem_sortBy _ _ _).1 hp)
  simp [List.getD, this]

end

section
variable {α : Type} [Add α] [Sub α] [Mul α] [Div α] [Neg α] [LT α] [LE α]
  [DecidableLT α] [DecidableLE α] [OfNat α 0] [OfNat α 1] [OfNat α 2]
open Taurex.Binning

theorem diff_eq (l : List α) : diff l = diffs l := by
  induction l with
  | nil => rfl
  | cons a t ih =>
    cases t with
    | nil => rfl
    | cons b t => simp only [diff, diffs, ih]

theorem length_diff (l : List α) : (diff l).length = l.length - 1 := by
  induction l with
  | nil => rfl
  | cons a t ih =>
    cases t with
    | nil => rfl
    | cons b t => simp only [diff, List.length_cons, ih]; omega

/-- `wngrid[:-1] + np.diff(wngrid)/2` -/
theorem midEdges_eq (l : List α) :
    zip2 (fun x y => x + y) (List.take (l.length - 1) l) (List.map (fun x => x / 2) (diff l)) = midEdges l := by
  rw [zip2_eq _ _ _ (by simp [length_diff])]
  induction l with
  | nil => rfl
  | cons a t ih =>
    cases t with
    | nil => rfl
    | cons b t =>
      simp only [List.length_cons, Nat.add_sub_cancel, diff, List.map_cons, midEdges] at ih ⊢
      rw [List.take_succ_cons, List.zipWith_cons_cons, ih]


theorem length_diffs (l : List α) : (diffs l).length = l.length - 1 := by
  rw [← diff_eq, length_diff]

theorem length_midEdges (l : List α) : (midEdges l).length = l.length - 1 := by
  rw [← midEdges_eq, zip2_eq _ _ _ (by simp [length_diff])]
  simp [length_diff]

/-- `compute_bin_edges(g)[-1]` has one width per grid point (one width for the empty grid as well) -/
theorem length_widths (g : List α) : (computeBinEdges g).2.length = max g.length 1 := by
  simp only [computeBinEdges, List.length_map, length_diffs, List.length_cons, List.length_append, length_midEdges,
    List.length_nil]
  omega

end

section
variable {α γ : Type} [Add α] [Sub α] [Mul α] [Div α] [Neg α] [LT α] [LE α]
  [DecidableLT α] [DecidableLE α] [OfNat α 0] [OfNat α 1] [OfNat α 2]
open Taurex.Binning

theorem withWidths_map (f : Row α → γ) (hf : ∀ (r : Row α) (w : α), f { r with w := w } = f r) (R : List (Row α)) :
    ∀ (ws : List α), R.length ≤ ws.length → (withWidths R ws).map f = R.map f := by
  induction R with
  | nil => intro ws _; simp [withWidths]
  | cons r t ih =>
    intro ws h
    cases ws with
    | nil => simp at h
    | cons w ws =>
      simp only [withWidths, List.zipWith_cons_cons, List.map_cons, hf] at ih ⊢
      rw [ih ws (by simpa using h)]

theorem zipWith_withWidths (f : α → α → γ) (h : α → α) (R : List (Row α)) :
    ∀ (ws : List α), List.zipWith f (R.map Row.c) (ws.map h) = (withWidths R ws).map (fun r => f r.c (h r.w)) := by
  induction R with
  | nil => intro ws; simp [withWidths]
  | cons r t ih =>
    intro ws
    cases ws with
    | nil => simp [withWidths]
    | cons w ws =>
      simp only [withWidths, List.map_cons, List.zipWith_cons_cons] at ih ⊢
      rw [ih ws]

/-- `old_spect_wn ∓ compute_bin_edges(old_spect_wn)[-1]/2` are the edges of the rows carrying these widths -/
theorem zip2_withWidths (f : α → α → γ) (h : α → α) (R : List (Row α)) (ws : List α)
    (hlen : ws.length = max R.length 1) :
    zip2 f (R.map Row.c) (ws.map h) = (withWidths R ws).map (fun r => f r.c (h r.w)) := by
  cases R with
  | nil =>
    match ws, hlen with
    | [y], _ => simp [zip2, withWidths]
  | cons r t =>
    rw [zip2_eq _ _ _ (by simp [hlen]), zipWith_withWidths]

end

section
variable {α β γ : Type} [LE α] [DecidableLE α]
open Taurex.Binning

theorem length_insertBy (key : β → α) (x : β) (l : List β) : (Binning.insertBy key x l).length = l.length + 1 := by
  induction l with
  | nil => rfl
  | cons y t ih =>
    simp only [Binning.insertBy]
    split <;> simp [ih]

theorem length_sortBy (key : β → α) (l : List β) : (sortBy key l).length = l.length := by
  induction l with
  | nil => rfl
  | cons y t ih =>
    simp only [sortBy, List.foldr_cons] at ih ⊢
    rw [length_insertBy, ih]; rfl

theorem zipWith_tbin_c (l : List (TBin α)) : ∀ (ws : List α), l.length ≤ ws.length →
    (List.zipWith (fun t w => ({ t with w := w } : TBin α)) l ws).map TBin.c = l.map TBin.c := by
  induction l with
  | nil => intro ws _; simp
  | cons t l ih =>
    intro ws h
    cases ws with
    | nil => simp at h
    | cons w ws => simp only [List.zipWith_cons_cons, List.map_cons]; rw [ih ws (by simpa using h)]

theorem zipWith_tbin_w (l : List (TBin α)) : ∀ (ws : List α), ws.length ≤ l.length →
    (List.zipWith (fun t w => ({ t with w := w } : TBin α)) l ws).map TBin.w = ws := by
  induction l with
  | nil => intro ws h; cases ws with
    | nil => rfl
    | cons w ws => simp at h
  | cons t l ih =>
    intro ws h
    cases ws with
    | nil => simp
    | cons w ws => simp only [List.zipWith_cons_cons, List.map_cons]; rw [ih ws (by simpa using h)]
end

section
variable {α β : Type} [Add α] [Sub α] [Div α] [OfNat α 2]
open Taurex.Binning

/-- the target bins as the loop sees them: `zip(new_spec_wn, new_spec_wn_min, new_spec_wn_max)` -/
theorem targets_map (g : α → α → β) (targets : List (TBin α)) :
    List.map (fun t => g t.lo t.hi) targets
      = List.map (fun x : α × α × α => g x.2.1 x.2.2)
          (List.map (fun a : TBin α => (a.c, a.c - a.w / 2, a.c + a.w / 2)) targets) := by
  simp only [List.map_map, Function.comp_def, TBin.lo, TBin.hi]

end

end Taurex.Gen.Np

namespace Taurex.C05Src
open Taurex.Binning Taurex.Gen

/-- the loop of `FluxBinner.bindown` over the target bins, on native rows `R` that are already sorted and carry their
    widths: the component `proj` of the loop state (the output array) ends as `targets.map g`.  The step obligation is
    discharged by unfolding the regenerated loop body and the model (`window`, `fluxBinVal`, `fluxBinErr`) to the same
    term. -/
macro "bindown_loop" α:term "," R:term "," proj:term "," g:term : tactic => `(tactic| (
  simp only [List.map_map, Np.zip2_map_map, List.zip_map', Function.comp_def]
  rw [Np.targets_map $g]
  refine Np.foldl_enum_set _ $proj _ 0 ?_ _ _ ?_
  · intro st x i
    rcases x with ⟨wn, a, b⟩
    have hhi : (fun x : Row $α => x.c + x.w / 2) = Row.hi := rfl
    have hlo : (fun x : Row $α => x.c - x.w / 2) = Row.lo := rfl
    have hsr : ∀ (l : List $α) (v : $α), Np.searchsortedRight l v = Interp.searchRight l v := fun _ _ => rfl
    simp only [hhi, hlo, hsr, List.length_map]
    by_cases hc : a ≤ (($R).map Row.hi).getD (min (Interp.searchRight (($R).map Row.hi) a) (($R).length - 1)) 0 ∧
        (($R).map Row.lo).getD (min (Interp.searchRight ((($R).map Row.lo).drop 1) b) (($R).length - 1)) 0 ≤ b
    · left
      have hw : window $R a b = some (min (Interp.searchRight (($R).map Row.hi) a) (($R).length - 1),
          min (Interp.searchRight ((($R).map Row.lo).drop 1) b) (($R).length - 1)) := by
        simp only [window]; rw [if_pos hc]
      simp only [hc.1, hc.2, decide_true, Bool.not_true, Bool.or_self, Bool.false_eq_true, if_false, fluxBinVal,
        fluxBinErr, fluxBinNoise, hw]
      congr 1
      simp only [Np.slice_map, List.map_map, Np.zip2_map_map, Function.comp_def, List.length_map]
      rfl
    · right
      have hw : window $R a b = none := by
        simp only [window]; rw [if_neg hc]
      have hg := Np.not_and_bool hc
      simp only [hg, if_true, fluxBinVal, fluxBinErr, fluxBinNoise, hw, and_self]
  · simp))


section
variable {α : Type} [Add α] [Sub α] [Mul α] [Div α] [Neg α] [LT α] [LE α]
  [DecidableLT α] [DecidableLE α] [OfNat α 0] [OfNat α 1] [OfNat α 2]

/-- `np.histogram(x, edges)`: the number of points per bin `[e_i, e_{i+1})` (the last bin closed), as a sum of ones; returned
    together with the edges -/
def npHistogram (x edges : List α) : List α × List α :=
  ((edgePairs edges).map (fun p => sumL ((x.filter (fun c => inHist p.1 p.2.1 p.2.2 c)).map (fun _ => (1 : α)))), edges)

/-- `np.histogram(x, edges, weights=w)`: the sum of the weights of the points per bin -/
def npHistogramW (x edges w : List α) : List α × List α :=
  ((edgePairs edges).map (fun p => sumL (((x.zip w).filter (fun q => inHist p.1 p.2.1 p.2.2 q.1)).map (·.2))), edges)

/-- `(new_bin[1:] + new_bin[:-1])/2` -/
theorem midPts_eq (l : List α) :
    List.map (fun x => x / 2) (Np.zip2 (fun x y => x + y) (List.drop 1 l) (List.take (l.length - 1) l)) = midPts l := by
  rw [Np.zip2_eq _ _ _ (by simp)]
  induction l with
  | nil => rfl
  | cons a t ih =>
    cases t with
    | nil => rfl
    | cons b t =>
      simp only [List.length_cons, Nat.add_sub_cancel, List.drop_succ_cons, List.drop_zero, midPts] at ih ⊢
      rw [List.take_succ_cons, List.zipWith_cons_cons, List.map_cons, ih]

theorem length_midPts (l : List α) : (midPts l).length = l.length - 1 := by
  rw [← midPts_eq, Np.zip2_eq _ _ _ (by simp)]; simp

/-- the edge array assembled by element and slice stores into `np.zeros(n+1)` -/
theorem edges_assembled (n : Nat) (hn : 1 ≤ n) (z a a' b b' : α) (mids : List α) (hm : mids.length = n - 1) :
    Np.setSlice ((((List.replicate (n + 1) z).set 0 a).set 0 a').set n b |>.set n b') 1 n mids = a' :: (mids ++ [b']) := by
  obtain ⟨m, rfl⟩ : ∃ m, n = m + 1 := ⟨n - 1, by omega⟩
  have h1 : List.replicate (m + 1 + 1) z = z :: (List.replicate m z ++ [z]) := by
    rw [List.replicate_succ, List.replicate_succ']
  rw [h1]
  simp only [List.set_cons_zero, List.set_cons_succ]
  have h2 : ∀ (x y : α), (List.replicate m z ++ [x]).set m y = List.replicate m z ++ [y] := by
    intro x y
    rw [List.set_append_right _ _ (by simp)]
    simp
  rw [h2, h2]
  simp only [Np.setSlice, List.take_succ_cons, List.take_zero, List.drop_succ_cons]
  rw [List.drop_append_of_le_length (by simp)]
  simp

end

end Taurex.C05Src
