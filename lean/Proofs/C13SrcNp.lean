/-
  Helper lemmas for the C13 source tie: boolean masks, `np.where`, `take`, `np.arange` of the list-dialect prelude.
-/
import TaurexModel.Gen.Prelude
import TaurexModel.Grid
set_option linter.unusedSectionVars false

namespace Taurex.Gen.Np

section
variable {α β γ : Type}

/-- `a[mask]` with `mask = p(a)` element-wise is `filter` -/
theorem compress_map (p : β → Bool) (l : List β) : compress l (l.map p) = l.filter p := by
  induction l with
  | nil => rfl
  | cons a t ih =>
    simp only [compress, List.map_cons, List.zip_cons_cons, List.filterMap_cons, List.filter_cons] at ih ⊢
    cases h : p a <;> simp [ih]

theorem take_nil (d : β) (l : List β) : take d l [] = [] := rfl

theorem take_cons (d : β) (l : List β) (i : Nat) (idx : List Nat) :
    take d l (i :: idx) = l.getD i d :: take d l idx := rfl

/-- `a[np.where(mask)[0]]` is `a[mask]` -/
theorem take_whereFrom (d : β) (m : List Bool) : ∀ (pre l : List β), m.length ≤ l.length →
    take d (pre ++ l) (whereFrom pre.length m) = compress l m := by
  induction m with
  | nil => intro pre l _; simp [whereFrom, take_nil, compress]
  | cons b t ih =>
    intro pre l h
    cases l with
    | nil => simp at h
    | cons x l =>
      have h' : t.length ≤ l.length := by simpa using h
      have := ih (pre ++ [x]) l h'
      simp only [List.length_append, List.length_cons, List.length_nil, List.append_assoc, List.singleton_append] at this
      cases b
      · simp only [whereFrom, Bool.false_eq_true, if_false, this]
        simp [compress]
      · simp only [whereFrom, if_true, take_cons, this]
        simp [compress]

theorem take_where (d : β) (m : List Bool) (l : List β) (h : m.length ≤ l.length) :
    take d l (where_ m) = compress l m := by
  simpa [where_] using take_whereFrom d m [] l h

/-- the companion column of a table selected by a mask computed from the key column -/
theorem compress_zip (p : β → Bool) (l : List β) : ∀ (v : List γ),
    compress v (l.map p) = ((l.zip v).filter (fun q => p q.1)).map (·.2) := by
  induction l with
  | nil => intro v; simp [compress]
  | cons a t ih =>
    intro v
    cases v with
    | nil => simp [compress]
    | cons y v =>
      have := ih v
      simp only [compress, List.map_cons, List.zip_cons_cons, List.filterMap_cons, List.filter_cons] at this ⊢
      cases h : p a <;> simp [this]

theorem filter_zip_fst (p : β → Bool) (l : List β) : ∀ (v : List γ), l.length ≤ v.length →
    ((l.zip v).filter (fun q => p q.1)).map (·.1) = l.filter p := by
  induction l with
  | nil => intro v _; simp
  | cons a t ih =>
    intro v h
    cases v with
    | nil => simp at h
    | cons y v =>
      have := ih v (by simpa using h)
      simp only [List.zip_cons_cons, List.filter_cons]
      cases h : p a <;> simp [this]

/-- `a[np.arange(lo, lo+k)]` is the slice `a[lo:lo+k]` when it lies inside the array -/
theorem take_range' (d : β) (l : List β) : ∀ (k lo : Nat), lo + k ≤ l.length →
    take d l (List.range' lo k) = (l.drop lo).take k := by
  intro k
  induction k with
  | zero => intro lo _; simp [take]
  | succ k ih =>
    intro lo h
    have hlt : lo < l.length := by omega
    rw [List.range'_succ, take_cons, ih (lo + 1) (by omega), List.drop_eq_getElem_cons hlt, List.take_succ_cons]
    simp [List.getD, hlt]

end

section
variable {α : Type} [LE α] [DecidableLE α]
theorem arrayEqual_eq (a b : List α) : arrayEqual a b = Grid.eqL a b := by
  induction a generalizing b with
  | nil => cases b <;> rfl
  | cons x t ih => cases b with
    | nil => rfl
    | cons y s => simp only [arrayEqual, Grid.eqL, ih]
end
end Taurex.Gen.Np

namespace Taurex.C13Src
open Taurex.Grid

section
variable {α : Type} [Add α] [Sub α] [Mul α] [Div α] [Neg α] [LT α] [LE α]
  [DecidableLT α] [DecidableLE α] [OfNat α 0] [OfNat α 1] [OfNat α 2]

/-- the second `np.array_equal` test of `Opacity.opacity`, on the bracketing index range -/
def bracketEq (nativeWn req : List α) : Bool :=
  let lo := Interp.searchRight nativeWn (minL req) - 1
  let hi := min (Interp.searchLeft nativeWn (maxL req)) (nativeWn.length - 1)
  eqL ((nativeWn.drop lo).take (hi + 1 - lo)) req

end
end Taurex.C13Src
