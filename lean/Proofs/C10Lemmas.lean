/-
  Lemmas for C10 (chemistry mixture and gas profiles) over the real carrier.
-/
import Proofs.NpInterp
import TaurexModel.Chemistry

namespace Taurex.Chemistry
open Taurex.NpInterp

/-! ### the element-wise total of the trace rows -/

/-- value of layer `j` in each row -/
def column (rows : List (List ℝ)) (j : Nat) : List ℝ := rows.map (fun r => r.getD j 0)

theorem foldl_rows_length (n : Nat) : ∀ (rows : List (List ℝ)) (acc : List ℝ), acc.length = n →
    (∀ r ∈ rows, r.length = n) →
    (rows.foldl (fun acc row => List.zipWith (· + ·) acc row) acc).length = n
  | [], acc, ha, _ => ha
  | r :: rows, acc, ha, hr => by
    simp only [List.foldl_cons]
    apply foldl_rows_length n rows
    · simp [ha, hr r (by simp)]
    · exact fun x hx => hr x (List.mem_cons_of_mem _ hx)

theorem foldl_rows_getD (n j : Nat) (hj : j < n) : ∀ (rows : List (List ℝ)) (acc : List ℝ), acc.length = n →
    (∀ r ∈ rows, r.length = n) →
    (rows.foldl (fun acc row => List.zipWith (· + ·) acc row) acc).getD j 0 =
      acc.getD j 0 + sumL (column rows j)
  | [], acc, _, _ => by simp [column]
  | r :: rows, acc, ha, hr => by
    simp only [List.foldl_cons]
    have hrl := hr r (by simp)
    rw [foldl_rows_getD n j hj rows _ (by simp [ha, hrl]) (fun x hx => hr x (List.mem_cons_of_mem _ hx))]
    have e : (List.zipWith (· + ·) acc r).getD j 0 = acc.getD j 0 + r.getD j 0 := by
      rw [getD_eq _ _ (by simp [ha, hrl]; exact hj), getD_eq _ _ (by omega), getD_eq _ _ (by omega)]
      simp
    rw [e]
    simp only [column, List.map_cons, sumL_cons]
    ring

theorem totalMix_length (traces : List (List ℝ)) (n : Nat) (hr : ∀ r ∈ traces, r.length = n) :
    (totalMix traces n).length = n :=
  foldl_rows_length n traces _ (by simp) hr

/-- layer `j` of `sum(mix_profile)` is the sum over the rows of their layer-`j` values -/
theorem totalMix_getD (traces : List (List ℝ)) (n j : Nat) (hj : j < n) (hr : ∀ r ∈ traces, r.length = n) :
    (totalMix traces n).getD j 0 = sumL (column traces j) := by
  unfold totalMix
  rw [foldl_rows_getD n j hj traces _ (by simp) hr]
  rw [getD_eq _ _ (by simpa using hj)]
  simp

/-! ### fill gases -/

theorem sumL_map_mul_right (c : ℝ) (l : List ℝ) : sumL (l.map (fun x => x * c)) = sumL l * c := by
  have : (fun x : ℝ => x * c) = (fun x => c * x) := by funext x; ring
  rw [this, sumL_map_mul]; ring

theorem column_append (a b : List (List ℝ)) (j : Nat) : column (a ++ b) j = column a j ++ column b j := by
  simp [column]

theorem getD_map_mul (c : ℝ) (l : List ℝ) (j : Nat) : (l.map (fun m => c * m)).getD j 0 = c * l.getD j 0 := by
  by_cases h : j < l.length
  · rw [getD_eq _ _ (by simpa using h), getD_eq _ _ h]; simp
  · rw [getD_default _ _ (by simpa using h), getD_default _ _ (by omega)]; simp

theorem getD_map_mul_right (c : ℝ) (l : List ℝ) (j : Nat) :
    (l.map (fun m => m * c)).getD j 0 = l.getD j 0 * c := by
  have : (fun x : ℝ => x * c) = (fun x => c * x) := by funext x; ring
  rw [this, getD_map_mul]; ring

theorem fillAtmosphere_many (nFill : Nat) (ratios rem : List ℝ) (h1 : nFill ≠ 1)
    (hl : ratios.length = nFill - 1) :
    fillAtmosphere nFill ratios rem =
      rem.map (fun r => r * (1 / (1 + sumL ratios))) ::
        ratios.map (fun ratio => (rem.map (fun r => r * (1 / (1 + sumL ratios)))).map (fun m => ratio * m)) := by
  unfold fillAtmosphere
  rw [if_neg h1, ← hl, List.take_length]

/-- the fill rows of layer `j` add up to the remainder of that layer -/
theorem fill_column_sum (nFill : Nat) (ratios rem : List ℝ) (j : Nat) (hl : nFill ≠ 1 → ratios.length = nFill - 1)
    (hS : 1 + sumL ratios ≠ 0) : sumL (column (fillAtmosphere nFill ratios rem) j) = rem.getD j 0 := by
  by_cases h1 : nFill = 1
  · subst h1
    simp [fillAtmosphere, column, sumL_cons]
  · rw [fillAtmosphere_many nFill ratios rem h1 (hl h1)]
    simp only [column, List.map_cons, sumL_cons]
    rw [List.map_map]
    have : (ratios.map ((fun r => r.getD j 0) ∘ fun ratio =>
        (rem.map (fun r => r * (1 / (1 + sumL ratios)))).map (fun m => ratio * m))) =
        ratios.map (fun ratio => ratio * (rem.getD j 0 * (1 / (1 + sumL ratios)))) := by
      apply List.map_congr_left
      intro r _
      simp only [Function.comp]
      rw [getD_map_mul, getD_map_mul_right]
    rw [this, getD_map_mul_right, sumL_map_mul_right]
    field_simp

theorem fill_rows_length (nFill : Nat) (ratios rem : List ℝ) : ∀ r ∈ fillAtmosphere nFill ratios rem,
    r.length = rem.length := by
  intro r hr
  unfold fillAtmosphere at hr
  split_ifs at hr with h
  · simp at hr; rw [hr]
  · simp only [List.mem_cons, List.mem_map] at hr
    rcases hr with rfl | ⟨ratio, _, rfl⟩ <;> simp

theorem fill_length (nFill : Nat) (ratios rem : List ℝ) (h0 : 1 ≤ nFill) (hl : nFill ≠ 1 → ratios.length = nFill - 1) :
    (fillAtmosphere nFill ratios rem).length = nFill := by
  by_cases h1 : nFill = 1
  · subst h1; simp [fillAtmosphere]
  · rw [fillAtmosphere_many nFill ratios rem h1 (hl h1)]
    simp [hl h1]; omega

theorem fill_nonneg (nFill : Nat) (ratios rem : List ℝ) (hr : ∀ r ∈ ratios, 0 ≤ r) (hrem : ∀ x ∈ rem, 0 ≤ x) :
    ∀ r ∈ fillAtmosphere nFill ratios rem, ∀ x ∈ r, 0 ≤ x := by
  have hS : 0 ≤ sumL ratios := sumL_nonneg _ hr
  have hinv : 0 ≤ 1 / (1 + sumL ratios) := div_nonneg zero_le_one (by linarith)
  intro r hr' x hx
  unfold fillAtmosphere at hr'
  split_ifs at hr' with h
  · simp at hr'; subst hr'; exact hrem x hx
  · simp only [List.mem_cons, List.mem_map] at hr'
    rcases hr' with rfl | ⟨ratio, hratio, rfl⟩
    · simp only [List.mem_map] at hx
      obtain ⟨y, hy, rfl⟩ := hx
      exact mul_nonneg (hrem y hy) hinv
    · simp only [List.mem_map] at hx
      obtain ⟨m, ⟨y, hy, rfl⟩, rfl⟩ := hx
      exact mul_nonneg (hr _ (List.mem_of_mem_take hratio)) (mul_nonneg (hrem y hy) hinv)

/-! ### the mixture -/

theorem mixProfile_ok (nFill : Nat) (ratios : List ℝ) (traces : List (List ℝ)) (n : Nat) (rows : List (List ℝ))
    (h : mixProfile nFill ratios traces n = .ok rows) :
    (1 < nFill → ratios.length = nFill - 1) ∧ (∀ t ∈ totalMix traces n, t ≤ 1) ∧
      rows = fillAtmosphere nFill ratios ((totalMix traces n).map (fun t => 1 - t)) ++ traces := by
  unfold mixProfile at h
  simp only [] at h
  split_ifs at h with h1 h2
  injection h with h
  refine ⟨?_, ?_, h.symm⟩
  · intro hn
    by_contra hne
    exact h1 ⟨hn, hne⟩
  · intro t ht
    by_contra hlt
    apply h2
    rw [List.any_eq_true]
    exact ⟨t, ht, by simpa using not_le.1 hlt⟩

theorem rem_getD (total : List ℝ) (j : Nat) (hj : j < total.length) :
    (total.map (fun t => 1 - t)).getD j 0 = 1 - total.getD j 0 := by
  rw [getD_eq _ _ (by simpa using hj), getD_eq _ _ hj]; simp

/-! ### mean molecular weight -/

theorem muProfile_eq_totalMix (mix : List (List ℝ)) (masses : List ℝ) (n : Nat) :
    muProfile mix masses n = totalMix ((mix.zip masses).map (fun rm => rm.1.map (fun x => x * rm.2))) n := by
  unfold muProfile totalMix
  rw [List.foldl_map]

/-- layer `j` of `muProfile` is the mass-weighted sum of the layer-`j` abundances -/
theorem muProfile_getD (mix : List (List ℝ)) (masses : List ℝ) (n j : Nat) (hj : j < n)
    (hr : ∀ r ∈ mix, r.length = n) :
    (muProfile mix masses n).getD j 0 = sumL ((mix.zip masses).map (fun rm => rm.1.getD j 0 * rm.2)) := by
  rw [muProfile_eq_totalMix, totalMix_getD _ n j hj]
  · simp only [column, List.map_map]
    congr 1
    apply List.map_congr_left
    intro rm _
    simp only [Function.comp]
    exact getD_map_mul_right _ _ _
  · intro r hr'
    simp only [List.mem_map] at hr'
    obtain ⟨rm, hrm, rfl⟩ := hr'
    simp [hr _ (List.of_mem_zip hrm).1]

/-! ### active / inactive split -/

theorem maskFrom_map (keep : String → Bool) : ∀ (gs pre : List String) (s : Nat), pre.length = s →
    (maskFrom keep gs s).map (fun i => (pre ++ gs).getD i "") = gs.filter keep
  | [], _, _, _ => by simp [maskFrom]
  | g :: t, pre, s, hs => by
    have ih := maskFrom_map keep t (pre ++ [g]) (s + 1) (by simp [hs])
    rw [List.append_assoc, List.singleton_append] at ih
    have hg : (pre ++ g :: t).getD s "" = g := by
      rw [getD_eq _ _ (by simp [hs])]
      simp [← hs]
    unfold maskFrom
    by_cases hk : keep g = true
    · simp only [hk, if_true, List.map_cons, ih, hg, List.filter_cons_of_pos hk]
    · simp only [hk, Bool.false_eq_true, if_false, ih, List.filter_cons_of_neg hk]

/-- the mask position of the first occurrence of a kept gas in the filtered list is its position in the
    full gas list -/
theorem maskFrom_idxOf (keep : String → Bool) (g : String) (hk : keep g = true) : ∀ (gs : List String) (s : Nat),
    g ∈ gs → (maskFrom keep gs s).getD ((gs.filter keep).idxOf g) 0 = s + gs.idxOf g
  | [], _, h => by simp at h
  | x :: t, s, h => by
    unfold maskFrom
    by_cases hx : x = g
    · subst hx
      simp [hk]
    · have ht : g ∈ t := by
        rcases List.mem_cons.1 h with h | h
        · exact absurd h.symm hx
        · exact h
      have ih := maskFrom_idxOf keep g hk t (s + 1) ht
      have hbeq : (x == g) = false := by simpa using hx
      by_cases hkx : keep x = true
      · simp only [hkx, if_true, List.filter_cons_of_pos hkx, List.idxOf_cons, hbeq, cond_false]
        rw [List.getD_cons_succ, ih]
        omega
      · simp only [hkx, Bool.false_eq_true, if_false, List.filter_cons_of_neg hkx, List.idxOf_cons, hbeq,
          cond_false]
        rw [ih]
        omega

theorem selectRows_getD {β : Type} (mix : List (List β)) (mask : List Nat) (k : Nat) (hk : k < mask.length) :
    (selectRows mix mask).getD k [] = mix.getD (mask.getD k 0) [] := by
  unfold selectRows
  rw [getD_eq _ _ (by simpa using hk), getD_eq _ _ hk]
  simp

theorem maskFrom_length (keep : String → Bool) : ∀ (gs : List String) (s : Nat),
    (maskFrom keep gs s).length = (gs.filter keep).length
  | [], _ => by simp [maskFrom]
  | g :: t, s => by
    unfold maskFrom
    by_cases hk : keep g = true
    · simp [hk, maskFrom_length keep t (s + 1)]
    · simp [hk, maskFrom_length keep t (s + 1)]

/-! ### gas profiles -/

theorem log10_pos_const : 0 < Real.log 10 := Real.log_pos (by norm_num)

theorem pow10_log10 {x : ℝ} (hx : 0 < x) : (pow10 (log10 x) : ℝ) = x := by
  simp only [pow10_real, log10_real]
  rw [Real.rpow_def_of_pos (by norm_num : (0 : ℝ) < 10), mul_div_cancel₀ _ log10_pos_const.ne', Real.exp_log hx]

theorem log10_pow10 (y : ℝ) : (log10 (pow10 y) : ℝ) = y := by
  simp only [pow10_real, log10_real]
  rw [Real.log_rpow (by norm_num : (0 : ℝ) < 10), mul_div_cancel_right₀ _ log10_pos_const.ne']

theorem pow10_le_pow10 {x y : ℝ} (h : x ≤ y) : (pow10 x : ℝ) ≤ pow10 y := by
  simp only [pow10_real]
  exact Real.rpow_le_rpow_of_exponent_le (by norm_num) h

theorem pow10_pos (x : ℝ) : 0 < (pow10 x : ℝ) := by
  simp only [pow10_real]
  exact Real.rpow_pos_of_pos (by norm_num) x

theorem log10_le_log10 {a b : ℝ} (ha : 0 < a) (hab : a ≤ b) : (log10 a : ℝ) ≤ log10 b := by
  simp only [log10_real]
  exact div_le_div_of_nonneg_right (Real.log_le_log ha hab) log10_pos_const.le

theorem log10_lt_log10 {a b : ℝ} (ha : 0 < a) (hab : a < b) : (log10 a : ℝ) < log10 b := by
  simp only [log10_real]
  exact div_lt_div_of_pos_right (Real.log_lt_log ha hab) log10_pos_const

/-- a value whose log10 lies between the log10 of two positive bounds lies between the bounds -/
theorem pow10_within {lo hi e : ℝ} (hlo : 0 < lo) (hhi : 0 < hi) (h1 : log10 lo ≤ e) (h2 : e ≤ log10 hi) :
    lo ≤ (pow10 e : ℝ) ∧ (pow10 e : ℝ) ≤ hi := by
  constructor
  · calc lo = pow10 (log10 lo) := (pow10_log10 hlo).symm
      _ ≤ pow10 e := pow10_le_pow10 h1
  · calc (pow10 e : ℝ) ≤ pow10 (log10 hi) := pow10_le_pow10 h2
      _ = hi := pow10_log10 hhi

theorem constantGas_spec (mix : ℝ) (n : Nat) : (constantGas mix n).length = n ∧ ∀ v ∈ constantGas mix n, v = mix := by
  unfold constantGas
  refine ⟨List.length_replicate, fun v hv => ?_⟩
  rw [(List.mem_replicate.1 hv).2, mul_one]

theorem twoPointGas_length (surf top : ℝ) (pressure : List ℝ) : (twoPointGas surf top pressure).length = pressure.length := by
  simp [twoPointGas]

/-- TwoPointGas: with control values in `[lo, hi]` (`lo > 0`) and every layer pressure between the top and
    the surface pressure, every abundance is in `[lo, hi]` -/
theorem twoPointGas_within {lo hi : ℝ} (surf top : ℝ) (pressure : List ℝ) (hlo : 0 < lo)
    (hs : lo ≤ surf ∧ surf ≤ hi) (ht : lo ≤ top ∧ top ≤ hi)
    (hpos : 0 < pressure.getD (pressure.length - 1) 0)
    (hlt : pressure.getD (pressure.length - 1) 0 < pressure.getD 0 0)
    (hp : ∀ p ∈ pressure, pressure.getD (pressure.length - 1) 0 ≤ p ∧ p ≤ pressure.getD 0 0) :
    Within lo hi (twoPointGas surf top pressure) := by
  intro v hv
  unfold twoPointGas at hv
  simp only [List.mem_map, List.mem_range] at hv
  obtain ⟨i, hi', rfl⟩ := hv
  split_ifs with h1 h2
  · exact ht
  · exact hs
  · set pN := pressure.getD (pressure.length - 1) 0 with hpN
    set p0 := pressure.getD 0 0 with hp0
    have hmem : pressure.getD i 0 ∈ pressure := by
      rw [getD_eq _ _ hi']; exact List.getElem_mem _
    obtain ⟨hge, hle⟩ := hp _ hmem
    set p := pressure.getD i 0
    have hsurf : 0 < surf := lt_of_lt_of_le hlo hs.1
    have htop : 0 < top := lt_of_lt_of_le hlo ht.1
    have hhi : 0 < hi := lt_of_lt_of_le hsurf hs.2
    have hp0pos : 0 < p0 := lt_trans hpos hlt
    have hppos : 0 < p := lt_of_lt_of_le hpos hge
    have hL : (log10 pN : ℝ) < log10 p0 := log10_lt_log10 hpos hlt
    have hx0 : (log10 pN : ℝ) ≤ log10 p := log10_le_log10 hpos hge
    have hx1 : (log10 p : ℝ) ≤ log10 p0 := log10_le_log10 hppos hle
    have hd : 0 < (log10 p0 : ℝ) - log10 pN := by linarith
    -- exponent = (1 - s) * log10 surf + s * log10 top with s in [0, 1]
    set s := ((log10 p0 : ℝ) - log10 p) / (log10 p0 - log10 pN) with hsdef
    have hs0 : 0 ≤ s := div_nonneg (by linarith) hd.le
    have hs1 : s ≤ 1 := by rw [hsdef, div_le_one hd]; linarith
    have e : (log10 surf - log10 top) / (log10 p0 - log10 pN) * log10 p +
        (log10 surf - (log10 surf - log10 top) / (log10 p0 - log10 pN) * log10 p0) =
        (1 - s) * log10 surf + s * (log10 top : ℝ) := by
      rw [hsdef]; field_simp; ring
    rw [e]
    have b1 := log10_le_log10 hlo hs.1
    have b2 := log10_le_log10 hsurf hs.2
    have b3 := log10_le_log10 hlo ht.1
    have b4 := log10_le_log10 htop ht.2
    apply pow10_within hlo hhi
    · nlinarith [mul_nonneg hs0 (sub_nonneg.2 b3), mul_nonneg (sub_nonneg.2 hs1) (sub_nonneg.2 b1)]
    · nlinarith [mul_nonneg hs0 (sub_nonneg.2 b4), mul_nonneg (sub_nonneg.2 hs1) (sub_nonneg.2 b2)]

theorem arrayGas_length (arr : List ℝ) (n : Nat) : (arrayGas arr n).length = n := by
  simp [arrayGas, linspace_length]

theorem arrayGas_within {lo hi : ℝ} (arr : List ℝ) (n : Nat) (hne : 0 < arr.length) (h : Within lo hi arr) :
    Within lo hi (arrayGas arr n) := by
  intro v hv
  unfold arrayGas at hv
  simp only [List.mem_map] at hv
  obtain ⟨x, _, rfl⟩ := hv
  exact npInterp_between _ _ _ (linspace_length _ _ _) (by rw [linspace_length]; exact hne)
    (linspace_sorted 0 1 _ (by norm_num)) h

/-- the power-law combination: positive and at most the deep-atmosphere abundance -/
theorem power_value_bounds {a0 ad : ℝ} (h0 : 0 < a0) (hd : 0 < ad) :
    0 < (1 / (1 / sqrt a0 + 1 / sqrt ad)) * (1 / (1 / sqrt a0 + 1 / sqrt ad)) ∧
      (1 / (1 / sqrt a0 + 1 / sqrt ad)) * (1 / (1 / sqrt a0 + 1 / sqrt ad)) ≤ a0 := by
  simp only [sqrt_real]
  have hs0 : 0 < Real.sqrt a0 := Real.sqrt_pos.2 h0
  have hsd : 0 < Real.sqrt ad := Real.sqrt_pos.2 hd
  have hm : 0 < 1 / Real.sqrt a0 + 1 / Real.sqrt ad := by positivity
  have hle : 1 / (1 / Real.sqrt a0 + 1 / Real.sqrt ad) ≤ Real.sqrt a0 := by
    rw [div_le_iff₀ hm]
    have : Real.sqrt a0 * (1 / Real.sqrt a0) = 1 := by field_simp
    nlinarith [mul_pos hs0 (by positivity : 0 < 1 / Real.sqrt ad)]
  have hpos : 0 < 1 / (1 / Real.sqrt a0 + 1 / Real.sqrt ad) := by positivity
  refine ⟨mul_pos hpos hpos, ?_⟩
  calc 1 / (1 / Real.sqrt a0 + 1 / Real.sqrt ad) * (1 / (1 / Real.sqrt a0 + 1 / Real.sqrt ad))
      ≤ Real.sqrt a0 * Real.sqrt a0 := mul_le_mul hle hle hpos.le hs0.le
    _ = a0 := Real.mul_self_sqrt h0.le

theorem powerGas_within (ms alpha beta gamma bf : ℝ) (pressure temperature : List ℝ) (h0 : 0 < ms) :
    ∀ v ∈ powerGas ms alpha beta gamma bf pressure temperature, 0 < v ∧ v ≤ ms := by
  intro v hv
  unfold powerGas at hv
  obtain ⟨i, hidx, rfl⟩ := List.mem_iff_getElem.1 hv
  rw [List.getElem_zipWith]
  apply power_value_bounds h0
  simp only [exp_real]
  exact mul_pos (mul_pos (pow10_pos _) (Real.exp_pos _)) (pow10_pos _)

theorem powerGas_length (ms alpha beta gamma bf : ℝ) (pressure temperature : List ℝ) :
    (powerGas ms alpha beta gamma bf pressure temperature).length = min pressure.length temperature.length := by
  simp [powerGas]

/-! ### TwoLayerGas -/

theorem argminAbs_go_lt (target : ℝ) : ∀ (rest : List ℝ) (i best : Nat) (bv : ℝ), best < i →
    argminAbs.go target rest i best bv < i + rest.length
  | [], i, best, bv, h => by simpa [argminAbs.go] using h
  | v :: rest, i, best, bv, h => by
    unfold argminAbs.go
    simp only []
    split_ifs
    · have := argminAbs_go_lt target rest (i + 1) i (absv (v - target)) (by omega)
      simp only [List.length_cons]; omega
    · have := argminAbs_go_lt target rest (i + 1) best bv (by omega)
      simp only [List.length_cons]; omega

theorem argminAbs_lt (p : List ℝ) (target : ℝ) (hne : 0 < p.length) : argminAbs p target < p.length := by
  unfold argminAbs
  cases p with
  | nil => simp at hne
  | cons v rest =>
    have := argminAbs_go_lt target rest 1 0 (absv (v - target)) (by omega)
    simp only [List.length_cons]; omega

theorem antitone_getD (p : List ℝ) (hs : p.Pairwise (fun a b => b ≤ a)) {i j : Nat} (hij : i ≤ j)
    (hj : j < p.length) : p.getD j 0 ≤ p.getD i 0 := by
  rw [getD_eq _ _ hj, getD_eq _ _ (by omega)]
  rcases Nat.lt_or_eq_of_le hij with h | h
  · exact (List.pairwise_iff_getElem.1 hs) i j (by omega) hj h
  · subst h; exact le_refl _

theorem getD_pos (p : List ℝ) (hpos : ∀ x ∈ p, 0 < x) {i : Nat} (hi : i < p.length) : 0 < p.getD i 0 := by
  rw [getD_eq _ _ hi]; exact hpos _ (List.getElem_mem _)

/-- the unsmoothed two-layer profile stays between its two control abundances -/
theorem twoLayerRaw_within {lo hi : ℝ} (surf top pb w : ℝ) (n : Nat) (pressure : List ℝ) (hlo : 0 < lo)
    (hs : lo ≤ surf ∧ surf ≤ hi) (ht : lo ≤ top ∧ top ≤ hi) (hn : n = pressure.length) (hw : 0 ≤ w)
    (hpos : ∀ x ∈ pressure, 0 < x) (hsorted : pressure.Pairwise (fun a b => b ≤ a)) :
    Within lo hi (twoLayerRaw surf top pb w n pressure) := by
  intro v hv
  unfold twoLayerRaw at hv
  simp only [List.mem_map, List.mem_reverse] at hv
  obtain ⟨p, hp, rfl⟩ := hv
  have hne : 0 < pressure.length := List.length_pos_of_mem hp
  have hsurf : 0 < surf := lt_of_lt_of_le hlo hs.1
  have htop : 0 < top := lt_of_lt_of_le hlo ht.1
  have hhi : 0 < hi := lt_of_lt_of_le hsurf hs.2
  set c := argminAbs pressure pb with hc
  have hclt : c < pressure.length := argminAbs_lt pressure pb hne
  set st := (truncNat ((ofNat' c : ℝ) - w / 2)) with hst
  set en := min (truncNat ((ofNat' c : ℝ) + w / 2)) (n - 1) with hen
  have hst_le : st ≤ c := by
    rw [hst]; simp only [ofNat'_real, truncNat_real]
    have : ⌊(c : ℝ) - w / 2⌋₊ ≤ ⌊(c : ℝ)⌋₊ := Nat.floor_le_floor (by linarith)
    simpa using this
  have hc_le : c ≤ en := by
    rw [hen]; simp only [ofNat'_real, truncNat_real]
    refine le_min ?_ (by omega)
    exact Nat.le_floor (by linarith)
  have hen_lt : en < pressure.length := by
    rw [hen]; exact lt_of_le_of_lt (min_le_right _ _) (by omega)
  have hfp : Within (log10 lo) (log10 hi) [log10 top, log10 top, log10 surf, log10 surf] := by
    intro y hy
    simp only [List.mem_cons, List.not_mem_nil, or_false] at hy
    rcases hy with rfl | rfl | rfl | rfl
    · exact ⟨log10_le_log10 hlo ht.1, log10_le_log10 htop ht.2⟩
    · exact ⟨log10_le_log10 hlo ht.1, log10_le_log10 htop ht.2⟩
    · exact ⟨log10_le_log10 hlo hs.1, log10_le_log10 hsurf hs.2⟩
    · exact ⟨log10_le_log10 hlo hs.1, log10_le_log10 hsurf hs.2⟩
  have hlog : ∀ {i j : Nat}, i ≤ j → j < pressure.length →
      (log (pressure.getD j 0) : ℝ) ≤ log (pressure.getD i 0) := by
    intro i j hij hj
    simp only [log_real]
    exact Real.log_le_log (getD_pos pressure hpos hj) (antitone_getD pressure hsorted hij hj)
  have hsortedxp : [log (pressure.getD (pressure.length - 1) 0), log (pressure.getD en 0),
      log (pressure.getD st 0), (log (pressure.getD 0 0) : ℝ)].Pairwise (· ≤ ·) := by
    have h1 := hlog (i := en) (j := pressure.length - 1) (by omega) (by omega)
    have h2 := hlog (i := st) (j := en) (by omega) hen_lt
    have h3 := hlog (i := 0) (j := st) (by omega) (by omega)
    simp only [List.pairwise_cons, List.mem_cons, List.not_mem_nil, or_false, forall_eq_or_imp, forall_eq,
      List.Pairwise.nil, and_true, IsEmpty.forall_iff, implies_true]
    refine ⟨⟨h1, ?_, ?_⟩, ⟨h2, ?_⟩, h3⟩ <;> linarith
  have := npInterp_between _ _ (log p) (by simp) (by simp) hsortedxp hfp
  exact pow10_within hlo hhi this.1 this.2

theorem twoLayerRaw_length (surf top pb w : ℝ) (n : Nat) (pressure : List ℝ) :
    (twoLayerRaw surf top pb w n pressure).length = pressure.length := by
  simp [twoLayerRaw]

/-- TwoLayerGas: whenever it returns a profile, smoothing included, every abundance lies between the two
    control abundances -/
theorem twoLayerGas_within {lo hi : ℝ} (surf top pb w : ℝ) (n : Nat) (pressure row : List ℝ) (hlo : 0 < lo)
    (hs : lo ≤ surf ∧ surf ≤ hi) (ht : lo ≤ top ∧ top ≤ hi) (hn : n = pressure.length) (hw : 0 ≤ w)
    (hpos : ∀ x ∈ pressure, 0 < x) (hsorted : pressure.Pairwise (fun a b => b ≤ a))
    (hok : twoLayerGas surf top pb w n pressure = .ok row) : Within lo hi row := by
  unfold twoLayerGas at hok
  have hraw := twoLayerRaw_within surf top pb w n pressure hlo hs ht hn hw hpos hsorted
  have hhi : 0 < hi := lt_of_lt_of_le (lt_of_lt_of_le hlo hs.1) hs.2
  have hlogs : Within (log10 lo) (log10 hi) ((twoLayerRaw surf top pb w n pressure).map log10) := by
    intro y hy
    simp only [List.mem_map] at hy
    obtain ⟨x, hx, rfl⟩ := hy
    have := hraw x hx
    exact ⟨log10_le_log10 hlo this.1, log10_le_log10 (lt_of_lt_of_le hlo this.1) this.2⟩
  have hsm : Within lo hi ((movingAverage ((twoLayerRaw surf top pb w n pressure).map log10)
      (oddWindow n w)).map pow10) := by
    intro y hy
    simp only [List.mem_map] at hy
    obtain ⟨e, he, rfl⟩ := hy
    have := movingAverage_between _ _ hlogs e he
    exact pow10_within hlo hhi this.1 this.2
  exact smooth_within _ _ _ hraw hsm (assembleSmoothed_mem _ _ _ hok)

/-- TwoLayerGas with a percentage window never fails and returns one value per layer (any layer count) -/
theorem twoLayerGas_ok (surf top pb w : ℝ) (n : Nat) (pressure : List ℝ) (hn : n = pressure.length)
    (hw0 : 0 ≤ w) (hw1 : w ≤ 100) :
    ∃ row, twoLayerGas surf top pb w n pressure = .ok row ∧ row.length = n := by
  unfold twoLayerGas
  obtain ⟨r, hr, hl, _⟩ := smooth_ok (twoLayerRaw surf top pb w n pressure) n w
    (by rw [twoLayerRaw_length]; exact hn) hw0 hw1
    ((movingAverage ((twoLayerRaw surf top pb w n pressure).map log10) (oddWindow n w)).map pow10)
    (by
      have hpos : 0 < oddWindow n w := by have := oddWindow_odd n w; omega
      rw [List.length_map, movingAverage_length _ _ hpos, movingAverage_length _ _ hpos, List.length_map])
  exact ⟨r, hr, by rw [hl, twoLayerRaw_length, hn]⟩

/-! ### every gas: shape and sign of the profile -/

/-- constructor arguments inside the domain of the property: positive control abundances (a constant gas may
    be zero), a non-empty non-negative array, a smoothing window that is a percentage -/
def Gas.Admissible : Gas ℝ → Prop
  | .constant m => 0 ≤ m
  | .twoLayer s t _ w => 0 < s ∧ 0 < t ∧ 0 ≤ w ∧ w ≤ 100
  | .twoPoint s t => 0 < s ∧ 0 < t
  | .array arr => 0 < arr.length ∧ ∀ x ∈ arr, 0 ≤ x
  | .power ms _ _ _ _ => 0 < ms

theorem twoLayerGas_pos (surf top pb w : ℝ) (n : Nat) (pressure row : List ℝ)
    (hok : twoLayerGas surf top pb w n pressure = .ok row) : ∀ x ∈ row, 0 < x := by
  unfold twoLayerGas at hok
  intro x hx
  rcases assembleSmoothed_mem _ _ _ hok x hx with h | h
  · unfold twoLayerRaw at h
    simp only [List.mem_map] at h
    obtain ⟨p, _, rfl⟩ := h
    exact pow10_pos _
  · simp only [List.mem_map] at h
    obtain ⟨e, _, rfl⟩ := h
    exact pow10_pos _

theorem twoPointGas_pos (surf top : ℝ) (pressure : List ℝ) (hs : 0 < surf) (ht : 0 < top) :
    ∀ x ∈ twoPointGas surf top pressure, 0 < x := by
  intro x hx
  unfold twoPointGas at hx
  simp only [List.mem_map] at hx
  obtain ⟨i, _, rfl⟩ := hx
  split_ifs
  · exact ht
  · exact hs
  · exact pow10_pos _

theorem profile_nonneg (g : Gas ℝ) (n : Nat) (pressure temperature row : List ℝ) (hadm : g.Admissible)
    (hok : g.profile n pressure temperature = .ok row) : ∀ x ∈ row, 0 ≤ x := by
  cases g with
  | constant m =>
    simp only [Gas.profile, Outcome.ok.injEq] at hok
    subst hok
    intro x hx
    rw [(constantGas_spec m n).2 x hx]; exact hadm
  | twoLayer s t pb w =>
    simp only [Gas.profile] at hok
    exact fun x hx => (twoLayerGas_pos s t pb w n pressure row hok x hx).le
  | twoPoint s t =>
    simp only [Gas.profile, Outcome.ok.injEq] at hok
    subst hok
    exact fun x hx => (twoPointGas_pos s t pressure hadm.1 hadm.2 x hx).le
  | array arr =>
    simp only [Gas.profile, Outcome.ok.injEq] at hok
    subst hok
    obtain ⟨hne, hnn⟩ := hadm
    have hb : Within 0 (sumL arr) arr := by
      intro x hx
      refine ⟨hnn x hx, ?_⟩
      obtain ⟨l1, l2, rfl⟩ := List.append_of_mem hx
      rw [sumL_append, sumL_cons]
      have h1 := sumL_nonneg l1 (fun y hy => hnn y (by simp [hy]))
      have h2 := sumL_nonneg l2 (fun y hy => hnn y (by simp [hy]))
      linarith
    exact fun x hx => (arrayGas_within arr n hne hb x hx).1
  | power ms a b c bf =>
    simp only [Gas.profile, Outcome.ok.injEq] at hok
    subst hok
    exact fun x hx => (powerGas_within ms a b c bf pressure temperature hadm x hx).1.le

theorem profile_length (g : Gas ℝ) (n : Nat) (pressure temperature row : List ℝ) (hn : n = pressure.length)
    (hT : n = temperature.length) (hok : g.profile n pressure temperature = .ok row) : row.length = n := by
  cases g with
  | constant m =>
    simp only [Gas.profile, Outcome.ok.injEq] at hok
    subst hok; exact (constantGas_spec m n).1
  | twoLayer s t pb w =>
    simp only [Gas.profile, twoLayerGas] at hok
    rw [assembleSmoothed_length _ _ _ hok, twoLayerRaw_length, hn]
  | twoPoint s t =>
    simp only [Gas.profile, Outcome.ok.injEq] at hok
    subst hok; rw [twoPointGas_length, hn]
  | array arr =>
    simp only [Gas.profile, Outcome.ok.injEq] at hok
    subst hok; exact arrayGas_length arr n
  | power ms a b c bf =>
    simp only [Gas.profile, Outcome.ok.injEq] at hok
    subst hok; rw [powerGas_length, ← hn, ← hT, Nat.min_self]

theorem profile_ok (g : Gas ℝ) (n : Nat) (pressure temperature : List ℝ) (hadm : g.Admissible)
    (hn : n = pressure.length) : ∃ row, g.profile n pressure temperature = .ok row := by
  cases g with
  | constant m => exact ⟨_, rfl⟩
  | twoLayer s t pb w =>
    obtain ⟨row, hrow, _⟩ := twoLayerGas_ok s t pb w n pressure hn hadm.2.2.1 hadm.2.2.2
    exact ⟨row, hrow⟩
  | twoPoint s t => exact ⟨_, rfl⟩
  | array arr => exact ⟨_, rfl⟩
  | power ms a b c bf => exact ⟨_, rfl⟩

theorem traceProfiles_ok (n : Nat) (pressure temperature : List ℝ) : ∀ (gases : List (Gas ℝ))
    (traces : List (List ℝ)), traceProfiles gases n pressure temperature = .ok traces →
    List.Forall₂ (fun g row => g.profile n pressure temperature = .ok row) gases traces
  | [], traces, h => by
    simp only [traceProfiles, Outcome.ok.injEq] at h
    subst h; exact List.Forall₂.nil
  | g :: gs, traces, h => by
    unfold traceProfiles at h
    cases hg : g.profile n pressure temperature with
    | ok row =>
      rw [hg] at h
      cases hgs : traceProfiles gs n pressure temperature with
      | ok rows =>
        rw [hgs] at h
        simp only [Outcome.ok.injEq] at h
        subst h
        exact List.Forall₂.cons hg (traceProfiles_ok n pressure temperature gs rows hgs)
      | invalid => rw [hgs] at h; simp at h
      | error => rw [hgs] at h; simp at h
    | invalid => rw [hg] at h; simp at h
    | error => rw [hg] at h; simp at h

theorem traceProfiles_total (n : Nat) (pressure temperature : List ℝ) : ∀ (gases : List (Gas ℝ)),
    (∀ g ∈ gases, ∃ row, g.profile n pressure temperature = .ok row) →
    ∃ traces, traceProfiles gases n pressure temperature = .ok traces
  | [], _ => ⟨[], rfl⟩
  | g :: gs, h => by
    obtain ⟨row, hrow⟩ := h g (by simp)
    obtain ⟨rows, hrows⟩ := traceProfiles_total n pressure temperature gs (fun x hx => h x (by simp [hx]))
    exact ⟨row :: rows, by unfold traceProfiles; rw [hrow, hrows]⟩

theorem forall₂_mem_right {α β : Type} {R : α → β → Prop} : ∀ {l1 : List α} {l2 : List β},
    List.Forall₂ R l1 l2 → ∀ b ∈ l2, ∃ a ∈ l1, R a b
  | _, _, .nil, b, hb => by simp at hb
  | _, _, .cons (a := a) (l₁ := t1) hab ht, b, hb => by
    rcases List.mem_cons.1 hb with rfl | hb
    · exact ⟨a, by simp, hab⟩
    · obtain ⟨a', ha', hr⟩ := forall₂_mem_right ht b hb
      exact ⟨a', by simp [ha'], hr⟩

end Taurex.Chemistry
