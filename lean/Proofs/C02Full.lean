/-
  C02: the rows that `evaluate_emission` builds (`Emission.rowsOf`) satisfy `Chain` and `RowsOk`.
-/
import Proofs.C02

namespace Taurex.Emission

/-! ### optical-depth sums -/

/-- optical depth of the layers `[lo, hi)` due to one contribution -/
noncomputable def colSum (c : Kind × List ℝ) (dz dens : List ℝ) (lo hi : Nat) : ℝ :=
  ((List.range' lo (hi - lo)).map (fun k => elem c.1 (c.2.getD k 0) (dz.getD k 0) (dens.getD k 0))).sum

theorem tauAcc_eq (c : Kind × List ℝ) (dz dens : List ℝ) (lo hi : Nat) (acc : ℝ) :
    tauAcc c dz dens lo hi acc = acc + colSum c dz dens lo hi := by
  unfold tauAcc colSum
  rw [foldl_add_sum]

theorem tauRange_eq (cs : List (Kind × List ℝ)) (dz dens : List ℝ) (lo hi : Nat) :
    tauRange cs dz dens lo hi = (cs.map (fun c => colSum c dz dens lo hi)).sum := by
  unfold tauRange
  have : (fun (a : ℝ) (c : Kind × List ℝ) => tauAcc c dz dens lo hi a) = (fun a c => a + colSum c dz dens lo hi) := by
    funext a c; exact tauAcc_eq c dz dens lo hi a
  rw [this, foldl_add_sum]; simp

theorem colSum_split (c : Kind × List ℝ) (dz dens : List ℝ) (l n : Nat) (h : l < n) :
    colSum c dz dens l n = colSum c dz dens l (l + 1) + colSum c dz dens (l + 1) n := by
  unfold colSum
  have h1 : n - l = (n - (l + 1)) + 1 := by omega
  have h2 : l + 1 - l = 1 := by omega
  rw [h1, List.range'_succ, h2]
  simp

theorem tauRange_split (cs : List (Kind × List ℝ)) (dz dens : List ℝ) (l n : Nat) (h : l < n) :
    tauRange cs dz dens l (l + 1) + tauRange cs dz dens (l + 1) n = tauRange cs dz dens l n := by
  rw [tauRange_eq, tauRange_eq, tauRange_eq, ← List.sum_map_add]
  congr 1
  apply List.map_congr_left
  intro c _
  exact (colSum_split c dz dens l n h).symm

theorem tauRange_empty (cs : List (Kind × List ℝ)) (dz dens : List ℝ) (n : Nat) :
    tauRange cs dz dens n n = 0 := by
  rw [tauRange_eq]
  unfold colSum
  simp

theorem getD_nonneg (l : List ℝ) (h : ∀ x ∈ l, 0 ≤ x) (k : Nat) : 0 ≤ l.getD k 0 := by
  by_cases hk : k < l.length
  · have e : l.getD k 0 = l[k] := by simp [List.getD_eq_getElem?_getD, hk]
    rw [e]
    exact h _ (List.getElem_mem hk)
  · have e : l.getD k 0 = 0 := by simp [List.getD_eq_getElem?_getD, not_lt.1 hk]
    rw [e]

theorem elem_nonneg (kd : Kind) (s dz rho : ℝ) (h1 : 0 ≤ s) (h2 : 0 ≤ dz) (h3 : 0 ≤ rho) : 0 ≤ elem kd s dz rho := by
  cases kd <;> simp only [elem] <;> positivity

/-- every cross-section, thickness and density is non-negative -/
def InputsNonneg (cs : List (Kind × List ℝ)) (dz dens : List ℝ) : Prop :=
  (∀ c ∈ cs, ∀ x ∈ c.2, 0 ≤ x) ∧ (∀ x ∈ dz, 0 ≤ x) ∧ (∀ x ∈ dens, 0 ≤ x)

theorem tauRange_nonneg (cs : List (Kind × List ℝ)) (dz dens : List ℝ) (h : InputsNonneg cs dz dens) (lo hi : Nat) :
    0 ≤ tauRange cs dz dens lo hi := by
  rw [tauRange_eq]
  apply List.sum_nonneg
  intro x hx
  simp only [List.mem_map] at hx
  obtain ⟨c, hc, rfl⟩ := hx
  unfold colSum
  apply List.sum_nonneg
  intro y hy
  simp only [List.mem_map] at hy
  obtain ⟨k, _, rfl⟩ := hy
  exact elem_nonneg _ _ _ _ (getD_nonneg _ (h.1 c hc) k) (getD_nonneg _ h.2.1 k) (getD_nonneg _ h.2.2 k)

/-! ### `ndarray.min()` -/

theorem foldl_min_le_init (ys : List ℝ) (m : ℝ) :
    ys.foldl (fun m y => if y < m then y else m) m ≤ m := by
  induction ys generalizing m with
  | nil => simp
  | cons y ys ih =>
    simp only [List.foldl_cons]
    split_ifs with h
    · exact le_trans (ih y) h.le
    · exact ih m

theorem foldl_min_le_mem (ys : List ℝ) (m x : ℝ) (hx : x ∈ ys) :
    ys.foldl (fun m y => if y < m then y else m) m ≤ x := by
  induction ys generalizing m with
  | nil => cases hx
  | cons y ys ih =>
    simp only [List.foldl_cons]
    rcases List.mem_cons.1 hx with rfl | hx'
    · split_ifs with h
      · exact foldl_min_le_init ys x
      · exact le_trans (foldl_min_le_init ys m) (not_lt.1 h)
    · exact ih _ hx'

theorem vmin_le (l : List ℝ) (x : ℝ) (hx : x ∈ l) : vmin l ≤ x := by
  cases l with
  | nil => cases hx
  | cons y ys =>
    simp only [vmin]
    rcases List.mem_cons.1 hx with rfl | hx'
    · exact foldl_min_le_init ys x
    · exact foldl_min_le_mem ys y x hx'

theorem foldl_min_mem (ys : List ℝ) (m : ℝ) :
    ys.foldl (fun m y => if y < m then y else m) m = m ∨ ys.foldl (fun m y => if y < m then y else m) m ∈ ys := by
  induction ys generalizing m with
  | nil => simp
  | cons y ys ih =>
    simp only [List.foldl_cons]
    split_ifs with h
    · rcases ih y with h1 | h1
      · right; rw [h1]; simp
      · right; exact List.mem_cons_of_mem _ h1
    · rcases ih m with h1 | h1
      · left; exact h1
      · right; exact List.mem_cons_of_mem _ h1

theorem vmin_mem (l : List ℝ) (h : l ≠ []) : vmin l ∈ l := by
  cases l with
  | nil => exact absurd rfl h
  | cons y ys =>
    simp only [vmin]
    rcases foldl_min_mem ys y with h1 | h1
    · rw [h1]; simp
    · exact List.mem_cons_of_mem _ h1

theorem le_vmin (l : List ℝ) (a : ℝ) (h : l ≠ []) (hall : ∀ x ∈ l, a ≤ x) : a ≤ vmin l :=
  hall _ (vmin_mem l h)

theorem vmin_zeros (l : List ℝ) (hall : ∀ x ∈ l, x = 0) : vmin l = 0 := by
  by_cases h : l = []
  · subst h; rfl
  · exact hall _ (vmin_mem l h)

/-! ### clamp decisions -/

theorem dTau_eq (cs : List (Kind × List ℝ)) (dz dens : List ℝ) (n l : Nat) (h : l < n) :
    dTau cs dz dens n l = tauRange cs dz dens l n := by
  unfold dTau layerTau
  exact tauRange_split cs dz dens l n h

theorem flagsOf_getD (cols : List (Col ℝ)) (dz dens : List ℝ) (n l : Nat) (h : l < n) (d : Bool × Bool) :
    (flagsOf cols dz dens n).getD l d = (keepLOf cols dz dens n l, keepDOf cols dz dens n l) := by
  unfold flagsOf
  simp [List.getD_eq_getElem?_getD, h]

theorem keepL_sound (cols : List (Col ℝ)) (dz dens : List ℝ) (n l : Nat) (col : Col ℝ) (hc : col ∈ cols)
    (h : keepLOf cols dz dens n l = false) : (10 : ℝ) ≤ layerTau col.sig dz dens n l := by
  unfold keepLOf at h
  have h1 : ¬ vmin (cols.map (fun c => layerTau c.sig dz dens n l)) < 10 := by simpa using h
  exact le_trans (not_lt.1 h1) (vmin_le _ _ (List.mem_map_of_mem hc))

theorem keepD_sound (cols : List (Col ℝ)) (dz dens : List ℝ) (n l : Nat) (col : Col ℝ) (hc : col ∈ cols)
    (h : keepDOf cols dz dens n l = false) : (10 : ℝ) ≤ dTau col.sig dz dens n l := by
  unfold keepDOf at h
  have h1 : ¬ vmin (cols.map (fun c => dTau c.sig dz dens n l)) < 10 := by simpa using h
  exact le_trans (not_lt.1 h1) (vmin_le _ _ (List.mem_map_of_mem hc))

theorem layerTau_le_dTau (cs : List (Kind × List ℝ)) (dz dens : List ℝ) (h : InputsNonneg cs dz dens) (n l : Nat) :
    layerTau cs dz dens n l ≤ dTau cs dz dens n l := by
  unfold dTau
  have := tauRange_nonneg cs dz dens h l (l + 1)
  linarith

theorem keepL_keepD (cols : List (Col ℝ)) (dz dens : List ℝ) (n l : Nat)
    (hn : ∀ c ∈ cols, InputsNonneg c.sig dz dens)
    (h : keepLOf cols dz dens n l = false) : keepDOf cols dz dens n l = false := by
  unfold keepLOf at h
  have h1 : ¬ vmin (cols.map (fun c => layerTau c.sig dz dens n l)) < 10 := by simpa using h
  unfold keepDOf
  have hne : cols ≠ [] := by
    intro e; subst e
    apply h1; simp [vmin]
  have : (10 : ℝ) ≤ vmin (cols.map (fun c => dTau c.sig dz dens n l)) := by
    apply le_vmin _ _ (by simpa using hne)
    intro x hx
    simp only [List.mem_map] at hx
    obtain ⟨c, hc, rfl⟩ := hx
    have := vmin_le _ _ (List.mem_map_of_mem (f := fun c : Col ℝ => layerTau c.sig dz dens n l) hc)
    have := layerTau_le_dTau c.sig dz dens (hn c hc) n l
    linarith [not_lt.1 h1]
  simpa using not_lt.2 this

/-! ### the rows of the code -/

theorem mem_rowsOf (k : PC ℝ) (cols : List (Col ℝ)) (dz dens temps : List ℝ) (col : Col ℝ) (r : Row ℝ)
    (hr : r ∈ rowsOf k cols dz dens temps col) :
    ∃ l, l < temps.length ∧ r = { b := planck k col.nu (temps.getD l 0) / k.pi
                                  lt := layerTau col.sig dz dens temps.length l
                                  keepL := keepLOf cols dz dens temps.length l
                                  dt := dTau col.sig dz dens temps.length l
                                  keepD := keepDOf cols dz dens temps.length l } := by
  unfold rowsOf rowsWith at hr
  simp only [List.mem_map, List.mem_range] at hr
  obtain ⟨l, hl, rfl⟩ := hr
  refine ⟨l, hl, ?_⟩
  rw [flagsOf_getD cols dz dens temps.length l hl]

theorem rowsOf_ok (k : PC ℝ) (cols : List (Col ℝ)) (dz dens temps : List ℝ) (col : Col ℝ) (hc : col ∈ cols)
    (hn : ∀ c ∈ cols, InputsNonneg c.sig dz dens) : RowsOk (rowsOf k cols dz dens temps col) := by
  intro r hr
  obtain ⟨l, _, rfl⟩ := mem_rowsOf k cols dz dens temps col r hr
  exact ⟨layerTau_le_dTau col.sig dz dens (hn col hc) _ l, keepL_sound cols dz dens _ l col hc,
    keepD_sound cols dz dens _ l col hc, keepL_keepD cols dz dens _ l hn⟩

/-- the clamp decision on the column `[l, n)` -/
noncomputable def keepFrom (cols : List (Col ℝ)) (dz dens : List ℝ) (n l : Nat) : Bool :=
  decide (vmin (cols.map (fun c => tauRange c.sig dz dens l n)) < 10)

theorem keepDOf_eq (cols : List (Col ℝ)) (dz dens : List ℝ) (n l : Nat) (h : l < n) :
    keepDOf cols dz dens n l = keepFrom cols dz dens n l := by
  unfold keepDOf keepFrom
  have : (fun c : Col ℝ => dTau c.sig dz dens n l) = (fun c => tauRange c.sig dz dens l n) := by
    funext c; exact dTau_eq c.sig dz dens n l h
  rw [this]

theorem keepFrom_top (cols : List (Col ℝ)) (dz dens : List ℝ) (n : Nat) : keepFrom cols dz dens n n = true := by
  unfold keepFrom
  have : vmin (cols.map (fun c => tauRange c.sig dz dens n n)) = 0 := by
    apply vmin_zeros
    intro x hx
    simp only [List.mem_map] at hx
    obtain ⟨c, _, rfl⟩ := hx
    exact tauRange_empty c.sig dz dens n
  rw [this]; simp

theorem chain_from (k : PC ℝ) (cols : List (Col ℝ)) (dz dens temps : List ℝ) (col : Col ℝ) :
    ∀ d l, l + d = temps.length →
      Chain (tauRange col.sig dz dens l temps.length) (keepFrom cols dz dens temps.length l)
        ((List.range' l d).map (fun l =>
          ({ b := planck k col.nu (temps.getD l 0) / k.pi
             lt := layerTau col.sig dz dens temps.length l
             keepL := ((flagsOf cols dz dens temps.length).getD l (true, true)).1
             dt := dTau col.sig dz dens temps.length l
             keepD := ((flagsOf cols dz dens temps.length).getD l (true, true)).2 } : Row ℝ))) := by
  intro d
  induction d with
  | zero =>
    intro l hl
    have : l = temps.length := by omega
    subst this
    exact ⟨tauRange_empty _ _ _ _, keepFrom_top _ _ _ _⟩
  | succ d ih =>
    intro l hl
    have hlt : l < temps.length := by omega
    rw [List.range'_succ, List.map_cons]
    refine ⟨dTau_eq _ _ _ _ _ hlt, ?_, ?_⟩
    · rw [flagsOf_getD _ _ _ _ _ hlt]
      exact keepDOf_eq _ _ _ _ _ hlt
    · have := ih (l + 1) (by omega)
      rw [flagsOf_getD _ _ _ _ _ hlt]
      exact this

theorem rowsOf_chain (k : PC ℝ) (cols : List (Col ℝ)) (dz dens temps : List ℝ) (col : Col ℝ) :
    Chain (surfTau dz dens temps col) (keepFrom cols dz dens temps.length 0) (rowsOf k cols dz dens temps col) := by
  have := chain_from k cols dz dens temps col temps.length 0 (by omega)
  unfold rowsOf rowsWith surfTau
  simp only []
  rw [List.range_eq_range']
  exact this

theorem rowsUncut_eq (k : PC ℝ) (cols : List (Col ℝ)) (dz dens temps : List ℝ) (col : Col ℝ) :
    rowsUncut k dz dens temps col = (rowsOf k cols dz dens temps col).map uncut := by
  unfold rowsUncut rowsOf rowsWith
  rw [List.map_map]
  apply List.map_congr_left
  intro l _
  simp [uncut]

end Taurex.Emission
