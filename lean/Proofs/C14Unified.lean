/-
  C14 — HITRAN `.cia` files with several wavenumber ranges: the loaded table is the documented unified table.
  Part 1: `fill_temperature` — the gap-filling loop works on the *live* (T, sigma) list (own rows + rows it has
          already inserted); the result is nevertheless the history-free `rangeRow` of every master temperature
          (own row / zero outside the range's span / linear between the range's OWN bracketing rows), because a row
          interpolated earlier lies on the same straight line.
  Part 2: the reading loop groups the blocks by their `(start, end)` header.
  Part 3: `decHitran = hitranUnified`.
-/
import Mathlib.Data.List.Sort
import Proofs.C14Loaders

set_option linter.unusedSectionVars false

namespace Taurex.Loaders
open Taurex.Interp

variable {K : Type} [Field K] [LinearOrder K] [IsStrictOrderedRing K]

/-! ### minimum and maximum of a list -/

omit [Field K] [IsStrictOrderedRing K] in
theorem foldl_min_le (l : List K) : ∀ a : K,
    l.foldl (fun a b => if b < a then b else a) a ≤ a ∧ ∀ x ∈ l, l.foldl (fun a b => if b < a then b else a) a ≤ x := by
  induction l with
  | nil => intro a; exact ⟨le_refl _, by simp⟩
  | cons y t ih =>
    intro a
    rw [List.foldl_cons]
    obtain ⟨h1, h2⟩ := ih (if y < a then y else a)
    have hm : (if y < a then y else a) ≤ a ∧ (if y < a then y else a) ≤ y := by
      split_ifs with h
      · exact ⟨le_of_lt h, le_refl _⟩
      · exact ⟨le_refl _, not_lt.mp h⟩
    refine ⟨le_trans h1 hm.1, ?_⟩
    intro x hx
    rw [List.mem_cons] at hx
    rcases hx with rfl | hx
    · exact le_trans h1 hm.2
    · exact h2 x hx

omit [IsStrictOrderedRing K] in
theorem lmin_le (l : List K) (x : K) (hx : x ∈ l) : lmin l ≤ x := (foldl_min_le l _).2 x hx

omit [Field K] [IsStrictOrderedRing K] in
theorem foldl_max_ge (l : List K) : ∀ a : K,
    a ≤ l.foldl (fun a b => if a < b then b else a) a ∧ ∀ x ∈ l, x ≤ l.foldl (fun a b => if a < b then b else a) a := by
  induction l with
  | nil => intro a; exact ⟨le_refl _, by simp⟩
  | cons y t ih =>
    intro a
    rw [List.foldl_cons]
    obtain ⟨h1, h2⟩ := ih (if a < y then y else a)
    have hm : a ≤ (if a < y then y else a) ∧ y ≤ (if a < y then y else a) := by
      split_ifs with h
      · exact ⟨le_of_lt h, le_refl _⟩
      · exact ⟨le_refl _, not_lt.mp h⟩
    refine ⟨le_trans hm.1 h1, ?_⟩
    intro x hx
    rw [List.mem_cons] at hx
    rcases hx with rfl | hx
    · exact le_trans hm.2 h1
    · exact h2 x hx

omit [IsStrictOrderedRing K] in
theorem le_lmax (l : List K) (x : K) (hx : x ∈ l) : x ≤ lmax l := (foldl_max_ge l _).2 x hx

omit [IsStrictOrderedRing K] in
theorem lmax_mem (l : List K) (h : l ≠ []) : lmax l ∈ l := by
  cases l with
  | nil => exact absurd rfl h
  | cons x xs =>
    unfold lmax
    rcases foldl_pick_mem (fun a b => if a < b then b else a)
      (by intro a b; by_cases hh : a < b <;> simp [hh]) (x :: xs) ((x :: xs).headD 0) with h1 | h1
    · rw [h1]; simp
    · exact h1

/-! ### brackets in a strictly increasing list -/

omit [Field K] [IsStrictOrderedRing K] in
theorem strict_getElem_le (L : List K) (hL : L.Pairwise (· < ·)) (i j : Nat) (hj : j < L.length) (hij : i ≤ j) :
    L[i]'(by omega) ≤ L[j] := by
  rcases Nat.lt_or_eq_of_le hij with h | h
  · exact le_of_lt (List.pairwise_iff_getElem.mp hL i j (by omega) hj h)
  · subst h; exact le_refl _

omit [Field K] [IsStrictOrderedRing K] in
/-- in a strictly increasing list, `searchsorted(side='right')` of the `j`-th element is `j + 1` -/
theorem countP_le_getElem (L : List K) (hL : L.Pairwise (· < ·)) (j : Nat) (hj : j < L.length) :
    L.countP (fun a => decide (a ≤ L[j])) = j + 1 := by
  have hle : L.Pairwise (· ≤ ·) := hL.imp le_of_lt
  have h1 : j < L.countP (fun a => decide (a ≤ L[j])) := (lt_countP_iff_le _ L hle j hj).mpr (le_refl _)
  by_cases hj1 : j + 1 < L.length
  · have h2 : ¬ j + 1 < L.countP (fun a => decide (a ≤ L[j])) := by
      intro hc
      have := (lt_countP_iff_le _ L hle (j + 1) hj1).mp hc
      have hlt := List.pairwise_iff_getElem.mp hL j (j + 1) hj hj1 (by omega)
      exact absurd this (not_le.mpr hlt)
    omega
  · have := List.countP_le_length (p := fun a => decide (a ≤ L[j])) (l := L)
    omega

omit [Field K] [IsStrictOrderedRing K] in
/-- the two neighbours of a value that lies between two members of a strictly increasing list without being one -/
theorem bracket_of_sorted (L : List K) (hL : L.Pairwise (· < ·)) (T : K) (hT : T ∉ L)
    (lo hi : K) (hlo : lo ∈ L) (hhi : hi ∈ L) (h1 : lo ≤ T) (h2 : T ≤ hi)
    (c : Nat) (hcdef : L.countP (fun a => decide (a ≤ T)) = c) :
    ∃ (_ : 1 ≤ c) (hc : c < L.length),
      L[c - 1] < T ∧ T < L[c] ∧ (∀ x ∈ L, x ≤ T → x ≤ L[c - 1]) ∧ (∀ x ∈ L, T ≤ x → L[c] ≤ x) := by
  have hle : L.Pairwise (· ≤ ·) := hL.imp le_of_lt
  have hiff : ∀ (i : Nat) (h : i < L.length), (i < c ↔ L[i] ≤ T) := by
    intro i h; rw [← hcdef]; exact lt_countP_iff_le T L hle i h
  obtain ⟨jl, hjl, rfl⟩ := List.mem_iff_getElem.mp hlo
  obtain ⟨jh, hjh, rfl⟩ := List.mem_iff_getElem.mp hhi
  have hc1 : 1 ≤ c := by have := (hiff jl hjl).mpr h1; omega
  have hhi' : ¬ L[jh] ≤ T := by
    intro hh
    have : L[jh] = T := le_antisymm hh h2
    exact hT (this ▸ List.getElem_mem hjh)
  have hc2 : c < L.length := by
    have := (hiff jh hjh).not.mpr hhi'
    omega
  refine ⟨hc1, hc2, ?_, ?_, ?_, ?_⟩
  · have := (hiff (c - 1) (by omega)).mp (by omega)
    rcases lt_or_eq_of_le this with h | h
    · exact h
    · exact absurd (h ▸ List.getElem_mem (by omega)) hT
  · have := (hiff c hc2).not.mp (by omega)
    exact not_le.mp this
  · intro x hx hxT
    obtain ⟨j, hj, rfl⟩ := List.mem_iff_getElem.mp hx
    have := (hiff j hj).mpr hxT
    exact strict_getElem_le L hL j (c - 1) (by omega) (by omega)
  · intro x hx hxT
    obtain ⟨j, hj, rfl⟩ := List.mem_iff_getElem.mp hx
    have hne : ¬ L[j] ≤ T := by
      intro hh
      have : L[j] = T := le_antisymm hh hxT
      exact hT (this ▸ List.getElem_mem hj)
    have := (hiff j hj).not.mpr hne
    exact strict_getElem_le L hL c j hj (by omega)

/-! ### linear interpolation along one straight line -/

/-- a value interpolated at `m` between `(a, u)` and `(b, v)` lies on their line: interpolating at `t` between it and
    `(b, v)` is interpolating between the original two points -/
theorem interpLin_chain (u v t m a b : K) (hab : a ≠ b) (hmb : m ≠ b) :
    interpLin (interpLin u v m a b) v t m b = interpLin u v t a b := by
  unfold interpLin
  have h1 : b - a ≠ 0 := sub_ne_zero.mpr (Ne.symm hab)
  have h2 : b - m ≠ 0 := sub_ne_zero.mpr (Ne.symm hmb)
  field_simp
  ring

theorem zipWith_chain (f g h : K → K → K) (hfg : ∀ x y, f (g x y) y = h x y) :
    ∀ (A B : List K), List.zipWith f (List.zipWith g A B) B = List.zipWith h A B
  | [], _ => by simp
  | _ :: _, [] => by simp
  | x :: A, y :: B => by
    simp only [List.zipWith_cons_cons, hfg, zipWith_chain f g h hfg A B]

/-! ### the documented row of one range -/

/-- strictly increasing temperatures -/
def StrictTs (ts : List (K × List K)) : Prop := ts.Pairwise (fun a b => a.1 < b.1)

omit [Field K] [IsStrictOrderedRing K] in
theorem strictTs_keys (ts : List (K × List K)) (h : StrictTs ts) : (ts.map (·.1)).Pairwise (· < ·) := by
  rw [List.pairwise_map]; exact h

theorem getD_pair (ts : List (K × List K)) (i : Nat) (h : i < ts.length) : ts.getD i (0, []) = ts[i] := by
  simp [List.getD_eq_getElem?_getD, h]

/-- at one of the range's own temperatures the documented row is the tabulated row -/
theorem rangeRow_own (wn : List K) (own : List (K × List K)) (hs : StrictTs own) (j : Nat) (hj : j < own.length) :
    rangeRow wn own own[j].1 = own[j].2 := by
  unfold rangeRow
  simp only
  have hmem : memv own[j].1 (own.map (·.1)) = true :=
    (memv_iff _ _).mpr (List.mem_map.mpr ⟨own[j], List.getElem_mem hj, rfl⟩)
  rw [if_pos hmem]
  unfold searchRight
  have := countP_le_getElem (own.map (·.1)) (strictTs_keys own hs) j (by simpa using hj)
  simp only [List.getElem_map] at this
  rw [this, Nat.add_sub_cancel, getD_pair own j hj]

/-- between two of its own temperatures the documented row is the interpolation of the two bracketing own rows -/
theorem rangeRow_between (wn : List K) (own : List (K × List K)) (T : K) (hT : T ∉ own.map (·.1))
    (h1 : lmin (own.map (·.1)) ≤ T) (h2 : T ≤ lmax (own.map (·.1))) (c : Nat)
    (hc : (own.map (·.1)).countP (fun a => decide (a ≤ T)) = c) (hc1 : 1 ≤ c) (hc2 : c < own.length) :
    rangeRow wn own T =
      List.zipWith (fun u v => interpLin u v T own[c - 1].1 own[c].1) own[c - 1].2 own[c].2 := by
  unfold rangeRow
  simp only
  have hmem : memv T (own.map (·.1)) = false := by
    cases hm : memv T (own.map (·.1))
    · rfl
    · exact absurd ((memv_iff _ _).mp hm) hT
  have hout : (decide (T < lmin (own.map (·.1))) || decide (lmax (own.map (·.1)) < T)) = false := by
    simp [not_lt.mpr h1, not_lt.mpr h2]
  rw [hmem, hout]
  simp only [Bool.false_eq_true, if_false]
  unfold searchRight
  rw [hc, getD_pair own (c - 1) (by omega)]
  have : c - 1 + 1 = c := by omega
  rw [this, getD_pair own c hc2]

/-! ### one iteration of the gap-filling loop -/

/-- the row the loop computes for a missing temperature inside the range's span, from the LIVE list (own rows and
    rows inserted for earlier master temperatures), is the documented row computed from the OWN rows -/
theorem fill_entry (wn : List K) (own live : List (K × List K)) (P : List K) (T : K)
    (hown : StrictTs own) (hlive : StrictTs live)
    (hkeys : ∀ x, x ∈ live.map (·.1) ↔ x ∈ own.map (·.1) ∨ x ∈ P)
    (hrows : ∀ e ∈ live, e.2 = rangeRow wn own e.1)
    (hP : ∀ x ∈ P, x < T) (hT : T ∉ own.map (·.1)) (hTl : T ∉ live.map (·.1))
    (h1 : lmin (own.map (·.1)) ≤ T) (h2 : T ≤ lmax (own.map (·.1))) (hne : own ≠ []) :
    List.zipWith (fun u v => interpLin u v T
        (live.getD (searchRight (live.map (·.1)) T - 1) (0, [])).1
        (live.getD (searchRight (live.map (·.1)) T - 1 + 1) (0, [])).1)
      (live.getD (searchRight (live.map (·.1)) T - 1) (0, [])).2
      (live.getD (searchRight (live.map (·.1)) T - 1 + 1) (0, [])).2 = rangeRow wn own T := by
  have hne' : own.map (·.1) ≠ [] := by simpa using hne
  have hminO := lmin_mem (own.map (·.1)) hne'
  have hmaxO := lmax_mem (own.map (·.1)) hne'
  have hsub : ∀ x, x ∈ own.map (·.1) → x ∈ live.map (·.1) := fun x hx => (hkeys x).mpr (Or.inl hx)
  have hkO := strictTs_keys own hown
  have hkL := strictTs_keys live hlive
  unfold searchRight
  generalize hc0 : (own.map (·.1)).countP (fun a => decide (a ≤ T)) = c0
  generalize hc1 : (live.map (·.1)).countP (fun a => decide (a ≤ T)) = c1
  obtain ⟨o1, o2, o3, o4, o5, o6⟩ :=
    bracket_of_sorted (own.map (·.1)) hkO T hT _ _ hminO hmaxO h1 h2 c0 hc0
  obtain ⟨l1, l2, l3, l4, l5, l6⟩ :=
    bracket_of_sorted (live.map (·.1)) hkL T hTl _ _ (hsub _ hminO) (hsub _ hmaxO) h1 h2 c1 hc1
  rw [List.length_map] at o2 l2
  simp only [List.getElem_map] at o3 o4 o5 o6 l3 l4 l5 l6
  have e1 : c1 - 1 + 1 = c1 := by omega
  rw [e1, getD_pair live (c1 - 1) (by omega), getD_pair live c1 l2,
    rangeRow_between wn own T hT h1 h2 c0 hc0 o1 o2]
  -- the upper neighbour in the live list is the upper own neighbour
  have hbO : live[c1].1 ∈ own.map (·.1) := by
    rcases (hkeys _).mp (List.mem_map.mpr ⟨live[c1], List.getElem_mem l2, rfl⟩) with h | h
    · exact h
    · exact absurd (hP _ h) (not_lt.mpr (le_of_lt l4))
  have hb : live[c1].1 = own[c0].1 := by
    apply le_antisymm
    · exact l6 _ (hsub _ (List.mem_map.mpr ⟨own[c0], List.getElem_mem o2, rfl⟩)) (le_of_lt o4)
    · exact o6 _ hbO (le_of_lt l4)
  have hb2 : live[c1].2 = own[c0].2 := by
    rw [hrows _ (List.getElem_mem l2), hb, rangeRow_own wn own hown c0 o2]
  -- the lower neighbour is the lower own neighbour or lies strictly between the two own neighbours
  have ha_ge : own[c0 - 1].1 ≤ live[c1 - 1].1 :=
    l5 _ (hsub _ (List.mem_map.mpr ⟨own[c0 - 1], List.getElem_mem (by omega), rfl⟩)) (le_of_lt o3)
  rw [hb, hb2]
  by_cases haO : live[c1 - 1].1 ∈ own.map (·.1)
  · have ha : live[c1 - 1].1 = own[c0 - 1].1 := le_antisymm (o5 _ haO (le_of_lt l3)) ha_ge
    have ha2 : live[c1 - 1].2 = own[c0 - 1].2 := by
      rw [hrows _ (List.getElem_mem (by omega)), ha, rangeRow_own wn own hown (c0 - 1) (by omega)]
    rw [ha, ha2]
  · have hlt : own[c0 - 1].1 < live[c1 - 1].1 := by
      rcases lt_or_eq_of_le ha_ge with h | h
      · exact h
      · exact absurd (h ▸ List.mem_map.mpr ⟨own[c0 - 1], List.getElem_mem (by omega), rfl⟩) haO
    -- its own row was interpolated between the same two own rows
    have hcnt : (own.map (·.1)).countP (fun a => decide (a ≤ live[c1 - 1].1)) = c0 := by
      rw [← hc0]
      apply List.countP_congr
      intro y hy
      simp only [decide_eq_true_eq]
      constructor
      · intro h; exact le_trans h (le_of_lt l3)
      · intro h; exact le_trans (o5 y hy h) ha_ge
    have hm1 : lmin (own.map (·.1)) ≤ live[c1 - 1].1 :=
      le_trans (lmin_le _ _ (List.mem_map.mpr ⟨own[c0 - 1], List.getElem_mem (by omega), rfl⟩)) ha_ge
    have hm2 : live[c1 - 1].1 ≤ lmax (own.map (·.1)) :=
      le_trans (le_of_lt l3) h2
    have ha2 : live[c1 - 1].2 =
        List.zipWith (fun u v => interpLin u v live[c1 - 1].1 own[c0 - 1].1 own[c0].1) own[c0 - 1].2 own[c0].2 := by
      rw [hrows _ (List.getElem_mem (by omega))]
      exact rangeRow_between wn own _ haO hm1 hm2 c0 hcnt o1 o2
    rw [ha2]
    apply zipWith_chain
    intro x y
    exact interpLin_chain x y T _ _ _ (ne_of_lt (lt_trans (lt_trans hlt l3) o4)) (ne_of_lt (lt_trans l3 o4))

/-- what the loop keeps true; `P` = the master temperatures processed so far -/
def FillState (wn : List K) (own live : List (K × List K)) (P : List K) : Prop :=
  StrictTs live ∧ (∀ x, x ∈ live.map (·.1) ↔ x ∈ own.map (·.1) ∨ x ∈ P) ∧
    (∀ e ∈ live, e.2 = rangeRow wn own e.1)

theorem fillState_insert (wn : List K) (own live : List (K × List K)) (P : List K) (T : K) (row : List K)
    (h : FillState wn own live P) (hTl : T ∉ live.map (·.1)) (hrow : row = rangeRow wn own T) :
    FillState wn own (sortTs (live ++ [(T, row)])) (P ++ [T]) := by
  obtain ⟨hs, hk, hr⟩ := h
  have hp := sortTs_perm (live ++ [(T, row)])
  have hpk : ((sortTs (live ++ [(T, row)])).map (·.1)).Perm (live.map (·.1) ++ [T]) := by
    have := hp.map (·.1)
    simpa using this
  refine ⟨?_, ?_, ?_⟩
  · -- sorted by `≤` with pairwise distinct keys
    have hnd0 : (live.map (·.1) ++ [T]).Nodup := by
      rw [List.nodup_append]
      refine ⟨(strictTs_keys live hs).imp ne_of_lt, by simp, ?_⟩
      intro a ha b hb
      rw [List.mem_singleton] at hb
      subst hb
      intro hab; subst hab; exact hTl ha
    have hnd : ((sortTs (live ++ [(T, row)])).map (·.1)).Nodup := hpk.nodup_iff.mpr hnd0
    have hne : (sortTs (live ++ [(T, row)])).Pairwise (fun a b => a.1 ≠ b.1) := by
      have := hnd
      unfold List.Nodup at this
      rw [List.pairwise_map] at this
      exact this
    exact ((sortTs_sorted (live ++ [(T, row)])).and hne).imp (fun hab => lt_of_le_of_ne hab.1 hab.2)
  · intro x
    rw [hpk.mem_iff, List.mem_append, List.mem_singleton, hk x, List.mem_append, List.mem_singleton, or_assoc]
  · intro e he
    have he' := hp.mem_iff.mp he
    rw [List.mem_append, List.mem_singleton] at he'
    rcases he' with he' | rfl
    · exact hr e he'
    · exact hrow

theorem fillOne_state (wn : List K) (own live : List (K × List K)) (P : List K) (T : K)
    (hown : StrictTs own) (hne : own ≠ []) (h : FillState wn own live P) (hP : ∀ x ∈ P, x < T) :
    FillState wn own (fillOne wn (lmin (own.map (·.1))) (lmax (own.map (·.1))) live T) (P ++ [T]) := by
  unfold fillOne
  simp only
  by_cases hmem : memv T (live.map (·.1)) = true
  · simp only [hmem, if_true]
    obtain ⟨hs, hk, hr⟩ := h
    refine ⟨hs, ?_, hr⟩
    intro x
    rw [hk x, List.mem_append, List.mem_singleton]
    constructor
    · rintro (h1 | h1)
      · exact Or.inl h1
      · exact Or.inr (Or.inl h1)
    · rintro (h1 | h1 | h1)
      · exact Or.inl h1
      · exact Or.inr h1
      · subst h1; exact (hk _).mp ((memv_iff _ _).mp hmem)
  · simp only [hmem, Bool.false_eq_true, if_false]
    have hTl : T ∉ live.map (·.1) := fun hh => hmem ((memv_iff _ _).mpr hh)
    have hT : T ∉ own.map (·.1) := fun hh => hTl ((h.2.1 T).mpr (Or.inl hh))
    have hmemO : memv T (own.map (·.1)) = false := by
      cases hm : memv T (own.map (·.1))
      · rfl
      · exact absurd ((memv_iff _ _).mp hm) hT
    by_cases hout : (decide (T < lmin (own.map (·.1))) || decide (lmax (own.map (·.1)) < T)) = true
    · simp only [hout, if_true]
      apply fillState_insert wn own live P T _ h hTl
      unfold rangeRow
      simp only [hmemO, hout, Bool.false_eq_true, if_false, if_true]
    · simp only [hout, Bool.false_eq_true, if_false]
      apply fillState_insert wn own live P T _ h hTl
      simp only [Bool.or_eq_true, decide_eq_true_eq, not_or, not_lt] at hout
      exact fill_entry wn own live P T hown h.1 h.2.1 h.2.2 hP hT hTl hout.1 hout.2 hne

theorem fill_loop (wn : List K) (own : List (K × List K)) (hown : StrictTs own) (hne : own ≠ []) :
    ∀ (rest P : List K) (live : List (K × List K)), (P ++ rest).Pairwise (· < ·) → FillState wn own live P →
      FillState wn own (rest.foldl (fillOne wn (lmin (own.map (·.1))) (lmax (own.map (·.1)))) live) (P ++ rest)
  | [], P, live, _, h => by simpa using h
  | T :: rest, P, live, hp, h => by
    rw [List.foldl_cons]
    have hP : ∀ x ∈ P, x < T := by
      intro x hx
      exact (List.pairwise_append.mp hp).2.2 x hx T (by simp)
    have := fill_loop wn own hown hne rest (P ++ [T]) _ (by simpa using hp)
      (fillOne_state wn own live P T hown hne h hP)
    simpa using this

/-- **`fill_temperature` is history-free**: on a range whose own temperatures are distinct (sorted: strictly
    increasing) and belong to the strictly increasing master list, the filled (T, sigma) list is the master list with
    the documented row of every temperature -/
theorem fillTemperature_eq (wn : List K) (own : List (K × List K)) (temps : List K) (hown : StrictTs own)
    (hne : own ≠ []) (htemps : temps.Pairwise (· < ·)) (hsub : ∀ x ∈ own.map (·.1), x ∈ temps) :
    fillTemperature wn own temps = temps.map (fun T => (T, rangeRow wn own T)) := by
  unfold fillTemperature
  simp only
  have h0 : FillState wn own own [] := by
    refine ⟨hown, by simp, ?_⟩
    intro e he
    obtain ⟨j, hj, rfl⟩ := List.mem_iff_getElem.mp he
    exact (rangeRow_own wn own hown j hj).symm
  obtain ⟨hs, hk, hr⟩ := fill_loop wn own hown hne temps [] own (by simpa using htemps) h0
  set final := temps.foldl (fillOne wn (lmin (own.map (·.1))) (lmax (own.map (·.1)))) own with hfinal
  have hkeys : final.map (·.1) = temps := by
    apply List.Pairwise.eq_of_mem_iff (strictTs_keys final hs) htemps
    intro a
    rw [hk a]
    simp only [List.nil_append]
    constructor
    · rintro (h | h)
      · exact hsub a h
      · exact h
    · exact Or.inr
  have : final = final.map (fun e => (e.1, rangeRow wn own e.1)) := by
    conv_lhs => rw [← List.map_id final]
    apply List.map_congr_left
    intro e he
    rw [← hr e he]; rfl
  rw [this, ← hkeys, List.map_map]
  rfl

/-! ### the reading loop groups the blocks by their `(start, end)` header -/

/-- the hash key of a block: its `(start, end)` header -/
def bKey (b : HBlock K) : K × K := (b.wn0, b.wn1)
/-- the wavenumbers listed in a block -/
def bWn (b : HBlock K) : List K := b.pts.map (·.1)
/-- what a block contributes to its range: its temperature and its (scaled, clipped) cross-sections -/
def bEntry (b : HBlock K) : K × List K := (b.temp, b.pts.map (fun q => clipSigma q.2))
/-- the blocks of one wavenumber range, in file order -/
def rangeBlocks (blocks : List (HBlock K)) (k : K × K) : List (HBlock K) :=
  blocks.filter (fun b => decide (bKey b = k))

omit [Field K] [IsStrictOrderedRing K] in
theorem keyEq_iff (a b : K × K) : keyEq a b = true ↔ a = b := by
  unfold keyEq
  rw [Bool.and_eq_true, eqv_iff, eqv_iff]
  exact Prod.ext_iff.symm

theorem hStep_def (acc : List K × List (HGrid K)) (b : HBlock K) :
    hStep acc b = (if memv b.temp acc.1 then acc.1 else acc.1 ++ [b.temp],
      upsert acc.2 (bKey b) (bWn b) (bEntry b)) := rfl

theorem rangeBlocks_snoc (seen : List (HBlock K)) (b : HBlock K) (k : K × K) :
    rangeBlocks (seen ++ [b]) k = if bKey b = k then rangeBlocks seen k ++ [b] else rangeBlocks seen k := by
  unfold rangeBlocks
  rw [List.filter_append]
  by_cases h : bKey b = k <;> simp [h]

/-- what the reading loop keeps true; `seen` = the blocks read so far -/
structure LoadInv (acc : List K × List (HGrid K)) (seen : List (HBlock K)) : Prop where
  keysNodup : (acc.2.map (·.key)).Nodup
  keysAll : ∀ b ∈ seen, bKey b ∈ acc.2.map (·.key)
  grid : ∀ g ∈ acc.2, g.ts = (rangeBlocks seen g.key).map bEntry ∧
    g.wn = ((rangeBlocks seen g.key).getLast?.map bWn).getD [] ∧ rangeBlocks seen g.key ≠ []
  tempsNodup : acc.1.Nodup
  temps : ∀ T, T ∈ acc.1 ↔ ∃ b ∈ seen, b.temp = T

theorem loadInv_step (acc : List K × List (HGrid K)) (seen : List (HBlock K)) (b : HBlock K)
    (h : LoadInv acc seen) : LoadInv (hStep acc b) (seen ++ [b]) := by
  rw [hStep_def]
  obtain ⟨h1, h2, h3, h4, h5⟩ := h
  have htemps1 : (if memv b.temp acc.1 then acc.1 else acc.1 ++ [b.temp]).Nodup := by
    split_ifs with hm
    · exact h4
    · rw [List.nodup_append]
      refine ⟨h4, by simp, ?_⟩
      intro a ha c hc
      rw [List.mem_singleton] at hc
      subst hc
      intro hac; subst hac
      exact hm ((memv_iff _ _).mpr ha)
  have htemps2 : ∀ T, T ∈ (if memv b.temp acc.1 then acc.1 else acc.1 ++ [b.temp]) ↔
      ∃ b' ∈ seen ++ [b], b'.temp = T := by
    intro T
    have hex : (∃ b' ∈ seen ++ [b], b'.temp = T) ↔ (∃ b' ∈ seen, b'.temp = T) ∨ b.temp = T := by
      constructor
      · rintro ⟨b', hb', rfl⟩
        rw [List.mem_append, List.mem_singleton] at hb'
        rcases hb' with hb' | rfl
        · exact Or.inl ⟨b', hb', rfl⟩
        · exact Or.inr rfl
      · rintro (⟨b', hb', rfl⟩ | rfl)
        · exact ⟨b', by simp [hb'], rfl⟩
        · exact ⟨b, by simp, rfl⟩
    rw [hex, ← h5 T]
    split_ifs with hm
    · constructor
      · exact Or.inl
      · rintro (hh | rfl)
        · exact hh
        · exact (memv_iff _ _).mp hm
    · rw [List.mem_append, List.mem_singleton]
      constructor
      · rintro (hh | rfl)
        · exact Or.inl hh
        · exact Or.inr rfl
      · rintro (hh | rfl)
        · exact Or.inl hh
        · exact Or.inr rfl
  unfold upsert
  by_cases hany : (acc.2.any fun g => keyEq g.key (bKey b)) = true
  · -- the range exists: its grid gets the new row (and the wavenumbers of this block)
    simp only [hany, if_true]
    have hkeys : (acc.2.map fun g => if keyEq g.key (bKey b) = true
        then ({ g with wn := bWn b, ts := g.ts ++ [bEntry b] } : HGrid K) else g).map (·.key) = acc.2.map (·.key) := by
      rw [List.map_map]
      apply List.map_congr_left
      intro g _
      simp only [Function.comp]
      split_ifs <;> rfl
    refine ⟨by rw [hkeys]; exact h1, ?_, ?_, htemps1, htemps2⟩
    · intro b' hb'
      rw [hkeys]
      rw [List.mem_append, List.mem_singleton] at hb'
      rcases hb' with hb' | rfl
      · exact h2 b' hb'
      · rw [List.any_eq_true] at hany
        obtain ⟨g, hg, hgk⟩ := hany
        rw [keyEq_iff] at hgk
        exact List.mem_map.mpr ⟨g, hg, hgk⟩
    · intro g' hg'
      rw [List.mem_map] at hg'
      obtain ⟨g, hg, rfl⟩ := hg'
      obtain ⟨g1, g2, g3⟩ := h3 g hg
      by_cases hk : keyEq g.key (bKey b) = true
      · have hkk : bKey b = g.key := ((keyEq_iff _ _).mp hk).symm
        simp only [hk, if_true]
        rw [rangeBlocks_snoc, if_pos hkk]
        refine ⟨by rw [List.map_append, g1]; rfl, by simp, by simp⟩
      · have hkk : ¬ bKey b = g.key := fun hh => hk ((keyEq_iff _ _).mpr hh.symm)
        simp only [hk, Bool.false_eq_true, if_false]
        rw [rangeBlocks_snoc, if_neg hkk]
        exact ⟨g1, g2, g3⟩
  · -- a new range
    simp only [hany, Bool.false_eq_true, if_false]
    have hnew : bKey b ∉ acc.2.map (·.key) := by
      intro hh
      rw [List.mem_map] at hh
      obtain ⟨g, hg, hgk⟩ := hh
      apply hany
      rw [List.any_eq_true]
      exact ⟨g, hg, (keyEq_iff _ _).mpr hgk⟩
    have hempty : rangeBlocks seen (bKey b) = [] := by
      unfold rangeBlocks
      rw [List.filter_eq_nil_iff]
      intro b' hb' hk
      rw [decide_eq_true_eq] at hk
      exact hnew (hk ▸ h2 b' hb')
    refine ⟨?_, ?_, ?_, htemps1, htemps2⟩
    · rw [List.map_append, List.nodup_append]
      refine ⟨h1, by simp, ?_⟩
      intro a ha c hc
      simp only [List.map_cons, List.map_nil, List.mem_singleton] at hc
      subst hc
      intro hac; subst hac; exact hnew ha
    · intro b' hb'
      rw [List.map_append, List.mem_append]
      rw [List.mem_append, List.mem_singleton] at hb'
      rcases hb' with hb' | rfl
      · exact Or.inl (h2 b' hb')
      · right; simp
    · intro g hg
      rw [List.mem_append, List.mem_singleton] at hg
      rcases hg with hg | rfl
      · obtain ⟨g1, g2, g3⟩ := h3 g hg
        have hkk : ¬ bKey b = g.key := fun hh => hnew (hh ▸ List.mem_map.mpr ⟨g, hg, rfl⟩)
        rw [rangeBlocks_snoc, if_neg hkk]
        exact ⟨g1, g2, g3⟩
      · simp only
        rw [rangeBlocks_snoc, if_pos rfl, hempty]
        simp

theorem loadInv_fold : ∀ (bs : List (HBlock K)) (acc : List K × List (HGrid K)) (seen : List (HBlock K)),
    LoadInv acc seen → LoadInv (bs.foldl hStep acc) (seen ++ bs)
  | [], acc, seen, h => by simpa using h
  | b :: bs, acc, seen, h => by
    rw [List.foldl_cons]
    have := loadInv_fold bs (hStep acc b) (seen ++ [b]) (loadInv_step acc seen b h)
    simpa using this

/-- the ranges and the temperature list the reading loop produces for a file -/
theorem hLoad_inv (blocks : List (HBlock K)) : LoadInv (hLoad blocks) blocks := by
  rw [hLoad_eq]
  have := loadInv_fold blocks ([], []) [] ⟨by simp, by simp, by simp, by simp, by simp⟩
  simpa using this

/-! ### the loaded table is the documented unified table -/

/-- the master temperature list: strictly increasing, the temperatures of the blocks -/
theorem master_sorted (blocks : List (HBlock K)) :
    ((hLoad blocks).1.mergeSort (fun a b => decide (a ≤ b))).Pairwise (· < ·) ∧
    ∀ T, T ∈ (hLoad blocks).1.mergeSort (fun a b => decide (a ≤ b)) ↔ ∃ b ∈ blocks, b.temp = T := by
  have hinv := hLoad_inv blocks
  have hp := List.mergeSort_perm (hLoad blocks).1 (fun a b => decide (a ≤ b))
  constructor
  · have hs : ((hLoad blocks).1.mergeSort (fun a b => decide (a ≤ b))).Pairwise (· ≤ ·) := by
      have := List.pairwise_mergeSort (le := fun (a b : K) => decide (a ≤ b))
        (by intro a b c hab hbc; simp only [decide_eq_true_eq] at *; exact le_trans hab hbc)
        (by intro a b; simp only [Bool.or_eq_true, decide_eq_true_eq]; exact le_total _ _) (hLoad blocks).1
      exact this.imp (by intro a b hab; simpa using hab)
    have hnd : ((hLoad blocks).1.mergeSort (fun a b => decide (a ≤ b))).Nodup := hp.nodup_iff.mpr hinv.tempsNodup
    exact (hs.and hnd).imp (fun hab => lt_of_le_of_ne hab.1 hab.2)
  · intro T
    rw [hp.mem_iff]
    exact hinv.temps T

/-- a file in which no `(range, temperature)` pair occurs twice: the headers `(start, end, T)` are pairwise distinct -/
def UniqueBlocks (blocks : List (HBlock K)) : Prop :=
  (blocks.map (fun b => (bKey b, b.temp))).Nodup

omit [Field K] [IsStrictOrderedRing K] in
theorem uniqueBlocks_range (blocks : List (HBlock K)) (hu : UniqueBlocks blocks) (k : K × K) :
    ((rangeBlocks blocks k).map (·.temp)).Nodup := by
  unfold UniqueBlocks at hu
  have hsub : (rangeBlocks blocks k).Sublist blocks := List.filter_sublist
  have hnd : ((rangeBlocks blocks k).map (fun b => (bKey b, b.temp))).Nodup := hu.sublist (hsub.map _)
  have hinj := List.inj_on_of_nodup_map hnd
  apply List.Nodup.map_on _ (List.Nodup.of_map _ hnd)
  intro x hx y hy hxy
  apply hinj hx hy
  have kx : bKey x = k := by simpa using (List.mem_filter.mp hx).2
  have ky : bKey y = k := by simpa using (List.mem_filter.mp hy).2
  rw [kx, ky, hxy]

/-- after `fill_gaps`, every range holds the documented row of every master temperature -/
theorem fillGaps_eq (blocks : List (HBlock K)) (hu : UniqueBlocks blocks) (temps : List K)
    (htemps : temps = (hLoad blocks).1.mergeSort (fun a b => decide (a ≤ b))) :
    fillGaps temps (hLoad blocks).2 =
      (hLoad blocks).2.map (fun g => { g with ts := temps.map (fun T => (T, rangeRow g.wn (sortTs g.ts) T)) }) := by
  have hinv := hLoad_inv blocks
  obtain ⟨hts, htm⟩ := master_sorted blocks
  rw [← htemps] at hts htm
  unfold fillGaps
  apply List.map_congr_left
  intro g hg
  obtain ⟨g1, _, g3⟩ := hinv.grid g hg
  have hkeys : g.ts.map (·.1) = (rangeBlocks blocks g.key).map (·.temp) := by
    rw [g1, List.map_map]; rfl
  have hpk : ((sortTs g.ts).map (·.1)).Perm (g.ts.map (·.1)) := (sortTs_perm g.ts).map (·.1)
  have hstrict : StrictTs (sortTs g.ts) := by
    have hnd : ((sortTs g.ts).map (·.1)).Nodup := hpk.nodup_iff.mpr (by rw [hkeys]; exact uniqueBlocks_range blocks hu g.key)
    have hne : (sortTs g.ts).Pairwise (fun a b => a.1 ≠ b.1) := by
      unfold List.Nodup at hnd
      rw [List.pairwise_map] at hnd
      exact hnd
    exact ((sortTs_sorted g.ts).and hne).imp (fun hab => lt_of_le_of_ne hab.1 hab.2)
  have hne : sortTs g.ts ≠ [] := by
    intro h0
    have := (sortTs_perm g.ts).length_eq
    rw [h0, g1] at this
    simp at this
    exact g3 (List.length_eq_zero_iff.mp this.symm)
  have hsub : ∀ x ∈ (sortTs g.ts).map (·.1), x ∈ temps := by
    intro x hx
    rw [hpk.mem_iff, hkeys, List.mem_map] at hx
    obtain ⟨b, hb, rfl⟩ := hx
    exact (htm _).mpr ⟨b, (List.mem_filter.mp hb).1, rfl⟩
  rw [fillTemperature_eq g.wn (sortTs g.ts) temps hstrict hne hts hsub]

/-- **the multi-range HITRAN reader loads the documented unified table** -/
theorem decHitran_unified (blocks : List (HBlock K)) (hu : UniqueBlocks blocks) :
    decHitran blocks = hitranUnified blocks := by
  have hU : hitranUnified blocks =
      unifiedTable ((hLoad blocks).1.mergeSort (fun a b => decide (a ≤ b))) (hLoad blocks).2 := rfl
  rw [decHitran_eq, hU]
  generalize htemps : (hLoad blocks).1.mergeSort (fun a b => decide (a ≤ b)) = temps
  rw [fillGaps_eq blocks hu temps htemps.symm]
  unfold finalGrid unifiedTable
  simp only [List.flatMap_map]
  congr 1
  rw [← range_map_getD temps 0 (fun T => gather
    (List.flatMap (fun g => rangeRow g.wn (sortTs g.ts) T) (hLoad blocks).2) (argsort ((hLoad blocks).2.flatMap (·.wn))))]
  apply List.map_congr_left
  intro idx hidx
  rw [List.mem_range] at hidx
  congr 1
  apply List.flatMap_congr
  intro g _
  simp [List.getD_eq_getElem?_getD, hidx]

end Taurex.Loaders
