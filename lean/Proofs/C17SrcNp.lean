/-
  Helper lemmas for the C17 source tie: strided slice stores (`e[0::2] = …`), reversal, element-wise width conversion,
  `np.vstack((…)).T`.
-/
import TaurexModel.Gen.Prelude
import TaurexModel.Observation
import Proofs.C05SrcNp
set_option linter.unusedSectionVars false

namespace Taurex.Gen.Np
section
variable {β γ : Type}

theorem getElem?_pairs (f g : γ → β) (l : List γ) : ∀ (i : Nat),
    (l.flatMap (fun r => [f r, g r]))[i]? = if i % 2 = 0 then (l[i / 2]?).map f else (l[i / 2]?).map g := by
  induction l with
  | nil => intro i; simp
  | cons r t ih =>
    intro i
    match i with
    | 0 => simp
    | 1 => simp
    | i + 2 =>
      have := ih i
      simp only [List.flatMap_cons, List.cons_append, List.nil_append, List.getElem?_cons_succ, this]
      have h1 : (i + 2) % 2 = i % 2 := by omega
      have h2 : (i + 2) / 2 = i / 2 + 1 := by omega
      rw [h1, h2, List.getElem?_cons_succ]

theorem length_pairs (f g : γ → β) (l : List γ) : (l.flatMap (fun r => [f r, g r])).length = l.length * 2 := by
  induction l with
  | nil => rfl
  | cons r t ih => simp [List.flatMap_cons, ih]; omega

/-- `e = np.zeros(2n); e[0::2] = A; e[1::2] = B` interleaves `A` and `B` -/
theorem setStride_interleave (z : β) (f g : γ → β) (l : List γ) :
    setStride (setStride (List.replicate (l.length * 2) z) 0 2 (l.map f)) 1 2 (l.map g)
      = l.flatMap (fun r => [f r, g r]) := by
  apply List.ext_getElem?
  intro i
  rw [getElem?_pairs]
  simp only [setStride, List.getElem?_map, List.getElem?_zipIdx, List.getElem?_replicate, Nat.zero_add]
  by_cases hi : i < l.length * 2
  · have hj : i / 2 < l.length := by omega
    simp only [hi, if_true, Option.map_some, strideElem, Nat.zero_le, true_and, Nat.sub_zero, List.getD_eq_getElem?_getD,
      List.getElem?_map, List.getElem?_eq_getElem hj, Option.getD_some]
    by_cases he : i % 2 = 0
    · have : ¬ (1 ≤ i ∧ (i - 1) % 2 = 0) := by omega
      simp [he, this]
    · have h1 : (1 ≤ i ∧ (i - 1) % 2 = 0) := by omega
      have h2 : (i - 1) / 2 = i / 2 := by omega
      simp [he, h1, h2, hj]
  · have hj : ¬ i / 2 < l.length := by omega
    have : l[i / 2]? = none := by simp; omega
    simp [hi, this]


theorem take_reverse (d : β) (l : List β) (idx : List Nat) : take d l idx.reverse = (take d l idx).reverse := by
  simp [take]

theorem zipWith_map_map {δ ε : Type} (f : γ → δ → ε) (g : β → γ) (h : β → δ) (l : List β) :
    List.zipWith f (l.map g) (l.map h) = l.map (fun x => f (g x) (h x)) := by
  induction l with
  | nil => rfl
  | cons x t ih => simp only [List.map_cons, List.zipWith_cons_cons, ih]

/-- `np.vstack((l.map f, l.map g₁, …)).T`: row `i` of the transposed array holds `f lᵢ, g₁ lᵢ, …` -/
theorem transpose_maps (d : β) (f : γ → β) (fs : List (γ → β)) (l : List γ) :
    transpose d ((f :: fs).map (fun g => l.map g)) = l.map (fun r => (f :: fs).map (fun g => g r)) := by
  apply List.ext_getElem
  · simp [transpose]
  · intro i h1 h2
    simp only [transpose, List.map_cons, List.headD_cons, List.length_map] at h1 ⊢
    have hi : i < l.length := by simpa using h1
    simp [List.getD_eq_getElem?_getD, List.getElem?_eq_getElem hi]

end
end Taurex.Gen.Np

namespace Taurex.C17Src
open Taurex.Binning Taurex.Observation Taurex.Gen

section
variable {α : Type} [Add α] [Sub α] [Mul α] [Div α] [Neg α] [LT α] [LE α]
  [DecidableLT α] [DecidableLE α] [OfNat α 0] [OfNat α 1] [OfNat α 2] [OfNat α 10000]

/-- one row of the observation array as the code sees it: 3 or 4 columns -/
def encode (fourCol : Bool) (r : ORow α) : List α := if fourCol then [r.wl, r.v, r.e, r.bw] else [r.wl, r.v, r.e]

/-- `rawData.shape[1]` -/
def ncols (fourCol : Bool) : Nat := if fourCol then 4 else 3

theorem col0 (fc : Bool) (rows : List (ORow α)) :
    List.map (fun r__ : List α => r__.getD 0 0) (rows.map (encode fc)) = rows.map ORow.wl := by
  cases fc <;> simp [encode, List.map_map, Function.comp_def]

/-- every loaded observation has one wavenumber width per row -/
theorem load_widths_length (fc : Bool) (rows : List (ORow α)) :
    (load fc rows).wnWidths.length = (load fc rows).rows.length := by
  simp only [load]
  cases fc
  · simp only [Bool.false_eq_true, if_false, List.length_zipWith, List.length_map, Np.length_widths]
    omega
  · simp

end
end Taurex.C17Src
