/-
  Helper lemmas for the source ties of C01 / C03 / C19 (`Props/C01Src.lean`, …): closed forms of the loop shapes that
  `harness/translate_shaped.py` generates (point updates of a table inside nested `range` loops, lists built by
  `append`, loops left by `break`, tables filled row by row), and congruence facts of the model functions of
  `TaurexModel/Transmission.lean`.  Core Lean only, every carrier (no algebra).
-/
import TaurexModel.Transmission
set_option linter.unusedSectionVars false

namespace Taurex.C01Src
open Taurex.Transmission

section loops
variable {α : Type} [Add α]

/-- `for wn in range(m): t[r, wn] += g wn` -/
theorem fold_point_row (r m : Nat) (g : Nat → α) (t : Nat → Nat → α) :
    (List.range' 0 m).foldl (fun (t : Nat → Nat → α) (wn : Nat) =>
        fun i j => if i = r ∧ j = wn then t r wn + g wn else t i j) t
      = fun i j => if i = r ∧ j < m then t r j + g j else t i j := by
  induction m with
  | zero => funext i j; simp
  | succ m ih =>
    rw [List.range'_1_concat, List.foldl_append, ih]
    funext i j
    simp only [List.foldl_cons, List.foldl_nil, Nat.zero_add]
    by_cases hi : i = r
    · subst hi
      by_cases hj : j = m
      · subst hj; simp
      · by_cases hlt : j < m
        · have : j < m + 1 := by omega
          simp [hj, hlt, this]
        · have : ¬ j < m + 1 := by omega
          simp [hj, hlt, this]
    · simp [hi]

/-- the two nested loops of the numba kernels:
    `for k in range(s, s+c): for wn in range(m): t[r, wn] += g k wn` -/
theorem fold_kernel (r m s c : Nat) (g : Nat → Nat → α) (t : Nat → Nat → α) :
    (List.range' s c).foldl (fun (t : Nat → Nat → α) (k : Nat) =>
        (List.range' 0 m).foldl (fun (t : Nat → Nat → α) (wn : Nat) =>
          fun i j => if i = r ∧ j = wn then t r wn + g k wn else t i j) t) t
      = fun i j => if i = r ∧ j < m then (List.range' s c).foldl (fun acc k => acc + g k j) (t r j) else t i j := by
  induction c with
  | zero =>
    funext i j
    by_cases h : i = r ∧ j < m
    · simp [h.1]
    · simp [h]
  | succ c ih =>
    rw [List.range'_1_concat, List.foldl_append, ih]
    simp only [List.foldl_cons, List.foldl_nil]
    rw [fold_point_row]
    funext i j
    by_cases h : i = r ∧ j < m
    · obtain ⟨rfl, hj⟩ := h
      simp [hj]
    · simp only [if_neg h]

end loops

/-- `xs = []; for l in range(n): xs.append(g l)` -/
theorem foldl_append_singleton {β : Type} (g : Nat → β) (n : Nat) (init : List β) :
    (List.range' 0 n).foldl (fun acc l => acc ++ [g l]) init = init ++ (List.range n).map g := by
  induction n with
  | zero => simp
  | succ n ih =>
    rw [List.range'_1_concat, List.foldl_append, ih, List.range_succ]
    simp

/-! ### a loop left by `break` -/

/-- `for c in cs: if sat(t): break; t = step(c, t)` -/
def cutLoop {ι σ : Type} (sat : σ → Bool) (step : ι → σ → σ) : List ι → σ → σ
  | [], t => t
  | c :: cs, t => if sat t then t else cutLoop sat step cs (step c t)

/-- once the flag "left by break" is set the remaining iterations change nothing -/
theorem foldl_broken {ι σ : Type} (sat : σ → Bool) (step : ι → σ → σ) (cs : List ι) (t : σ) :
    cs.foldl (fun (st : σ × Bool) c =>
        if st.2 then (st.1, st.2) else if sat st.1 then (st.1, true) else (step c st.1, st.2)) (t, true) = (t, true) := by
  induction cs with
  | nil => rfl
  | cons c cs ih => simpa using ih

/-- the translator's encoding of a loop with `break` (state × flag) computes `cutLoop` -/
theorem foldl_break {ι σ : Type} (sat : σ → Bool) (step : ι → σ → σ) (cs : List ι) (t : σ) :
    (cs.foldl (fun (st : σ × Bool) c =>
        if st.2 then (st.1, st.2) else if sat st.1 then (st.1, true) else (step c st.1, st.2)) (t, false)).1
      = cutLoop sat step cs t := by
  induction cs generalizing t with
  | nil => rfl
  | cons c cs ih =>
    simp only [List.foldl_cons, cutLoop, Bool.false_eq_true, if_false]
    by_cases h : sat t = true
    · simp only [h, if_true]
      rw [foldl_broken]
    · simp only [h]
      exact ih (step c t)

section model
variable {α : Type} [Add α] [Sub α] [Mul α] [Div α] [Neg α] [LT α] [LE α]
  [DecidableLT α] [DecidableLE α] [OfNat α 0] [OfNat α 1] [OfNat α 2] [OfNat α 10] [Transc α]

/-- `tauCutFrom` is the `break` loop over the contribution list -/
theorem tauCutFrom_eq_cutLoop (n nwn : Nat) (path dens : Nat → α) (l : Nat) (cs : List (Contrib α)) (acc : Nat → α) :
    tauCutFrom n nwn path dens l cs acc
      = cutLoop (saturated nwn) (fun c a => addContrib c n path dens l a) cs acc := by
  induction cs generalizing acc with
  | nil => rfl
  | cons c cs ih =>
    simp only [tauCutFrom, cutLoop]
    split
    · rfl
    · exact ih _

/-- the saturation test reads the first `nwn` entries of the row only -/
theorem saturated_congr (nwn : Nat) (a b : Nat → α) (h : ∀ wn < nwn, a wn = b wn) :
    saturated nwn a = saturated nwn b := by
  unfold saturated
  induction nwn with
  | zero => rfl
  | succ m ih =>
    rw [List.range_succ, List.all_append, List.all_append, ih (fun w hw => h w (Nat.lt_succ_of_lt hw))]
    simp only [List.all_cons, List.all_nil, h m (Nat.lt_succ_self m)]

/-- the accumulation loop reads `f` below `n` only -/
theorem accFrom_congr (a : α) (n : Nat) (f g : Nat → α) (h : ∀ k < n, f k = g k) : accFrom a n f = accFrom a n g := by
  unfold accFrom
  induction n with
  | zero => rfl
  | succ n ih =>
    rw [List.range_succ, List.foldl_append, List.foldl_append, ih (fun k hk => h k (Nat.lt_succ_of_lt hk))]
    simp only [List.foldl_cons, List.foldl_nil]
    rw [h n (Nat.lt_succ_self n)]

/-- a contribution is added point-wise in the wavenumber -/
theorem addContrib_congr (c : Contrib α) (n : Nat) (path dens : Nat → α) (l : Nat) (a b : Nat → α) (wn : Nat)
    (h : a wn = b wn) : addContrib c n path dens l a wn = addContrib c n path dens l b wn := by
  simp only [addContrib, h]

/-- … and reads the path below `n - l` only -/
theorem addContrib_congr_path (c : Contrib α) (n : Nat) (path path' dens : Nat → α) (l : Nat) (a : Nat → α)
    (h : ∀ k < n - l, path k = path' k) : addContrib c n path dens l a = addContrib c n path' dens l a := by
  funext wn
  simp only [addContrib]
  apply accFrom_congr
  intro k hk
  unfold term
  unfold nTerms at hk
  cases hc : c.kind <;> simp only [hc] at hk ⊢
  · rw [h k hk]
  · rw [h k hk]

/-- rows that agree below `nwn` stay in agreement below `nwn` through the loop with the early exit -/
theorem tauCutFrom_congr (n nwn : Nat) (path dens : Nat → α) (l : Nat) (cs : List (Contrib α)) (a b : Nat → α)
    (h : ∀ wn < nwn, a wn = b wn) : ∀ wn < nwn, tauCutFrom n nwn path dens l cs a wn = tauCutFrom n nwn path dens l cs b wn := by
  induction cs generalizing a b with
  | nil => exact h
  | cons c cs ih =>
    intro wn hwn
    simp only [tauCutFrom]
    rw [saturated_congr nwn a b h]
    split
    · exact h wn hwn
    · exact ih _ _ (fun w hw => addContrib_congr c n path dens l a b w (h w hw)) wn hwn

theorem tauCutFrom_congr_path (n nwn : Nat) (path path' dens : Nat → α) (l : Nat) (cs : List (Contrib α)) (a : Nat → α)
    (h : ∀ k < n - l, path k = path' k) : tauCutFrom n nwn path dens l cs a = tauCutFrom n nwn path' dens l cs a := by
  induction cs generalizing a with
  | nil => rfl
  | cons c cs ih =>
    simp only [tauCutFrom]
    rw [addContrib_congr_path c n path path' dens l a h]
    split
    · rfl
    · exact ih _

/-- the integral over the layers reads the transmittance of layers below `n` only -/
theorem depth_congr (rp rs : α) (n : Nat) (z dz tr tr' : Nat → α) (h : ∀ l < n, tr l = tr' l) :
    depth rp rs n z dz tr = depth rp rs n z dz tr' := by
  unfold depth
  rw [accFrom_congr 0 n (depthTerm rp z dz tr) (depthTerm rp z dz tr') (fun l hl => by unfold depthTerm; rw [h l hl])]

end model

/-! ### a table filled row by row -/

/-- `for l in range(n): <update of row l that reads row l only>`: row `i < n` of the result is what the update of row `i`
    produces from the initial row (below the column bound `m` up to which the update is specified) -/
theorem fold_layers {β : Type} (n m : Nat) (F : Nat → (Nat → Nat → β) → (Nat → Nat → β)) (T0 : Nat → Nat → β)
    (rowv : Nat → Nat → β)
    (hkeep : ∀ l T i j, i ≠ l → F l T i j = T i j)
    (hrow : ∀ l T, (∀ j, T l j = T0 l j) → ∀ j < m, F l T l j = rowv l j) :
    ∀ i j, (i < n → j < m → (List.range' 0 n).foldl (fun T l => F l T) T0 i j = rowv i j) ∧
           (n ≤ i → (List.range' 0 n).foldl (fun T l => F l T) T0 i j = T0 i j) := by
  induction n with
  | zero => intro i j; exact ⟨fun h => absurd h (Nat.not_lt_zero _), fun _ => rfl⟩
  | succ n ih =>
    intro i j
    rw [List.range'_1_concat, List.foldl_append]
    simp only [List.foldl_cons, List.foldl_nil, Nat.zero_add]
    constructor
    · intro hi hj
      by_cases hin : i = n
      · subst hin
        exact hrow i _ (fun j' => (ih i j').2 (Nat.le_refl _)) j hj
      · rw [hkeep n _ i j hin]
        exact (ih i j).1 (by omega) hj
    · intro hi
      rw [hkeep n _ i j (by omega)]
      exact (ih i j).2 (by omega)

end Taurex.C01Src
