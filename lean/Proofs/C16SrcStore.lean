/-
  C16 — source tie, the recursive writer: how a result dictionary of the model (`Output.Value`) is seen by the regenerated
  `store_thing` / `recursively_save_dict_contents_to_output`, and the ORACLE for the objects they act on.

  * `embV enc : Value α → Val α (SObj α)`: ints / floats / bools / strings / lists / tuples / dicts are the Python values,
    a numeric ndarray is the object `nd a`, anything the writer has no case for is the object `unsup`.  The model keeps a
    string as its code points; `enc` is ANY injective representation of code-point lists as `String`s (`dec` its left
    inverse): the writer never looks inside a string value, the theorems hold for every such pair.
  * the outside world is the file being written.  Its state is the LOG of datasets / groups created so far:
    `(path of the group, name, node)` in creation order (a group is logged when it is created, its children follow with
    the longer path) — `flat p es` is the log that creating the entries `es` (the model's result) in the group at `p`
    leaves.  An output (group) object is `group p`.
  * `SWorld.ext`: `write_scalar / write_array / write_string` create the dataset the model's `storeThing` lists for that
    type, `write_string_array` creates `Output.stringNode` (AttributeError for a non-string element, before anything is
    written), `create_group` logs the group and returns its handle, `np.array(list)` is `Output.toNdList … |>.bind stack`
    (numpy's rule as documented in Output.lean; when it is `none` numpy / h5py raise `w.npErr`, a TypeError or a
    ValueError), `isinstance(·, np.ndarray)` holds for `nd` only.
  The monad is `Dyn.Eff (Log α)`: state = the log, which is kept when an exception is raised.
-/
import TaurexModel.Gen.SrcC16
import TaurexModel.Output
set_option linter.unusedSectionVars false
set_option linter.unusedVariables false
set_option linter.unusedSimpArgs false

namespace Taurex.C16Src
open Taurex.Gen Taurex.Gen.Dyn
open Taurex.Output (Value Node Arr ArrData Err OfInt toNdList stack stringList stringNode storeThing storeSeq
  storeEntries subKey isStr)

inductive SObj (α : Type) where
  /-- an output group (the root or a sub-group), identified by its path -/
  | group (path : List String)
  /-- a numeric numpy array -/
  | nd (a : Arr α)
  | np
  | npInt64
  | npFloat64
  | npNdarray
  /-- a value of a type the writer has no case for -/
  | unsup

/-- identity of the objects (arrays are never compared by the translated code) -/
instance {α : Type} : BEq (SObj α) where
  beq a b :=
    match a, b with
    | .group p, .group q => p == q
    | .np, .np => true
    | .npInt64, .npInt64 => true
    | .npFloat64, .npFloat64 => true
    | .npNdarray, .npNdarray => true
    | .unsup, .unsup => true
    | _, _ => false

abbrev SV (α : Type) := Dyn.Val α (SObj α)

/-- the file as the log of what was created: (group path, name, node) -/
abbrev Log (α : Type) := List (List String × String × Node α)

abbrev SM (α : Type) := Dyn.Eff (Log α)

section
variable {α : Type}

mutual
def embV (enc : List Nat → String) : Value α → SV α
  | .int i => .int i
  | .float x => .float x
  | .bool b => .bool b
  | .array a => .obj (.nd a)
  | .str s => .str (enc s)
  | .list l => .list (embL enc l)
  | .tuple l => .tuple (embL enc l)
  | .dict d => .dict (embD enc d)
  | .unsupported => .obj .unsup
def embL (enc : List Nat → String) : List (Value α) → List (SV α)
  | [] => []
  | v :: vs => embV enc v :: embL enc vs
def embD (enc : List Nat → String) : List (String × Value α) → List (SV α × SV α)
  | [] => []
  | (k, v) :: r => (.str k, embV enc v) :: embD enc r
end

mutual
/-- reading a Python value back as a model value (left inverse of `embV`) -/
def unV (dec : String → List Nat) : SV α → Value α
  | .none => .unsupported
  | .bool b => .bool b
  | .int i => .int i
  | .float x => .float x
  | .str s => .str (dec s)
  | .list l => .list (unL dec l)
  | .tuple l => .tuple (unL dec l)
  | .dict d => .dict (unD dec d)
  | .obj o => match o with
    | .nd a => .array a
    | _ => .unsupported
def unL (dec : String → List Nat) : List (SV α) → List (Value α)
  | [] => []
  | v :: vs => unV dec v :: unL dec vs
def unD (dec : String → List Nat) : List (SV α × SV α) → List (String × Value α)
  | [] => []
  | (k, v) :: r => ((match k with | .str s => s | _ => ""), unV dec v) :: unD dec r
end

mutual
theorem unV_embV (enc : List Nat → String) (dec : String → List Nat) (h : ∀ s, dec (enc s) = s) :
    ∀ v : Value α, unV dec (embV enc v) = v
  | .int i => rfl
  | .float x => rfl
  | .bool b => rfl
  | .array a => rfl
  | .str s => by simp [embV, unV, h]
  | .list l => by simp [embV, unV, unL_embL enc dec h l]
  | .tuple l => by simp [embV, unV, unL_embL enc dec h l]
  | .dict d => by simp [embV, unV, unD_embD enc dec h d]
  | .unsupported => rfl
theorem unL_embL (enc : List Nat → String) (dec : String → List Nat) (h : ∀ s, dec (enc s) = s) :
    ∀ l : List (Value α), unL dec (embL enc l) = l
  | [] => rfl
  | v :: vs => by simp [embL, unL, unV_embV enc dec h v, unL_embL enc dec h vs]
theorem unD_embD (enc : List Nat → String) (dec : String → List Nat) (h : ∀ s, dec (enc s) = s) :
    ∀ d : List (String × Value α), unD dec (embD enc d) = d
  | [] => rfl
  | (k, v) :: r => by simp [embD, unD, unV_embV enc dec h v, unD_embD enc dec h r]
end

mutual
/-- the log that creating the entries `es` in the group at `p` leaves -/
def flat (p : List String) : List (String × Node α) → Log α
  | [] => []
  | (k, n) :: r => flatNode p k n ++ flat p r
def flatNode (p : List String) (k : String) : Node α → Log α
  | .group ch => (p, k, .group []) :: flat (p ++ [k]) ch
  | .num a => [(p, k, .num a)]
  | .vstr s => [(p, k, .vstr s)]
  | .sfix wd rows => [(p, k, .sfix wd rows)]
end

theorem flat_append (p : List String) (a b : List (String × Node α)) : flat p (a ++ b) = flat p a ++ flat p b := by
  induction a with
  | nil => simp [flat]
  | cons x t ih => obtain ⟨k, n⟩ := x; simp [flat, ih, List.append_assoc]

mutual
/-- nesting depth of a value: the fuel `store_thing` needs is one more -/
def depth : Value α → Nat
  | .list l => depthL l + 1
  | .tuple l => depthL l + 1
  | .dict d => depthD d + 1
  | _ => 0
def depthL : List (Value α) → Nat
  | [] => 0
  | v :: vs => max (depth v) (depthL vs)
def depthD : List (String × Value α) → Nat
  | [] => 0
  | (_, v) :: r => max (depth v) (depthD r)
end

/-! ## the oracle -/

structure SWorld (α : Type) where
  enc : List Nat → String
  dec : String → List Nat
  /-- what numpy / h5py raise when a list does not become a numeric array -/
  npErr : Exc

/-- `enc` / `dec` represent code-point lists faithfully; `npErr` is one of the two classes `store_thing` catches -/
def SWorldOK (w : SWorld α) : Prop :=
  (∀ s, w.dec (w.enc s) = s) ∧ (w.npErr = .TypeError ∨ w.npErr = .ValueError)

/-- create one entry in the group at `p` -/
def logEntry (p : List String) (k : String) (n : Node α) : SM α (SV α) := fun s => (.ok .none, s ++ [(p, k, n)])

def SWorld.ext [OfInt α] (w : SWorld α) : Ext (SM α) α (SObj α) where
  global name := if name = "np" then pure (.obj .np) else throw .NameError
  getattr o name :=
    match o with
    | .np =>
      if name = "int64" then pure (.obj .npInt64) else if name = "float64" then pure (.obj .npFloat64)
      else if name = "ndarray" then pure (.obj .npNdarray) else throw .AttributeError
    | _ => throw .AttributeError
  call _ _ _ := throw .TypeError
  method o name args _ :=
    match o with
    | .group p =>
      if name = "write_scalar" then
        match args with
        | [.str key, .int i] => logEntry p key (.num ⟨[], .ints [i]⟩)
        | [.str key, .bool b] => logEntry p key (.num ⟨[], .bools [b]⟩)
        | [.str key, .float x] => logEntry p key (.num ⟨[], .floats [x]⟩)
        | _ => throw .TypeError
      else if name = "write_array" then
        match args with
        | [.str key, .obj (.nd a)] => logEntry p key (.num a)
        | _ => throw .TypeError
      else if name = "write_string" then
        match args with
        | [.str key, .str s] => logEntry p key (.vstr (w.dec s))
        | _ => throw .TypeError
      else if name = "write_string_array" then
        match args with
        | [.str key, .list items] =>
          match stringList (unL w.dec items) with
          | some strs => logEntry p key (stringNode strs)
          | none => throw .AttributeError
        | _ => throw .TypeError
      else if name = "create_group" then
        match args with
        | [.str key] => fun s => (.ok (.obj (.group (p ++ [key]))), s ++ [(p, key, .group [])])
        | _ => throw .TypeError
      else throw .AttributeError
    | .np =>
      if name = "array" then
        match args with
        | [.list items] =>
          match (toNdList (unL w.dec items)).bind stack with
          | some a => pure (.obj (.nd a))
          | none => throw w.npErr
        | _ => throw .TypeError
      else throw .AttributeError
    | _ => throw .AttributeError
  isinst v o :=
    match o, v with
    | .npNdarray, .obj (.nd _) => true
    | _, _ => false
  iter _ := throw .TypeError
  truthy _ := pure true
  op _ _ := throw .TypeError
  parseFloat _ := none

/-! ## the monad `Eff` -/

@[simp] theorem eff_pure {σ β : Type} (x : β) (s : σ) : (pure x : Eff σ β) s = (.ok x, s) := rfl
@[simp] theorem eff_throw {σ β : Type} (e : Exc) (s : σ) : (throw e : Eff σ β) s = (.error e, s) := rfl
theorem eff_bind {σ β γ : Type} (x : Eff σ β) (f : β → Eff σ γ) (s : σ) :
    (x >>= f) s = match x s with
      | (.ok a, s') => f a s'
      | (.error e, s') => (.error e, s') := rfl
theorem eff_bind_ok {σ β γ : Type} (x : Eff σ β) (f : β → Eff σ γ) (s s' : σ) (a : β) (h : x s = (.ok a, s')) :
    (x >>= f) s = f a s' := by rw [eff_bind, h]
theorem eff_bind_err {σ β γ : Type} (x : Eff σ β) (f : β → Eff σ γ) (s s' : σ) (e : Exc) (h : x s = (.error e, s')) :
    (x >>= f) s = (.error e, s') := by rw [eff_bind, h]
theorem eff_try {σ β : Type} (x : Eff σ β) (h : Exc → Eff σ β) (s : σ) :
    (tryCatch x h) s = match x s with
      | (.ok a, s') => (.ok a, s')
      | (.error e, s') => h e s' := rfl

/-! ## outcomes -/

section
variable [OfInt α] [FloatLike α]

/-- the exception classes a model error stands for at the level of `store_thing` -/
def errOK : Err → Exc → Prop
  | .unsupported, e => e = .TypeError ∨ e = .ValueError
  | .mixedStringList, e => e = .AttributeError
  | .notDict, _ => False

/-- … at the level of `recursively_save_dict_contents_to_output` (a TypeError has become a ValueError) -/
def errOK' : Err → Exc → Prop
  | .unsupported, e => e = .ValueError
  | .mixedStringList, e => e = .AttributeError
  | .notDict, _ => False

def OutcomeR {β : Type} (R : Err → Exc → Prop) (p : List String) (s : Log α)
    (m : Except Err (List (String × Node α))) (okv : β) (r : Except Exc β × Log α) : Prop :=
  match m with
  | .ok es => r = (.ok okv, s ++ flat p es)
  | .error e => ∃ e' s', r = (.error e', s') ∧ R e e'

abbrev Outcome {β : Type} := @OutcomeR α β errOK

theorem isTy_str_emb (enc : List Nat → String) (v : Value α) :
    Dyn.Val.isTy .str (embV enc v) = isStr v := by
  cases v <;> rfl

theorem mapM_isStr (w : SWorld α) (l : List (Value α)) (s : Log α) :
    Dyn.mapM (m := SM α) (fun x => pure (Dyn.Val.bool (Dyn.Val.isTy .str x))) (embL w.enc l) s
      = (.ok (l.map (fun v => (Dyn.Val.bool (isStr v) : SV α))), s) := by
  induction l with
  | nil => rfl
  | cons v t ih => simp [embL, Dyn.mapM, eff_bind, ih, isTy_str_emb]

theorem contains_true (w : SWorld α) (l : List (Value α)) (s : Log α) :
    Dyn.contains w.ext (Dyn.Val.bool true) (Dyn.Val.list (l.map (fun v => (Dyn.Val.bool (isStr v) : SV α)))) s
      = (.ok (l.any isStr), s) := by
  simp [Dyn.contains, List.any_map, Function.comp_def, Dyn.Val.beq]

theorem format_key (w : SWorld α) (key : String) (i : Nat) (s : Log α) :
    Dyn.m_format w.ext ["", "", ""] [Dyn.Val.str key, Dyn.Val.int (i : Int)] s = (.ok (.str (subKey key i)), s) := by
  simp [Dyn.m_format, Dyn.mapM, Dyn.str_, eff_bind, Dyn.formatParts, subKey, Dyn.intStr]
  rfl


theorem outcome_ok {β : Type} {p : List String} {s : Log α} {es : List (String × Node α)} {okv : β}
    {r : Except Exc β × Log α} {m : Except Err (List (String × Node α))} (hm : m = .ok es)
    {R : Err → Exc → Prop} (h : OutcomeR R p s m okv r) : r = (.ok okv, s ++ flat p es) := by
  subst hm; exact h

theorem outcome_err {β : Type} {p : List String} {s : Log α} {e : Err} {okv : β}
    {r : Except Exc β × Log α} {m : Except Err (List (String × Node α))} (hm : m = .error e)
    {R : Err → Exc → Prop} (h : OutcomeR R p s m okv r) : ∃ e' s', r = (.error e', s') ∧ R e e' := by
  subst hm; exact h

/-- the `key0, key1, …` expansion loop, given the writer at the smaller fuel -/
theorem forM_seq (w : SWorld α) (st : SV α → SV α → SV α → SM α (SV α)) (p : List String) (key : String)
    (fuel : Nat)
    (IH : ∀ v : Value α, depth v < fuel → ∀ k s, Outcome p s (storeThing k v) (Dyn.Val.none : SV α)
        (st (.obj (.group p)) (.str k) (embV w.enc v) s))
    (body : Unit → SV α → SM α Unit)
    (hb : ∀ (i : Nat) (x : SV α) (s : Log α), body () (.tuple [.int (i : Int), x]) s
        = (st (.obj (.group p)) (.str (subKey key i)) x >>= fun _ => pure ()) s) :
    ∀ (l : List (Value α)) (i : Nat) (s : Log α), depthL l < fuel →
      Outcome p s (storeSeq key i l) () (Dyn.forM (enumFrom i (embL w.enc l)) () body s)
  | [], i, s, _ => by simp [Outcome, OutcomeR, storeSeq, embL, enumFrom, Dyn.forM, flat]
  | v :: vs, i, s, hd => by
    have hv : depth v < fuel := by simp only [depthL] at hd; omega
    have hvs : depthL vs < fuel := by simp only [depthL] at hd; omega
    have h1 := IH v hv (subKey key i) s
    simp only [embL, enumFrom, Dyn.forM, storeSeq]
    cases hm : storeThing (subKey key i) v with
    | error e =>
      obtain ⟨e', s', hr, he⟩ := outcome_err hm h1
      refine ⟨e', s', ?_, he⟩
      rw [eff_bind, hb, eff_bind, hr]
    | ok a =>
      have hr := outcome_ok hm h1
      have h2 := forM_seq w st p key fuel IH body hb vs (i + 1) (s ++ flat p a) hvs
      have hstep : (body () (.tuple [.int (i : Int), embV w.enc v]) >>= fun s' =>
          Dyn.forM (enumFrom (i + 1) (embL w.enc vs)) s' body) s
          = Dyn.forM (enumFrom (i + 1) (embL w.enc vs)) () body (s ++ flat p a) := by
        rw [eff_bind, hb, eff_bind, hr]
        rfl
      rw [hstep]
      cases hm2 : storeSeq key (i + 1) vs with
      | error e =>
        obtain ⟨e', s', hr2, he⟩ := outcome_err hm2 h2
        exact ⟨e', s', hr2, he⟩
      | ok b =>
        have hr2 := outcome_ok hm2 h2
        simp only [Outcome, OutcomeR, hr2, flat_append, List.append_assoc]


theorem errOK_of_errOK' {e : Err} {x : Exc} (h : errOK' e x) : errOK e x := by
  cases e <;> simp_all [errOK, errOK']

/-- the conversion `except TypeError: raise ValueError` applied to an exception the writer raised -/
theorem convert_err {e : Err} {x : Exc} (h : errOK e x) :
    errOK' e (if x.isaAny [Exc.TypeError] then Exc.ValueError else x) := by
  cases e with
  | unsupported => rcases h with rfl | rfl <;> simp [errOK', Exc.isaAny, Exc.isa, Exc.base]
  | mixedStringList => cases h; simp [errOK', Exc.isaAny, Exc.isa, Exc.base]
  | notDict => exact h

/-- the loop of `recursively_save_dict_contents_to_output` over the items of a dictionary -/
theorem forM_entries (w : SWorld α) (st : SV α → SV α → SV α → SM α (SV α)) (q : List String) (fuel : Nat)
    (IH : ∀ v : Value α, depth v < fuel → ∀ k s, Outcome q s (storeThing k v) (Dyn.Val.none : SV α)
        (st (.obj (.group q)) (.str k) (embV w.enc v) s))
    (body : Unit → SV α → SM α Unit)
    (hb : ∀ (k : String) (x : SV α) (s : Log α), body () (.tuple [.str k, x]) s
        = (tryCatch (st (.obj (.group q)) (.str k) x >>= fun _ => pure ())
            (fun e => if e.isaAny [Exc.TypeError] then throw Exc.ValueError else throw e)) s) :
    ∀ (d : List (String × Value α)) (s : Log α), depthD d < fuel →
      OutcomeR errOK' q s (storeEntries d) () (Dyn.forM ((embD w.enc d).map (fun e => Dyn.Val.tuple [e.1, e.2])) () body s)
  | [], s, _ => by simp [OutcomeR, storeEntries, embD, Dyn.forM, flat]
  | (k, v) :: r, s, hd => by
    have hv : depth v < fuel := by simp only [depthD] at hd; omega
    have hr' : depthD r < fuel := by simp only [depthD] at hd; omega
    have h1 := IH v hv k s
    simp only [embD, List.map_cons, Dyn.forM, storeEntries]
    cases hm : storeThing k v with
    | error e =>
      obtain ⟨e', s', hr, he⟩ := outcome_err hm h1
      refine ⟨_, s', ?_, convert_err he⟩
      rw [eff_bind, hb, eff_try, eff_bind, hr]
      by_cases hc : e'.isaAny [Exc.TypeError] = true <;> simp [hc]
    | ok a =>
      have hr := outcome_ok hm h1
      have h2 := forM_entries w st q fuel IH body hb r (s ++ flat q a) hr'
      have hstep : (body () (.tuple [.str k, embV w.enc v]) >>= fun s' =>
          Dyn.forM ((embD w.enc r).map (fun e => Dyn.Val.tuple [e.1, e.2])) s' body) s
          = Dyn.forM ((embD w.enc r).map (fun e => Dyn.Val.tuple [e.1, e.2])) () body (s ++ flat q a) := by
        rw [eff_bind, hb, eff_try, eff_bind, hr]
        rfl
      rw [hstep]
      cases hm2 : storeEntries r with
      | error e =>
        obtain ⟨e', s', hr2, he⟩ := outcome_err hm2 h2
        exact ⟨e', s', hr2, he⟩
      | ok b =>
        have hr2 := outcome_ok hm2 h2
        simp only [OutcomeR, hr2, flat_append, List.append_assoc]


theorem storeThing_list (key : String) (l : List (Value α)) :
    storeThing key (.list l) =
      if l.any isStr then
        match stringList l with
        | some strs => .ok [(key, stringNode strs)]
        | none => .error .mixedStringList
      else
        match (toNdList l).bind stack with
        | some a => .ok [(key, .num a)]
        | none => storeSeq key 0 l := by
  rw [storeThing]
  split
  · cases stringList l <;> rfl
  · cases (toNdList l).bind stack <;> rfl

theorem storeThing_tuple (key : String) (l : List (Value α)) :
    storeThing key (.tuple l) = storeThing key (.list l) := by
  rw [storeThing, storeThing]

theorem storeThing_dict (key : String) (d : List (String × Value α)) :
    storeThing key (.dict d) =
      match storeEntries d with
      | .ok ch => .ok [(key, .group ch)]
      | .error e => .error e := by
  rw [storeThing]
  cases storeEntries d <;> rfl

theorem ext_write_string_array (w : SWorld α) (p : List String) (key : String) (items : List (SV α)) (s : Log α) :
    w.ext.method (.group p) "write_string_array" [.str key, .list items] [] s =
      match stringList (unL w.dec items) with
      | some strs => (.ok .none, s ++ [(p, key, stringNode strs)])
      | none => (.error .AttributeError, s) := by
  show (match stringList (unL w.dec items) with
      | some strs => logEntry p key (stringNode strs)
      | none => throw Exc.AttributeError) s = _
  cases stringList (unL w.dec items) <;> rfl

theorem ext_np_array (w : SWorld α) (items : List (SV α)) (s : Log α) :
    w.ext.method .np "array" [.list items] [] s =
      match (toNdList (unL w.dec items)).bind stack with
      | some a => (.ok (.obj (.nd a)), s)
      | none => (.error w.npErr, s) := by
  show (match (toNdList (unL w.dec items)).bind stack with
      | some a => (pure (Dyn.Val.obj (SObj.nd a)) : SM α (SV α))
      | none => throw w.npErr) s = _
  cases (toNdList (unL w.dec items)).bind stack <;> rfl

theorem ext_write_array (w : SWorld α) (p : List String) (key : String) (a : Arr α) (s : Log α) :
    w.ext.method (.group p) "write_array" [.str key, .obj (.nd a)] [] s = (.ok .none, s ++ [(p, key, .num a)]) := rfl

theorem ext_create_group (w : SWorld α) (p : List String) (key : String) (s : Log α) :
    w.ext.method (.group p) "create_group" [.str key] [] s
      = (.ok (.obj (.group (p ++ [key]))), s ++ [(p, key, .group [])]) := rfl

theorem eff_ite {σ β : Type} (c : Prop) [Decidable c] (x y : Eff σ β) (s : σ) :
    (if c then x else y) s = if c then x s else y s := by
  split <;> rfl

/-- `recursively_save_dict_contents_to_output(output, dic)` given the writer `st` it calls -/
theorem recursively_save_spec (w : SWorld α) (st : SV α → SV α → SV α → SM α (SV α)) (q : List String) (fuel : Nat)
    (IH : ∀ v : Value α, depth v < fuel → ∀ k s, Outcome q s (storeThing k v) (Dyn.Val.none : SV α)
        (st (.obj (.group q)) (.str k) (embV w.enc v) s))
    (d : List (String × Value α)) (s : Log α) (hd : depthD d < fuel) :
    OutcomeR errOK' q s (storeEntries d) (Dyn.Val.none : SV α)
      (SrcC16.recursively_save w.ext st (.obj (.group q)) (.dict (embD w.enc d)) s) := by
  unfold SrcC16.recursively_save
  simp only [Dyn.m_items, eff_bind, eff_pure]
  have hloop := forM_entries w st q fuel IH
    (fun _ t => do
      let __x ← Dyn.unpack2 w.ext t
      tryCatch (do
          let _ ← st (Dyn.Val.obj (SObj.group q)) __x.fst __x.snd
          pure ())
        (fun e => if e.isaAny [Exc.TypeError] then throw Exc.ValueError else throw e))
    (fun k x s => by
      simp [eff_bind, Dyn.unpack2, Dyn.unpack, Dyn.iter])
    d s hd
  cases hm : storeEntries d with
  | error e =>
    obtain ⟨e', s', hr, he⟩ := outcome_err hm hloop
    refine ⟨e', s', ?_, he⟩
    simp only [hr]
  | ok es =>
    have hr := outcome_ok hm hloop
    simp only [OutcomeR, hr]

@[simp] theorem ext_np (w : SWorld α) (s : Log α) : w.ext.global "np" s = (.ok (.obj .np), s) := rfl
@[simp] theorem ext_np_int64 (w : SWorld α) (s : Log α) :
    w.ext.getattr .np "int64" s = (.ok (.obj .npInt64), s) := rfl
@[simp] theorem ext_np_float64 (w : SWorld α) (s : Log α) :
    w.ext.getattr .np "float64" s = (.ok (.obj .npFloat64), s) := rfl
@[simp] theorem ext_np_ndarray (w : SWorld α) (s : Log α) :
    w.ext.getattr .np "ndarray" s = (.ok (.obj .npNdarray), s) := rfl
@[simp] theorem isinst_list (w : SWorld α) (l : List (SV α)) (o : SObj α) : w.ext.isinst (.list l) o = false := by
  cases o <;> rfl
@[simp] theorem isinst_tuple (w : SWorld α) (l : List (SV α)) (o : SObj α) : w.ext.isinst (.tuple l) o = false := by
  cases o <;> rfl
@[simp] theorem isinst_dict (w : SWorld α) (l : List (SV α × SV α)) (o : SObj α) : w.ext.isinst (.dict l) o = false := by
  cases o <;> rfl
@[simp] theorem isTy_list (t : Ty) (l : List (SV α)) : Dyn.Val.isTy t (.list l : SV α) = (t == .list) := by
  cases t <;> rfl
@[simp] theorem isTy_tuple (t : Ty) (l : List (SV α)) : Dyn.Val.isTy t (.tuple l : SV α) = (t == .tuple) := by
  cases t <;> rfl
@[simp] theorem isTy_dict (t : Ty) (l : List (SV α × SV α)) : Dyn.Val.isTy t (.dict l : SV α) = (t == .dict) := by
  cases t <;> rfl

end

end
end Taurex.C16Src
