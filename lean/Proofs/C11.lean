/-
  Lemmas about the vertical-structure model over ℝ (helper file of Props/C11.lean).
-/
import Proofs.RealInst
import TaurexModel.Structure
import Mathlib.Tactic.Linarith
import Mathlib.Tactic.Ring
import Mathlib.Tactic.FieldSimp
import Mathlib.Tactic.Positivity

namespace Taurex.Structure
open Taurex

/-! ### the pressure grid -/

theorem natTo_real (n : ℕ) : (natTo n : ℝ) = (n : ℝ) := by
  induction n with
  | zero => simp [natTo]
  | succ k ih => simp [natTo, ih]

/-- entry `i` of `np.linspace(a, b, n+1)` -/
noncomputable def linEntry (n : ℕ) (a b : ℝ) (i : ℕ) : ℝ :=
  if i = n then b else natTo i * ((b - a) / natTo n) + a

theorem linspace_eq (n : ℕ) (a b : ℝ) :
    linspace n a b = (List.range (n + 1)).map (linEntry n a b) := rfl

theorem linEntry_eq {n : ℕ} (hn : 1 ≤ n) (a b : ℝ) {i : ℕ} :
    linEntry n a b i = a + (i : ℝ) * ((b - a) / (n : ℝ)) := by
  unfold linEntry
  have hn0 : (n : ℝ) ≠ 0 := by exact_mod_cast (by omega : n ≠ 0)
  split
  · next h => subst h; field_simp; ring
  · rw [natTo_real, natTo_real]; ring

theorem linEntry_strictMono {n : ℕ} (hn : 1 ≤ n) {a b : ℝ} (hab : a < b) {i j : ℕ} (hij : i < j) :
    linEntry n a b i < linEntry n a b j := by
  rw [linEntry_eq hn, linEntry_eq hn]
  have hn0 : (0 : ℝ) < n := by exact_mod_cast hn
  have hs : 0 < (b - a) / (n : ℝ) := div_pos (by linarith) hn0
  have : (i : ℝ) < j := by exact_mod_cast hij
  nlinarith

theorem log10_lt {x y : ℝ} (hx : 0 < x) (hxy : x < y) : (log10 x : ℝ) < log10 y := by
  simp only [log10_real]
  have h10 : 0 < Real.log 10 := Real.log_pos (by norm_num)
  exact div_lt_div_of_pos_right (Real.log_lt_log hx hxy) h10

theorem pow10_lt {x y : ℝ} (hxy : x < y) : (pow10 x : ℝ) < pow10 y := by
  simp only [pow10_real]
  exact Real.rpow_lt_rpow_of_exponent_lt (by norm_num) hxy

theorem pow10_log10 {x : ℝ} (hx : 0 < x) : (pow10 (log10 x : ℝ) : ℝ) = x := by
  simp only [pow10_real, log10_real]
  have h10 : (0 : ℝ) < 10 := by norm_num
  rw [Real.rpow_def_of_pos h10]
  have hl : Real.log 10 ≠ 0 := ne_of_gt (Real.log_pos (by norm_num))
  rw [mul_div_cancel₀ _ hl, Real.exp_log hx]

theorem pow10_pos (x : ℝ) : 0 < (pow10 x : ℝ) := by
  simp only [pow10_real]
  exact Real.rpow_pos_of_pos (by norm_num) x

theorem logLevels_eq (n : ℕ) (pmin pmax : ℝ) :
    logLevels n pmin pmax =
      ((List.range (n + 1)).map (fun i => (pow10 (linEntry n (log10 pmin) (log10 pmax) i) : ℝ))).reverse := by
  unfold logLevels
  rw [linspace_eq, List.map_map]
  rfl

theorem logLevels_length (n : ℕ) (pmin pmax : ℝ) : (logLevels n pmin pmax).length = n + 1 := by
  simp [logLevels_eq]

theorem logLevels_pairwise {n : ℕ} (hn : 1 ≤ n) {pmin pmax : ℝ} (h0 : 0 < pmin) (h : pmin < pmax) :
    (logLevels n pmin pmax).Pairwise (· > ·) := by
  rw [logLevels_eq, List.pairwise_reverse, List.pairwise_map]
  refine (List.pairwise_lt_range (n := n + 1)).imp ?_
  intro i j hij
  exact pow10_lt (linEntry_strictMono hn (log10_lt h0 h) hij)

theorem logLevels_pos (n : ℕ) (pmin pmax : ℝ) : ∀ p ∈ logLevels n pmin pmax, 0 < p := by
  intro p hp
  rw [logLevels_eq, List.mem_reverse, List.mem_map] at hp
  obtain ⟨i, _, rfl⟩ := hp
  exact pow10_pos _

theorem logLevels_head {n : ℕ} (pmin : ℝ) {pmax : ℝ} (h : 0 < pmax) :
    (logLevels n pmin pmax).head? = some pmax := by
  rw [logLevels_eq, List.head?_reverse, List.getLast?_map, List.getLast?_range]
  have e := pow10_log10 h
  simp only [pow10_real, log10_real] at e
  simp [linEntry, e]

theorem logLevels_last {n : ℕ} (hn : 1 ≤ n) {pmin : ℝ} (pmax : ℝ) (h : 0 < pmin) :
    (logLevels n pmin pmax).getLast? = some pmin := by
  rw [logLevels_eq, List.getLast?_reverse, List.head?_map, List.head?_range]
  have : n + 1 ≠ 0 := by omega
  simp only [this, if_false, Option.map_some]
  rw [linEntry_eq hn]
  have e := pow10_log10 h
  simp only [pow10_real, log10_real] at e
  simp [e]

/-- one layer: `p = P_lower * sqrt(P_upper / P_lower)` is the geometric mean, strictly between the two levels -/
theorem geomean_between {lo up : ℝ} (hup : 0 < up) (h : up < lo) :
    let p := lo * (sqrt (up / lo) : ℝ)
    p * p = lo * up ∧ up < p ∧ p < lo := by
  have hlo : 0 < lo := lt_trans hup h
  simp only [sqrt_real]
  set s := Real.sqrt (up / lo) with hs
  have hr0 : 0 < up / lo := div_pos hup hlo
  have hr1 : up / lo < 1 := (div_lt_one hlo).2 h
  have hs0 : 0 < s := Real.sqrt_pos.2 hr0
  have hss : s * s = up / lo := Real.mul_self_sqrt hr0.le
  have hs1 : s < 1 := by
    by_contra hc
    have : 1 ≤ s := not_lt.1 hc
    nlinarith
  have hsr : up / lo < s := by nlinarith
  refine ⟨?_, ?_, ?_⟩
  · have : lo * s * (lo * s) = lo * lo * (s * s) := by ring
    rw [this, hss]; field_simp
  · have : up = lo * (up / lo) := by field_simp
    calc up = lo * (up / lo) := this
      _ < lo * s := by exact mul_lt_mul_of_pos_left hsr hlo
  · nlinarith

theorem layerPressures_getElem? (lv : List ℝ) (l : ℕ) :
    (layerPressures lv)[l]? =
      (lv[l]?).bind (fun lo => (lv[l + 1]?).map (fun up => lo * (sqrt (up / lo) : ℝ))) := by
  unfold layerPressures
  rw [List.getElem?_zipWith]
  cases h1 : lv[l]? <;> cases h2 : lv.tail[l]? <;> simp_all [List.getElem?_tail]

theorem layerPressures_length (lv : List ℝ) : (layerPressures lv).length = lv.length - 1 := by
  unfold layerPressures
  simp [List.length_zipWith]

/-! ### the hydrostatic loop -/

theorem gravityAt_zero (gm r : ℝ) : gravityAt gm r 0 = surfaceGravity gm r := by
  simp [gravityAt, surfaceGravity]

theorem scaleLoop_cons (kb gm r z g t m p0 p1 : ℝ) (ts ms ps : List ℝ) :
    scaleLoop kb gm r z g (t :: ts) (m :: ms) (p0 :: p1 :: ps) =
      (⟨z, kb * t / (m * g), g, (-1) * (kb * t / (m * g)) * Real.log (p1 / p0)⟩ ::
          (scaleLoop kb gm r (z + (-1) * (kb * t / (m * g)) * Real.log (p1 / p0))
            (gravityAt gm r (z + (-1) * (kb * t / (m * g)) * Real.log (p1 / p0))) ts ms (p1 :: ps)).1,
        (scaleLoop kb gm r (z + (-1) * (kb * t / (m * g)) * Real.log (p1 / p0))
            (gravityAt gm r (z + (-1) * (kb * t / (m * g)) * Real.log (p1 / p0))) ts ms (p1 :: ps)).2) := by
  rw [scaleLoop]
  rfl

/-- number of layers produced = number of temperatures, when `mu` and the levels are long enough -/
theorem scaleLoop_length (kb gm r : ℝ) :
    ∀ (T mu pl : List ℝ) (z g : ℝ), mu.length = T.length → pl.length = T.length + 1 →
      (scaleLoop kb gm r z g T mu pl).1.length = T.length := by
  intro T
  induction T with
  | nil => intro mu pl z g _ _; simp [scaleLoop]
  | cons t ts ih =>
    intro mu pl z g hmu hpl
    match mu, pl, hmu, hpl with
    | m :: ms, p0 :: p1 :: ps, hmu, hpl =>
      rw [scaleLoop_cons]
      simp only [List.length_cons]
      rw [ih ms (p1 :: ps) _ _ (by simpa using hmu) (by simpa using hpl)]
    | m :: ms, [p0], _, hpl => simp at hpl
    | m :: ms, [], _, hpl => simp at hpl
    | [], _, hmu, _ => simp at hmu

/-- layer `l` of the loop: the three defining formulas -/
theorem scaleLoop_get (kb gm r : ℝ) :
    ∀ (l : ℕ) (T mu pl : List ℝ) (z g : ℝ), l < T.length → mu.length = T.length →
      pl.length = T.length + 1 → g = gravityAt gm r z →
      ∃ L : Layer ℝ, (scaleLoop kb gm r z g T mu pl).1[l]? = some L ∧
        L.dz = (-1) * L.H * Real.log (pl.getD (l + 1) 0 / pl.getD l 0) ∧
        L.H = kb * T.getD l 0 / (mu.getD l 0 * L.g) ∧
        L.g = gravityAt gm r L.z := by
  intro l
  induction l with
  | zero =>
    intro T mu pl z g hl hmu hpl hg
    match T, mu, pl, hl, hmu, hpl with
    | t :: ts, m :: ms, p0 :: p1 :: ps, _, _, _ =>
      rw [scaleLoop_cons]
      exact ⟨_, List.getElem?_cons_zero, by simp, by simp, hg⟩
    | t :: ts, m :: ms, [p0], _, _, hpl => simp at hpl
    | t :: ts, m :: ms, [], _, _, hpl => simp at hpl
    | t :: ts, [], _, _, hmu, _ => simp at hmu
    | [], _, _, hl, _, _ => simp at hl
  | succ k ih =>
    intro T mu pl z g hl hmu hpl _
    match T, mu, pl, hl, hmu, hpl with
    | t :: ts, m :: ms, p0 :: p1 :: ps, hl, hmu, hpl =>
      rw [scaleLoop_cons]
      obtain ⟨L, h1, h2, h3, h4⟩ := ih ts ms (p1 :: ps) _ _ (by simpa using hl) (by simpa using hmu)
        (by simpa using hpl) rfl
      exact ⟨L, by simpa using h1, by simpa using h2, by simpa using h3, h4⟩
    | t :: ts, m :: ms, [p0], _, _, hpl => simp at hpl
    | t :: ts, m :: ms, [], _, _, hpl => simp at hpl
    | t :: ts, [], _, _, hmu, _ => simp at hmu
    | [], _, _, hl, _, _ => simp at hl

/-- the boundary altitudes of a loop result -/
def zsOf (res : List (Layer ℝ) × ℝ) : List ℝ := res.1.map (·.z) ++ [res.2]

/-- consecutive boundaries differ by the layer thickness -/
theorem scaleLoop_cumulative (kb gm r : ℝ) :
    ∀ (l : ℕ) (T mu pl : List ℝ) (z g : ℝ), l < T.length → mu.length = T.length →
      pl.length = T.length + 1 →
      ∃ L : Layer ℝ, (scaleLoop kb gm r z g T mu pl).1[l]? = some L ∧
        (zsOf (scaleLoop kb gm r z g T mu pl)).getD l 0 = L.z ∧
        (zsOf (scaleLoop kb gm r z g T mu pl)).getD (l + 1) 0 = L.z + L.dz := by
  intro l
  induction l with
  | zero =>
    intro T mu pl z g hl hmu hpl
    match T, mu, pl, hl, hmu, hpl with
    | t :: ts, m :: ms, p0 :: p1 :: ps, _, hmu, hpl =>
      rw [scaleLoop_cons]
      refine ⟨_, List.getElem?_cons_zero, by simp [zsOf], ?_⟩
      -- the next boundary is the start altitude of the rest of the loop
      cases ts with
      | nil => simp [zsOf, scaleLoop]
      | cons t2 ts2 =>
        match ms, ps, hmu, hpl with
        | m2 :: ms2, p2 :: ps2, _, _ => rw [scaleLoop_cons]; simp [zsOf]
        | m2 :: ms2, [], _, hpl => simp at hpl
        | [], _, hmu, _ => simp at hmu
    | t :: ts, m :: ms, [p0], _, _, hpl => simp at hpl
    | t :: ts, m :: ms, [], _, _, hpl => simp at hpl
    | t :: ts, [], _, _, hmu, _ => simp at hmu
    | [], _, _, hl, _, _ => simp at hl
  | succ k ih =>
    intro T mu pl z g hl hmu hpl
    match T, mu, pl, hl, hmu, hpl with
    | t :: ts, m :: ms, p0 :: p1 :: ps, hl, hmu, hpl =>
      rw [scaleLoop_cons]
      obtain ⟨L, h1, h2, h3⟩ := ih ts ms (p1 :: ps) _ _ (by simpa using hl) (by simpa using hmu)
        (by simpa using hpl)
      refine ⟨L, by simpa using h1, ?_, ?_⟩
      · simpa [zsOf] using h2
      · simpa [zsOf] using h3
    | t :: ts, m :: ms, [p0], _, _, hpl => simp at hpl
    | t :: ts, m :: ms, [], _, _, hpl => simp at hpl
    | t :: ts, [], _, _, hmu, _ => simp at hmu
    | [], _, _, hl, _, _ => simp at hl

/-- positivity and ordering, for any strictly decreasing positive levels -/
theorem scaleLoop_pos {kb gm r : ℝ} (hkb : 0 < kb) (hgm : 0 < gm) (hr : 0 < r) :
    ∀ (T mu pl : List ℝ) (z g : ℝ), 0 ≤ z → 0 < g → (∀ t ∈ T, 0 < t) → (∀ m ∈ mu, 0 < m) →
      (∀ p ∈ pl, 0 < p) → pl.Pairwise (· > ·) →
      (∀ L ∈ (scaleLoop kb gm r z g T mu pl).1, 0 < L.dz ∧ 0 < L.H ∧ 0 < L.g ∧ 0 ≤ L.z) ∧
      (zsOf (scaleLoop kb gm r z g T mu pl)).Pairwise (· < ·) ∧
      ∀ x ∈ zsOf (scaleLoop kb gm r z g T mu pl), z ≤ x := by
  intro T
  induction T with
  | nil => intro mu pl z g _ _ _ _ _ _; simp [scaleLoop, zsOf]
  | cons t ts ih =>
    intro mu pl z g hz hg hT hmu hpl hdec
    match mu, pl, hmu, hpl, hdec with
    | [], _, _, _, _ => simp [scaleLoop, zsOf]
    | m :: ms, [], _, _, _ => simp [scaleLoop, zsOf]
    | m :: ms, [p0], _, _, _ => simp [scaleLoop, zsOf]
    | m :: ms, p0 :: p1 :: ps, hmu, hpl, hdec =>
      rw [scaleLoop_cons]
      have ht : 0 < t := hT t (by simp)
      have hm : 0 < m := hmu m (by simp)
      have hp0 : 0 < p0 := hpl p0 (by simp)
      have hp1 : 0 < p1 := hpl p1 (by simp)
      have h10 : p1 < p0 := by
        have := (List.pairwise_cons.1 hdec).1 p1 (by simp)
        exact this
      have hH : 0 < kb * t / (m * g) := by positivity
      have hlog : Real.log (p1 / p0) < 0 :=
        Real.log_neg (div_pos hp1 hp0) ((div_lt_one hp0).2 h10)
      have hdz : 0 < (-1) * (kb * t / (m * g)) * Real.log (p1 / p0) := by nlinarith
      set dz := (-1) * (kb * t / (m * g)) * Real.log (p1 / p0) with hdzdef
      have hz' : 0 ≤ z + dz := by linarith
      have hg' : 0 < gravityAt gm r (z + dz) := by
        unfold gravityAt
        have : 0 < r + (z + dz) := by linarith
        positivity
      obtain ⟨ihL, ihP, ihB⟩ := ih ms (p1 :: ps) (z + dz) _ hz' hg'
        (fun x hx => hT x (by simp [hx])) (fun x hx => hmu x (by simp [hx]))
        (fun x hx => hpl x (by simp at hx ⊢; tauto)) (List.pairwise_cons.1 hdec).2
      refine ⟨?_, ?_, ?_⟩
      · intro L hL
        rcases List.mem_cons.1 hL with rfl | hL
        · exact ⟨hdz, hH, hg, hz⟩
        · exact ihL L hL
      · have : zsOf (⟨z, kb * t / (m * g), g, dz⟩ ::
            (scaleLoop kb gm r (z + dz) (gravityAt gm r (z + dz)) ts ms (p1 :: ps)).1,
            (scaleLoop kb gm r (z + dz) (gravityAt gm r (z + dz)) ts ms (p1 :: ps)).2) =
            z :: zsOf (scaleLoop kb gm r (z + dz) (gravityAt gm r (z + dz)) ts ms (p1 :: ps)) := by
          simp [zsOf]
        rw [this, List.pairwise_cons]
        exact ⟨fun x hx => by have := ihB x hx; linarith, ihP⟩
      · intro x hx
        have : x = z ∨ x ∈ zsOf (scaleLoop kb gm r (z + dz) (gravityAt gm r (z + dz)) ts ms (p1 :: ps)) := by
          simpa [zsOf] using hx
        rcases this with rfl | hx
        · exact le_refl _
        · have := ihB x hx; linarith

theorem surfaceGravity_pos {gm r : ℝ} (hgm : 0 < gm) (hr : 0 < r) : 0 < surfaceGravity gm r := by
  unfold surfaceGravity; positivity

theorem scaleProps_z (kb bigG mass r : ℝ) (T pl mu : List ℝ) :
    (scaleProps kb bigG mass r T pl mu).z =
      zsOf (scaleLoop kb (bigG * mass) r 0 (surfaceGravity (bigG * mass) r) T mu pl) := rfl

theorem scaleProps_layers (kb bigG mass r : ℝ) (T pl mu : List ℝ) :
    let layers := (scaleLoop kb (bigG * mass) r 0 (surfaceGravity (bigG * mass) r) T mu pl).1
    (scaleProps kb bigG mass r T pl mu).H = layers.map (·.H) ∧
    (scaleProps kb bigG mass r T pl mu).g = layers.map (·.g) ∧
    (scaleProps kb bigG mass r T pl mu).dz = layers.map (·.dz) := ⟨rfl, rfl, rfl⟩

/-! ### length units -/

theorem metresPer_pos (u : String) (s : ℝ) (h : metresPer u = some s) : 0 < s := by
  unfold metresPer at h
  split at h <;> first | (cases h; norm_num) | cases h

end Taurex.Structure
