/-
  Helper lemmas for C13 (grid restriction): list max/min, `np.array_equal`, the clip filter.
-/
import Mathlib.Tactic.Linarith
import Proofs.RealInst
import Proofs.NpInterp
import TaurexModel.Grid

namespace Taurex.C13L
open Taurex.Grid

theorem foldl_max_ge_init (l : List ℝ) (a : ℝ) :
    a ≤ l.foldl (fun a b => if a ≤ b then b else a) a := by
  induction l generalizing a with
  | nil => simp
  | cons x t ih =>
    simp only [List.foldl_cons]
    by_cases h : a ≤ x
    · rw [if_pos h]; exact le_trans h (ih x)
    · rw [if_neg h]; exact ih a

theorem foldl_max_ge_mem (l : List ℝ) (a : ℝ) (x : ℝ) (hx : x ∈ l) :
    x ≤ l.foldl (fun a b => if a ≤ b then b else a) a := by
  induction l generalizing a with
  | nil => simp at hx
  | cons y t ih =>
    simp only [List.foldl_cons]
    rcases List.mem_cons.1 hx with rfl | h
    · by_cases h' : a ≤ x
      · rw [if_pos h']; exact foldl_max_ge_init t x
      · rw [if_neg h']; exact le_trans (not_le.1 h').le (foldl_max_ge_init t a)
    · exact ih _ h

theorem foldl_min_le_init (l : List ℝ) (a : ℝ) :
    l.foldl (fun a b => if b ≤ a then b else a) a ≤ a := by
  induction l generalizing a with
  | nil => simp
  | cons x t ih =>
    simp only [List.foldl_cons]
    by_cases h : x ≤ a
    · rw [if_pos h]; exact le_trans (ih x) h
    · rw [if_neg h]; exact ih a

theorem foldl_min_le_mem (l : List ℝ) (a : ℝ) (x : ℝ) (hx : x ∈ l) :
    l.foldl (fun a b => if b ≤ a then b else a) a ≤ x := by
  induction l generalizing a with
  | nil => simp at hx
  | cons y t ih =>
    simp only [List.foldl_cons]
    rcases List.mem_cons.1 hx with rfl | h
    · by_cases h' : x ≤ a
      · rw [if_pos h']; exact foldl_min_le_init t x
      · rw [if_neg h']; exact le_trans (foldl_min_le_init t a) (not_le.1 h').le
    · exact ih _ h

/-- `arr.max()` dominates every element -/
theorem maxL_ge (l : List ℝ) (x : ℝ) (hx : x ∈ l) : x ≤ maxL l := foldl_max_ge_mem l _ x hx

/-- `arr.min()` is below every element -/
theorem minL_le (l : List ℝ) (x : ℝ) (hx : x ∈ l) : minL l ≤ x := foldl_min_le_mem l _ x hx

theorem absv_nonneg (x : ℝ) : 0 ≤ Binning.absv x := by
  unfold Binning.absv
  by_cases h : x < 0
  · rw [if_pos h]; linarith
  · rw [if_neg h]; exact not_lt.1 h

/-- the widest mid-point bin of the request is never negative -/
theorem widestBin_nonneg (wn : List ℝ) : 0 ≤ widestBin wn := by
  unfold widestBin Binning.computeBinEdges
  simp only
  set edges := (wn.getD 0 0 - (wn.getD 1 0 - wn.getD 0 0) / 2) ::
    (Binning.midEdges wn ++ [(wn.getD (wn.length - 1) 0 - wn.getD (wn.length - 2) 0) / 2 + wn.getD (wn.length - 1) 0])
    with he
  -- edges has at least two elements, so there is at least one width, and it is an absolute value
  have hlen : 2 ≤ edges.length := by simp [he]
  obtain ⟨a, b, t, hab⟩ : ∃ a b t, edges = a :: b :: t := by
    match edges, hlen with
    | a :: b :: t, _ => exact ⟨a, b, t, rfl⟩
  rw [hab]
  simp only [Binning.diffs, List.map_cons]
  refine le_trans (absv_nonneg (b - a)) (maxL_ge _ _ ?_)
  simp

/-- the clip margin (5/4 of the widest mid-point bin width of the request) is never negative -/
theorem clipMargin_nonneg (wn : List ℝ) : 0 ≤ clipMargin wn := by
  unfold clipMargin
  have := widestBin_nonneg wn
  linarith

theorem clipMarginPinned_nonneg (wn : List ℝ) : 0 ≤ clipMarginPinned wn := widestBin_nonneg wn

/-- `np.array_equal` on real lists is equality -/
theorem eqL_iff (a b : List ℝ) : eqL a b = true ↔ a = b := by
  induction a generalizing b with
  | nil => cases b <;> simp [eqL]
  | cons x t ih =>
    cases b with
    | nil => simp [eqL]
    | cons y u =>
      simp only [eqL, Bool.and_eq_true, decide_eq_true_eq, ih, List.cons.injEq]
      constructor
      · rintro ⟨⟨h1, h2⟩, h3⟩; exact ⟨le_antisymm h1 h2, h3⟩
      · rintro ⟨h1, h3⟩; exact ⟨⟨h1.le, h1.ge⟩, h3⟩

end Taurex.C13L
