/-
  C09 — the chains files: the line loop of `store_nest_solutions` over `<base>post_separate.dat`
  (`Posterior.splitStep` / `splitModes`) on a file in MultiNest's layout — before every mode two empty lines, then one line
  per sample — returns the modes of the file, sample by sample; and the per-mode array (`Posterior.modeArray`) is the list
  of samples itself when all samples have the same number of entries.  Core Lean only, every carrier.
-/
import TaurexModel.Posterior

namespace Taurex.Posterior

section
variable {α : Type} [OfNat α 0]

/-- an empty line (`"\n"`) -/
def blankLine : PLine α := ⟨true, []⟩
/-- a line holding the numbers `r` (weight, -2 logL, parameter values …) -/
def rowLine (r : List α) : PLine α := ⟨false, r⟩

/-- `post_separate.dat` for the modes `blocks` (each a list of rows): before every mode two empty lines, then its rows -/
def fileOf (blocks : List (List (List α))) : List (PLine α) :=
  blocks.flatMap (fun b => [blankLine, blankLine] ++ b.map rowLine)

/-- a row line that does not close a mode is appended to the open mode -/
theorem splitStep_row (st : SplitState α) (r : List α) (hr : 2 < r.length)
    (hno : ¬ (2 < st.idx ∧ st.prev1 = true ∧ st.prev2 = true)) :
    splitStep st (rowLine r)
      = { st with chains := st.chains ++ [r.drop 2], cw := st.cw ++ [r.getD 0 0], prev1 := false, prev2 := st.prev1,
                  idx := st.idx + 1 } := by
  unfold splitStep rowLine
  have hc : 0 < (List.drop 2 r).length := by simp; omega
  simp only [hno, if_false, hc, if_true]

/-- a row line after two empty lines (from the fourth line on) closes the open mode and starts the next one -/
theorem splitStep_row_sep (st : SplitState α) (r : List α) (hr : 2 < r.length)
    (hsep : 2 < st.idx ∧ st.prev1 = true ∧ st.prev2 = true) :
    splitStep st (rowLine r)
      = { st with modes := st.modes ++ [st.chains], weights := st.weights ++ [st.cw], chains := [r.drop 2],
                  cw := [r.getD 0 0], prev1 := false, prev2 := st.prev1, idx := st.idx + 1 } := by
  unfold splitStep rowLine
  have hc : 0 < (List.drop 2 r).length := by simp; omega
  simp only [hsep, and_self, if_true, hc, List.nil_append]

/-- an empty line that does not close a mode changes nothing but the look-back -/
theorem splitStep_blank (st : SplitState α) (hno : ¬ (2 < st.idx ∧ st.prev1 = true ∧ st.prev2 = true)) :
    splitStep st (blankLine : PLine α) = { st with prev1 := true, prev2 := st.prev1, idx := st.idx + 1 } := by
  unfold splitStep blankLine
  simp [hno]

/-- rows after a row: all appended -/
theorem fold_rows (rows : List (List α)) : ∀ (st : SplitState α), st.prev1 = false →
    (∀ r ∈ rows, 2 < r.length) →
    let st' := (rows.map rowLine).foldl splitStep st
    st'.modes = st.modes ∧ st'.weights = st.weights ∧ st'.chains = st.chains ++ rows.map (fun r => r.drop 2) ∧
      st'.cw = st.cw ++ rows.map (fun r => r.getD 0 0) ∧ st'.prev1 = false ∧ st'.idx = st.idx + rows.length := by
  induction rows with
  | nil => intro st h _; simp [h]
  | cons r rows ih =>
    intro st h hr
    have hstep := splitStep_row st r (hr r (by simp)) (by simp [h])
    simp only [List.map_cons, List.foldl_cons]
    rw [hstep]
    obtain ⟨a, b, c, d, e, f⟩ := ih { st with chains := st.chains ++ [r.drop 2], cw := st.cw ++ [r.getD 0 0], prev1 := false,
                                              prev2 := st.prev1, idx := st.idx + 1 } rfl
      (fun r' hr' => hr r' (by simp [hr']))
    refine ⟨a, b, ?_, ?_, e, ?_⟩
    · rw [c]; simp
    · rw [d]; simp
    · rw [f]; simp; omega

/-- one more mode of the file, after at least one mode (so at least three lines) has been read -/
theorem fold_block (b : List (List α)) (hb : b ≠ []) (hrows : ∀ r ∈ b, 2 < r.length) (st : SplitState α)
    (hp : st.prev1 = false) (hidx : 1 ≤ st.idx) :
    let st' := (([blankLine, blankLine] ++ b.map rowLine : List (PLine α))).foldl splitStep st
    st'.modes = st.modes ++ [st.chains] ∧ st'.weights = st.weights ++ [st.cw] ∧
      st'.chains = b.map (fun r => r.drop 2) ∧ st'.cw = b.map (fun r => r.getD 0 0) ∧ st'.prev1 = false ∧
      1 ≤ st'.idx := by
  cases b with
  | nil => exact absurd rfl hb
  | cons r rows =>
    have h1 := splitStep_blank st (by simp [hp])
    simp only [List.cons_append, List.nil_append, List.map_cons, List.foldl_cons]
    rw [h1]
    have h2 := splitStep_blank ({ st with prev1 := true, prev2 := st.prev1, idx := st.idx + 1 } : SplitState α)
      (by simp [hp])
    rw [h2]
    have h3 := splitStep_row_sep ({ st with prev1 := true, prev2 := true, idx := st.idx + 1 + 1 } : SplitState α) r
      (hrows r (by simp)) (by simp; omega)
    rw [h3]
    obtain ⟨a, b', c, d, e, f⟩ := fold_rows rows
      ({ st with modes := st.modes ++ [st.chains], weights := st.weights ++ [st.cw], chains := [r.drop 2],
                 cw := [r.getD 0 0], prev1 := false, prev2 := true, idx := st.idx + 1 + 1 + 1 } : SplitState α)
      rfl (fun r' hr' => hrows r' (by simp [hr']))
    refine ⟨a, b', ?_, ?_, e, ?_⟩
    · rw [c]; simp
    · rw [d]; simp
    · rw [f]; simp; omega

/-- the modes after the first -/
theorem fold_blocks (blocks : List (List (List α))) : ∀ (st : SplitState α), st.prev1 = false → 1 ≤ st.idx →
    (∀ b ∈ blocks, b ≠ []) → (∀ b ∈ blocks, ∀ r ∈ b, 2 < r.length) →
    let st' := (fileOf blocks).foldl splitStep st
    st'.modes ++ [st'.chains] = st.modes ++ [st.chains] ++ blocks.map (fun b => b.map (fun r => r.drop 2)) ∧
    st'.weights ++ [st'.cw] = st.weights ++ [st.cw] ++ blocks.map (fun b => b.map (fun r => r.getD 0 0)) := by
  induction blocks with
  | nil => intro st _ _ _ _; simp [fileOf]
  | cons b blocks ih =>
    intro st hp hidx hne hrows
    have hb := fold_block b (hne b (by simp)) (hrows b (by simp)) st hp hidx
    obtain ⟨a, b', c, d, e, f⟩ := hb
    have := ih _ e f (fun b2 h2 => hne b2 (by simp [h2])) (fun b2 h2 => hrows b2 (by simp [h2]))
    obtain ⟨m, w⟩ := this
    simp only [fileOf, List.flatMap_cons] at m w ⊢
    rw [List.foldl_append]
    rw [a, c] at m
    rw [b', d] at w
    exact ⟨by rw [m]; simp, by rw [w]; simp⟩

/-- the first mode: its two empty lines are the first two lines of the file -/
theorem fold_first (b : List (List α)) (hb : b ≠ []) (hrows : ∀ r ∈ b, 2 < r.length) :
    let st' := (([blankLine, blankLine] ++ b.map rowLine : List (PLine α))).foldl splitStep
      { modes := [], weights := [], chains := [], cw := [], prev1 := false, prev2 := false, idx := 0 }
    st'.modes = [] ∧ st'.weights = [] ∧ st'.chains = b.map (fun r => r.drop 2) ∧
      st'.cw = b.map (fun r => r.getD 0 0) ∧ st'.prev1 = false ∧ 1 ≤ st'.idx := by
  cases b with
  | nil => exact absurd rfl hb
  | cons r rows =>
    simp only [List.cons_append, List.nil_append, List.map_cons, List.foldl_cons]
    have h1 := splitStep_blank ({ modes := [], weights := [], chains := [], cw := [], prev1 := false, prev2 := false,
                                  idx := 0 } : SplitState α) (by simp)
    rw [h1]
    have h2 := splitStep_blank ({ modes := [], weights := [], chains := [], cw := [], prev1 := true, prev2 := false,
                                  idx := 0 + 1 } : SplitState α) (by simp)
    rw [h2]
    have h3 := splitStep_row ({ modes := [], weights := [], chains := [], cw := [], prev1 := true, prev2 := true,
                                idx := 0 + 1 + 1 } : SplitState α) r (hrows r (by simp)) (by simp)
    rw [h3]
    obtain ⟨a, b', c, d, e, f⟩ := fold_rows rows
      ({ modes := [], weights := [], chains := [] ++ [r.drop 2], cw := [] ++ [r.getD 0 0], prev1 := false, prev2 := true,
         idx := 0 + 1 + 1 + 1 } : SplitState α) rfl (fun r' hr' => hrows r' (by simp [hr']))
    refine ⟨a, b', ?_, ?_, e, ?_⟩
    · rw [c]; simp
    · rw [d]; simp
    · rw [f]; simp; omega

/-- **the modes of a file in MultiNest's layout**: one mode per block, its samples the columns `2:` and its weights column
    `0` of the block's rows, in file order -/
theorem splitModes_fileOf (blocks : List (List (List α))) (hne : blocks ≠ []) (hb : ∀ b ∈ blocks, b ≠ [])
    (hrows : ∀ b ∈ blocks, ∀ r ∈ b, 2 < r.length) :
    splitModes (fileOf blocks)
      = (blocks.map (fun b => b.map (fun r => r.drop 2)), blocks.map (fun b => b.map (fun r => r.getD 0 0))) := by
  cases blocks with
  | nil => exact absurd rfl hne
  | cons b blocks =>
    obtain ⟨a, b', c, d, e, f⟩ := fold_first b (hb b (by simp)) (hrows b (by simp))
    have := fold_blocks blocks _ e f (fun b2 h2 => hb b2 (by simp [h2])) (fun b2 h2 => hrows b2 (by simp [h2]))
    obtain ⟨m, w⟩ := this
    unfold splitModes
    simp only [fileOf, List.flatMap_cons] at m w ⊢
    rw [List.foldl_append]
    rw [a, c] at m
    rw [b', d] at w
    rw [m, w]
    simp

/-- a mode all of whose samples have the same number of entries is stored as it is -/
theorem modeArray_rect (mode : List (List α)) (n : Nat) (h : ∀ r ∈ mode, r.length = n) : modeArray mode = mode := by
  unfold modeArray
  cases mode with
  | nil => rfl
  | cons r rows =>
    have hr : r.length = n := h r (by simp)
    simp only [List.headD_cons, hr]
    have : List.map (fitRow n) (r :: rows) = List.map id (r :: rows) := by
      apply List.map_congr_left
      intro x hx
      simp [fitRow, h x hx]
    rw [this, List.map_id]

end

end Taurex.Posterior
