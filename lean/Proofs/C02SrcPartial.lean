/-
  C02 — source tie, the orchestration of `EmissionModel.partial_model` (translated with the `dyn` dialect: every call on
  another object goes to one oracle `ext`).  This file is the ORACLE: the model object, its star, its contributions, named
  grids (0 = `self.nativeWavenumberGrid`, 1 = what `clip_native_to_wngrid(native_grid, wngrid)` returns), the result of
  `evaluate_emission` on a grid.  The state is the log of the calls made (`Emission.Step`), in order; nothing else of the
  objects is modelled (what the called methods compute is the subject of the other ties).
-/
import TaurexModel.Gen.DynPrelude
import TaurexModel.Emission
set_option linter.unusedVariables false

namespace Taurex.C02Src
open Taurex.Gen Taurex.Gen.Dyn
open Taurex.Emission (Step partialModelSteps)

inductive PObj where
  | model
  | star
  | contrib (i : Nat)
  | grid (g : Nat)
  | wn                 -- the `wngrid` argument
  | clipFn             -- `clip_native_to_wngrid`
  | result (g : Nat)   -- what `evaluate_emission(grid g, False)` returns
  deriving DecidableEq

abbrev PM := Dyn.Eff (List Step)
abbrev PV (α : Type) := Dyn.Val α PObj

section
variable {α : Type}

def plog (st : Step) (r : PV α) : PM (PV α) := fun s => (.ok r, s ++ [st])

/-- the oracle for a model with `n` contributions -/
def pext (n : Nat) : Ext PM α PObj where
  global name := if name = "clip_native_to_wngrid" then pure (.obj .clipFn) else throw .NameError
  getattr o name :=
    match o with
    | .model =>
      if name = "nativeWavenumberGrid" then pure (.obj (.grid 0))
      else if name = "_star" then pure (.obj .star)
      else if name = "contribution_list" then pure (.list ((List.range n).map (fun i => .obj (.contrib i))))
      else throw .AttributeError
    | _ => throw .AttributeError
  call o args _ :=
    match o, args with
    | .clipFn, [.obj (.grid 0), .obj .wn] => pure (.obj (.grid 1))
    | _, _ => throw .TypeError
  method o name args _ :=
    match o with
    | .model =>
      if name = "initialize_profiles" then
        match args with
        | [] => plog .initProfiles .none
        | _ => throw .TypeError
      else if name = "evaluate_emission" then
        match args with
        | [.obj (.grid g), .bool false] => plog (.evaluate g) (.obj (.result g))
        | _ => throw .TypeError
      else throw .AttributeError
    | .star =>
      if name = "initialize" then
        match args with
        | [.obj (.grid g)] => plog (.starInit g) .none
        | _ => throw .TypeError
      else throw .AttributeError
    | .contrib i =>
      if name = "prepare" then
        match args with
        | [.obj .model, .obj (.grid g)] => plog (.prepare i g) .none
        | _ => throw .TypeError
      else throw .AttributeError
    | _ => throw .AttributeError
  isinst _ _ := false
  iter _ := throw .TypeError
  truthy _ := pure true
  op _ _ := throw .TypeError
  parseFloat _ := none

theorem peff_pure {σ β : Type} (x : β) (s : σ) : (pure x : Eff σ β) s = (.ok x, s) := rfl
theorem peff_bind {σ β γ : Type} (x : Eff σ β) (f : β → Eff σ γ) (s : σ) :
    (x >>= f) s = match x s with
      | (.ok a, s') => f a s'
      | (.error e, s') => (.error e, s') := rfl

/-- `for contrib in self.contribution_list: contrib.prepare(self, native_grid)` on the contributions `k, k+1, …` -/
theorem forM_prepare [FloatLike α] (n g : Nat) (body : Unit → PV α → PM Unit)
    (hb : ∀ (i : Nat) (s : List Step), body () (.obj (.contrib i)) s = (.ok (), s ++ [Step.prepare i g])) :
    ∀ (is : List Nat) (s : List Step),
      Dyn.forM (is.map (fun i => (Dyn.Val.obj (PObj.contrib i) : PV α))) () body s
        = (.ok (), s ++ is.map (fun i => Step.prepare i g))
  | [], s => by simp [Dyn.forM, peff_pure]
  | i :: is, s => by
    simp only [List.map_cons, Dyn.forM]
    rw [peff_bind, hb]
    simp only []
    rw [forM_prepare n g body hb is]
    simp

end
end Taurex.C02Src
