/-
  Helper lemmas for Props/C07.lean, part 5: the records `generate_fitting_parameters` builds, and therefore the settings a
  section describes, do not depend on the order of the lines (keys `name:option` unique, as ConfigObj guarantees).
-/
import Proofs.C07Fitting

namespace Taurex.C07
open Taurex.Priors Taurex.OptimizerSM Taurex.FittingSection

section
variable {α : Type}

/-- two record lists that answer every name look-up alike -/
def GEq (g g' : List (String × Rec α)) : Prop := ∀ n, getRec g n = getRec g' n

def OGEq : Option (List (String × Rec α)) → Option (List (String × Rec α)) → Prop
  | none, none => True
  | some a, some b => GEq a b
  | _, _ => False

theorem GEq.refl (g : List (String × Rec α)) : GEq g g := fun _ => rfl
theorem GEq.symm {g g' : List (String × Rec α)} (h : GEq g g') : GEq g' g := fun n => (h n).symm
theorem GEq.trans {a b c : List (String × Rec α)} (h₁ : GEq a b) (h₂ : GEq b c) : GEq a c :=
  fun n => (h₁ n).trans (h₂ n)

theorem OGEq.refl (x : Option (List (String × Rec α))) : OGEq x x := by
  cases x with
  | none => trivial
  | some a => exact GEq.refl a

theorem OGEq.trans {a b c : Option (List (String × Rec α))} (h₁ : OGEq a b) (h₂ : OGEq b c) : OGEq a c := by
  cases a <;> cases b <;> cases c <;> simp only [OGEq] at * <;> first | trivial | exact GEq.trans h₁ h₂ | exact h₁.elim | exact h₂.elim

theorem getRec_updRec (acc : List (String × Rec α)) (n m : String) (f : Rec α → Rec α) :
    getRec (updRec acc n f) m = if n = m then some (f ((getRec acc n).getD {})) else getRec acc m := by
  induction acc with
  | nil =>
    by_cases h : n = m <;> simp [updRec, getRec, h]
  | cons kr t ih =>
    obtain ⟨k, r⟩ := kr
    by_cases hk : k = n
    · subst hk
      by_cases h : k = m <;> simp [updRec, getRec, h]
    · by_cases h : n = m
      · subst h
        simp only [updRec, hk, if_false, getRec]
        rw [ih]
        simp
      · by_cases hkm : k = m
        · subst hkm
          simp [updRec, hk, getRec, h]
        · simp only [updRec, hk, if_false, getRec, hkm, h]
          rw [ih]
          simp [h]

/-- one line of `generate_fitting_parameters` -/
def stepL (mkPrior : OptVal α → Option (Prior α)) (l : Line α) (acc : List (String × Rec α)) :
    Option (List (String × Rec α)) :=
  (setOpt mkPrior l ((getRec acc l.name).getD {})).map (fun r => updRec acc l.name (fun _ => r))

theorem group_cons (mkPrior : OptVal α → Option (Prior α)) (l : Line α) (ls : List (Line α)) (acc : List (String × Rec α)) :
    group mkPrior (l :: ls) acc = (stepL mkPrior l acc).bind (group mkPrior ls) := by
  simp only [group, stepL]
  cases setOpt mkPrior l ((getRec acc l.name).getD {}) <;> rfl

theorem stepL_congr (mkPrior : OptVal α → Option (Prior α)) (l : Line α) (a a' : List (String × Rec α)) (h : GEq a a') :
    OGEq (stepL mkPrior l a) (stepL mkPrior l a') := by
  unfold stepL
  rw [h l.name]
  cases setOpt mkPrior l ((getRec a' l.name).getD {}) with
  | none => trivial
  | some r =>
    intro m
    simp only [Option.map_some]
    rw [getRec_updRec, getRec_updRec, h m]

theorem group_congr (mkPrior : OptVal α → Option (Prior α)) : ∀ (ls : List (Line α)) (a a' : List (String × Rec α)),
    GEq a a' → OGEq (group mkPrior ls a) (group mkPrior ls a') := by
  intro ls
  induction ls with
  | nil => intro a a' h; exact h
  | cons l rest ih =>
    intro a a' h
    rw [group_cons, group_cons]
    have hs := stepL_congr mkPrior l a a' h
    cases h1 : stepL mkPrior l a with
    | none =>
      cases h2 : stepL mkPrior l a' with
      | none => trivial
      | some b => rw [h1, h2] at hs; exact hs.elim
    | some b =>
      cases h2 : stepL mkPrior l a' with
      | none => rw [h1, h2] at hs; exact hs.elim
      | some b' =>
        rw [h1, h2] at hs
        exact ih b b' hs

theorem obind_congr (mkPrior : OptVal α → Option (Prior α)) (ls : List (Line α))
    (x y : Option (List (String × Rec α))) (h : OGEq x y) :
    OGEq (x.bind (group mkPrior ls)) (y.bind (group mkPrior ls)) := by
  cases x <;> cases y <;> simp only [OGEq] at h
  · trivial
  · exact group_congr mkPrior ls _ _ h

/-! ### two lines with different keys commute -/

theorem classify_cases (o : String) :
    (classify o = .fit ∧ o = "fit") ∨ (classify o = .bounds ∧ o = "bounds") ∨ (classify o = .mode ∧ o = "mode") ∨
    (classify o = .factor ∧ o = "factor") ∨ (classify o = .prior ∧ o = "prior") ∨ classify o = .other := by
  unfold classify
  by_cases h1 : o = "fit"
  · left; simp [h1]
  · by_cases h2 : o = "bounds"
    · right; left; simp [h2]
    · by_cases h3 : o = "mode"
      · right; right; left; simp [h3]
      · by_cases h4 : o = "factor"
        · right; right; right; left; simp [h4]
        · by_cases h5 : o = "prior"
          · right; right; right; right; left; simp [h5]
          · right; right; right; right; right; simp [h1, h2, h3, h4, h5]

/-- writing two different options into a record commutes -/
theorem setOpt_comm (mkPrior : OptVal α → Option (Prior α)) (l₁ l₂ : Line α) (hne : l₁.opt ≠ l₂.opt) (r : Rec α) :
    (setOpt mkPrior l₁ r).bind (setOpt mkPrior l₂) = (setOpt mkPrior l₂ r).bind (setOpt mkPrior l₁) := by
  unfold setOpt
  rcases classify_cases l₁.opt with ⟨c1, e1⟩ | ⟨c1, e1⟩ | ⟨c1, e1⟩ | ⟨c1, e1⟩ | ⟨c1, e1⟩ | c1 <;>
  rcases classify_cases l₂.opt with ⟨c2, e2⟩ | ⟨c2, e2⟩ | ⟨c2, e2⟩ | ⟨c2, e2⟩ | ⟨c2, e2⟩ | c2 <;>
  first
    | exact absurd (e1.trans e2.symm) hne
    | (simp only [c1, c2] <;> (cases mkPrior l₁.val <;> cases mkPrior l₂.val <;> rfl))

/-- the result of a line does not depend on what another name's record holds -/
theorem stepL_swap (mkPrior : OptVal α → Option (Prior α)) (l₁ l₂ : Line α)
    (hne : (l₁.name, l₁.opt) ≠ (l₂.name, l₂.opt)) (acc : List (String × Rec α)) :
    OGEq ((stepL mkPrior l₁ acc).bind (stepL mkPrior l₂)) ((stepL mkPrior l₂ acc).bind (stepL mkPrior l₁)) := by
  by_cases hn : l₁.name = l₂.name
  · -- same parameter, different options
    have ho : l₁.opt ≠ l₂.opt := fun e => hne (by rw [hn, e])
    have hc := setOpt_comm mkPrior l₁ l₂ ho ((getRec acc l₁.name).getD {})
    unfold stepL
    rw [← hn]
    cases h1 : setOpt mkPrior l₁ ((getRec acc l₁.name).getD {}) with
    | none =>
      cases h2 : setOpt mkPrior l₂ ((getRec acc l₁.name).getD {}) with
      | none => trivial
      | some r2 =>
        rw [h1, h2] at hc
        simp only [Option.bind_none, Option.bind_some] at hc
        simp only [Option.map_none, Option.bind_none, Option.map_some, Option.bind_some, getRec_updRec, if_true,
          Option.getD_some]
        rw [← hc]
        trivial
    | some r1 =>
      cases h2 : setOpt mkPrior l₂ ((getRec acc l₁.name).getD {}) with
      | none =>
        rw [h1, h2] at hc
        simp only [Option.bind_none, Option.bind_some] at hc
        simp only [Option.map_none, Option.bind_none, Option.map_some, Option.bind_some, getRec_updRec, if_true,
          Option.getD_some]
        rw [hc]
        trivial
      | some r2 =>
        rw [h1, h2] at hc
        simp only [Option.bind_some] at hc
        simp only [Option.map_some, Option.bind_some, getRec_updRec, if_true, Option.getD_some]
        rw [hc]
        cases h3 : setOpt mkPrior l₁ r2 with
        | none => trivial
        | some r3 =>
          intro m
          simp only [Option.map_some, getRec_updRec]
          by_cases hm : l₁.name = m <;> simp [hm]
  · -- different parameters
    have hn' : ¬ l₂.name = l₁.name := fun e => hn e.symm
    unfold stepL
    cases h1 : setOpt mkPrior l₁ ((getRec acc l₁.name).getD {}) with
    | none =>
      cases h2 : setOpt mkPrior l₂ ((getRec acc l₂.name).getD {}) with
      | none => trivial
      | some r2 =>
        simp only [Option.map_none, Option.bind_none, Option.map_some, Option.bind_some, getRec_updRec, hn', if_false, h1]
        trivial
    | some r1 =>
      cases h2 : setOpt mkPrior l₂ ((getRec acc l₂.name).getD {}) with
      | none =>
        simp only [Option.map_none, Option.bind_none, Option.map_some, Option.bind_some, getRec_updRec, hn, if_false, h2]
        trivial
      | some r2 =>
        simp only [Option.map_some, Option.bind_some, getRec_updRec, hn, hn', if_false, h1, h2]
        intro m
        simp only [getRec_updRec]
        by_cases hm1 : l₁.name = m
        · have hm2 : ¬ l₂.name = m := fun e => hn (hm1.trans e.symm)
          simp [hm1, hm2]
        · by_cases hm2 : l₂.name = m <;> simp [hm1, hm2]

def lkey (l : Line α) : String × String := (l.name, l.opt)

/-- **order freedom of the records** -/
theorem group_perm (mkPrior : OptVal α → Option (Prior α)) {ls ls' : List (Line α)} (hp : ls.Perm ls') :
    (ls.map lkey).Nodup → ∀ (a a' : List (String × Rec α)), GEq a a' → OGEq (group mkPrior ls a) (group mkPrior ls' a') := by
  induction hp with
  | nil => intro _ a a' h; exact h
  | cons x _ ih =>
    intro hnd a a' h
    simp only [List.map_cons, List.nodup_cons] at hnd
    rw [group_cons, group_cons]
    have hs := stepL_congr mkPrior x a a' h
    cases h1 : stepL mkPrior x a with
    | none =>
      cases h2 : stepL mkPrior x a' with
      | none => trivial
      | some b => rw [h1, h2] at hs; exact hs.elim
    | some b =>
      cases h2 : stepL mkPrior x a' with
      | none => rw [h1, h2] at hs; exact hs.elim
      | some b' =>
        rw [h1, h2] at hs
        exact ih hnd.2 b b' hs
  | swap x y l =>
    intro hnd a a' h
    simp only [List.map_cons, List.nodup_cons, List.mem_cons, not_or] at hnd
    have hne : lkey y ≠ lkey x := hnd.1.1
    rw [group_cons, group_cons]
    -- left: y then x on a; right: x then y on a'
    have e1 : ((stepL mkPrior y a).bind fun b => (stepL mkPrior x b).bind (group mkPrior l)) =
        ((stepL mkPrior y a).bind (stepL mkPrior x)).bind (group mkPrior l) := by
      cases stepL mkPrior y a <;> rfl
    have e2 : ((stepL mkPrior x a').bind fun b => (stepL mkPrior y b).bind (group mkPrior l)) =
        ((stepL mkPrior x a').bind (stepL mkPrior y)).bind (group mkPrior l) := by
      cases stepL mkPrior x a' <;> rfl
    have e1' : (stepL mkPrior y a).bind (group mkPrior (x :: l)) =
        ((stepL mkPrior y a).bind (stepL mkPrior x)).bind (group mkPrior l) := by
      rw [← e1]; congr 1; funext b; exact group_cons mkPrior x l b
    have e2' : (stepL mkPrior x a').bind (group mkPrior (y :: l)) =
        ((stepL mkPrior x a').bind (stepL mkPrior y)).bind (group mkPrior l) := by
      rw [← e2]; congr 1; funext b; exact group_cons mkPrior y l b
    rw [e1', e2']
    apply obind_congr
    -- y;x on a  ≈  x;y on a  ≈  x;y on a'
    have sw := stepL_swap mkPrior y x hne a
    have cg : OGEq ((stepL mkPrior x a).bind (stepL mkPrior y)) ((stepL mkPrior x a').bind (stepL mkPrior y)) := by
      have hs := stepL_congr mkPrior x a a' h
      cases h1 : stepL mkPrior x a with
      | none =>
        cases h2 : stepL mkPrior x a' with
        | none => trivial
        | some b => rw [h1, h2] at hs; exact hs.elim
      | some b =>
        cases h2 : stepL mkPrior x a' with
        | none => rw [h1, h2] at hs; exact hs.elim
        | some b' =>
          rw [h1, h2] at hs
          exact stepL_congr mkPrior y b b' hs
    exact OGEq.trans sw cg
  | trans p₁ _ ih₁ ih₂ =>
    intro hnd a a' h
    have hnd' := (List.Perm.nodup_iff (List.Perm.map lkey p₁)).1 hnd
    exact OGEq.trans (ih₁ hnd a a (GEq.refl a)) (ih₂ hnd' a a' h)

end

section
variable {α : Type} [LT α] [DecidableLT α] [OfNat α 0] [Mul α] [Transc α]

/-! ### the described settings only depend on the look-ups -/

theorem describeTable_congr (g g' : List (String × Rec α)) (h : GEq g g') (ps : List (Param String α)) :
    describeTable g ps = describeTable g' ps := by
  unfold describeTable
  apply List.map_congr_left
  intro p _
  rw [h p.name]

theorem tget_describePriors (g : List (String × Rec α)) (hnd : (gkeys g).Nodup) (n : String) :
    tget (describePriors g) n = (getRec g n).bind (·.prior) := by
  induction g with
  | nil => rfl
  | cons kr t ih =>
    obtain ⟨k, r⟩ := kr
    simp only [gkeys, List.map_cons, List.nodup_cons] at hnd
    by_cases hk : k = n
    · subst hk
      cases hp : r.prior with
      | some p => simp [describePriors, hp, tget, getRec]
      | none =>
        simp only [describePriors, hp, getRec, if_true, Option.bind_some]
        rw [ih hnd.2, getRec_none_of_not_mem t k hnd.1]
        rfl
    · cases hp : r.prior with
      | some p => simp [describePriors, hp, tget, getRec, hk, ih hnd.2]
      | none => simp [describePriors, hp, getRec, hk, ih hnd.2]

theorem impliedRows_congr (u u' : Table String α) (h : ∀ n, tget u n = tget u' n) (o : Owner) (ps : List (Param String α)) :
    impliedRows u o ps = impliedRows u' o ps := by
  induction ps with
  | nil => rfl
  | cons p ps ih =>
    simp only [impliedRows, impliedRow, h p.name, ih]

theorem implied_congr (m ob : List (Param String α)) (dm dob : List (Derived String)) (u u' : Table String α)
    (h : ∀ n, tget u n = tget u' n) : implied (⟨m, ob, dm, dob, u⟩ : Settings String α) = implied ⟨m, ob, dm, dob, u'⟩ := by
  simp only [implied, impliedRows_congr u u' h]

theorem nodup_group (mkPrior : OptVal α → Option (Prior α)) : ∀ (ls : List (Line α)) (acc grp : List (String × Rec α)),
    (gkeys acc).Nodup → group mkPrior ls acc = some grp → (gkeys grp).Nodup := by
  intro ls
  induction ls with
  | nil =>
    intro acc grp h hg
    simp only [group, Option.some.injEq] at hg
    rw [← hg]; exact h
  | cons l rest ih =>
    intro acc grp h hg
    simp only [group] at hg
    cases ho : setOpt mkPrior l ((getRec acc l.name).getD {}) with
    | none => simp [ho] at hg
    | some r =>
      simp only [ho] at hg
      exact ih _ grp (nodup_updRec acc l.name _ h) hg

/-- line by line or all keys first: the same records whenever every key splits -/
theorem parseFitting_eq_group (mkPrior : OptVal α → Option (Prior α)) : ∀ (ents : List (String × OptVal α))
    (ls : List (Line α)) (acc : List (String × Rec α)), splitAll ents = some ls →
    parseFitting mkPrior ents acc = match group mkPrior ls acc with
      | some g => .ok g
      | none => .error .priorError := by
  intro ents
  induction ents with
  | nil =>
    intro ls acc h
    simp only [splitAll, Option.some.injEq] at h
    subst h
    rfl
  | cons kv rest ih =>
    intro ls acc h
    obtain ⟨k, v⟩ := kv
    simp only [splitAll] at h
    cases hs : splitKey k with
    | none => simp [hs] at h
    | some ab =>
      cases hr : splitAll rest with
      | none => simp [hs, hr] at h
      | some ls' =>
        obtain ⟨a, b⟩ := ab
        simp only [hs, hr, Option.some.injEq] at h
        subst h
        simp only [parseFitting, hs, group]
        cases ho : setOpt mkPrior ⟨a, b, v⟩ ((getRec acc a).getD {}) with
        | none => rfl
        | some r => exact ih ls' _ hr

/-- **The settings a `[Fitting]` section describes do not depend on the order of its lines.** -/
theorem sectionSettings_perm (mkPrior : OptVal α → Option (Prior α)) (s0 : St String α)
    (ents ents' : List (String × OptVal α)) (ls ls' : List (Line α))
    (hs : splitAll ents = some ls) (hs' : splitAll ents' = some ls') (hperm : ls.Perm ls')
    (hnd : (ls.map lkey).Nodup) (drecs : List (String × Option (OptVal α))) :
    match parseFitting mkPrior ents [], parseFitting mkPrior ents' [] with
    | .ok grp, .ok grp' => implied (sectionSettings s0 grp drecs) = implied (sectionSettings s0 grp' drecs)
    | .error e, .error e' => e = e'
    | _, _ => False := by
  rw [parseFitting_eq_group mkPrior ents ls [] hs, parseFitting_eq_group mkPrior ents' ls' [] hs']
  have hg := group_perm mkPrior hperm hnd [] [] (GEq.refl _)
  cases h1 : group mkPrior ls [] with
  | none =>
    cases h2 : group mkPrior ls' [] with
    | none => rfl
    | some g' => rw [h1, h2] at hg; exact hg.elim
  | some g =>
    cases h2 : group mkPrior ls' [] with
    | none => rw [h1, h2] at hg; exact hg.elim
    | some g' =>
      rw [h1, h2] at hg
      simp only
      have n1 : (gkeys g).Nodup := nodup_group mkPrior ls [] g (by simp [gkeys]) h1
      have n2 : (gkeys g').Nodup := nodup_group mkPrior ls' [] g' (by simp [gkeys]) h2
      unfold sectionSettings
      rw [describeTable_congr g g' hg, describeTable_congr g g' hg]
      apply implied_congr
      intro n
      rw [tget_describePriors g n1, tget_describePriors g' n2, hg n]

end

end Taurex.C07
