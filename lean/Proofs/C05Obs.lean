/-
  C05, observation route: lemmas about `TaurexModel/ObsTargets.lean` over the reals — the target bins a binner gets from the
  rows of an observation / instrument file are, row by row, the bins those rows declare.
-/
import Proofs.C05Basic
import TaurexModel.ObsTargets

namespace Taurex.ObsTargets
open List Taurex.Binning Taurex.Observation

theorem zipWith_map_map' {β γ δ ε : Type} (f : γ → δ → ε) (g : β → γ) (h : β → δ) (l : List β) :
    List.zipWith f (l.map g) (l.map h) = l.map (fun x => f (g x) (h x)) := by
  induction l with
  | nil => rfl
  | cons x t ih => simp only [List.map_cons, List.zipWith_cons_cons, ih]

theorem sortRowsDesc_perm' (rows : List (ORow ℝ)) : sortRowsDesc rows ~ rows :=
  (List.reverse_perm _).trans (sortBy_perm ORow.wl rows)

theorem sortRowsDesc_eq_of_perm' {r₁ r₂ : List (ORow ℝ)} (hp : r₁ ~ r₂) (hd : (r₁.map ORow.wl).Nodup) :
    sortRowsDesc r₁ = sortRowsDesc r₂ := by
  unfold sortRowsDesc
  rw [sortBy_eq_of_perm ORow.wl hp hd]

/-- what `FluxBinner.__init__` is handed by the 4-column observation: one `rowBin` per stored row -/
theorem array4_handed (rows : List (ORow ℝ)) :
    List.zipWith (fun c w => ({ c := c, w := w } : TBin ℝ)) (load true rows).wavenumberGrid (load true rows).binWidths =
      (sortRowsDesc rows).map rowBin := by
  unfold Obs.wavenumberGrid Obs.binWidths load
  simp only [if_true]
  rw [zipWith_map_map' widthConv, List.zipWith_map_left, List.zipWith_map_right, List.zipWith_self]
  rfl

theorem array4_targets (rows : List (ORow ℝ)) : routeTargets Route.array4 rows = sortBy TBin.c ((sortRowsDesc rows).map rowBin) := by
  unfold routeTargets Obs.createBinner targetBins
  simp only
  rw [array4_handed]

theorem instrument_targets (rows : List (ORow ℝ)) :
    routeTargets Route.instrument rows = sortBy TBin.c ((sortRowsDesc rows).map rowBin) := by
  unfold routeTargets instrumentBinner targetBins
  simp only
  rw [zipWith_map_map' widthConv, List.zipWith_map_left, List.zipWith_map_left, List.zipWith_map_right, List.zipWith_self]
  rfl

theorem sorted_rowBins_perm (rows : List (ORow ℝ)) : sortBy TBin.c ((sortRowsDesc rows).map rowBin) ~ rows.map rowBin :=
  (sortBy_perm TBin.c _).trans ((sortRowsDesc_perm' rows).map rowBin)

/-- the TauREx-file row converted to an array row declares the stored wavenumber bin again -/
theorem rowBin_fromTaurex (r : ORow ℝ) (h : r.wl ≠ 0) : rowBin (fromTaurex r) = { c := r.wl, w := r.bw } := by
  unfold rowBin fromTaurex widthConv
  simp only
  congr 1
  · field_simp
  · field_simp

theorem taurex_wl_nodup (rows : List (ORow ℝ)) (hd : (rows.map ORow.wl).Nodup) (hpos : ∀ r ∈ rows, 0 < r.wl) :
    ((rows.map fromTaurex).map ORow.wl).Nodup := by
  rw [List.map_map]
  have : (rows.map (ORow.wl ∘ fromTaurex)) = (rows.map ORow.wl).map (fun x => (10000 : ℝ) / x) := by
    rw [List.map_map]; rfl
  rw [this]
  refine List.Nodup.map_on ?_ hd
  intro a ha b hb hab
  rw [List.mem_map] at ha hb
  obtain ⟨ra, hra, rfl⟩ := ha
  obtain ⟨rb, hrb, rfl⟩ := hb
  have pa := hpos ra hra
  have pb := hpos rb hrb
  field_simp at hab
  linarith

end Taurex.ObsTargets
