/-
  C20 — helper lemmas for the identification of the weight-averaged optical depth with the optical depth of the
  weight-averaged coefficient (Props/C20.lean: k_avg_linear, k_jensen_row).
-/
import Proofs.C20

namespace Taurex.KTau

/-- the weight-averaged coefficient of layer `k`: `Σ_g sigma[k, wn, g] · w_g` -/
noncomputable def avgSigma (sigma3 : List (List ℝ)) (ws : List ℝ) (k : Nat) : ℝ :=
  ((List.range ws.length).map (fun g => at3 sigma3 k g * ws.getD g 0)).sum

theorem foldl_add_sum' (f : Nat → ℝ) (l : List Nat) (a : ℝ) :
    l.foldl (fun acc k => acc + f k) a = a + (l.map f).sum := by
  induction l generalizing a with
  | nil => simp
  | cons x xs ih => simp [ih, add_assoc]

theorem zip_range_map (F : Nat → ℝ) (ws : List ℝ) :
    (((List.range ws.length).map F).zip ws).map (fun p => p.1 * p.2)
      = (List.range ws.length).map (fun g => F g * ws.getD g 0) := by
  apply List.ext_getElem
  · simp
  · intro i h1 h2
    simp at h1 h2
    simp [List.getElem_zip, List.getD_eq_getElem?_getD, List.getElem?_eq_getElem h1]

/-- interchange of the two finite sums -/
theorem sum_comm_range (a : Nat → Nat → ℝ) (c : Nat → ℝ) (w : Nat → ℝ) (m G : Nat) :
    ((List.range G).map (fun g => ((List.range m).map (fun k => a k g * c k)).sum * w g)).sum
      = ((List.range m).map (fun k => ((List.range G).map (fun g => a k g * w g)).sum * c k)).sum := by
  induction m with
  | zero => simp
  | succ m ih =>
    simp only [List.range_succ, List.map_append, List.sum_append, List.map_cons, List.map_nil, List.sum_cons,
      List.sum_nil, add_zero]
    rw [← ih]
    have : ∀ g, (((List.range m).map (fun k => a k g * c k)).sum + a m g * c m) * w g
        = ((List.range m).map (fun k => a k g * c k)).sum * w g + a m g * w g * c m := by
      intro g; ring
    simp only [this]
    rw [List.sum_map_add, List.sum_map_mul_right]

end Taurex.KTau
