/-
  Helper lemmas for Props/C07.lean: the prior table, the parameter tables, `compileTable` against `impliedRows`,
  frame lemmas for `setValue` / `applyUpdate`.  Structural (no real analysis); generic in names and carrier.
-/
import TaurexModel.OptimizerSM

namespace Taurex.C07
open Taurex.Priors Taurex.OptimizerSM

section
variable {ν α : Type} [DecidableEq ν]

/-! ### the prior table -/

theorem tget_tset_self (t : Table ν α) (n : ν) (p : Prior α) : tget (tset t n p) n = some p := by
  induction t with
  | nil => simp [tset, tget]
  | cons kv t ih =>
    obtain ⟨k, q⟩ := kv
    by_cases h : k = n
    · simp [tset, tget, h]
    · simp [tset, tget, h, ih]

theorem tget_tset_ne (t : Table ν α) (n m : ν) (p : Prior α) (h : n ≠ m) : tget (tset t n p) m = tget t m := by
  induction t with
  | nil => simp [tset, tget, h]
  | cons kv t ih =>
    obtain ⟨k, q⟩ := kv
    by_cases hk : k = n
    · subst hk
      simp [tset, tget, h]
    · by_cases hm : k = m
      · subst hm
        simp [tset, tget, hk]
      · simp [tset, tget, hk, hm, ih]

/-! ### parameter tables -/

def names (ps : List (Param ν α)) : List ν := ps.map (·.name)

theorem names_modifyParam (ps : List (Param ν α)) (n : ν) (f : Param ν α → Param ν α)
    (hf : ∀ p, (f p).name = p.name) : names (modifyParam ps n f) = names ps := by
  unfold names modifyParam
  rw [List.map_map]
  apply List.map_congr_left
  intro p _
  by_cases h : p.name = n <;> simp [h, hf]

theorem hasName_iff (ps : List (Param ν α)) (n : ν) : hasName ps n = true ↔ n ∈ names ps := by
  unfold hasName names
  simp only [List.any_eq_true, decide_eq_true_eq, List.mem_map]

theorem hasName_false_iff (ps : List (Param ν α)) (n : ν) : hasName ps n = false ↔ n ∉ names ps := by
  rw [← hasName_iff]; simp

theorem hasDerived_iff (ds : List (Derived ν)) (n : ν) : hasDerived ds n = true ↔ n ∈ ds.map (·.name) := by
  unfold hasDerived
  simp only [List.any_eq_true, decide_eq_true_eq, List.mem_map]

theorem modifyParam_cons (p : Param ν α) (ps : List (Param ν α)) (n : ν) (f : Param ν α → Param ν α) :
    modifyParam (p :: ps) n f = (if p.name = n then f p else p) :: modifyParam ps n f := rfl

theorem names_cons (p : Param ν α) (ps : List (Param ν α)) : names (p :: ps) = p.name :: names ps := rfl

/-- rewriting the entry of a name that is not in the table changes nothing -/
theorem modifyParam_not_mem (ps : List (Param ν α)) (n : ν) (f : Param ν α → Param ν α) (h : n ∉ names ps) :
    modifyParam ps n f = ps := by
  unfold modifyParam
  conv => rhs; rw [← List.map_id ps]
  apply List.map_congr_left
  intro p hp
  have : p.name ≠ n := by
    intro e; apply h; rw [← e]; exact List.mem_map_of_mem (f := (·.name)) hp
  simp [this]

/-- value look-up in a list of parameters -/
def valueIn : List (Param ν α) → ν → Option α
  | [], _ => none
  | p :: ps, n => if p.name = n then some p.value else valueIn ps n

theorem getValue_eq (s : St ν α) (o : Owner) (n : ν) : getValue s o n = valueIn (table s o) n := by
  unfold getValue
  induction table s o with
  | nil => rfl
  | cons p ps ih =>
    by_cases h : p.name = n
    · simp [List.find?_cons, valueIn, h]
    · simp [List.find?_cons, valueIn, h, ih]

theorem valueIn_modify_ne (ps : List (Param ν α)) (n m : ν) (x : α) (h : n ≠ m) :
    valueIn (modifyParam ps n (fun p => { p with value := x })) m = valueIn ps m := by
  induction ps with
  | nil => rfl
  | cons p ps ih =>
    rw [modifyParam_cons]
    by_cases hp : p.name = n
    · have : ¬ p.name = m := by rw [hp]; exact h
      simp [valueIn, hp, this, h, ih]
    · simp [valueIn, hp, ih]

theorem valueIn_modify_self (ps : List (Param ν α)) (n : ν) (x : α) (h : n ∈ names ps) :
    valueIn (modifyParam ps n (fun p => { p with value := x })) n = some x := by
  induction ps with
  | nil => simp [names] at h
  | cons p ps ih =>
    rw [modifyParam_cons]
    by_cases hp : p.name = n
    · simp [valueIn, hp]
    · have : n ∈ names ps := by
        rw [names_cons, List.mem_cons] at h
        rcases h with h | h
        · exact absurd h.symm hp
        · exact h
      simp [valueIn, hp, ih this]

/-- writing back the value that is stored changes nothing (names unique) -/
theorem modify_same_value (ps : List (Param ν α)) (n : ν) (v : α) (hnd : (names ps).Nodup)
    (hv : valueIn ps n = some v) : modifyParam ps n (fun p => { p with value := v }) = ps := by
  induction ps with
  | nil => rfl
  | cons p ps ih =>
    rw [names_cons, List.nodup_cons] at hnd
    rw [modifyParam_cons]
    by_cases hp : p.name = n
    · have hv' : p.value = v := by
        simpa [valueIn, hp] using hv
      have hn : n ∉ names ps := by rw [← hp]; exact hnd.1
      rw [modifyParam_not_mem ps n _ hn]
      simp only [hp, if_true]
      congr 1
      cases p; simp_all
    · have hv' : valueIn ps n = some v := by
        simpa [valueIn, hp] using hv
      simp only [hp, if_false]
      rw [ih hnd.2 hv']

/-! ### settings that an update never touches -/

/-- a parameter with its value erased: name, mode, fit flag, bounds -/
def shape (p : Param ν α) : ν × FitMode × Bool × α × α := (p.name, p.mode, p.fit, p.b0, p.b1)

theorem shape_modify_value (ps : List (Param ν α)) (n : ν) (x : α) :
    (modifyParam ps n (fun p => { p with value := x })).map shape = ps.map shape := by
  unfold modifyParam
  rw [List.map_map]
  apply List.map_congr_left
  intro p _
  by_cases h : p.name = n <;> simp [h, shape]

end

section
variable {ν α : Type} [DecidableEq ν] [LT α] [DecidableLT α] [OfNat α 0] [Mul α] [Transc α]

/-! ### `compileTable` against the specification `impliedRows` -/

/-- entries outside the walked table keep their prior -/
theorem compileTable_frame (o : Owner) (ps : List (Param ν α)) :
    ∀ (tbl : Table ν α) (r : List (Entry ν α) × List (Prior α) × Table ν α),
      compileTable o ps tbl = some r → ∀ n, n ∉ names ps → tget r.2.2 n = tget tbl n := by
  induction ps with
  | nil =>
    intro tbl r h n _
    simp [compileTable] at h
    subst h; rfl
  | cons p ps ih =>
    intro tbl r h n hn
    have hn1 : p.name ≠ n := by
      intro e; apply hn; simp [names, e]
    have hn2 : n ∉ names ps := by
      intro e; apply hn; simp only [names, List.map_cons, List.mem_cons]; right; exact e
    unfold compileTable at h
    by_cases hf : p.fit = true
    · simp only [hf, if_true] at h
      cases hg : tget tbl p.name with
      | some pr =>
        simp only [hg] at h
        cases hc : compileTable o ps tbl with
        | none => simp [hc] at h
        | some r' =>
          simp [hc] at h
          subst h
          exact ih tbl r' hc n hn2
      | none =>
        simp only [hg] at h
        cases hd : defaultPrior p.mode p.b0 p.b1 with
        | none => simp [hd] at h
        | some pr =>
          simp only [hd] at h
          cases hc : compileTable o ps (tset tbl p.name pr) with
          | none => simp [hc] at h
          | some r' =>
            simp [hc] at h
            subst h
            rw [ih _ r' hc n hn2]
            exact tget_tset_ne tbl p.name n pr hn1
    · simp only [hf] at h
      exact ih tbl r h n hn2

/-- `compileTable` produces exactly the rows the settings imply, whenever the incoming table agrees with the
    user priors on the names of this table (names unique) -/
theorem compileTable_rows (user : Table ν α) (o : Owner) (ps : List (Param ν α)) :
    ∀ (tbl : Table ν α), (names ps).Nodup → (∀ n ∈ names ps, tget tbl n = tget user n) →
      (compileTable o ps tbl).map (fun r => (r.1, r.2.1)) =
        (impliedRows user o ps).map (fun rows => (rows.map (·.1), rows.map (·.2))) := by
  induction ps with
  | nil => intro tbl _ _; simp [compileTable, impliedRows]
  | cons p ps ih =>
    intro tbl hnd hag
    have hnd' : (names ps).Nodup := by
      simp only [names, List.map_cons, List.nodup_cons] at hnd; exact hnd.2
    have hp : p.name ∉ names ps := by
      simp only [names, List.map_cons, List.nodup_cons] at hnd; exact hnd.1
    have hag' : ∀ n ∈ names ps, tget tbl n = tget user n := by
      intro n hn; apply hag; simp only [names, List.map_cons, List.mem_cons]; right; exact hn
    have hself : tget tbl p.name = tget user p.name := by
      apply hag; simp [names]
    unfold compileTable impliedRows
    by_cases hf : p.fit = true
    · simp only [hf, if_true]
      unfold impliedRow
      rw [← hself]
      cases hg : tget tbl p.name with
      | some pr =>
        have := ih tbl hnd' hag'
        cases hc : compileTable o ps tbl with
        | none =>
          rw [hc] at this
          cases hi : impliedRows user o ps with
          | none => simp
          | some rows => rw [hi] at this; simp at this
        | some r =>
          rw [hc] at this
          cases hi : impliedRows user o ps with
          | none => rw [hi] at this; simp at this
          | some rows =>
            rw [hi] at this
            simp at this
            simp [this.1, this.2]
      | none =>
        cases hd : defaultPrior p.mode p.b0 p.b1 with
        | none => simp
        | some pr =>
          have hag'' : ∀ n ∈ names ps, tget (tset tbl p.name pr) n = tget user n := by
            intro n hn
            rw [tget_tset_ne tbl p.name n pr (by intro e; apply hp; rw [e]; exact hn)]
            exact hag' n hn
          have := ih (tset tbl p.name pr) hnd' hag''
          cases hc : compileTable o ps (tset tbl p.name pr) with
          | none =>
            rw [hc] at this
            cases hi : impliedRows user o ps with
            | none => simp [hc]
            | some rows => rw [hi] at this; simp at this
          | some r =>
            rw [hc] at this
            cases hi : impliedRows user o ps with
            | none => rw [hi] at this; simp at this
            | some rows =>
              rw [hi] at this
              simp at this
              simp [hc, this.1, this.2]
    · simp only [hf]
      exact ih tbl hnd' hag'

/-- after `compileTable` every produced row finds its own prior under its name -/
theorem compileTable_lookup (o : Owner) (ps : List (Param ν α)) :
    ∀ (tbl : Table ν α) (r : List (Entry ν α) × List (Prior α) × Table ν α), (names ps).Nodup →
      compileTable o ps tbl = some r →
      r.1.length = r.2.1.length ∧ (∀ e ∈ r.1, e.name ∈ names ps ∧ e.owner = o) ∧
      ∀ ep ∈ r.1.zip r.2.1, tget r.2.2 ep.1.name = some ep.2 := by
  induction ps with
  | nil =>
    intro tbl r _ h
    simp [compileTable] at h
    subst h; simp
  | cons p ps ih =>
    intro tbl r hnd h
    have hnd' : (names ps).Nodup := by
      simp only [names, List.map_cons, List.nodup_cons] at hnd; exact hnd.2
    have hp : p.name ∉ names ps := by
      simp only [names, List.map_cons, List.nodup_cons] at hnd; exact hnd.1
    unfold compileTable at h
    by_cases hf : p.fit = true
    · simp only [hf, if_true] at h
      cases hg : tget tbl p.name with
      | some pr =>
        simp only [hg] at h
        cases hc : compileTable o ps tbl with
        | none => simp [hc] at h
        | some r' =>
          simp [hc] at h
          subst h
          obtain ⟨hl, hm, hz⟩ := ih tbl r' hnd' hc
          refine ⟨by simp [hl], ?_, ?_⟩
          · intro e he
            simp only [List.mem_cons] at he
            rcases he with he | he
            · subst he; simp [entryOf, names]
            · have := hm e he
              exact ⟨by simp only [names, List.map_cons, List.mem_cons]; right; exact this.1, this.2⟩
          · intro ep hep
            simp only [List.zip_cons_cons, List.mem_cons] at hep
            rcases hep with hep | hep
            · subst hep
              simp only [entryOf]
              rw [compileTable_frame o ps tbl r' hc p.name hp]
              exact hg
            · exact hz ep hep
      | none =>
        simp only [hg] at h
        cases hd : defaultPrior p.mode p.b0 p.b1 with
        | none => simp [hd] at h
        | some pr =>
          simp only [hd] at h
          cases hc : compileTable o ps (tset tbl p.name pr) with
          | none => simp [hc] at h
          | some r' =>
            simp [hc] at h
            subst h
            obtain ⟨hl, hm, hz⟩ := ih _ r' hnd' hc
            refine ⟨by simp [hl], ?_, ?_⟩
            · intro e he
              simp only [List.mem_cons] at he
              rcases he with he | he
              · subst he; simp [entryOf, names]
              · have := hm e he
                exact ⟨by simp only [names, List.map_cons, List.mem_cons]; right; exact this.1, this.2⟩
            · intro ep hep
              simp only [List.zip_cons_cons, List.mem_cons] at hep
              rcases hep with hep | hep
              · subst hep
                simp only [entryOf]
                rw [compileTable_frame o ps _ r' hc p.name hp]
                exact tget_tset_self tbl p.name pr
              · exact hz ep hep
    · simp only [hf] at h
      obtain ⟨hl, hm, hz⟩ := ih tbl r hnd' h
      refine ⟨hl, ?_, hz⟩
      intro e he
      have := hm e he
      exact ⟨by simp only [names, List.map_cons, List.mem_cons]; right; exact this.1, this.2⟩

end

section
variable {ν α : Type} [DecidableEq ν] [LT α] [DecidableLT α] [OfNat α 0] [Mul α] [Transc α]

/-- names are unique across the two parameter tables -/
def WF (s : St ν α) : Prop := (names s.model ++ names s.obs).Nodup

theorem WF.model {s : St ν α} (h : WF s) : (names s.model).Nodup := (List.nodup_append.1 h).1
theorem WF.obs {s : St ν α} (h : WF s) : (names s.obs).Nodup := (List.nodup_append.1 h).2.1
theorem WF.disj {s : St ν α} (h : WF s) {n : ν} (hn : n ∈ names s.obs) : n ∉ names s.model := by
  intro hm
  exact (List.nodup_append.1 h).2.2 n hm n hn rfl

/-- the heart of history freedom: what `compile_params` leaves behind is a function of the settings -/
theorem compile_eq_implied (s : St ν α) (h : WF s) :
    (view (compile s).1, (compile s).2) = implied (settings s) := by
  have hm := compileTable_rows s.userPriors .model s.model s.userPriors h.model (fun _ _ => rfl)
  unfold compile implied settings
  simp only
  cases hc : compileTable Owner.model s.model s.userPriors with
  | none =>
    rw [hc] at hm
    cases hi : impliedRows s.userPriors Owner.model s.model with
    | some rows => rw [hi] at hm; simp at hm
    | none => simp [view]
  | some r =>
    obtain ⟨es, ps, t⟩ := r
    rw [hc] at hm
    cases hi : impliedRows s.userPriors Owner.model s.model with
    | none => rw [hi] at hm; simp at hm
    | some rm =>
      rw [hi] at hm
      simp at hm
      obtain ⟨he, hp⟩ := hm
      have hag : ∀ n ∈ names s.obs, tget t n = tget s.userPriors n := by
        intro n hn
        exact compileTable_frame .model s.model s.userPriors (es, ps, t) hc n (h.disj hn)
      have ho := compileTable_rows s.userPriors .obs s.obs t h.obs hag
      simp only
      cases hc2 : compileTable Owner.obs s.obs t with
      | none =>
        rw [hc2] at ho
        cases hi2 : impliedRows s.userPriors Owner.obs s.obs with
        | some rows => rw [hi2] at ho; simp at ho
        | none => simp [view, he, hp]
      | some r2 =>
        obtain ⟨es2, ps2, t2⟩ := r2
        rw [hc2] at ho
        cases hi2 : impliedRows s.userPriors Owner.obs s.obs with
        | none => rw [hi2] at ho; simp at ho
        | some ro =>
          rw [hi2] at ho
          simp at ho
          simp [view, he, hp, ho.1, ho.2]

end

section
variable {ν α : Type} [DecidableEq ν] [LT α] [DecidableLT α] [OfNat α 0] [Mul α] [Transc α]

/-! ### names never change -/

def tableNames (s : St ν α) : List ν × List ν := (names s.model, names s.obs)

theorem tableNames_setTable (s : St ν α) (o : Owner) (n : ν) (f : Param ν α → Param ν α)
    (hf : ∀ p, (f p).name = p.name) : tableNames (setTable s o (modifyParam (table s o) n f)) = tableNames s := by
  cases o <;> simp [tableNames, setTable, table, names_modifyParam _ _ _ hf]

theorem tableNames_withParam (s : St ν α) (n : ν) (f : Param ν α → Param ν α)
    (hf : ∀ p, (f p).name = p.name) : tableNames (withParam s n f).1 = tableNames s := by
  unfold withParam
  simp only
  split
  · exact tableNames_setTable s _ n f hf
  · rfl

theorem tableNames_setValue (s : St ν α) (o : Owner) (n : ν) (x : α) :
    tableNames (setValue s o n x) = tableNames s :=
  tableNames_setTable s o n _ (fun _ => rfl)

theorem tableNames_applyUpdate (es : List (Entry ν α)) :
    ∀ (s : St ν α) (ps : List (Prior α)) (xs : List α), tableNames (applyUpdate s es ps xs) = tableNames s := by
  induction es with
  | nil => intro s ps xs; simp [applyUpdate]
  | cons e es ih =>
    intro s ps xs
    cases ps with
    | nil => simp [applyUpdate]
    | cons p ps =>
      cases xs with
      | nil => simp [applyUpdate]
      | cons x xs =>
        simp only [applyUpdate]
        rw [ih]
        exact tableNames_setValue s _ _ _

theorem tableNames_compile (s : St ν α) : tableNames (compile s).1 = tableNames s := by
  unfold compile
  simp only
  split
  · rfl
  · split <;> rfl

theorem tableNames_withDerived (s : St ν α) (n : ν) (c : Bool) : tableNames (withDerived s n c).1 = tableNames s := by
  unfold withDerived
  simp only
  split
  · rfl
  · split <;> rfl

theorem tableNames_step (s : St ν α) (op : Op ν α) : tableNames (step s op).1 = tableNames s := by
  cases op with
  | enableFit n => exact tableNames_withParam s n _ (fun _ => rfl)
  | disableFit n => exact tableNames_withParam s n _ (fun _ => rfl)
  | setMode n m =>
    simp only [step]
    split
    · split
      · rfl
      · exact tableNames_setTable s _ n _ (fun _ => rfl)
    · rfl
  | setBoundary n b0 b1 => exact tableNames_withParam s n _ (fun _ => rfl)
  | setFactorBoundary n f0 f1 => exact tableNames_withParam s n _ (fun _ => rfl)
  | setPrior n p =>
    simp only [step]
    split <;> rfl
  | enableDerived n => exact tableNames_withDerived s n true
  | disableDerived n => exact tableNames_withDerived s n false
  | compile => exact tableNames_compile s
  | updateModel v =>
    simp only [step, updateModel]
    split
    · rfl
    · exact tableNames_applyUpdate _ _ _ _

theorem tableNames_run (ops : List (Op ν α)) : ∀ (s : St ν α), tableNames (run s ops) = tableNames s := by
  induction ops with
  | nil => intro s; rfl
  | cons op ops ih => intro s; simp only [run]; rw [ih, tableNames_step]

theorem WF_of_tableNames {s s' : St ν α} (h : tableNames s' = tableNames s) (hw : WF s) : WF s' := by
  unfold WF at *
  simp only [tableNames, Prod.mk.injEq] at h
  rw [h.1, h.2]; exact hw

theorem WF_run (s : St ν α) (ops : List (Op ν α)) (hw : WF s) : WF (run s ops) :=
  WF_of_tableNames (tableNames_run ops s) hw

theorem run_append (ops₁ ops₂ : List (Op ν α)) : ∀ (s : St ν α), run s (ops₁ ++ ops₂) = run (run s ops₁) ops₂ := by
  induction ops₁ with
  | nil => intro s; rfl
  | cons op ops ih => intro s; simp only [List.cons_append, run]; exact ih _

end

section
variable {ν α : Type} [DecidableEq ν] [LT α] [DecidableLT α] [OfNat α 0] [Mul α] [Transc α]

/-! ### reported names follow the priors of the rows -/

theorem fitNamesAux_of_lookup (t : Table ν α) : ∀ (es : List (Entry ν α)) (prs : List (Prior α)),
    es.length = prs.length → (∀ ep ∈ es.zip prs, tget t ep.1.name = some ep.2) →
    fitNamesAux t es = some (List.zipWith (fun e p => (decide (Prior.mode p = .log), e.name)) es prs) := by
  intro es
  induction es with
  | nil => intro prs _ _; simp [fitNamesAux]
  | cons e es ih =>
    intro prs hl hz
    cases prs with
    | nil => simp at hl
    | cons p prs =>
      have h1 : tget t e.name = some p := hz (e, p) (by simp)
      have h2 := ih prs (by simpa using hl) (fun ep hep => hz ep (by simp [hep]))
      simp [fitNamesAux, h1, h2]

theorem fitNames_after_compile (s : St ν α) (h : WF s) (hok : (compile s).2 = .ok) :
    fitNames (compile s).1 = some (impliedNames (view (compile s).1)) := by
  unfold compile at hok ⊢
  simp only at hok ⊢
  cases hc : compileTable Owner.model s.model s.userPriors with
  | none => simp [hc] at hok
  | some r =>
    obtain ⟨es, ps, t⟩ := r
    simp only [hc] at hok ⊢
    cases hc2 : compileTable Owner.obs s.obs t with
    | none => simp [hc2] at hok
    | some r2 =>
      obtain ⟨es2, ps2, t2⟩ := r2
      simp only [hc2]
      obtain ⟨hl1, hm1, hz1⟩ := compileTable_lookup .model s.model s.userPriors (es, ps, t) h.model hc
      obtain ⟨hl2, hm2, hz2⟩ := compileTable_lookup .obs s.obs t (es2, ps2, t2) h.obs hc2
      simp only at hl1 hm1 hz1 hl2 hm2 hz2
      unfold fitNames impliedNames view
      simp only
      apply fitNamesAux_of_lookup
      · simp [hl1, hl2]
      · intro ep hep
        rw [List.zip_append hl1] at hep
        rcases List.mem_append.1 hep with hep | hep
        · have hmem : ep.1 ∈ es := (List.of_mem_zip hep).1
          have hn : ep.1.name ∉ names s.obs := by
            intro ho
            exact h.disj ho (hm1 ep.1 hmem).1
          rw [compileTable_frame .obs s.obs t (es2, ps2, t2) hc2 ep.1.name hn]
          exact hz1 ep hep
        · exact hz2 ep hep

end

end Taurex.C07
