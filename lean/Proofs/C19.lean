/-
  Lemmas for C19: the cloud deck, the grey-haze window (searchsorted slice, overlap weights) and the Lee haze.
-/
import Proofs.C01c
import TaurexModel.Haze

open Finset

namespace Taurex.Haze
open Taurex.Transmission

/-! ### max / min -/

theorem fmax_eq (a b : ℝ) : fmax a b = max a b := by
  unfold fmax; split
  · rw [max_eq_right]; linarith
  · rw [max_eq_left]; linarith

theorem fmin_eq (a b : ℝ) : fmin a b = min a b := by
  unfold fmin; split
  · rw [min_eq_right]; linarith
  · rw [min_eq_left]; linarith

theorem overlap_eq (lev : ℕ → ℝ) (lo hi : ℝ) (i : ℕ) :
    flatOverlap lev lo hi i = max (min hi (lev (i + 1)) - max lo (lev i)) 0 := by
  unfold flatOverlap; rw [fmax_eq, fmin_eq, fmax_eq]

theorem overlap_nonneg (lev : ℕ → ℝ) (lo hi : ℝ) (i : ℕ) : 0 ≤ flatOverlap lev lo hi i := by
  rw [overlap_eq]; exact le_max_right _ _

/-! ### counting in sorted arrays (`np.searchsorted`) -/

theorem countP_range_le (p : ℕ → Bool) (n i : ℕ) (h : ∀ j < n, p j = true → j < i) :
    (List.range n).countP p ≤ i := by
  induction n with
  | zero => simp
  | succ n ih =>
    rw [List.range_succ, List.countP_append]
    have h1 := ih (fun j hj => h j (by omega))
    have hlen : (List.range n).countP p ≤ n := by
      have := List.countP_le_length (p := p) (l := List.range n); simpa using this
    by_cases hp : p n = true
    · have := h n (by omega) hp
      simp [hp]; omega
    · simp [hp]; exact h1

theorem countP_range_ge (p : ℕ → Bool) (m i : ℕ) (hi : i ≤ m) (h : ∀ j < i, p j = true) :
    i ≤ (List.range m).countP p := by
  induction m generalizing i with
  | zero => omega
  | succ m ih =>
    rw [List.range_succ, List.countP_append]
    rcases Nat.eq_or_lt_of_le hi with e | hlt
    · have h1 := ih m (le_refl _) (fun j hj => h j (by omega))
      have hp : p m = true := h m (by omega)
      simp [hp]; omega
    · have := ih i (by omega) h
      omega

/-! ### the grey-haze slice -/

theorem flatStart_eq (n : ℕ) (lev : ℕ → ℝ) (lo : ℝ) :
    flatStart n lev lo = (List.range n).countP (fun i => decide (lev (i + 1) ≤ lo)) := by
  unfold flatStart Interp.searchRight
  rw [List.countP_map]; rfl

theorem flatStop_eq (n : ℕ) (lev : ℕ → ℝ) (hi : ℝ) :
    flatStop n lev hi = (List.range (n - 1)).countP (fun i => decide (lev (i + 1) ≤ hi)) := by
  unfold flatStop Interp.searchRight
  rw [List.countP_map]; rfl

/-- levels (log10 P, top of the atmosphere first) are non-decreasing in the index -/
def LevMono (n : ℕ) (lev : ℕ → ℝ) : Prop := ∀ a b, a ≤ b → b ≤ n → lev a ≤ lev b

/-- a layer with positive overlap lies inside the slice `[save_start : save_stop+1]` -/
theorem slice_contains (n : ℕ) (lev : ℕ → ℝ) (hm : LevMono n lev) (lo hi : ℝ) (i : ℕ) (hi_n : i < n)
    (hpos : 0 < flatOverlap lev lo hi i) : flatStart n lev lo ≤ i ∧ i ≤ flatStop n lev hi := by
  rw [overlap_eq] at hpos
  have hgt : max lo (lev i) < min hi (lev (i + 1)) := by
    by_contra hcon
    have : min hi (lev (i + 1)) - max lo (lev i) ≤ 0 := by linarith [not_lt.1 hcon]
    rw [max_eq_right this] at hpos; exact lt_irrefl _ hpos
  have h1 : lo < lev (i + 1) := lt_of_le_of_lt (le_max_left _ _) (lt_of_lt_of_le hgt (min_le_right _ _))
  have h2 : lev i < hi := lt_of_le_of_lt (le_max_right _ _) (lt_of_lt_of_le hgt (min_le_left _ _))
  constructor
  · rw [flatStart_eq]
    apply countP_range_le
    intro j hj hp
    have hp : lev (j + 1) ≤ lo := by simpa using hp
    by_contra hcon
    have : lev (i + 1) ≤ lev (j + 1) := hm _ _ (by omega) (by omega)
    linarith
  · rw [flatStop_eq]
    apply countP_range_ge _ _ _ (by omega)
    intro j hj
    have : lev (j + 1) ≤ lev i := hm _ _ (by omega) (by omega)
    simp only [decide_eq_true_eq]; linarith

/-- `weight.max()` bounds every weight of the slice and is attained in it -/
theorem wmax_fold (w : ℕ → ℝ) (s k : ℕ) :
    (∀ j ≤ k, w (s + j) ≤ (List.range k).foldl (fun m j => fmax m (w (s + j + 1))) (w s)) ∧
    (∃ j ≤ k, (List.range k).foldl (fun m j => fmax m (w (s + j + 1))) (w s) = w (s + j)) := by
  induction k with
  | zero =>
    refine ⟨fun j hj => ?_, ⟨0, le_refl _, by simp⟩⟩
    have : j = 0 := by omega
    subst this; simp
  | succ k ih =>
    rw [List.range_succ, List.foldl_append]
    simp only [List.foldl_cons, List.foldl_nil]
    set F := (List.range k).foldl (fun m j => fmax m (w (s + j + 1))) (w s) with hF
    rw [fmax_eq]
    obtain ⟨hle, ⟨j0, hj0, hat⟩⟩ := ih
    constructor
    · intro j hj
      rcases Nat.eq_or_lt_of_le hj with e | hlt
      · subst e; exact le_max_right _ _
      · exact le_trans (hle j (by omega)) (le_max_left _ _)
    · rcases le_total F (w (s + k + 1)) with h | h
      · exact ⟨k + 1, le_refl _, by rw [max_eq_right h]; rfl⟩
      · exact ⟨j0, by omega, by rw [max_eq_left h]; exact hat⟩

theorem wmax_ge (lev : ℕ → ℝ) (lo hi : ℝ) (s t i : ℕ) (hs : s ≤ i) (ht : i ≤ t) :
    flatOverlap lev lo hi i ≤ flatWmax lev lo hi s t := by
  unfold flatWmax
  have := (wmax_fold (flatOverlap lev lo hi) s (t - s)).1 (i - s) (by omega)
  have e : s + (i - s) = i := by omega
  rwa [e] at this

theorem wmax_attained (lev : ℕ → ℝ) (lo hi : ℝ) (s t : ℕ) (hst : s ≤ t) :
    ∃ i, s ≤ i ∧ i ≤ t ∧ flatWmax lev lo hi s t = flatOverlap lev lo hi i := by
  unfold flatWmax
  obtain ⟨j, hj, e⟩ := (wmax_fold (flatOverlap lev lo hi) s (t - s)).2
  exact ⟨s + j, by omega, by omega, e⟩

/-- `levels.max()` / `levels.min()` of sorted levels -/
theorem maxTo_mono (n : ℕ) (lev : ℕ → ℝ) (hm : LevMono n lev) : maxTo n lev = lev n := by
  unfold maxTo
  have : ∀ k ≤ n, (List.range k).foldl (fun m i => fmax m (lev (i + 1))) (lev 0) = lev k := by
    intro k hk
    induction k with
    | zero => simp
    | succ k ih =>
      rw [List.range_succ, List.foldl_append, ih (by omega)]
      simp only [List.foldl_cons, List.foldl_nil]
      rw [fmax_eq, max_eq_right (hm k (k + 1) (by omega) hk)]
  exact this n (le_refl _)

theorem minTo_mono (n : ℕ) (lev : ℕ → ℝ) (hm : LevMono n lev) : minTo n lev = lev 0 := by
  unfold minTo
  have : ∀ k ≤ n, (List.range k).foldl (fun m i => fmin m (lev (i + 1))) (lev 0) = lev 0 := by
    intro k hk
    induction k with
    | zero => simp
    | succ k ih =>
      rw [List.range_succ, List.foldl_append, ih (by omega)]
      simp only [List.foldl_cons, List.foldl_nil]
      rw [fmin_eq, min_eq_left (hm 0 (k + 1) (by omega) hk)]
  exact this n (le_refl _)

/-! ### Lee law -/

theorem powr_pos (x y : ℝ) : 0 < powr x y := by unfold powr; simp only [exp_real]; exact Real.exp_pos _

theorem leeLaw_pos (pi a q wn : ℝ) (hpi : 0 < pi) (ha : 0 < a) (hq : 0 ≤ q) (_hwn : 0 < wn) :
    0 < leeLaw pi a q wn := by
  unfold leeLaw
  simp only
  have h1 := powr_pos (2 * pi * a / (10000 / wn)) (-4)
  have h2 := powr_pos (2 * pi * a / (10000 / wn)) (1 / 5)
  have hden : 0 < q * powr (2 * pi * a / (10000 / wn)) (-4) + powr (2 * pi * a / (10000 / wn)) (1 / 5) := by
    have := mul_nonneg hq h1.le; linarith
  have : 0 < a * (1 / 1000000) := by positivity
  positivity

/-! ### a contribution declared in an input file (`declaredArgs`) -/

theorem lookup_map_declared {β : Type} (config : List (String × β)) (k : String) :
    ∀ (defaults : List (String × β)) (d : β), defaults.lookup k = some d →
      (defaults.map (fun kd => (kd.1, (config.lookup kd.1).getD kd.2))).lookup k = some ((config.lookup k).getD d)
  | [], d, h => by simp at h
  | (k', d') :: tl, d, h => by
    by_cases hk : k = k'
    · subst hk
      simp [List.lookup] at h ⊢
      rw [h]
    · have hb : (k == k') = false := by simpa using hk
      simp only [List.map, List.lookup, hb] at h ⊢
      exact lookup_map_declared config k tl d h

end Taurex.Haze
