/-
  C05: mid-point widths (`compute_bin_edges`) of a strictly increasing grid, in closed form, and the
  condition on successive spacings under which the symmetrised bins `centre ∓ width/2` are "ordered bins".
-/
import Mathlib.Data.List.GetD
import Proofs.C05Flux

namespace Taurex.Binning
open List

/-- spacing `d_i = g[i+1] - g[i]` -/
noncomputable def spacing (g : List ℝ) (i : Nat) : ℝ := g.getD (i + 1) 0 - g.getD i 0

/-- the spacing on the left of interval `i` (the first interval is its own left neighbour: this is how
    `compute_bin_edges` extrapolates the first edge) -/
noncomputable def spacingL (g : List ℝ) (i : Nat) : ℝ := if i = 0 then spacing g i else spacing g (i - 1)

/-- the spacing on the right of interval `i` (the last interval is its own right neighbour) -/
noncomputable def spacingR (g : List ℝ) (i : Nat) : ℝ :=
  if i + 2 < g.length then spacing g (i + 1) else spacing g i

/-- local condition on successive spacings: neighbouring spacings differ by at most four times the spacing
    between them (`d_{i+1} ≤ 4 d_i + d_{i-1}` and `d_{i-1} ≤ 4 d_i + d_{i+1}`, with `d_{-1} := d_0`,
    `d_{n-1} := d_{n-2}` at the two ends) -/
def MidpointSpacingOK (g : List ℝ) : Prop :=
  ∀ i, i + 1 < g.length →
    spacingR g i ≤ 4 * spacing g i + spacingL g i ∧ spacingL g i ≤ 4 * spacing g i + spacingR g i

/-! ### element-wise form of `midEdges`, `diffs`, `computeBinEdges` -/

theorem getD_midEdges (g : List ℝ) : ∀ i, i + 1 < g.length →
    (midEdges g).getD i 0 = g.getD i 0 + (g.getD (i + 1) 0 - g.getD i 0) / 2 := by
  induction g with
  | nil => intro i h; simp at h
  | cons a t ih =>
    cases t with
    | nil => intro i h; simp at h
    | cons b t' =>
      intro i h
      cases i with
      | zero => simp [midEdges]
      | succ j =>
        have := ih j (by simpa using h)
        simp only [midEdges, List.getD_cons_succ] at this ⊢
        exact this

theorem getD_diffs (e : List ℝ) : ∀ i, i + 1 < e.length →
    (diffs e).getD i 0 = e.getD (i + 1) 0 - e.getD i 0 := by
  induction e with
  | nil => intro i h; simp at h
  | cons a t ih =>
    cases t with
    | nil => intro i h; simp at h
    | cons b t' =>
      intro i h
      cases i with
      | zero => simp [diffs]
      | succ j =>
        have := ih j (by simpa using h)
        simp only [diffs, List.getD_cons_succ] at this ⊢
        exact this

theorem length_midEdges' (g : List ℝ) : (midEdges g).length = g.length - 1 := by
  induction g with
  | nil => rfl
  | cons a t ih =>
    cases t with
    | nil => rfl
    | cons b t' => simp only [midEdges, List.length_cons] at ih ⊢; omega

/-- the edges of `compute_bin_edges`, element by element -/
theorem getD_edges (g : List ℝ) (hn : 2 ≤ g.length) (j : Nat) (hj : j ≤ g.length) :
    (computeBinEdges g).1.getD j 0 =
      if j = 0 then g.getD 0 0 - spacing g 0 / 2
      else if j = g.length then g.getD (g.length - 1) 0 + spacing g (g.length - 2) / 2
      else g.getD (j - 1) 0 + spacing g (j - 1) / 2 := by
  unfold computeBinEdges spacing
  simp only
  cases j with
  | zero => simp
  | succ k =>
    rw [List.getD_cons_succ, if_neg (by omega)]
    have hlen := length_midEdges' g
    by_cases hk : k + 1 = g.length
    · rw [if_pos hk, List.getD_append_right _ _ _ _ (by rw [hlen]; omega)]
      have : k - (midEdges g).length = 0 := by rw [hlen]; omega
      rw [this, List.getD_cons_zero]
      have h2 : g.length - 2 + 1 = g.length - 1 := by omega
      rw [h2]; ring
    · rw [if_neg hk, List.getD_append _ _ _ _ (by rw [hlen]; omega), getD_midEdges g k (by omega)]
      simp

theorem spacing_pos (g : List ℝ) (hg : g.Pairwise (· < ·)) (i : Nat) (hi : i + 1 < g.length) :
    0 < spacing g i := by
  unfold spacing
  rw [List.getD_eq_getElem _ _ hi, List.getD_eq_getElem _ _ (by omega : i < g.length)]
  have := List.pairwise_iff_getElem.1 hg i (i + 1) (by omega) hi (by omega)
  linarith

theorem length_edges (g : List ℝ) : (computeBinEdges g).1.length = (g.length - 1) + 2 := by
  unfold computeBinEdges
  simp only [List.length_cons, List.length_append, List.length_nil]
  rw [length_midEdges']

/-- the mid-point widths of a strictly increasing grid, element by element:
    `w_0 = d_0`, `w_{n-1} = d_{n-2}`, `w_i = (d_{i-1} + d_i)/2` in between -/
theorem getD_widths (g : List ℝ) (hn : 2 ≤ g.length) (hg : g.Pairwise (· < ·)) (i : Nat) (hi : i < g.length) :
    (computeBinEdges g).2.getD i 0 =
      (spacingL g i + (if i + 1 = g.length then spacing g (g.length - 2) else spacing g i)) / 2 := by
  have hW : (computeBinEdges g).2 = (diffs (computeBinEdges g).1).map absv := rfl
  have h0 : (0 : ℝ) = absv 0 := by rw [absv_eq_abs, abs_zero]
  rw [hW]
  conv_lhs => rw [h0, List.getD_map]
  rw [getD_diffs _ i (by rw [length_edges]; omega), getD_edges g hn (i + 1) (by omega),
    getD_edges g hn i (by omega), absv_eq_abs]
  unfold spacingL
  rw [if_neg (by omega : ¬ i + 1 = 0)]
  by_cases h1 : i + 1 = g.length
  · have hi0 : i ≠ 0 := by omega
    have hil : i ≠ g.length := by omega
    rw [if_pos h1, if_neg hi0, if_neg hil, if_pos h1, if_neg hi0]
    have e1 : g.length - 1 = i := by omega
    have e2 : g.length - 2 = i - 1 := by omega
    rw [e1, e2]
    have hp := spacing_pos g hg (i - 1) (by omega)
    have : g.getD i 0 = g.getD (i - 1) 0 + spacing g (i - 1) := by
      unfold spacing
      have : i - 1 + 1 = i := by omega
      rw [this]; ring
    rw [this, abs_of_pos (by linarith)]
    ring
  · rw [if_neg h1, if_neg h1]
    simp only [Nat.add_sub_cancel]
    by_cases hi0 : i = 0
    · subst hi0
      simp only [if_true]
      have hp := spacing_pos g hg 0 (by omega)
      rw [abs_of_pos (by linarith)]
      ring
    · have hil : i ≠ g.length := by omega
      rw [if_neg hi0, if_neg hil, if_neg hi0]
      have hp1 := spacing_pos g hg (i - 1) (by omega)
      have hp2 := spacing_pos g hg i (by omega)
      have : g.getD i 0 = g.getD (i - 1) 0 + spacing g (i - 1) := by
        unfold spacing
        have : i - 1 + 1 = i := by omega
        rw [this]; ring
      rw [this, abs_of_pos (by linarith)]
      ring

theorem withWidths_map (f : ℝ → ℝ → ℝ) (rows : List (Row ℝ)) (ws : List ℝ) :
    (withWidths rows ws).map (fun r => f r.c r.w) = List.zipWith f (rows.map Row.c) ws := by
  unfold withWidths
  induction rows generalizing ws with
  | nil => simp
  | cons r t ih =>
    cases ws with
    | nil => simp
    | cons w ws' => simp only [List.zipWith_cons_cons, List.map_cons, ih]

theorem length_widths (g : List ℝ) (hn : 1 ≤ g.length) : (computeBinEdges g).2.length = g.length := by
  have hW : (computeBinEdges g).2 = (diffs (computeBinEdges g).1).map absv := rfl
  rw [hW, List.length_map, length_diffs', length_edges]
  omega
where
  length_diffs' (e : List ℝ) : (diffs e).length = e.length - 1 := by
    induction e with
    | nil => rfl
    | cons a t ih =>
      cases t with
      | nil => rfl
      | cons b t' => simp only [diffs, List.length_cons] at ih ⊢; omega

/-- adjacent comparison of the symmetrised mid-point bins -/
theorem midpoint_adjacent (g : List ℝ) (hn : 2 ≤ g.length) (hg : g.Pairwise (· < ·))
    (hok : MidpointSpacingOK g) (i : Nat) (hi : i + 1 < g.length) :
    g.getD i 0 - (computeBinEdges g).2.getD i 0 / 2 ≤ g.getD (i + 1) 0 - (computeBinEdges g).2.getD (i + 1) 0 / 2 ∧
    g.getD i 0 + (computeBinEdges g).2.getD i 0 / 2 ≤ g.getD (i + 1) 0 + (computeBinEdges g).2.getD (i + 1) 0 / 2 := by
  rw [getD_widths g hn hg i (by omega), getD_widths g hn hg (i + 1) hi]
  obtain ⟨h1, h2⟩ := hok i hi
  rw [if_neg (by omega : ¬ i + 1 = g.length)]
  have hL : spacingL g (i + 1) = spacing g i := by
    unfold spacingL; rw [if_neg (by omega)]; simp
  have hR : (if i + 1 + 1 = g.length then spacing g (g.length - 2) else spacing g (i + 1)) = spacingR g i := by
    unfold spacingR
    by_cases h : i + 2 < g.length
    · rw [if_pos h, if_neg (by omega)]
    · rw [if_neg h, if_pos (by omega)]
      congr 1; omega
  rw [hL, hR]
  have hg1 : g.getD (i + 1) 0 = g.getD i 0 + spacing g i := by unfold spacing; ring
  rw [hg1]
  constructor <;> linarith

/-- on rows already sorted by (distinct) centre, `nativeBins false` only attaches the mid-point widths -/
theorem nativeBins_false_sorted (rows : List (Row ℝ)) (hg : (rows.map Row.c).Pairwise (· < ·)) :
    nativeBins false rows = withWidths rows (computeBinEdges (rows.map Row.c)).2 := by
  have hs : rows.Pairwise (fun u v => u.c ≤ v.c) := by
    rw [List.pairwise_map] at hg
    exact hg.imp le_of_lt
  unfold nativeBins
  simp only [Bool.false_eq_true, if_false]
  rw [sortBy_of_sorted Row.c rows hs]

theorem pairwise_le_zipWith (f : ℝ → ℝ → ℝ) (g ws : List ℝ) (hl : ws.length = g.length)
    (h : ∀ i, i + 1 < g.length → f (g.getD i 0) (ws.getD i 0) ≤ f (g.getD (i + 1) 0) (ws.getD (i + 1) 0)) :
    (List.zipWith f g ws).Pairwise (· ≤ ·) := by
  apply List.isChain_iff_pairwise.1
  rw [List.isChain_iff_getElem]
  intro i hi
  have hlen : (List.zipWith f g ws).length = g.length := by rw [List.length_zipWith, hl]; omega
  rw [hlen] at hi
  rw [List.getElem_zipWith, List.getElem_zipWith]
  have := h i hi
  rw [List.getD_eq_getElem _ _ (by omega : i < g.length), List.getD_eq_getElem _ _ (by omega : i < ws.length),
    List.getD_eq_getElem _ _ hi, List.getD_eq_getElem _ _ (by omega : i + 1 < ws.length)] at this
  exact this

/-- **midpoint_bins_ordered**: mid-point widths on a strictly increasing grid whose successive spacings
    satisfy the local condition give ordered bins -/
theorem midpoint_ordered (rows : List (Row ℝ)) (hn : 2 ≤ rows.length)
    (hg : (rows.map Row.c).Pairwise (· < ·)) (hok : MidpointSpacingOK (rows.map Row.c)) :
    OrderedBins (nativeBins false rows) := by
  rw [nativeBins_false_sorted rows hg]
  set g := rows.map Row.c with hgdef
  have hn' : 2 ≤ g.length := by rw [hgdef, List.length_map]; exact hn
  have hl := length_widths g (by omega)
  have hadj := midpoint_adjacent g hn' hg hok
  constructor
  · have : (withWidths rows (computeBinEdges g).2).Pairwise (fun r r' => r.lo ≤ r'.lo) ↔
        ((withWidths rows (computeBinEdges g).2).map (fun r => r.c - r.w / 2)).Pairwise (· ≤ ·) := by
      rw [List.pairwise_map]; rfl
    rw [this, withWidths_map (fun c w => c - w / 2)]
    exact pairwise_le_zipWith _ g _ hl (fun i hi => (hadj i hi).1)
  · have : (withWidths rows (computeBinEdges g).2).Pairwise (fun r r' => r.hi ≤ r'.hi) ↔
        ((withWidths rows (computeBinEdges g).2).map (fun r => r.c + r.w / 2)).Pairwise (· ≤ ·) := by
      rw [List.pairwise_map]; rfl
    rw [this, withWidths_map (fun c w => c + w / 2)]
    exact pairwise_le_zipWith _ g _ hl (fun i hi => (hadj i hi).2)

/-- mid-point widths are non-negative (they are absolute values) -/
theorem midpoint_widths_nonneg (rows : List (Row ℝ)) : ∀ r ∈ nativeBins false rows, r.lo ≤ r.hi := by
  intro r hr
  unfold nativeBins at hr
  simp only [Bool.false_eq_true, if_false] at hr
  unfold withWidths at hr
  obtain ⟨i, hi, rfl⟩ := List.mem_iff_getElem.1 hr
  rw [List.getElem_zipWith]
  have hw : (computeBinEdges (List.map Row.c (sortBy Row.c rows))).2 =
      (diffs (computeBinEdges (List.map Row.c (sortBy Row.c rows))).1).map absv := rfl
  simp only [Row.lo, Row.hi]
  have : 0 ≤ (computeBinEdges (List.map Row.c (sortBy Row.c rows))).2[i]'(by
      rw [List.length_zipWith] at hi; omega) := by
    simp only [hw, List.getElem_map, absv_eq_abs]
    exact abs_nonneg _
  linarith

/-! ### the named grid families -/

/-- (a) constant spacing -/
theorem linear_spacing_ok (g : List ℝ) (d : ℝ) (hd0 : 0 ≤ d) (hd : ∀ i, i + 1 < g.length → spacing g i = d) :
    MidpointSpacingOK g := by
  intro i hi
  have h0 : spacing g i = d := hd i hi
  have hL : spacingL g i = d := by
    unfold spacingL; split
    · exact h0
    · exact hd (i - 1) (by omega)
  have hR : spacingR g i = d := by
    unfold spacingR; split
    · exact hd (i + 1) (by omega)
    · exact h0
  rw [h0, hL, hR]
  constructor <;> linarith

theorem geometric_pos (g : List ℝ) (r : ℝ) (h0 : 0 < g.getD 0 0) (hr : 0 < r)
    (hgeo : ∀ i, i + 1 < g.length → g.getD (i + 1) 0 = r * g.getD i 0) :
    ∀ i, i < g.length → 0 < g.getD i 0 := by
  intro i
  induction i with
  | zero => intro _; exact h0
  | succ k ih =>
    intro hk
    rw [hgeo k hk]
    exact mul_pos hr (ih (by omega))

/-- (b) geometric spacing `g[i+1] = r·g[i]` with `1 < r ≤ 4` (logarithmic grids; constant resolving power
    `R`: `r = 1 + 1/R`) -/
theorem geometric_spacing_ok (g : List ℝ) (r : ℝ) (h0 : 0 < g.getD 0 0) (hr1 : 1 < r) (hr4 : r ≤ 4)
    (hgeo : ∀ i, i + 1 < g.length → g.getD (i + 1) 0 = r * g.getD i 0) : MidpointSpacingOK g := by
  have hr0 : 0 < r := by linarith
  have ht : 0 < r - 1 := by linarith
  have hpos := geometric_pos g r h0 hr0 hgeo
  have hsp : ∀ i, i + 1 < g.length → spacing g i = (r - 1) * g.getD i 0 := by
    intro i hi; unfold spacing; rw [hgeo i hi]; ring
  intro i hi
  have hx := hpos i (by omega)
  have hd : spacing g i = (r - 1) * g.getD i 0 := hsp i hi
  have hR : spacingR g i = (r - 1) * g.getD i 0 ∨ spacingR g i = (r - 1) * (r * g.getD i 0) := by
    unfold spacingR
    split
    · right; rw [hsp (i + 1) (by omega), hgeo i hi]
    · left; exact hd
  have hL : spacingL g i = (r - 1) * g.getD i 0 ∨
      ∃ y, 0 < y ∧ g.getD i 0 = r * y ∧ spacingL g i = (r - 1) * y := by
    unfold spacingL
    split
    · left; exact hd
    · right
      refine ⟨g.getD (i - 1) 0, hpos (i - 1) (by omega), ?_, hsp (i - 1) (by omega)⟩
      have := hgeo (i - 1) (by omega)
      have e : i - 1 + 1 = i := by omega
      rw [e] at this; exact this
  rw [hd]
  set x := g.getD i 0 with hxdef
  have htx : 0 < (r - 1) * x := mul_pos ht hx
  rcases hR with hR | hR <;> rcases hL with hL | ⟨y, hy, hxy, hL⟩ <;> rw [hR, hL]
  · constructor <;> nlinarith
  · have hty : 0 < (r - 1) * y := mul_pos ht hy
    rw [hxy]
    constructor <;> nlinarith [mul_pos hty hr0]
  · constructor <;> nlinarith [mul_pos htx hr0]
  · have hty : 0 < (r - 1) * y := mul_pos ht hy
    rw [hxy]
    constructor
    · nlinarith [mul_nonneg (mul_pos hty hr0).le (sub_nonneg.2 hr4), mul_pos hty hr0]
    · nlinarith [mul_pos (mul_pos hty hr0) hr0, mul_pos hty hr0]

theorem pairwise_lt_of_adjacent (g : List ℝ) (h : ∀ i, i + 1 < g.length → g.getD i 0 < g.getD (i + 1) 0) :
    g.Pairwise (· < ·) := by
  apply List.isChain_iff_pairwise.1
  rw [List.isChain_iff_getElem]
  intro i hi
  have := h i hi
  rw [List.getD_eq_getElem _ _ (by omega : i < g.length), List.getD_eq_getElem _ _ hi] at this
  exact this

theorem linear_increasing (g : List ℝ) (d : ℝ) (hd0 : 0 < d) (hd : ∀ i, i + 1 < g.length → spacing g i = d) :
    g.Pairwise (· < ·) :=
  pairwise_lt_of_adjacent g (fun i hi => by have := hd i hi; unfold spacing at this; linarith)

theorem geometric_increasing (g : List ℝ) (r : ℝ) (h0 : 0 < g.getD 0 0) (hr1 : 1 < r)
    (hgeo : ∀ i, i + 1 < g.length → g.getD (i + 1) 0 = r * g.getD i 0) : g.Pairwise (· < ·) :=
  pairwise_lt_of_adjacent g (fun i hi => by
    have hp := geometric_pos g r h0 (by linarith) hgeo i (by omega)
    rw [hgeo i hi]; nlinarith)

theorem length_nativeBins_false (rows : List (Row ℝ)) (hn : 1 ≤ rows.length) :
    (nativeBins false rows).length = rows.length := by
  unfold nativeBins withWidths
  simp only [Bool.false_eq_true, if_false]
  have hl : (sortBy Row.c rows).length = rows.length := (sortBy_perm Row.c rows).length_eq
  rw [List.length_zipWith, length_widths _ (by rw [List.length_map, hl]; exact hn), List.length_map, hl]
  omega

/-- linear grids: the symmetrised mid-point bins are exactly contiguous -/
theorem linear_contiguous (g : List ℝ) (hn : 2 ≤ g.length) (d : ℝ) (hd0 : 0 < d)
    (hd : ∀ i, i + 1 < g.length → spacing g i = d) (i : Nat) (hi : i + 1 < g.length) :
    g.getD i 0 + (computeBinEdges g).2.getD i 0 / 2 = g.getD (i + 1) 0 - (computeBinEdges g).2.getD (i + 1) 0 / 2 := by
  have hg := linear_increasing g d hd0 hd
  have hw : ∀ k, k < g.length → (computeBinEdges g).2.getD k 0 = d := by
    intro k hk
    rw [getD_widths g hn hg k hk]
    have hL : spacingL g k = d := by
      unfold spacingL; split
      · exact hd k (by omega)
      · exact hd (k - 1) (by omega)
    have hR : (if k + 1 = g.length then spacing g (g.length - 2) else spacing g k) = d := by
      split
      · exact hd _ (by omega)
      · exact hd k (by omega)
    rw [hL, hR]; ring
  rw [hw i (by omega), hw (i + 1) hi]
  have := hd i hi
  unfold spacing at this
  linarith

/-- the code equals the overlap-weighted mean on mid-point bins whose spacings satisfy the local condition -/
theorem flux_midpoint_eq_spec (val : Row ℝ → ℝ) (rows : List (Row ℝ)) (a b : ℝ) (hn : 2 ≤ rows.length)
    (hg : (rows.map Row.c).Pairwise (· < ·)) (hok : MidpointSpacingOK (rows.map Row.c)) (hab : a < b)
    (hpos : 0 < sumL ((nativeBins false rows).map (overlap a b))) :
    fluxBinVal val (nativeBins false rows) a b = overlapMeanSpec val (nativeBins false rows) a b := by
  have hne : nativeBins false rows ≠ [] := by
    intro h
    have := length_nativeBins_false rows (by omega)
    rw [h] at this; simp at this; omega
  exact flux_eq_spec val _ a b hne (midpoint_ordered rows hn hg hok) (midpoint_widths_nonneg rows) hab hpos

end Taurex.Binning
