/-
  C05: mid-point widths (`compute_bin_edges`) of a strictly increasing grid, in closed form, and the
  condition on successive spacings under which the symmetrised bins `centre ∓ width/2` are "ordered bins".
-/
import Mathlib.Data.List.GetD
import Proofs.C05Flux

namespace Taurex.Binning
open List

/-- spacing `d_i = g[i+1] - g[i]` -/
noncomputable def spacing (g : List ℝ) (i : Nat) : ℝ := g.getD (i + 1) 0 - g.getD i 0

/-- the spacing on the left of interval `i` (the first interval is its own left neighbour: this is how
    `compute_bin_edges` extrapolates the first edge) -/
noncomputable def spacingL (g : List ℝ) (i : Nat) : ℝ := if i = 0 then spacing g i else spacing g (i - 1)

/-- the spacing on the right of interval `i` (the last interval is its own right neighbour) -/
noncomputable def spacingR (g : List ℝ) (i : Nat) : ℝ :=
  if i + 2 < g.length then spacing g (i + 1) else spacing g i

/-- local condition on successive spacings: neighbouring spacings differ by at most four times the spacing
    between them (`d_{i+1} ≤ 4 d_i + d_{i-1}` and `d_{i-1} ≤ 4 d_i + d_{i+1}`, with `d_{-1} := d_0`,
    `d_{n-1} := d_{n-2}` at the two ends) -/
def MidpointSpacingOK (g : List ℝ) : Prop :=
  ∀ i, i + 1 < g.length →
    spacingR g i ≤ 4 * spacing g i + spacingL g i ∧ spacingL g i ≤ 4 * spacing g i + spacingR g i

/-! ### element-wise form of `midEdges`, `diffs`, `computeBinEdges` -/

theorem getD_midEdges (g : List ℝ) : ∀ i, i + 1 < g.length →
    (midEdges g).getD i 0 = g.getD i 0 + (g.getD (i + 1) 0 - g.getD i 0) / 2 := by
  induction g with
  | nil => intro i h; simp at h
  | cons a t ih =>
    cases t with
    | nil => intro i h; simp at h
    | cons b t' =>
      intro i h
      cases i with
      | zero => simp [midEdges]
      | succ j =>
        have := ih j (by simpa using h)
        simp only [midEdges, List.getD_cons_succ] at this ⊢
        exact this

theorem getD_diffs (e : List ℝ) : ∀ i, i + 1 < e.length →
    (diffs e).getD i 0 = e.getD (i + 1) 0 - e.getD i 0 := by
  induction e with
  | nil => intro i h; simp at h
  | cons a t ih =>
    cases t with
    | nil => intro i h; simp at h
    | cons b t' =>
      intro i h
      cases i with
      | zero => simp [diffs]
      | succ j =>
        have := ih j (by simpa using h)
        simp only [diffs, List.getD_cons_succ] at this ⊢
        exact this

/-- the edges of `compute_bin_edges`, element by element -/
theorem getD_edges (g : List ℝ) (hn : 2 ≤ g.length) (j : Nat) (hj : j ≤ g.length) :
    (computeBinEdges g).1.getD j 0 =
      if j = 0 then g.getD 0 0 - spacing g 0 / 2
      else if j = g.length then g.getD (g.length - 1) 0 + spacing g (g.length - 2) / 2
      else g.getD (j - 1) 0 + spacing g (j - 1) / 2 := by
  unfold computeBinEdges spacing
  simp only
  cases j with
  | zero => simp
  | succ k =>
    rw [List.getD_cons_succ, if_neg (by omega)]
    have hlen := length_midEdges' g
    by_cases hk : k + 1 = g.length
    · rw [if_pos hk, List.getD_append_right _ _ _ _ (by rw [hlen]; omega)]
      have : k - (midEdges g).length = 0 := by rw [hlen]; omega
      rw [this, List.getD_cons_zero]
      have h2 : g.length - 2 + 1 = g.length - 1 := by omega
      rw [h2]; ring
    · rw [if_neg hk, List.getD_append _ _ _ _ (by rw [hlen]; omega), getD_midEdges g k (by omega)]
      simp
where
  length_midEdges' (g : List ℝ) : (midEdges g).length = g.length - 1 := by
    induction g with
    | nil => rfl
    | cons a t ih =>
      cases t with
      | nil => rfl
      | cons b t' => simp only [midEdges, List.length_cons] at ih ⊢; omega

end Taurex.Binning
