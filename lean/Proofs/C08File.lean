/-
  Lemmas for Props/C08.lean, input-file route: a `[Fitting]` section applied by `ParameterParser.setup_optimizer`
  (TaurexModel/FittingSection.lean), then parameters switched on through `Optimizer.enable_fit`, then `compile_params`
  (TaurexModel/OptimizerSM.lean).  Built on the C07 lemmas about the same model.
-/
import Proofs.C07FittingOrder

namespace Taurex.C08
open Taurex.Priors Taurex.OptimizerSM Taurex.FittingSection Taurex.C07

section
variable {α : Type} [LT α] [DecidableLT α] [OfNat α 0] [Mul α] [Transc α]

/-- `optimizer.enable_fit(n)` for every name of `en`, in order -/
def enableOps (en : List String) : List (Op String α) := en.map Op.enableFit

/-- a parameter tuple with the fit flag set and nothing else changed (what `enable_fit` stores) -/
def switchedOn (p : Param String α) : Param String α := { p with fit := true }

/-- a table in which the parameters named in `en` have their fit flag set and nothing else is changed -/
def enabled (en : List String) (ps : List (Param String α)) : List (Param String α) :=
  ps.map (fun p => if p.name ∈ en then switchedOn p else p)

omit [LT α] [DecidableLT α] [OfNat α 0] [Mul α] [Transc α] in
theorem enabled_modify (n : String) (en : List String) (ps : List (Param String α)) :
    enabled en (modifyParam ps n (fun p => { p with fit := true })) = enabled (n :: en) ps := by
  unfold enabled modifyParam switchedOn
  rw [List.map_map]
  apply List.map_congr_left
  intro p _
  by_cases h : p.name = n
  · simp [h]
  · by_cases h2 : p.name ∈ en <;> simp [h, h2]

omit [LT α] [DecidableLT α] [OfNat α 0] [Mul α] [Transc α] in
theorem enabled_not_mem (n : String) (en : List String) (ps : List (Param String α)) (hn : n ∉ names ps) :
    enabled (n :: en) ps = enabled en ps := by
  unfold enabled
  apply List.map_congr_left
  intro p hp
  have : p.name ≠ n := fun e => hn (e ▸ List.mem_map_of_mem (f := fun q : Param String α => q.name) hp)
  simp [this]

/-- after `enable_fit` calls (known or unknown names) the settings are the old ones with the fit flags of the named
    parameters set -/
theorem settings_run_enable : ∀ (en : List String) (s : St String α), WF s →
    (run s (enableOps en)).model = enabled en s.model ∧ (run s (enableOps en)).obs = enabled en s.obs ∧
    (run s (enableOps en)).dmodel = s.dmodel ∧ (run s (enableOps en)).dobs = s.dobs ∧
    (run s (enableOps en)).userPriors = s.userPriors
  | [], s, _ => by simp [enableOps, run, enabled]
  | n :: en, s, hw => by
    have hrun : run s (enableOps (n :: en)) = run (step s (.enableFit n)).1 (enableOps en) := rfl
    rw [hrun]
    by_cases hk : Known s n
    · have hs : step s (.enableFit n) = (applyEff s n (fun p => { p with fit := true }), .ok) :=
        withParam_known s hw n _ hk
      rw [hs]
      have hw' : WF (applyEff s n (fun p : Param String α => { p with fit := true })) :=
        WF_of_tableNames (applyEff_names s n _ (fun _ => rfl)) hw
      obtain ⟨h1, h2, h3, h4, h5⟩ := settings_run_enable en _ hw'
      refine ⟨?_, ?_, h3, h4, h5⟩
      · rw [h1]; exact enabled_modify n en s.model
      · rw [h2]; exact enabled_modify n en s.obs
    · have hs : step s (.enableFit n) = (s, .keyError) := withParam_unknown s n _ hk
      rw [hs]
      obtain ⟨h1, h2, h3, h4, h5⟩ := settings_run_enable en s hw
      refine ⟨?_, ?_, h3, h4, h5⟩
      · rw [h1, enabled_not_mem n en s.model (fun h => hk (Or.inl h))]
      · rw [h2, enabled_not_mem n en s.obs (fun h => hk (Or.inr h))]

/-- the settings an input file describes, with the parameters of `en` switched on afterwards -/
def fileSettings (s : St String α) (grp : List (String × Rec α)) (drecs : List (String × Option (OptVal α)))
    (en : List String) : Settings String α :=
  ⟨enabled en (describeTable grp s.model), enabled en (describeTable grp s.obs), describeDerived drecs s.dmodel,
   describeDerived drecs s.dobs, describePriors grp⟩

/-- set-up from a file, `enable_fit` calls, `compile_params`: what is compiled is `implied` of the file's settings with
    those parameters switched on -/
theorem setup_enable_compile (mkPrior : OptVal α → Option (Prior α)) (s : St String α) (hw : WF s) (hd : DisjD s)
    (hu : s.userPriors = []) (fitting derive : List (String × OptVal α))
    (hok : (setupOptimizer mkPrior s fitting derive).2.1 = .ok) (en : List String) :
    ∃ grp dl, parseFitting mkPrior fitting [] = .ok grp ∧ splitAll derive = some dl ∧ (gkeys grp).Nodup ∧
      (view (step (run (setupOptimizer mkPrior s fitting derive).1 (enableOps en)) .compile).1,
       (step (run (setupOptimizer mkPrior s fitting derive).1 (enableOps en)) .compile).2) =
        implied (fileSettings s grp (deriveRecs dl []) en) := by
  obtain ⟨grp, dl, hp, hsd, hset, hw1⟩ := setup_ok_settings mkPrior s hw hd hu fitting derive hok
  refine ⟨grp, dl, hp, hsd, nodup_parseFitting mkPrior fitting [] grp (by simp [gkeys]) hp, ?_⟩
  have hc := compile_eq_implied (run (setupOptimizer mkPrior s fitting derive).1 (enableOps en))
    (WF_run _ _ hw1)
  obtain ⟨h1, h2, h3, h4, h5⟩ := settings_run_enable en (setupOptimizer mkPrior s fitting derive).1 hw1
  have hs : settings (run (setupOptimizer mkPrior s fitting derive).1 (enableOps en)) =
      fileSettings s grp (deriveRecs dl []) en := by
    have e1 : (setupOptimizer mkPrior s fitting derive).1.model = describeTable grp s.model := by
      have := congrArg Settings.model hset; simpa [settings, sectionSettings] using this
    have e2 : (setupOptimizer mkPrior s fitting derive).1.obs = describeTable grp s.obs := by
      have := congrArg Settings.obs hset; simpa [settings, sectionSettings] using this
    have e3 : (setupOptimizer mkPrior s fitting derive).1.dmodel = describeDerived (deriveRecs dl []) s.dmodel := by
      have := congrArg Settings.dmodel hset; simpa [settings, sectionSettings] using this
    have e4 : (setupOptimizer mkPrior s fitting derive).1.dobs = describeDerived (deriveRecs dl []) s.dobs := by
      have := congrArg Settings.dobs hset; simpa [settings, sectionSettings] using this
    have e5 : (setupOptimizer mkPrior s fitting derive).1.userPriors = describePriors grp := by
      have := congrArg Settings.userPriors hset; simpa [settings, sectionSettings] using this
    simp only [settings, fileSettings, h1, h2, h3, h4, h5, e1, e2, e3, e4, e5]
  rw [← hs]
  exact hc

/-- the row `implied` gives a fitted parameter the file mentions: the prior written for it as text if there is one,
    else the default prior of the mode and bounds the file describes for it -/
theorem impliedRow_described (grp : List (String × Rec α)) (hnd : (gkeys grp).Nodup) (o : Owner) (p : Param String α)
    (r : Rec α) (hr : getRec grp p.name = some r) :
    (∀ pr, r.prior = some pr →
      impliedRow (describePriors grp) o (switchedOn (describeParam r p)) = some (entryOf o (describeParam r p), pr)) ∧
    (r.prior = none →
      impliedRow (describePriors grp) o (switchedOn (describeParam r p)) =
        (defaultPrior (describeParam r p).mode (describeParam r p).b0 (describeParam r p).b1).map
          (fun pr => (entryOf o (describeParam r p), pr))) := by
  unfold impliedRow switchedOn
  have hn : (describeParam r p).name = p.name := describeParam_name r p
  simp only [hn, tget_describePriors grp hnd p.name, hr, Option.bind_some]
  constructor
  · intro pr hpr; simp [hpr, entryOf, hn]
  · intro hpr; simp [hpr, entryOf, hn]

end

end Taurex.C08
