/-
  C17: the concrete instance used by the non-vacuity examples of `Props/C17.lean`.
-/
import Proofs.C17Obs

namespace Taurex.C17
open Taurex.Observation Taurex.Binning List

/-- three rows (wavelength, value, error, width), given in two different orders -/
noncomputable def nvA : List (ORow ℝ) := [⟨2, 20, 2, 1⟩, ⟨4, 40, 4, 2⟩, ⟨1, 10, 1, 1 / 2⟩]
noncomputable def nvB : List (ORow ℝ) := [⟨1, 10, 1, 1 / 2⟩, ⟨2, 20, 2, 1⟩, ⟨4, 40, 4, 2⟩]

theorem nv_perm : nvA ~ nvB := by
  show ([(⟨2, 20, 2, 1⟩ : ORow ℝ), ⟨4, 40, 4, 2⟩] ++ [⟨1, 10, 1, 1 / 2⟩]) ~
    ([(⟨1, 10, 1, 1 / 2⟩ : ORow ℝ)] ++ [⟨2, 20, 2, 1⟩, ⟨4, 40, 4, 2⟩])
  exact List.perm_append_comm

theorem nv_nodup : (nvA.map ORow.wl).Nodup := by norm_num [nvA]
theorem nv_pos : ∀ r ∈ nvA, 0 < r.wl := by
  intro r hr
  simp only [nvA, List.mem_cons, List.not_mem_nil, or_false] at hr
  rcases hr with rfl | rfl | rfl <;> norm_num

end Taurex.C17
