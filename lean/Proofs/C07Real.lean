/-
  Helper lemmas for Props/C07.lean, part 3: the only place where real analysis is needed — writing the reported
  values back is the identity (`10 ^ (log10 v) = v` for `0 < v`) — and the regression witness for the pre-fix
  prior cache.
-/
import Proofs.RealInst
import Proofs.C07Update

namespace Taurex.C07
open Taurex.Priors Taurex.OptimizerSM

theorem pow10_log10 (v : ℝ) (hv : 0 < v) : (pow10 (log10 v : ℝ) : ℝ) = v := by
  simp only [pow10_real, log10_real]
  have h10 : (0 : ℝ) < 10 := by norm_num
  have hl : Real.log 10 ≠ 0 := by
    have : (0 : ℝ) < Real.log 10 := Real.log_pos (by norm_num)
    exact ne_of_gt this
  rw [Real.rpow_def_of_pos h10, mul_div_cancel₀ _ hl, Real.exp_log hv]

section
variable {ν : Type} [DecidableEq ν]

/-- a reported value, pushed back through the prior, is the stored value -/
theorem back_reportValue (s : St ν ℝ) (e : Entry ν ℝ) (p : Prior ℝ) (x : ℝ) (h : reportValue s e p = some x) :
    getValue s e.owner e.name = some (p.back x) := by
  unfold reportValue at h
  cases hg : getValue s e.owner e.name with
  | none => simp [hg] at h
  | some v =>
    simp only [hg] at h
    unfold Prior.back
    cases hm : p.mode with
    | linear => simp only [hm] at h ⊢; exact h
    | log =>
      simp only [hm] at h ⊢
      unfold log10? at h
      split at h
      · rename_i hv
        simp only [Option.some.injEq] at h
        rw [← h, pow10_log10 v hv]
      · simp at h

theorem applyUpdate_writeback (s : St ν ℝ) (hw : WF s) : ∀ (es : List (Entry ν ℝ)) (ps : List (Prior ℝ)) (xs : List ℝ),
    fitValuesAux s es ps = some xs → applyUpdate s es ps xs = s := by
  intro es
  induction es with
  | nil => intro ps xs _; simp [applyUpdate]
  | cons e es ih =>
    intro ps xs h
    cases ps with
    | nil => simp [applyUpdate]
    | cons p ps =>
      simp only [fitValuesAux] at h
      cases hr : reportValue s e p with
      | none => simp [hr] at h
      | some x =>
        cases hf : fitValuesAux s es ps with
        | none => simp [hr, hf] at h
        | some xs' =>
          simp only [hr, hf, Option.some.injEq] at h
          subst h
          simp only [applyUpdate]
          have hnd : (names (table s e.owner)).Nodup := by
            cases e.owner
            · exact hw.model
            · exact hw.obs
          rw [setValue_same s e.owner e.name _ hnd (back_reportValue s e p x hr)]
          exact ih ps xs' hf

theorem fitValuesAux_length (s : St ν ℝ) : ∀ (es : List (Entry ν ℝ)) (ps : List (Prior ℝ)) (xs : List ℝ),
    es.length = ps.length → fitValuesAux s es ps = some xs → xs.length = es.length := by
  intro es
  induction es with
  | nil => intro ps xs _ h; cases ps <;> simp [fitValuesAux] at h <;> simp [h]
  | cons e es ih =>
    intro ps xs hl h
    cases ps with
    | nil => simp at hl
    | cons p ps =>
      simp only [fitValuesAux] at h
      cases hr : reportValue s e p with
      | none => simp [hr] at h
      | some x =>
        cases hf : fitValuesAux s es ps with
        | none => simp [hr, hf] at h
        | some xs' =>
          simp only [hr, hf, Option.some.injEq] at h
          subst h
          simp [ih ps xs' (by simpa using hl) hf]

end

end Taurex.C07
