/-
  C16 — source tie, `HDF5OutputGroup.write_array` / `write_string_array`: the oracle for h5py as these two methods use it.

  Objects: the output group `grp p` (its attribute `_entry` is the h5py group `entry p`), a numeric array `nd a` (with
  `.shape`, `.dtype`), the `bytes` a string encodes to (`bytes cps`: `len` is the UTF-8 size `Output.utf8Size`), the created
  dataset.  The state is the log of created datasets (`Proofs/C16SrcStore.lean`).  `entry.create_dataset(name, data=array,
  shape=…, dtype=…)` creates the numeric dataset; `entry.create_dataset(name, (n, 1), 'S<w>', cells)` creates the fixed-width
  string dataset `Output.stringNode` — the oracle only accepts the shape `(len(cells), 1)` and the format `S<w>` for
  `w = Output.cellWidth` of the cells (h5py would truncate / pad for any other width: outside the model).
-/
import Proofs.C16SrcStore
set_option linter.unusedSectionVars false
set_option linter.unusedVariables false
set_option linter.unusedSimpArgs false

namespace Taurex.C16Src
open Taurex.Gen Taurex.Gen.Dyn
open Taurex.Output (Value Node Arr ArrData Err OfInt stringNode cellWidth utf8Size sCell writeArray subKey)

inductive HObj (α : Type) where
  | grp (path : List String)
  | entry (path : List String)
  | nd (a : Arr α)
  | bytes (cps : List Nat)
  | shape
  | dtype
  | ds

instance {α : Type} : BEq (HObj α) := ⟨fun _ _ => false⟩

abbrev HV (α : Type) := Dyn.Val α (HObj α)

section
variable {α : Type}

structure HWorld (α : Type) where
  enc : List Nat → String
  dec : String → List Nat

def HWorldOK (w : HWorld α) : Prop := ∀ s, w.dec (w.enc s) = s

def unBytes : HV α → Option (List Nat)
  | .obj (.bytes c) => some c
  | _ => none

def HWorld.ext (w : HWorld α) : Ext (SM α) α (HObj α) where
  global _ := throw .NameError
  getattr o name :=
    match o with
    | .grp p => if name = "_entry" then pure (.obj (.entry p)) else throw .AttributeError
    | .nd _ => if name = "shape" then pure (.obj .shape) else if name = "dtype" then pure (.obj .dtype)
               else throw .AttributeError
    | _ => throw .AttributeError
  call _ _ _ := throw .TypeError
  method o name args kw :=
    match o with
    | .entry p =>
      if name = "create_dataset" then
        match args, kw with
        | [.str nm], [(k1, .obj (.nd a)), (k2, .obj .shape), (k3, .obj .dtype)] =>
          if k1 = "data" ∧ k2 = "shape" ∧ k3 = "dtype" then fun s => (.ok (.obj .ds), s ++ [(p, nm, .num a)])
          else throw .TypeError
        | [.str nm, .tuple [.int n, .int 1], .str fmt, .list cells], [] =>
          match cells.mapM unBytes with
          | some strs =>
            if n = (strs.length : Int) ∧ fmt = "S" ++ toString (cellWidth strs) then
              fun s => (.ok (.obj .ds), s ++ [(p, nm, stringNode strs)])
            else throw .TypeError
          | none => throw .TypeError
        | _, _ => throw .TypeError
      else throw .AttributeError
    | _ => throw .AttributeError
  isinst _ _ := false
  iter _ := throw .TypeError
  truthy _ := pure true
  op name args :=
    if name = "method:encode" then
      match args with
      | [.str s, .str "utf-8"] => pure (.obj (.bytes (w.dec s)))
      | _ => throw .AttributeError
    else if name = "len" then
      match args with
      | [.obj (.bytes c)] => pure (.int (utf8Size c))
      | _ => throw .TypeError
    else throw .TypeError
  parseFloat _ := none

/-- an element of the list handed to `write_array` -/
def arrVal : Value α → HV α
  | .array a => .obj (.nd a)
  | _ => .none

/-- an array / a list of arrays as the value handed to `write_array` -/
def embA : Value α → HV α
  | .array a => .obj (.nd a)
  | .list l => .list (l.map arrVal)
  | _ => .none

/-! ## lemmas -/

section
variable [FloatLike α]

theorem h_entry (w : HWorld α) (p : List String) (s : Log α) :
    w.ext.getattr (.grp p) "_entry" s = (.ok (.obj (.entry p)), s) := rfl
theorem h_shape (w : HWorld α) (a : Arr α) (s : Log α) :
    w.ext.getattr (.nd a) "shape" s = (.ok (.obj .shape), s) := rfl
theorem h_dtype (w : HWorld α) (a : Arr α) (s : Log α) :
    w.ext.getattr (.nd a) "dtype" s = (.ok (.obj .dtype), s) := rfl
theorem h_create (w : HWorld α) (p : List String) (nm : String) (a : Arr α) (s : Log α) :
    w.ext.method (.entry p) "create_dataset" [.str nm]
        [("data", .obj (.nd a)), ("shape", .obj .shape), ("dtype", .obj .dtype)] s
      = (.ok (.obj .ds), s ++ [(p, nm, .num a)]) := by
  simp [HWorld.ext]

/-- one array: `self._entry.create_dataset(str(name), data=array, shape=array.shape, dtype=array.dtype)` -/
theorem write_array_leaf (w : HWorld α) (fuel : Nat) (p : List String) (name : String) (a : Arr α) (s : Log α) :
    SrcC16.write_array w.ext (fuel + 1) (.obj (.grp p)) (.str name) (.obj (.nd a)) .none s
      = (.ok .none, s ++ [(p, name, .num a)]) := by
  unfold SrcC16.write_array
  simp only [Dyn.Val.isTy, Bool.false_eq_true, if_false, eff_bind, Dyn.getAttr, h_entry, Dyn.str_, eff_pure, h_shape,
    h_dtype, Dyn.callMethod, h_create, Dyn.truthy]
  rfl

theorem hformat_key (w : HWorld α) (key : String) (i : Nat) (s : Log α) :
    Dyn.m_format w.ext ["", "", ""] [Dyn.Val.str key, Dyn.Val.int (i : Int)] s = (.ok (.str (subKey key i)), s) := by
  simp [Dyn.m_format, Dyn.mapM, Dyn.str_, eff_bind, Dyn.formatParts, subKey, Dyn.intStr]
  rfl

/-- the element loop of `write_array` on a list of arrays: `Output.writeArray.go` -/
theorem forM_arrays (w : HWorld α) (fuel : Nat) (p : List String) (name : String) (body : Unit → HV α → SM α Unit)
    (hb : ∀ (i : Nat) (x : HV α) (s : Log α), body () (.tuple [.int (i : Int), x]) s
        = (SrcC16.write_array w.ext (fuel + 1) (.obj (.grp p)) (.str (subKey name i)) x .none >>= fun _ => pure ()) s) :
    ∀ (l : List (Value α)) (i : Nat) (s : Log α) (es : List (String × Node α)), writeArray.go name i l = some es →
      Dyn.forM (enumFrom i (l.map arrVal)) () body s
        = (.ok (), s ++ es.map (fun e => (p, e.1, e.2)))
  | [], i, s, es, h => by
    simp only [writeArray.go, Option.some.injEq] at h
    subst h
    simp [enumFrom, Dyn.forM]
  | v :: vs, i, s, es, h => by
    cases v with
    | array a =>
      simp only [writeArray.go, Option.map_eq_some_iff] at h
      obtain ⟨r, hr, he⟩ := h
      subst he
      have ih := forM_arrays w fuel p name body hb vs (i + 1) (s ++ [(p, subKey name i, .num a)]) r hr
      simp only [List.map_cons, enumFrom, Dyn.forM, arrVal]
      rw [eff_bind, hb, eff_bind, write_array_leaf]
      simp only [eff_pure, ih, List.map_cons, List.append_assoc, List.cons_append, List.nil_append]
    | _ => simp [writeArray.go] at h


theorem foldl_max_comm (l : List Nat) (a m : Nat) : max (l.foldl max a) m = l.foldl max (max m a) := by
  induction l generalizing a m with
  | nil => simp [Nat.max_comm]
  | cons x t ih =>
    simp only [List.foldl_cons]
    rw [ih (max a x) m, Nat.max_assoc]

/-- `max([w0] + sizes)` of non-negative ints -/
theorem maxInts_fold (l : List Nat) (m : Nat) :
    maxInts ((m :: l).map (fun n : Nat => (Dyn.Val.int (n : Int) : HV α))) = some ((l.foldl max m : Nat) : Int) := by
  induction l generalizing m with
  | nil => rfl
  | cons a t ih =>
    have h1 := ih a
    simp only [List.map_cons] at h1 ⊢
    simp only [maxInts, h1, Option.map_some, List.foldl_cons]
    congr 1
    rw [← foldl_max_comm t a m]
    by_cases h : (t.foldl max a : Nat) > m
    · have : ((t.foldl max a : Nat) : Int) > (m : Int) := by exact_mod_cast h
      simp only [this, if_true]
      congr 1
      omega
    · have : ¬ ((t.foldl max a : Nat) : Int) > (m : Int) := by
        intro h'; exact h (by exact_mod_cast h')
      simp only [this, if_false]
      congr 1
      omega



end

end
end Taurex.C16Src
