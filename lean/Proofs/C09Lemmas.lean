/-
  Helper lemmas for the C09 property theorems (posterior summaries), over the real carrier.
-/
import Proofs.RealInst
import TaurexModel.Posterior
import Mathlib.Tactic.Linarith
import Mathlib.Tactic.Positivity
import Mathlib.Tactic.FieldSimp
import Mathlib.Tactic.Ring

namespace Taurex.C09
open Taurex.Posterior

/-! ### sums -/

theorem foldl_add (l : List ℝ) (a : ℝ) : l.foldl (fun acc x => acc + x) a = a + l.sum := by
  induction l generalizing a with
  | nil => simp
  | cons x xs ih => simp [List.foldl_cons, ih, add_assoc]

theorem sumL_eq (l : List ℝ) : sumL l = l.sum := by
  simp [sumL, foldl_add]

/-! ### the stable insertion sort -/

theorem insertBy_perm (p : ℝ × ℝ) (l : List (ℝ × ℝ)) : (insertBy p l).Perm (p :: l) := by
  induction l with
  | nil => simp [insertBy]
  | cons q qs ih =>
    unfold insertBy
    split
    · exact (List.Perm.cons q ih).trans (List.Perm.swap p q qs)
    · exact List.Perm.refl _

theorem sortPairs_perm (l : List (ℝ × ℝ)) : (sortPairs l).Perm l := by
  induction l with
  | nil => simp [sortPairs]
  | cons p ps ih =>
    unfold sortPairs
    exact (insertBy_perm p _).trans (List.Perm.cons p ih)

theorem mem_insertBy {p b : ℝ × ℝ} {l : List (ℝ × ℝ)} : b ∈ insertBy p l ↔ b = p ∨ b ∈ l := by
  rw [(insertBy_perm p l).mem_iff]; simp

/-- sorted by value -/
def ByVal (a b : ℝ × ℝ) : Prop := a.1 ≤ b.1

theorem insertBy_sorted (p : ℝ × ℝ) (l : List (ℝ × ℝ)) (h : l.Pairwise ByVal) :
    (insertBy p l).Pairwise ByVal := by
  induction l with
  | nil => simp [insertBy]
  | cons q qs ih =>
    unfold insertBy
    rw [List.pairwise_cons] at h
    split
    · rename_i hlt
      rw [List.pairwise_cons]
      refine ⟨?_, ih h.2⟩
      intro b hb
      rcases mem_insertBy.1 hb with rfl | hb
      · exact le_of_lt hlt
      · exact h.1 b hb
    · rename_i hnlt
      have hpq : p.1 ≤ q.1 := not_lt.1 hnlt
      rw [List.pairwise_cons]
      refine ⟨?_, List.pairwise_cons.2 h⟩
      intro b hb
      rcases List.mem_cons.1 hb with rfl | hb
      · exact hpq
      · exact le_trans hpq (h.1 b hb)

theorem sortPairs_sorted (l : List (ℝ × ℝ)) : (sortPairs l).Pairwise ByVal := by
  induction l with
  | nil => simp [sortPairs]
  | cons p ps ih => unfold sortPairs; exact insertBy_sorted p _ ih

theorem sortPairs_length (l : List (ℝ × ℝ)) : (sortPairs l).length = l.length :=
  (sortPairs_perm l).length_eq

/-- with distinct values the sorted list does not depend on the input order -/
theorem sortPairs_perm_eq {l₁ l₂ : List (ℝ × ℝ)} (hp : l₁.Perm l₂) (hd : (l₁.map Prod.fst).Nodup) :
    sortPairs l₁ = sortPairs l₂ := by
  have hperm : (sortPairs l₁).Perm (sortPairs l₂) :=
    (sortPairs_perm l₁).trans (hp.trans (sortPairs_perm l₂).symm)
  refine List.Perm.eq_of_pairwise ?_ (sortPairs_sorted l₁) (sortPairs_sorted l₂) hperm
  intro a b ha hb hab hba
  have ha1 : a ∈ l₁ := (sortPairs_perm l₁).mem_iff.1 ha
  have hb1 : b ∈ l₁ := hp.mem_iff.2 ((sortPairs_perm l₂).mem_iff.1 hb)
  have hfst : a.1 = b.1 := le_antisymm hab hba
  exact List.inj_on_of_nodup_map hd ha1 hb1 hfst

/-! ### running sums -/

theorem cumsum_length (a : ℝ) (l : List ℝ) : (cumsum a l).length = l.length := by
  induction l generalizing a with
  | nil => simp [cumsum]
  | cons w ws ih => simp [cumsum, ih]

theorem cdfOf_length (l : List ℝ) : (cdfOf l).length = l.length := by
  simp [cdfOf, cumsum_length]

/-! ### `np.interp` -/

/-- every result lies above a lower bound of the node values -/
theorem interpPairs_ge (x lo : ℝ) : ∀ (ps : List (ℝ × ℝ)), ps ≠ [] → (∀ p ∈ ps, lo ≤ p.2) →
    lo ≤ interpPairs x ps := by
  intro ps
  induction ps with
  | nil => intro h; exact absurd rfl h
  | cons p0 rest ih =>
    intro _ hlo
    cases rest with
    | nil => simpa [interpPairs] using hlo p0 (by simp)
    | cons p1 ps =>
      unfold interpPairs
      have h0 : lo ≤ p0.2 := hlo p0 (by simp)
      have h1 : lo ≤ p1.2 := hlo p1 (by simp)
      split
      · exact ih (by simp) (fun p hp => hlo p (List.mem_cons_of_mem _ hp))
      · rename_i hnle
        split
        · rename_i hlt
          have hx1 : x < p1.1 := not_le.1 hnle
          have hd : 0 < p1.1 - p0.1 := by linarith
          have ht0 : 0 ≤ (x - p0.1) / (p1.1 - p0.1) := div_nonneg (by linarith) hd.le
          have ht1 : (x - p0.1) / (p1.1 - p0.1) ≤ 1 := by rw [div_le_one hd]; linarith
          have e : (p1.2 - p0.2) / (p1.1 - p0.1) * (x - p0.1) + p0.2 =
              (1 - (x - p0.1) / (p1.1 - p0.1)) * p0.2 + (x - p0.1) / (p1.1 - p0.1) * p1.2 := by
            field_simp
            ring
          rw [e]
          nlinarith [mul_nonneg ht0 (sub_nonneg.2 h1), mul_nonneg (sub_nonneg.2 ht1) (sub_nonneg.2 h0)]
        · exact h0

/-- every result lies below an upper bound of the node values -/
theorem interpPairs_le (x hi : ℝ) : ∀ (ps : List (ℝ × ℝ)), ps ≠ [] → (∀ p ∈ ps, p.2 ≤ hi) →
    interpPairs x ps ≤ hi := by
  intro ps
  induction ps with
  | nil => intro h; exact absurd rfl h
  | cons p0 rest ih =>
    intro _ hlo
    cases rest with
    | nil => simpa [interpPairs] using hlo p0 (by simp)
    | cons p1 ps =>
      unfold interpPairs
      have h0 : p0.2 ≤ hi := hlo p0 (by simp)
      have h1 : p1.2 ≤ hi := hlo p1 (by simp)
      split
      · exact ih (by simp) (fun p hp => hlo p (List.mem_cons_of_mem _ hp))
      · rename_i hnle
        split
        · rename_i hlt
          have hx1 : x < p1.1 := not_le.1 hnle
          have hd : 0 < p1.1 - p0.1 := by linarith
          have ht0 : 0 ≤ (x - p0.1) / (p1.1 - p0.1) := div_nonneg (by linarith) hd.le
          have ht1 : (x - p0.1) / (p1.1 - p0.1) ≤ 1 := by rw [div_le_one hd]; linarith
          have e : (p1.2 - p0.2) / (p1.1 - p0.1) * (x - p0.1) + p0.2 =
              (1 - (x - p0.1) / (p1.1 - p0.1)) * p0.2 + (x - p0.1) / (p1.1 - p0.1) * p1.2 := by
            field_simp
            ring
          rw [e]
          nlinarith [mul_nonneg ht0 (sub_nonneg.2 h1), mul_nonneg (sub_nonneg.2 ht1) (sub_nonneg.2 h0)]
        · exact h0

/-- node values non-decreasing along the list -/
def ValSorted (ps : List (ℝ × ℝ)) : Prop := ps.Pairwise (fun a b => a.2 ≤ b.2)

theorem interpPairs_ge_head (x : ℝ) (p0 : ℝ × ℝ) (ps : List (ℝ × ℝ)) (h : ValSorted (p0 :: ps)) :
    p0.2 ≤ interpPairs x (p0 :: ps) := by
  refine interpPairs_ge x p0.2 _ (by simp) ?_
  intro p hp
  rcases List.mem_cons.1 hp with rfl | hp
  · exact le_refl _
  · exact (List.pairwise_cons.1 h).1 p hp

/-- `np.interp` is non-decreasing in `x` when the node values are non-decreasing -/
theorem interpPairs_mono {x y : ℝ} (hxy : x ≤ y) : ∀ (ps : List (ℝ × ℝ)), ValSorted ps →
    interpPairs x ps ≤ interpPairs y ps := by
  intro ps
  induction ps with
  | nil => intro _; simp [interpPairs]
  | cons p0 rest ih =>
    intro hs
    cases rest with
    | nil => simp [interpPairs]
    | cons p1 ps =>
      have hs' : ValSorted (p1 :: ps) := (List.pairwise_cons.1 hs).2
      have h01 : p0.2 ≤ p1.2 := (List.pairwise_cons.1 hs).1 p1 (by simp)
      by_cases hx : p1.1 ≤ x
      · have hy : p1.1 ≤ y := le_trans hx hxy
        rw [interpPairs, if_pos hx, interpPairs, if_pos hy]
        exact ih hs'
      · have hx1 : x < p1.1 := not_le.1 hx
        -- the left value is at most the right node of the cell
        have hL : interpPairs x (p0 :: p1 :: ps) ≤ p1.2 := by
          rw [interpPairs, if_neg hx]
          split
          · rename_i hlt
            have hd : 0 < p1.1 - p0.1 := by linarith
            have ht1 : (x - p0.1) / (p1.1 - p0.1) ≤ 1 := by rw [div_le_one hd]; linarith
            have e : (p1.2 - p0.2) / (p1.1 - p0.1) * (x - p0.1) + p0.2 =
                p0.2 + (x - p0.1) / (p1.1 - p0.1) * (p1.2 - p0.2) := by
              field_simp
              ring
            rw [e]
            nlinarith [mul_le_mul_of_nonneg_right ht1 (sub_nonneg.2 h01)]
          · exact h01
        by_cases hy : p1.1 ≤ y
        · have hR : p1.2 ≤ interpPairs y (p0 :: p1 :: ps) := by
            rw [interpPairs, if_pos hy]
            exact interpPairs_ge_head y p1 ps hs'
          exact le_trans hL hR
        · have hy1 : y < p1.1 := not_le.1 hy
          rw [interpPairs, if_neg hx, interpPairs, if_neg hy]
          by_cases hx0 : p0.1 < x
          · have hy0 : p0.1 < y := lt_of_lt_of_le hx0 hxy
            rw [if_pos hx0, if_pos hy0]
            have hd : 0 < p1.1 - p0.1 := by linarith
            have hsl : 0 ≤ (p1.2 - p0.2) / (p1.1 - p0.1) := div_nonneg (sub_nonneg.2 h01) hd.le
            nlinarith [mul_le_mul_of_nonneg_left (sub_le_sub_right hxy p0.1) hsl]
          · rw [if_neg hx0]
            by_cases hy0 : p0.1 < y
            · rw [if_pos hy0]
              have hd : 0 < p1.1 - p0.1 := by linarith
              have hsl : 0 ≤ (p1.2 - p0.2) / (p1.1 - p0.1) := div_nonneg (sub_nonneg.2 h01) hd.le
              nlinarith [mul_nonneg hsl (sub_nonneg.2 hy0.le)]
            · rw [if_neg hy0]

/-! ### `interpPairs` is `np.interp`: the cell is the last one whose left node is `≤ x` -/

/-- abscissae non-decreasing -/
def AbsSorted (ps : List (ℝ × ℝ)) : Prop := ps.Pairwise (fun a b => a.1 ≤ b.1)

/-- inside the grid: if `a`, `b` are consecutive nodes with `a.1 ≤ x < b.1` (so `a` is the last node `≤ x`), the
    result is the linear interpolant of the cell, or `a.2` exactly at the node -/
theorem interpPairs_cell (x : ℝ) (a b : ℝ × ℝ) (post : List (ℝ × ℝ)) (ha : a.1 ≤ x) (hb : x < b.1) :
    ∀ (pre : List (ℝ × ℝ)), AbsSorted (pre ++ a :: b :: post) →
    interpPairs x (pre ++ a :: b :: post) =
      if a.1 < x then ((b.2 - a.2) / (b.1 - a.1)) * (x - a.1) + a.2 else a.2 := by
  intro pre
  induction pre with
  | nil =>
    intro _
    rw [List.nil_append, interpPairs, if_neg (not_le.2 hb)]
  | cons c pre' ih =>
    intro hs
    have hs' : AbsSorted (pre' ++ a :: b :: post) := (List.pairwise_cons.1 hs).2
    cases pre' with
    | nil =>
      rw [List.cons_append, List.nil_append, interpPairs, if_pos ha]
      exact ih hs'
    | cons d pre'' =>
      have hda : d.1 ≤ a.1 := by
        have := (List.pairwise_cons.1 hs').1 a (by simp)
        exact this
      rw [List.cons_append, List.cons_append, interpPairs, if_pos (le_trans hda ha)]
      exact ih hs'

/-- right of the grid (every abscissa `≤ x`): the value of the last node -/
theorem interpPairs_right (x : ℝ) : ∀ (ps : List (ℝ × ℝ)) (hne : ps ≠ []), (∀ p ∈ ps, p.1 ≤ x) →
    interpPairs x ps = (ps.getLast hne).2 := by
  intro ps
  induction ps with
  | nil => intro h; exact absurd rfl h
  | cons p0 rest ih =>
    intro hne hall
    cases rest with
    | nil => simp [interpPairs]
    | cons p1 ps =>
      rw [interpPairs, if_pos (hall p1 (by simp)), List.getLast_cons (by simp)]
      exact ih (by simp) (fun p hp => hall p (List.mem_cons_of_mem _ hp))

/-- left of the grid: the value of the first node -/
theorem interpPairs_left (x : ℝ) (a : ℝ × ℝ) (rest : List (ℝ × ℝ)) (hs : AbsSorted (a :: rest)) (hx : x < a.1) :
    interpPairs x (a :: rest) = a.2 := by
  cases rest with
  | nil => simp [interpPairs]
  | cons b ps =>
    have hab : a.1 ≤ b.1 := (List.pairwise_cons.1 hs).1 b (by simp)
    rw [interpPairs, if_neg (not_le.2 (lt_of_lt_of_le hx hab)), if_neg (not_lt.2 hx.le)]

/-- with strictly increasing abscissae every node is reproduced exactly -/
theorem interpPairs_node : ∀ (ps : List (ℝ × ℝ)), ps.Pairwise (fun a b => a.1 < b.1) → ∀ p ∈ ps,
    interpPairs p.1 ps = p.2 := by
  intro ps
  induction ps with
  | nil => intro _ p hp; simp at hp
  | cons p0 rest ih =>
    intro hs p hp
    cases rest with
    | nil =>
      have : p = p0 := by simpa using hp
      subst this; simp [interpPairs]
    | cons p1 ps =>
      have h01 : p0.1 < p1.1 := (List.pairwise_cons.1 hs).1 p1 (by simp)
      have hs' := (List.pairwise_cons.1 hs).2
      by_cases h : p1.1 ≤ p.1
      · have hne : p ≠ p0 := by
          rintro rfl
          exact absurd (lt_of_lt_of_le h01 h) (lt_irrefl _)
        have hp' : p ∈ p1 :: ps := by
          rcases List.mem_cons.1 hp with h0 | h0
          · exact absurd h0 hne
          · exact h0
        rw [interpPairs, if_pos h]
        exact ih hs' p hp'
      · have hp0 : p = p0 := by
          rcases List.mem_cons.1 hp with h0 | h0
          · exact h0
          · exfalso
            rcases List.mem_cons.1 h0 with h1 | h1
            · exact h (by rw [h1])
            · exact h (le_of_lt ((List.pairwise_cons.1 hs').1 p h1))
        subst hp0
        rw [interpPairs, if_neg h, if_neg (lt_irrefl _)]

/-! ### running sums of positive weights increase strictly -/

theorem cumsum_gt (a : ℝ) : ∀ (ws : List ℝ), (∀ w ∈ ws, 0 < w) → ∀ c ∈ cumsum a ws, a < c := by
  intro ws
  induction ws generalizing a with
  | nil => intro _ c hc; simp [cumsum] at hc
  | cons w ws ih =>
    intro hw c hc
    have hw0 : 0 < w := hw w (by simp)
    simp only [cumsum, List.mem_cons] at hc
    rcases hc with rfl | hc
    · linarith
    · have := ih (a + w) (fun v hv => hw v (List.mem_cons_of_mem _ hv)) c hc
      linarith

theorem cumsum_strict (a : ℝ) : ∀ (ws : List ℝ), (∀ w ∈ ws, 0 < w) → (cumsum a ws).Pairwise (· < ·) := by
  intro ws
  induction ws generalizing a with
  | nil => intro _; simp [cumsum]
  | cons w ws ih =>
    intro hw
    simp only [cumsum]
    rw [List.pairwise_cons]
    exact ⟨cumsum_gt (a + w) ws (fun v hv => hw v (List.mem_cons_of_mem _ hv)),
           ih (a + w) (fun v hv => hw v (List.mem_cons_of_mem _ hv))⟩

theorem cumsum_last_pos (ws : List ℝ) (hne : ws ≠ []) (hw : ∀ w ∈ ws, 0 < w) : 0 < (cumsum 0 ws).getLastD 0 := by
  have hne' : cumsum 0 ws ≠ [] := by
    intro h
    have := cumsum_length 0 ws
    rw [h] at this
    exact hne (List.length_eq_zero_iff.1 this.symm)
  rw [List.getLastD_eq_getLast?, List.getLast?_eq_some_getLast hne']
  exact cumsum_gt 0 ws hw _ (List.getLast_mem hne')

theorem cdfOf_strict (ws : List ℝ) (hne : ws ≠ []) (hw : ∀ w ∈ ws, 0 < w) : (cdfOf ws).Pairwise (· < ·) := by
  unfold cdfOf
  have ht := cumsum_last_pos ws hne hw
  rw [List.pairwise_map]
  exact (cumsum_strict 0 ws hw).imp (fun h => div_lt_div_of_pos_right h ht)

/-! ### the quantile -/

/-- the node list of `quantileCorner` -/
noncomputable def nodes (x w : List ℝ) : List (ℝ × ℝ) :=
  let s := sortPairs (List.zip x w)
  List.zip (cdfOf (s.map Prod.snd)) (s.map Prod.fst)

theorem quantileCorner_eq (x w : List ℝ) (q : ℝ) : quantileCorner x w q = interpPairs q (nodes x w) := rfl

theorem nodes_length (x w : List ℝ) : (nodes x w).length = min x.length w.length := by
  simp [nodes, cdfOf_length, sortPairs_length]

theorem nodes_snd_mem {x w : List ℝ} {p : ℝ × ℝ} (hp : p ∈ nodes x w) : p.2 ∈ x := by
  unfold nodes at hp
  have h2 := (List.of_mem_zip hp).2
  obtain ⟨a, ha, h⟩ := List.mem_map.1 h2
  have : a ∈ List.zip x w := (sortPairs_perm _).mem_iff.1 ha
  rw [← h]
  exact (List.of_mem_zip this).1

theorem nodes_valSorted (x w : List ℝ) : ValSorted (nodes x w) := by
  unfold nodes ValSorted
  have hs := sortPairs_sorted (List.zip x w)
  generalize sortPairs (List.zip x w) = s at hs
  have h2 : (s.map Prod.fst).Pairwise (· ≤ ·) := by
    rw [List.pairwise_map]; exact hs
  -- pairwise on the second components of a zip
  have key : ∀ (a b : List ℝ), b.Pairwise (· ≤ ·) → (List.zip a b).Pairwise (fun p q => p.2 ≤ q.2) := by
    intro a b hb
    induction a generalizing b with
    | nil => simp
    | cons a0 as iha =>
      cases b with
      | nil => simp
      | cons b0 bs =>
        rw [List.zip_cons_cons, List.pairwise_cons]
        rw [List.pairwise_cons] at hb
        refine ⟨?_, iha bs hb.2⟩
        intro p hp
        exact hb.1 p.2 (List.of_mem_zip hp).2
  exact key _ _ h2

theorem zip_pairwise_fst {r : ℝ → ℝ → Prop} : ∀ (a b : List ℝ), a.Pairwise r →
    (List.zip a b).Pairwise (fun p q => r p.1 q.1) := by
  intro a
  induction a with
  | nil => intro b _; simp
  | cons a0 as iha =>
    intro b ha
    cases b with
    | nil => simp
    | cons b0 bs =>
      rw [List.zip_cons_cons, List.pairwise_cons]
      rw [List.pairwise_cons] at ha
      exact ⟨fun p hp => ha.1 p.1 (List.of_mem_zip hp).1, iha bs ha.2⟩

/-- with strictly positive weights the cumulative fractions increase strictly -/
theorem nodes_absStrict (x w : List ℝ) (hw : ∀ b ∈ w, 0 < b) :
    (nodes x w).Pairwise (fun a b => a.1 < b.1) := by
  unfold nodes
  have hmem : ∀ b ∈ (sortPairs (List.zip x w)).map Prod.snd, 0 < b := by
    intro b hb
    obtain ⟨p, hp, h⟩ := List.mem_map.1 hb
    have : p ∈ List.zip x w := (sortPairs_perm _).mem_iff.1 hp
    rw [← h]
    exact hw _ (List.of_mem_zip this).2
  by_cases hne : (sortPairs (List.zip x w)).map Prod.snd = []
  · simp [hne, cdfOf, cumsum]
  · exact zip_pairwise_fst _ _ (cdfOf_strict _ hne hmem)

theorem nodes_absSorted (x w : List ℝ) (hw : ∀ b ∈ w, 0 < b) : AbsSorted (nodes x w) :=
  (nodes_absStrict x w hw).imp le_of_lt

/-! ### arg max -/

theorem argmaxFirst_cons_cons (w v : ℝ) (vs : List ℝ) :
    argmaxFirst (w :: v :: vs) =
      if w < (v :: vs).getD (argmaxFirst (v :: vs)) 0 then argmaxFirst (v :: vs) + 1 else 0 := rfl

theorem argmaxFirst_spec : ∀ (l : List ℝ), l ≠ [] →
    argmaxFirst l < l.length ∧ (∀ j, j < l.length → l.getD j 0 ≤ l.getD (argmaxFirst l) 0) ∧
    (∀ j, j < argmaxFirst l → l.getD j 0 < l.getD (argmaxFirst l) 0) := by
  intro l
  induction l with
  | nil => intro h; exact absurd rfl h
  | cons w ws ih =>
    intro _
    cases ws with
    | nil =>
      refine ⟨by simp [argmaxFirst], ?_, ?_⟩
      · intro j hj
        have : j = 0 := by simpa using hj
        subst this; simp [argmaxFirst]
      · intro j hj; simp [argmaxFirst] at hj
    | cons v vs =>
      obtain ⟨hlt, hmax, hfirst⟩ := ih (by simp)
      by_cases hw : w < (v :: vs).getD (argmaxFirst (v :: vs)) 0
      · have e : argmaxFirst (w :: v :: vs) = argmaxFirst (v :: vs) + 1 := by
          rw [argmaxFirst_cons_cons, if_pos hw]
        rw [e]
        refine ⟨by simpa using hlt, ?_, ?_⟩
        · intro j hj
          cases j with
          | zero => simpa using hw.le
          | succ j =>
            have hj' : j < (v :: vs).length := by simpa using hj
            simpa using hmax j hj'
        · intro j hj
          cases j with
          | zero => simpa using hw
          | succ j =>
            have hj' : j < argmaxFirst (v :: vs) := by omega
            simpa using hfirst j hj'
      · have e : argmaxFirst (w :: v :: vs) = 0 := by
          rw [argmaxFirst_cons_cons, if_neg hw]
        rw [e]
        have hw' : (v :: vs).getD (argmaxFirst (v :: vs)) 0 ≤ w := not_lt.1 hw
        refine ⟨by simp, ?_, ?_⟩
        · intro j hj
          cases j with
          | zero => simp
          | succ j =>
            have hj' : j < (v :: vs).length := by simpa using hj
            have := hmax j hj'
            simpa using le_trans this hw'
        · intro j hj; omega

/-! ### weighted mean -/

theorem wsum_ge (lo : ℝ) : ∀ (x w : List ℝ), x.length = w.length → (∀ a ∈ x, lo ≤ a) → (∀ b ∈ w, 0 ≤ b) →
    lo * w.sum ≤ (List.zipWith (fun a b => a * b) x w).sum := by
  intro x
  induction x with
  | nil => intro w hl _ _; cases w with
    | nil => simp
    | cons _ _ => simp at hl
  | cons a as ih =>
    intro w hl hx hw
    cases w with
    | nil => simp at hl
    | cons b bs =>
      simp only [List.zipWith_cons_cons, List.sum_cons]
      have h1 := ih bs (by simpa using hl) (fun a ha => hx a (List.mem_cons_of_mem _ ha))
        (fun b hb => hw b (List.mem_cons_of_mem _ hb))
      have ha : lo ≤ a := hx a (by simp)
      have hb : 0 ≤ b := hw b (by simp)
      nlinarith [mul_le_mul_of_nonneg_right ha hb]

theorem wsum_le (hi : ℝ) : ∀ (x w : List ℝ), x.length = w.length → (∀ a ∈ x, a ≤ hi) → (∀ b ∈ w, 0 ≤ b) →
    (List.zipWith (fun a b => a * b) x w).sum ≤ hi * w.sum := by
  intro x
  induction x with
  | nil => intro w hl _ _; cases w with
    | nil => simp
    | cons _ _ => simp at hl
  | cons a as ih =>
    intro w hl hx hw
    cases w with
    | nil => simp at hl
    | cons b bs =>
      simp only [List.zipWith_cons_cons, List.sum_cons]
      have h1 := ih bs (by simpa using hl) (fun a ha => hx a (List.mem_cons_of_mem _ ha))
        (fun b hb => hw b (List.mem_cons_of_mem _ hb))
      have ha : a ≤ hi := hx a (by simp)
      have hb : 0 ≤ b := hw b (by simp)
      nlinarith [mul_le_mul_of_nonneg_right ha hb]

/-! ### restoring sample order by sample index -/

theorem insertKey_perm (p : ℕ × ℕ) (l : List (ℕ × ℕ)) : (insertKey p l).Perm (p :: l) := by
  induction l with
  | nil => simp [insertKey]
  | cons q qs ih =>
    unfold insertKey
    split
    · exact (List.Perm.cons q ih).trans (List.Perm.swap p q qs)
    · exact List.Perm.refl _

theorem sortKeys_perm (l : List (ℕ × ℕ)) : (sortKeys l).Perm l := by
  induction l with
  | nil => simp [sortKeys]
  | cons p ps ih =>
    unfold sortKeys
    exact (insertKey_perm p _).trans (List.Perm.cons p ih)

theorem insertKey_sorted (p : ℕ × ℕ) (l : List (ℕ × ℕ)) (h : l.Pairwise (fun a b => a.1 ≤ b.1)) :
    (insertKey p l).Pairwise (fun a b => a.1 ≤ b.1) := by
  induction l with
  | nil => simp [insertKey]
  | cons q qs ih =>
    unfold insertKey
    rw [List.pairwise_cons] at h
    split
    · rename_i hlt
      rw [List.pairwise_cons]
      refine ⟨?_, ih h.2⟩
      intro b hb
      rcases List.mem_cons.1 ((insertKey_perm p qs).mem_iff.1 hb) with rfl | hb
      · exact Nat.le_of_lt hlt
      · exact h.1 b hb
    · rename_i hnlt
      have hpq : p.1 ≤ q.1 := Nat.le_of_not_lt hnlt
      rw [List.pairwise_cons]
      refine ⟨?_, List.pairwise_cons.2 h⟩
      intro b hb
      rcases List.mem_cons.1 hb with rfl | hb
      · exact hpq
      · exact Nat.le_trans hpq (h.1 b hb)

theorem sortKeys_sorted (l : List (ℕ × ℕ)) : (sortKeys l).Pairwise (fun a b => a.1 ≤ b.1) := by
  induction l with
  | nil => simp [sortKeys]
  | cons p ps ih => unfold sortKeys; exact insertKey_sorted p _ ih

/-- the sorted keys of a permutation of `0 … n-1` are `0 … n-1` -/
theorem sortKeys_fst (index : List ℕ) (n : ℕ) (hp : index.Perm (List.range n)) :
    (sortKeys index.zipIdx).map Prod.fst = List.range n := by
  have h1 : ((sortKeys index.zipIdx).map Prod.fst).Perm (List.range n) := by
    refine ((sortKeys_perm _).map Prod.fst).trans ?_
    have : index.zipIdx.map Prod.fst = index := by simp
    rw [this]; exact hp
  have h2 : ((sortKeys index.zipIdx).map Prod.fst).Pairwise (· ≤ ·) := by
    rw [List.pairwise_map]; exact sortKeys_sorted _
  have h3 : (List.range n).Pairwise (· ≤ ·) := (List.pairwise_lt_range).imp Nat.le_of_lt
  exact List.Perm.eq_of_pairwise (fun a b _ _ hab hba => Nat.le_antisymm hab hba) h2 h3 h1

/-- **the re-ordering is correct for every gather order**: if entry `k` of the gathered list is the value `g` of
    sample `index[k]` and `index` enumerates every sample once, the restored list is `g 0, g 1, …` -/
theorem restoreOrder_map {β : Type} (g : ℕ → β) (index : List ℕ) (n : ℕ) (hp : index.Perm (List.range n)) :
    restoreOrder index (index.map g) = (List.range n).map g := by
  unfold restoreOrder gather argsortNat
  rw [List.filterMap_map]
  have hmem : ∀ p ∈ sortKeys index.zipIdx, ((fun j => (index.map g)[j]?) ∘ Prod.snd) p = some (g p.1) := by
    intro p hp'
    have hz : p ∈ index.zipIdx := (sortKeys_perm _).mem_iff.1 hp'
    obtain ⟨hlt, hget⟩ : ∃ h : p.2 < index.length, index[p.2] = p.1 := by
      have := List.mem_zipIdx hz
      simp at this
      exact ⟨this.1, this.2.symm⟩
    simp [hlt, hget]
  have : (sortKeys index.zipIdx).filterMap ((fun j => (index.map g)[j]?) ∘ Prod.snd) =
      (sortKeys index.zipIdx).map (fun p => g p.1) := by
    rw [List.filterMap_congr hmem]
    exact congrFun (List.filterMap_eq_map (f := fun p : ℕ × ℕ => g p.1)) _
  rw [this, ← sortKeys_fst index n hp, List.map_map]
  rfl

/-- one process: the index list is `0 … n-1` and nothing moves -/
theorem restoreOrder_range {β : Type} (a : List β) : restoreOrder (List.range a.length) a = a := by
  cases a with
  | nil => rfl
  | cons x xs =>
    have ha : (x :: xs) = (List.range (x :: xs).length).map (fun i => (x :: xs).getD i x) := by
      apply List.ext_getElem
      · simp
      · intro i h1 h2
        simp at h1
        simp [List.getD, h1]
    have h := restoreOrder_map (fun i => (x :: xs).getD i x) (List.range (x :: xs).length) (x :: xs).length
      (List.Perm.refl _)
    rw [← ha] at h
    exact h

end Taurex.C09
