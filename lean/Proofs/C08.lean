/-
  Helper lemmas for Props/C08.lean: Python's two-argument `min` / `max` over ℝ, and the token-level
  print/parse round trip of the prior text syntax.
-/
import Proofs.RealInst
import TaurexModel.Priors

namespace Taurex.C08
open Taurex.Priors

theorem pyMin_real (a b : ℝ) : pyMin a b = min a b := by
  unfold pyMin
  split
  · rename_i h; exact (min_eq_right h.le).symm
  · rename_i h; exact (min_eq_left (not_lt.1 h)).symm

theorem pyMax_real (a b : ℝ) : pyMax a b = max a b := by
  unfold pyMax
  split
  · rename_i h; exact (max_eq_right h.le).symm
  · rename_i h; exact (max_eq_left (not_lt.1 h)).symm

theorem pow10_log10 (v : ℝ) (hv : 0 < v) : (pow10 (log10 v : ℝ) : ℝ) = v := by
  simp only [pow10_real, log10_real]
  have h10 : (0 : ℝ) < 10 := by norm_num
  have hl : Real.log 10 ≠ 0 := ne_of_gt (Real.log_pos (by norm_num))
  rw [Real.rpow_def_of_pos h10, mul_div_cancel₀ _ hl, Real.exp_log hv]

theorem log10_le_log10 (a b : ℝ) (ha : 0 < a) (hab : a ≤ b) : (log10 a : ℝ) ≤ log10 b := by
  simp only [log10_real]
  have hl : (0 : ℝ) < Real.log 10 := Real.log_pos (by norm_num)
  exact div_le_div_of_nonneg_right (Real.log_le_log ha hab) hl.le

/-! ### token-level round trip -/

theorem parseSeq_close (close : Tok) (rest : List Tok) : parseSeq close (close :: rest) = some ([], false, rest) := by
  unfold parseSeq
  simp

/-- a non-empty printed sequence followed by the closing token parses back -/
theorem parseSeq_printSeq (close : Tok) (hc : close = Tok.rpar ∨ close = Tok.rbr) (x : String) (xs : List String)
    (rest : List Tok) :
    parseSeq close (printSeq (x :: xs) ++ close :: rest) = some (x :: xs, !xs.isEmpty, rest) := by
  induction xs generalizing x with
  | nil =>
    rcases hc with rfl | rfl <;> (unfold parseSeq; simp [printSeq])
  | cons y ys ih =>
    have h := ih y
    rcases hc with rfl | rfl
    · simp only [printSeq, List.cons_append] at h ⊢
      unfold parseSeq
      simp [h]
    · simp only [printSeq, List.cons_append] at h ⊢
      unfold parseSeq
      simp [h]

theorem parseVal_printVal (v : ArgVal String) (rest : List Tok) : parseVal (printVal v ++ rest) = some (v, rest) := by
  cases v with
  | num x => simp [printVal, parseVal]
  | tuple xs =>
    match xs with
    | [] => simp [printVal, parseVal, parseSeq_close]
    | [x] =>
      have h : parseSeq Tok.rpar (Tok.num x :: Tok.comma :: Tok.rpar :: rest) = some ([x], true, rest) := by
        unfold parseSeq
        simp [parseSeq_close]
      simp [printVal, parseVal, h]
    | x :: y :: r =>
      have := parseSeq_printSeq Tok.rpar (Or.inl rfl) x (y :: r) rest
      simp only [printVal, List.cons_append, List.append_assoc, List.nil_append, parseVal]
      rw [this]
  | list xs =>
    match xs with
    | [] => simp [printVal, printSeq, parseVal, parseSeq_close]
    | x :: r =>
      have := parseSeq_printSeq Tok.rbr (Or.inr rfl) x r rest
      simp only [printVal, List.cons_append, List.append_assoc, List.nil_append, parseVal]
      rw [this]

theorem parseArgs_printArgs (as : List (String × ArgVal String)) :
    ∀ (fuel : Nat), as.length < fuel → parseArgs fuel (printArgs as) = some (as, []) := by
  induction as with
  | nil =>
    intro fuel h
    cases fuel with
    | zero => simp at h
    | succ f => simp [printArgs, parseArgs]
  | cons a as ih =>
    intro fuel h
    obtain ⟨k, v⟩ := a
    cases fuel with
    | zero => simp at h
    | succ f =>
      cases as with
      | nil =>
        simp only [printArgs, List.cons_append]
        rw [parseArgs, parseVal_printVal v [Tok.rpar]]
      | cons b bs =>
        have hf : (b :: bs).length < f := by simpa using h
        have := ih f hf
        simp only [printArgs, List.cons_append]
        rw [parseArgs, parseVal_printVal v (Tok.comma :: printArgs (b :: bs))]
        simp only
        rw [this]
        rfl

theorem length_printArgs_ge (as : List (String × ArgVal String)) : as.length < (printArgs as).length + 1 := by
  induction as with
  | nil => simp [printArgs]
  | cons a as ih =>
    obtain ⟨k, v⟩ := a
    cases as with
    | nil => simp [printArgs]
    | cons b bs =>
      simp only [printArgs, List.length_cons, List.length_append] at ih ⊢
      omega

end Taurex.C08
