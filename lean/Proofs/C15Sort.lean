/-
  C15 — `inspect.getmembers` returns the members of a module sorted by name (`Factory.sortByName`, an insertion sort):
  the result is sorted, has the same elements, and SELECTING (filtering) after sorting is sorting the selected — the code
  sorts all members and then selects the candidates, the model `Factory.detectKlass` selects and then sorts.  Core only.
-/
import TaurexModel.Factory

namespace Taurex.C15L
open Taurex.Factory

/-! ### sorting by name and selecting commute (`inspect.getmembers` sorts all members, the code selects afterwards; the
     model selects the candidates and sorts them) -/

def SortedByName (l : List Klass) : Prop := l.Pairwise (fun a b => a.name ≤ b.name)

theorem insertByName_front (k : Klass) (ys : List Klass) (h : ∀ y ∈ ys, k.name ≤ y.name) :
    insertByName k ys = k :: ys := by
  cases ys with
  | nil => rfl
  | cons y t => simp [insertByName, h y (by simp)]

theorem insertByName_mem (k : Klass) : ∀ (xs : List Klass) (y : Klass), y ∈ insertByName k xs → y = k ∨ y ∈ xs
  | [], y, h => by simp [insertByName] at h; exact Or.inl h
  | x :: t, y, h => by
    unfold insertByName at h
    by_cases hk : k.name ≤ x.name
    · simp only [hk, if_true, List.mem_cons] at h
      rcases h with h | h | h
      · exact Or.inl h
      · exact Or.inr (by simp [h])
      · exact Or.inr (by simp [h])
    · simp only [hk, if_false, List.mem_cons] at h
      rcases h with h | h
      · exact Or.inr (by simp [h])
      · rcases insertByName_mem k t y h with h' | h'
        · exact Or.inl h'
        · exact Or.inr (by simp [h'])

theorem insertByName_sorted (k : Klass) : ∀ (xs : List Klass), SortedByName xs → SortedByName (insertByName k xs)
  | [], _ => by simp [insertByName, SortedByName]
  | x :: t, h => by
    unfold insertByName
    have hx : ∀ y ∈ t, x.name ≤ y.name := (List.pairwise_cons.1 h).1
    have ht : SortedByName t := (List.pairwise_cons.1 h).2
    by_cases hk : k.name ≤ x.name
    · simp only [hk, if_true]
      refine List.pairwise_cons.2 ⟨?_, h⟩
      intro y hy
      rcases List.mem_cons.1 hy with rfl | hy
      · exact hk
      · exact String.le_trans hk (hx y hy)
    · simp only [hk, if_false]
      have hxk : x.name ≤ k.name := by
        rcases String.le_total k.name x.name with h' | h'
        · exact absurd h' hk
        · exact h'
      refine List.pairwise_cons.2 ⟨?_, insertByName_sorted k t ht⟩
      intro y hy
      rcases insertByName_mem k t y hy with rfl | hy
      · exact hxk
      · exact hx y hy

theorem sortByName_sorted : ∀ (l : List Klass), SortedByName (sortByName l)
  | [] => by simp [sortByName, SortedByName]
  | a :: l => by
    show SortedByName (insertByName a (sortByName l))
    exact insertByName_sorted a _ (sortByName_sorted l)

theorem filter_insertByName (p : Klass → Bool) (k : Klass) : ∀ (xs : List Klass), SortedByName xs →
    (insertByName k xs).filter p = if p k then insertByName k (xs.filter p) else xs.filter p
  | [], _ => by
    cases hp : p k <;> simp [insertByName, hp]
  | x :: t, h => by
    have hx : ∀ y ∈ t, x.name ≤ y.name := (List.pairwise_cons.1 h).1
    have ht : SortedByName t := (List.pairwise_cons.1 h).2
    by_cases hk : k.name ≤ x.name
    · have hall : ∀ y ∈ (x :: t).filter p, k.name ≤ y.name := by
        intro y hy
        rcases List.mem_cons.1 (List.mem_filter.1 hy).1 with rfl | hy'
        · exact hk
        · exact String.le_trans hk (hx y hy')
      rw [insertByName_front k _ hall]
      have : insertByName k (x :: t) = k :: x :: t := by simp [insertByName, hk]
      rw [this, List.filter_cons]
    · have hins : insertByName k (x :: t) = x :: insertByName k t := by
        simp [insertByName, hk]
      rw [hins, List.filter_cons, filter_insertByName p k t ht]
      by_cases hpx : p x = true
      · simp only [hpx, if_true, List.filter_cons]
        cases hp : p k
        · simp
        · simp [insertByName, hk]
      · simp only [hpx, List.filter_cons, Bool.false_eq_true, if_false]

/-- selecting after sorting = sorting the selected -/
theorem filter_sortByName (p : Klass → Bool) : ∀ (l : List Klass),
    (sortByName l).filter p = sortByName (l.filter p)
  | [] => rfl
  | a :: l => by
    show (insertByName a (sortByName l)).filter p = _
    rw [filter_insertByName p a _ (sortByName_sorted l), filter_sortByName p l, List.filter_cons]
    cases p a <;> rfl

theorem mem_insertByName (k : Klass) (xs : List Klass) (y : Klass) : y ∈ insertByName k xs ↔ y = k ∨ y ∈ xs := by
  constructor
  · exact insertByName_mem k xs y
  · induction xs with
    | nil => intro h; rcases h with h | h <;> simp_all [insertByName]
    | cons x t ih =>
      intro h
      unfold insertByName
      by_cases hk : k.name ≤ x.name
      · simp only [hk, if_true, List.mem_cons]
        rcases h with h | h
        · exact Or.inl h
        · exact Or.inr (List.mem_cons.1 h)
      · simp only [hk, if_false, List.mem_cons]
        rcases h with h | h
        · exact Or.inr (ih (Or.inl h))
        · rcases List.mem_cons.1 h with h | h
          · exact Or.inl h
          · exact Or.inr (ih (Or.inr h))

theorem mem_sortByName (y : Klass) : ∀ (l : List Klass), y ∈ sortByName l ↔ y ∈ l
  | [] => by simp [sortByName]
  | a :: l => by
    show y ∈ insertByName a (sortByName l) ↔ _
    rw [mem_insertByName, mem_sortByName y l, List.mem_cons]

end Taurex.C15L
