/-
  Lemmas about the shared numpy model (TaurexModel/NpInterp.lean) over the real carrier.
-/
import Mathlib.Tactic.Linarith
import Mathlib.Tactic.Ring
import Mathlib.Tactic.FieldSimp
import Proofs.RealInst
import TaurexModel.NpInterp

namespace Taurex.NpInterp

noncomputable instance : NatConv ℝ where
  ofNat' := fun n => (n : ℝ)
  truncNat := fun x => ⌊x⌋₊

@[simp] theorem ofNat'_real (n : Nat) : (NatConv.ofNat' n : ℝ) = (n : ℝ) := rfl
@[simp] theorem truncNat_real (x : ℝ) : (NatConv.truncNat x : Nat) = ⌊x⌋₊ := rfl

/-- the interval predicate used throughout -/
def Within (lo hi : ℝ) (l : List ℝ) : Prop := ∀ v ∈ l, lo ≤ v ∧ v ≤ hi

theorem lerp_between {lo hi f0 f1 x0 x1 x : ℝ} (h0 : lo ≤ f0 ∧ f0 ≤ hi) (h1 : lo ≤ f1 ∧ f1 ≤ hi)
    (hx0 : x0 ≤ x) (hx1 : x ≤ x1) (hlt : x0 < x1) :
    lo ≤ (f1 - f0) / (x1 - x0) * (x - x0) + f0 ∧ (f1 - f0) / (x1 - x0) * (x - x0) + f0 ≤ hi := by
  have hd : 0 < x1 - x0 := by linarith
  set s := (x - x0) / (x1 - x0) with hs
  have hs0 : 0 ≤ s := div_nonneg (by linarith) hd.le
  have hs1 : s ≤ 1 := by rw [hs, div_le_one hd]; linarith
  have e : (f1 - f0) / (x1 - x0) * (x - x0) + f0 = (1 - s) * f0 + s * f1 := by
    rw [hs]; field_simp; ring
  rw [e]
  constructor
  · nlinarith [mul_nonneg hs0 (sub_nonneg.2 h1.1), mul_nonneg (sub_nonneg.2 hs1) (sub_nonneg.2 h0.1)]
  · nlinarith [mul_nonneg hs0 (sub_nonneg.2 h1.2), mul_nonneg (sub_nonneg.2 hs1) (sub_nonneg.2 h0.2)]

/-- on a non-decreasing list the elements `≤ x` form a prefix whose length is the count -/
theorem lt_countP_iff (x : ℝ) : ∀ (l : List ℝ), l.Pairwise (· ≤ ·) → ∀ i (hi : i < l.length),
    (i < l.countP (fun a => decide (a ≤ x)) ↔ l[i] ≤ x)
  | [], _, i, hi => by simp at hi
  | a :: t, hp, i, hi => by
    rw [List.pairwise_cons] at hp
    obtain ⟨ha, ht⟩ := hp
    by_cases hax : a ≤ x
    · cases i with
      | zero => simp [hax]
      | succ i =>
        have := lt_countP_iff x t ht i (by simpa using hi)
        simp [hax, this]
    · have hz : t.countP (fun a => decide (a ≤ x)) = 0 := by
        rw [List.countP_eq_zero]
        intro b hb
        have := ha b hb
        simp only [decide_eq_true_eq, not_le]
        linarith [not_le.1 hax]
      cases i with
      | zero => simp [hax, hz]
      | succ i =>
        have hb : a ≤ t[i]'(by simpa using hi) := ha _ (List.getElem_mem _)
        have : ¬ t[i]'(by simpa using hi) ≤ x := by
          intro h; exact hax (le_trans hb h)
        simp [hax, hz, this]

theorem getD_eq {β : Type} (l : List β) (d : β) {i : Nat} (h : i < l.length) : l.getD i d = l[i] :=
  (List.getElem_eq_getD d).symm

theorem getD_default {β : Type} (l : List β) (d : β) {i : Nat} (h : l.length ≤ i) : l.getD i d = d := by
  simp [List.getD_eq_getElem?_getD, List.getElem?_eq_none h]

theorem getD_within {lo hi : ℝ} {l : List ℝ} (h : Within lo hi l) {i : Nat} (hi' : i < l.length) :
    lo ≤ l.getD i 0 ∧ l.getD i 0 ≤ hi := by
  rw [getD_eq _ _ hi']
  exact h _ (List.getElem_mem _)

/-- **np.interp never leaves the range of its ordinates** (non-decreasing abscissae) -/
theorem npInterp_between {lo hi : ℝ} (xp fp : List ℝ) (x : ℝ) (hlen : xp.length = fp.length)
    (hne : 0 < xp.length) (hs : xp.Pairwise (· ≤ ·)) (hf : Within lo hi fp) :
    lo ≤ npInterp xp fp x ∧ npInterp xp fp x ≤ hi := by
  unfold npInterp
  have hn0 : 0 < fp.length := hlen ▸ hne
  have hn1 : xp.length - 1 < fp.length := by omega
  simp only []
  by_cases h1 : x < xp.getD 0 0
  · rw [if_pos h1]; exact getD_within hf hn0
  rw [if_neg h1]
  by_cases h2 : xp.getD (xp.length - 1) 0 < x
  · rw [if_pos h2]; exact getD_within hf hn1
  rw [if_neg h2]
  set k := xp.countP (fun a => decide (a ≤ x)) with hk
  have hkle : k ≤ xp.length := List.countP_le_length
  by_cases h3 : k - 1 = xp.length - 1
  · rw [if_pos h3, h3]; exact getD_within hf hn1
  rw [if_neg h3]
  by_cases h4 : ¬ xp.getD (k - 1) 0 < x
  · rw [if_pos h4]; exact getD_within hf (by omega)
  rw [if_neg h4]
  have h0 : xp.getD 0 0 ≤ x := not_lt.1 h1
  rw [getD_eq _ _ hne] at h0
  have hkpos : 0 < k := (lt_countP_iff x xp hs 0 hne).2 h0
  have hj : k - 1 < xp.length := by omega
  have hj1 : k - 1 + 1 < xp.length := by omega
  have hlt : xp.getD (k - 1) 0 < x := not_not.1 h4
  have hub : ¬ xp[k - 1 + 1] ≤ x := by
    intro h
    have := (lt_countP_iff x xp hs (k - 1 + 1) hj1).2 h
    omega
  have hub' : x < xp.getD (k - 1 + 1) 0 := by
    rw [getD_eq _ _ hj1]; exact not_le.1 hub
  exact lerp_between (getD_within hf (by omega)) (getD_within hf (by omega)) hlt.le hub'.le
    (lt_trans hlt hub')

/-- all ordinates equal ⇒ np.interp returns that value -/
theorem npInterp_const {c : ℝ} (xp fp : List ℝ) (x : ℝ) (hlen : xp.length = fp.length)
    (hne : 0 < xp.length) (hs : xp.Pairwise (· ≤ ·)) (hf : ∀ v ∈ fp, v = c) : npInterp xp fp x = c := by
  have := npInterp_between (lo := c) (hi := c) xp fp x hlen hne hs
    (fun v hv => by rw [hf v hv]; exact ⟨le_refl _, le_refl _⟩)
  linarith [this.1, this.2]

/-! ### Python `sum` -/

theorem foldl_add_acc : ∀ (l : List ℝ) (acc : ℝ), l.foldl (· + ·) acc = acc + l.foldl (· + ·) 0
  | [], acc => by simp
  | a :: t, acc => by
    simp only [List.foldl_cons]
    rw [foldl_add_acc t (acc + a), foldl_add_acc t (0 + a)]
    ring

@[simp] theorem sumL_nil : sumL ([] : List ℝ) = 0 := rfl

theorem sumL_cons (a : ℝ) (t : List ℝ) : sumL (a :: t) = a + sumL t := by
  unfold sumL
  simp only [List.foldl_cons]
  rw [foldl_add_acc t (0 + a)]
  ring

theorem sumL_append : ∀ (a b : List ℝ), sumL (a ++ b) = sumL a + sumL b
  | [], b => by simp
  | x :: a, b => by rw [List.cons_append, sumL_cons, sumL_cons, sumL_append a b]; ring

theorem sumL_map_mul (c : ℝ) : ∀ (l : List ℝ), sumL (l.map (fun x => c * x)) = c * sumL l
  | [] => by simp
  | x :: l => by rw [List.map_cons, sumL_cons, sumL_cons, sumL_map_mul c l]; ring

theorem sumL_nonneg : ∀ (l : List ℝ), (∀ x ∈ l, 0 ≤ x) → 0 ≤ sumL l
  | [], _ => by simp
  | x :: l, h => by
    rw [sumL_cons]
    have := sumL_nonneg l (fun y hy => h y (List.mem_cons_of_mem _ hy))
    linarith [h x (by simp)]

theorem sumL_pos : ∀ (l : List ℝ), l ≠ [] → (∀ c ∈ l, 0 < c) → 0 < sumL l
  | [], h, _ => absurd rfl h
  | [a], _, hp => by rw [sumL_cons, sumL_nil]; linarith [hp a (by simp)]
  | a :: b :: t, _, hp => by
    rw [sumL_cons]
    have := sumL_pos (b :: t) (by simp) (fun c hc => hp c (List.mem_cons_of_mem _ hc))
    linarith [hp a (by simp)]

/-! ### sums and window means -/

theorem foldl_add_bounds {lo hi : ℝ} : ∀ (l : List ℝ) (acc : ℝ), Within lo hi l →
    lo * l.length + acc ≤ l.foldl (· + ·) acc ∧ l.foldl (· + ·) acc ≤ hi * l.length + acc
  | [], acc, _ => by simp
  | a :: t, acc, h => by
    have ha := h a (List.mem_cons_self)
    have ht : Within lo hi t := fun v hv => h v (List.mem_cons_of_mem _ hv)
    have := foldl_add_bounds t (acc + a) ht
    simp only [List.foldl_cons, List.length_cons, Nat.cast_add, Nat.cast_one]
    constructor <;> nlinarith [this.1, this.2, ha.1, ha.2]

theorem sumL_bounds {lo hi : ℝ} (l : List ℝ) (h : Within lo hi l) :
    lo * l.length ≤ sumL l ∧ sumL l ≤ hi * l.length := by
  have := foldl_add_bounds l 0 h
  unfold sumL
  constructor <;> linarith [this.1, this.2]

theorem within_take_drop {lo hi : ℝ} {a : List ℝ} (h : Within lo hi a) (n i : Nat) :
    Within lo hi ((a.drop i).take n) :=
  fun v hv => h v (List.mem_of_mem_drop (List.mem_of_mem_take hv))

/-- a window mean of values in `[lo, hi]` is in `[lo, hi]` -/
theorem windowMean_between {lo hi : ℝ} (a : List ℝ) (n i : Nat) (h : Within lo hi a) (hn : 0 < n)
    (hin : i + n ≤ a.length) : lo ≤ windowMean a n i ∧ windowMean a n i ≤ hi := by
  unfold windowMean
  have hl : ((a.drop i).take n).length = n := by simp [List.length_take, List.length_drop]; omega
  have hb := sumL_bounds _ (within_take_drop h n i)
  rw [hl] at hb
  have hnp : (0 : ℝ) < (n : ℝ) := by exact_mod_cast hn
  simp only [ofNat'_real]
  constructor
  · rw [le_div_iff₀ hnp]; exact hb.1
  · rw [div_le_iff₀ hnp]; exact hb.2

theorem movingAverage_length (a : List ℝ) (n : Nat) (hn : 0 < n) :
    (movingAverage a n).length = a.length + 1 - n := by
  unfold movingAverage
  split_ifs with h
  · simp; omega
  · simp; omega

/-- **`movingaverage` never leaves the range of its input** -/
theorem movingAverage_between {lo hi : ℝ} (a : List ℝ) (n : Nat) (h : Within lo hi a) :
    Within lo hi (movingAverage a n) := by
  intro v hv
  unfold movingAverage at hv
  split_ifs at hv with hc
  · simp at hv
  · rw [List.mem_map] at hv
    obtain ⟨i, hi, rfl⟩ := hv
    rw [List.mem_range] at hi
    exact windowMean_between a n i h (by omega) (by omega)

/-! ### odd window and border assembly -/

theorem oddWindow_odd (n : Nat) (w : ℝ) : oddWindow n w % 2 = 1 := by
  unfold oddWindow
  simp only []
  split_ifs with h <;> omega

theorem oddWindow_le (n : Nat) (w : ℝ) (_h0 : 0 ≤ w) (h1 : w ≤ 100) : oddWindow n w ≤ n + 1 := by
  unfold oddWindow
  simp only [ofNat'_real, truncNat_real]
  have hle : (n : ℝ) * (w / 100) ≤ (n : ℝ) := by
    have : w / 100 ≤ 1 := by rw [div_le_one (by norm_num)]; exact h1
    have hn : (0 : ℝ) ≤ (n : ℝ) := Nat.cast_nonneg n
    nlinarith
  have hf : ⌊(n : ℝ) * (w / 100)⌋₊ ≤ n := by
    have := Nat.floor_le_floor hle
    simpa using this
  split_ifs <;> omega

theorem assembleSmoothed_ok (raw sm : List ℝ) (w : Nat) (hodd : w % 2 = 1) (hle : w ≤ raw.length + 1)
    (hlen : sm.length = raw.length + 1 - w) :
    ∃ r, assembleSmoothed raw sm = .ok r ∧ r.length = raw.length ∧ ∀ v ∈ r, v ∈ raw ∨ v ∈ sm := by
  unfold assembleSmoothed
  simp only [List.length_reverse]
  by_cases h1 : sm.length = raw.length
  · rw [if_pos h1]
    exact ⟨_, rfl, by simp [h1], fun v hv => Or.inr (by simpa using hv)⟩
  rw [if_neg h1]
  have hb : (raw.length - sm.length) / 2 ≠ 0 := by omega
  rw [if_neg hb]
  have hs : (raw.length - sm.length) / 2 + sm.length + (raw.length - sm.length) / 2 = raw.length := by omega
  rw [if_pos hs]
  refine ⟨_, rfl, ?_, ?_⟩
  · simp [List.length_take, List.length_drop]; omega
  · intro v hv
    simp only [List.mem_append] at hv
    rcases hv with (hv | hv) | hv
    · exact Or.inl (by simpa using List.mem_of_mem_take hv)
    · exact Or.inr (by simpa using hv)
    · exact Or.inl (by simpa using List.mem_of_mem_drop hv)

/-- whatever the window: a successful assembly only contains unsmoothed values and window means, and the
    assembly never reports "invalid model" -/
theorem assembleSmoothed_mem (raw sm r : List ℝ) (h : assembleSmoothed raw sm = .ok r) :
    ∀ v ∈ r, v ∈ raw ∨ v ∈ sm := by
  unfold assembleSmoothed at h
  simp only [List.length_reverse] at h
  split_ifs at h with h1 h2 h3 h4
  all_goals (injection h with h; subst h)
  · intro v hv; exact Or.inr (by simpa using hv)
  · intro v hv; exact Or.inl (by simpa using hv)
  · intro v hv
    simp only [List.mem_append] at hv
    rcases hv with (hv | hv) | hv
    · exact Or.inl (by simpa using List.mem_of_mem_take hv)
    · exact Or.inr (by simpa using hv)
    · exact Or.inl (by simpa using List.mem_of_mem_drop hv)

theorem assembleSmoothed_length (raw sm r : List ℝ) (h : assembleSmoothed raw sm = .ok r) :
    r.length = raw.length := by
  unfold assembleSmoothed at h
  simp only [List.length_reverse] at h
  split_ifs at h with h1 h2 h3 h4
  all_goals (injection h with h; subst h)
  · simpa using h1
  · simp
  · simp [List.length_take, List.length_drop]; omega

theorem assembleSmoothed_ne_invalid (raw sm : List ℝ) : assembleSmoothed raw sm ≠ .invalid := by
  unfold assembleSmoothed
  simp only []
  split_ifs <;> simp

/-- the smoothing step shared by NPoint and TwoLayerGas: for a percentage window it never fails, returns one
    value per layer, and every value is an unsmoothed value or a window mean -/
theorem smooth_ok (raw : List ℝ) (nlayers : Nat) (window : ℝ) (hn : nlayers = raw.length)
    (_h0 : 0 ≤ window) (h1 : window ≤ 100) (sm : List ℝ)
    (hlen : sm.length = (movingAverage raw (oddWindow nlayers window)).length) :
    ∃ r, assembleSmoothed raw sm = .ok r ∧ r.length = raw.length ∧ ∀ v ∈ r, v ∈ raw ∨ v ∈ sm := by
  have hodd := oddWindow_odd nlayers window
  have hle := oddWindow_le nlayers window _h0 h1
  apply assembleSmoothed_ok raw sm (oddWindow nlayers window) hodd (by omega)
  rw [hlen, movingAverage_length _ _ (by omega)]

theorem smooth_within {lo hi : ℝ} (raw sm r : List ℝ) (hr : Within lo hi raw) (hs : Within lo hi sm)
    (h : ∀ v ∈ r, v ∈ raw ∨ v ∈ sm) : Within lo hi r := by
  intro v hv
  rcases h v hv with h | h
  · exact hr v h
  · exact hs v h

/-! ### linspace -/

theorem linspace_length (a b : ℝ) (n : Nat) : (linspace a b n).length = n := by
  unfold linspace
  split_ifs <;> simp

theorem linspace_node_le (a b : ℝ) (n i : Nat) (hab : a ≤ b) (hn : 2 ≤ n) (hi : i ≤ n - 1) :
    (i : ℝ) * ((b - a) / ((n - 1 : Nat) : ℝ)) + a ≤ b := by
  have hd : (0 : ℝ) < ((n - 1 : Nat) : ℝ) := by exact_mod_cast (by omega : 0 < n - 1)
  have hi' : (i : ℝ) ≤ ((n - 1 : Nat) : ℝ) := by exact_mod_cast hi
  have : (i : ℝ) * ((b - a) / ((n - 1 : Nat) : ℝ)) ≤ b - a := by
    rw [← mul_div_assoc, div_le_iff₀ hd]
    nlinarith [sub_nonneg.2 hab]
  linarith

/-- `np.linspace(a, b, n)` is non-decreasing when `a ≤ b` -/
theorem linspace_sorted (a b : ℝ) (n : Nat) (hab : a ≤ b) : (linspace a b n).Pairwise (· ≤ ·) := by
  unfold linspace
  split_ifs with h
  · exact List.pairwise_replicate.2 (Or.inr (le_refl _))
  · simp only [ofNat'_real]
    rw [List.pairwise_map]
    refine List.Pairwise.imp_of_mem ?_ List.pairwise_lt_range
    intro i j hi hj hij
    rw [List.mem_range] at hi hj
    have hd : (0 : ℝ) < ((n - 1 : Nat) : ℝ) := by exact_mod_cast (by omega : 0 < n - 1)
    have hstep : 0 ≤ (b - a) / ((n - 1 : Nat) : ℝ) := div_nonneg (sub_nonneg.2 hab) hd.le
    have hi1 : i ≠ n - 1 := by omega
    rw [if_neg hi1]
    split_ifs with hj1
    · exact linspace_node_le a b n i hab (by omega) (by omega)
    · have : (i : ℝ) ≤ (j : ℝ) := by exact_mod_cast hij.le
      nlinarith

/-- `np.linspace(a, b, n)[::-1]` is non-decreasing when `b ≤ a` -/
theorem linspace_reverse_sorted (a b : ℝ) (n : Nat) (hab : b ≤ a) :
    (linspace a b n).reverse.Pairwise (· ≤ ·) := by
  rw [List.pairwise_reverse]
  unfold linspace
  split_ifs with h
  · exact List.pairwise_replicate.2 (Or.inr (le_refl _))
  · simp only [ofNat'_real]
    rw [List.pairwise_map]
    refine List.Pairwise.imp_of_mem ?_ List.pairwise_lt_range
    intro i j hi hj hij
    rw [List.mem_range] at hi hj
    have hd : (0 : ℝ) < ((n - 1 : Nat) : ℝ) := by exact_mod_cast (by omega : 0 < n - 1)
    have hi1 : i ≠ n - 1 := by omega
    rw [if_neg hi1]
    split_ifs with hj1
    · -- b ≤ i*step + a, i.e. the mirrored node inequality
      have := linspace_node_le (-a) (-b) n i (by linarith) (by omega) (by omega)
      have e : (i : ℝ) * ((-b - -a) / ((n - 1 : Nat) : ℝ)) = -((i : ℝ) * ((b - a) / ((n - 1 : Nat) : ℝ))) := by
        ring
      rw [e] at this
      linarith
    · have hij' : (i : ℝ) ≤ (j : ℝ) := by exact_mod_cast hij.le
      have hstep : (b - a) / ((n - 1 : Nat) : ℝ) ≤ 0 := div_nonpos_of_nonpos_of_nonneg (by linarith) hd.le
      nlinarith

end Taurex.NpInterp
