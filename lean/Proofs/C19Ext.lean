/-
  C19 — the extended carrier `XR` at which the regenerated cloud code is run with `np.inf` as a VALUE.

  `XR` = what a numpy float can be when rounding is ignored: a real number, `+inf`, `-inf` or `nan`.  The operations follow
  numpy's (IEEE-754) rules for the three special values — `x + inf = inf`, `inf - inf = nan`, `0 * inf = nan`, the sign rules
  of products and quotients, comparisons with `nan` false, `-inf < x < inf`, `exp(-inf) = 0`, `exp(inf) = inf` — and on two
  finite arguments they are the operations of the real carrier (`Proofs/RealInst.lean`, including its totalisations `x / 0`,
  `log` of non-positives, `sqrt` of negatives; zeros are unsigned).  So `fin : ℝ → XR` commutes with every operation, and
  every carrier-polymorphic definition (model or regenerated source) evaluated at `XR` on finite inputs is `fin` of its value
  at `ℝ` — the lemmas `*_fin` below prove that for the functions of `TaurexModel/Transmission.lean` the cloud theorems need —
  while the cloud's opacity `np.inf` is the value `pinf`: `0 + pinf = pinf`, `10 < pinf`, `exp (-pinf) = fin 0`.
-/
import Proofs.RealInst
import Proofs.C01SrcLemmas
import TaurexModel.Transmission
import TaurexModel.Haze

namespace Taurex.C19Ext
open Taurex Taurex.Transmission Taurex.Haze Taurex.C01Src

/-- a numpy float without rounding: a real, `+inf`, `-inf` or `nan` -/
inductive XR where
  | fin (x : ℝ)
  | pinf
  | ninf
  | nan

namespace XR

noncomputable section

/-- `a + b` (IEEE: `inf + (-inf) = nan`) -/
def add : XR → XR → XR
  | fin a, fin b => fin (a + b)
  | fin _, pinf => pinf
  | fin _, ninf => ninf
  | pinf, fin _ => pinf
  | pinf, pinf => pinf
  | pinf, ninf => nan
  | ninf, fin _ => ninf
  | ninf, ninf => ninf
  | ninf, pinf => nan
  | nan, _ => nan
  | fin _, nan => nan
  | pinf, nan => nan
  | ninf, nan => nan

def neg : XR → XR
  | fin a => fin (-a)
  | pinf => ninf
  | ninf => pinf
  | nan => nan

/-- an infinity of sign `pos` times the finite `b` (IEEE: `inf * 0 = nan`) -/
def infTimes (pos : Bool) (b : ℝ) : XR :=
  if 0 < b then (if pos then pinf else ninf) else if b < 0 then (if pos then ninf else pinf) else nan

def mul : XR → XR → XR
  | fin a, fin b => fin (a * b)
  | fin a, pinf => infTimes true a
  | fin a, ninf => infTimes false a
  | pinf, fin b => infTimes true b
  | ninf, fin b => infTimes false b
  | pinf, pinf => pinf
  | pinf, ninf => ninf
  | ninf, pinf => ninf
  | ninf, ninf => pinf
  | nan, _ => nan
  | fin _, nan => nan
  | pinf, nan => nan
  | ninf, nan => nan

/-- `a / b`; two finite arguments: the real carrier's quotient (its convention for `b = 0` included) -/
def div : XR → XR → XR
  | fin a, fin b => fin (a / b)
  | fin _, pinf => fin 0
  | fin _, ninf => fin 0
  | pinf, fin b => if b < 0 then ninf else pinf
  | ninf, fin b => if b < 0 then pinf else ninf
  | pinf, pinf => nan
  | pinf, ninf => nan
  | ninf, pinf => nan
  | ninf, ninf => nan
  | nan, _ => nan
  | fin _, nan => nan
  | pinf, nan => nan
  | ninf, nan => nan

/-- `a < b` (false when either is `nan`) -/
def lt : XR → XR → Prop
  | fin a, fin b => a < b
  | fin _, pinf => True
  | ninf, fin _ => True
  | ninf, pinf => True
  | _, _ => False

/-- `a ≤ b` (false when either is `nan`) -/
def le : XR → XR → Prop
  | fin a, fin b => a ≤ b
  | fin _, pinf => True
  | ninf, fin _ => True
  | ninf, pinf => True
  | pinf, pinf => True
  | ninf, ninf => True
  | _, _ => False

instance : Add XR := ⟨add⟩
instance : Neg XR := ⟨neg⟩
instance : Sub XR := ⟨fun a b => add a (neg b)⟩
instance : Mul XR := ⟨mul⟩
instance : Div XR := ⟨div⟩
instance : LT XR := ⟨lt⟩
instance : LE XR := ⟨le⟩
instance : DecidableLT XR := fun _ _ => Classical.propDecidable _
instance : DecidableLE XR := fun _ _ => Classical.propDecidable _
instance (n : Nat) : OfNat XR n := ⟨fin (n : ℝ)⟩

instance : Transc XR where
  exp := fun
    | fin x => fin (Real.exp x)
    | pinf => pinf
    | ninf => fin 0
    | nan => nan
  log := fun
    | fin x => fin (Real.log x)
    | pinf => pinf
    | _ => nan
  log10 := fun
    | fin x => fin (Real.log x / Real.log 10)
    | pinf => pinf
    | _ => nan
  sqrt := fun
    | fin x => fin (Real.sqrt x)
    | pinf => pinf
    | _ => nan
  pow10 := fun
    | fin x => fin ((10 : ℝ) ^ x)
    | pinf => pinf
    | ninf => fin 0
    | nan => nan

/-! ### `fin` commutes with the operations -/

@[simp] theorem fin_add (a b : ℝ) : (fin a + fin b : XR) = fin (a + b) := rfl
@[simp] theorem fin_sub (a b : ℝ) : (fin a - fin b : XR) = fin (a - b) := by
  show add (fin a) (neg (fin b)) = _
  simp [add, neg, sub_eq_add_neg]
@[simp] theorem fin_mul (a b : ℝ) : (fin a * fin b : XR) = fin (a * b) := rfl
@[simp] theorem fin_div (a b : ℝ) : (fin a / fin b : XR) = fin (a / b) := rfl
@[simp] theorem fin_neg (a : ℝ) : (-(fin a) : XR) = fin (-a) := rfl
@[simp] theorem fin_lt (a b : ℝ) : (fin a < fin b) ↔ a < b := Iff.rfl
@[simp] theorem fin_le (a b : ℝ) : (fin a ≤ fin b) ↔ a ≤ b := Iff.rfl
@[simp] theorem ofNat_fin (n : Nat) : (OfNat.ofNat n : XR) = fin (n : ℝ) := rfl
@[simp] theorem fin_exp (a : ℝ) : (exp (fin a) : XR) = fin (Real.exp a) := rfl
@[simp] theorem fin_sqrt (a : ℝ) : (sqrt (fin a) : XR) = fin (Real.sqrt a) := rfl
@[simp] theorem fin_log (a : ℝ) : (log (fin a) : XR) = fin (Real.log a) := rfl
@[simp] theorem fin_log10 (a : ℝ) : (log10 (fin a) : XR) = fin (Real.log a / Real.log 10) := rfl
@[simp] theorem fin_pow10 (a : ℝ) : (pow10 (fin a) : XR) = fin ((10 : ℝ) ^ a) := rfl
theorem fin_inj {a b : ℝ} : (fin a : XR) = fin b ↔ a = b := ⟨fun h => by injection h, fun h => by rw [h]⟩

/-! ### numpy's rules for `np.inf`, as far as the cloud deck meets them -/

/-- `x + np.inf = np.inf` for a finite `x` (the cloud's `tau[layer] += inf` on the zero row) -/
@[simp] theorem fin_add_pinf (a : ℝ) : (fin a + pinf : XR) = pinf := rfl
/-- `np.inf > x` for every finite `x` (the test `tau[layer].min() > 10`) -/
@[simp] theorem fin_lt_pinf (a : ℝ) : (fin a < pinf) := trivial
/-- `np.exp(-np.inf) = 0` -/
@[simp] theorem exp_neg_pinf : (exp (-(pinf)) : XR) = fin 0 := rfl
/-- adding the cloud's `0` changes nothing, whatever the value (also `inf`, `nan`) -/
theorem add_fin_zero (x : XR) : x + fin 0 = x := by
  show add x (fin 0) = x
  cases x <;> simp [add]

/-- a row / profile of finite values -/
def lift (f : Nat → ℝ) : Nat → XR := fun i => fin (f i)
/-- a table of finite values -/
def lift2 (f : Nat → Nat → ℝ) : Nat → Nat → XR := fun i j => fin (f i j)
/-- a prepared contribution with a finite opacity table -/
def liftC (c : Contrib ℝ) : Contrib XR := ⟨c.kind, lift2 c.sigma⟩
/-- a model opacity that may be `np.inf` as a value of the carrier -/
def ofExt : Ext ℝ → XR
  | .fin x => fin x
  | .inf => pinf

@[simp] theorem lift_apply (f : Nat → ℝ) (i : Nat) : lift f i = fin (f i) := rfl
@[simp] theorem lift2_apply (f : Nat → Nat → ℝ) (i j : Nat) : lift2 f i j = fin (f i j) := rfl

end

end XR

open XR

/-! ### the model of the transmission run at `XR` on finite inputs is `fin` of the model at `ℝ` -/

theorem sq_fin (a : ℝ) : (Transmission.sq (fin a) : XR) = fin (Transmission.sq a) := by simp [Transmission.sq]

theorem accFrom_fin (a : ℝ) (n : Nat) (f : Nat → ℝ) : accFrom (fin a) n (lift f) = fin (accFrom a n f) := by
  unfold accFrom
  induction n generalizing a with
  | zero => rfl
  | succ n ih =>
    rw [List.range_succ, List.foldl_append, List.foldl_append]
    simp only [List.foldl_cons, List.foldl_nil]
    have := ih a
    rw [this]
    rfl

theorem accFrom_fin' (a : ℝ) (n : Nat) (f : Nat → XR) (g : Nat → ℝ) (h : ∀ k < n, f k = fin (g k)) :
    accFrom (fin a) n f = fin (accFrom a n g) := by
  rw [accFrom_congr (fin a) n f (lift g) (fun k hk => by rw [h k hk]; rfl)]
  exact accFrom_fin a n g

theorem chord_fin (newMethod : Bool) (rp : ℝ) (zb z dz : Nat → ℝ) (l k : Nat) :
    chord newMethod (fin rp) (lift zb) (lift z) (lift dz) l k = fin (chord newMethod rp zb z dz l k) := by
  unfold chord
  cases newMethod
  · simp only [Bool.false_eq_true, if_false]
    unfold chordOld oldHalf oldMid oldP
    split <;> simp [Transmission.sq]
  · simp only [if_true]
    unfold chordNew newD newB
    split <;> simp [Transmission.sq]

theorem term_fin (c : Contrib ℝ) (path dens : Nat → ℝ) (l wn k : Nat) :
    term (liftC c) (lift path) (lift dens) l wn k = fin (term c path dens l wn k) := by
  obtain ⟨kind, sigma⟩ := c
  cases kind <;> simp [term, liftC]

theorem addContrib_fin (c : Contrib ℝ) (n : Nat) (path dens : Nat → ℝ) (l : Nat) (acc : Nat → ℝ) (wn : Nat) :
    addContrib (liftC c) n (lift path) (lift dens) l (lift acc) wn = fin (addContrib c n path dens l acc wn) := by
  unfold addContrib
  have hn : nTerms (liftC c) n l = nTerms c n l := by
    obtain ⟨kind, sigma⟩ := c
    cases kind <;> rfl
  rw [hn]
  exact accFrom_fin' _ _ _ _ (fun k _ => term_fin c path dens l wn k)

theorem saturated_fin (nwn : Nat) (acc : Nat → ℝ) : saturated nwn (lift acc) = saturated nwn acc := by
  unfold saturated
  congr 1

theorem tauCutFrom_fin (n nwn : Nat) (path dens : Nat → ℝ) (l : Nat) (cs : List (Contrib ℝ)) (acc : Nat → ℝ) (wn : Nat) :
    tauCutFrom n nwn (lift path) (lift dens) l (cs.map liftC) (lift acc) wn
      = fin (tauCutFrom n nwn path dens l cs acc wn) := by
  induction cs generalizing acc with
  | nil => rfl
  | cons c cs ih =>
    simp only [List.map_cons, tauCutFrom, saturated_fin]
    by_cases hs : saturated nwn acc = true
    · simp only [hs, if_true]; rfl
    · simp only [hs, Bool.false_eq_true, if_false]
      have e : addContrib (liftC c) n (lift path) (lift dens) l (lift acc)
          = lift (addContrib c n path dens l acc) := by
        funext w; exact addContrib_fin c n path dens l acc w
      rw [e]
      exact ih _

theorem trans_fin (x : ℝ) : (Transmission.trans (fin x) : XR) = fin (Transmission.trans x) := by
  simp [Transmission.trans]

theorem trans_pinf : (Transmission.trans pinf : XR) = fin 0 := by simp [Transmission.trans]

theorem depth_fin (rp rs : ℝ) (n : Nat) (z dz tr : Nat → ℝ) :
    depth (fin rp) (fin rs) n (lift z) (lift dz) (lift tr) = fin (depth rp rs n z dz tr) := by
  unfold depth
  have h0 : (0 : XR) = fin 0 := by simp
  rw [h0, accFrom_fin' 0 n _ (depthTerm rp z dz tr) (fun k _ => by simp [depthTerm])]
  simp [sq_fin]

/-- a row all of whose entries are `np.inf` passes the test `tau[layer].min() > 10` -/
theorem saturated_pinf (nwn : Nat) : saturated nwn (fun _ => (pinf : XR)) = true := by
  unfold saturated
  rw [List.all_eq_true]
  intro wn _
  simp

/-- a zero row does not (there is at least one wavenumber) -/
theorem saturated_zero (nwn : Nat) (h : 0 < nwn) : saturated nwn (fun _ => (0 : XR)) = false := by
  unfold saturated
  rw [Bool.eq_false_iff]
  intro hall
  rw [List.all_eq_true] at hall
  have := hall 0 (List.mem_range.2 h)
  simp only [decide_eq_true_eq, ofNat_fin, fin_lt] at this
  norm_num at this

/-- the loop over the contributions leaves a row of `np.inf` as it is (it breaks at once, or there is nothing to add) -/
theorem tauCutFrom_pinf (n nwn : Nat) (path dens : Nat → XR) (l : Nat) (cs : List (Contrib XR)) :
    tauCutFrom n nwn path dens l cs (fun _ => (pinf : XR)) = fun _ => pinf := by
  cases cs with
  | nil => rfl
  | cons c cs => simp only [tauCutFrom, saturated_pinf, if_true]

/-! ### the cloud deck first: the model `cloudyTau` / `cloudyTrans` is the run at `XR` -/

/-- the cloud deck as a prepared contribution at `XR`: kind `layerOnly`, opacity `np.inf` at and below the cloud top -/
noncomputable def cloudC (P : Nat → ℝ) (p0 : ℝ) : Contrib XR := ⟨.layerOnly, fun l _ => ofExt (cloudSigma P p0 l)⟩

/-- **the optical depth of a layer**, contributions `[cloud deck] ++ rest`, run at `XR` with the loop and the break of
    `path_integral` (`tauCut`): `np.inf` at and below the cloud top, the finite optical depth of the model above -/
theorem tauCut_cloudy (n nwn : Nat) (path dens : Nat → ℝ) (l : Nat) (P : Nat → ℝ) (p0 : ℝ) (rest : List (Contrib ℝ))
    (wn : Nat) (hn : 0 < nwn) :
    tauCut n nwn (lift path) (lift dens) l (cloudC P p0 :: rest.map liftC) wn
      = ofExt (cloudyTau n nwn path dens l P p0 rest wn) := by
  unfold tauCut cloudyTau
  simp only [tauCutFrom, saturated_zero nwn hn, Bool.false_eq_true, if_false]
  have hrow : addContrib (cloudC P p0) n (lift path) (lift dens) l (fun _ => (0 : XR))
      = fun _ => (0 : XR) + ofExt (cloudSigma P p0 l) := by
    funext w
    simp [addContrib, nTerms, cloudC, accFrom, term, List.range_succ]
  rw [hrow]
  unfold cloudSigma
  by_cases h : p0 ≤ P l
  · simp only [h, if_true, ofExt]
    have : (fun _ : Nat => (0 : XR) + pinf) = fun _ => pinf := by funext _; simp
    rw [this, tauCutFrom_pinf]
  · simp only [h, if_false, ofExt]
    have : (fun _ : Nat => (0 : XR) + fin 0) = lift (fun _ => 0 + 0) := by funext _; simp
    rw [this, tauCutFrom_fin]

/-- **the transmittance**: the run at `XR` returns the model's `cloudyTrans` -/
theorem modelTrans_cloudy (newMethod : Bool) (rp : ℝ) (n nwn : Nat) (zb z dz dens P : Nat → ℝ) (p0 : ℝ)
    (rest : List (Contrib ℝ)) (l wn : Nat) (hn : 0 < nwn) :
    modelTrans true newMethod (fin rp) n nwn (lift zb) (lift z) (lift dz) (lift dens) (cloudC P p0 :: rest.map liftC) l wn
      = fin (cloudyTrans newMethod rp n nwn zb z dz dens P p0 rest l wn) := by
  unfold modelTrans cloudyTrans
  simp only [if_true]
  have hc : chord newMethod (fin rp) (lift zb) (lift z) (lift dz) l = lift (chord newMethod rp zb z dz l) := by
    funext k; exact chord_fin newMethod rp zb z dz l k
  rw [hc, tauCut_cloudy n nwn _ dens l P p0 rest wn hn]
  cases cloudyTau n nwn (chord newMethod rp zb z dz l) dens l P p0 rest wn with
  | fin x => simp [ofExt, Ext.trans, trans_fin]
  | inf => simp [ofExt, Ext.trans, trans_pinf]

/-- **the depth** -/
theorem modelDepth_cloudy (newMethod : Bool) (rp rs : ℝ) (n nwn : Nat) (zb z dz dens P : Nat → ℝ) (p0 : ℝ)
    (rest : List (Contrib ℝ)) (wn : Nat) (hn : 0 < nwn) :
    modelDepth true newMethod (fin rp) (fin rs) n nwn (lift zb) (lift z) (lift dz) (lift dens)
        (cloudC P p0 :: rest.map liftC) wn
      = fin (cloudyDepth newMethod rp rs n nwn zb z dz dens P p0 rest wn) := by
  unfold modelDepth cloudyDepth
  have : (fun l => modelTrans true newMethod (fin rp) n nwn (lift zb) (lift z) (lift dz) (lift dens)
      (cloudC P p0 :: rest.map liftC) l wn)
      = lift (fun l => cloudyTrans newMethod rp n nwn zb z dz dens P p0 rest l wn) := by
    funext l; exact modelTrans_cloudy newMethod rp n nwn zb z dz dens P p0 rest l wn hn
  rw [this, depth_fin]

/-- without the cloud deck: the run at `XR` on finite inputs is the model at `ℝ` -/
theorem modelTrans_fin (newMethod : Bool) (rp : ℝ) (n nwn : Nat) (zb z dz dens : Nat → ℝ) (cs : List (Contrib ℝ))
    (l wn : Nat) :
    modelTrans true newMethod (fin rp) n nwn (lift zb) (lift z) (lift dz) (lift dens) (cs.map liftC) l wn
      = fin (modelTrans true newMethod rp n nwn zb z dz dens cs l wn) := by
  unfold modelTrans
  simp only [if_true]
  have hc : chord newMethod (fin rp) (lift zb) (lift z) (lift dz) l = lift (chord newMethod rp zb z dz l) := by
    funext k; exact chord_fin newMethod rp zb z dz l k
  have h0 : (fun _ : Nat => (0 : XR)) = lift (fun _ => 0) := by funext _; simp
  rw [hc]
  unfold tauCut
  rw [h0, tauCutFrom_fin, trans_fin]

end Taurex.C19Ext
