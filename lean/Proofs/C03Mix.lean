/-
  Lemmas for C03 about `TaurexModel/MixLookup.lean`: the look-up rule of `get_gas_mix_profile` and the tables of a chemistry
  wrapped with `MakeFreeMixin`.
-/
import Mathlib.Tactic.Ring
import Proofs.RealInst
import TaurexModel.MixLookup

namespace Taurex.MixLookup

variable {β : Type}

theorem hasName_find (tbl : List (String × (ℕ → β))) (name : String) (h : hasName tbl name = true) :
    ∃ p, tbl.find? (fun p => p.1 == name) = some p ∧ p.1 = name := by
  unfold hasName at h
  rw [List.any_eq_true] at h
  obtain ⟨q, hq, hqn⟩ := h
  have hs : (tbl.find? (fun p => p.1 == name)).isSome := by
    rw [List.find?_isSome]; exact ⟨q, hq, hqn⟩
  obtain ⟨p, hp⟩ := Option.isSome_iff_exists.1 hs
  refine ⟨p, hp, ?_⟩
  have := List.find?_some hp
  simpa using this

/-- rows are replaced, names are kept -/
theorem replaceRows_find (tbl : List (String × (ℕ → β))) (free : List (Free β)) (name : String) :
    (replaceRows tbl free).find? (fun p => p.1 == name)
      = (tbl.find? (fun p => p.1 == name)).map fun p => match free.find? (fun f => f.mol == p.1) with
          | some f => (p.1, f.prof)
          | none => p := by
  unfold replaceRows
  rw [List.find?_map]
  congr 1
  congr 1
  funext p
  simp only [Function.comp_apply]
  split <;> rfl

/-- a molecule of the wrapped chemistry that has been freed carries the free gas's profile in the un-normalised table -/
theorem rawActive_freed (active inactive : List (String × (ℕ → β))) (free : List (Free β)) (f : Free β)
    (hf : free.find? (fun g => g.mol == f.mol) = some f) (hA : hasName active f.mol = true) :
    (rawActive active inactive free).find? (fun p => p.1 == f.mol) = some (f.mol, f.prof) := by
  obtain ⟨p, hp, hpn⟩ := hasName_find active f.mol hA
  unfold rawActive
  rw [List.find?_append, replaceRows_find, hp]
  simp only [Option.map_some, Option.some_or, hpn, hf]

theorem rawInactive_freed (active inactive : List (String × (ℕ → β))) (free : List (Free β)) (f : Free β)
    (hf : free.find? (fun g => g.mol == f.mol) = some f) (hI : hasName inactive f.mol = true) :
    (rawInactive active inactive free).find? (fun p => p.1 == f.mol) = some (f.mol, f.prof) := by
  obtain ⟨p, hp, hpn⟩ := hasName_find inactive f.mol hI
  unfold rawInactive
  rw [List.find?_append, replaceRows_find, hp]
  simp only [Option.map_some, Option.some_or, hpn, hf]

/-- normalising keeps the names -/
theorem rowOf_normalised (tbl : List (String × (ℕ → ℝ))) (N : ℕ → ℝ) (name : String) :
    rowOf (tbl.map fun p => (p.1, fun l => p.2 l / N l)) name
      = (tbl.find? (fun p => p.1 == name)).map fun p => fun l => p.2 l / N l := by
  unfold rowOf
  rw [List.find?_map, Option.map_map]
  rfl

/-- a name that is in neither the wrapped table nor among the new gases is not in the raw table -/
theorem rawActive_none (active inactive : List (String × (ℕ → β))) (free : List (Free β)) (name : String)
    (hA : hasName active name = false) (hI : hasName inactive name = true) :
    (rawActive active inactive free).find? (fun p => p.1 == name) = none := by
  unfold rawActive
  rw [List.find?_append, replaceRows_find]
  have h1 : active.find? (fun p => p.1 == name) = none := by
    rw [List.find?_eq_none]
    intro x hx hxn
    unfold hasName at hA
    have : active.any (fun p => p.1 == name) = true := List.any_eq_true.2 ⟨x, hx, hxn⟩
    rw [this] at hA
    exact Bool.noConfusion hA
  rw [h1]
  simp only [Option.map_none, Option.none_or]
  rw [List.find?_eq_none]
  intro x hx hxn
  unfold newGases at hx
  simp only [List.mem_map, List.mem_filter] at hx
  obtain ⟨g, ⟨_, hg⟩, rfl⟩ := hx
  simp only [beq_iff_eq] at hxn
  simp only [hxn, hI, Bool.not_true, Bool.and_false, Bool.false_and] at hg
  exact Bool.noConfusion hg

/-! ### mean molecular weight of the published mixture -/

theorem foldl_add_eq (f : String × (ℕ → ℝ) → ℝ) (tbl : List (String × (ℕ → ℝ))) (a : ℝ) :
    tbl.foldl (fun acc p => acc + f p) a = a + (tbl.map f).sum := by
  induction tbl generalizing a with
  | nil => simp
  | cons x t ih => simp only [List.foldl_cons, List.map_cons, List.sum_cons, ih]; ring

theorem tableWeight_eq_sum (mass : String → ℝ) (tbl : List (String × (ℕ → ℝ))) (l : ℕ) :
    tableWeight mass tbl l = (tbl.map (fun p => p.2 l * mass p.1)).sum := by
  unfold tableWeight
  have h := foldl_add_eq (fun p => p.2 l * mass p.1) tbl 0
  simpa using h

/-- a row that is zero in layer `l` adds nothing to the weight of the table in that layer, wherever it stands -/
theorem tableWeight_zero_row (mass : String → ℝ) (pre post : List (String × (ℕ → ℝ))) (n : String) (r : ℕ → ℝ) (l : ℕ)
    (h : r l = 0) : tableWeight mass (pre ++ (n, r) :: post) l = tableWeight mass (pre ++ post) l := by
  simp [tableWeight_eq_sum, h]

/-- the weight is linear in the rows: scaling every row by `c` scales it by `c` -/
theorem tableWeight_scale (mass : String → ℝ) (tbl : List (String × (ℕ → ℝ))) (c : ℝ) (l : ℕ) :
    tableWeight mass (tbl.map fun p => (p.1, fun k => p.2 k * c)) l = tableWeight mass tbl l * c := by
  rw [tableWeight_eq_sum, tableWeight_eq_sum, List.map_map]
  induction tbl with
  | nil => simp
  | cons x t ih => simp only [List.map_cons, List.sum_cons, Function.comp, ih]; ring

end Taurex.MixLookup
