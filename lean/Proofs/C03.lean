/-
  Lemmas for C03: additivity of the optical depth over contributions and over the components of one contribution.
-/
import Mathlib.Algebra.BigOperators.Group.List.Basic
import Mathlib.Algebra.Order.BigOperators.Group.List
import Proofs.C01c
import TaurexModel.Sigma

open Finset

namespace Taurex.Transmission

/-- what one contribution adds to an empty row -/
noncomputable def inc (n : ℕ) (path dens : ℕ → ℝ) (l : ℕ) (c : Contrib ℝ) (wn : ℕ) : ℝ :=
  addContrib c n path dens l (fun _ => 0) wn

theorem tauFull_eq_sum (n : ℕ) (path dens : ℕ → ℝ) (l : ℕ) (cs : List (Contrib ℝ)) (wn : ℕ) :
    tauFull n path dens l cs wn = (cs.map (fun c => inc n path dens l c wn)).sum := by
  induction cs with
  | nil => simp [tauFull, tauFullFrom]
  | cons c cs ih =>
    have h := tauFullFrom_eq n path dens l cs (addContrib c n path dens l (fun _ => 0)) wn
    rw [List.map_cons, List.sum_cons, ← ih]
    show tauFullFrom n path dens l (c :: cs) (fun _ => 0) wn = _
    rw [show tauFullFrom n path dens l (c :: cs) (fun _ => 0)
          = tauFullFrom n path dens l cs (addContrib c n path dens l (fun _ => 0)) from rfl, h]
    rfl

theorem trans_add (a b : ℝ) : trans (a + b) = trans a * trans b := by
  unfold trans; simp only [exp_real]; rw [neg_add, Real.exp_add]

theorem trans_zero : trans (0 : ℝ) = 1 := by unfold trans; simp

theorem trans_sum (l : List ℝ) : trans l.sum = (l.map trans).prod := by
  induction l with
  | nil => simp [trans_zero]
  | cons a l ih => simp [trans_add, ih]

/-- the increment is additive in the opacity array -/
theorem inc_eq (n : ℕ) (path dens : ℕ → ℝ) (l : ℕ) (c : Contrib ℝ) (wn : ℕ) :
    inc n path dens l c wn = ∑ k ∈ range (nTerms c n l), term c path dens l wn k := by
  unfold inc addContrib; rw [accFrom_eq]; simp

theorem inc_zero (n : ℕ) (path dens : ℕ → ℝ) (l : ℕ) (κ : Kind) (wn : ℕ) :
    inc n path dens l { kind := κ, sigma := fun _ _ => 0 } wn = 0 := by
  rw [inc_eq]
  apply Finset.sum_eq_zero
  intro k _
  unfold term; cases κ <;> simp

theorem inc_add (n : ℕ) (path dens : ℕ → ℝ) (l : ℕ) (κ : Kind) (s1 s2 : ℕ → ℕ → ℝ) (wn : ℕ) :
    inc n path dens l { kind := κ, sigma := fun a b => s1 a b + s2 a b } wn
      = inc n path dens l { kind := κ, sigma := s1 } wn + inc n path dens l { kind := κ, sigma := s2 } wn := by
  rw [inc_eq, inc_eq, inc_eq]
  have hn : ∀ s : ℕ → ℕ → ℝ, nTerms ({ kind := κ, sigma := s } : Contrib ℝ) n l
      = nTerms ({ kind := κ, sigma := s1 } : Contrib ℝ) n l := by intro s; unfold nTerms; rfl
  rw [hn, hn s2, ← Finset.sum_add_distrib]
  apply Finset.sum_congr rfl
  intro k _
  unfold term; cases κ <;> simp only <;> ring

theorem inc_smul (n : ℕ) (path dens : ℕ → ℝ) (l : ℕ) (κ : Kind) (s : ℝ) (s1 : ℕ → ℕ → ℝ) (wn : ℕ) :
    inc n path dens l { kind := κ, sigma := fun a b => s * s1 a b } wn
      = s * inc n path dens l { kind := κ, sigma := s1 } wn := by
  rw [inc_eq, inc_eq]
  have hn : nTerms ({ kind := κ, sigma := fun a b => s * s1 a b } : Contrib ℝ) n l
      = nTerms ({ kind := κ, sigma := s1 } : Contrib ℝ) n l := by unfold nTerms; rfl
  rw [hn, Finset.mul_sum]
  apply Finset.sum_congr rfl
  intro k _
  unfold term; cases κ <;> simp only <;> ring

/-! ### when the early exit does not fire -/

/-- a row that came back with one column at or below 10 was never cut: it is the full sum -/
theorem tauCut_eq_full_of_le (n nwn : ℕ) (path dens : ℕ → ℝ) (l : ℕ) (hp : ∀ k < n - l, 0 ≤ path k)
    (hd : ∀ j < n, 0 ≤ dens j) (cs : List (Contrib ℝ)) (hcs : ∀ c ∈ cs, c.Nonneg) (w : ℕ) (hw : w < nwn)
    (h10 : tauCut n nwn path dens l cs w ≤ 10) (wn : ℕ) :
    tauCut n nwn path dens l cs wn = tauFull n path dens l cs wn := by
  rcases (cutoff_from n nwn path dens l hp hd cs hcs (fun _ => 0)).2 with h | h
  · exact h wn
  · have := h w hw
    unfold tauCut at h10
    linarith

/-- the same, read off the returned transmittance: one column not below `exp(-10)` -/
theorem tauCut_eq_full_of_trans (n nwn : ℕ) (path dens : ℕ → ℝ) (l : ℕ) (hp : ∀ k < n - l, 0 ≤ path k)
    (hd : ∀ j < n, 0 ≤ dens j) (cs : List (Contrib ℝ)) (hcs : ∀ c ∈ cs, c.Nonneg) (w : ℕ) (hw : w < nwn)
    (h10 : trans 10 ≤ trans (tauCut n nwn path dens l cs w)) (wn : ℕ) :
    tauCut n nwn path dens l cs wn = tauFull n path dens l cs wn := by
  refine tauCut_eq_full_of_le n nwn path dens l hp hd cs hcs w hw ?_ wn
  by_contra hc
  have := trans_lt_of_gt (not_le.1 hc)
  linarith

/-- the full sum of non-negative contributions is non-negative -/
theorem tauFull_nonneg' (n : ℕ) (path dens : ℕ → ℝ) (l : ℕ) (hp : ∀ k < n - l, 0 ≤ path k)
    (hd : ∀ j < n, 0 ≤ dens j) (cs : List (Contrib ℝ)) (hcs : ∀ c ∈ cs, c.Nonneg) (wn : ℕ) :
    0 ≤ tauFull n path dens l cs wn :=
  tauFullFrom_ge n path dens l hp hd cs hcs (fun _ => 0) wn

/-- the cut sum never exceeds the full sum -/
theorem tauCut_le_full (n nwn : ℕ) (path dens : ℕ → ℝ) (l : ℕ) (hp : ∀ k < n - l, 0 ≤ path k)
    (hd : ∀ j < n, 0 ≤ dens j) (cs : List (Contrib ℝ)) (hcs : ∀ c ∈ cs, c.Nonneg) (wn : ℕ) :
    tauCut n nwn path dens l cs wn ≤ tauFull n path dens l cs wn :=
  (cutoff_from n nwn path dens l hp hd cs hcs (fun _ => 0)).1 wn

end Taurex.Transmission

namespace Taurex.Sigma

theorem sumComps_nil : sumComps ([] : List (ℕ → ℕ → ℝ)) = fun _ _ => 0 := by
  funext l wn; simp [sumComps]

theorem sumComps_eq (comps : List (ℕ → ℕ → ℝ)) (l wn : ℕ) :
    sumComps comps l wn = (comps.map (fun c => c l wn)).sum := by
  unfold sumComps
  have : ∀ (a : ℝ), comps.foldl (fun a c => a + c l wn) a = a + (comps.map (fun c => c l wn)).sum := by
    induction comps with
    | nil => intro a; simp
    | cons c cs ih => intro a; simp only [List.foldl_cons, List.map_cons, List.sum_cons]; rw [ih]; ring
  rw [this]; simp

theorem sumComps_cons (c : ℕ → ℕ → ℝ) (comps : List (ℕ → ℕ → ℝ)) :
    sumComps (c :: comps) = fun l wn => c l wn + sumComps comps l wn := by
  funext l wn; rw [sumComps_eq, sumComps_eq]; simp

end Taurex.Sigma
