/-
  Helper lemmas for the C18 source ties of the PARALLEL code (`Props/C18Src.lean`, second half):
  * Python's `range(r, n, size)` / `l[r::size]` (`List.range' r ((n - r + size - 1) / size) size`, the translator's reading)
    is the model's `strided r size`;
  * the MPI collectives as the translated code sees them on one rank (`gatherAt`, `concatAt`);
  * the evaluation loops of `sample_iter` / `compute_derived_trace` as folds over the rank's indices.
-/
import Proofs.C18SrcLemmas
import Proofs.C18Partition
import Proofs.C18Derived
import Mathlib.Data.List.Sort
set_option linter.unusedSectionVars false
set_option linter.unusedVariables false

namespace Taurex.C18Src
open Taurex.Variance

/-! ### strided ranges -/

/-- the number of elements of Python's `range(r, n, size)` -/
def rangeCount (r n size : ℕ) : ℕ := (n - r + size - 1) / size

theorem lt_rangeCount {r n size k : ℕ} (hs : 0 < size) : k < rangeCount r n size ↔ r + size * k < n := by
  unfold rangeCount
  rw [Nat.lt_div_iff_mul_lt hs]
  generalize hm : size * k = m
  have : k * size = m := by rw [Nat.mul_comm]; exact hm
  constructor <;> intro h <;> omega

theorem mem_range'_strided {r n size i : ℕ} (hr : r < size) :
    i ∈ List.range' r (rangeCount r n size) size ↔ i < n ∧ i % size = r := by
  have hs : 0 < size := by omega
  rw [List.mem_range']
  constructor
  · rintro ⟨k, hk, rfl⟩
    refine ⟨(lt_rangeCount hs).1 hk, ?_⟩
    rw [Nat.add_mul_mod_self_left, Nat.mod_eq_of_lt hr]
  · rintro ⟨hi, hm⟩
    refine ⟨i / size, (lt_rangeCount hs).2 ?_, ?_⟩
    · have := Nat.div_add_mod i size; omega
    · have := Nat.div_add_mod i size; omega

theorem strided_range_pairwise (r size n : ℕ) : (strided r size (List.range n)).Pairwise (· < ·) := by
  unfold strided
  have hsub : ((List.range n).zipIdx.filter (fun p => decide (r ≤ p.2) && (p.2 - r) % size == 0)).map (·.1) |>.Sublist
      (List.range n) := by
    have h1 := (List.filter_sublist (l := (List.range n).zipIdx)
      (p := fun p => decide (r ≤ p.2) && (p.2 - r) % size == 0)).map (·.1)
    rwa [List.zipIdx_map_fst] at h1
  exact List.Pairwise.sublist hsub List.pairwise_lt_range

/-- `range(r, n, size)` is the model's rank slice of the index list -/
theorem strided_range_eq {r size : ℕ} (hr : r < size) (n : ℕ) :
    strided r size (List.range n) = List.range' r (rangeCount r n size) size := by
  have hs : 0 < size := by omega
  refine List.Pairwise.eq_of_mem_iff (strided_range_pairwise r size n) (List.pairwise_lt_range' size hs) ?_
  intro i
  rw [mem_strided_range hr, mem_range'_strided hr]

/-- `l[r::size]` (the elements at the indices `range(r, len(l), size)`) is the model's rank slice -/
theorem slice_eq_strided {β : Type} {r size : ℕ} (hr : r < size) (l : List β) :
    List.filterMap (fun i => l[i]?) (List.range' r (rangeCount r l.length size) size) = strided r size l := by
  cases l with
  | nil => simp [strided]
  | cons d t =>
    set l := d :: t with hl
    have h1 : strided r size l = (strided r size (List.range l.length)).map (fun i => l.getD i d) := by
      conv_lhs => rw [list_eq_map_range' d l]
      exact strided_map _ r size _
    rw [h1, strided_range_eq hr]
    apply filterMap_eq_map
    intro j hj
    have hj' : j < l.length := ((mem_range'_strided hr).1 hj).1
    simp [List.getD_eq_getElem?_getD, hj']

/-- mapping over `range(r, n, size)` is the rank slice of the mapped index list -/
theorem map_range'_strided {β : Type} {r size : ℕ} (hr : r < size) (n : ℕ) (f : ℕ → β) :
    (List.range' r (rangeCount r n size) size).map f = strided r size ((List.range n).map f) := by
  rw [strided_map, strided_range_eq hr]

/-! ### collectives -/

section
variable {α : Type} [Add α] [Sub α] [Mul α] [Div α] [LT α] [LE α] [DecidableLT α] [DecidableLE α] [BEq α] [OfNat α 0]

instance objTwo [OfNat α 2] : OfNat (Obj α) 2 := ⟨Obj.ofNum 2⟩

/-- what a rank whose accumulator is `a` contributes to the k-th `mpi.allgather` of `parallelVariance`
    (`cnt n` = the Python float `self.count` after n updates) -/
def sentBy (cnt : ℕ → α) (k : ℕ) (a : Acc α) : Obj α :=
  match k with
  | 0 => variance a
  | 1 => meanObj a
  | 2 => Obj.ofNum a.wcount
  | _ => Obj.ofNum (cnt a.count)

/-- the k-th `mpi.allgather(x)` of `parallelVariance` as it returns on rank `r`: in rank order, what every rank contributed
    (the calling rank: `x`), each through one exchange -/
def gatherAt (exch : Obj α → Obj α) (cnt : ℕ → α) (ranks : List (Acc α)) (r k : ℕ) (x : Obj α) : List (Obj α) :=
  ranks.zipIdx.map (fun p => exch (if p.2 = r then x else sentBy cnt k p.1))

theorem gatherAt_eq (exch : Obj α → Obj α) (cnt : ℕ → α) (ranks : List (Acc α)) (r k : ℕ) (a : Acc α) (x : Obj α)
    (hr : ranks[r]? = some a) (hx : x = sentBy cnt k a) :
    gatherAt exch cnt ranks r k x = ranks.map (fun b => exch (sentBy cnt k b)) := by
  unfold gatherAt
  have h : ∀ p ∈ ranks.zipIdx, exch (if p.2 = r then x else sentBy cnt k p.1)
      = ((fun b => exch (sentBy cnt k b)) ∘ Prod.fst) p := by
    intro p hp
    by_cases h : p.2 = r
    · have h1 := List.mem_zipIdx_iff_getElem?.1 hp
      rw [h, hr] at h1
      have h2 : a = p.1 := by simpa using h1
      simp [h, hx, h2]
    · simp [h]
  rw [List.map_congr_left h, ← List.map_map, List.zipIdx_map_fst]

end

/-- the k-th `mpi.allreduce(x, op='SUM')` of lists as it returns on rank `r` of `size`: the concatenation, in rank order, of
    what every rank contributed (`contrib j`; the calling rank: `x`) -/
def concatAt {β : Type} (size r : ℕ) (contrib : ℕ → List β) (x : List β) : List β :=
  ((List.range size).map (fun j => if j = r then x else contrib j)).flatten

theorem concatAt_eq {β : Type} (size r : ℕ) (contrib : ℕ → List β) (x : List β) (hx : x = contrib r) :
    concatAt size r contrib x = ((List.range size).map contrib).flatten := by
  unfold concatAt
  congr 1
  apply List.map_congr_left
  intro j _
  by_cases h : j = r
  · simp [h, hx]
  · simp [h]

/-! ### the evaluation loops -/

/-- the events of the generator `sample_iter` on a block of samples: `update_model(parameters)`, then the weight is yielded
    (with the state of the forward model at that moment) -/
def walk {P W α : Type} (um : W → P → W) : W → List (P × α) → List (W × α)
  | _, [] => []
  | w, (p, wt) :: rest => (um w p, wt) :: walk um (um w p) rest

theorem walk_fold {P W α : Type} (um : W → P → W) (L : List (P × α)) (w : W) (ys : List (W × α)) (c : ℕ) :
    (List.foldl (fun (st : W × List (W × α) × ℕ) (it : P × α) =>
        (um st.1 it.1, st.2.1 ++ [(um st.1 it.1, it.2)], st.2.2 + 1)) (w, ys, c) L).2.1 = ys ++ walk um w L := by
  induction L generalizing w ys c with
  | nil => simp [walk]
  | cons x L ih =>
    obtain ⟨p, wt⟩ := x
    simp only [List.foldl_cons, walk]
    rw [ih]
    simp

theorem walk_snd {P W α : Type} (um : W → P → W) (L : List (P × α)) (w : W) :
    (walk um w L).map Prod.snd = L.map Prod.snd := by
  induction L generalizing w with
  | nil => rfl
  | cons x L ih => obtain ⟨p, wt⟩ := x; simp [walk, ih]

/-- with the state of the forward model read as "the parameters last written", the states at the yields are the parameters
    of the visited samples -/
theorem walk_fst {P α : Type} (L : List (P × α)) (w : P) :
    (walk (fun _ p => p) w L).map Prod.fst = L.map Prod.fst := by
  induction L generalizing w with
  | nil => rfl
  | cons x L ih => obtain ⟨p, wt⟩ := x; simp [walk, ih]

/-- the evaluation loop of `compute_derived_trace`: when the derived value read after `update_model(p)`,
    `initialize_profiles()` depends on `p` only (`value p`), the rank's trace is `value` of its samples in order -/
theorem trace_fold {P W α : Type} (um : W → P → W) (ip : W → W) (dv : W → α) (value : P → α)
    (hdv : ∀ w p, dv (ip (um w p)) = value p) (samples : ℕ → P) (weights : ℕ → α) (L : List ℕ) (w : W)
    (t ws : List α) :
    (List.foldl (fun (st : W × List α × List α) (idx : ℕ) =>
        (ip (um st.1 (samples idx)), st.2.1 ++ [dv (ip (um st.1 (samples idx)))], st.2.2 ++ [weights idx])) (w, t, ws) L).2.1
      = t ++ L.map (fun i => value (samples i)) := by
  induction L generalizing w t ws with
  | nil => simp
  | cons x L ih =>
    simp only [List.foldl_cons, List.map_cons]
    rw [ih, hdv]
    simp

/-- reading a list at indices that are all inside it: numpy's `a[idx]` (the translator's `getD`) is the model's `takeIdx` -/
theorem map_getD_eq_takeIdx {β : Type} (d : β) (gt : List β) (idx : List ℕ) (h : ∀ i ∈ idx, i < gt.length) :
    idx.map (fun i => gt.getD i d) = takeIdx gt idx := by
  unfold takeIdx
  symm
  apply filterMap_eq_map
  intro j hj
  simp [List.getD_eq_getElem?_getD, h j hj]

end Taurex.C18Src
