/-
  C13 — binning sees only the native bins that overlap the target bin: the overlap-weighted mean over a list of
  native bins equals the one over the sub-list of bins with positive overlap.
-/
import Proofs.C05Flux

namespace Taurex.C13L
open Taurex.Binning

theorem sum_map_filter_zero (rows : List (Row ℝ)) (p : Row ℝ → Bool) (f : Row ℝ → ℝ)
    (h : ∀ r ∈ rows, p r = false → f r = 0) :
    (rows.map f).sum = ((rows.filter p).map f).sum := by
  induction rows with
  | nil => simp
  | cons x t ih =>
    have ht : ∀ r ∈ t, p r = false → f r = 0 := fun r hr => h r (List.mem_cons_of_mem _ hr)
    by_cases hp : p x = true
    · simp [List.filter_cons, hp, ih ht]
    · have hp' : p x = false := by simpa using hp
      simp [List.filter_cons, hp', ih ht, h x (List.mem_cons_self) hp']

/-- selection of the native bins that really overlap `[a, b]` -/
noncomputable def overlapping (a b : ℝ) (rows : List (Row ℝ)) : List (Row ℝ) :=
  rows.filter (fun r => decide (0 < overlap a b r))

theorem spec_overlapping (val : Row ℝ → ℝ) (rows : List (Row ℝ)) (a b : ℝ) :
    overlapMeanSpec val rows a b = overlapMeanSpec val (overlapping a b rows) a b := by
  unfold overlapMeanSpec overlapping
  rw [sumL_eq_sum, sumL_eq_sum, sumL_eq_sum, sumL_eq_sum]
  have hz : ∀ r ∈ rows, decide (0 < overlap a b r) = false → overlap a b r = 0 := by
    intro r _ h
    have h' : ¬ 0 < overlap a b r := by simpa using h
    exact le_antisymm (not_lt.1 h') (overlap_nonneg a b r)
  rw [sum_map_filter_zero rows _ (fun r => overlap a b r * val r) (fun r hr h => by rw [hz r hr h]; ring),
      sum_map_filter_zero rows _ (overlap a b) hz]

end Taurex.C13L
