/-
  The rank-strided slices `xs[r::size]`, `r = 0 … size-1`, form a permutation of `xs` (pure List/Nat).
-/
import TaurexModel.Variance
import Mathlib.Data.List.Perm.Basic
import Mathlib.Data.List.Basic

namespace Taurex.Variance

/-- for a valid rank the slice condition `r ≤ i ∧ (i - r) % size = 0` says `i % size = r` -/
theorem stride_pred {r size : ℕ} (hr : r < size) (i : ℕ) :
    (decide (r ≤ i) && (i - r) % size == 0) = decide (i % size = r) := by
  by_cases h : i % size = r
  · have hle : r ≤ i := h ▸ Nat.mod_le i size
    have hd : (i - r) % size = 0 := by
      have h1 := Nat.div_add_mod i size
      have : i - r = size * (i / size) := by omega
      rw [this]; exact Nat.mul_mod_right _ _
    simp [h, hle, hd]
  · have : ¬ (r ≤ i ∧ (i - r) % size = 0) := by
      rintro ⟨hle, hd⟩
      apply h
      obtain ⟨k, hk⟩ := Nat.dvd_of_mod_eq_zero hd
      have hi : i = r + size * k := by omega
      rw [hi, Nat.add_mul_mod_self_left, Nat.mod_eq_of_lt hr]
    simp only [h, decide_false]
    by_cases hle : r ≤ i
    · have hd : (i - r) % size ≠ 0 := fun hd => this ⟨hle, hd⟩
      simp [hd]
    · simp [hle]

section
variable {β : Type} (key : β → ℕ)

theorem filter_lt_succ (L : List β) (m : ℕ) :
    (L.filter (fun x => decide (key x < m)) ++ L.filter (fun x => decide (key x = m))).Perm
      (L.filter (fun x => decide (key x < m + 1))) := by
  induction L with
  | nil => simp
  | cons a L ih =>
    rcases Nat.lt_trichotomy (key a) m with h | h | h
    · have h1 : key a < m + 1 := by omega
      have h2 : key a ≠ m := by omega
      simp only [List.filter_cons, h, h1, h2, decide_true, decide_false, if_true, List.cons_append]
      simpa using ih.cons a
    · have e1 : L.filter (fun x => decide (key x < m)) ++ (a :: L).filter (fun x => decide (key x = m)) =
          L.filter (fun x => decide (key x < m)) ++ a :: L.filter (fun x => decide (key x = m)) := by
        simp [h]
      have e0 : (a :: L).filter (fun x => decide (key x < m)) = L.filter (fun x => decide (key x < m)) := by
        simp [h]
      have e2 : (a :: L).filter (fun x => decide (key x < m + 1)) =
          a :: L.filter (fun x => decide (key x < m + 1)) := by
        simp [h]
      rw [e0, e1, e2]
      exact List.perm_middle.trans (ih.cons a)
    · have h1 : ¬ key a < m + 1 := by omega
      have h2 : ¬ key a < m := by omega
      have h3 : key a ≠ m := by omega
      simp only [List.filter_cons, h1, h2, h3, decide_false]
      simpa using ih

/-- grouping a list by the value of a key below `m` is a permutation of the elements with key below `m` -/
theorem flatten_groups_perm (L : List β) (m : ℕ) :
    ((List.range m).map (fun r => L.filter (fun x => decide (key x = r)))).flatten.Perm
      (L.filter (fun x => decide (key x < m))) := by
  induction m with
  | zero => simp
  | succ m ih =>
    rw [List.range_succ, List.map_append, List.flatten_append]
    simp only [List.map_cons, List.map_nil, List.flatten_cons, List.flatten_nil, List.append_nil]
    exact (ih.append_right _).trans (filter_lt_succ key L m)

end

theorem strided_eq {β : Type} {r size : ℕ} (hr : r < size) (xs : List β) :
    strided r size xs = (xs.zipIdx.filter (fun p => decide (p.2 % size = r))).map (·.1) := by
  unfold strided
  congr 1
  apply List.filter_congr
  intro p _
  exact stride_pred hr p.2

/-- the `size` rank slices together are a permutation of the sample list: each sample exactly once -/
theorem partition_flatten_perm {β : Type} {size : ℕ} (hs : 0 < size) (xs : List β) :
    (partition size xs).flatten.Perm xs := by
  unfold partition
  have h1 : (List.range size).map (fun r => strided r size xs) =
      ((List.range size).map (fun r => xs.zipIdx.filter (fun p => decide (p.2 % size = r)))).map
        (List.map (·.1)) := by
    rw [List.map_map]
    apply List.map_congr_left
    intro r hr
    exact strided_eq (List.mem_range.1 hr) xs
  rw [h1, ← List.map_flatten]
  have h2 := flatten_groups_perm (fun p : β × ℕ => p.2 % size) xs.zipIdx size
  have h3 : xs.zipIdx.filter (fun p => decide (p.2 % size < size)) = xs.zipIdx := by
    rw [List.filter_eq_self]
    intro p _
    simpa using Nat.mod_lt p.2 hs
  rw [h3] at h2
  have h4 := h2.map (·.1)
  rwa [List.zipIdx_map_fst] at h4

theorem partition_length {β : Type} (size : ℕ) (xs : List β) : (partition size xs).length = size := by
  simp [partition]

/-- `strided` on the index list is the arithmetic progression `r, r+size, …` below `n` -/
theorem mem_strided_range {r size n i : ℕ} (hr : r < size) :
    i ∈ strided r size (List.range n) ↔ i < n ∧ i % size = r := by
  rw [strided_eq hr]
  simp only [List.mem_map, List.mem_filter, decide_eq_true_eq]
  constructor
  · rintro ⟨⟨a, b⟩, ⟨hm, hk⟩, rfl⟩
    have := List.mem_zipIdx hm
    simp at this
    obtain ⟨hb, ha⟩ := this
    subst ha
    exact ⟨by simpa using hb, hk⟩
  · rintro ⟨hi, hk⟩
    refine ⟨(i, i), ⟨?_, hk⟩, rfl⟩
    rw [List.mem_zipIdx_iff_getElem?]
    simp [hi]

end Taurex.Variance
